/-
  C05 — compiled and interpreted execution of an expression are indistinguishable.

  Mirrors (klongpy):
    compiler.py            `_ast_to_ir`, `compile_expr`                      -> `astToIR`, `compile`
    backends/base.py       `_collect_params`, `_compiled_helpers`, `vec_fn2` -> `collect`, `binSem`, `vecFn2`
    backends/numpy_backend `_ir_to_source`, `compile_expr_ir`                -> `irToPy`, `PyExpr.render`
    backends/torch_backend `_ir_to_source`                                   -> `irToPy` with the torch tables
    interpreter.py         `eval` (operator / adverb-chain branches), `__call__` (try compiled,
                           fall back on any exception), `x._compiled` memo   -> `Sys.eval`, `runCompiled`
    dyads.py               add subtract multiply divide power equal less more maximum minimum
    monads.py              negate
    adverbs.py             `eval_adverb_over`, `eval_adverb_scan_over`        -> `Interp.*`

  Values are numpy-side values: scalars, rectangular numeric arrays (flat data + shape) and rank-1
  object arrays whose elements are scalars or numeric arrays (what `kg_asarray` builds for ragged
  lists).  Anything deeper is `NV.unmod` (outside the model; it propagates as a value).

  The operator sets and the op -> source tables come from `Klong.Generated.C05Tables`, regenerated from
  the Python sources on every run.
-/
import Klong.Model.Val
import Klong.Generated.C05Tables
namespace Klong.C05

/-! ## values -/

inductive Sc where
  | int (n : Int)
  | real (b : UInt64)
deriving DecidableEq, Repr, Inhabited

/-- numeric ndarray of rank >= 1: shape and row-major data -/
structure Arr where
  shape : List Nat
  data : List Sc
deriving DecidableEq, Repr, Inhabited

/-- element of a rank-1 object array -/
inductive El where
  | sc (s : Sc)
  | arr (a : Arr)
deriving DecidableEq, Repr, Inhabited

inductive NV where
  | sc (s : Sc)
  | arr (a : Arr)
  | obj (xs : List El)
  | undef
  | unmod
deriving DecidableEq, Repr, Inhabited

inductive Res where
  | ok (v : NV)
  | raised
deriving DecidableEq, Repr, Inhabited

def Res.bind (r : Res) (f : NV → Res) : Res :=
  match r with
  | .ok v => f v
  | .raised => .raised

def optRes (o : Option NV) : Res :=
  match o with
  | some v => .ok v
  | none => .raised

/-- what a caller can observe: `:undefined` and an error are one class -/
inductive Obs where
  | val (v : NV)
  | undefOrError
deriving DecidableEq, Repr

def obs : Res → Obs
  | .ok .undef => .undefOrError
  | .ok v => .val v
  | .raised => .undefOrError

/-- the compiled function's outcome as the caller sees it: any exception means that the
    interpreter's answer `fallback` is used (interpreter.py: `except Exception: pass`) -/
def orElse (compiled : Res) (fallback : Res) : Res :=
  match compiled with
  | .ok v => .ok v
  | .raised => fallback

/-! ## scalars -/

def minI64 : Int := -9223372036854775808
def maxI64 : Int := 9223372036854775807
def inRange (n : Int) : Bool := decide (minI64 ≤ n) && decide (n ≤ maxI64)
/-- two's complement wrap to int64 -/
def wrap64 (n : Int) : Int := (n - minI64) % 18446744073709551616 + minI64

def Sc.toFloat : Sc → Float
  | .int n => Float.ofInt n
  | .real b => Float.ofBits b

def Sc.ofFloat (x : Float) : Sc := .real x.toBits

def Sc.isReal : Sc → Bool
  | .real _ => true
  | .int _ => false

def Sc.toReal (s : Sc) : Sc := Sc.ofFloat s.toFloat

def Sc.isZero : Sc → Bool
  | .int n => n == 0
  | .real b => Float.ofBits b == 0.0

inductive AOp where
  | add | sub | mul | max | min
deriving DecidableEq, Repr

def AOp.int : AOp → Int → Int → Int
  | .add, a, b => a + b
  | .sub, a, b => a - b
  | .mul, a, b => a * b
  | .max, a, b => if a ≥ b then a else b
  | .min, a, b => if a ≤ b then a else b

def AOp.flt : AOp → Float → Float → Float
  | .add, a, b => a + b
  | .sub, a, b => a - b
  | .mul, a, b => a * b
  | .max, a, b => if a.isNaN then a else if b.isNaN then b else if a ≥ b then a else b
  | .min, a, b => if a.isNaN then a else if b.isNaN then b else if a ≤ b then a else b

/-- Python arithmetic on two Python numbers (integers are unbounded) -/
def scExact (op : AOp) : Sc → Sc → Sc
  | .int a, .int b => .int (op.int a b)
  | a, b => Sc.ofFloat (op.flt a.toFloat b.toFloat)

/-- numpy ufunc on two scalars / two array elements: int64 arithmetic wraps, a Python integer outside
    int64 cannot be converted (OverflowError) -/
def scNp (op : AOp) : Sc → Sc → Option Sc
  | .int a, .int b => if inRange a && inRange b then some (.int (wrap64 (op.int a b))) else none
  | a, b => some (Sc.ofFloat (op.flt a.toFloat b.toFloat))

def scNegExact : Sc → Sc
  | .int a => .int (-a)
  | .real b => Sc.ofFloat (-(Float.ofBits b))

def scNegNp : Sc → Option Sc
  | .int a => if inRange a then some (.int (wrap64 (-a))) else none
  | .real b => some (Sc.ofFloat (-(Float.ofBits b)))

/-- np.divide on elements: never raises -/
def scDivNp (x y : Sc) : Option Sc := some (Sc.ofFloat (x.toFloat / y.toFloat))
/-- Python `/` on two Python numbers -/
def scDivPy (x y : Sc) : Option Sc := if y.isZero then none else some (Sc.ofFloat (x.toFloat / y.toFloat))

inductive COp where
  | eq | lt | gt
deriving DecidableEq, Repr

def scCmp (op : COp) (x y : Sc) : Option Sc :=
  let b : Bool := match op, x, y with
    | .eq, .int a, .int b => a == b
    | .lt, .int a, .int b => decide (a < b)
    | .gt, .int a, .int b => decide (a > b)
    | .eq, a, b => a.toFloat == b.toFloat
    | .lt, a, b => decide (a.toFloat < b.toFloat)
    | .gt, a, b => decide (a.toFloat > b.toFloat)
  some (.int (if b then 1 else 0))

/-! ## rectangular arrays: numpy broadcasting -/

def prod (s : List Nat) : Nat := s.foldl (· * ·) 1

/-- exactly `n` chunks of `size` elements -/
def chunks {α : Type} : Nat → Nat → List α → List (List α)
  | 0, _, _ => []
  | n + 1, size, d => d.take size :: chunks n size (d.drop size)

def padShape (r : Nat) (s : List Nat) : List Nat := List.replicate (r - s.length) 1 ++ s

/-- result shape of broadcasting two shapes of equal rank -/
def bshape : List Nat → List Nat → Option (List Nat)
  | [], [] => some []
  | na :: sa, nb :: sb =>
    match bshape sa sb with
    | none => none
    | some s =>
      if na = nb then some (na :: s)
      else if na = 1 then some (nb :: s)
      else if nb = 1 then some (na :: s)
      else none
  | _, _ => none

def allSome {α : Type} : List (Option α) → Option (List α)
  | [] => some []
  | none :: _ => none
  | some x :: r => (allSome r).map (x :: ·)

/-- element data of the broadcast of two arrays of equal rank -/
def bdata (f : Sc → Sc → Option Sc) : List Nat → List Nat → List Sc → List Sc → Option (List Sc)
  | [], [], [x], [y] => (f x y).map ([·])
  | na :: sa, nb :: sb, da, db =>
    let ca := chunks na (prod sa) da
    let cb := chunks nb (prod sb) db
    let pairs : Option (List (List Sc × List Sc)) :=
      if na = nb then some (ca.zip cb)
      else if na = 1 then some (cb.map fun y => (ca.headD [], y))
      else if nb = 1 then some (ca.map fun x => (x, cb.headD []))
      else none
    match pairs with
    | none => none
    | some ps => (allSome (ps.map fun p => bdata f sa sb p.1 p.2)).map List.flatten
  | _, _, _, _ => none

/-- a scalar is an array of shape [] -/
def mkNum (s : List Nat) (d : List Sc) : Option NV :=
  match s, d with
  | [], [x] => some (.sc x)
  | [], _ => none
  | s, d => some (.arr ⟨s, d⟩)

def numBin (f : Sc → Sc → Option Sc) (sa : List Nat) (da : List Sc) (sb : List Nat) (db : List Sc) : Option NV :=
  let r := max sa.length sb.length
  let pa := padShape r sa
  let pb := padShape r sb
  match bshape pa pb, bdata f pa pb da db with
  | some s, some d => mkNum s d
  | _, _ => none

/-- (shape, data) view of a numeric value -/
def NV.num? : NV → Option (List Nat × List Sc)
  | .sc s => some ([], [s])
  | .arr a => some (a.shape, a.data)
  | _ => none

def El.toNV : El → NV
  | .sc s => .sc s
  | .arr a => .arr a

def NV.toEl? : NV → Option El
  | .sc s => some (.sc s)
  | .arr a => some (.arr a)
  | _ => none

def El.num (e : El) : List Nat × List Sc :=
  match e with
  | .sc s => ([], [s])
  | .arr a => (a.shape, a.data)

/-- Python-level operator between two elements of object arrays -/
def elBin (fpy fnp : Sc → Sc → Option Sc) (x y : El) : Option El :=
  match x, y with
  | .sc a, .sc b => (fpy a b).map .sc
  | x, y => (numBin fnp x.num.1 x.num.2 y.num.1 y.num.2).bind NV.toEl?

/-- the rows of a numeric array along axis 0 -/
def Arr.rows (a : Arr) : List El :=
  match a.shape with
  | [] => []
  | [_] => a.data.map .sc
  | n :: rest => (chunks n (prod rest) a.data).map fun d => .arr ⟨rest, d⟩

def Arr.len (a : Arr) : Nat := a.shape.headD 0

/-- element lists of two rank-1 operands paired with numpy broadcasting (equal length or length 1) -/
def pair1 {α : Type} (xs ys : List α) : Option (List (α × α)) :=
  if xs.length = ys.length then some (xs.zip ys)
  else match xs, ys with
    | [x], ys => some (ys.map fun y => (x, y))
    | xs, [y] => some (xs.map fun x => (x, y))
    | _, _ => none

def objZip (g : El → El → Option El) (xs ys : List El) : Res :=
  match pair1 xs ys with
  | none => .raised
  | some ps => match allSome (ps.map fun p => g p.1 p.2) with
    | some es => .ok (.obj es)
    | none => .raised

/-- generic binary ufunc / operator on two values: `fpy` between two Python numbers held in object
    arrays, `fnp` between array elements; `objOK = false` for ufuncs whose object loop is outside the model -/
def genBin (fpy fnp : Sc → Sc → Option Sc) (objOK : Bool) (a b : NV) : Res :=
  match a, b with
  | .unmod, _ => .ok .unmod
  | _, .unmod => .ok .unmod
  -- `:undefined` as an operand of a ufunc: TypeError in general, but not against an empty array:
  -- left outside the model
  | .undef, _ => .ok .unmod
  | _, .undef => .ok .unmod
  | .obj xs, .obj ys => if objOK then objZip (elBin fpy fnp) xs ys else .ok .unmod
  | .obj xs, .sc s => if objOK then objZip (elBin fpy fnp) xs [.sc s] else .ok .unmod
  | .sc s, .obj ys => if objOK then objZip (elBin fpy fnp) [.sc s] ys else .ok .unmod
  | .obj xs, .arr a =>
    if a.shape.length = 1 && objOK then objZip (elBin fpy fnp) xs a.rows else .ok .unmod
  | .arr a, .obj ys =>
    if a.shape.length = 1 && objOK then objZip (elBin fpy fnp) a.rows ys else .ok .unmod
  | .sc x, .sc y => optRes (numBin fnp [] [x] [] [y])
  | .sc x, .arr b => optRes (numBin fnp [] [x] b.shape b.data)
  | .arr a, .sc y => optRes (numBin fnp a.shape a.data [] [y])
  | .arr a, .arr b => optRes (numBin fnp a.shape a.data b.shape b.data)

/-- `np.add / np.subtract / np.multiply / np.maximum / np.minimum (a, b)` -/
def npBin (op : AOp) (a b : NV) : Res :=
  genBin (fun x y => some (scExact op x y)) (scNp op)
    (match op with | .max => false | .min => false | _ => true) a b

/-- Python `a + b`, `a - b`, `a * b` in generated code: Python arithmetic on two numbers,
    otherwise `ndarray.__add__` = the ufunc -/
def pyBin (op : AOp) (a b : NV) : Res :=
  match a, b with
  | .sc x, .sc y => .ok (.sc (scExact op x y))
  | a, b => npBin op a b

/-! ## kg_asarray on a list of results (vec_fn2) -/

def anyReal (d : List Sc) : Bool := d.any Sc.isReal
def upcast (d : List Sc) : List Sc := if anyReal d then d.map Sc.toReal else d

def allSc : List NV → Option (List Sc)
  | [] => some []
  | .sc s :: r => (allSc r).map (s :: ·)
  | _ :: _ => none

def allArrShape (s : List Nat) : List NV → Option (List Sc)
  | [] => some []
  | .arr a :: r => if a.shape = s then (allArrShape s r).map (a.data ++ ·) else none
  | _ :: _ => none

def allEl : List NV → Option (List El)
  | [] => some []
  | v :: r => match v.toEl?, allEl r with
    | some e, some es => some (e :: es)
    | _, _ => none

/-- `kg_asarray` of a Python list of results; `boolLeaves`: the results are numpy bools (dtype kind 'b'
    is rejected by kg_asarray and the list becomes an object array) -/
def kgAsarray (boolLeaves : Bool) (rs : List NV) : NV :=
  match allSc rs with
  | some d => if boolLeaves then .unmod else .arr ⟨[d.length], upcast d⟩
  | none =>
    match rs with
    | .arr a0 :: _ =>
      match allArrShape a0.shape rs with
      | some d => if boolLeaves then .unmod else .arr ⟨rs.length :: a0.shape, upcast d⟩
      | none => match allEl rs with
        | some es => .obj es
        | none => .unmod
    | _ => match allEl rs with
      | some es => .obj es
      | none => .unmod

def allOk : List Res → Option (List NV)
  | [] => some []
  | .ok v :: r => (allOk r).map (v :: ·)
  | .raised :: _ => none

/-- base.py `vec_fn2(a, b, f)` on the modelled values (object arrays hold no object arrays, so the
    recursion is one level deep) -/
def vecFn2 (boolLeaves : Bool) (f : NV → NV → Res) (a b : NV) : Res :=
  let fin (rs : List Res) : Res :=
    match allOk rs with
    | none => .raised
    | some vs => if vs.any (· == .unmod) then .ok .unmod else .ok (kgAsarray boolLeaves vs)
  match a, b with
  | .unmod, _ => .ok .unmod
  | _, .unmod => .ok .unmod
  | .obj xs, .obj ys =>
    if xs.length = ys.length then fin ((xs.zip ys).map fun p => f p.1.toNV p.2.toNV) else .raised
  | .obj xs, .arr b =>
    if xs.length = b.len then fin ((xs.zip b.rows).map fun p => f p.1.toNV p.2.toNV) else .raised
  | .arr a, .obj ys =>
    if a.len = ys.length then fin ((a.rows.zip ys).map fun p => f p.1.toNV p.2.toNV) else .raised
  | .obj xs, b => fin (xs.map fun x => f x.toNV b)
  | a, .obj ys => fin (ys.map fun y => f a y.toNV)
  | a, b => f a b

/-! ## the verbs the interpreter applies (dyads.py, monads.py) -/

def isList : NV → Bool
  | .arr _ => true
  | .obj _ => true
  | _ => false

def isObj : NV → Bool
  | .obj _ => true
  | _ => false

/-- some divisor element is zero -/
def hasZero : NV → Bool
  | .sc y => y.isZero
  | .arr a => a.data.any Sc.isZero
  | .obj ys => ys.any fun e => match e with
    | .sc y => y.isZero
    | .arr a => a.data.any Sc.isZero
  | _ => false

/-- dyads.py `eval_dyad_divide`.  Inside an object array a zero divisor raises ZeroDivisionError or
    gives inf/nan depending on whether the two elements are Python numbers or numpy scalars, which the
    values do not record: outside the model. -/
def kgDivide (a b : NV) : Res :=
  match a, b with
  | .unmod, _ => .ok .unmod
  | _, .unmod => .ok .unmod
  | .undef, .sc y => if y.isZero then .ok .undef else .ok .unmod
  | a, .sc y =>
    if !isList a && y.isZero then .ok .undef
    else if isObj a && y.isZero then .ok .unmod
    else genBin scDivPy scDivNp true a (.sc y)
  | a, b => if (isObj a || isObj b) && hasZero b then .ok .unmod else genBin scDivPy scDivNp true a b

/-- dyads.py `eval_dyad_equal / less / more`: vec_fn2 over a broadcasting comparison, `*1` -/
def kgCmp (op : COp) (a b : NV) : Res :=
  let leaf (x y : NV) : Res :=
    match op, x, y with
    | .eq, .undef, .undef => .ok (.sc (.int 1))
    | .eq, .undef, .sc _ => .ok (.sc (.int 0))
    | .eq, .sc _, .undef => .ok (.sc (.int 0))
    | .eq, .undef, _ => .ok .unmod
    | .eq, _, .undef => .ok .unmod
    | _, x, y => genBin (scCmp op) (scCmp op) false x y
  vecFn2 (op != .eq) leaf a b

/-! ### Power -/

def fTrunc (x : Float) : Float := if x < 0 then x.ceil else x.floor

/-- exact integer value of a finite integral float (Python `int(x)`) -/
def floatToIntExact (x : Float) : Int :=
  let (m, e) := x.frExp
  let mant : Int := (m.scaleB 53).toInt64.toInt
  let k := e - 53
  if k ≥ 0 then mant * (2 : Int) ^ k.toNat else mant / (2 : Int) ^ (-k).toNat

/-- C cast double -> int64 (`np.asarray(r, dtype=int)`): out of range and NaN give INT64_MIN -/
def floatToI64 (x : Float) : Int :=
  if x.isNaN || x.isInf then minI64
  else
    let n := floatToIntExact (fTrunc x)
    if inRange n then n else minI64

/-- `a ^ e` modulo 2^64 by repeated squaring (`fuel` bounds the number of binary digits of `e`) -/
def powMod : Nat → Int → Int → Nat → Int
  | 0, _, acc, _ => acc
  | fuel + 1, base, acc, e =>
    if e = 0 then acc
    else powMod fuel (base * base % 18446744073709551616)
      (if e % 2 = 1 then acc * base % 18446744073709551616 else acc) (e / 2)

/-- int64 power as numpy computes it (wraps) -/
def intPow (a : Int) (b : Nat) : Int := wrap64 (powMod (b.log2 + 2) (a % 18446744073709551616) 1 b)

def Sc.isNegInt : Sc → Bool
  | .int n => decide (n < 0)
  | .real _ => false

/-- np.power on elements: integer ** integer stays integer (negative exponents are rejected
    beforehand), anything else is float pow -/
def scPow (x y : Sc) : Option Sc :=
  match x, y with
  | .int a, .int b => if b < 0 then none else some (.int (intPow a b.toNat))
  | a, b => some (Sc.ofFloat (Float.pow a.toFloat b.toFloat))

def scIntegral : Sc → Bool
  | .int _ => true
  | .real b => let x := Float.ofBits b; fTrunc x == x

/-- dyads.py `_e_dyad_power` on numeric operands -/
def ePower (a b : NV) : Res :=
  match a, b with
  | .unmod, _ => .ok .unmod
  | _, .unmod => .ok .unmod
  | a, b =>
    -- backend.power: an integer atom and an integer array are converted to float
    let a' : NV := match a with
      | .sc (.int n) => .sc (Sc.ofFloat (Float.ofInt n))
      | .arr x => .arr ⟨x.shape, x.data.map Sc.toReal⟩
      | a => a
    match genBin scPow scPow false a' b with
    | .raised => .raised
    | .ok (.sc r) =>
      if scIntegral r then
        match r with
        | .int n => .ok (.sc (.int n))
        | .real bits =>
          let x := Float.ofBits bits
          if x.isInf then .raised else .ok (.sc (.int (floatToIntExact x)))
      else .ok (.sc r)
    | .ok (.arr r) =>
      if r.data.all scIntegral then
        .ok (.arr ⟨r.shape, r.data.map fun s => match s with
          | .int n => .int n
          | .real bits => .int (floatToI64 (Float.ofBits bits))⟩)
      else .ok (.arr r)
    | .ok _ => .ok .unmod

/-- dyads.py `eval_dyad_power` -/
def kgPower (a b : NV) : Res := vecFn2 false ePower a b

/-! ### Negate -/

def elNeg (f : Sc → Option Sc) (e : El) : Option El :=
  match e with
  | .sc s => (f s).map .sc
  | .arr a => (allSome (a.data.map f)).map fun d => .arr ⟨a.shape, d⟩

/-- same shape for every element that is a non-empty array (then `np.asarray(…, dtype=object)` in
    `vec_fn` builds a rank-2 object array, which is outside the model) -/
def objStacks (xs : List El) : Bool :=
  match xs with
  | .arr a0 :: _ => xs.all fun e => match e with
    | .arr a => a.shape == a0.shape
    | .sc _ => false
  | _ => false

/-- negation of an array: `np.negative` element-wise; for an object array element by element
    (the interpreter's `vec_fn` rebuilds the array with `np.asarray(…, dtype=object)`, which is a
    rank-2 object array when the elements stack: outside the model on both paths) -/
def negList (a : NV) : Res :=
  match a with
  | .arr a => (match allSome (a.data.map scNegNp) with
    | some d => .ok (.arr ⟨a.shape, d⟩)
    | none => .raised)
  | .obj xs =>
    if objStacks xs then .ok .unmod
    else (match allSome (xs.map (elNeg scNegNp)) with
      | some es => .ok (.obj es)
      | none => .raised)
  | _ => .raised

/-- Python `-x` in generated code -/
def pyNeg (a : NV) : Res :=
  match a with
  | .unmod => .ok .unmod
  | .undef => .raised
  | .sc s => .ok (.sc (scNegExact s))
  | a => negList a

/-- monads.py `eval_monad_negate`: vec_fn(a, np.negative ∘ kg_asarray) -/
def kgNegate (a : NV) : Res :=
  match a with
  | .unmod => .ok .unmod
  | .undef => .raised
  | .sc s => optRes ((scNegNp s).map .sc)
  | a => negList a

/-! ### Over and Scan-Over (adverbs.py) -/

def isAtom : NV → Bool
  | .sc _ => true
  | .undef => true
  | .unmod => true
  | .arr a => a.len == 0
  | .obj xs => xs.isEmpty

/-- the items of a list along axis 0 -/
def items : NV → List NV
  | .arr a => a.rows.map El.toNV
  | .obj xs => xs.map El.toNV
  | _ => []

def fold1 (g : NV → NV → Res) : List NV → Res
  | [] => .raised
  | x :: r => r.foldl (fun acc y => acc.bind fun a => g a y) (.ok x)

def scan1 (g : NV → NV → Res) : List NV → List Res
  | [] => []
  | x :: r => (r.foldl (fun (acc : Res × List Res) y =>
      let n := acc.1.bind fun a => g a y
      (n, acc.2 ++ [n])) (.ok x, [.ok x])).2

/-- fold `g` over the items of a non-empty list (one item: the item itself) -/
def foldItems (g : NV → NV → Res) (a : NV) : Res :=
  match items a with
  | [] => .raised
  | [x] => .ok x
  | xs => fold1 g xs

/-- `ufunc.reduce(a)` along axis 0 for a non-empty list: elements of an object array are combined
    with the Python operator, rows of a numeric array with the ufunc -/
def ufuncReduce (op : AOp) (a : NV) : Res :=
  match a with
  | .arr _ => foldItems (npBin op) a
  | .obj _ => (match op with
      | .max => .ok .unmod
      | .min => .ok .unmod
      | _ => foldItems (pyBin op) a)
  | _ => .raised

/-- adverbs.py Max-Over / Min-Over of a non-atom: `np.max` / `np.min` for a numeric vector, otherwise
    `functools.reduce` of the dyad (`np.maximum` / `np.minimum`) over the items — for a numeric vector the
    two coincide -/
def overMinMax (op : AOp) (a : NV) : Res :=
  match a with
  | .arr _ => foldItems (npBin op) a
  | .obj _ => foldItems (npBin op) a
  | _ => .raised

/-- rebuild an array / object array from the results of a scan over the items of `a` -/
def restack (a : NV) (rs : List Res) : Res :=
  match allOk rs with
  | none => .raised
  | some vs =>
    if vs.any (· == .unmod) then .ok .unmod else
    match a with
    | .arr x =>
      (match x.shape with
       | [_] => (match allSc vs with
          | some d => .ok (.arr ⟨[d.length], d⟩)
          | none => .ok .unmod)
       | n :: rest => (match allArrShape rest vs with
          | some d => .ok (.arr ⟨n :: rest, d⟩)
          | none => .ok .unmod)
       | [] => .ok .unmod)
    | .obj _ => (match allEl vs with
       | some es => .ok (.obj es)
       | none => .ok .unmod)
    | _ => .raised

def ufuncAccumulate (op : AOp) (a : NV) : Res :=
  match a with
  | .arr _ => restack a (scan1 (npBin op) (items a))
  | .obj _ => restack a (scan1 (pyBin op) (items a))
  | _ => .raised

def aopOf (op : String) : Option AOp :=
  if op = "+" then some .add else if op = "*" then some .mul
  else if op = "|" then some .max else if op = "&" then some .min
  else if op = "-" then some .sub else none

/-- adverbs.py `eval_adverb_over` (monadic `f/a`) for the operators with a ufunc shortcut;
    other verbs fold the dyad itself and are outside the model -/
def kgOver (op : String) (a : NV) : Res :=
  if a == .unmod then .ok .unmod
  else if isAtom a then .ok a
  else if op = "+" then ufuncReduce .add a        -- `len(a) == 1 -> a[0]` is ufuncReduce's one-item case
  else if op = "*" then ufuncReduce .mul a
  else if op = "|" then overMinMax .max a
  else if op = "&" then overMinMax .min a
  else match items a with
    | [x] => .ok x
    | _ => .ok .unmod

/-- adverbs.py `eval_adverb_scan_over` -/
def kgScan (op : String) (a : NV) : Res :=
  if a == .unmod then .ok .unmod
  else if isAtom a then .ok a
  else if op = "+" then ufuncAccumulate .add a
  else if op = "*" then ufuncAccumulate .mul a
  else .ok .unmod

/-- the dyads of `create_dyad_functions` that the model knows -/
def kgDyad (op : String) (a b : NV) : Res :=
  if op = "+" then npBin .add a b
  else if op = "-" then npBin .sub a b
  else if op = "*" then npBin .mul a b
  else if op = "|" then npBin .max a b
  else if op = "&" then npBin .min a b
  else if op = "%" then kgDivide a b
  else if op = "^" then kgPower a b
  else if op = "=" then kgCmp .eq a b
  else if op = "<" then kgCmp .lt a b
  else if op = ">" then kgCmp .gt a b
  else .ok .unmod

def kgMonad (op : String) (a : NV) : Res :=
  if op = "-" then kgNegate a else .ok .unmod

/-! ## generated code: numpy calls -/

/-- `np.<ufunc>.reduce(x, initial=None)`: a scalar reduces to itself, an empty operand raises -/
def npReduceInit (op : AOp) (a : NV) : Res :=
  match a with
  | .unmod => .ok .unmod
  | .undef => .ok .undef
  | .sc s => .ok (.sc s)
  | a => if isAtom a then .raised else ufuncReduce op a

/-- `np.<ufunc>.reduce(_kg_numeric(x), initial=None)`: the guard raises for an object array -/
def npReduceNumeric (op : AOp) (a : NV) : Res :=
  match a with
  | .obj _ => .raised
  | a => npReduceInit op a

/-- `np.<ufunc>.accumulate(x)`: raises for a scalar -/
def npAccumulate (op : AOp) (a : NV) : Res :=
  match a with
  | .unmod => .ok .unmod
  | .undef => .raised
  | .sc _ => .raised
  | a => if isAtom a then .ok a else ufuncAccumulate op a

/-! ### the pre-repair templates (kept so that the defects they had stay stated and checked) -/

/-- `np.<ufunc>.reduce(x)`: the ufunc's identity for an empty operand -/
def npReduceIdent (op : AOp) (a : NV) : Res :=
  match a with
  | .unmod => .ok .unmod
  | .undef => .ok .undef
  | .sc s => .ok (.sc s)
  | a =>
    if isAtom a then
      (match op, a with
       | .add, .arr x => if x.shape.length = 1 then .ok (.sc (Sc.real 0)) else .ok .unmod
       | .mul, .arr x => if x.shape.length = 1 then .ok (.sc (Sc.real 4607182418800017408)) else .ok .unmod
       | _, _ => .raised)
    else ufuncReduce op a

/-- `np.cumsum(x)` / `np.cumprod(x)`: flattens -/
def npCumFlat (op : AOp) (a : NV) : Res :=
  match a with
  | .unmod => .ok .unmod
  | .undef => .raised
  | .sc s => .ok (.arr ⟨[1], [s]⟩)
  | .arr x =>
    if x.data.isEmpty then .ok (.arr ⟨[0], []⟩)
    else restack (.arr ⟨[x.data.length], x.data⟩) (scan1 (npBin op) (x.data.map .sc))
  | .obj _ => .ok .unmod

/-- Python `**` on two Python numbers; arrays are outside the model of the old template -/
def pyPowOld (a b : NV) : Res :=
  match a, b with
  | .sc (.int x), .sc (.int y) =>
    if y > 4096 then .ok .unmod
    else if y ≥ 0 then .ok (.sc (.int (x ^ y.toNat)))
    else if x = 0 then .raised
    else .ok (.sc (Sc.ofFloat (Float.pow (Float.ofInt x) (Float.ofInt y))))
  | .sc x, .sc y => .ok (.sc (Sc.ofFloat (Float.pow x.toFloat y.toFloat)))
  | _, _ => .ok .unmod

/-- Python `/`: ZeroDivisionError only between two Python numbers -/
def pyDivOld (a b : NV) : Res :=
  match a, b with
  | .sc x, .sc y => optRes ((scDivPy x y).map .sc)
  | a, b => genBin scDivPy scDivNp true a b

/-- semantics of a binary template (prefix, infix, suffix) -/
def binSem (t : String × String × String) : Option (NV → NV → Res) :=
  if t = ("(", "+", ")") then some (pyBin .add)
  else if t = ("(", "-", ")") then some (pyBin .sub)
  else if t = ("(", "*", ")") then some (pyBin .mul)
  else if t = ("_kg_divide(", ",", ")") then some kgDivide
  else if t = ("_kg_power(", ",", ")") then some kgPower
  else if t = ("_kg_equal(", ",", ")") then some (kgCmp .eq)
  else if t = ("_kg_less(", ",", ")") then some (kgCmp .lt)
  else if t = ("_kg_more(", ",", ")") then some (kgCmp .gt)
  else if t = ("(", "/", ")") then some pyDivOld
  else if t = ("(", "**", ")") then some pyPowOld
  else none

/-- semantics of a unary template (prefix, suffix) -/
def unSem (t : String × String) : Option (NV → Res) :=
  if t = ("_kg_negate(", ")") then some kgNegate
  else if t = ("(-", ")") then some pyNeg
  else if t = ("np.add.reduce(", ", initial=None)") then some (npReduceInit .add)
  else if t = ("np.multiply.reduce(", ", initial=None)") then some (npReduceInit .mul)
  else if t = ("np.maximum.reduce(_kg_numeric(", "), initial=None)") then some (npReduceNumeric .max)
  else if t = ("np.minimum.reduce(_kg_numeric(", "), initial=None)") then some (npReduceNumeric .min)
  else if t = ("np.maximum.reduce(", ", initial=None)") then some (npReduceInit .max)
  else if t = ("np.minimum.reduce(", ", initial=None)") then some (npReduceInit .min)
  else if t = ("np.add.accumulate(", ")") then some (npAccumulate .add)
  else if t = ("np.multiply.accumulate(", ")") then some (npAccumulate .mul)
  else if t = ("np.add.reduce(", ")") then some (npReduceIdent .add)
  else if t = ("np.multiply.reduce(", ")") then some (npReduceIdent .mul)
  else if t = ("np.maximum.reduce(", ")") then some (npReduceIdent .max)
  else if t = ("np.minimum.reduce(", ")") then some (npReduceIdent .min)
  else if t = ("np.cumsum(", ")") then some (npCumFlat .add)
  else if t = ("np.cumprod(", ")") then some (npCumFlat .mul)
  else none

/-! ## expressions, IR, generated Python -/

/-- the part of a Klong syntax tree the property is about -/
inductive Expr where
  | lit (v : Sc) (text : String)          -- numeric literal with its Python `repr`
  | var (s : String)
  | dyad (op : String) (l r : Expr)
  | monad (op : String) (x : Expr)
  | over (op : String) (x : Expr)          -- op/x
  | scan (op : String) (x : Expr)          -- op\x
deriving DecidableEq, Repr, Inhabited

/-- compiler.py IR tuples; `var i` is the parameter `_v{i}` -/
inductive IR where
  | literal (v : Sc) (text : String)
  | var (i : Nat)
  | binop (op : String) (l r : IR)
  | cmp (op : String) (l r : IR)
  | negate (x : IR)
  | reduce (op : String) (x : IR)
  | scan (op : String) (x : IR)
deriving DecidableEq, Repr, Inhabited

/-- the generated Python expression: each node is its f-string template around its operands -/
inductive PyExpr where
  | lit (v : Sc) (text : String)
  | name (i : Nat)
  | bin (t : String × String × String) (l r : PyExpr)
  | un (t : String × String) (x : PyExpr)
deriving DecidableEq, Repr, Inhabited

def PyExpr.render : PyExpr → String
  | .lit _ t => t
  | .name i => "_v" ++ toString i
  | .bin t l r => t.1 ++ l.render ++ t.2.1 ++ r.render ++ t.2.2
  | .un t x => t.1 ++ x.render ++ t.2

structure BTables where
  binop : List (String × (String × String × String))
  cmp : List (String × (String × String × String))
  negate : String × String
  reduce : List (String × (String × String))
  scan : List (String × (String × String))

def numpyTables : BTables :=
  ⟨Tables.numpyBinop, Tables.numpyCmp, Tables.numpyNegate, Tables.numpyReduce, Tables.numpyScan⟩
def torchTables : BTables :=
  ⟨Tables.torchBinop, Tables.torchCmp, Tables.torchNegate, Tables.torchReduce, Tables.torchScan⟩

/-- backends `_ir_to_source` (as a tree; `render` gives the string) -/
def irToPy (T : BTables) : IR → Option PyExpr
  | .literal v t => some (.lit v t)
  | .var i => some (.name i)
  | .binop op l r =>
    match irToPy T l, irToPy T r, T.binop.lookup op with
    | some l', some r', some t => some (.bin t l' r')
    | _, _, _ => none
  | .cmp op l r =>
    match irToPy T l, irToPy T r, T.cmp.lookup op with
    | some l', some r', some t => some (.bin t l' r')
    | _, _, _ => none
  | .negate x =>
    match irToPy T x with
    | some x' => some (.un T.negate x')
    | none => none
  | .reduce op x =>
    match irToPy T x, T.reduce.lookup op with
    | some x', some t => some (.un t x')
    | _, _ => none
  | .scan op x =>
    match irToPy T x, T.scan.lookup op with
    | some x', some t => some (.un t x')
    | _, _ => none

def irToSource (T : BTables) (ir : IR) : Option String := (irToPy T ir).map PyExpr.render

/-- position of a symbol in `var_refs` -/
def findRef : List String → String → Option Nat
  | [], _ => none
  | x :: r, s => if x = s then some 0 else (findRef r s).map (· + 1)

/-- compiler.py `_ast_to_ir`; `refs` is `var_refs` (position = parameter number), `admits` the
    compile-time test on a variable (its current value's type, or nothing after the operand check
    moved to the call) -/
def astToIR (admits : String → Bool) : Expr → List String → Option (IR × List String)
  | .lit v t, refs => some (.literal v t, refs)
  | .var s, refs =>
    if admits s then
      match findRef refs s with
      | some i => some (.var i, refs)
      | none => some (.var refs.length, refs ++ [s])
    else none
  | .dyad op l r, refs =>
    match astToIR admits l refs with
    | none => none
    | some (li, r1) =>
      match astToIR admits r r1 with
      | none => none
      | some (ri, r2) =>
        if op ∈ Tables.arithOps then some (.binop op li ri, r2)
        else if op ∈ Tables.cmpOps then some (.cmp op li ri, r2)
        else none
  | .monad op x, refs =>
    if op = Tables.negateOp then
      match astToIR admits x refs with
      | some (xi, r1) => some (.negate xi, r1)
      | none => none
    else none
  | .over op x, refs =>
    if op ∈ Tables.reduceScanOps then
      match astToIR admits x refs with
      | some (xi, r1) => some (.reduce op xi, r1)
      | none => none
    else none
  | .scan op x, refs =>
    if op ∈ Tables.reduceScanOps then
      match astToIR admits x refs with
      | some (xi, r1) => some (.scan op xi, r1)
      | none => none
    else none

/-- base.py `_collect_params`: parameter numbers in order of first occurrence, after `acc` -/
def collect : IR → List Nat → List Nat
  | .literal _ _, acc => acc
  | .var i, acc => if i ∈ acc then acc else acc ++ [i]
  | .binop _ l r, acc => collect r (collect l acc)
  | .cmp _ l r, acc => collect r (collect l acc)
  | .negate x, acc => collect x acc
  | .reduce _ x, acc => collect x acc
  | .scan _ x, acc => collect x acc

/-- what `compile_expr` returns: `def _expr(params): return py`, and `var_syms` -/
structure Compiled where
  py : PyExpr
  params : List Nat
  varSyms : List String
deriving DecidableEq, Repr

def compile (T : BTables) (admits : String → Bool) (e : Expr) : Option Compiled :=
  match astToIR admits e [] with
  | none => none
  | some (ir, refs) =>
    if Tables.requireVars && refs.isEmpty then none
    else match irToPy T ir with
      | none => none
      | some py => some ⟨py, collect ir [], refs⟩

abbrev Env := String → Option NV

/-- `repr` of a float that is not a Python literal: the generated function raises NameError -/
def notALiteral (t : String) : Bool := t = "inf" || t = "-inf" || t = "nan"

/-- value of the generated expression with the parameters bound by `ρ` -/
def PyExpr.eval (ρ : Nat → Res) : PyExpr → Res
  | .lit v t => if notALiteral t then .raised else .ok (.sc v)
  | .name i => ρ i
  | .bin t l r =>
    match binSem t with
    | none => .raised
    | some f => (l.eval ρ).bind fun a => (r.eval ρ).bind fun b => f a b
  | .un t x =>
    match unSem t with
    | none => .raised
    | some f => (x.eval ρ).bind f

def lookupArg : List (Nat × NV) → Nat → Res
  | [], _ => .raised
  | (j, v) :: r, i => if j = i then .ok v else lookupArg r i

def fetch (env : Env) : List String → Option (List NV)
  | [] => some []
  | s :: r => match env s, fetch env r with
    | some v, some vs => some (v :: vs)
    | _, _ => none

/-- a call site: `args = [ctx[s] for s in var_syms]` (or `compiled_args`, which also tests the
    operands with `callOK`), then `fn(*args)`; any exception is `raised` -/
def runCompiled (callOK : NV → Bool) (c : Compiled) (env : Env) : Res :=
  match fetch env c.varSyms with
  | none => .raised
  | some args =>
    if args.length ≠ c.params.length then .raised
    else if !(args.all callOK) then .raised
    else c.py.eval (lookupArg (c.params.zip args))

/-! ## the tree-walking interpreter and the whole system -/

def envGet (env : Env) (s : String) : Res :=
  match env s with
  | some v => .ok v
  | none => .raised

/-- interpreter.py `eval` without any compiled code (`compile_expr` returning None) -/
def Interp.eval (env : Env) : Expr → Res
  | .lit v _ => .ok (.sc v)
  | .var s => envGet env s
  | .dyad op l r =>
    -- `_y = self.eval(fa[1])` first, then `_x`
    (Interp.eval env r).bind fun b => (Interp.eval env l).bind fun a => kgDyad op a b
  | .monad op x => (Interp.eval env x).bind (kgMonad op)
  | .over op x => (Interp.eval env x).bind (kgOver op)
  | .scan op x => (Interp.eval env x).bind (kgScan op)

/-- interpreter.py `eval` with the compiled fast path: at every operator and adverb-chain node the
    memoised compiled function (if any) is tried first and any exception falls through to the
    interpretation of the node, whose operands are evaluated the same way.  `memo e` is whatever is
    stored in `x._compiled` / the per-text cache for that node: code compiled earlier, possibly under
    other bindings. -/
def Sys.eval (callOK : NV → Bool) (memo : Expr → Option Compiled) (env : Env) : Expr → Res
  | .lit v _ => .ok (.sc v)
  | .var s => envGet env s
  | .dyad op l r =>
    let slow := (Sys.eval callOK memo env r).bind fun b =>
      (Sys.eval callOK memo env l).bind fun a => kgDyad op a b
    match memo (.dyad op l r) with
    | some c => orElse (runCompiled callOK c env) slow
    | none => slow
  | .monad op x =>
    let slow := (Sys.eval callOK memo env x).bind (kgMonad op)
    match memo (.monad op x) with
    | some c => orElse (runCompiled callOK c env) slow
    | none => slow
  | .over op x =>
    let slow := (Sys.eval callOK memo env x).bind (kgOver op)
    match memo (.over op x) with
    | some c => orElse (runCompiled callOK c env) slow
    | none => slow
  | .scan op x =>
    let slow := (Sys.eval callOK memo env x).bind (kgScan op)
    match memo (.scan op x) with
    | some c => orElse (runCompiled callOK c env) slow
    | none => slow

/-- `KlongInterpreter.__call__`: the per-text cache is tried for the whole expression first
    (also for a bare variable), then `self.call(...)` -/
def Sys.top (callOK : NV → Bool) (memo : Expr → Option Compiled) (env : Env) (e : Expr) : Res :=
  match memo e with
  | some c => orElse (runCompiled callOK c env) (Sys.eval callOK memo env e)
  | none => Sys.eval callOK memo env e

/-! ## admissibility: where compiled and interpreted arithmetic are the same arithmetic -/

def scInRange : Sc → Bool
  | .int n => inRange n
  | .real _ => true

def resVal : Res → NV
  | .ok v => v
  | .raised => .unmod

/-- the admissibility condition of a dyadic node, on the operand values -/
def dyadAdm (op : String) (a b : NV) : Bool :=
  match aopOf op, a, b with
  | some o, .sc x, .sc y => scInRange x && scInRange y && scInRange (scExact o x y)
  | _, _, _ => true

/-- the node's own scalar arithmetic stays inside int64 (Python integers are unbounded, numpy's
    are not) -/
def admNode (env : Env) : Expr → Bool
  | .dyad op l r => dyadAdm op (resVal (Interp.eval env l)) (resVal (Interp.eval env r))
  | _ => true

def vars : Expr → List String
  | .lit _ _ => []
  | .var s => [s]
  | .dyad _ l r => vars l ++ vars r
  | .monad _ x => vars x
  | .over _ x => vars x
  | .scan _ x => vars x

def admTree (env : Env) : Expr → Bool
  | .lit v t => admNode env (.lit v t)
  | .var s => admNode env (.var s)
  | .dyad op l r => admNode env (.dyad op l r) && admTree env l && admTree env r
  | .monad op x => admNode env (.monad op x) && admTree env x
  | .over op x => admNode env (.over op x) && admTree env x
  | .scan op x => admNode env (.scan op x) && admTree env x

/-- `Adm e env`: every variable of `e` is bound and every `+ - *` between two scalars in `e` stays in
    int64 (the only operations generated code still does with Python operators).  (Decidable: a `Bool`.) -/
def Adm (env : Env) (e : Expr) : Bool :=
  (vars e).all (fun s => (env s).isSome) && admTree env e

/-! ## wire: Val <-> NV, expressions, the driver -/

def scOfVal : Val → Option Sc
  | .int n => some (.int n)
  | .real b => some (.real b)
  | _ => none

/-- a rectangular numeric list as (shape, data) -/
def rectOf : Nat → Val → Option (List Nat × List Sc)
  | _, .int n => some ([], [.int n])
  | _, .real b => some ([], [.real b])
  | 0, _ => none
  | fuel + 1, .list xs =>
    match allSome (xs.map (rectOf fuel)) with
    | none => none
    | some [] => some ([0], [])
    | some ((s0, d0) :: rest) =>
      if rest.all (fun p => p.1 == s0) then
        some ((rest.length + 1) :: s0, d0 ++ (rest.map (·.2)).flatten)
      else none
  | _, _ => none

/-- what `kg_asarray` builds from a literal list (within the model) -/
def ofVal (v : Val) : NV :=
  match v with
  | .int n => .sc (.int n)
  | .real b => .sc (.real b)
  | .undef => .undef
  | .list xs =>
    match rectOf 8 v with
    | some (s, d) => (match s with
        | [] => .unmod
        | s => .arr ⟨s, upcast d⟩)
    | none =>
      match allSome (xs.map fun x => match rectOf 8 x with
          | some ([], [s]) => some (El.sc s)
          | some (s, d) => (match x with
              | .list _ => some (El.arr ⟨s, upcast d⟩)
              | _ => none)
          | none => none) with
      | some es => .obj es
      | none => .unmod
  | _ => .unmod

def scToVal : Sc → Val
  | .int n => .int n
  | .real b => .real b

def unflat : List Nat → List Sc → Val
  | [], d => (match d with
      | [x] => scToVal x
      | _ => .undef)
  | [_], d => .list (d.map scToVal)
  | n :: rest, d => .list ((chunks n (prod rest) d).map (unflat rest))

def elToVal : El → Val
  | .sc s => scToVal s
  | .arr a => unflat a.shape a.data

def toVal : NV → Option Val
  | .sc s => some (scToVal s)
  | .arr a => some (unflat a.shape a.data)
  | .obj xs => some (.list (xs.map elToVal))
  | .undef => some .undef
  | .unmod => none

def resWire : Res → String
  | .raised => "raised"
  | .ok v => match toVal v with
    | some x => x.toWire
    | none => "unmod"

open Val in
/-- expression S-expressions: `(lit (i 3) 51)` (text as code points …) `(var 97)` `(dy + L R)` `(mo - X)`
    `(ov + X)` `(sc + X)` -/
partial def parseExpr : List Tok → Option (Expr × List Tok)
  | .lp :: .atom "lit" :: r =>
    match Val.parse r with
    | some (v, r1) =>
      (match scOfVal v, parseNats r1 [] with
       | some s, some (cs, r2) => some (.lit s (String.ofList (cs.map Char.ofNat)), r2)
       | _, _ => none)
    | none => none
  | .lp :: .atom "var" :: r =>
    (match parseNats r [] with
     | some (cs, r1) => some (.var (String.ofList (cs.map Char.ofNat)), r1)
     | none => none)
  | .lp :: .atom "dy" :: .atom op :: r =>
    (match parseExpr r with
     | some (l, r1) => (match parseExpr r1 with
        | some (x, .rp :: r2) => some (.dyad op l x, r2)
        | _ => none)
     | none => none)
  | .lp :: .atom "mo" :: .atom op :: r =>
    (match parseExpr r with
     | some (x, .rp :: r1) => some (.monad op x, r1)
     | _ => none)
  | .lp :: .atom "ov" :: .atom op :: r =>
    (match parseExpr r with
     | some (x, .rp :: r1) => some (.over op x, r1)
     | _ => none)
  | .lp :: .atom "sc" :: .atom op :: r =>
    (match parseExpr r with
     | some (x, .rp :: r1) => some (.scan op x, r1)
     | _ => none)
  | _ => none

open Val in
/-- IR S-expressions: `(literal (i 3) 51)` `(v 0)` `(binop + L R)` `(cmp = L R)` `(negate X)`
    `(reduce + X)` `(scan + X)` -/
partial def parseIR : List Tok → Option (IR × List Tok)
  | .lp :: .atom "literal" :: r =>
    match Val.parse r with
    | some (v, r1) =>
      (match scOfVal v, parseNats r1 [] with
       | some s, some (cs, r2) => some (.literal s (String.ofList (cs.map Char.ofNat)), r2)
       | _, _ => none)
    | none => none
  | .lp :: .atom "v" :: .atom n :: .rp :: r => n.toNat?.map fun i => (.var i, r)
  | .lp :: .atom "binop" :: .atom op :: r =>
    (match parseIR r with
     | some (l, r1) => (match parseIR r1 with
        | some (x, .rp :: r2) => some (.binop op l x, r2)
        | _ => none)
     | none => none)
  | .lp :: .atom "cmp" :: .atom op :: r =>
    (match parseIR r with
     | some (l, r1) => (match parseIR r1 with
        | some (x, .rp :: r2) => some (.cmp op l x, r2)
        | _ => none)
     | none => none)
  | .lp :: .atom "negate" :: r =>
    (match parseIR r with
     | some (x, .rp :: r1) => some (.negate x, r1)
     | _ => none)
  | .lp :: .atom "reduce" :: .atom op :: r =>
    (match parseIR r with
     | some (x, .rp :: r1) => some (.reduce op x, r1)
     | _ => none)
  | .lp :: .atom "scan" :: .atom op :: r =>
    (match parseIR r with
     | some (x, .rp :: r1) => some (.scan op x, r1)
     | _ => none)
  | _ => none

open Val in
/-- `(env (97 V) (98 V))`: one-character variable names by code point -/
partial def parseEnv : List Tok → List (String × NV) → Option (List (String × NV) × List Tok)
  | .rp :: r, acc => some (acc.reverse, r)
  | .lp :: .atom n :: r, acc =>
    (match n.toNat?, Val.parse r with
     | some c, some (v, .rp :: r1) => parseEnv r1 ((String.singleton (Char.ofNat c), ofVal v) :: acc)
     | _, _ => none)
  | _, _ => none

def envOf (bs : List (String × NV)) : Env := fun s => bs.lookup s

def hexOfString (s : String) : String := Wire.toHex (s.toUTF8.toList.map (·.toNat))

def irWire : IR → String
  | .literal v t => "(literal " ++ (scToVal v).toWire ++ " " ++ hexOfString t ++ ")"
  | .var i => "(v " ++ toString i ++ ")"
  | .binop op l r => "(binop " ++ op ++ " " ++ irWire l ++ " " ++ irWire r ++ ")"
  | .cmp op l r => "(cmp " ++ op ++ " " ++ irWire l ++ " " ++ irWire r ++ ")"
  | .negate x => "(negate " ++ irWire x ++ ")"
  | .reduce op x => "(reduce " ++ op ++ " " ++ irWire x ++ ")"
  | .scan op x => "(scan " ++ op ++ " " ++ irWire x ++ ")"

structure State where
  unit : Unit := ()

def init : State := {}

def tablesOf (b : String) : Option BTables :=
  if b = "numpy" then some numpyTables else if b = "torch" then some torchTables else none

def optHex (o : Option String) : String :=
  match o with
  | some s => "some:" ++ hexOfString s
  | none => "none"

/-- requests
    * `src <backend> <IR>`                   -> `some:<hex of the source>` | `none`
    * `ev <backend> <admits 0|1> <Expr> (env …)` -> `ir=… src=… params=… syms=… compiled=… interp=… sys=… adm=…`
      (`admits`: whether the compile-time test admits the variables; compiled under the same bindings) -/
def handle (s : State) (ws : List String) : State × String :=
  match ws with
  | "src" :: b :: rest =>
    (match tablesOf b, parseIR (Val.tokenize (" ".intercalate rest)) with
     | some T, some (ir, []) => (s, optHex (irToSource T ir))
     | _, _ => (s, "bad-op"))
  | "ev" :: b :: adm :: rest =>
    (match tablesOf b, parseExpr (Val.tokenize (" ".intercalate rest)) with
     | some T, some (e, .lp :: .atom "env" :: r1) =>
       (match parseEnv r1 [] with
        | some (bs, []) =>
          let env := envOf bs
          let admits : String → Bool := fun v => adm == "1" && (env v).isSome
          let c := compile T admits e
          let irs := match astToIR admits e [] with
            | some (ir, _) => irWire ir
            | none => "none"
          let interp := Interp.eval env e
          let memo : Expr → Option Compiled := fun x => compile T admits x
          let callOK : NV → Bool := fun _ => true
          let sys := Sys.top callOK memo env e
          let (src, params, syms, comp) := match c with
            | some c => (optHex (some c.py.render), ",".intercalate (c.params.map toString),
                         ",".intercalate c.varSyms, resWire (runCompiled callOK c env))
            | none => ("none", "", "", "notcompiled")
          (s, s!"ir={irs};src={src};params={params};syms={syms};compiled={comp};interp={resWire interp};sys={resWire sys};adm={if Adm env e then 1 else 0}")
        | _ => (s, "bad-op"))
     | _, _ => (s, "bad-op"))
  | _ => (s, "bad-op")

end Klong.C05
