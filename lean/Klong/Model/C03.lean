/-
  C03 — function application, projection, locals and conditionals.

  Mirrors (klongpy/interpreter.py, klongpy/types.py; tree with the `fix:` commits of branch
  fix-c03 applied: positional merge_projections, `.f` bound before the locals are stripped,
  monad operand that is a KGCond, local declaration only as an array literal in front of a
  plain list of expressions):
    KlongContext.__getitem__           -> `Ctx.get`        (module scopes are not modelled)
    KlongContext.__setitem__           -> `Ctx.set`        (reserved x y z always go to the top scope;
                                                            otherwise the first scope that has the name;
                                                            otherwise strict-mode test, then the top scope)
    KlongContext.__delitem__           -> `Ctx.del`        (first non read-only scope that has the name)
    KlongContext.push / pop            -> `Ctx.push` / `Ctx.pop`  (`_min_ctx_count`)
    KlongInterpreter.eval              -> `step` / `eval`  (fuelled big step)
    KlongInterpreter.call              -> `callE`
    KlongInterpreter._resolve_fn       -> `resolve1`, applied exactly three times in `resolve3`
    KlongInterpreter._eval_fn          -> `evalFn`         (frame {x,y,z ↦ args} + locals + .f,
                                                            pushed, body evaluated, popped in `finally`)
    types.merge_projections            -> `mergeProjections` (`mergeOld` = the algorithm before the fix)
    types.get_fn_arity                 -> `fnArity`
    KGCond branch of eval              -> `truthy`
    chain_adverbs + eval_adverb_each / eval_adverb_over (function verbs only) -> `evalEachLoop`, `evalOverLoop`
    dyads.eval_dyad_at_index (function on the left) -> the `"@"` case of `step`
  The handful of verbs the grammar needs (`+ - * = ,` dyads, `- # ~` monads on integers and flat
  integer lists) are written locally; the verb/adverb library proper is C01/C02.

  Reference semantics: `subst` (a call is the value of the body with x, y, z replaced by the
  argument values, stopping at nested function literals).
-/
import Klong.Model.Val
namespace Klong.C03
open Klong

/-! ## abstract syntax = run-time values

As in klongpy, programs and values are one universe: `eval` returns data, symbols and function
objects (`KGFn` / `KGCall` nodes) unchanged. -/

inductive Expr where
  | lit (v : Val)                                   -- number, character, string, ndarray, dictionary
  | hole                                            -- `None` in an argument list
  | sym (s : String)                                -- KGSym
  | op1 (o : String) (a : Expr)                     -- KGFn(KGOp(o,1), a, 1)
  | op2 (o : String) (a b : Expr)                   -- KGFn(KGOp(o,2), [a, b], 2)
  | asg (s : String) (e : Expr)                     -- KGFn(KGOp('::',2), [KGSym s, e], 2)
  | fn (a : Expr) (arity : Nat)                     -- KGFn(a, None, arity): function literal / value
  | proj (a : Expr) (args : List Expr) (arity : Nat)   -- KGFn(a, args, arity), args contain `hole`
  | call (a : Expr) (args : List Expr) (arity : Nat)   -- KGCall(a, args, arity)
  | callN (a : Expr) (arity : Nat)                  -- KGCall(a, None, arity)
  | prog (es : List Expr)                           -- Python list of expressions
  | cond (c a b : Expr)                             -- KGCond([c, a, b])
  | each (f arg : Expr)                             -- KGCall([KGAdverb(f,1), KGAdverb("'",1), arg], None, 1)
  | over (f arg : Expr)                             -- KGCall([KGAdverb(f,2), KGAdverb("/",1), arg], None, 1)
  | lam (name : String)                             -- KGLambda wrapping the Python callable `name`
deriving Repr, Inhabited

inductive Err where
  | boom          -- the failing primitive raised
  | undef         -- KlongException("undefined: f")
  | strict        -- KlongException("undefined variable …") of strict mode
  | type          -- any Python TypeError / ValueError / IndexError / KeyError raised by a verb or by the machinery
  | fuel          -- evaluation budget of the model exhausted (RecursionError on the Python side)
  | unmodelled    -- the construct is outside this model (never produced by the closed grammar)
deriving Repr, DecidableEq, Inhabited

def reserved (k : String) : Bool := k == "x" || k == "y" || k == "z"

def isHole : Expr → Bool
  | .hole => true
  | _ => false

/-- `has_none` on an argument list -/
def hasHole (as : List Expr) : Bool := as.any isHole

/-- `isinstance(v, KGFn)` -/
def isKGFn : Expr → Bool
  | .op1 .. | .op2 .. | .asg .. | .fn .. | .proj .. | .call .. | .callN .. | .each .. | .over .. => true
  | _ => false

def isLam : Expr → Bool
  | .lam _ => true
  | _ => false

/-! ## the context (KlongContext) -/

abbrev KV := List (String × Expr)

namespace KV
def get : KV → String → Option Expr
  | [], _ => none
  | (k', v') :: r, k => if k = k' then some v' else get r k
def has (d : KV) (k : String) : Bool := (d.get k).isSome
def keys (d : KV) : List String := d.map (·.1)
/-- `d[k] = v`: overwrite in place or append -/
def put : KV → String → Expr → KV
  | [], k, v => [(k, v)]
  | (k', v') :: r, k, v => if k = k' then (k, v) :: r else (k', v') :: put r k v
def erase : KV → String → KV
  | [], _ => []
  | (k', v') :: r, k => if k = k' then r else (k', v') :: erase r k
end KV

structure Scope where
  ro : Bool := false          -- ReadonlyDict (the system function scope)
  kv : KV := []
deriving Repr, Inhabited

structure Ctx where
  scopes : List Scope         -- index 0 = `_context[0]` = innermost frame
  minCount : Nat              -- `_min_ctx_count`
  strict : Nat := 0           -- `_strict_mode` (KlongInterpreter always passes 0)
deriving Repr, Inhabited

def getScopes : List Scope → String → Option Expr
  | [], _ => none
  | d :: r, k => match d.kv.get k with
    | some v => some v
    | none => getScopes r k

/-- the loop `for d in self._context: if in_map(k, d): d[k] = v; return k`; `none` = not found,
    `some (error _)` = the scope found is the read-only one (`ReadonlyDict` has no `__setitem__`) -/
def setExisting : List Scope → String → Expr → Option (Except Err (List Scope))
  | [], _, _ => none
  | d :: r, k, v =>
    if d.kv.has k then
      if d.ro then some (.error .type) else some (.ok ({ d with kv := d.kv.put k v } :: r))
    else match setExisting r k v with
      | none => none
      | some (.error e) => some (.error e)
      | some (.ok r') => some (.ok (d :: r'))

/-- `set_context_var(self._context[0], k, v)` -/
def putTop : List Scope → String → Expr → List Scope
  | [], _, _ => []
  | d :: r, k, v => { d with kv := d.kv.put k v } :: r

def delScopes : List Scope → String → Option (List Scope)
  | [], _ => none
  | d :: r, k =>
    if d.kv.has k && !d.ro then some ({ d with kv := d.kv.erase k } :: r)
    else (delScopes r k).map (d :: ·)

namespace Ctx

def get (c : Ctx) (k : String) : Option Expr := getScopes c.scopes k

def depth (c : Ctx) : Nat := c.scopes.length

/-- creation of a name that exists nowhere (second half of `__setitem__`) -/
def create (c : Ctx) (k : String) (v : Expr) : Except Err Ctx :=
  if c.strict ≥ 1 && decide (c.scopes.length > c.minCount + 1) then .error .strict
  else match c.scopes with
    | d :: _ => if d.ro then .error .type        -- ReadonlyDict has no __setitem__
                else .ok { c with scopes := putTop c.scopes k v }
    | [] => .error .type                          -- IndexError: deque index out of range

def set (c : Ctx) (k : String) (v : Expr) : Except Err Ctx :=
  if reserved k then create c k v
  else match setExisting c.scopes k v with
    | some (.ok s) => .ok { c with scopes := s }
    | some (.error e) => .error e
    | none => create c k v

/-- a write that leaves the context alone when it raises -/
def setD (c : Ctx) (k : String) (v : Expr) : Ctx :=
  match c.set k v with
  | .ok c' => c'
  | .error _ => c

def del (c : Ctx) (k : String) : Option Ctx :=
  (delScopes c.scopes k).map fun s => { c with scopes := s }

def push (c : Ctx) (d : KV) : Ctx := { c with scopes := { kv := d } :: c.scopes }

def pop (c : Ctx) : Ctx :=
  if c.scopes.length > c.minCount then { c with scopes := c.scopes.tail } else c

end Ctx

/-! ## evaluation monad: state survives an exception (Python `try … finally`) -/

structure St where
  ctx : Ctx
  log : List Expr := []       -- events of the logging primitive
deriving Repr, Inhabited

abbrev Res (α : Type) := Except Err α × St

def M (α : Type) := St → Res α

namespace M
@[inline] def pure' (a : α) : M α := fun s => (.ok a, s)
@[inline] def bind' (m : M α) (f : α → M β) : M β := fun s =>
  match m s with
  | (.ok a, s') => f a s'
  | (.error e, s') => (.error e, s')
instance : Monad M where
  pure := pure'
  bind := bind'
def raise (e : Err) : M α := fun s => (.error e, s)
def getCtx : M Ctx := fun s => (.ok s.ctx, s)
def setCtx (c : Ctx) : M Unit := fun s => (.ok (), { s with ctx := c })
def emit (e : Expr) : M Unit := fun s => (.ok (), { s with log := s.log ++ [e] })
def liftE : Except Err α → M α
  | .ok a => pure a
  | .error e => raise e
/-- `self._context[k] = v` -/
def assign (k : String) (v : Expr) : M Unit := fun s =>
  match s.ctx.set k v with
  | .ok c => (.ok (), { s with ctx := c })
  | .error e => (.error e, s)
/-- `self._context.push(d); try: m finally: self._context.pop()` -/
def framed (d : KV) (m : M α) : M α := fun s =>
  let r := m { s with ctx := s.ctx.push d }
  (r.1, { r.2 with ctx := r.2.ctx.pop })
end M
open M

/-! ## the local verbs (integers and flat integer lists) -/

def asInts : List Val → Option (List Int)
  | [] => some []
  | .int n :: r => (asInts r).map (n :: ·)
  | _ :: _ => none

def ofInts (l : List Int) : Val := .list (l.map .int)

/-- numpy broadcasting of two rank-1 operands: equal lengths, or one of length 1 -/
def zipBroadcast (f : Int → Int → Int) (as bs : List Int) : Option (List Int) :=
  if as.length = bs.length then some (List.zipWith f as bs)
  else match as, bs with
    | [a], _ => some (bs.map (f a))
    | _, [b] => some (as.map (f · b))
    | _, _ => none

def arith (f : Int → Int → Int) : Val → Val → Option Val
  | .int a, .int b => some (.int (f a b))
  | .int a, .list ys => (asInts ys).map fun bs => ofInts (bs.map (f a))
  | .list xs, .int b => (asInts xs).map fun as => ofInts (as.map (f · b))
  | .list xs, .list ys =>
    match asInts xs, asInts ys with
    | some as, some bs => (zipBroadcast f as bs).map ofInts
    | _, _ => none
  | _, _ => none

def toItems : Val → List Val
  | .list xs => xs
  | v => [v]

def dyad (o : String) (a b : Val) : Option Val :=
  if o == "+" then arith (· + ·) a b
  else if o == "-" then arith (· - ·) a b
  else if o == "*" then arith (· * ·) a b
  else if o == "=" then arith (fun x y => if x = y then 1 else 0) a b
  else if o == "," then
    match a, b with
    | .str _, _ => none
    | _, .str _ => none
    | _, _ => some (.list (toItems a ++ toItems b))
  else none

def monad (o : String) (a : Val) : Option Val :=
  if o == "-" then
    match a with
    | .real b => some (.real (b ^^^ 0x8000000000000000))
    | _ => arith (· - ·) (.int 0) a
  else if o == "#" then
    match a with
    | .int n => some (.int n.natAbs)
    | .list xs => some (.int xs.length)
    | .str cs => some (.int cs.length)
    | _ => none
  else if o == "~" then arith (fun _ y => if y = 0 then 1 else 0) (.int 0) a
  else none

/-- Klong truth: `not ((is_number(q) and q == 0) or is_empty(q))` -/
def falsy : Val → Bool
  | .int n => n == 0
  | .real b => b == 0 || b == 0x8000000000000000     -- +0.0 and -0.0
  | .list xs => xs.isEmpty
  | .str cs => cs.isEmpty
  | _ => false

def truthy : Expr → Bool
  | .lit v => !falsy v
  | _ => true

/-! ## arity inference (types.get_fn_arity) -/

def dedup (l : List String) : List String :=
  l.foldl (fun acc s => if acc.contains s then acc else acc ++ [s]) []

/-- `_params(f.a)` for the head of a KGFn: only a symbol (a call through a name or a parameter) is
    looked at; an operator contributes nothing and the body of a nested function literal is its own scope -/
def headParams : Expr → List String
  | .sym s => if reserved s then [s] else []
  | _ => []

mutual
/-- `_params`: the parameter symbols referenced anywhere in an expression — operands of monadic and
    dyadic operators, verb and operand of an adverb, arguments of nested calls, conditionals; not the
    body of a nested function literal -/
def params : Expr → List String
  | .sym s => if reserved s then [s] else []
  | .op1 _ a => params a
  | .op2 _ a b => params a ++ params b
  | .asg s e => (if reserved s then [s] else []) ++ params e
  | .fn a _ => headParams a
  | .callN a _ => headParams a
  | .proj a as _ => headParams a ++ paramsL as
  | .call a as _ => headParams a ++ paramsL as
  | .prog es => paramsL es
  | .cond c a b => params c ++ params a ++ params b
  | .each f arg => params f ++ params arg
  | .over f arg => params f ++ params arg
  | _ => []
def paramsL : List Expr → List String
  | [] => []
  | e :: es => params e ++ paramsL es
end

/-- `get_fn_arity`: the number of distinct parameters referenced in the body; when the body is one
    call / projection through a (non-reserved) name, its holes count too — all of them as one -/
def fnArity (body : Expr) : Nat :=
  let extra : List String := match body with
    | .call (.sym s) as _ => if !reserved s && hasHole as then [""] else []
    | .proj (.sym s) as _ => if !reserved s && hasHole as then [""] else []
    | _ => []
  (dedup (params body ++ extra)).length

/-! ## `_resolve_fn` and `merge_projections` -/

abbrev Layers := List (Option (List Expr))

/-- one pass of `_resolve_fn(f, f_args, f_arity)`; `layers` is f_args, oldest first -/
def resolve1 (c : Ctx) (f : Expr) (layers : Layers) (ar : Nat) : Except Err (Expr × Layers × Nat) :=
  let unwrap (f : Expr) : Except Err (Expr × Layers × Nat) :=
    if ar > 0 then
      match f with
      | .fn a far => .ok (a, layers, far)
      | .callN a far => .ok (a, layers, far)
      | .proj a as far => if hasHole as then .ok (a, layers ++ [some as], far) else .ok (f, layers, ar)
      | .call a as far => if hasHole as then .ok (a, layers ++ [some as], far) else .ok (f, layers, ar)
      | _ => .ok (f, layers, ar)
    else .ok (f, layers, ar)
  match f with
  | .sym s =>
    match c.get s with
    | some v =>
      if isKGFn v || isLam v || !reserved s then unwrap v
      else .ok (f, layers, ar)
    | none => if reserved s then unwrap f else .error .undef
  | _ => unwrap f

/-- "three passes as there are max three arguments: x, y, and z" -/
def resolve3 (c : Ctx) (f : Expr) (layers : Layers) (ar : Nat) : Except Err (Expr × Layers × Nat) := do
  let (f1, l1, a1) ← resolve1 c f layers ar
  let (f2, l2, a2) ← resolve1 c f1 l1 a1
  resolve1 c f2 l2 a2

/-- one layer: its entries go to the open positions left to right; a hole stays a hole -/
def fillLayer : List Expr → List Expr → List Expr
  | [], _ => []
  | s :: ss, [] => s :: ss
  | .hole :: ss, a :: as => a :: fillLayer ss as
  | s :: ss, a :: as => s :: fillLayer ss (a :: as)

def fillLayers (sparse : List Expr) : Layers → Except Err (List Expr)
  | [] => .ok sparse
  | none :: _ => .error .type                      -- len(None)
  | some fa :: r => fillLayers (fillLayer sparse fa) r

/-- `merge_projections(arr)`, `arr` = layers, innermost projection first -/
def mergeProjections (arr : Layers) : Except Err (Option (List Expr)) :=
  match arr with
  | [] => .ok (some [])
  | [a] => .ok a
  | none :: _ => .ok none
  | some l0 :: rest => if !hasHole l0 then .ok (some l0) else (fillLayers l0 rest).map some

/-! ### the algorithm of the pinned tree (before `fix: merge_projections …`), kept for the witness

`i` is never reset between layers, holes of a layer that follow a filled entry are skipped, and
the result is an ndarray, on which `has_none` answers False. -/

def oldInner (fuel : Nat) (sparse : List Expr) (i : Nat) (fa : List Expr) (j : Nat) : List Expr × Nat :=
  match fuel with
  | 0 => (sparse, i)
  | fuel + 1 =>
    if i < sparse.length && j < fa.length then
      if isHole (sparse.getD i .hole) then
        let sparse' := sparse.set i (fa.getD j .hole)
        let j' := j + 1 + ((fa.drop (j + 1)).takeWhile isHole).length
        oldInner fuel sparse' (i + 1) fa j'
      else oldInner fuel sparse (i + 1) fa j
    else (sparse, i)

def oldOuter (sparse : List Expr) (i : Nat) : List (List Expr) → List Expr
  | [] => sparse
  | fa :: r =>
    if i < sparse.length then
      let (s', i') := oldInner (sparse.length + 1) sparse i fa 0
      oldOuter s' i' r
    else sparse

def mergeOld (l0 : List Expr) (rest : List (List Expr)) : List Expr := oldOuter l0 0 rest

/-! ## the evaluator -/

/-- `KlongInterpreter.call`: a KGFn is re-wrapped as a KGCall before `eval` -/
def callE (ev : Expr → M Expr) (e : Expr) : M Expr :=
  match e with
  | .fn a ar => ev (.callN a ar)
  | .proj a as ar => ev (.call a as ar)
  | e => ev e

/-- `{x: self.call(q) for p, q in zip(['x','y','z'], f_args)}` -/
def bindArgs (ev : Expr → M Expr) : List String → List Expr → M KV
  | p :: ps, a :: as => do
    let v ← callE ev a
    let r ← bindArgs ev ps as
    pure ((p, v) :: r)
  | _, _ => pure []

def nameOf (cs : List Nat) : String := String.ofList (cs.map Char.ofNat)

def symNames : List Val → Option (List String)
  | [] => some []
  | .sym cs :: r => (symNames r).map (nameOf cs :: ·)
  | _ :: _ => none

/-- the `';'` elements of a declaration written `[a;b]` -/
def isSep : Val → Bool
  | .str [59] => true
  | .chr 59 => true
  | _ => false

/-- `f[0]` is an array literal, non-empty, and apart from separators every element is a symbol -/
def localNames : Expr → Option (List String)
  | .lit (.list (v :: vs)) =>
    let ns := (v :: vs).filter (fun q => !isSep q)
    if ns.isEmpty then none else symNames ns
  | _ => none

/-- the local-declaration test of `_eval_fn`: `(names, f[1:])`.  Only a plain list of two or more
    expressions whose first one is an array literal of symbols (conditionals and data literals, which
    are list-like too, are not such bodies) -/
def splitLocals (f : Expr) : Option (List String × Expr) :=
  match f with
  | .prog (e0 :: e1 :: es) => (localNames e0).map fun ns => (ns, .prog (e1 :: es))
  | _ => none

/-- `for q in params: if q not in ctx: ctx[q] = q` -/
def addLocals (d : KV) : List String → KV
  | [] => d
  | n :: ns => addLocals (if d.has n then d else d.put n (.sym n)) ns

/-- the Python callables the harness installs: `boom(x)` raises, `log(x)` records x and returns it -/
def runPrim (name : String) : M Expr := do
  let c ← getCtx
  match c.get "x" with
  | none => raise .type
  | some v =>
    if name == "boom" then raise .boom
    else if name == "log" then do emit v; pure v
    else raise .unmodelled

/-- first half of `_eval_fn`: three resolution passes, merge, arity / hole test.
    `none` = "return x" (the call is a partial application and evaluates to itself);
    `some (f, f_args)` = the function object and its merged argument list -/
def prepare (c : Ctx) (a : Expr) (args : Option (List Expr)) (ar : Nat) :
    Except Err (Option (Expr × Option (List Expr))) :=
  match resolve3 c a [args] ar with
  | .error e => .error e
  | .ok (f, layers, far) =>
    match mergeProjections layers.reverse with
    | .error e => .error e
    | .ok none => if 0 < far then .ok none else .ok (some (f, none))
    | .ok (some as) => if as.length < far || hasHole as then .ok none else .ok (some (f, some as))

/-- the frame of a call: {x,y,z ↦ args} + declared locals + .f; and the body left to evaluate -/
def frameOf (f : Expr) (frame0 : KV) : KV × Expr :=
  match splitLocals f with
  | some (ns, rest) => ((addLocals frame0 ns).put ".f" f, rest)
  | none => (frame0.put ".f" f, f)

/-- second half of `_eval_fn`: bind, push, evaluate, pop in `finally` -/
def bindFrame (ev : Expr → M Expr) (merged : Option (List Expr)) : M KV :=
  match merged with
  | none => pure []
  | some as => bindArgs ev ["x", "y", "z"] as

/-- `f(self, self._context) if issubclass(type(f), KGLambda) else self.call(f)` -/
def runBody (ev : Expr → M Expr) (body : Expr) : M Expr :=
  match body with
  | .lam name => runPrim name
  | body => callE ev body

def applyFn (ev : Expr → M Expr) (f : Expr) (merged : Option (List Expr)) : M Expr := do
  let frame0 ← bindFrame ev merged
  framed (frameOf f frame0).1 (runBody ev (frameOf f frame0).2)

/-- `_eval_fn(x)` with `x = KGCall(a, args, ar)`; `self` is x itself (returned for a partial application) -/
def evalFn (ev : Expr → M Expr) (self a : Expr) (args : Option (List Expr)) (ar : Nat) : M Expr := do
  let c ← getCtx
  let p ← liftE (prepare c a args ar)
  match p with
  | none => pure self
  | some (f, merged) => applyFn ev f merged

def codesOf (s : String) : List Nat := s.toList.map Char.toNat

/-- `kg_asarray` of the results of Each: data and symbol values become the members of one list -/
def litList : List Expr → Option (List Val)
  | [] => some []
  | .lit v :: r => (litList r).map (v :: ·)
  | .sym s :: r => (litList r).map (.sym (codesOf s) :: ·)
  | _ :: _ => none

/-- a member of a list handed to a function by an adverb or by `@`: it travels inside a `KGCall`
    argument list and is therefore EVALUATED again by `_eval_fn` (`self.call(q)`) — a symbol member is
    looked up as a variable (known finding `subst:symbol-member-defined`) -/
def ofMember : Val → Expr
  | .sym cs => .sym (nameOf cs)
  | v => .lit v

def evalEachLoop (ev : Expr → M Expr) (f : Expr) : List Val → M (List Expr)
  | [] => pure []
  | x :: xs => do
    let u ← ev (.call f [ofMember x] 1)
    let r ← evalEachLoop ev f xs
    pure (u :: r)

def evalOverLoop (ev : Expr → M Expr) (f : Expr) (acc : Expr) : List Val → M Expr
  | [] => pure acc
  | x :: xs => do
    let acc' ← ev (.call f [acc, ofMember x] 2)
    evalOverLoop ev f acc' xs

/-- `[self.call(y) for y in x][-1]`; the empty list evaluates to itself -/
def evalProg (ev : Expr → M Expr) (last : Expr) : List Expr → M Expr
  | [] => pure last
  | x :: xs => do
    let v ← callE ev x
    evalProg ev v xs

/-- one unfolding of `KlongInterpreter.eval`; `ev` evaluates sub-expressions -/
def step (ev : Expr → M Expr) (e : Expr) : M Expr :=
  match e with
  | .sym s => do
    let c ← getCtx
    match c.get s with
    | some v => pure v
    | none =>
      if reserved s then pure e
      else do assign s e; pure e
  | .op1 o a => do
    let x ← ev a
    match x with
    | .lit v => match monad o v with
      | some r => pure (.lit r)
      | none => raise .type
    | _ => raise .type
  | .op2 o a b => do
    let y ← ev b                                  -- the right operand is evaluated first
    let x ← ev a
    if o == "@" then
      if isKGFn x || isLam x || (match x with | .sym _ => true | _ => false) then
        match y with
        | .lit (.list ys) => ev (.call x (ys.map ofMember) 1)
        | _ => ev (.call x [y] 1)
      else raise .unmodelled
    else match x, y with
      | .lit v, .lit w => match dyad o v w with
        | some r => pure (.lit r)
        | none => raise .type
      | _, _ => raise .type
  | .asg s rhs => do
    let v ← ev rhs
    assign s v
    pure v
  | .call a as ar => evalFn ev e a (some as) ar
  | .callN a ar => evalFn ev e a none ar
  | .cond c a b => do
    let q ← callE ev c
    if truthy q then callE ev a else callE ev b
  | .prog es => evalProg ev e es
  | .each f arg => do
    let a ← ev arg
    match a with
    | .lit (.list xs) =>
      if xs.isEmpty then pure a
      else do
        let r ← evalEachLoop ev f xs
        match litList r with
        | some vs => pure (.lit (.list vs))
        | none => raise .unmodelled
    | .lit (.str _) => raise .unmodelled
    | .lit (.dict _) => raise .unmodelled
    | _ => ev (.call f [a] 1)
  | .over f arg => do
    let a ← ev arg
    match a with
    | .lit (.list []) => pure a
    | .lit (.list [x]) => pure (ofMember x)
    | .lit (.list (x :: xs)) => evalOverLoop ev f (ofMember x) xs
    | .lit (.str []) => pure a
    | .lit (.str _) => raise .unmodelled
    | _ => pure a
  | _ => pure e                                     -- data, holes, function objects evaluate to themselves

def eval : Nat → Expr → M Expr
  | 0, _ => raise .fuel
  | n + 1, e => step (eval n) e

/-- a whole program text as `KlongInterpreter.__call__` runs it -/
def run (fuel : Nat) (es : List Expr) : M Expr := eval fuel (.prog es)

/-! ## reference semantics: substitution -/

def bound (σ : KV) (k : String) : Option Expr := σ.get k

mutual
/-- replace the parameters by the argument values; a nested function literal rebinds x, y, z
    and `.f`, so substitution stops there -/
def subst (σ : KV) : Expr → Expr
  | .sym s => match bound σ s with
    | some v => v
    | none => .sym s
  | .op1 o a => .op1 o (subst σ a)
  | .op2 o a b => .op2 o (subst σ a) (subst σ b)
  | .asg s e => .asg s (subst σ e)
  | .call a as ar => .call (subst σ a) (substL σ as) ar
  | .proj a as ar => .proj (subst σ a) (substL σ as) ar
  | .callN a ar => .callN (subst σ a) ar
  | .prog es => .prog (substL σ es)
  | .cond c a b => .cond (subst σ c) (subst σ a) (subst σ b)
  | .each f arg => .each (subst σ f) (subst σ arg)
  | .over f arg => .over (subst σ f) (subst σ arg)
  | e => e                                          -- literals, holes, nested `fn`, lam
def substL (σ : KV) : List Expr → List Expr
  | [] => []
  | e :: es => subst σ e :: substL σ es
end

/-! ## wire format

    (lit V) H (sym n) (op1 o e) (op2 o e e) (asg n e) (fn e k) (proj e (e…) k) (call e (e…) k)
    (callN e k) (prog e…) (cond e e e) (each e e) (over e e) (lam n)
  `V` is a `Klong.Val` in its own wire format; operator names are sent as decimal code points
  joined by `.` so that no bracket or blank occurs in a token. -/

def opToken (o : String) : String := ".".intercalate (o.toList.map fun c => toString c.toNat)

def opOfToken (t : String) : Option String :=
  ((t.splitOn ".").mapM fun (p : String) => p.toNat?).map fun ns => String.ofList (ns.map Char.ofNat)

mutual
def toWire : Expr → String
  | .lit v => "(lit " ++ v.toWire ++ ")"
  | .hole => "H"
  | .sym s => "(sym " ++ s ++ ")"
  | .op1 o a => "(op1 " ++ opToken o ++ " " ++ toWire a ++ ")"
  | .op2 o a b => "(op2 " ++ opToken o ++ " " ++ toWire a ++ " " ++ toWire b ++ ")"
  | .asg s e => "(asg " ++ s ++ " " ++ toWire e ++ ")"
  | .fn a k => "(fn " ++ toWire a ++ " " ++ toString k ++ ")"
  | .proj a as k => "(proj " ++ toWire a ++ " (" ++ toWireL as ++ ") " ++ toString k ++ ")"
  | .call a as k => "(call " ++ toWire a ++ " (" ++ toWireL as ++ ") " ++ toString k ++ ")"
  | .callN a k => "(callN " ++ toWire a ++ " " ++ toString k ++ ")"
  | .prog es => "(prog " ++ toWireL es ++ ")"
  | .cond c a b => "(cond " ++ toWire c ++ " " ++ toWire a ++ " " ++ toWire b ++ ")"
  | .each f a => "(each " ++ toWire f ++ " " ++ toWire a ++ ")"
  | .over f a => "(over " ++ toWire f ++ " " ++ toWire a ++ ")"
  | .lam n => "(lam " ++ n ++ ")"
def toWireL : List Expr → String
  | [] => ""
  | [e] => toWire e
  | e :: es => toWire e ++ " " ++ toWireL es
end

mutual
partial def parseE : List Val.Tok → Option (Expr × List Val.Tok)
  | .atom "H" :: r => some (.hole, r)
  | .lp :: .atom "lit" :: r =>
    match Val.parse r with
    | some (v, .rp :: r') => some (.lit v, r')
    | _ => none
  | .lp :: .atom "sym" :: .atom n :: .rp :: r => some (.sym n, r)
  | .lp :: .atom "lam" :: .atom n :: .rp :: r => some (.lam n, r)
  | .lp :: .atom "op1" :: .atom o :: r => do
    let o ← opOfToken o
    let (a, r) ← parseE r
    match r with
    | .rp :: r => some (.op1 o a, r)
    | _ => none
  | .lp :: .atom "op2" :: .atom o :: r => do
    let o ← opOfToken o
    let (a, r) ← parseE r
    let (b, r) ← parseE r
    match r with
    | .rp :: r => some (.op2 o a b, r)
    | _ => none
  | .lp :: .atom "asg" :: .atom n :: r => do
    let (a, r) ← parseE r
    match r with
    | .rp :: r => some (.asg n a, r)
    | _ => none
  | .lp :: .atom "fn" :: r => do
    let (a, r) ← parseE r
    match r with
    | .atom k :: .rp :: r => k.toNat?.map fun k => (.fn a k, r)
    | _ => none
  | .lp :: .atom "callN" :: r => do
    let (a, r) ← parseE r
    match r with
    | .atom k :: .rp :: r => k.toNat?.map fun k => (.callN a k, r)
    | _ => none
  | .lp :: .atom "proj" :: r => do
    let (a, r) ← parseE r
    match r with
    | .lp :: r => do
      let (as, r) ← parseL r []
      match r with
      | .atom k :: .rp :: r => k.toNat?.map fun k => (.proj a as k, r)
      | _ => none
    | _ => none
  | .lp :: .atom "call" :: r => do
    let (a, r) ← parseE r
    match r with
    | .lp :: r => do
      let (as, r) ← parseL r []
      match r with
      | .atom k :: .rp :: r => k.toNat?.map fun k => (.call a as k, r)
      | _ => none
    | _ => none
  | .lp :: .atom "prog" :: r => (parseL r []).map fun (es, r) => (.prog es, r)
  | .lp :: .atom "cond" :: r => do
    let (c, r) ← parseE r
    let (a, r) ← parseE r
    let (b, r) ← parseE r
    match r with
    | .rp :: r => some (.cond c a b, r)
    | _ => none
  | .lp :: .atom "each" :: r => do
    let (f, r) ← parseE r
    let (a, r) ← parseE r
    match r with
    | .rp :: r => some (.each f a, r)
    | _ => none
  | .lp :: .atom "over" :: r => do
    let (f, r) ← parseE r
    let (a, r) ← parseE r
    match r with
    | .rp :: r => some (.over f a, r)
    | _ => none
  | _ => none
/-- expressions up to the closing parenthesis -/
partial def parseL : List Val.Tok → List Expr → Option (List Expr × List Val.Tok)
  | .rp :: r, acc => some (acc.reverse, r)
  | ts, acc => match parseE ts with
    | some (e, r) => parseL r (e :: acc)
    | none => none
end

def ofWire (s : String) : Option Expr :=
  match parseE (Val.tokenize s) with
  | some (e, []) => some e
  | _ => none

/-- every function literal of an AST carries the arity `fnArity` infers from its body -/
partial def aritiesOk : Expr → Bool
  | .fn a k => fnArity a == k && aritiesOk a
  | .op1 _ a => aritiesOk a
  | .op2 _ a b => aritiesOk a && aritiesOk b
  | .asg _ e => aritiesOk e
  | .proj a as _ => aritiesOk a && as.all aritiesOk
  | .call a as _ => aritiesOk a && as.all aritiesOk
  | .callN a _ => aritiesOk a
  | .prog es => es.all aritiesOk
  | .cond c a b => aritiesOk c && aritiesOk a && aritiesOk b
  | .each f a => aritiesOk f && aritiesOk a
  | .over f a => aritiesOk f && aritiesOk a
  | _ => true

/-! ## driver

  State: the interpreter state of the current case.  Requests:
    new                          fresh interpreter (global scope + two system scopes, min 2, strict 0)
    def <name> <expr>            bind a global from outside (`klong[name] = …`)
    run <fuel> <expr>            evaluate a program (a `prog` node); reply
                                 `ok <value>` / `err <class>`  depth=<n> log=[…] vars=<name>=<value>;…
    subst <expr> <v> <v> <v>…    reference: the body with x y z replaced
    arity <expr>                 fnArity of a body
    ctx new <strict> <min> <n>   bare KlongContext with n scopes (last one read-only)
    ctx set/get/del/push/pop …   one KlongContext operation; reply result + all scopes
-/

def showErr : Err → String
  | .boom => "boom"
  | .undef => "undef"
  | .strict => "strict"
  | .type => "type"
  | .fuel => "fuel"
  | .unmodelled => "unmodelled"

def showKV (d : KV) : String :=
  let items := (d.map fun p => p.1 ++ "=" ++ toWire p.2).toArray.qsort (· < ·)
  ";".intercalate items.toList

def showScopes (c : Ctx) : String :=
  " | ".intercalate (c.scopes.map fun d => (if d.ro then "ro:" else "") ++ showKV d.kv)

def showLog (l : List Expr) : String := "[" ++ ",".intercalate (l.map toWire) ++ "]"

def freshCtx : Ctx := { scopes := [{}, {}, { ro := true }], minCount := 2, strict := 0 }

def init : St := { ctx := freshCtx }

def globalsOf (c : Ctx) : KV :=
  match c.scopes.reverse with
  | _ :: _ :: g :: _ => g.kv
  | _ => []

def digest (s : St) : String :=
  s!"depth={s.ctx.depth} log={showLog s.log} vars={showKV (globalsOf s.ctx)}"

def restOf (ws : List String) : String := " ".intercalate ws

def parseKV (s : String) : Option KV :=
  (Wire.splitOnChar s ',').mapM fun item =>
    match item.splitOn ":" with
    | [k, v] => v.toInt?.map fun n => (k, Expr.lit (.int n))
    | _ => none

def handle (s : St) (ws : List String) : St × String :=
  match ws with
  | ["new"] => (init, "ok " ++ digest init)
  | "def" :: name :: rest =>
    match ofWire (restOf rest) with
    | some e =>
      match s.ctx.set name e with
      | .ok c => let s' := { s with ctx := c }; (s', "ok " ++ digest s')
      | .error er => (s, "err " ++ showErr er)
    | none => (s, "bad-op")
  | "run" :: fuel :: rest =>
    match fuel.toNat?, ofWire (restOf rest) with
    | some n, some e =>
      if !aritiesOk e then (s, "arity-mismatch")
      else
        let (r, s') := eval n e { s with log := [] }
        let out := match r with
          | .ok v => "ok " ++ toWire v
          | .error er => "err " ++ showErr er
        (s', out ++ " " ++ digest s')
    | _, _ => (s, "bad-op")
  | "subst" :: rest =>
    match Val.tokenize (restOf rest) |> fun ts => parseL (ts ++ [.rp]) [] with
    | some (body :: vals, []) =>
      let σ : KV := List.zip ["x", "y", "z"] vals
      (s, "ok " ++ toWire (subst σ body))
    | _ => (s, "bad-op")
  | "arity" :: rest =>
    match ofWire (restOf rest) with
    | some e => (s, s!"ok {fnArity e}")
    | none => (s, "bad-op")
  | ["ctx", "new", strict, min, n] =>
    match strict.toNat?, min.toNat?, n.toNat? with
    | some st, some m, some (k + 1) =>
      let scopes := List.replicate k ({} : Scope) ++ [{ ro := true }]
      let c : Ctx := { scopes, minCount := m, strict := st }
      ({ ctx := c }, "ok " ++ showScopes c)
    | _, _, _ => (s, "bad-op")
  | ["ctx", "seed", idx, kvs] =>
    -- fill scope idx directly (construction of the system scopes)
    match idx.toNat?, parseKV kvs with
    | some i, some d =>
      let scopes := s.ctx.scopes.mapIdx fun j sc => if j == i then { sc with kv := d } else sc
      let c := { s.ctx with scopes }
      ({ s with ctx := c }, "ok " ++ showScopes c)
    | _, _ => (s, "bad-op")
  | ["ctx", "set", k, v] =>
    match v.toInt? with
    | some n =>
      match s.ctx.set k (.lit (.int n)) with
      | .ok c => ({ s with ctx := c }, "ok " ++ showScopes c)
      | .error er => (s, "err:" ++ showErr er ++ " " ++ showScopes s.ctx)
    | none => (s, "bad-op")
  | ["ctx", "get", k] =>
    match s.ctx.get k with
    | some v => (s, "val:" ++ toWire v ++ " " ++ showScopes s.ctx)
    | none => (s, "keyerror " ++ showScopes s.ctx)
  | ["ctx", "del", k] =>
    match s.ctx.del k with
    | some c => ({ s with ctx := c }, "ok " ++ showScopes c)
    | none => (s, "keyerror " ++ showScopes s.ctx)
  | ["ctx", "push", kvs] =>
    match parseKV kvs with
    | some d => let c := s.ctx.push d; ({ s with ctx := c }, "ok " ++ showScopes c)
    | none => (s, "bad-op")
  | ["ctx", "push"] => let c := s.ctx.push []; ({ s with ctx := c }, "ok " ++ showScopes c)
  | ["ctx", "pop"] =>
    let c := s.ctx.pop
    ({ s with ctx := c }, (if c.depth < s.ctx.depth then "popped " else "none ") ++ showScopes c)
  | _ => (s, "bad-op")

end Klong.C03
