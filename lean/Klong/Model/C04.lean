/-
  C04 — evaluation depends only on program text and variable state; values are immutable.

  Two machines over one closed statement grammar.

  * `Interp` (the implementation model): the interpreter as a state machine
    ⟨frames (variables), heap, dictionary heap, parse-time module, parse cache, compiled
    cache, node memo⟩.  Arrays are heap cells; a cell is either a base array or a *view* of
    an older cell (numpy slice / flip / row).  Every verb is classified by `monadSem` /
    `dyadSem` as  fresh (`Sem.val`) | view-of-argument (`Sem.view`) ; dictionaries are
    updated in place in the dictionary heap.
  * `Ref` (the specification): no cache of any kind, arrays by value, every statement is
    parsed from scratch and interpreted (never compiled).

  Mirrors (klongpy):
    KlongContext.__getitem__ / __setitem__ / __iter__      -> `lookup` / `assign` / `snapshot`
    KlongInterpreter.__call__  (_parse_cache under (text, module), _compiled_cache under the
      same key, cleared by __setitem__)                    -> `Interp.step`
    KlongInterpreter.eval (x._compiled memo on shared nodes, compiled call with fallback,
      right operand first, `::`, KGSym self-binding)       -> `Interp.evalWith`
    KlongInterpreter._eval_fn (push {x: arg}, body, pop)   -> `call` case
    compiler.compile_expr / compiled_args / numpy backend  -> `compile` / `admissible` / `pyEval`
    parser.read_sym (module qualification), _factor's parse_module side effect
                                                           -> `parseQ` (the theorems hold for ANY `parse`)
    sys_fn.eval_sys_module + start_module/stop_module      -> `runModule`
    dyads.eval_dyad_amend (np.array clone, np.put), _e_dyad_amend_in_depth, eval_dyad_take,
      eval_dyad_drop, eval_dyad_at_index, eval_dyad_join, eval_dyad_add/…,
      monads.eval_monad_reverse / eval_monad_size, adverb over/scan on operators
                                                           -> `dyadSem` / `monadSem`
    parser.copy_lambda (dictionary literal deep-copied at each evaluation) -> `dlit` case

  `Cfg` carries the knobs that distinguish the pinned tree, the repaired tree and three
  hand-made mutants; the theorems are about `Cfg.repaired` (and every `Cfg.Good`), the
  negations are witnessed by `decide` on the other settings.
-/
import Klong.Model.Wire
namespace Klong.C04
open Klong.Wire

/-! ## names and values -/

/-- a symbol: base name (an index into the harness's name table) and the module qualifier
    that `read_sym` appended ("a`m1") -/
structure QName where
  base : Nat
  mod : Option Nat := none
deriving DecidableEq, Repr

/-- the reserved function argument `x` is never qualified -/
def xBase : Nat := 7
def xName : QName := ⟨xBase, none⟩

/-- data values of the modelled universe (flat: no nested inductive, so `decide` works) -/
inductive V where
  | int (n : Int)
  | chr (c : Nat)
  | str (cs : List Nat)
  | sym (q : QName)
  | ints (xs : List Int)            -- rank-1 integer array
  | mat (rows : List (List Int))    -- rank-2 integer array
  | undef
deriving DecidableEq, Repr

/-- what a numpy view selects from its base -/
inductive Sel where
  | slice (lo hi : Nat)    -- b[lo:hi] on axis 0
  | rev                    -- flip on axis 0
  | row (i : Nat)          -- a[i] of a rank-2 array
deriving DecidableEq, Repr

def applySel : Sel → V → V
  | .slice lo hi, .ints xs => .ints ((xs.take hi).drop lo)
  | .slice lo hi, .mat rows => .mat ((rows.take hi).drop lo)
  | .rev, .ints xs => .ints xs.reverse
  | .rev, .mat rows => .mat rows.reverse
  | .row i, .mat rows => .ints (rows.getD i [])
  | _, v => v

inductive AOp where
  | plus | times | minus | max | min
deriving DecidableEq, Repr

inductive MOp where
  | rev | size | over (o : AOp) | scan (o : AOp)
deriving DecidableEq, Repr

inductive DOp where
  | take | drop | index | amend | amendD | arith (o : AOp) | join | find
deriving DecidableEq, Repr

/-! ## by-value meaning of the verbs, with the fresh / view classification -/

inductive Side where
  | l | r
deriving DecidableEq, Repr

/-- result of a verb on data operands -/
inductive Sem where
  | err                          -- the code raises
  | unm                          -- outside the modelled domain
  | val (v : V)                  -- a fresh object
  | view (s : Side) (sel : Sel)  -- a numpy view of the array operand on side `s`
deriving DecidableEq, Repr

def rect (rows : List (List Int)) : Bool :=
  match rows with
  | [] => false
  | r :: rs => !r.isEmpty && rs.all (fun q => q.length == r.length)

def cols (rows : List (List Int)) : Nat := (rows.headD []).length

def aop : AOp → Int → Int → Int
  | .plus, a, b => a + b
  | .times, a, b => a * b
  | .minus, a, b => a - b
  | .max, a, b => if a ≤ b then b else a
  | .min, a, b => if a ≤ b then a else b

/-- cyclic take (`eval_dyad_take`): `n ≥ 0` from the front, `n < 0` from the end -/
def takeCyc {α : Type} (d : α) (n : Int) (xs : List α) : List α :=
  let len := xs.length
  let k := n.natAbs
  if 0 ≤ n then (List.range k).map (fun i => xs.getD (i % len) d)
  else (List.range k).map (fun i => xs.getD ((len - k % len + i) % len) d)

def takeSlice (n : Int) (len : Nat) : Sel :=
  if 0 ≤ n then .slice 0 n.natAbs else .slice (len - n.natAbs) len

def dropSlice (n : Int) (len : Nat) : Sel :=
  if 0 ≤ n then .slice (min n.natAbs len) len else .slice 0 (len - min n.natAbs len)

def dropList {α : Type} (n : Int) (xs : List α) : List α :=
  if 0 ≤ n then xs.drop n.natAbs else xs.take (xs.length - n.natAbs)

/-- numpy broadcasting of two rank-1 operands -/
def zipArith (f : Int → Int → Int) (xs ys : List Int) : Option (List Int) :=
  if xs.length = ys.length then some (List.zipWith f xs ys)
  else if xs.length = 1 then some (ys.map (f (xs.headD 0)))
  else if ys.length = 1 then some (xs.map (fun x => f x (ys.headD 0)))
  else none

def sameShape (a b : List (List Int)) : Bool :=
  a.length == b.length && cols a == cols b

/-- atomic arithmetic on admissible operands (what both the verbs and the generated numpy
    code compute on plain integers and integer arrays) -/
def arith (o : AOp) (a b : V) : Sem :=
  match o with
  | .max | .min => .unm
  | _ =>
  match a, b with
  | .int x, .int y => .val (.int (aop o x y))
  | .int x, .ints ys => if ys.isEmpty then .unm else .val (.ints (ys.map (aop o x)))
  | .ints xs, .int y => if xs.isEmpty then .unm else .val (.ints (xs.map (fun x => aop o x y)))
  | .ints xs, .ints ys =>
    if xs.isEmpty || ys.isEmpty then .unm
    else match zipArith (aop o) xs ys with
      | some r => .val (.ints r)
      | none => .err
  | .int x, .mat ys => if rect ys then .val (.mat (ys.map (fun r => r.map (aop o x)))) else .unm
  | .mat xs, .int y => if rect xs then .val (.mat (xs.map (fun r => r.map (fun x => aop o x y)))) else .unm
  | .mat xs, .mat ys =>
    if rect xs && rect ys && sameShape xs ys then
      .val (.mat (List.zipWith (fun r q => List.zipWith (aop o) r q) xs ys))
    else .unm
  | .str cs, .int _ => if cs.isEmpty then .unm else .err
  | .int _, .str cs => if cs.isEmpty then .unm else .err
  | _, _ => .unm

def foldOp (o : AOp) : List Int → Int
  | [] => 0
  | x :: xs => xs.foldl (aop o) x

def scanOp (o : AOp) : List Int → List Int
  | [] => []
  | x :: xs => (xs.foldl (fun (acc : List Int × Int) y => let s := aop o acc.2 y; (acc.1 ++ [s], s)) ([x], x)).1

def colFold (o : AOp) : List (List Int) → List Int
  | [] => []
  | r :: rs => rs.foldl (fun acc q => List.zipWith (aop o) acc q) r

def overSem (o : AOp) (a : V) : Sem :=
  match o with
  | .minus => .unm
  | _ =>
  match a with
  | .int n => .val (.int n)
  | .ints xs => if xs.isEmpty then .unm else .val (.int (foldOp o xs))
  | .mat rows => if rect rows then .val (.ints (colFold o rows)) else .unm
  | _ => .unm          -- strings: fold of the verb over the characters, not modelled

def scanSem (o : AOp) (a : V) : Sem :=
  match o with
  | .plus | .times =>
    (match a with
     | .ints xs => if xs.isEmpty then .unm else .val (.ints (scanOp o xs))
     | _ => .unm)
  | _ => .unm

/-- the interpreted Over returns the only element of a one-element list as it is: for a
    one-row matrix that is the row itself, a view of the argument (the compiled reduce
    allocates) -/
def overPlace (a : V) (s : Sem) : Sem :=
  match a, s with
  | .mat [_], .val _ => .view .l (.row 0)
  | _, s => s

def monadSem (op : MOp) (a : V) : Sem :=
  match op with
  | .rev =>
    (match a with
     | .int n => .val (.int n)          -- an atom is returned unchanged
     | .str cs => if cs.isEmpty then .unm else .val (.str cs.reverse)
     | .ints xs => if xs.isEmpty then .unm else .view .l .rev
     | .mat rows => if rect rows then .view .l .rev else .unm
     | _ => .unm)
  | .size =>
    (match a with
     | .int n => .val (.int n.natAbs)
     | .str cs => .val (.int cs.length)
     | .ints xs => .val (.int xs.length)
     | .mat rows => if rect rows then .val (.int rows.length) else .unm
     | _ => .unm)
  | .over o => overPlace a (overSem o a)
  | .scan o => scanSem o a

def allLt (idxs : List Int) (n : Nat) : Bool := idxs.all (fun i => decide (i < n))
def anyNeg (idxs : List Int) : Bool := idxs.any (fun i => decide (i < 0))

def putMany (xs : List Int) (idxs : List Int) (v : Int) : List Int :=
  idxs.foldl (fun acc i => acc.set i.natAbs v) xs

def putFlat (rows : List (List Int)) (idxs : List Int) (v : Int) : List (List Int) :=
  let c := cols rows
  idxs.foldl (fun acc i => acc.set (i.natAbs / c) ((acc.getD (i.natAbs / c) []).set (i.natAbs % c) v)) rows

def indexSem (a b : V) : Sem :=
  match b with
  | .int i =>
    if i < 0 then .unm else
    (match a with
     | .int _ => .err
     | .str cs => if cs.isEmpty then .unm else if i.natAbs < cs.length then .val (.chr (cs.getD i.natAbs 0)) else .err
     | .ints xs => if xs.isEmpty then .unm else if i.natAbs < xs.length then .val (.int (xs.getD i.natAbs 0)) else .err
     | .mat rows => if !rect rows then .unm else if i.natAbs < rows.length then .view .l (.row i.natAbs) else .err
     | _ => .unm)
  | .ints idxs =>
    if idxs.isEmpty || anyNeg idxs then .unm else
    (match a with
     | .int _ => .err
     | .str cs => if cs.isEmpty then .unm else
         if allLt idxs cs.length then .val (.str (idxs.map (fun i => cs.getD i.natAbs 0))) else .err
     | .ints xs => if xs.isEmpty then .unm else
         if allLt idxs xs.length then .val (.ints (idxs.map (fun i => xs.getD i.natAbs 0))) else .err
     | .mat rows => if !rect rows then .unm else
         if allLt idxs rows.length then .val (.mat (idxs.map (fun i => rows.getD i.natAbs []))) else .err
     | _ => .unm)
  | _ => .unm

/-- `a:=b` with `b = v,i…` already joined into a flat integer list -/
def amendSem (a b : V) : Sem :=
  match b with
  | .ints (v :: i0 :: irest) =>
    let idxs := i0 :: irest
    if anyNeg idxs then .unm else
    (match a with
     | .int _ => .err
     | .ints xs => if xs.isEmpty then .unm else
         if allLt idxs xs.length then .val (.ints (putMany xs idxs v)) else .err
     -- a string takes the printed value as a substring, a matrix gets a row replaced by the
     -- value (a mixed list): both outside the modelled value domain
     | _ => .unm)
  | _ => .unm

def amendDSem (a b : V) : Sem :=
  match b with
  | .ints [v, i] =>
    if i < 0 then .unm else
    (match a with
     | .int _ => .err
     | .str cs => if cs.isEmpty then .unm else .err
     | .ints xs => if xs.isEmpty then .unm else
         if i.natAbs < xs.length then .val (.ints (xs.set i.natAbs v)) else .err
     | _ => .unm)          -- one index into a matrix replaces a row by the value: a mixed list
  | .ints [v, i, j] =>
    if i < 0 || j < 0 then .unm else
    (match a with
     | .int _ => .err
     | .str cs => if cs.isEmpty then .unm else .err
     | .ints xs => if xs.isEmpty then .unm else .err
     | .mat rows => if !rect rows then .unm else
         if i.natAbs < rows.length && j.natAbs < cols rows then
           .val (.mat (rows.set i.natAbs ((rows.getD i.natAbs []).set j.natAbs v)))
         else .err
     | _ => .unm)
  | _ => .unm

def joinSem (a b : V) : Sem :=
  match a, b with
  | .int x, .int y => .val (.ints [x, y])
  | .ints xs, .int y => if xs.isEmpty then .unm else .val (.ints (xs ++ [y]))
  | .int x, .ints ys => if ys.isEmpty then .unm else .val (.ints (x :: ys))
  | .ints xs, .ints ys => if xs.isEmpty || ys.isEmpty then .unm else .val (.ints (xs ++ ys))
  | .str xs, .str ys => .val (.str (xs ++ ys))
  | .mat xs, .mat ys => if rect xs && rect ys && cols xs == cols ys then .val (.mat (xs ++ ys)) else .unm
  | _, _ => .unm

def dyadSem (op : DOp) (a b : V) : Sem :=
  match op with
  | .take =>
    (match a with
     | .int n =>
       (match b with
        | .int _ => .err
        | .str cs => if cs.isEmpty then .unm else .val (.str (takeCyc 0 n cs))
        | .ints xs => if xs.isEmpty then .unm else
            if n.natAbs ≤ xs.length then .view .r (takeSlice n xs.length) else .val (.ints (takeCyc 0 n xs))
        | .mat rows => if !rect rows then .unm else
            if n.natAbs ≤ rows.length then .view .r (takeSlice n rows.length) else .val (.mat (takeCyc [] n rows))
        | _ => .unm)
     | _ => .unm)
  | .drop =>
    (match a with
     | .int n =>
       (match b with
        | .int _ => .err
        | .str cs => if cs.isEmpty then .unm else .val (.str (dropList n cs))
        | .ints xs => if xs.isEmpty then .unm else .view .r (dropSlice n xs.length)
        | .mat rows => if !rect rows then .unm else .view .r (dropSlice n rows.length)
        | _ => .unm)
     | _ => .unm)
  | .index => indexSem a b
  | .amend => amendSem a b
  | .amendD => amendDSem a b
  | .arith o => arith o a b
  | .join => joinSem a b
  | .find => .unm          -- only dictionaries (handled by the evaluators)

/-! ## syntax -/

/-- expressions; `L` is the type of literals: `V` in program text and in `Ref`, `HLit` in the
    trees the heap machine holds (array literals live in heap cells created at parse time) -/
inductive Expr (L : Type) where
  | lit (l : L)
  | dlit (kvs : List (Int × Int))              -- :{[k v] …}
  | var (q : QName)
  | fn (body : Expr L)                         -- {body}
  | assign (q : QName) (e : Expr L)            -- q::e
  | seq (a b : Expr L)                         -- a;b inside a function
  | op1 (o : MOp) (e : Expr L)
  | op2 (o : DOp) (a b : Expr L)
  | call (f : QName) (arg : Expr L)            -- f(arg)
deriving DecidableEq, Repr

inductive Stmt (L : Type) where
  | expr (e : Expr L)
  | module (arg : Option QName)                -- .module(:m) / .module(0)
deriving DecidableEq, Repr

abbrev Text := Stmt V
abbrev Parse := Text → Option Nat → Text × Option Nat

/-- `read_sym`: inside module `m` every symbol except `x` is read as "s`m" -/
def qual (m : Option Nat) (q : QName) : QName :=
  if q.base = xBase then q else
  match m with
  | some k => ⟨q.base, some k⟩
  | none => q

def qualE (m : Option Nat) : Expr V → Expr V
  | .lit l => .lit l
  | .dlit kvs => .dlit kvs
  | .var q => .var (qual m q)
  | .fn b => .fn (qualE m b)
  | .assign q e => .assign (qual m q) (qualE m e)
  | .seq a b => .seq (qualE m a) (qualE m b)
  | .op1 o e => .op1 o (qualE m e)
  | .op2 o a b => .op2 o (qualE m a) (qualE m b)
  | .call f a => .call (qual m f) (qualE m a)

/-- the concrete parser of the driver: qualification, and the `parse_module` side effect -/
def parseQ : Parse
  | .expr e, m => (.expr (qualE m e), m)
  | .module (some q), m => (.module (some (qual m q)), some q.base)
  | .module none, _ => (.module none, none)

/-! ## the compiler (`compile_expr`, numpy backend) -/

inductive CExpr where
  | lit (n : Int)
  | var (q : QName)
  | bin (o : AOp) (a b : CExpr)
  | red (o : AOp) (a : CExpr)
  | scn (o : AOp) (a : CExpr)
deriving DecidableEq, Repr

def CExpr.vars : CExpr → List QName
  | .lit _ => []
  | .var q => [q]
  | .bin _ a b => a.vars ++ b.vars
  | .red _ a => a.vars
  | .scn _ a => a.vars

def arithCompilable : AOp → Bool
  | .plus | .times | .minus => true
  | _ => false

def redCompilable : AOp → Bool
  | .plus | .times | .max | .min => true
  | _ => false

def scanCompilable : AOp → Bool
  | .plus | .times => true
  | _ => false

/-- `_ast_to_ir` with `check_operands=False`: depends on the expression only -/
def toIR {L : Type} (litInt : L → Option Int) : Expr L → Option CExpr
  | .lit l => (litInt l).map .lit
  | .var q => some (.var q)
  | .op2 (.arith o) a b =>
    if arithCompilable o then
      match toIR litInt a, toIR litInt b with
      | some x, some y => some (.bin o x y)
      | _, _ => none
    else none
  | .op1 (.over o) a => if redCompilable o then (toIR litInt a).map (.red o) else none
  | .op1 (.scan o) a => if scanCompilable o then (toIR litInt a).map (.scn o) else none
  | _ => none

/-- `compile_expr`: no variable reference → "pure constant, not worth compiling" -/
def compileWith {L : Type} (litInt : L → Option Int) (e : Expr L) : Option CExpr :=
  match toIR litInt e with
  | some c => if c.vars.isEmpty then none else some c
  | none => none

/-- operand kinds for which the generated code is valid (`_admissible`) -/
def admissible : V → Bool
  | .int _ => true
  | .ints _ => true
  | .mat _ => true
  | _ => false

/-- Python operators on whatever the variables hold: on admissible operands the same
    arithmetic as the verbs; on strings Python's `str*int` and `str+str` -/
def pyArith (o : AOp) (a b : V) : Sem :=
  match o, a, b with
  | .times, .str cs, .int n => .val (.str ((List.replicate n.toNat cs).flatten))
  | .times, .int n, .str cs => .val (.str ((List.replicate n.toNat cs).flatten))
  | .plus, .str xs, .str ys => .val (.str (xs ++ ys))
  | _, _, _ => arith o a b

/-- run generated code; `none`: it raised (the caller falls back to the interpreter) or the
    operands are outside the modelled domain (the interpreter then says so) -/
def pyEval (env : QName → Option V) : CExpr → Option V
  | .lit n => some (.int n)
  | .var q => env q
  | .bin o a b =>
    match pyEval env a, pyEval env b with
    | some x, some y => (match pyArith o x y with | .val v => some v | _ => none)
    | _, _ => none
  | .red o a =>
    match pyEval env a with
    | some x => if admissible x then (match overSem o x with | .val v => some v | _ => none) else none
    | none => none
  | .scn o a =>
    match pyEval env a with
    | some x => if admissible x then (match scanSem o x with | .val v => some v | _ => none) else none
    | none => none

def varsAdmissible (env : QName → Option V) (c : CExpr) : Bool :=
  c.vars.all (fun q => match env q with | some v => admissible v | none => false)

/-! ## configuration: pinned tree, repaired tree, mutants -/

structure Cfg where
  caches : Bool          -- parse cache, compiled cache and node memo in use
  keyModule : Bool       -- parse/compiled cache keyed by (text, module)   [false: by text only]
  replayModule : Bool    -- a parse-cache hit restores the module the parse ended in
  guardArgs : Bool       -- operand kinds checked at every compiled call (else once, at compile time)
  clearOnAssign : Bool   -- `__setitem__` clears the compiled cache
  amendInPlace : Bool    -- mutant: Amend writes into its argument (no `np.array(a)` clone)
deriving DecidableEq, Repr

def Cfg.repaired : Cfg := ⟨true, true, true, true, true, false⟩
/-- the tree as pinned: cached parse skips `parse_module`; compiled code trusted for ever -/
def Cfg.pinned : Cfg := ⟨true, true, false, false, true, false⟩
/-- a fresh interpreter per statement: nothing is ever found in a cache -/
def Cfg.noCache : Cfg := ⟨false, true, false, false, true, false⟩

/-- the settings for which the theorems hold -/
def Cfg.Good (c : Cfg) : Prop :=
  c.amendInPlace = false ∧ (c.caches = false ∨ (c.keyModule = true ∧ c.replayModule = true ∧ c.guardArgs = true))

instance (c : Cfg) : Decidable c.Good := by unfold Cfg.Good; infer_instance

/-! ## variable frames (`KlongContext`) — generic in what a binding holds -/

structure Frame (β : Type) where
  mod : Option QName            -- `some name`: a `KGModule` pushed by `.module(name)`
  binds : List (QName × β)      -- insertion order, as a Python dict
deriving DecidableEq, Repr

def bindGet {β : Type} : List (QName × β) → QName → Option β
  | [], _ => none
  | (q, v) :: r, k => if q = k then some v else bindGet r k

/-- update in place, or append (Python dict assignment) -/
def bindSet {β : Type} : List (QName × β) → QName → β → List (QName × β)
  | [], k, v => [(k, v)]
  | (q, w) :: r, k, v => if q = k then (q, v) :: r else (q, w) :: bindSet r k v

/-- first key of the form "k`…" (the unqualified fallback inside a `KGModule`) -/
def firstQualified {β : Type} (k : Nat) : List (QName × β) → Option β
  | [] => none
  | (q, v) :: r => if q.base = k ∧ q.mod.isSome then some v else firstQualified k r

/-- `KlongContext.__getitem__` -/
def lookup {β : Type} : List (Frame β) → QName → Option β
  | [], _ => none
  | f :: fs, k =>
    match bindGet f.binds k with
    | some v => some v
    | none =>
      match f.mod with
      | none => lookup fs k
      | some name =>
        match k.mod with
        | some m => if (⟨m, none⟩ : QName) = name then lookup fs ⟨k.base, none⟩ else lookup fs k
        | none =>
          match firstQualified k.base f.binds with
          | some v => some v
          | none => lookup fs k

/-- first frame that has the key gets the value -/
def assignExisting {β : Type} : List (Frame β) → QName → β → Option (List (Frame β))
  | [], _, _ => none
  | f :: fs, k, v =>
    match bindGet f.binds k with
    | some _ => some ({ f with binds := bindSet f.binds k v } :: fs)
    | none => (assignExisting fs k v).map (f :: ·)

/-- `KlongContext.__setitem__` (strict mode 0): existing binding anywhere, else the top frame -/
def assign {β : Type} (fs : List (Frame β)) (k : QName) (v : β) : List (Frame β) :=
  match assignExisting fs k v with
  | some r => r
  | none =>
    match fs with
    | [] => [⟨none, [(k, v)]⟩]
    | f :: rest => { f with binds := f.binds ++ [(k, v)] } :: rest

def mapFrames {β γ : Type} (g : β → γ) (fs : List (Frame β)) : List (Frame γ) :=
  fs.map (fun f => ⟨f.mod, f.binds.map (fun p => (p.1, g p.2))⟩)

inductive Res (β : Type) where
  | ok (v : β)
  | err
  | unm
deriving DecidableEq, Repr

/-! ## `Ref`: no cache, arrays by value -/

inductive RV where
  | val (v : V)
  | dict (r : Nat)
  | fn (body : Expr V)
deriving DecidableEq, Repr

abbrev DHeap := List (List (V × V))

def dictSet (kvs : List (V × V)) (k v : V) : List (V × V) :=
  match kvs with
  | [] => [(k, v)]
  | (k', v') :: r => if k' = k then (k', v) :: r else (k', v') :: dictSet r k v

def dictGet (kvs : List (V × V)) (k : V) : V :=
  match kvs with
  | [] => .undef
  | (k', v') :: r => if k' = k then v' else dictGet r k

def dheapSet (d : DHeap) (r : Nat) (k v : V) : DHeap :=
  d.set r (dictSet (d.getD r []) k v)

def dlitVals (kvs : List (Int × Int)) : List (V × V) := kvs.map (fun p => (V.int p.1, V.int p.2))

namespace Ref

structure S where
  frames : List (Frame RV)
  dheap : DHeap
deriving DecidableEq, Repr

def semToRes (a b : V) : Sem → Res RV
  | .err => .err
  | .unm => .unm
  | .val v => .ok (.val v)
  | .view .l sel => .ok (.val (applySel sel a))
  | .view .r sel => .ok (.val (applySel sel b))

def evalVar (s : S) (q : QName) : Res RV × S :=
  match lookup s.frames q with
  | some v => (.ok v, s)
  | none =>
    if q.base = xBase then (.ok (.val (.sym q)), s)
    else (.ok (.val (.sym q)), { s with frames := assign s.frames q (.val (.sym q)) })

def applyOp1 (o : MOp) (s : S) : RV → Res RV × S
  | .val a => (semToRes a a (monadSem o a), s)
  | .dict r => (match o with | .size => .ok (.val (.int (s.dheap.getD r []).length)) | _ => .unm, s)
  | .fn _ => (.unm, s)

def applyOp2 (o : DOp) (s : S) : RV → RV → Res RV × S
  | .val a, .val b => (semToRes a b (dyadSem o a b), s)
  | .dict r, .val b =>
    (match o, b with
     | .join, .ints [k, v] => (.ok (.dict r), { s with dheap := dheapSet s.dheap r (.int k) (.int v) })
     | .find, .int k => (.ok (.val (dictGet (s.dheap.getD r []) (.int k))), s)
     | _, _ => (.unm, s))
  | _, _ => (.unm, s)

/-- one level of the interpreter; `callee` evaluates function bodies -/
def evalWith (callee : Expr V → S → Res RV × S) : Expr V → S → Res RV × S
  | .lit v, s => (.ok (.val v), s)
  | .dlit kvs, s => (.ok (.dict s.dheap.length), { s with dheap := s.dheap ++ [dlitVals kvs] })
  | .var q, s => evalVar s q
  | .fn b, s => (.ok (.fn b), s)
  | .assign q e, s =>
    (match evalWith callee e s with
     | (.ok v, s1) => (.ok v, { s1 with frames := assign s1.frames q v })
     | r => r)
  | .seq a b, s =>
    (match evalWith callee a s with
     | (.ok _, s1) => evalWith callee b s1
     | r => r)
  | .op1 o e, s =>
    (match evalWith callee e s with
     | (.ok v, s1) => applyOp1 o s1 v
     | r => r)
  | .op2 o a b, s =>
    (match evalWith callee b s with          -- `_y = self.eval(fa[1])` first
     | (.ok vb, s1) =>
       (match evalWith callee a s1 with
        | (.ok va, s2) => applyOp2 o s2 va vb
        | r => r)
     | r => r)
  | .call f arg, s =>
    (match lookup s.frames f with
     | some (.fn body) =>
       (match evalWith callee arg s with
        | (.ok av, s1) =>
          let (r, s2) := callee body { s1 with frames := ⟨none, [(xName, av)]⟩ :: s1.frames }
          (r, { s2 with frames := s2.frames.tail })
        | r => r)
     | _ => (.unm, s))

def evalN : Nat → Expr V → S → Res RV × S
  | 0 => fun _ s => (.unm, s)
  | n + 1 => evalWith (evalN n)

/-- call depth of the modelled grammar -/
def depth : Nat := 4

structure State where
  s : S
  module : Option Nat
deriving DecidableEq, Repr

def init : State := ⟨⟨[⟨none, []⟩], []⟩, none⟩

/-- `.module(arg)` at run time: the argument is evaluated in the caller's frame, the call
    frame {x: arg} is pushed and (because start_module raises the floor) never popped -/
def runModule (s : S) : Option QName → Res RV × S
  | some q =>
    (match evalVar s q with
     | (.ok (.val (.sym n)), s1) =>
       (.ok (.val .undef),
        { s1 with frames := ⟨some n, []⟩ :: ⟨none, [(xName, .val (.sym n))]⟩ :: s1.frames })
     | (_, s1) => (.unm, s1))
  | none => (.ok (.val .undef), { s with frames := ⟨none, [(xName, .val (.int 0))]⟩ :: s.frames })

def step (parse : Parse) (st : State) (t : Text) : State × Res RV :=
  let (tree, m') := parse t st.module
  match tree with
  | .expr e => let (r, s') := evalN depth e st.s; (⟨s', m'⟩, r)
  | .module arg => let (r, s') := runModule st.s arg; (⟨s', m'⟩, r)

def run (parse : Parse) : State → List Text → State × List (Res RV)
  | st, [] => (st, [])
  | st, t :: ts =>
    let (st1, r) := step parse st t
    let (st2, rs) := run parse st1 ts
    (st2, r :: rs)

/-- what is observed of a history: after every statement its outcome and the whole variable
    state (frames by value, dictionary heap, parse-time module) -/
def trace (parse : Parse) : State → List Text → List (Res RV × State)
  | _, [] => []
  | st, t :: ts =>
    let (st1, r) := step parse st t
    (r, st1) :: trace parse st1 ts

end Ref

/-! ## `Interp`: heap, views, caches -/

inductive HLit where
  | imm (v : V)
  | ref (a : Nat)         -- array literal created by the parser, stored inside the tree
deriving DecidableEq, Repr

inductive HV where
  | imm (v : V)
  | arr (a : Nat)
  | dict (r : Nat)
  | fn (body : Expr HLit)
deriving DecidableEq, Repr

inductive Cell where
  | base (v : V)
  | view (of : Nat) (sel : Sel)
deriving DecidableEq, Repr

/-- the heap, newest cell first; the address of a cell is its distance from the end, so
    allocation is `cons` and a view can only refer to an older cell -/
abbrev Heap := List Cell

def derefAt : Heap → Nat → V
  | [], _ => .undef
  | c :: rest, a =>
    if a = rest.length then
      (match c with
       | .base v => v
       | .view o sel => applySel sel (derefAt rest o))
    else derefAt rest a

def isArr : V → Bool
  | .ints _ => true
  | .mat _ => true
  | _ => false

def litInt : V → Option Int
  | .int n => some n
  | _ => none

def hlitInt : HLit → Option Int
  | .imm v => litInt v
  | .ref _ => none

namespace Interp

structure S where
  frames : List (Frame HV)
  heap : Heap
  dheap : DHeap
  memo : List (Expr HLit × Option CExpr)                 -- `x._compiled` on tree nodes
  ccache : List ((Text × Option Nat) × Option CExpr)     -- `_compiled_cache`
deriving Repr

/-- the data value a binding denotes (dictionaries and functions are not data) -/
def toV (h : Heap) : HV → Option V
  | .imm v => some v
  | .arr a => some (derefAt h a)
  | _ => none

/-- a fresh object: arrays get a new base cell -/
def allocV (s : S) (v : V) : HV × S :=
  if isArr v then (.arr s.heap.length, { s with heap := .base v :: s.heap }) else (.imm v, s)

def operand (s : Side) (a b : HV) : HV := match s with | .l => a | .r => b

def place (s : S) (a b : HV) (va vb : V) : Sem → Res HV × S
  | .err => (.err, s)
  | .unm => (.unm, s)
  | .val v => let (hv, s') := allocV s v; (.ok hv, s')
  | .view side sel =>
    (match operand side a b with
     | .arr p => (.ok (.arr s.heap.length), { s with heap := .view p sel :: s.heap })
     | _ => let (hv, s') := allocV s (applySel sel (match side with | .l => va | .r => vb)); (.ok hv, s'))

def env (s : S) (q : QName) : Option V :=
  match lookup s.frames q with
  | some hv => toV s.heap hv
  | none => none

def evalVar (s : S) (q : QName) : Res HV × S :=
  match lookup s.frames q with
  | some v => (.ok v, s)
  | none =>
    if q.base = xBase then (.ok (.imm (.sym q)), s)
    else (.ok (.imm (.sym q)), { s with frames := assign s.frames q (.imm (.sym q)) })

/-- `compile_expr` as the configuration does it: with `guardArgs` a function of the tree,
    otherwise (pinned) it also demands admissible operands *now* -/
def compileNow (cfg : Cfg) (s : S) (e : Expr HLit) : Option CExpr :=
  match compileWith hlitInt e with
  | some c => if cfg.guardArgs || varsAdmissible (env s) c then some c else none
  | none => none

/-- `getattr(x, '_compiled', None)` … `x._compiled = compiled` -/
def memoCode (cfg : Cfg) (s : S) (e : Expr HLit) : Option CExpr × S :=
  if cfg.caches then
    match s.memo.lookup e with
    | some c => (c, s)
    | none => let c := compileNow cfg s e; (c, { s with memo := (e, c) :: s.memo })
  else (compileNow cfg s e, s)

/-- `args = compiled_args(...); return fn(*args)` inside `try` -/
def runCode (cfg : Cfg) (s : S) (c : CExpr) : Option V :=
  if cfg.guardArgs && !varsAdmissible (env s) c then none else pyEval (env s) c

def tryCompiled (cfg : Cfg) (s : S) (e : Expr HLit) : Option (HV × S) :=
  let (c, s1) := memoCode cfg s e
  match c with
  | some code =>
    (match runCode cfg s1 code with
     | some v => some (allocV s1 v)
     | none => none)
  | none => none

def memoOnly (cfg : Cfg) (s : S) (e : Expr HLit) : S := (memoCode cfg s e).2

def applyOp1 (o : MOp) (s : S) (a : HV) : Res HV × S :=
  match a with
  | .dict r => (match o with | .size => .ok (.imm (.int (s.dheap.getD r []).length)) | _ => .unm, s)
  | .fn _ => (.unm, s)
  | _ =>
    match toV s.heap a with
    | some va => place s a a va va (monadSem o va)
    | none => (.unm, s)

/-- mutant only: write the amended array into the cell of the argument -/
def heapWrite : Heap → Nat → V → Heap
  | [], _, _ => []
  | c :: rest, a, v => if a = rest.length then .base v :: rest else c :: heapWrite rest a v

def applyOp2 (cfg : Cfg) (o : DOp) (s : S) (a b : HV) : Res HV × S :=
  match a, b with
  | .dict r, _ =>
    (match o, toV s.heap b with
     | .join, some (.ints [k, v]) => (.ok (.dict r), { s with dheap := dheapSet s.dheap r (.int k) (.int v) })
     | .find, some (.int k) => (.ok (.imm (dictGet (s.dheap.getD r []) (.int k))), s)
     | _, _ => (.unm, s))
  | _, _ =>
    match toV s.heap a, toV s.heap b with
    | some va, some vb =>
      if cfg.amendInPlace && o == .amend then
        (match a, dyadSem o va vb with
         | .arr p, .val v => (.ok (.arr p), { s with heap := heapWrite s.heap p v })
         | _, sem => place s a b va vb sem)
      else place s a b va vb (dyadSem o va vb)
    | _, _ => (.unm, s)

def evalWith (cfg : Cfg) (callee : Expr HLit → S → Res HV × S) : Expr HLit → S → Res HV × S
  | .lit (.imm v), s => (.ok (.imm v), s)
  | .lit (.ref a), s => (.ok (.arr a), s)
  | .dlit kvs, s => (.ok (.dict s.dheap.length), { s with dheap := s.dheap ++ [dlitVals kvs] })
  | .var q, s => evalVar s q
  | .fn b, s => (.ok (.fn b), s)
  | .assign q e, s =>
    (match evalWith cfg callee e s with
     | (.ok v, s1) =>
       (.ok v, { s1 with frames := assign s1.frames q v
                       , ccache := if cfg.clearOnAssign then [] else s1.ccache })
     | r => r)
  | .seq a b, s =>
    (match evalWith cfg callee a s with
     | (.ok _, s1) => evalWith cfg callee b s1
     | r => r)
  | .op1 o e, s =>
    (match tryCompiled cfg s (.op1 o e) with
     | some (v, s1) => (.ok v, s1)
     | none =>
       (match evalWith cfg callee e (memoOnly cfg s (.op1 o e)) with
        | (.ok v, s1) => applyOp1 o s1 v
        | r => r))
  | .op2 o a b, s =>
    (match tryCompiled cfg s (.op2 o a b) with
     | some (v, s1) => (.ok v, s1)
     | none =>
       (match evalWith cfg callee b (memoOnly cfg s (.op2 o a b)) with
        | (.ok vb, s1) =>
          (match evalWith cfg callee a s1 with
           | (.ok va, s2) => applyOp2 cfg o s2 va vb
           | r => r)
        | r => r))
  | .call f arg, s =>
    (match lookup s.frames f with
     | some (.fn body) =>
       (match evalWith cfg callee arg s with
        | (.ok av, s1) =>
          let (r, s2) := callee body { s1 with frames := ⟨none, [(xName, av)]⟩ :: s1.frames }
          (r, { s2 with frames := s2.frames.tail })
        | r => r)
     | _ => (.unm, s))

def evalN (cfg : Cfg) : Nat → Expr HLit → S → Res HV × S
  | 0 => fun _ s => (.unm, s)
  | n + 1 => evalWith cfg (evalN cfg n)

/-- the parser stores array literals as arrays inside the tree -/
def internE : Expr V → Heap → Expr HLit × Heap
  | .lit v, h => if isArr v then (.lit (.ref h.length), .base v :: h) else (.lit (.imm v), h)
  | .dlit kvs, h => (.dlit kvs, h)
  | .var q, h => (.var q, h)
  | .fn b, h => let (b', h1) := internE b h; (.fn b', h1)
  | .assign q e, h => let (e', h1) := internE e h; (.assign q e', h1)
  | .seq a b, h => let (a', h1) := internE a h; let (b', h2) := internE b h1; (.seq a' b', h2)
  | .op1 o e, h => let (e', h1) := internE e h; (.op1 o e', h1)
  | .op2 o a b, h => let (a', h1) := internE a h; let (b', h2) := internE b h1; (.op2 o a' b', h2)
  | .call f a, h => let (a', h1) := internE a h; (.call f a', h1)

def internS : Text → Heap → Stmt HLit × Heap
  | .expr e, h => let (e', h1) := internE e h; (.expr e', h1)
  | .module a, h => (.module a, h)

structure State where
  s : S
  module : Option Nat                                               -- `_module`
  pcache : List ((Text × Option Nat) × (Stmt HLit × Option Nat))    -- `_parse_cache`
deriving Repr

def init : State := ⟨⟨[⟨none, []⟩], [], [], [], []⟩, none, []⟩

def runModule (s : S) : Option QName → Res HV × S
  | some q =>
    (match evalVar s q with
     | (.ok hv, s1) =>
       (match toV s1.heap hv with
        | some (.sym n) =>
          (.ok (.imm .undef),
           { s1 with frames := ⟨some n, []⟩ :: ⟨none, [(xName, hv)]⟩ :: s1.frames })
        | _ => (.unm, s1))
     | (_, s1) => (.unm, s1))
  | none => (.ok (.imm .undef), { s with frames := ⟨none, [(xName, .imm (.int 0))]⟩ :: s.frames })

/-- `cache_key = (x, self._module)` -/
def key (cfg : Cfg) (st : State) (t : Text) : Text × Option Nat :=
  (t, if cfg.keyModule then st.module else none)

/-- a parse-cache miss: parse, store the array literals in the heap, remember the tree and
    the module the parse ended in -/
def fetchMiss (cfg : Cfg) (parse : Parse) (st : State) (t : Text) : Stmt HLit × State :=
  let p := parse t st.module
  let i := internS p.1 st.s.heap
  (i.1, ⟨{ st.s with heap := i.2 }, p.2,
         if cfg.caches then (key cfg st t, (i.1, p.2)) :: st.pcache else st.pcache⟩)

/-- parse-cache lookup / fill: the tree, and the state with the parse-time module afterwards -/
def fetch (cfg : Cfg) (parse : Parse) (st : State) (t : Text) : Stmt HLit × State :=
  if cfg.caches then
    match st.pcache.lookup (key cfg st t) with
    | some (itree, m') => (itree, { st with module := if cfg.replayModule then m' else st.module })
    | none => fetchMiss cfg parse st t
  else fetchMiss cfg parse st t

/-- `compiled = self._compiled_cache.get(cache_key)` … `self._compiled_cache[cache_key] = compiled or False` -/
def topCode (cfg : Cfg) (k : Text × Option Nat) (s : S) (e : Expr HLit) : Option CExpr × S :=
  if cfg.caches then
    match s.ccache.lookup k with
    | some c => (c, s)
    | none => let c := compileNow cfg s e; (c, { s with ccache := (k, c) :: s.ccache })
  else (compileNow cfg s e, s)

/-- `__call__`'s own compiled path for a single expression, under `_compiled_cache` -/
def topCompiled (cfg : Cfg) (k : Text × Option Nat) (s : S) (e : Expr HLit) : Option (HV × S) × S :=
  let s1 := (topCode cfg k s e).2
  match (topCode cfg k s e).1 with
  | some code =>
    (match runCode cfg s1 code with
     | some v =>
       (match code, lookup s1.frames (code.vars.headD xName) with
        | .var _, some hv => (some (hv, s1), s1)        -- `return _v0`: the operand itself, no copy
        | _, _ => (some (allocV s1 v), s1))
     | none => (none, s1))
  | none => (none, s1)

def depth : Nat := 4

/-- a single expression: `__call__`'s compiled path, else the interpreter -/
def exprStep (cfg : Cfg) (k : Text × Option Nat) (s : S) (e : Expr HLit) : Res HV × S :=
  match topCompiled cfg k s e with
  | (some (v, s'), _) => (.ok v, s')
  | (none, s1) => evalN cfg depth e s1

def step (cfg : Cfg) (parse : Parse) (st : State) (t : Text) : State × Res HV :=
  let k := key cfg st t
  let f := fetch cfg parse st t
  match f.1 with
  | .expr e => let o := exprStep cfg k f.2.s e; ({ f.2 with s := o.2 }, o.1)
  | .module arg => let o := runModule f.2.s arg; ({ f.2 with s := o.2 }, o.1)

def run (cfg : Cfg) (parse : Parse) : State → List Text → State × List (Res HV)
  | st, [] => (st, [])
  | st, t :: ts =>
    let (st1, r) := step cfg parse st t
    let (st2, rs) := run cfg parse st1 ts
    (st2, r :: rs)

/-! ### abstraction to `Ref` -/

def derefE (h : Heap) : Expr HLit → Expr V
  | .lit (.imm v) => .lit v
  | .lit (.ref a) => .lit (derefAt h a)
  | .dlit kvs => .dlit kvs
  | .var q => .var q
  | .fn b => .fn (derefE h b)
  | .assign q e => .assign q (derefE h e)
  | .seq a b => .seq (derefE h a) (derefE h b)
  | .op1 o e => .op1 o (derefE h e)
  | .op2 o a b => .op2 o (derefE h a) (derefE h b)
  | .call f a => .call f (derefE h a)

def derefS (h : Heap) : Stmt HLit → Text
  | .expr e => .expr (derefE h e)
  | .module a => .module a

def absHV (h : Heap) : HV → RV
  | .imm v => .val v
  | .arr a => .val (derefAt h a)
  | .dict r => .dict r
  | .fn b => .fn (derefE h b)

def absRes (h : Heap) : Res HV → Res RV
  | .ok v => .ok (absHV h v)
  | .err => .err
  | .unm => .unm

def absS (s : S) : Ref.S := ⟨mapFrames (absHV s.heap) s.frames, s.dheap⟩

def abs (st : State) : Ref.State := ⟨absS st.s, st.module⟩

/-- a fresh interpreter loaded with a copy of the variable state of `st`: every array is
    copied into a new heap, no cache survives -/
def loadHV : RV → Heap → HV × Heap
  | .val v, h => if isArr v then (.arr h.length, .base v :: h) else (.imm v, h)
  | .dict r, h => (.dict r, h)
  | .fn b, h => let (b', h1) := internE b h; (.fn b', h1)

def loadBinds : List (QName × RV) → Heap → List (QName × HV) × Heap
  | [], h => ([], h)
  | (q, v) :: r, h =>
    let (v', h1) := loadHV v h
    let (r', h2) := loadBinds r h1
    ((q, v') :: r', h2)

def loadFrames : List (Frame RV) → Heap → List (Frame HV) × Heap
  | [], h => ([], h)
  | f :: fs, h =>
    let (b', h1) := loadBinds f.binds h
    let (fs', h2) := loadFrames fs h1
    (⟨f.mod, b'⟩ :: fs', h2)

def load (r : Ref.State) : State :=
  let (fs, h) := loadFrames r.s.frames []
  ⟨⟨fs, h, r.s.dheap, [], []⟩, r.module, []⟩

/-- the observation of one step of the heap machine: outcome and variable state, by value -/
def stepObs (cfg : Cfg) (parse : Parse) (st : State) (t : Text) : State × (Res RV × Ref.State) :=
  let (st1, r) := step cfg parse st t
  (st1, (absRes st1.s.heap r, abs st1))

def trace (cfg : Cfg) (parse : Parse) : State → List Text → List (Res RV × Ref.State)
  | _, [] => []
  | st, t :: ts =>
    let (st1, o) := stepObs cfg parse st t
    o :: trace cfg parse st1 ts

end Interp

/-! ## observation: what the harness compares -/

/-- `KlongContext.__iter__`: top frame first, first occurrence of a name wins -/
def snapshot {β : Type} (fs : List (Frame β)) : List (QName × β) :=
  (fs.flatMap (·.binds)).foldl (fun acc p => if acc.any (fun q => q.1 = p.1) then acc else acc ++ [p]) []

/-! ## driver -/

def showQ (q : QName) : String :=
  match q.mod with
  | some m => s!"{q.base}~{m}"
  | none => s!"{q.base}"

def showInts (xs : List Int) : String := "L[" ++ ",".intercalate (xs.map fun n => s!"i:{n}") ++ "]"

def showV : V → String
  | .int n => s!"i:{n}"
  | .chr c => s!"c:{c}"
  | .str cs => "s:" ++ ".".intercalate (cs.map toString)
  | .sym q => "y:" ++ showQ q
  | .ints xs => showInts xs
  | .mat rows => "L[" ++ ",".intercalate (rows.map showInts) ++ "]"
  | .undef => "U"

def showDict (kvs : List (V × V)) : String :=
  "D[" ++ ";".intercalate (kvs.map fun p => showV p.1 ++ "=" ++ showV p.2) ++ "]"

def showRV (d : DHeap) : RV → String
  | .val v => showV v
  | .dict r => showDict (d.getD r [])
  | .fn _ => "X"

def showRes (d : DHeap) : Res RV → String
  | .ok v => "ok:" ++ showRV d v
  | .err => "err"
  | .unm => "unm"

def qLe (a b : QName) : Bool :=
  a.base < b.base || (a.base == b.base && (match a.mod, b.mod with
    | none, _ => true
    | some _, none => false
    | some x, some y => x ≤ y))

def insertSorted (p : QName × String) : List (QName × String) → List (QName × String)
  | [] => [p]
  | q :: r => if qLe p.1 q.1 then p :: q :: r else q :: insertSorted p r

def showSnapshot (s : Ref.S) : String :=
  let items := (snapshot s.frames).map fun p => (p.1, showRV s.dheap p.2)
  let sorted := items.foldl (fun acc p => insertSorted p acc) []
  "|".intercalate (sorted.map fun p => showQ p.1 ++ "=" ++ p.2)

def showMod : Option Nat → String
  | some m => toString m
  | none => "-"

/-- classification of a statement's result for the `np.shares_memory` check: `fresh` — a base
    cell allocated by this statement; `alias` — an older cell or a view; `imm` — not an array -/
def resultClass (oldLen : Nat) (h : Heap) : Res HV → String
  | .ok (.arr a) =>
    if a < oldLen then "alias"
    else (match h.drop (h.length - 1 - a) with
          | .base _ :: _ => "fresh"
          | _ => "alias")
  | _ => "imm"

/-! ### request parsing (driver only) -/

def parseQName (s : String) : Option QName :=
  match s.splitOn "~" with
  | [b] => b.toNat?.map (⟨·, none⟩)
  | [b, m] => match b.toNat?, m.toNat? with
    | some x, some y => some ⟨x, some y⟩
    | _, _ => none
  | _ => none

def parseInts (s : String) : Option (List Int) := (splitOnChar s ',').mapM String.toInt?
def parseNats (s : String) : Option (List Nat) := (splitOnChar s '.').mapM String.toNat?

def parseAOp : String → Option AOp
  | "plus" => some .plus | "times" => some .times | "minus" => some .minus
  | "max" => some .max | "min" => some .min | _ => none

def parseMOp (s : String) : Option MOp :=
  match s.splitOn ":" with
  | ["rev"] => some .rev
  | ["size"] => some .size
  | ["over", o] => (parseAOp o).map .over
  | ["scan", o] => (parseAOp o).map .scan
  | _ => none

def parseDOp (s : String) : Option DOp :=
  match s.splitOn ":" with
  | ["take"] => some .take | ["drop"] => some .drop | ["index"] => some .index
  | ["amend"] => some .amend | ["amendD"] => some .amendD | ["join"] => some .join
  | ["find"] => some .find
  | ["arith", o] => (parseAOp o).map .arith
  | _ => none

/-- prefix notation:  I n | S c.c | E (empty string) | L n,n | M n,n;n,n | D k:v,k:v | D0 |
    V q | F e | A q e | Q e e | 1 op e | 2 op e e | C q e -/
partial def parseExpr : List String → Option (Expr V × List String)
  | "I" :: n :: r => n.toInt?.map fun k => (.lit (.int k), r)
  | "E" :: r => some (.lit (.str []), r)
  | "S" :: cs :: r => (parseNats cs).map fun k => (.lit (.str k), r)
  | "L0" :: r => some (.lit (.ints []), r)
  | "L" :: ns :: r => (parseInts ns).map fun k => (.lit (.ints k), r)
  | "M" :: rows :: r => ((splitOnChar rows ';').mapM parseInts).map fun k => (.lit (.mat k), r)
  | "D0" :: r => some (.dlit [], r)
  | "D" :: kvs :: r =>
    ((splitOnChar kvs ',').mapM fun (kv : String) => match kv.splitOn ":" with
      | [k, v] => (match String.toInt? k, String.toInt? v with | some a, some b => some (a, b) | _, _ => none)
      | _ => none).map fun k => (.dlit k, r)
  | "V" :: q :: r => (parseQName q).map fun k => (.var k, r)
  | "F" :: r => (parseExpr r).map fun (b, r') => (.fn b, r')
  | "A" :: q :: r => match parseQName q, parseExpr r with
    | some k, some (e, r') => some (.assign k e, r')
    | _, _ => none
  | "Q" :: r => match parseExpr r with
    | some (a, r1) => (parseExpr r1).map fun (b, r2) => (.seq a b, r2)
    | none => none
  | "1" :: o :: r => match parseMOp o, parseExpr r with
    | some op, some (e, r') => some (.op1 op e, r')
    | _, _ => none
  | "2" :: o :: r => match parseDOp o, parseExpr r with
    | some op, some (a, r1) => (parseExpr r1).map fun (b, r2) => (.op2 op a b, r2)
    | _, _ => none
  | "C" :: q :: r => match parseQName q, parseExpr r with
    | some k, some (e, r') => some (.call k e, r')
    | _, _ => none
  | _ => none

def parseStmt : List String → Option Text
  | ["MOD0"] => some (.module none)
  | ["MOD", q] => (parseQName q).map fun k => .module (some k)
  | ws => match parseExpr ws with
    | some (e, []) => some (.expr e)
    | _ => none

structure DState where
  h : Interp.State
  r : Ref.State

def init : DState := ⟨Interp.init, Ref.init⟩

/-- `reset` | `stmt <prefix tokens>`: the repaired heap machine and `Ref` in lockstep -/
def handle (d : DState) (ws : List String) : DState × String :=
  match ws with
  | ["reset"] => (init, "ok")
  | "stmt" :: rest =>
    (match parseStmt rest with
     | some t =>
       let oldLen := d.h.s.heap.length
       let (h', ro) := Interp.step Cfg.repaired parseQ d.h t
       let (r', rr) := Ref.step parseQ d.r t
       let hs := Interp.absS h'.s
       let outH := showRes h'.s.dheap (Interp.absRes h'.s.heap ro)
       let outR := showRes r'.s.dheap rr
       let varsH := showSnapshot hs
       let varsR := showSnapshot r'.s
       let agree := if outH == outR && varsH == varsR && h'.module == r'.module then "1" else "0"
       (⟨h', r'⟩,
        s!"out={outH} vars={varsH} mod={showMod h'.module} cls={resultClass oldLen h'.s.heap ro} agree={agree}")
     | none => (d, "bad-op"))
  | _ => (d, "bad-op")

end Klong.C04
