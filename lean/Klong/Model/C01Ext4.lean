/-
  C01 extension 4 — the last primitive verb without a model, Format2 `a$b` (reference AND
  implementation model), and three areas where the reference reaches further than the models so far:
  Floor `_a` of real numbers (exact, from the IEEE-754 bit pattern, including results no integer
  can hold), Grade-Up / Grade-Down `<a` `>a` of lists whose members are lists, strings, characters
  or real numbers (compared "pairwise and recursively").

  The Python mirrored is the code AFTER the repairs of branch fix-c01d:
    a53617e  Format2 writes a symbol with its colon when the size is 0
    0164c67  Format2 extends over lists of numbers and over a list of sizes
    0e3a9ac  Floor leaves integers alone and keeps a real that no integer can hold
    05f1070  Grade compares list members pairwise and recursively

  Real numbers are NOT opaque here: a finite double is decoded into sign, mantissa and binary
  exponent, and its decimal texts are computed with exact integer arithmetic —
    `fixedParts`   Python `"{:.mf}".format(x)`: the m-digit decimal nearest to x, ties to even
                   (correctly rounded, as CPython's dtoa-based formatting is);
    `pyFloatStr`   Python `str(x)` / `repr(x)`: the shortest decimal that reads back as x, in
                   positional notation (1e-4 ≤ |x| < 1e16).  Texts in exponent notation (`1e+100`,
                   `1e-07`), infinities and NaN are `.unmodelled`.
  Conventions as in extension 3 (`.ok` / `.err` / `.unmodelled`, `Ext1.notStored` literals).
-/
import Klong.Model.C01
import Klong.Model.C01Ext1
import Klong.Model.C01Ext2
import Klong.Model.C01Ext3
namespace Klong.C01.Ext4
open Klong Klong.C01

/-! ## IEEE-754 doubles, exactly -/

/-- a finite double: value = (−1)^neg · m · 2^e -/
structure Dbl where
  neg : Bool
  m : Nat
  e : Int
deriving Repr, DecidableEq

/-- `none` for infinities and NaN -/
def decode (bits : UInt64) : Option Dbl :=
  let n := bits.toNat
  let ex := (n / 4503599627370496) % 2048
  let fr := n % 4503599627370496
  let s := decide (n / 9223372036854775808 = 1)
  if ex = 2047 then none
  else if ex = 0 then some ⟨s, fr, -1074⟩
  else some ⟨s, fr + 4503599627370496, (ex : Int) - 1075⟩

/-- |x| · 10^k rounded to the nearest integer, ties to even -/
def scaledRound (d : Dbl) (k : Nat) : Nat :=
  let num := d.m * 10 ^ k * 2 ^ d.e.toNat
  let den := 2 ^ (-d.e).toNat
  let q := num / den
  let r := num % den
  if 2 * r > den ∨ (2 * r = den ∧ q % 2 = 1) then q + 1 else q

/-- ⌊x⌋ -/
def floorInt (d : Dbl) : Int :=
  let num := d.m * 2 ^ d.e.toNat
  let den := 2 ^ (-d.e).toNat
  if d.neg then -(((num + den - 1) / den : Nat) : Int) else ((num / den : Nat) : Int)

/-- the decimal D / 10^k reads back as the double |x|: it lies within half a unit in the last place
    of it (bounds included when the mantissa is even: round-half-to-even) -/
def readsBack (d : Dbl) (D k : Nat) : Bool :=
  let p := 2 ^ d.e.toNat
  let q := 2 ^ (-d.e).toNat
  let lhs := 4 * D * q
  let centre := 4 * d.m * p * 10 ^ k
  let up := 2 * p * 10 ^ k
  let low := (if d.m = 4503599627370496 ∧ d.e > -1074 then 1 else 2) * p * 10 ^ k
  if d.m % 2 = 0 then decide (centre ≤ lhs + low) && decide (lhs ≤ centre + up)
  else decide (centre < lhs + low) && decide (lhs < centre + up)

/-- the fewest fractional digits `k` (searched upwards from `k`) whose nearest decimal reads back -/
def shortest (d : Dbl) : Nat → Nat → Option (Nat × Nat)
  | 0, _ => none
  | fuel + 1, k =>
    let D := scaledRound d k
    if readsBack d D k then some (D, k) else shortest d fuel (k + 1)

/-- decimal digits of `n` (at least one) -/
def natText (n : Nat) : List Nat := Ext2.natDigits (n + 1) n

/-- `n` written with exactly `k` digits (`n < 10^k`) -/
def fracText (k n : Nat) : List Nat :=
  if k = 0 then [] else List.replicate (k - (natText n).length) 48 ++ natText n

/-- shortest positional notation of |x| as (D, k): |x| ≈ D / 10^k, 1e-4 ≤ D/10^k < 1e16 -/
def shortPos (d : Dbl) : Option (Nat × Nat) :=
  match shortest d 40 0 with
  | some (D, k) => if D * 10000 ≥ 10 ^ k ∧ D < 10 ^ (16 + k) then some (D, k) else none
  | none => none

def signText (neg : Bool) : List Nat := if neg then [45] else []

/-- Python `str(x)` of a float (`float_repr_style == 'short'`), positional notation only -/
def pyFloatStr (bits : UInt64) : Option (List Nat) :=
  match decode bits with
  | none => none                                              -- inf, nan
  | some d =>
    if d.m = 0 then some (signText d.neg ++ [48, 46, 48])     -- 0.0 / -0.0
    else
      match shortPos d with
      | some (D, k) =>
        some (signText d.neg ++ natText (D / 10 ^ k) ++ [46] ++ (if k = 0 then [48] else fracText k (D % 10 ^ k)))
      | none => none                                          -- exponent notation

/-- Python `"{:.mf}".format(x)` split at the point: (sign and integer digits, fractional digits) -/
def fixedParts (d : Dbl) (m : Nat) : List Nat × List Nat :=
  let N := scaledRound d m
  (signText d.neg ++ natText (N / 10 ^ m), fracText m (N % 10 ^ m))

/-! ## Format2 — reference

    Dyadic "$" is like its monadic cousin, but also pads its result with blanks. The minimal size
    of the output string is specified in "a", which must be an integer. "b" is the object to
    format. When the value of "a" is negative, the result string is padded to the right, else it is
    padded to the left.
    When "a" is real number of the form n.m and "b" is also a real number, the representation of
    "b" will have "n" integer digits and "m" fractional digits. The integer part will be padded with
    blanks and the fractional part will be padded with zeros.   "$" is an atomic operator.
        0$123 --> "123"   (-5)$-123 --> " -123"   5$"xyz" --> "xyz  "   (-5)$:foo --> " :foo"
        5.3$123.45 --> "  123.450"

  Decisions (the manual is silent; nothing beyond them is defined):
  * the examples fix the side: a negative size puts the blanks in front, a positive one behind;
  * the text monadic "$" writes for a real number is its shortest positional decimal notation
    (what the manual's own literals 123.45 / 1.23 look like); numbers that need an exponent: undefined;
  * "of the form n.m": a ≥ 1, its shortest notation has the integer part n and fractional digits
    that read as the number m ≥ 1 without a leading zero (5.3, 10.12; not 5.0, 5.03, 0.5, -5.3);
  * "m fractional digits … padded with zeros": defined where nothing has to be rounded away, i.e. the
    notation of b has at most m fractional digits, and at most 15 digits in all (what a double
    carries); the sign of a negative b belongs to the integer part (as in (-5)$-123);
  * `[]` anywhere (atom and empty list at once), sizes/objects of other kinds, two lists of
    different length: undefined. -/

def blanks (n : Nat) : List Nat := List.replicate n 32

/-- `t.ljust(n)` -/
def ljust (t : List Nat) (n : Nat) : List Nat := t ++ blanks (n - t.length)

/-- `t.rjust(n)` -/
def rjust (t : List Nat) (n : Nat) : List Nat := blanks (n - t.length) ++ t

/-- pad to the minimal size |n|: blanks behind for n ≥ 0, in front for n < 0 -/
def padTo (n : Int) (t : List Nat) : List Nat :=
  if n ≥ 0 then ljust t n.natAbs else rjust t n.natAbs

/-- the text monadic `$` writes (Ext3.fmtAtom), extended to reals in positional notation -/
def fmtText : Val → Option (List Nat)
  | .int n => some (Ext3.intStr n)
  | .chr c => some [c]
  | .str s => some s
  | .sym s => some (58 :: s)
  | .real b => pyFloatStr b
  | _ => none

/-- |a| < 1 (Python: `int(a) == 0`) -/
def truncZero (d : Dbl) : Bool := floorInt ⟨false, d.m, d.e⟩ = 0

/-- a > 0 "of the form n.m": (n, m) -/
def formNM (bits : UInt64) : Option (Nat × Nat) :=
  match decode bits with
  | none => none
  | some d =>
    if d.neg || d.m = 0 then none else
    match shortPos d with
    | some (D, k) =>
      let n := D / 10 ^ k
      let m := D % 10 ^ k
      if k ≥ 1 ∧ !truncZero d ∧ m ≥ 10 ^ (k - 1) then some (n, m) else none
    | none => none

/-- nothing of b is rounded away by writing it with m fractional digits -/
def fixedOk (d : Dbl) (m : Nat) : Bool :=
  decide (m ≤ 15) &&
    (if d.m = 0 then true else
      match shortPos d with
      | some (D, k) => decide (k ≤ m) && decide ((natText (D / 10 ^ k)).length + m ≤ 15)
      | none => false)

/-- "n integer digits and m fractional digits" of b, where nothing is rounded away -/
def refFixed (n m : Nat) (bits : UInt64) : Option (List Nat) :=
  match decode bits with
  | none => none
  | some d =>
    if fixedOk d m then some (rjust (fixedParts d m).1 n ++ [46] ++ (fixedParts d m).2) else none

def fmt2Atom : Val → Val → Option Val
  | .int n, b => (fmtText b).map fun t => .str (padTo n t)
  | .real a, .real b =>
    match formNM a with
    | some (n, m) => (refFixed n m b).map .str
    | none => none
  | _, _ => none

def refFormat2 (a b : Val) : Option Val :=
  if Ext3.hasEmptyList a || Ext3.hasEmptyList b then none else refA2 fmt2Atom a b

/-! ## Format2 — implementation  (dyads.py, after a53617e and 0164c67)

    def __e_dyad_format2(a, b, backend):
        (0-d arrays -> .item())
        b = f":{b}" if isinstance(b, KGSym) else b
        if safe_eq(int(a), 0): return str(b)
        if (is_float(b) and not isinstance(b,int)) and (is_float(a) and not isinstance(a,int)):
            b = "{:Xf}".replace("X",str(a)).format(b)
            p = b.split('.'); p[0] = p[0].rjust(int(a)); return ".".join(p)
        return str(b).ljust(abs(a)) if a >= 0 else str(b).rjust(abs(a))

    def _e_dyad_format2(a, b, backend):
        if is_list(a) and is_list(b):
            return kg_asarray([vec_fn2(x, y, _e) for x, y in zip(to_list(a), to_list(b))])
        (if isarray(a) and isarray(b): unreachable, both are lists)
        if is_list(a): return kg_asarray([_e(x, b) for x in a])
        if is_list(b): return kg_asarray([_e(a, y) for y in b])
        return __e_dyad_format2(a, b, backend)

    eval_dyad_format2(a, b): vec_fn2(a, b, _e)
    base.py vec_fn2: object arrays are paired (assert len(a) == len(b)) / extended element-wise by
    vec_fn2 itself; two numeric arrays, or a numeric array and a non-array, reach `_e` whole — which
    pairs them with Python's `zip` (stops at the shorter operand, no assert) / extends.        -/

/-- `str(b)` after the symbol got its colon -/
def pyStrB : Val → Option (List Nat) := fmtText

/-- the format specification `str(a)` of a real size, read by `format` as width `n` and precision
    `m`: (negative, n, m); `none` = not a valid specification (exponent notation): ValueError -/
def specOf (d : Dbl) : Option (Bool × Nat × Nat) :=
  match shortPos d with
  | some (D, k) => some (d.neg, D / 10 ^ k, D % 10 ^ k)
  | none => none

def f2Atom (a b : Val) : Res :=
  match a with
  | .int n =>
    match pyStrB b with
    | none => .unmodelled                                     -- lists (never reached whole), dictionaries, exponents
    | some t => if n = 0 then .ok (.str t) else .ok (.str (padTo n t))
  | .real abits =>
    match decode abits with
    | none => .err                                            -- int(inf) / int(nan) raise
    | some da =>
      if truncZero da then
        match pyStrB b with
        | none => .unmodelled
        | some t => .ok (.str t)                              -- int(a) == 0: str(b)
      else
        match b with
        | .real bbits =>
          match specOf da, decode bbits with
          | none, _ => .err                                   -- "{:1e+16f}": invalid format specifier
          | _, none => .unmodelled                            -- inf / nan
          | some (neg, n, m), some db =>
            if m > 60 then .unmodelled                        -- absurd precisions
            else
              let p := fixedParts db m
              let frac := if m = 0 then [] else 46 :: p.2
              if neg then .ok (.str (rjust (p.1 ++ frac) n))  -- "{:-n.mf}": the width pads the whole text
              else .ok (.str (rjust p.1 n ++ frac))           -- p[0].rjust(int(a))
        | .int _ => .err                                      -- str(b).ljust(abs(a)): a float is no size
        | .chr _ => .err
        | .str _ => .err
        | .sym _ => .err
        | _ => .unmodelled
  | _ => .unmodelled                                          -- int("…") of a text size

/-- prepend a member result to the results of the rest (exceptions propagate) -/
def consRes : Res → Res → Res
  | .ok r, .ok (.list rs) => .ok (.list (r :: rs))
  | .err, _ => .err
  | .unmodelled, _ => .unmodelled
  | _, e => e

/-- `kg_asarray` of the member results (strings and lists of strings) -/
def pack : Res → Res
  | .ok (.list rs) => Ext3.repackText rs
  | .ok _ => .unmodelled
  | e => e

def bothNumeric (a b : Val) : Bool := (numShape a).isSome && (numShape b).isSome

mutual
def implF2 : Val → Val → Res
  | .list xs, .list ys =>
    -- object arrays: vec_fn2 asserts equal lengths; two numeric arrays: Python zip truncates
    if xs.length != ys.length && !bothNumeric (.list xs) (.list ys) then .err
    else pack (implF2Zip xs ys)
  | .list xs, b => pack (implF2MapL xs b)
  | a, .list ys => pack (implF2MapR a ys)
  | a, b => f2Atom a b
termination_by a b => sizeOf a + sizeOf b
def implF2Zip : List Val → List Val → Res
  | [], [] => .ok (.list [])
  | x :: xs, y :: ys => consRes (implF2 x y) (implF2Zip xs ys)
  | _, _ => .ok (.list [])
termination_by xs ys => sizeOf xs + sizeOf ys
def implF2MapL : List Val → Val → Res
  | [], _ => .ok (.list [])
  | x :: xs, b => consRes (implF2 x b) (implF2MapL xs b)
termination_by xs b => sizeOf xs + sizeOf b
def implF2MapR : Val → List Val → Res
  | _, [] => .ok (.list [])
  | a, y :: ys => consRes (implF2 a y) (implF2MapR a ys)
termination_by a ys => sizeOf a + sizeOf ys
end

def implFormat2 (a b : Val) : Res :=
  if Ext1.notStored a || Ext1.notStored b then .unmodelled else implF2 a b

/-! ## Floor of real numbers

    Return "a" rounded toward negative infinity. When "a" is an integer, this is an identity
    operation. If "a" can be converted to integer without loss of precision after rounding, it will
    be converted. Otherwise, a floored real number will be returned.
    Note: loss of precision is predicted by comparing real number precision to the exponent, which
    is a conservative guess.      _123 --> 123   _123.9 --> 123   _1e100 --> 1.0e+100

  Decision (DESIGN C01): below 2^53 every integer is carried exactly by a real: the integer ⌊a⌋;
  from 2^63 on no (64-bit) integer can hold the result: the real a itself (every such real is whole);
  in between the "conservative guess" decides: undefined.  Integers: base reference (identity).

    monads.py eval_monad_floor: vec_fn(a, backend.floor_to_int)
    base.py floor_to_int (after 0e3a9ac):
        if np.asarray(a).dtype.kind in 'iu': return a
        result = np.floor(np.asarray(a, dtype=float))
        if not np.all(np.abs(result) < 2.0**63): return result
        return result.astype(int)
    base.py vec_fn: object arrays member by member (`_is_list` members recursively), else f(a).  -/

def two53 : Nat := 9007199254740992
def two63 : Nat := 9223372036854775808

def refFloor : Val → Option Val
  | .real bits =>
    match decode bits with
    | none => none
    | some d =>
      let n := floorInt d
      if n.natAbs < two53 then some (.int n)
      else if n.natAbs ≥ two63 then some (.real bits)
      else none
  | _ => none

/-- the floors of the members of a numeric array of reals; `none` = inf / nan / not a real -/
def floorsOf : Val → Option (List Int)
  | .real bits => (decode bits).map fun d => [floorInt d]
  | .list xs => goL xs
  | _ => none
where
  goL : List Val → Option (List Int)
    | [] => some []
    | y :: ys =>
      match floorsOf y, goL ys with
      | some a, some b => some (a ++ b)
      | _, _ => none

/- every leaf replaced by its floor, as an integer / as a real -/
mutual
def floorLeaves (asInt : Bool) : Val → Val
  | .real bits =>
    match decode bits with
    | some d => if asInt then .int (floorInt d) else ofF (Float.ofInt (floorInt d))
    | none => .real bits
  | .list xs => .list (floorLeavesL asInt xs)
  | v => v
def floorLeavesL (asInt : Bool) : List Val → List Val
  | [] => []
  | x :: xs => floorLeaves asInt x :: floorLeavesL asInt xs
end

/-- `floor_to_int` on a numeric array / number -/
def floorNumeric (a : Val) : Res :=
  if !Ext1.hasReal a then .ok a                               -- dtype kind 'i' (the empty array is float64: astype(int), still [])
  else if Ext1.hasInt a then .unmodelled                      -- mixed level: not the stored array
  else
    match floorsOf a with
    | none => .unmodelled                                     -- inf / nan
    | some ns =>
      if ns.all (fun n => decide (n.natAbs < two63)) then .ok (floorLeaves true a)
      else
        match a with
        | .real bits => .ok (.real bits)                      -- |a| ≥ 2^63: already whole
        | _ => .ok (floorLeaves false a)                      -- the whole array stays real

mutual
def implFloorRec : Val → Res
  | .list xs =>
    if (numShape (.list xs)).isSome then floorNumeric (.list xs)
    else
      match implFloorL xs with                                -- vec_fn over an object array
      | .ok (.list rs) => if Ext1.objArrayClash rs then .unmodelled else .ok (.list rs)
      | .ok _ => .unmodelled
      | e => e
  | .int n => .ok (.int n)
  | .real bits => floorNumeric (.real bits)
  | _ => .unmodelled                                          -- text: float("…") parses it or raises
def implFloorL : List Val → Res
  | [] => .ok (.list [])
  | x :: xs => consRes (implFloorRec x) (implFloorL xs)
end

def implFloor (a : Val) : Res :=
  if Ext1.notStored a then .unmodelled else implFloorRec a

/-! ## Grade-Up / Grade-Down of lists of lists, strings, characters, reals

    Impose the given order ("<" = ascending, ">" = descending") onto the elements of "a", which
    must be a list or string. Return a list of indices reflecting the desired order. Elements of
    "a" must be comparable by dyadic "<" (Less).
    In addition, "<" and ">" will compare lists by comparing their elements pairwise and
    recursively. E.g. [1 [2] 3] is considered to be "less" than [1 [4] 0], because 1=1 and 2<4
    (3>0 does not matter, because 2<4 already finishes the comparison).
    When "a" is a string, these operators will grade its characters.

  Decisions: Less compares numbers with numbers, characters with characters, strings with strings
  (lexicographically) — nothing else; two lists: the first pair of members that is not equal
  decides; a list against a proper prefix of itself, members that cannot be compared: undefined.
  The order of EQUAL elements is not prescribed (DESIGN C01), so the reference is a function only
  where all elements are pairwise comparable and different — there the sorting permutation is unique.

    monads.py eval_monad_grade_up/down: kg_argsort(kg_asarray(a), backend, descending)
    writer.py kg_argsort (after 05f1070):
        if not is_iterable(a) or len(a) == 0: return a
        if a.ndim == 1 and dtype kind in 'ifu': return backend.argsort(a, descending)  # np.argsort, [::-1]
        def _cmp(x, y):
            if (is_list(x) or is_list(y)) and is_iterable(x) and is_iterable(y):
                for p, q in zip(x, y):
                    c = _cmp(p, q)
                    if c != 0: return c
                return len(x) - len(y)
            return -1 if x < y else 1 if y < x else 0
        key = cmp_to_key(lambda i, j: _cmp(a[i], a[j]) or i - j)
        return np.asarray(sorted(range(len(a)), key=key, reverse=descending))               -/

def cmpNat (a b : Nat) : Ordering := if a < b then .lt else if b < a then .gt else .eq

def cmpInt (a b : Int) : Ordering := if a < b then .lt else if b < a then .gt else .eq

/-- Python `x < y` / `y < x` on floats (NaN: neither, reported as equal) -/
def cmpF (x y : Float) : Ordering := if x < y then .lt else if y < x then .gt else .eq

/-- lexicographic order of texts by code point (Python `str` comparison, Klong Less on strings) -/
def cmpText : List Nat → List Nat → Ordering
  | [], [] => .eq
  | [], _ :: _ => .lt
  | _ :: _, [] => .gt
  | a :: as, b :: bs => if a < b then .lt else if b < a then .gt else cmpText as bs

def isNaNV : Val → Bool
  | .real b => (Float.ofBits b).isNaN
  | _ => false

/-- two numbers (NaN: no order) -/
def cmpNum (a b : Val) : Option Ordering :=
  match a, b with
  | .int x, .int y => some (cmpInt x y)
  | _, _ =>
    match toF a, toF b with
    | some x, some y => if isNaNV a || isNaNV b then none else some (cmpF x y)
    | _, _ => none

mutual
def refCmp : Val → Val → Option Ordering
  | .list xs, .list ys => refCmpL xs ys
  | .chr a, .chr b => some (cmpNat a b)
  | .str a, .str b => some (cmpText a b)
  | a, b => cmpNum a b
def refCmpL : List Val → List Val → Option Ordering
  | [], [] => some .eq
  | x :: xs, y :: ys =>
    match refCmp x y with
    | some .eq => refCmpL xs ys
    | r => r
  | _, _ => none                                              -- a proper prefix: undefined
end

/-- the text of a character, string or symbol (all `str` in Python) -/
def textOf : Val → Option (List Nat)
  | .chr c => some [c]
  | .str s => some s
  | .sym s => some s
  | _ => none

mutual
def implCmp : Val → Val → Option Ordering
  | .list xs, .list ys => implCmpL xs ys
  | .list _, _ => none                                        -- a list against a string / an atom: not modelled
  | _, .list _ => none
  | a, b =>
    match textOf a, textOf b with
    | some s, some t => some (cmpText s t)                    -- str < str
    | _, _ => cmpNum a b                                      -- numbers; str < int raises (none)
def implCmpL : List Val → List Val → Option Ordering
  | [], [] => some .eq
  | x :: xs, y :: ys =>
    match implCmp x y with
    | some .eq => implCmpL xs ys
    | r => r
  | [], _ :: _ => some .lt                                    -- len(x) - len(y)
  | _ :: _, [] => some .gt
end

/-- `p` holds for every pair of members (the earlier one first) -/
def allPairs (p : Val → Val → Bool) : List Val → Bool
  | [] => true
  | x :: xs => xs.all (p x) && allPairs p xs

/-- order of (member, position): the member order, ties by position -/
def leIdx (cmp : Val → Val → Option Ordering) (p q : Val × Nat) : Bool :=
  match cmp p.1 q.1 with
  | some .lt => true
  | some .eq => decide (p.2 ≤ q.2)
  | _ => false

def gradeBy (cmp : Val → Val → Option Ordering) (down : Bool) (xs : List Val) : Val :=
  let up := (Ext2.isort (leIdx cmp) xs.zipIdx).map (·.2)
  .list (Ext2.ofNats (if down then up.reverse else up))

def strictly (cmp : Val → Val → Option Ordering) (x y : Val) : Bool :=
  match cmp x y with
  | some .lt => true
  | some .gt => true
  | _ => false

def refGrade (down : Bool) : Val → Option Val
  | .list xs => if allPairs (strictly refCmp) xs then some (gradeBy refCmp down xs) else none
  | .str cs => if allPairs (strictly refCmp) (strChars cs) then some (gradeBy refCmp down (strChars cs)) else none
  | _ => none

def implGrade (down : Bool) (a : Val) : Res :=
  if Ext1.notStored a then .unmodelled else
  match a with
  | .list [] => .ok (.list [])                                -- len(a) == 0: return a
  | .list xs =>
    if !allPairs (fun x y => (implCmp x y).isSome) xs then .unmodelled   -- a comparison may raise
    else if (numShape a).any (·.length == 1) && !allPairs (strictly implCmp) xs then .unmodelled
      -- rank-1 numeric fast path with equal keys: numpy's default argsort is not stable
    else .ok (gradeBy implCmp down xs)
  | _ => .unmodelled                                          -- strings: extension 2; atoms

/-! ## dispatch -/

def refDyad (verb : String) (a b : Val) : Option Val :=
  match verb with
  | "$" => refFormat2 a b
  | _ => none

def refMonad (verb : String) (a : Val) : Option Val :=
  match verb with
  | "_" => refFloor a
  | "<" => refGrade false a
  | ">" => refGrade true a
  | _ => none

def implDyad (verb : String) (a b : Val) : Res :=
  match verb with
  | "$" => implFormat2 a b
  | _ => .unmodelled

def implMonad (verb : String) (a : Val) : Res :=
  match verb with
  | "_" => implFloor a
  | "<" => implGrade false a
  | ">" => implGrade true a
  | _ => .unmodelled

end Klong.C01.Ext4
