/-
  C13 — property theorems.

  Framing: messages are delivered intact, one by one and in order, however the byte stream is
  split into or merged across network reads (`framing_any_chunking`), and a stream that ends
  inside a frame yields exactly the complete frames before it and then an end-of-stream-inside-
  a-frame status (`incomplete_tail`).  Both are corollaries of `decodeLoop_eq_flat`: the
  pull-based reader computes a function of the concatenation of the reads only.

  Dispatch: `remote_eq_local` — each remote operation form returns / stores what the same
  operation does locally on the server interpreter, for every interpreter, provided the pickle
  round trip `τ` is the identity on what crosses the wire; `tau_singleton_id` discharges that
  for the repaired `KGUndefined`, `pinned_undefined_lost` shows it fails for the pinned one.
-/
import Klong.Model.C13
namespace Klong.C13
open Klong.Wire

/-! ### big-endian length -/

theorem unbe32_be32 (n : Nat) (h : n < 4294967296) : unbe32 (be32 n) = n := by
  simp only [be32, unbe32]; omega

theorem be32_length (n : Nat) : (be32 n).length = 4 := rfl

theorem encode_length (m : Msg) : (encode m).length = m.id.length + 4 + m.body.length := by
  simp [encode, be32_length]; omega

/-! ### readexactly computes a function of the concatenated stream -/

theorem readExactly_ok (n : Nat) (rest : List Bytes) : ∀ buf : Bytes,
    n ≤ (buf ++ rest.flatten).length →
    ∃ b r, readExactly n buf rest = .ok ((buf ++ rest.flatten).take n, b, r) ∧
           b ++ r.flatten = (buf ++ rest.flatten).drop n := by
  induction rest with
  | nil =>
    intro buf h
    simp only [List.flatten_nil, List.append_nil] at h ⊢
    exact ⟨buf.drop n, [], by simp [readExactly, h], by simp⟩
  | cons c cs ih =>
    intro buf h
    by_cases hn : n ≤ buf.length
    · refine ⟨buf.drop n, c :: cs, ?_, ?_⟩
      · simp [readExactly, hn, List.take_append_of_le_length hn]
      · simp [List.drop_append_of_le_length hn]
    · have h' : n ≤ ((buf ++ c) ++ cs.flatten).length := by
        simpa [List.append_assoc] using h
      obtain ⟨b, r, h1, h2⟩ := ih (buf ++ c) h'
      refine ⟨b, r, ?_, ?_⟩
      · simp only [readExactly, hn, if_false, Reader.feed]
        simpa [List.append_assoc] using h1
      · simpa [List.append_assoc] using h2

theorem readExactly_err (n : Nat) (rest : List Bytes) : ∀ buf : Bytes,
    (buf ++ rest.flatten).length < n →
    readExactly n buf rest = .error (buf ++ rest.flatten) := by
  induction rest with
  | nil =>
    intro buf h
    simp only [List.flatten_nil, List.append_nil] at h ⊢
    have : ¬ n ≤ buf.length := by omega
    simp [readExactly, this]
  | cons c cs ih =>
    intro buf h
    have hn : ¬ n ≤ buf.length := by
      simp only [List.length_append] at h; omega
    have h' : ((buf ++ c) ++ cs.flatten).length < n := by
      simpa [List.append_assoc] using h
    simp only [readExactly, hn, if_false, Reader.feed]
    simpa [List.append_assoc] using ih (buf ++ c) h'

/-- `stream_recv_msg` on any split = the flat parser on the concatenation -/
theorem recvMsg_flat (buf : Bytes) (rest : List Bytes) :
    (∀ st p e, recvFlat (buf ++ rest.flatten) = .error (st, p, e) → recvMsg buf rest = .eof st p e) ∧
    (∀ m s', recvFlat (buf ++ rest.flatten) = .ok (m, s') →
       ∃ b r, recvMsg buf rest = .msg m b r ∧ b ++ r.flatten = s') := by
  generalize hs : buf ++ rest.flatten = s
  unfold recvFlat recvMsg
  by_cases h1 : s.length < 16
  · have e1 := readExactly_err 16 rest buf (by rw [hs]; exact h1)
    rw [hs] at e1
    simp only [e1, h1, if_true]
    constructor
    · intro st p e h; cases h; rfl
    · intro m s' h; cases h
  · obtain ⟨b1, r1, e1, f1⟩ := readExactly_ok 16 rest buf (by rw [hs]; omega)
    rw [hs] at e1 f1
    by_cases h2 : (s.drop 16).length < 4
    · have e2 := readExactly_err 4 r1 b1 (by rw [f1]; exact h2)
      rw [f1] at e2
      simp only [e1, e2, h1, h2, if_true, if_false]
      constructor
      · intro st p e h; cases h; rfl
      · intro m s' h; cases h
    · obtain ⟨b2, r2, e2, f2⟩ := readExactly_ok 4 r1 b1 (by rw [f1]; omega)
      rw [f1] at e2 f2
      by_cases h3 : ((s.drop 16).drop 4).length < unbe32 ((s.drop 16).take 4)
      · have e3 := readExactly_err (unbe32 ((s.drop 16).take 4)) r2 b2 (by rw [f2]; exact h3)
        rw [f2] at e3
        simp only [e1, e2, e3, h1, h2, h3, if_true, if_false]
        constructor
        · intro st p e h; cases h; rfl
        · intro m s' h; cases h
      · obtain ⟨b3, r3, e3, f3⟩ :=
          readExactly_ok (unbe32 ((s.drop 16).take 4)) r2 b2 (by rw [f2]; omega)
        rw [f2] at e3 f3
        simp only [e1, e2, e3, h1, h2, h3, if_false]
        constructor
        · intro st p e h; cases h
        · intro m s' h
          cases h
          exact ⟨b3, r3, rfl, f3⟩

/-- the receive loop on any split = the flat loop on the concatenation -/
theorem decodeLoop_eq_flat (f : Nat) : ∀ (buf : Bytes) (rest : List Bytes),
    decodeLoop f buf rest = decodeFlat f (buf ++ rest.flatten) := by
  induction f with
  | zero => intro buf rest; rfl
  | succ f ih =>
    intro buf rest
    obtain ⟨herr, hok⟩ := recvMsg_flat buf rest
    simp only [decodeLoop, decodeFlat]
    cases h : recvFlat (buf ++ rest.flatten) with
    | error t =>
      obtain ⟨st, p, e⟩ := t
      rw [herr st p e h]
    | ok t =>
      obtain ⟨m, s'⟩ := t
      obtain ⟨b, r, h1, h2⟩ := hok m s' h
      rw [h1]
      simp only [ih b r, h2]

/-- **any two ways of cutting the same byte stream into reads decode alike** (also for
    malformed and truncated streams) -/
theorem chunking_irrelevant (c1 c2 : List Bytes) (h : c1.flatten = c2.flatten) :
    decodeStream c1 = decodeStream c2 := by
  simp [decodeStream, decodeLoop_eq_flat, h]

/-! ### the flat parser inverts `encode` -/

theorem recvFlat_parts (i : Bytes) (n : Nat) (d : Bytes) (hi : i.length = 16) (hn : n < 4294967296) :
    recvFlat (i ++ (be32 n ++ d)) =
      if d.length < n then .error (.body, d.length, n) else .ok (⟨i, d.take n⟩, d.drop n) := by
  have h16 : (i ++ (be32 n ++ d)).drop 16 = be32 n ++ d := by
    rw [← hi]; simp
  have ht16 : (i ++ (be32 n ++ d)).take 16 = i := by
    rw [← hi]; simp
  have h4 : (be32 n ++ d).drop 4 = d := by
    rw [← be32_length n]; simp
  have ht4 : (be32 n ++ d).take 4 = be32 n := by
    rw [← be32_length n]; simp
  have hl : ¬ (i ++ (be32 n ++ d)).length < 16 := by
    simp [hi]
  have hl4 : ¬ (be32 n ++ d).length < 4 := by
    simp [be32_length]
  unfold recvFlat
  simp only [h16, ht16, h4, ht4, hl, hl4, if_false, unbe32_be32 n hn]

theorem recvFlat_encode (m : Msg) (s : Bytes) (h : m.WF) :
    recvFlat (encode m ++ s) = .ok (m, s) := by
  have := recvFlat_parts m.id m.body.length (m.body ++ s) h.1 h.2
  simp only [encode, List.append_assoc]
  rw [this]
  simp

theorem decodeFlat_encodes (msgs : List Msg) (hwf : ∀ m ∈ msgs, m.WF) :
    ∀ (f : Nat) (s : Bytes), msgs.length ≤ f →
    decodeFlat f ((msgs.map encode).flatten ++ s) =
      (msgs ++ (decodeFlat (f - msgs.length) s).1, (decodeFlat (f - msgs.length) s).2) := by
  induction msgs with
  | nil => intro f s _; simp
  | cons m ms ih =>
    intro f s hf
    cases f with
    | zero => simp at hf
    | succ g =>
      have hm : m.WF := hwf m (by simp)
      have hms : ∀ x ∈ ms, x.WF := fun x hx => hwf x (by simp [hx])
      simp only [List.map_cons, List.flatten_cons, List.append_assoc, decodeFlat,
        recvFlat_encode m _ hm]
      rw [ih hms g s (by simpa using hf)]
      simp

theorem encodes_length_ge (msgs : List Msg) : msgs.length ≤ (msgs.map encode).flatten.length := by
  induction msgs with
  | nil => simp
  | cons m ms ih =>
    simp only [List.map_cons, List.flatten_cons, List.length_append, List.length_cons, encode_length]
    omega

/-! ### property theorems: framing -/

/-- **framing_any_chunking**: whatever way the byte stream of `msgs` is cut into (or merged
    across) network reads, the receive loop returns exactly `msgs`, intact, one by one, in
    order, and then end-of-stream on a frame boundary. -/
theorem framing_any_chunking (msgs : List Msg) (chunks : List Bytes)
    (hcut : chunks.flatten = (msgs.map encode).flatten)
    (hwf : ∀ m ∈ msgs, m.WF) :
    decodeStream chunks = (msgs, Tail.clean) := by
  have hlen := encodes_length_ge msgs
  simp only [decodeStream, decodeLoop_eq_flat, List.nil_append, hcut]
  have := decodeFlat_encodes msgs hwf ((msgs.map encode).flatten.length + 1) [] (by omega)
  simp only [List.append_nil] at this
  rw [this]
  have hpos : (msgs.map encode).flatten.length + 1 - msgs.length =
      ((msgs.map encode).flatten.length - msgs.length) + 1 := by omega
  rw [hpos]
  simp [decodeFlat, recvFlat, Tail.clean]

example : decodeStream [[0,1,2,3,4,5,6,7,8,9,10,11,12,13,14,15,0,0], [0,2,170], [187,
      1,1,1,1,1,1,1,1,1,1,1,1,1,1,1,1,0,0,0,0]] =
    ([⟨[0,1,2,3,4,5,6,7,8,9,10,11,12,13,14,15], [170, 187]⟩, ⟨[1,1,1,1,1,1,1,1,1,1,1,1,1,1,1,1], []⟩],
     Tail.clean) := by decide

/-- senders that each hand their frame to the transport in ONE write (what `stream_send_msg` does) may be
    interleaved in any order: whatever order `msgs` the whole frames end up in, the receiver gets exactly
    those messages in that order -/
theorem whole_frame_writes_decode (msgs : List Msg) (hwf : ∀ m ∈ msgs, m.WF) :
    decodeStream (msgs.map encode) = (msgs, Tail.clean) :=
  framing_any_chunking msgs (msgs.map encode) rfl hwf

/-- the cut frame's own parse: `k` bytes of `encode m`, `0 < k < length` -/
theorem recvFlat_cut (m : Msg) (k : Nat) (h : m.WF) (hk : k < (encode m).length) :
    ∃ st p e, recvFlat ((encode m).take k) = .error (st, p, e) ∧ cutTail m k = .eof st p e := by
  have hlen := encode_length m
  have hi := h.1
  by_cases h16 : k < 16
  · refine ⟨.id, k, 16, ?_, by simp [cutTail, h16]⟩
    have : ((encode m).take k).length = k := by simp; omega
    simp [recvFlat, this, h16]
  · by_cases h20 : k < 20
    · refine ⟨.len, k - 16, 4, ?_, by simp [cutTail, h16, h20]⟩
      have l1 : ((encode m).take k).length = k := by simp; omega
      have l2 : (((encode m).take k).drop 16).length = k - 16 := by simp; omega
      have : k - 16 < 4 := by omega
      simp [recvFlat, l1, l2, h16, this]
    · refine ⟨.body, k - 20, m.body.length, ?_, by simp [cutTail, h16, h20]⟩
      have hsplit : (encode m).take k = m.id ++ (be32 m.body.length ++ m.body.take (k - 20)) := by
        simp only [encode, List.take_append, hi, be32_length]
        have a1 : List.take k m.id = m.id := List.take_of_length_le (by omega)
        have a2 : List.take (k - 16) (be32 m.body.length) = be32 m.body.length :=
          List.take_of_length_le (by simp [be32_length]; omega)
        have a3 : k - 16 - 4 = k - 20 := by omega
        rw [a1, a2, a3]
      rw [hsplit, recvFlat_parts _ _ _ hi h.2]
      have l3 : (m.body.take (k - 20)).length = k - 20 := by simp; omega
      have l4 : k - 20 < m.body.length := by omega
      simp [l3, l4]

theorem cutTail_ne_clean (m : Msg) (k : Nat) (hk : 0 < k) : cutTail m k ≠ Tail.clean := by
  unfold cutTail Tail.clean
  split
  · intro h; injection h; omega
  · split <;> intro h <;> injection h <;> contradiction

/-- **incomplete_tail**: a stream that ends `k` bytes into a frame (`0 < k < frame length`),
    cut into reads in any way, yields exactly the complete frames before it and then an
    end-of-stream *inside a frame* (the `IncompleteReadError` that C14 relies on) — never a
    partial or spurious message, never a clean end. -/
theorem incomplete_tail (msgs : List Msg) (m : Msg) (k : Nat) (chunks : List Bytes)
    (hcut : chunks.flatten = (msgs.map encode).flatten ++ (encode m).take k)
    (hwf : ∀ x ∈ msgs, x.WF) (hm : m.WF) (hk0 : 0 < k) (hk : k < (encode m).length) :
    decodeStream chunks = (msgs, cutTail m k) ∧ cutTail m k ≠ Tail.clean := by
  refine ⟨?_, cutTail_ne_clean m k hk0⟩
  have hlen := encodes_length_ge msgs
  simp only [decodeStream, decodeLoop_eq_flat, List.nil_append, hcut]
  rw [decodeFlat_encodes msgs hwf _ _ (by simp only [List.length_append]; omega)]
  obtain ⟨st, p, e, h1, h2⟩ := recvFlat_cut m k hm hk
  have hpos : ((msgs.map encode).flatten ++ (encode m).take k).length + 1 - msgs.length =
      (((msgs.map encode).flatten ++ (encode m).take k).length - msgs.length) + 1 := by
    simp only [List.length_append]; omega
  rw [hpos]
  simp [decodeFlat, h1, h2]

example : decodeStream [[0,1,2,3,4,5,6,7,8,9,10,11,12,13,14,15,0,0,0,2,170,187,1,1,1], [1,1,1,1,1,
      1,1,1,1,1,1,1,1,0,0], [0,5,9]] =
    ([⟨[0,1,2,3,4,5,6,7,8,9,10,11,12,13,14,15], [170, 187]⟩], .eof .body 1 5) := by decide

/-- the loop never runs out of rounds: the fuel status is unreachable -/
theorem decodeFlat_no_fuel : ∀ (f : Nat) (s : Bytes), s.length < f → (decodeFlat f s).2 ≠ .fuel := by
  intro f
  induction f with
  | zero => intro s h; omega
  | succ f ih =>
    intro s h
    simp only [decodeFlat]
    cases hr : recvFlat s with
    | error t => obtain ⟨st, p, e⟩ := t; simp
    | ok t =>
      obtain ⟨m, s'⟩ := t
      simp only
      apply ih
      -- a successful receive consumes at least 20 bytes
      unfold recvFlat at hr
      split at hr
      · cases hr
      · split at hr
        · cases hr
        · split at hr
          · cases hr
          · injection hr with hr
            injection hr with _ hs
            rw [← hs]
            simp only [List.length_drop] at *
            omega

theorem decodeStream_no_fuel (chunks : List Bytes) : (decodeStream chunks).2 ≠ .fuel := by
  simp only [decodeStream, decodeLoop_eq_flat, List.nil_append]
  exact decodeFlat_no_fuel _ _ (by omega)

/-! ### dispatch: the pickle round trip -/

mutual
/-- with a singleton `KGUndefined` class the pickle round trip is the identity on every value -/
theorem tau_singleton_id : (v : Val) → tau true v = v
  | .list xs => by simp [tau, tauL_singleton_id xs]
  | .dict xs => by simp [tau, tauL_singleton_id xs]
  | .undef => by simp [tau]
  | .int _ | .real _ | .chr _ | .sym _ | .str _ | .undefCopy | .none | .fn _ _ | .fnref _
  | .proxy _ _ => by simp [tau]
theorem tauL_singleton_id : (vs : List Val) → tauL true vs = vs
  | [] => by simp [tauL]
  | x :: xs => by simp [tauL, tau_singleton_id x, tauL_singleton_id xs]
end

/-- hypothesis on the transport: identity on everything that crosses the wire -/
def TauId (τ : Val → Val) : Prop := ∀ v, v.wire = true → τ v = v

theorem tauId_singleton : TauId (tau true) := fun v _ => tau_singleton_id v

/-- the pinned class (a fresh `KGUndefined` per unpickle) does not satisfy it -/
theorem not_tauId_pinned : ¬ TauId (tau false) := by
  intro h
  have := h .undef rfl
  simp [tau] at this

theorem wire_of_data (v : Val) (h : v.data = true) : v.wire = true := by
  cases v <;> simp_all [Val.wire, Val.data]

theorem wrapResp_wire (r : Val) (h : okResult r = true) : (wrapResp r).wire = true := by
  cases r <;> simp_all [okResult, wrapResp, Val.wire, Val.isFn, Val.data]

theorem clientPost_wrap (a : Option String) (r : Val) (h : okResult r = true) :
    clientPost a (wrapResp r) = present a r := by
  cases r <;> cases a <;> simp_all [okResult, wrapResp, clientPost, present, Val.isFn, Val.data]

theorem map_tau_id {τ : Val → Val} (hτ : TauId τ) (args : List Val)
    (h : ∀ a ∈ args, a.data = true) : args.map τ = args := by
  induction args with
  | nil => rfl
  | cons x xs ih =>
    simp only [List.map_cons]
    rw [hτ x (wire_of_data x (h x (by simp))), ih (fun a ha => h a (by simp [ha]))]

/-- precondition of one operation in state `st`: the arguments sent are data and the local
    result is data or a function (the universe the property quantifies over) -/
def OpOK {σ : Type} (I : Interp σ) (st : σ) : Op → Prop
  | .text e => ∀ st' r, I.evalText st e = some (st', r) → okResult r = true
  | .sym n => ∀ st' r, I.evalText st n = some (st', r) → okResult r = true
  | .call n args => (∀ a ∈ args, a.data = true) ∧
      ∀ st' r, localCall I st n args = some (st', r) → okResult r = true
  | .proxy n k args => (∀ a ∈ args, a.data = true) ∧
      ∀ st' r, localCall I st n (args.take k) = some (st', r) → okResult r = true
  | .get k => ∀ r, I.get st k = some r → okResult r = true
  | .set _ v => v.data = true

section
variable {σ : Type} (I : Interp σ) {τ : Val → Val} (hτ : TauId τ)
include hτ

theorem roundTrip_text (st : σ) (e : String) (a : Option String)
    (hres : ∀ st' r, I.evalText st e = some (st', r) → okResult r = true) :
    (roundTrip τ I st (.text e)).map (fun p => (p.1, clientPost a p.2)) =
      (I.evalText st e).map (fun p => (p.1, present a p.2)) := by
  simp only [roundTrip, Cmd.transport, dispatch]
  cases h : I.evalText st e with
  | none => simp
  | some p =>
    obtain ⟨st', r⟩ := p
    have hr := hres st' r h
    simp [hτ _ (wrapResp_wire r hr), clientPost_wrap _ r hr]

theorem roundTrip_fnCall (st : σ) (n : String) (args : List Val)
    (hargs : ∀ a ∈ args, a.data = true)
    (hres : ∀ st' r, localCall I st n args = some (st', r) → okResult r = true) :
    roundTrip τ I st (.fnCall n args) =
      (localCall I st n args).map (fun p => (p.1, present Option.none p.2)) := by
  simp only [roundTrip, Cmd.transport, dispatch, map_tau_id hτ args hargs]
  unfold localCall at hres ⊢
  cases hg : I.get st n with
  | none => simp
  | some f =>
    simp only [hg] at hres ⊢
    by_cases hf : f.isFn = true
    · simp only [hf, if_true] at hres ⊢
      cases hc : I.call st f args with
      | none => simp
      | some p =>
        obtain ⟨st', r⟩ := p
        have hr := hres st' r hc
        have hp := clientPost_wrap Option.none r hr
        simp only [clientPost] at hp
        have ht := hτ _ (wrapResp_wire r hr)
        rw [hp] at ht
        simp [ht, hp]
    · simp [hf]

/-- **one remote operation = the same operation on the server interpreter** -/
theorem remote_step_eq_local (st : σ) (op : Op) (hok : OpOK I st op) :
    remoteStep τ I st op = localStep I st op := by
  cases op with
  | text e =>
    simpa [remoteStep, localStep, remoteApply, mkRequest, askedSym] using
      roundTrip_text I hτ st e Option.none hok
  | sym n =>
    simpa [remoteStep, localStep, remoteApply, mkRequest, askedSym] using
      roundTrip_text I hτ st n (some n) hok
  | call n args =>
    have h := roundTrip_fnCall I hτ st n args hok.1 hok.2
    simp only [remoteStep, localStep, remoteApply, mkRequest, askedSym, h, Option.map_map]
    congr 1
  | proxy n k args =>
    have hargs : ∀ a ∈ args.take k, a.data = true := fun a ha => hok.1 a (List.mem_of_mem_take ha)
    simpa [remoteStep, localStep, remoteProxy, proxyRequest] using
      roundTrip_fnCall I hτ st n (args.take k) hargs hok.2
  | get k =>
    simp only [remoteStep, localStep, remoteGet, roundTrip, Cmd.transport, dispatch]
    cases hg : I.get st k with
    | none => simp
    | some r =>
      have hr := hok r hg
      simp [hτ _ (wrapResp_wire r hr), clientPost_wrap _ r hr]
  | set k v =>
    have hv : τ v = v := hτ v (wire_of_data v hok)
    simp [remoteStep, localStep, remoteSet, roundTrip, Cmd.transport, dispatch, hv]

/-- precondition along a whole history (checked against the *local* run) -/
def AllOK {σ : Type} (I : Interp σ) : σ → List Op → Prop
  | _, [] => True
  | st, op :: ops => OpOK I st op ∧ ∀ st' r, localStep I st op = some (st', r) → AllOK I st' ops

/-- **every sequence of remote operations = the same sequence run on the server**: same
    results one by one, same final server state -/
theorem remote_run_eq_local (ops : List Op) : ∀ (st : σ), AllOK I st ops →
    runWith (remoteStep τ I) st ops = runWith (localStep I) st ops := by
  induction ops with
  | nil => intro st _; rfl
  | cons op ops ih =>
    intro st h
    simp only [runWith, remote_step_eq_local I hτ st op h.1]
    cases hl : localStep I st op with
    | none => rfl
    | some p =>
      obtain ⟨st', r⟩ := p
      simp only [ih st' (h.2 st' r hl)]

end

/-- **remote_eq_local** for the repaired transport (singleton `KGUndefined`): for every
    interpreter, every state and every history of `f("expr")`, `f(:name)`, `f(:name,args)`,
    proxy calls, remote-dictionary gets and sets over the transportable universe, the results
    and the final server state equal those of the same operations evaluated on the server. -/
theorem remote_eq_local {σ : Type} (I : Interp σ) (st : σ) (ops : List Op) (h : AllOK I st ops) :
    runWith (remoteStep (tau true) I) st ops = runWith (localStep I) st ops :=
  remote_run_eq_local I tauId_singleton ops st h

/-- `:undefined` still tests as undefined after transport: presenting a result never changes
    the outcome of `:_` -/
theorem present_isUndef (a : Option String) (r : Val) : (present a r).isUndef = r.isUndef := by
  cases r <;> cases a <;> simp [present, Val.isUndef]

/-! non-vacuity: a history on the concrete interpreter satisfying `AllOK`, and what it returns -/

def demoOps : List Op :=
  [.set "foo" (.list [.int 1, .undef]), .get "foo", .call "und1" [.undef], .sym "id1",
   .proxy "snd" 2 [.int 1, .str "a"], .call "bump" [.int 5], .get "cnt"]

def demoInterp : Interp Store where
  evalText := fun s t => (s.get t).map (fun v => (s, v))     -- bare names only
  get := Store.get
  set := Store.set
  call := miniCall

example : (runWith (remoteStep (tau true) demoInterp) builtins demoOps).map (fun p => p.2.map Val.isUndef)
    = some [true, false, false, false, false, false, false] := by decide

example : (runWith (remoteStep (tau true) demoInterp) builtins [.call "und1" [.undef]]).map
    (fun p => p.2.map intOf) = some [some 1] := by decide

/-! projections with a fixed argument that is not leading keep their positions through a remote call -/
example : (runWith (remoteStep (tau true) demoInterp) builtins
      [.call "dec" [.int 5], .proxy "ends" 2 [.int 1, .int 3], .call "nend" [.int 4], .call "suf" [.str "abc"],
       .sym "dec"]).map (fun p => p.2.map showVal)
    = some ["i4", "L3,i1,i2,i3", "L3,i4,i2,i9", "s6162633e", "P1,y646563"] := by decide +kernel

/-! ### the pinned tree violates the property: witness -/

/-- an interpreter in which `1%0` evaluates to `:undefined` -/
def divZero : Interp Unit where
  evalText := fun s t => if t = "1%0" then some (s, .undef) else Option.none
  get := fun _ _ => Option.none
  set := fun s _ _ => s
  call := fun _ _ _ => Option.none

/-- with the pinned `KGUndefined` (pickle builds a second instance) `:_f("1%0")` is 0 although
    `:_1%0` is 1 on the server -/
theorem pinned_undefined_lost :
    (remoteStep (tau false) divZero () (.text "1%0")).map (fun p => p.2.isUndef) = some false ∧
    (localStep divZero () (.text "1%0")).map (fun p => p.2.isUndef) = some true := by decide

/-- … and the repaired one does not -/
example : (remoteStep (tau true) divZero () (.text "1%0")).map (fun p => p.2.isUndef) = some true := by
  decide

end Klong.C13
