/-
  C16 — property theorems for the sequential FileCache / key-value store / table merge.
  Helper lemmas first (private), property theorems below the line.
-/
import Klong.Model.C16
namespace Klong.C16
open Klong.Wire

/-! ## helper lemmas -/

theorem sizes_nil : sizes [] = 0 := rfl
theorem sizes_cons (e : Entry) (es : List Entry) : sizes (e :: es) = e.size + sizes es := by
  simp [sizes]
theorem sizes_append (a b : List Entry) : sizes (a ++ b) = sizes a + sizes b := by
  simp [sizes, List.sum_append]

theorem sizes_split (es : List Entry) (ev : List Name) :
    sizes es = sizes (evict es ev) + sizes (gone es ev) := by
  induction es with
  | nil => simp [evict, gone, sizes]
  | cons e es ih =>
    simp only [evict, gone] at ih ⊢
    by_cases h : e.name ∈ ev
    · simp [List.filter_cons, h, sizes_cons] at ih ⊢; omega
    · simp [List.filter_cons, h, sizes_cons] at ih ⊢; omega

theorem sizes_nonneg (es : List Entry) : 0 ≤ sizes es := by
  induction es with
  | nil => simp [sizes]
  | cons e es ih => rw [sizes_cons]; omega

theorem names_evict_sub (es : List Entry) (ev : List Name) :
    (names (evict es ev)).Sublist (names es) := by
  unfold names evict
  exact List.Sublist.map _ List.filter_sublist

theorem mem_evict {es : List Entry} {ev : List Name} {e : Entry} :
    e ∈ evict es ev ↔ e ∈ es ∧ ev.contains e.name = false := by
  simp [evict]

theorem not_mem_names_without (es : List Entry) (n : Name) : n ∉ names (without es n) := by
  simp [names, without, evict]

theorem disk_get_set_same (d : Disk) (n : Name) (b : Bytes) : (d.set n b).get n = some b := by
  simp [Disk.set, Disk.get, List.lookup]

theorem lookup_filter_ne (d : Disk) (n k : Name) (h : k ≠ n) :
    List.lookup k (d.filter (fun p => p.1 != n)) = List.lookup k d := by
  induction d with
  | nil => rfl
  | cons p d ih =>
    obtain ⟨a, b⟩ := p
    by_cases hp : a = n
    · subst hp
      have : (k == a) = false := beq_false_of_ne h
      simp [List.lookup, ih, this]
    · by_cases hk : k = a
      · simp [List.filter_cons, hp, List.lookup, hk]
      · simp [List.filter_cons, hp, List.lookup, ih, beq_false_of_ne hk]

theorem disk_get_set_other (d : Disk) (n k : Name) (b : Bytes) (h : k ≠ n) :
    (d.set n b).get k = d.get k := by
  simp [Disk.set, Disk.get, List.lookup, beq_false_of_ne h, lookup_filter_ne d n k h]

/-! ## one-step invariant -/

theorem inv_init (max : Nat) (disk : Disk) : Inv (init max disk) :=
  ⟨rfl, by simp [init], by simp [init, names], by simp [init]⟩

theorem inv_unload (s : Cache) (n : Name) (h : Inv s) : Inv (unload s n).1 := by
  have hs := sizes_split s.entries [n]
  have hg := sizes_nonneg (gone s.entries [n])
  refine ⟨?_, ?_, ?_, ?_⟩
  · simp only [unload, without]; rw [h.acct]; omega
  · simp only [unload]; have := h.bound; omega
  · exact List.Sublist.nodup (names_evict_sub _ _) h.nodup
  · intro e he
    simp only [unload, without] at he ⊢
    exact h.fresh e (mem_evict.mp he).1

theorem legalEv_bound {es ev mem max claim} (h : legalEv es ev mem max claim = true) :
    mem - sizes (gone es ev) + (claim : Int) ≤ max := by
  simp [legalEv] at h; exact h.2

theorem inv_update (s : Cache) (n : Name) (d : Bytes) (ev : List Name) (h : Inv s) :
    Inv (update s n d ev).1 := by
  unfold update
  split
  · exact h
  · dsimp only
    split
    · rename_i hmax hleg
      have h1 := sizes_split s.entries [n]
      have h2 := sizes_split (without s.entries n) ev
      have hb := legalEv_bound hleg
      refine ⟨?_, ?_, ?_, ?_⟩
      · simp only [sizes_append, sizes_cons, sizes_nil, without] at *
        rw [h.acct]; omega
      · simpa using hb
      · simp only [names, List.map_append, List.map_cons, List.map_nil]
        rw [List.nodup_append]
        refine ⟨List.Sublist.nodup (names_evict_sub _ _)
                  (List.Sublist.nodup (names_evict_sub _ _) h.nodup), by simp, ?_⟩
        intro a ha b hb'
        simp at hb'
        subst hb'
        intro hab; subst hab
        exact not_mem_names_without s.entries a
          (List.Sublist.subset (names_evict_sub _ ev) ha)
      · intro e he
        simp only [List.mem_append, List.mem_singleton] at he
        rcases he with he | he
        · have he1 := (mem_evict.mp he).1
          have he2 := mem_evict.mp he1
          have hne : e.name ≠ n := by
            intro hh; have := he2.2; simp [hh] at this
          simp only [disk_get_set_other _ _ _ _ hne]
          exact h.fresh e he2.1
        · subst he; simp [disk_get_set_same]
    · exact h

theorem find_name {es : List Entry} {n : Name} {e : Entry}
    (h : es.find? (fun e => e.name == n) = some e) : e ∈ es ∧ e.name = n := by
  have h1 := List.mem_of_find?_eq_some h
  have h2 := List.find?_some h
  exact ⟨h1, by simpa using h2⟩

theorem find_none_not_mem {es : List Entry} {n : Name}
    (h : es.find? (fun e => e.name == n) = none) : n ∉ names es := by
  simp [names] at *
  intro e he hn
  exact h e he hn

theorem sizes_gone_single (es : List Entry) (e : Entry) (hn : (names es).Nodup) (he : e ∈ es) :
    sizes (gone es [e.name]) = e.size := by
  induction es with
  | nil => cases he
  | cons a as ih =>
    simp only [names, List.map_cons, List.nodup_cons] at hn
    rcases List.mem_cons.mp he with rfl | he'
    · have hnil : List.filter (fun x => decide (x.name = e.name)) as = [] := by
        rw [List.filter_eq_nil_iff]
        intro x hx; simp
        intro hxe; exact hn.1 (by rw [← hxe]; exact List.mem_map_of_mem hx)
      simp [gone, sizes_cons, hnil, sizes_nil]
    · have hne : a.name ≠ e.name := by
        intro hh; exact hn.1 (by rw [hh]; exact List.mem_map_of_mem he')
      have := ih hn.2 he'
      simp [gone, List.filter_cons, hne] at this ⊢
      exact this

theorem inv_get (s : Cache) (n : Name) (ev : List Name) (h : Inv s) : Inv (get s n ev).1 := by
  unfold get
  split
  · exact h
  · rename_i b hb
    split
    · exact h
    · rename_i hmax
      split
      · rename_i e hfind
        split
        · obtain ⟨hmem, hname⟩ := find_name hfind
          have h1 := sizes_split s.entries [n]
          have hg := sizes_gone_single s.entries e h.nodup hmem
          rw [hname] at hg
          refine ⟨?_, h.bound, ?_, ?_⟩
          · simp only [sizes_append, sizes_cons, sizes_nil, without]; rw [h.acct]; omega
          · simp only [names, List.map_append, List.map_cons, List.map_nil]
            rw [List.nodup_append]
            refine ⟨List.Sublist.nodup (names_evict_sub _ _) h.nodup, by simp, ?_⟩
            intro a ha b hb'
            simp at hb'; subst hb'
            intro hab; subst hab
            rw [hname] at ha
            exact not_mem_names_without s.entries n ha
          · intro x hx
            simp only [List.mem_append, List.mem_singleton] at hx
            rcases hx with hx | hx
            · exact h.fresh x (mem_evict.mp hx).1
            · subst hx; exact h.fresh x hmem
        · exact h
      · rename_i hfind
        split
        · rename_i hleg
          have h2 := sizes_split s.entries ev
          have hb' := legalEv_bound hleg
          have hnot := find_none_not_mem hfind
          refine ⟨?_, ?_, ?_, ?_⟩
          · simp only [sizes_append, sizes_cons, sizes_nil]; rw [h.acct]; omega
          · simpa using hb'
          · simp only [names, List.map_append, List.map_cons, List.map_nil]
            rw [List.nodup_append]
            refine ⟨List.Sublist.nodup (names_evict_sub _ _) h.nodup, by simp, ?_⟩
            intro a ha b hb''
            simp at hb''; subst hb''
            intro hab; subst hab
            exact hnot (List.Sublist.subset (names_evict_sub _ ev) ha)
          · intro x hx
            simp only [List.mem_append, List.mem_singleton] at hx
            rcases hx with hx | hx
            · exact h.fresh x (mem_evict.mp hx).1
            · subst hx; exact ⟨hb, rfl⟩
        · exact h

theorem inv_step (s : Cache) (op : Op) (h : Inv s) : Inv (step s op).1 := by
  cases op with
  | update n d ev => exact inv_update s n d ev h
  | get n ev => exact inv_get s n ev h
  | unload n => exact inv_unload s n h
  | reopen => exact inv_init _ _
  | reopenWith m => exact inv_init _ _

theorem step_max (s : Cache) (op : Op) : (step s op).1.max = nextMax s.max op := by
  cases op with
  | update n d ev =>
    simp only [step, update]
    split
    · rfl
    · split <;> rfl
  | get n ev =>
    simp only [step, get]
    split
    · rfl
    · split
      · rfl
      · split <;> split <;> rfl
  | unload n => rfl
  | reopen => rfl
  | reopenWith m => rfl

/-- one concrete step produces the abstract map's output and commutes with `abs`,
    whatever legal eviction choice accompanies it -/
theorem step_refines (s : Cache) (op : Op) (h : Inv s) (hl : (step s op).2 ≠ .illegal) :
    (step s op).2 = (specStep s.max (abs s) op).2 ∧
    abs (step s op).1 = (specStep s.max (abs s) op).1 := by
  cases op with
  | update n d ev =>
    simp only [step, update, specStep] at hl ⊢
    split
    · simp [abs]
    · dsimp only at hl ⊢
      split
      · refine ⟨rfl, ?_⟩
        funext k
        by_cases hk : k = n
        · subst hk; simp [abs, disk_get_set_same]
        · simp [abs, hk, disk_get_set_other _ _ _ _ hk]
      · rename_i h1 h2; simp [h1, h2] at hl
  | get n ev =>
    simp only [step, specStep, abs] at hl ⊢
    unfold get at hl ⊢
    cases hb : s.disk.get n with
    | none => simp
    | some b =>
      simp only [hb] at hl ⊢
      by_cases hmax : b.length > s.max
      · simp [hmax]
      · simp only [hmax, if_false] at hl ⊢
        cases hfind : s.entries.find? (fun e => e.name == n) with
        | some e =>
          simp only [hfind] at hl ⊢
          by_cases hev : ev.isEmpty = true
          · simp only [hev, if_true] at hl ⊢
            obtain ⟨hmem, hname⟩ := find_name hfind
            have := (h.fresh e hmem).1
            rw [hname, hb] at this
            simp at this
            exact ⟨by simp [this], rfl⟩
          · simp [hev] at hl
        | none =>
          simp only [hfind] at hl ⊢
          by_cases hleg : legalEv s.entries ev s.mem s.max b.length = true
          · simp only [hleg, if_true]; exact ⟨trivial, rfl⟩
          · simp [hleg] at hl
  | unload n => exact ⟨rfl, rfl⟩
  | reopen => exact ⟨rfl, rfl⟩
  | reopenWith m => exact ⟨rfl, rfl⟩

/-! ------------------------------------------------------------------------------------
  ## Property theorems (C16)
------------------------------------------------------------------------------------- -/

/-- **accounting_inv**: after any operation sequence from a freshly opened cache over any
    directory contents, under any limit and for *every* eviction choice at every step:
    the byte total equals the sum of the cached entries, lies in `[0, max]`, entry names are
    unique and every cached entry equals the file on disk. -/
theorem accounting_inv (max : Nat) (disk : Disk) (ops : List Op) :
    Inv (run (init max disk) ops).1 := by
  suffices ∀ s, Inv s → Inv (run s ops).1 from this _ (inv_init max disk)
  induction ops with
  | nil => intro s h; exact h
  | cons op ops ih => intro s h; simp only [run]; exact ih _ (inv_step s op h)

/-- the accounting clauses of the property, spelled out -/
theorem accounting_bounds (max : Nat) (disk : Disk) (ops : List Op) :
    let s := (run (init max disk) ops).1
    s.mem = sizes s.entries ∧ 0 ≤ s.mem ∧ s.mem ≤ s.max := by
  have h := accounting_inv max disk ops
  exact ⟨h.acct, by rw [h.acct]; exact sizes_nonneg _, h.bound⟩

/-- **kvs_refines_map**: for every operation sequence in which every eviction choice is
    legal, the outputs are those of the abstract finite map and the final disk is the
    abstract map's final state — in particular evictions, unloads and reopening never
    change what a get returns (**eviction_keeps_map**). -/
theorem kvs_refines_map (ops : List Op) (s : Cache) (h : Inv s)
    (hl : Out.illegal ∉ (run s ops).2) :
    (run s ops).2 = (specRun s.max (abs s) ops).2 ∧
    abs (run s ops).1 = (specRun s.max (abs s) ops).1 := by
  induction ops generalizing s with
  | nil => simp [run, specRun]
  | cons op ops ih =>
    simp only [run, specRun] at hl ⊢
    have hne : (step s op).2 ≠ .illegal := by
      intro hh; apply hl; simp [hh]
    have hl' : Out.illegal ∉ (run (step s op).1 ops).2 := by
      intro hh; apply hl; simp [hh]
    obtain ⟨h1, h2⟩ := step_refines s op h hne
    obtain ⟨i1, i2⟩ := ih (step s op).1 (inv_step s op h) hl'
    rw [step_max, h2] at i1 i2
    exact ⟨by rw [h1, i1], i2⟩

/-- the abstract map itself is the obvious one: a get returns the latest set (spec level,
    readable in one line; `kvs_refines_map` transports it to the cache) -/
theorem spec_get_after_set (max : Nat) (m : Spec) (n : Name) (d : Bytes) (ev ev' : List Name)
    (hd : d.length ≤ max) :
    (specStep max (specStep max m (.update n d ev)).1 (.get n ev')).2 = .data d := by
  simp [specStep, Nat.not_lt.mpr hd]

theorem spec_set_other_key (max : Nat) (m : Spec) (n k : Name) (d : Bytes) (ev : List Name)
    (hk : k ≠ n) : (specStep max m (.update n d ev)).1 k = m k := by
  simp only [specStep]; split <;> simp [hk]

theorem spec_oversize_rejected (max : Nat) (m : Spec) (n : Name) (d : Bytes) (ev : List Name)
    (hd : max < d.length) : specStep max m (.update n d ev) = (m, .memErr) := by
  simp [specStep, hd]

theorem spec_missing_key (max : Nat) (m : Spec) (n : Name) (ev : List Name) (h : m n = none) :
    specStep max m (.get n ev) = (m, .notFound) := by
  simp [specStep, h]

/-- the cache-level statement: a get directly after a set of the same key returns that
    value, whatever was cached, evicted or reopened before -/
theorem get_after_set (s : Cache) (h : Inv s) (n : Name) (d : Bytes) (ev ev' : List Name)
    (hd : d.length ≤ s.max)
    (hl : Out.illegal ∉ (run s [.update n d ev, .get n ev']).2) :
    (run s [.update n d ev, .get n ev']).2 = [.applied, .data d] := by
  have := (kvs_refines_map _ s h hl).1
  rw [this]
  simp [specRun, specStep, nextMax, Nat.not_lt.mpr hd]

/-- the code's own choice is legal: evicting *everything* always satisfies `legalEv` when the
    claim fits the limit (so the loop of `recover_memory` can always succeed) -/
theorem evict_all_legal (es : List Entry) (mem : Int) (max claim : Nat)
    (hm : mem = sizes es) (hc : claim ≤ max) : legalEv es (names es) mem max claim = true := by
  have hg : gone es (names es) = es := by
    simp only [gone, List.filter_eq_self]
    intro e he; simp [names]; exact ⟨e, he, rfl⟩
  simp [legalEv, hg, hm]; omega

/-- non-vacuity: a concrete run with a forced eviction meets the hypotheses -/
example :
    let ops := [Op.update "a" [1,2,3] [], .update "b" [4,5,6] ["a"], .get "a" ["b"], .reopen,
                .get "b" []]
    (run (init 4 []) ops).2 = [.applied, .applied, .data [1,2,3], .done, .data [4,5,6]] := by
  decide

/-- another store object on the same directory with a SMALLER limit: a get of a value that does not fit is
    refused and leaves the accounting untouched; a later set that fits is accounted exactly once -/
example :
    let ops := [Op.update "a" [1,2,3,4,5] [], .reopenWith 2, .get "a" [], .get "a" [], .update "a" [7] [],
                .get "a" [], .unload "a"]
    (run (init 8 []) ops).2 = [.applied, .done, .memErr, .memErr, .applied, .data [7], .done] ∧
    (run (init 8 []) (ops.take 4)).1.mem = 0 ∧ (run (init 8 []) (ops.take 6)).1.mem = 1 ∧
    (run (init 8 []) ops).1.mem = 0 := by
  decide

/-! ### table store merge -/

theorem lookup_cons_ite (p : Int × Row) (ps : Frame) (k : Int) :
    List.lookup k (p :: ps) = if k = p.1 then some p.2 else List.lookup k ps := by
  obtain ⟨a, b⟩ := p
  by_cases hk : k = a
  · simp [List.lookup, hk]
  · simp [List.lookup, hk, beq_false_of_ne hk]

theorem lookup_insertFront (p : Int × Row) (f : Frame) (k : Int) :
    List.lookup k (sortFrame.insertSortedFront p f) =
      if k = p.1 then some p.2 else List.lookup k f := by
  induction f with
  | nil => simp [sortFrame.insertSortedFront, lookup_cons_ite]
  | cons q qs ih =>
    simp only [sortFrame.insertSortedFront]
    split
    · simp [lookup_cons_ite]
    · rename_i hlt
      simp only [lookup_cons_ite, ih]
      by_cases hk : k = p.1
      · have : k ≠ q.1 := by omega
        simp [hk, this]; intro hh; omega
      · simp [hk]

/-- sorting is stable with respect to first-occurrence lookup -/
theorem lookup_sortFrame (f : Frame) (k : Int) : List.lookup k (sortFrame f) = List.lookup k f := by
  induction f with
  | nil => rfl
  | cons p ps ih => simp only [sortFrame, lookup_insertFront, ih, lookup_cons_ite]

theorem lookup_dedupAux (f : Frame) (last k : Int) (hk : k ≠ last) :
    List.lookup k (dedupAux last f) = List.lookup k f := by
  induction f generalizing last with
  | nil => rfl
  | cons q rest ih =>
    simp only [dedupAux]
    split
    · rename_i hq
      have : k ≠ q.1 := by rw [hq]; exact hk
      simp [lookup_cons_ite, this, ih last hk]
    · by_cases hkq : k = q.1
      · simp [lookup_cons_ite, hkq]
      · simp [lookup_cons_ite, hkq, ih q.1 hkq]

theorem lookup_dedupFirst (f : Frame) (k : Int) : List.lookup k (dedupFirst f) = List.lookup k f := by
  cases f with
  | nil => rfl
  | cons p rest =>
    simp only [dedupFirst, lookup_cons_ite]
    by_cases hk : k = p.1
    · simp [hk]
    · simp [hk, lookup_dedupAux rest p.1 k hk]

/-- **table_merge_spec**: after `ts,key,new` the stored table holds, for every index value,
    the existing row if there was one and otherwise the (first) new one -/
theorem table_merge_spec (old new : Frame) (k : Int) :
    List.lookup k (merge old new) = mergeLookup old new k := by
  simp only [merge, lookup_dedupFirst, lookup_sortFrame, List.lookup_append, mergeLookup]

example : merge [(2, [20]), (1, [10])] [(2, [99]), (0, [5])] = [(0, [5]), (1, [10]), (2, [20])] := by
  decide

end Klong.C16
