/-
  C12 — helper lemmas, part 1: the scanning loops of the lexer advance and stay inside the text;
  the repaired `read_sys_comment` loop ends.
-/
import Klong.Model.C12
namespace Klong.C12

/-! ## scanning loops advance and stay inside the text -/

theorem skipSpaceGo_bounds (cfg : Cfg) (ign : Bool) (s : List Char) (i : Nat) :
    i ≤ skipSpaceGo cfg ign s i ∧ skipSpaceGo cfg ign s i ≤ i + s.length := by
  fun_induction skipSpaceGo cfg ign s i <;> simp_all <;> omega

theorem shiftedGo_bounds (s : List Char) (i : Nat) :
    i ≤ shiftedGo s i ∧ shiftedGo s i ≤ i + s.length := by
  fun_induction shiftedGo s i <;> simp_all <;> omega

theorem skipGo_bounds (cfg : Cfg) (inC ign : Bool) (s : List Char) (i : Nat) :
    i ≤ skipGo cfg inC ign s i ∧ skipGo cfg inC ign s i ≤ i + s.length := by
  fun_induction skipGo cfg inC ign s i <;> simp_all
  all_goals omega

theorem readNumGo_bounds (cfg : Cfg) (s : List Char) (i : Nat) (f : Bool) :
    i ≤ (readNumGo cfg s i f).1 ∧ (readNumGo cfg s i f).1 ≤ i + s.length + 1 := by
  fun_induction readNumGo cfg s i f <;> simp_all
  all_goals (try omega)
  case case4 c cs i f h1 h2 hx => cases cs <;> simp_all [isSign]

theorem readStringGo_bounds (s : List Char) (i : Nat) (acc : List Char) :
    i ≤ (readStringGo s i acc).1 ∧ (readStringGo s i acc).1 ≤ i + s.length := by
  fun_induction readStringGo s i acc <;> simp_all <;> omega

theorem readSymGo_bounds (cfg : Cfg) (s : List Char) (i : Nat) (acc : List Char) :
    i ≤ (readSymGo cfg s i acc).1 ∧ (readSymGo cfg s i acc).1 ≤ i + s.length := by
  fun_induction readSymGo cfg s i acc <;> simp_all <;> omega

theorem adverbsGo_bounds (s : List Char) (i : Nat) (acc : List Node) :
    i ≤ (adverbsGo s i acc).1 ∧ (adverbsGo s i acc).1 ≤ i + s.length := by
  fun_induction adverbsGo s i acc <;> simp_all <;> omega

/-! ## the lexer functions on `(t, i)` -/

theorem cmatch_lt {t : Text} {i : Nat} {c : Char} (h : cmatch t i c = true) : i < t.length := by
  unfold cmatch at h
  by_cases hi : i < t.length
  · exact hi
  · simp [List.getElem?_eq_none (Nat.le_of_not_lt hi)] at h

theorem cmatch2_lt {t : Text} {i : Nat} {a b : Char} (h : cmatch2 t i a b = true) : i + 1 < t.length := by
  simp [cmatch2] at h
  exact cmatch_lt h.2

theorem getElem?_lt {t : Text} {i : Nat} {c : Char} (h : t[i]? = some c) : i < t.length := by
  by_cases hi : i < t.length
  · exact hi
  · simp [List.getElem?_eq_none (Nat.le_of_not_lt hi)] at h

theorem skipSpace_bounds (cfg : Cfg) (t : Text) (i : Nat) (ign : Bool) :
    i ≤ skipSpace cfg t i ign ∧ skipSpace cfg t i ign ≤ i + (t.length - i) := by
  have := skipSpaceGo_bounds cfg ign (t.drop i) i
  simpa [skipSpace, List.length_drop] using this

theorem readShiftedComment_bounds (t : Text) (i : Nat) :
    i ≤ readShiftedComment t i ∧ readShiftedComment t i ≤ i + (t.length - i) := by
  have := shiftedGo_bounds (t.drop i) i
  simpa [readShiftedComment, List.length_drop] using this

theorem skip_bounds (cfg : Cfg) (t : Text) (i : Nat) (ign : Bool) :
    i ≤ skip cfg t i ign ∧ skip cfg t i ign ≤ i + (t.length - i) := by
  have := skipGo_bounds cfg false ign (t.drop i) i
  simpa [skip, List.length_drop] using this

theorem readNum_fst (cfg : Cfg) (t : Text) (i : Nat) :
    (readNum cfg t i).1 =
      (readNumGo cfg (t.drop (if cmatch t i '-' then i + 1 else i)) (if cmatch t i '-' then i + 1 else i) false).1 := by
  unfold readNum
  dsimp only
  split <;> (split <;> rfl)

theorem readNum_bounds (cfg : Cfg) (t : Text) (i : Nat) (hi : i < t.length) :
    i ≤ (readNum cfg t i).1 ∧ (readNum cfg t i).1 ≤ t.length + 1 := by
  rw [readNum_fst]
  split
  · have := readNumGo_bounds cfg (t.drop (i + 1)) (i + 1) false
    simp [List.length_drop] at this; omega
  · have := readNumGo_bounds cfg (t.drop i) i false
    simp [List.length_drop] at this; omega

theorem slice_nil_of_le (t : Text) {p i : Nat} (h : i ≤ p) : slice t p i = [] := by
  simp [slice, Nat.sub_eq_zero_of_le h]

/-- `read_num` returns a token only after consuming at least one character -/
theorem readNum_some_progress (cfg : Cfg) (t : Text) (i i' : Nat) (v : Node)
    (h : readNum cfg t i = (i', some v)) : i < i' := by
  by_cases hlt : i < i'
  · exact hlt
  · exfalso
    have hle : i' ≤ i := Nat.le_of_not_lt hlt
    unfold readNum at h
    dsimp only at h
    split at h <;> split at h <;>
      (obtain ⟨h1, h2⟩ := Prod.mk.inj h
       subst h1
       simp [slice_nil_of_le t hle, pyFloatOk, pyIntOk] at h2)

theorem readString_bounds (t : Text) (i : Nat) :
    i ≤ (readString t i).1 ∧ (readString t i).1 ≤ i + (t.length - i) := by
  have := readStringGo_bounds (t.drop i) i []
  simpa [readString, List.length_drop] using this

theorem readSym_fst (cfg : Cfg) (t : Text) (i : Nat) (m : PState) :
    (readSym cfg t i m).1 = (readSymGo cfg (t.drop i) i []).1 := by
  unfold readSym
  dsimp only
  split
  · rfl
  · split
    · split <;> rfl
    · rfl

theorem readSym_bounds (cfg : Cfg) (t : Text) (i : Nat) (m : PState) :
    i ≤ (readSym cfg t i m).1 ∧ (readSym cfg t i m).1 ≤ i + (t.length - i) := by
  rw [readSym_fst]
  have := readSymGo_bounds cfg (t.drop i) i []
  simpa [List.length_drop] using this

theorem drop_eq_cons {t : Text} {i : Nat} {c : Char} (h : t[i]? = some c) : t.drop i = c :: t.drop (i + 1) := by
  have hi := getElem?_lt h
  rw [List.drop_eq_getElem_cons hi]
  simp [List.getElem?_eq_getElem hi] at h
  rw [h]

/-- `read_sym` started on a symbolic character consumes it -/
theorem readSym_progress (cfg : Cfg) (t : Text) (i : Nat) (m : PState) (c : Char)
    (h : t[i]? = some c) (hs : isSymbolic cfg c = true) : i < (readSym cfg t i m).1 := by
  rw [readSym_fst, drop_eq_cons h]
  simp only [readSymGo, hs, if_true]
  have := readSymGo_bounds cfg (t.drop (i + 1)) (i + 1) [c]
  omega

theorem readOp_bounds (t : Text) (i : Nat) (hi : i < t.length) :
    i < (readOp t i).1 ∧ (readOp t i).1 ≤ t.length := by
  unfold readOp
  split
  · rename_i h
    simp only [Bool.or_eq_true] at h
    have : i + 1 < t.length := by
      rcases h with h | h <;> exact cmatch2_lt h
    simp; omega
  · simp; omega

theorem peekAdverb_bounds (t : Text) (i : Nat) :
    ((peekAdverb t i).2 = none → (peekAdverb t i).1 = i) ∧
    ((peekAdverb t i).2 ≠ none → i < (peekAdverb t i).1 ∧ (peekAdverb t i).1 ≤ t.length) := by
  unfold peekAdverb
  split
  · rename_i h
    simp only [Bool.and_eq_true, decide_eq_true_eq] at h
    simp; omega
  · split
    · rename_i h
      simp only [Bool.and_eq_true, decide_eq_true_eq] at h
      simp; omega
    · simp

theorem adverbs_bounds (t : Text) (i : Nat) :
    i ≤ (adverbsGo (t.drop i) i []).1 ∧ (adverbsGo (t.drop i) i []).1 ≤ i + (t.length - i) := by
  have := adverbsGo_bounds (t.drop i) i []
  simpa [List.length_drop] using this

theorem readSym_snd (cfg : Cfg) (t : Text) (i : Nat) (m : PState) : (readSym cfg t i m).2.isNone = false := by
  unfold readSym
  dsimp only
  split
  · rfl
  · split
    · split <;> rfl
    · rfl

theorem readOp_snd (t : Text) (i : Nat) : (readOp t i).2.isNone = false := by
  unfold readOp
  split <;> rfl

theorem readNum_some_isNone (cfg : Cfg) (t : Text) (i i' : Nat) (v : Node)
    (h : readNum cfg t i = (i', some v)) : v.isNone = false := by
  unfold readNum at h
  dsimp only at h
  split at h <;> split at h <;>
    (obtain ⟨h1, h2⟩ := Prod.mk.inj h
     split at h2
     · simp only [Option.some.injEq] at h2; subst h2; rfl
     · simp at h2)

/-! ## `.comment(marker)`: the repaired loop ends -/

theorem startsWith_length {s a : List Char} (h : startsWith s a = true) : a.length ≤ s.length := by
  fun_induction startsWith s a <;> simp_all

theorem findSub_bounds (a s : List Char) (j r : Nat) (h : findSub a s j = some r) :
    j ≤ r ∧ (r - j) + a.length ≤ s.length := by
  fun_induction findSub a s j
  · simp_all
  · simp_all
  · rename_i c cs j hs
    simp only [Option.some.injEq] at h
    subst h
    have := startsWith_length hs
    simp at this ⊢; omega
  · rename_i c cs j hs ih
    have := ih h
    simp; omega

theorem commentLoop_some (cfg : Cfg) (hg : cfg.guardEmptyMarker = true) (t : Text) (a : List Char) (i : Nat) :
    ∀ (b j : Nat), 1 ≤ b → t.length + 1 ≤ b + (i + j) → (commentLoop cfg t a i b j).isSome = true := by
  intro b
  induction b with
  | zero => intro j h0 h; omega
  | succ b ih =>
    intro j _ h
    unfold commentLoop
    split
    · rename_i hc
      simp only [hg, Bool.not_true, Bool.false_or, Bool.and_eq_true, Bool.not_eq_true'] at hc
      have hl := startsWith_length hc.2
      have ha : 0 < a.length := by
        cases a with
        | nil => simp at hc
        | cons => simp
      simp [List.length_drop] at hl
      apply ih <;> omega
    · rfl

theorem commentLoop_bounds (cfg : Cfg) (hg : cfg.guardEmptyMarker = true) (t : Text) (a : List Char) (i : Nat) :
    ∀ (b j r : Nat), commentLoop cfg t a i b j = some r →
      j ≤ r ∧ (r = j ∨ i + r + a.length ≤ t.length) := by
  intro b
  induction b with
  | zero => intro j r h; simp [commentLoop] at h
  | succ b ih =>
    intro j r h
    unfold commentLoop at h
    split at h
    · rename_i hc
      simp only [hg, Bool.not_true, Bool.false_or, Bool.and_eq_true, Bool.not_eq_true'] at hc
      have hl := startsWith_length hc.2
      have ha : 0 < a.length := by
        cases a with
        | nil => simp at hc
        | cons => simp
      simp [List.length_drop] at hl
      have := ih (j + 1) r h
      omega
    · simp only [Option.some.injEq] at h
      omega

end Klong.C12
