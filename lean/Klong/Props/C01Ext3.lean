/-
  C01 extension 3 — property theorems: implementation model (Klong.Model.C01Ext3, mirroring the
  Python of dyads.py / monads.py) = reference (Ext3.refDyad / Ext3.refMonad, the manual text
  transcribed) wherever the reference is defined, for every list length, nesting depth and index.

  Hypotheses that appear in the statements (all decidable):
  * `Ext1.notStored x = false` — the literal `x` is what the interpreter holds;
  * `Ext1.mixedNum v = false` — the reference result is not a regular nest of numbers mixing
    integers and reals (numpy re-packs it as one float64 array: finding mixed-numeric-level);
  * `ufuncSkip a b = false` — the paired traversal of an atomic dyad meets no numpy broadcast
    (findings atomic:rank-mismatch / numpy-shape-mismatch / object-array-rank2);
  * per verb, the operand classes on which klongpy deviates from the manual, each with a
    `by decide` witness:
      `amendPutClass a v = true`   (Amend of a list: numpy.put — witnesses amend_matrix_witness, amend_text_witness)
      `amendInPlace cs s ixs = true` / one growing index (Amend of a string by a string — amend_grow_witness)
      `aidClass a v n = true`      (Amend-in-Depth — depth_deviation_witness)
      `hasNumArr a = false`        (Format: a numeric array recurses forever — format_witness)
      `formRaises a b = false`     (Form: int() raises instead of :undefined — form_witness).
  Form is proved on atoms (`form_atom_correct`); its element-wise extension through lists
  (`formRec`, mirroring vec_fn2 / _e_dyad_form) is modelled and tied by the differential run only.
-/
import Klong.Model.C01Ext3
import Klong.Props.C01
import Klong.Props.C01Ext1
namespace Klong.C01.Ext3
open Klong Klong.C01

/-! ## Python index assignment on in-range natural indices -/

theorem pySet_nat {α} (xs : List α) (i : Nat) (v : α) (h : i < xs.length) :
    pySet xs (i : Int) v = some (xs.set i v) := by
  unfold pySet
  have h1 : ¬ ((i : Int) < 0) := by omega
  simp [h1, h]

theorem setAll_length {α} (v : α) : ∀ (is : List Nat) (xs : List α), (setAll xs v is).length = xs.length := by
  intro is
  induction is with
  | nil => intro xs; rfl
  | cons i is ih => intro xs; simp [setAll, ih]

theorem pySetAll_nat {α} (v : α) : ∀ (is : List Nat) (xs : List α),
    is.all (fun i => decide (i < xs.length)) = true →
    pySetAll xs v (is.map fun (p : Nat) => (p : Int)) = some (setAll xs v is) := by
  intro is
  induction is with
  | nil => intro xs _; rfl
  | cons i is ih =>
    intro xs h
    simp only [List.all_cons, Bool.and_eq_true, decide_eq_true_eq] at h
    simp only [List.map_cons, pySetAll, pySet_nat xs i v h.1, setAll]
    apply ih
    simpa using h.2

/-! ## Amend on lists -/

def isIntV : Val → Bool
  | .int _ => true
  | _ => false

def isRealV : Val → Bool
  | .real _ => true
  | _ => false

/-- where `numpy.put` does what the manual says: an object array takes any value; a rank-1 integer
    (real) array takes an integer (real).  Outside: rank ≥ 2 arrays are amended at the FLAT
    position, text raises ValueError, a real is truncated, an integer becomes a real. -/
def amendPutClass (a v : Val) : Bool :=
  match v with
  | .list _ => true
  | .dict _ => false
  | .undef => false
  | _ =>
    match numShape a with
    | none => true
    | some s => s.length == 1 && ((!Ext1.hasReal a && isIntV v) || (Ext1.hasReal a && isRealV v))

theorem natList_length : ∀ (vs : List Val) (is : List Nat), natList vs = some is → is.length = vs.length
  | [], is, h => by simp [natList] at h; subst h; rfl
  | x :: r, is, h => by
    cases x with
    | int n =>
      simp only [natList] at h
      split at h
      · simp at h
      · cases hr : natList r with
        | none => simp [hr] at h
        | some qs => simp [hr] at h; subst h; simp [natList_length r qs hr]
    | _ => simp [natList] at h

theorem nonempty_of_all_lt {α} {xs : List α} {is : List Nat} (hne : is.length ≠ 0)
    (hall : is.all (fun i => decide (i < xs.length)) = true) : xs.isEmpty = false := by
  cases xs with
  | nil =>
    cases is with
    | nil => simp at hne
    | cons i0 _ => simp at hall
  | cons _ _ => rfl

theorem refAmend_cons {a : Val} {v : Val} {ixs : List Val} {w : Val}
    (h : refAmend a (.list (v :: ixs)) = some w) : ∃ is, natList ixs = some is := by
  cases hp : natList ixs with
  | some is => exact ⟨is, rfl⟩
  | none =>
    cases a with
    | list xs => simp [refAmend, hp] at h
    | str cs => cases v <;> simp [refAmend, hp] at h
    | _ => simp [refAmend] at h

/-- **amend_list_correct**: for a list `a` and `b = [v i1 … iN]` with every index inside `a`,
    the model of `eval_dyad_amend` returns the reference's list (the elements at i1 … iN replaced by
    `v`), inside `amendPutClass`. -/
theorem amend_list_correct (xs : List Val) (b w : Val)
    (h : refDyad ":=" (.list xs) b = some w)
    (ha : Ext1.notStored (.list xs) = false) (hb : Ext1.notStored b = false)
    (hc : ∀ v ixs, b = .list (v :: ixs) → amendPutClass (.list xs) v = true)
    (hm : Ext1.mixedNum w = false) :
    implDyad ":=" (.list xs) b = .ok w := by
  simp only [refDyad] at h
  simp only [implDyad]
  cases b with
  | list bs =>
    cases bs with
    | nil => simp [refAmend] at h
    | cons v ixs =>
      have hcl := hc v ixs rfl
      obtain ⟨is, hp⟩ := refAmend_cons h
      simp only [refAmend, hp] at h
      split at h
      · rename_i hall
        simp only [Option.some.injEq] at h
        subst h
        simp only [implAmend, ha, hb, Bool.or_self, Bool.false_eq_true, if_false]
        cases ixs with
        | nil =>
          simp only [natList, Option.some.injEq] at hp
          subst hp
          simp [setAll]
        | cons j r =>
          simp only [Ext1.intList_of_natList hp]
          have hset := pySetAll_nat v is xs hall
          -- the value decides the path
          cases v with
          | list vs =>
            simp only [implAmendList, hset]
            rw [Ext1.npCoerce_id hm]
          | dict _ => simp [amendPutClass] at hcl
          | undef => simp [amendPutClass] at hcl
          | int n =>
            have hne : xs.isEmpty = false :=
              nonempty_of_all_lt (by rw [natList_length _ _ hp]; simp) hall
            simp only [implAmendList, hne, Bool.false_eq_true, if_false]
            cases hs : numShape (.list xs) with
            | none => simp [hset, lift]
            | some s =>
              simp only [amendPutClass, hs, isIntV, isRealV, Bool.and_true, Bool.and_false, Bool.or_false,
                Bool.and_eq_true, beq_iff_eq, Bool.not_eq_true'] at hcl
              simp [isText, hcl.1, hcl.2, hset, lift]
          | real n =>
            have hne : xs.isEmpty = false :=
              nonempty_of_all_lt (by rw [natList_length _ _ hp]; simp) hall
            simp only [implAmendList, hne, Bool.false_eq_true, if_false]
            cases hs : numShape (.list xs) with
            | none => simp [hset, lift]
            | some s =>
              simp only [amendPutClass, hs, isIntV, isRealV, Bool.and_true, Bool.and_false, Bool.false_or,
                Bool.and_eq_true, beq_iff_eq] at hcl
              simp [isText, hcl.1, hcl.2, hset, lift, Ext1.toReal]
          | chr c =>
            have hne : xs.isEmpty = false :=
              nonempty_of_all_lt (by rw [natList_length _ _ hp]; simp) hall
            simp only [implAmendList, hne, Bool.false_eq_true, if_false]
            cases hs : numShape (.list xs) with
            | none => simp [hset, lift]
            | some s => simp [amendPutClass, hs, isIntV, isRealV] at hcl
          | str c =>
            have hne : xs.isEmpty = false :=
              nonempty_of_all_lt (by rw [natList_length _ _ hp]; simp) hall
            simp only [implAmendList, hne, Bool.false_eq_true, if_false]
            cases hs : numShape (.list xs) with
            | none => simp [hset, lift]
            | some s => simp [amendPutClass, hs, isIntV, isRealV] at hcl
          | sym c =>
            have hne : xs.isEmpty = false :=
              nonempty_of_all_lt (by rw [natList_length _ _ hp]; simp) hall
            simp only [implAmendList, hne, Bool.false_eq_true, if_false]
            cases hs : numShape (.list xs) with
            | none => simp [hset, lift]
            | some s => simp [amendPutClass, hs, isIntV, isRealV] at hcl
      · simp at h
  | _ => simp [refAmend] at h

/-! ## Amend on strings -/

/-- the character array of a string: one slot per character -/
def single (cs : List Nat) : List (List Nat) := cs.map fun c => [c]

theorem single_length (cs : List Nat) : (single cs).length = cs.length := by simp [single]

theorem flatten_single (cs : List Nat) : (single cs).flatten = cs := by
  induction cs with
  | nil => rfl
  | cons c cs ih => simpa [single] using ih

theorem splice_length (cur q : List Nat) (i : Nat) (h : i + q.length ≤ cur.length) :
    (splice cur q i).length = cur.length := by
  simp [splice]; omega

/-- line 60 succeeds when the substring fits: the slots i … i+m-1 are overwritten -/
theorem amendStep_inplace (q cur : List Nat) (i : Nat) (h : i + q.length ≤ cur.length) :
    amendStep q (single cur) i = single (splice cur q i) := by
  unfold amendStep
  simp only [single_length]
  have h1 : min i cur.length = i := by omega
  have h2 : min (i + q.length) cur.length = i + q.length := by omega
  have h3 : (i + q.length - i == q.length) = true := by simp
  simp only [h1, h2, h3, if_true]
  simp [single, splice, List.map_take, List.map_drop]

theorem foldl_inplace (q : List Nat) : ∀ (is : List Nat) (cur : List Nat),
    is.all (fun i => decide (i + q.length ≤ cur.length)) = true →
    (is.map fun (p : Nat) => (p : Int)).foldl (fun r i => amendStep q r i.toNat) (single cur)
      = single (spliceAll cur q is) := by
  intro is
  induction is with
  | nil => intro cur _; rfl
  | cons i is ih =>
    intro cur h
    simp only [List.all_cons, Bool.and_eq_true, decide_eq_true_eq] at h
    simp only [List.map_cons, List.foldl_cons, Int.toNat_natCast, spliceAll]
    rw [amendStep_inplace q cur i h.1]
    apply ih
    rw [splice_length cur q i h.1]
    simpa using h.2

theorem any_neg_map_nat (is : List Nat) :
    ((is.map fun (p : Nat) => (p : Int)).any fun i => decide (i < 0)) = false := by
  induction is with
  | nil => rfl
  | cons i is ih =>
    have : ¬ ((i : Int) < 0) := by omega
    simp [this, ih]

theorem implAmendStr_inplace (cs q : List Nat) (is : List Nat)
    (h : is.all (fun i => decide (i + q.length ≤ cs.length)) = true) :
    implAmendStr cs q (is.map fun (p : Nat) => (p : Int)) = .ok (.str (spliceAll cs q is)) := by
  unfold implAmendStr
  rw [any_neg_map_nat]
  simp only [Bool.false_eq_true, if_false]
  have := foldl_inplace q is cs h
  simp only [single] at this
  rw [this]
  have := flatten_single (spliceAll cs q is)
  simp only [single] at this
  rw [this]

theorem splice_single (cs : List Nat) (c i : Nat) (h : i < cs.length) : splice cs [c] i = cs.set i c := by
  simp [splice, List.set_eq_take_append_cons_drop, h]

theorem setAll_eq_spliceAll (c : Nat) : ∀ (is : List Nat) (cs : List Nat),
    is.all (fun i => decide (i < cs.length)) = true → setAll cs c is = spliceAll cs [c] is := by
  intro is
  induction is with
  | nil => intro cs _; rfl
  | cons i is ih =>
    intro cs h
    simp only [List.all_cons, Bool.and_eq_true, decide_eq_true_eq] at h
    simp only [setAll, spliceAll, splice_single cs c i h.1]
    apply ih
    simpa using h.2

/-- **amend_str_chr_correct**: a string amended with a character at positions inside the string -/
theorem amend_str_chr_correct (cs : List Nat) (c : Nat) (ixs : List Val) (w : Val)
    (h : refDyad ":=" (.str cs) (.list (.chr c :: ixs)) = some w)
    (hb : Ext1.notStored (.list (.chr c :: ixs)) = false) :
    implDyad ":=" (.str cs) (.list (.chr c :: ixs)) = .ok w := by
  simp only [refDyad] at h
  obtain ⟨is, hp⟩ := refAmend_cons h
  simp only [refAmend, hp] at h
  split at h
  · rename_i hall
    simp only [Option.some.injEq] at h
    subst h
    simp only [implDyad, implAmend, hb, Bool.false_eq_true, if_false]
    cases ixs with
    | nil =>
      simp only [natList, Option.some.injEq] at hp
      subst hp
      simp [setAll]
    | cons j r =>
      simp only [Ext1.intList_of_natList hp]
      have hall' : is.all (fun i => decide (i + [c].length ≤ cs.length)) = true := by
        simp only [List.all_eq_true, decide_eq_true_eq] at hall ⊢
        intro x hx
        have := hall x hx
        simp only [List.length_singleton]
        omega
      rw [implAmendStr_inplace cs [c] is hall', setAll_eq_spliceAll c is cs hall]
  · simp at h

/-- the substrings all lie inside the string -/
def amendInPlace (cs s : List Nat) (ixs : List Val) : Bool :=
  match natList ixs with
  | some is => is.all fun i => decide (i + s.length ≤ cs.length)
  | none => false

/-- **amend_str_inplace_correct**: a string amended with a string at pairwise disjoint positions
    where the substring fits -/
theorem amend_str_inplace_correct (cs s : List Nat) (ixs : List Val) (w : Val)
    (h : refDyad ":=" (.str cs) (.list (.str s :: ixs)) = some w)
    (hb : Ext1.notStored (.list (.str s :: ixs)) = false)
    (hin : amendInPlace cs s ixs = true) :
    implDyad ":=" (.str cs) (.list (.str s :: ixs)) = .ok w := by
  simp only [refDyad] at h
  obtain ⟨is, hp⟩ := refAmend_cons h
  simp only [refAmend, hp] at h
  simp only [amendInPlace, hp] at hin
  split at h
  · simp only [Option.some.injEq] at h
    subst h
    simp only [implDyad, implAmend, hb, Bool.false_eq_true, if_false]
    cases ixs with
    | nil =>
      simp only [natList, Option.some.injEq] at hp
      subst hp
      simp [spliceAll]
    | cons j r =>
      simp only [Ext1.intList_of_natList hp]
      rw [implAmendStr_inplace cs s is hin]
  · simp at h

theorem flatten_set_single (cs s : List Nat) (i : Nat) (h : i < cs.length) :
    ((single cs).set i s).flatten = cs.take i ++ s ++ cs.drop (i + 1) := by
  rw [List.set_eq_take_append_cons_drop]
  simp only [single_length, h, if_true]
  simp only [single, ← List.map_take, ← List.map_drop, List.flatten_append, List.flatten_cons]
  have e1 := flatten_single (cs.take i)
  have e2 := flatten_single (cs.drop (i + 1))
  simp only [single] at e1 e2
  rw [e1, e2]
  simp

/-- **amend_str_grow_correct**: one substring of at least two characters that starts at the last
    character or right behind the string: the string grows (lines 65–68) as the manual says -/
theorem amend_str_grow_correct (cs s : List Nat) (i : Nat) (hm : 2 ≤ s.length)
    (hi : i = cs.length ∨ i + 1 = cs.length)
    (hb : Ext1.notStored (.list [.str s, .int i]) = false) :
    refDyad ":=" (.str cs) (.list [.str s, .int i]) = some (.str (splice cs s i)) ∧
    implDyad ":=" (.str cs) (.list [.str s, .int i]) = .ok (.str (splice cs s i)) := by
  constructor
  · have hle : i ≤ cs.length := by omega
    have hn : ¬ ((i : Int) < 0) := by omega
    simp [refDyad, refAmend, natList, hn, apart, spliceAll, hle]
  · simp only [implDyad, implAmend, hb, Bool.false_eq_true, if_false, Ext1.intList, Option.map_some]
    unfold implAmendStr
    have hn : ¬ ((i : Int) < 0) := by omega
    simp only [List.any_cons, hn, decide_false, List.any_nil, Bool.or_self, Bool.false_eq_true, if_false,
      List.foldl_cons, List.foldl_nil, Int.toNat_natCast]
    have hs := single_length cs
    simp only [single] at hs
    rcases hi with hi | hi
    · -- i = #a: the whole string is appended
      subst hi
      unfold amendStep
      simp only [hs]
      have h1 : min cs.length cs.length = cs.length := by omega
      have h2 : min (cs.length + s.length) cs.length = cs.length := by omega
      have h3 : (cs.length - cs.length == s.length) = false := by
        simp only [Nat.sub_self, beq_eq_false_iff_ne, ne_eq]; omega
      have h4 : (s.length == 1) = false := by simp only [beq_eq_false_iff_ne, ne_eq]; omega
      simp only [h1, h2, h3, h4, Bool.false_eq_true, if_false, Nat.lt_irrefl, beq_self_eq_true, if_true]
      have := flatten_single cs
      simp only [single] at this
      simp [splice, this]
    · -- i = #a - 1: the last slot takes the whole string
      have hlt : i < cs.length := by omega
      unfold amendStep
      simp only [hs]
      have h1 : min i cs.length = i := by omega
      have h2 : min (i + s.length) cs.length = cs.length := by omega
      have h3 : (cs.length - i == s.length) = false := by
        simp only [beq_eq_false_iff_ne, ne_eq]; omega
      have h4 : (s.length == 1) = false := by simp only [beq_eq_false_iff_ne, ne_eq]; omega
      have h5 : ¬ (i > cs.length) := by omega
      have h6 : (i == cs.length) = false := by simp only [beq_eq_false_iff_ne, ne_eq]; omega
      simp only [h1, h2, h3, h4, h5, h6, Bool.false_eq_true, if_false]
      have := flatten_set_single cs s i hlt
      simp only [single] at this
      rw [this]
      have hd1 : cs.drop (i + 1) = [] := by apply List.drop_eq_nil_of_le; omega
      have hd2 : cs.drop (i + s.length) = [] := by apply List.drop_eq_nil_of_le; omega
      simp [splice, hd1, hd2]

/-! ## regular arrays -/

theorem regShapes_all (p : Option (List Nat) → Bool) : ∀ (xs : List Val),
    (regShape.regShapes xs).all p = true → ∀ x ∈ xs, p (regShape x) = true := by
  intro xs
  induction xs with
  | nil => intro _ x hx; simp at hx
  | cons y ys ih =>
    intro h x hx
    simp only [regShape.regShapes, List.all_cons, Bool.and_eq_true] at h
    rcases List.mem_cons.mp hx with rfl | hx
    · exact h.1
    · exact ih h.2 x hx

/-- the members of a regular array of shape n :: s are regular arrays of shape s -/
theorem regShape_elems (xs : List Val) (s : List Nat) (h : regShape (.list xs) = some s) :
    ∃ t, s = xs.length :: t ∧ ∀ x ∈ xs, regShape x = some t := by
  cases xs with
  | nil => simp [regShape] at h
  | cons y ys =>
    simp only [regShape] at h
    cases hy : regShape y with
    | none => simp [hy] at h
    | some t =>
      simp only [hy] at h
      split at h
      · rename_i hall
        simp only [Option.some.injEq] at h
        refine ⟨t, by simp [← h], ?_⟩
        intro x hx
        rcases List.mem_cons.mp hx with rfl | hx
        · exact hy
        · have := regShapes_all _ ys hall x hx
          simpa using this
      · simp at h

theorem regShape_nil_notList (x : Val) (h : regShape x = some []) : isListV x = false := by
  cases x with
  | list xs =>
    obtain ⟨t, ht, _⟩ := regShape_elems xs [] h
    simp at ht
  | _ => rfl

theorem regShape_atom (a : Val) (s : List Nat) (hl : isListV a = false) (h : regShape a = some s) : s = [] := by
  cases a <;> simp_all [regShape, isListV]

/-! ## Amend-in-Depth -/

theorem aidWalk_correct (v : Val) : ∀ (is : List Nat) (a : Val) (s : List Nat) (w : Val),
    is ≠ [] → regShape a = some s → is.length = s.length → deepSet a is v = some w →
    aidWalk a (is.map fun (p : Nat) => (p : Int)) v = .ok w := by
  intro is
  induction is with
  | nil => intro a s w h; exact (h rfl).elim
  | cons i r ih =>
    intro a s w _ hs hlen hd
    cases a with
    | list xs =>
      obtain ⟨t, ht, hel⟩ := regShape_elems xs s hs
      subst ht
      cases r with
      | nil =>
        -- the last index: the members are the elements
        simp only [List.length_cons, List.length_nil, Nat.zero_add] at hlen
        have ht : t = [] := by
          cases t with
          | nil => rfl
          | cons _ _ => simp at hlen
        subst ht
        simp only [deepSet] at hd
        split at hd
        · rename_i hi
          simp only [Option.some.injEq] at hd
          subst hd
          have hall : xs.all (fun x => !isListV x) = true := by
            simp only [List.all_eq_true, Bool.not_eq_true']
            intro x hx
            exact regShape_nil_notList x (hel x hx)
          simp [aidWalk, hall, pySet_nat xs i v hi, lift]
        · simp at hd
      | cons j r' =>
        simp only [deepSet] at hd
        cases hx : xs[i]? with
        | none => simp [hx] at hd
        | some x =>
          simp only [hx, Option.map_eq_some_iff] at hd
          obtain ⟨y, hy, hw⟩ := hd
          subst hw
          have hmem : x ∈ xs := List.mem_of_getElem? hx
          have hi : i < xs.length := by
            rcases List.getElem?_eq_some_iff.mp hx with ⟨hi, _⟩
            exact hi
          have hlen' : (j :: r').length = t.length := by
            simp only [List.length_cons] at hlen ⊢
            omega
          have := ih x t y (by simp) (hel x hmem) hlen' hy
          simp only [List.map_cons] at this
          simp [aidWalk, Ext1.pyIndex_nat, hx, this, pySet_nat xs i y hi, lift]
    | _ =>
      have := regShape_atom _ s rfl hs
      subst this
      simp at hlen

/-- where `_e_dyad_amend_in_depth` does what the manual says: an integer into an array of
    integers; a character / string / symbol when there are at least two indices.  Outside: a real
    or a list value and (with ONE index) a text value raise, an integer into a real array is
    converted. -/
def aidClass (a v : Val) (n : Nat) : Bool :=
  match v with
  | .int _ => !Ext1.hasReal a
  | .chr _ => decide (n ≥ 2)
  | .str _ => decide (n ≥ 2)
  | .sym _ => decide (n ≥ 2)
  | _ => false

/-- **amend_in_depth_correct**: for a regular N-dimensional array of numbers (any N) — or any
    stored vector with one index — and N in-range indices, the model of `eval_dyad_amend_in_depth`
    replaces exactly the addressed element, inside `aidClass`. -/
theorem amend_in_depth_correct (xs : List Val) (v : Val) (ixs : List Val) (w : Val)
    (h : refDyad ":-" (.list xs) (.list (v :: ixs)) = some w)
    (ha : Ext1.notStored (.list xs) = false) (hb : Ext1.notStored (.list (v :: ixs)) = false)
    (hn : ((numShape (.list xs)).isSome || ixs.length == 1) = true)
    (hc : aidClass (.list xs) v ixs.length = true) :
    implDyad ":-" (.list xs) (.list (v :: ixs)) = .ok w := by
  simp only [refDyad, refAmendDepth] at h
  cases hs : regShape (.list xs) with
  | none => simp [hs] at h
  | some s =>
    cases hp : natList ixs with
    | none => simp [hs, hp] at h
    | some is =>
      simp only [hs, hp] at h
      split at h
      · rename_i hlen
        simp only [beq_iff_eq] at hlen
        obtain ⟨t, ht, hel⟩ := regShape_elems xs s hs
        have hixs : ixs.length = is.length := (natList_length ixs is hp).symm
        simp only [implDyad, implAmendDepth, ha, hb, Bool.or_self, Bool.false_eq_true, if_false,
          Ext1.intList_of_natList hp]
        have hv : aidValue (.list xs) v = some v := by
          cases v with
          | int n =>
            have : Ext1.hasReal (.list xs) = false := by simpa [aidClass] using hc
            simp [aidValue, this]
          | chr _ => rfl
          | str _ => rfl
          | sym _ => rfl
          | _ => simp [aidClass] at hc
        simp only [hv]
        cases is with
        | nil => subst ht; simp at hlen
        | cons i r =>
          cases r with
          | nil =>
            -- one index
            subst ht
            have ht0 : t = [] := by
              cases t with
              | nil => rfl
              | cons _ _ => simp at hlen
            subst ht0
            have hnt : isText v = false := by
              cases v <;> simp_all [aidClass, isText]
            have hany : xs.any isListV = false := by
              simp only [List.any_eq_false]
              intro x hx
              simp [regShape_nil_notList x (hel x hx)]
            simp only [deepSet] at h
            split at h
            · rename_i hi
              simp only [Option.some.injEq] at h
              subst h
              simp [hnt, hany, pySet_nat xs i v hi, lift]
            · simp at h
          | cons j r' =>
            have hnum : (numShape (.list xs)).isSome = true := by
              simp only [hixs, List.length_cons, Bool.or_eq_true, beq_iff_eq] at hn
              rcases hn with hn | hn
              · exact hn
              · omega
            have := aidWalk_correct v (i :: j :: r') (.list xs) s w (by simp) hs hlen h
            simp only [List.map_cons] at this
            simp [hnum, this]
      · simp at h

/-! ## Index-in-Depth -/

theorem walkGet_nat : ∀ (is : List Nat) (a : Val),
    walkGet a (is.map fun (p : Nat) => (p : Int)) = deepGet a is := by
  intro is
  induction is with
  | nil => intro a; simp [walkGet, deepGet]
  | cons i r ih =>
    intro a
    cases a with
    | list xs =>
      simp only [List.map_cons, walkGet, deepGet, Ext1.pyIndex_nat]
      cases xs[i]? with
      | none => rfl
      | some x => exact ih x
    | _ => simp [walkGet, deepGet]

/-- **index_in_depth_correct**: for a regular N-dimensional array of numbers and N in-range
    indices (or any stored vector and one index), numpy's multi-index returns the reference's
    element -/
theorem index_in_depth_correct (xs ixs : List Val) (w : Val)
    (h : refDyad ":@" (.list xs) (.list ixs) = some w)
    (ha : Ext1.notStored (.list xs) = false)
    (hc : ((numShape (.list xs)).isSome || ixs.length == 1) = true) :
    implDyad ":@" (.list xs) (.list ixs) = .ok w := by
  simp only [refDyad, refIndexDepth] at h
  cases hs : regShape (.list xs) with
  | none => simp [hs] at h
  | some s =>
    cases hp : natList ixs with
    | none => simp [hs, hp] at h
    | some is =>
      simp only [hs, hp] at h
      split at h
      · rename_i hlen
        simp only [beq_iff_eq] at hlen
        obtain ⟨t, ht, _⟩ := regShape_elems xs s hs
        have hl := natList_length _ _ hp
        cases ixs with
        | nil =>
          simp only [natList, Option.some.injEq] at hp
          subst hp; subst ht
          simp at hlen
        | cons x r =>
          simp only [implDyad, implIndexDepth, Ext1.intList_of_natList hp, implIndexDepthList, ha,
            Bool.false_eq_true, if_false]
          cases hnum : (numShape (.list xs)).isSome with
          | true => simp [walkGet_nat, h, lift]
          | false =>
            simp only [hnum, Bool.false_or, beq_iff_eq] at hc
            cases is with
            | nil => simp at hl
            | cons i r' =>
              cases r' with
              | cons _ _ => simp only [List.length_cons] at hl hc; omega
              | nil =>
                simp only [deepGet] at h
                cases hx : xs[i]? with
                | none => simp [hx] at h
                | some y =>
                  simp only [hx, Option.some.injEq] at h
                  subst h
                  simp [Ext1.pyIndex_nat, hx, lift]
      · simp at h

/-! ## Divide, Power (atomic dyads: the generic extension theorem of Klong.Props.C01) -/

theorem refA2_atoms (f : Val → Val → Option Val) (a b : Val) (ha : isListV a = false)
    (hb : isListV b = false) : refA2 f a b = f a b := by
  cases a <;> cases b <;> simp_all [refA2, isListV]

theorem ufuncSkip_rank {a b : Val} (h : ufuncSkip a b = false) : anyRankMismatch a b = false := by
  simp only [ufuncSkip, Bool.or_eq_false_iff] at h
  exact h.1.1.1

theorem isNum_notList {a : Val} (h : a.isNum = true) : isListV a = false := by
  cases a <;> simp_all [Val.isNum, isListV]

/-- **divide_correct**: Divide through any nesting depth (float64 quotient per element pair,
    atom-to-list extension); the quotient of two atoms by zero is :undefined -/
theorem divide_correct (a b v : Val) (h : refDyad "%" a b = some v) (hs : ufuncSkip a b = false) :
    implDyad "%" a b = .ok v := by
  simp only [refDyad, refDivide] at h
  simp only [implDyad, implDivide]
  split at h
  · simp at h
  split at h
  · rename_i hz
    simp only [Bool.and_eq_true] at hz
    simp only [Option.some.injEq] at h
    subst h
    simp [isNum_notList hz.1.1, isNum_notList hz.1.2, hz.1.2, hz.2]
  · rename_i hz
    -- the atom test of lines 228–231 cannot fire: the reference would be undefined
    have hno : (!isListV a && !isListV b && b.isNum && isZeroNum b) = false := by
      cases hc : (!isListV a && !isListV b && b.isNum && isZeroNum b) with
      | false => rfl
      | true =>
        simp only [Bool.and_eq_true, Bool.not_eq_true'] at hc
        obtain ⟨⟨⟨hla, hlb⟩, hbn⟩, hbz⟩ := hc
        rw [refA2_atoms _ a b hla hlb] at h
        have han : a.isNum = true := by
          cases a <;> simp_all [scalarDiv, toF, Val.isNum]
        simp [han, hbn, hbz] at hz
    simp only [hno, hs, Bool.false_eq_true, if_false, (atomic_dyad_correct scalarDiv).1 a b, h]

/-- **power_correct**: integer base, non-negative integer exponent, |a^b| ≤ 2^53, through any
    nesting depth -/
theorem power_correct (a b v : Val) (h : refDyad "^" a b = some v) (hs : ufuncSkip a b = false) :
    implDyad "^" a b = .ok v := by
  simp only [refDyad, refPower] at h
  split at h
  · simp at h
  simp only [implDyad, implPower, hs, Bool.false_eq_true, if_false, (atomic_dyad_correct scalarPow).1 a b, h]

theorem scalarPow_value (a b : Int) (v : Val) (h : scalarPow (.int a) (.int b) = some v) :
    0 ≤ b ∧ v = .int (a ^ b.toNat) := by
  simp only [scalarPow] at h
  split at h
  · simp at h
  · split at h
    · simp only [Option.some.injEq] at h
      exact ⟨by omega, h.symm⟩
    · simp at h

/-! ## Reciprocal -/

mutual
theorem refA2_left_atom (f : Val → Val → Option Val) (c : Int) :
    ∀ a : Val, refA2 f (.int c) a = refA1 (f (.int c)) a
  | .list xs => by simp [refA2, refA1, refMapR_left_atom f c xs]
  | .int _ => by simp [refA2, refA1]
  | .real _ => by simp [refA2, refA1]
  | .chr _ => by simp [refA2, refA1]
  | .sym _ => by simp [refA2, refA1]
  | .str _ => by simp [refA2, refA1]
  | .dict _ => by simp [refA2, refA1]
  | .undef => by simp [refA2, refA1]
theorem refMapR_left_atom (f : Val → Val → Option Val) (c : Int) :
    ∀ xs : List Val, refMapR f (.int c) xs = refMap1 (f (.int c)) xs
  | [] => by simp [refMapR, refMap1]
  | x :: xs => by simp [refMapR, refMap1, refA2_left_atom f c x, refMapR_left_atom f c xs]
end

/-- **reciprocal_correct**: `%a` is `1%a`, through any nesting depth; `%0` is :undefined -/
theorem reciprocal_correct (a v : Val) (h : refMonad "%" a = some v) (hs : Ext1.hasObjRank2 a = false) :
    implMonad "%" a = .ok v := by
  simp only [refMonad, refRecip, refDivide] at h
  simp only [implMonad, implRecip]
  have h1 : (Val.int 1).isNum = true := rfl
  simp only [h1, Bool.true_and] at h
  split at h
  · simp at h
  split at h
  · rename_i hz
    simp only [Bool.and_eq_true] at hz
    simp only [Option.some.injEq] at h
    subst h
    simp [isNum_notList hz.1, hz.1, hz.2]
  · rename_i hz
    have hno : (!isListV a && a.isNum && isZeroNum a) = false := by
      cases hc : (!isListV a && a.isNum && isZeroNum a) with
      | false => rfl
      | true =>
        simp only [Bool.and_eq_true] at hc
        simp [hc.1.2, hc.2] at hz
    rw [refA2_left_atom] at h
    have hre : recipAtom = scalarDiv (.int 1) := by funext x; rfl
    simp only [hno, hs, Bool.false_eq_true, if_false, hre, h]

/-! ## Char -/

mutual
theorem implCharRec_eq : ∀ a : Val, hasEmptyList a = false → implCharRec a = refA1 chrAtom a
  | .list [], h => by simp [hasEmptyList] at h
  | .list (x :: xs), h => by
    simp only [hasEmptyList] at h
    simp only [implCharRec, refA1, implCharL_eq (x :: xs) (by simpa [hasEmptyListL] using h)]
  | .int _, _ => by simp [implCharRec, refA1]
  | .real _, _ => by simp [implCharRec, refA1]
  | .chr _, _ => by simp [implCharRec, refA1]
  | .sym _, _ => by simp [implCharRec, refA1]
  | .str _, _ => by simp [implCharRec, refA1]
  | .dict _, _ => by simp [implCharRec, refA1]
  | .undef, _ => by simp [implCharRec, refA1]
theorem implCharL_eq : ∀ xs : List Val, hasEmptyListL xs = false → implCharL xs = refMap1 chrAtom xs
  | [], _ => by simp [implCharL, refMap1]
  | x :: xs, h => by
    simp only [hasEmptyListL, Bool.or_eq_false_iff] at h
    simp only [implCharL, refMap1, implCharRec_eq x h.1, implCharL_eq xs h.2]
    cases refA1 chrAtom x <;> cases refMap1 chrAtom xs <;> rfl
end

/-- **char_correct**: Char through any nesting depth (no `[]` inside: there `rec_fn` calls
    `chr(array([]))`, witness `char_empty_witness`) -/
theorem char_correct (a v : Val) (h : refMonad ":#" a = some v) : implMonad ":#" a = .ok v := by
  simp only [refMonad, refChar] at h
  split at h
  · simp at h
  · rename_i he
    simp only [Bool.not_eq_true] at he
    simp [implMonad, implChar, implCharRec_eq a he, h, lift]

/-! ## Undefined -/

/-- **undefined_correct** -/
theorem undefined_correct (a v : Val) (h : refMonad ":_" a = some v) : implMonad ":_" a = .ok v := by
  cases a <;> simp_all [refMonad, implMonad, refUndefined, implUndefined]

/-! ## Format -/

/- a regular nest of numbers (also `[]`) occurs somewhere: `vec_fn` hands it to
    `eval_monad_format` as a whole, which recurses forever -/
mutual
def hasNumArr : Val → Bool
  | .list xs => (numShape (.list xs)).isSome || hasNumArrL xs
  | _ => false
def hasNumArrL : List Val → Bool
  | [] => false
  | x :: xs => hasNumArr x || hasNumArrL xs
end

mutual
theorem implFormatRec_eq : ∀ (a v : Val), hasNumArr a = false → refA1 fmtAtom a = some v →
    implFormatRec a = .ok v
  | .list xs, v, hn, h => by
    simp only [hasNumArr, Bool.or_eq_false_iff] at hn
    simp only [refA1, Option.map_eq_some_iff] at h
    obtain ⟨vs, hvs, rfl⟩ := h
    simp [implFormatRec, hn.1, implFormatL_eq xs vs hn.2 hvs]
  | .int _, v, _, h => by simp_all [implFormatRec, refA1]
  | .real _, v, _, h => by simp [refA1, fmtAtom] at h
  | .chr _, v, _, h => by simp_all [implFormatRec, refA1]
  | .sym _, v, _, h => by simp_all [implFormatRec, refA1]
  | .str _, v, _, h => by simp_all [implFormatRec, refA1]
  | .dict _, v, _, h => by simp [refA1, fmtAtom] at h
  | .undef, v, _, h => by simp [refA1, fmtAtom] at h
theorem implFormatL_eq : ∀ (xs vs : List Val), hasNumArrL xs = false → refMap1 fmtAtom xs = some vs →
    implFormatL xs = .ok (.list vs)
  | [], vs, _, h => by simp [refMap1] at h; subst h; simp [implFormatL]
  | x :: xs, vs, hn, h => by
    simp only [hasNumArrL, Bool.or_eq_false_iff] at hn
    simp only [refMap1] at h
    cases hx : refA1 fmtAtom x with
    | none => simp [hx] at h
    | some r =>
      cases hxs : refMap1 fmtAtom xs with
      | none => simp [hx, hxs] at h
      | some rs =>
        simp [hx, hxs] at h
        subst h
        simp [implFormatL, implFormatRec_eq x r hn.1 hx, implFormatL_eq xs rs hn.2 hxs]
end

/-- **format_correct**: Format of integers, characters, strings and symbols through any nesting
    of OBJECT arrays; excluded: a numeric array anywhere (RecursionError, witness
    `format_numeric_witness`) -/
theorem format_correct (a v : Val) (h : refMonad "$" a = some v) (hs : Ext1.notStored a = false)
    (hn : hasNumArr a = false) : implMonad "$" a = .ok v := by
  simp only [refMonad, refFormat] at h
  split at h
  · simp at h
  · simp [implMonad, implFormat, hs, implFormatRec_eq a v hn h]

/-! ## Form (atoms) -/

/-- `int(b)` raises ValueError where the manual says :undefined: a non-empty text without digits -/
def formRaises (a b : Val) : Bool :=
  match a, b with
  | .int _, .str s => !s.isEmpty && noDigitAscii s
  | _, _ => false

theorem parseNat_some {s : List Nat} {n : Nat} (h : parseNat s = some n) :
    s ≠ [] ∧ s.all isDigit = true := by
  simp only [parseNat] at h
  split at h
  · rename_i hc
    simp only [Bool.and_eq_true, Bool.not_eq_true', List.isEmpty_eq_false_iff] at hc
    exact hc
  · simp at h

theorem digits_no_dot {s : List Nat} (h : s.all isDigit = true) : ¬ 46 ∈ s := by
  intro hm
  have := (List.all_eq_true.mp h) 46 hm
  simp [isDigit] at this

theorem parseInt_some {s : List Nat} {n : Int} (h : parseInt s = some n) :
    s.isEmpty = false ∧ ¬ 46 ∈ s := by
  unfold parseInt at h
  split at h
  · rename_i r
    cases hm : parseNat r with
    | none => simp [hm] at h
    | some m =>
      obtain ⟨_, hd⟩ := parseNat_some hm
      have := digits_no_dot hd
      simp [this]
  · cases hm : parseNat s with
    | none => simp [hm] at h
    | some m =>
      obtain ⟨hne, hd⟩ := parseNat_some hm
      exact ⟨by simpa using hne, digits_no_dot hd⟩

theorem mem_of_dropWhile_cons {p : Nat → Bool} {body fp : List Nat} {c : Nat}
    (h : body.dropWhile p = c :: fp) : c ∈ body :=
  (List.dropWhile_sublist p).subset (by rw [h]; simp)

/-- a real literal holds a "." -/
theorem isRealLit_dot {s : List Nat} (h : isRealLit s = true) : 46 ∈ s := by
  simp only [isRealLit] at h
  split at h
  · rename_i fp hdw
    have hm := mem_of_dropWhile_cons hdw
    split at hm
    · simp [hm]
    · exact hm
  · simp at h

theorem isRealLit_nonempty {s : List Nat} (h : isRealLit s = true) : s.isEmpty = false := by
  cases s with
  | nil => simp [isRealLit] at h
  | cons _ _ => rfl

/-- **form_atom_correct**: Form of a string against an integer, character, string or symbol
    template (atoms), outside `formRaises` -/
theorem form_atom_correct (a b v : Val) (ha : isListV a = false) (hb : isListV b = false)
    (h : refDyad ":$" a b = some v) (hr : formRaises a b = false) : implDyad ":$" a b = .ok v := by
  simp only [refDyad, refForm] at h
  split at h
  · simp at h
  · rw [refA2_atoms _ a b ha hb] at h
    have hsa : Ext1.notStored a = false := by
      cases a <;> simp_all [isListV, Ext1.notStored, Ext1.mixedStored, Ext1.hasObjRank2]
    have hsb : Ext1.notStored b = false := by
      cases b <;> simp_all [isListV, Ext1.notStored, Ext1.mixedStored, Ext1.hasObjRank2]
    have hda : depthV a = 0 := by cases a <;> simp_all [isListV, depthV]
    have hdb : depthV b = 0 := by cases b <;> simp_all [isListV, depthV]
    simp only [implDyad, implForm, hsa, hsb, Bool.or_self, Bool.false_eq_true, if_false, hda, hdb]
    cases a with
    | int n =>
      cases b with
      | str s =>
        simp only [formAtom] at h
        simp only [formRec, formAtomImpl]
        cases hp : parseInt s with
        | some k =>
          simp only [hp, Option.some.injEq] at h
          subst h
          obtain ⟨h1, h2⟩ := parseInt_some hp
          simp [h1, h2]
        | none =>
          simp only [hp] at h
          split at h
          · rename_i hc
            simp only [Option.some.injEq] at h
            subst h
            simp only [formRaises, Bool.and_eq_false_iff, Bool.not_eq_false'] at hr
            cases hemp : s.isEmpty with
            | true => simp
            | false =>
              have hnd : noDigitAscii s = false := by
                rcases hr with hr | hr
                · simp [hemp] at hr
                · exact hr
              simp only [hnd, Bool.or_false] at hc
              have hdot : 46 ∈ s := isRealLit_dot hc
              simp [hdot, hc]
          · simp at h
      | _ => simp [formAtom] at h
    | chr c =>
      cases b with
      | str s =>
        simp only [formAtom] at h
        simp only [formRec, formAtomImpl]
        cases s with
        | nil => simp_all
        | cons c1 r =>
          cases r with
          | nil => simp_all
          | cons _ _ => simp_all
      | _ => simp [formAtom] at h
    | str t =>
      cases b with
      | str s =>
        simp only [formAtom, Option.some.injEq] at h
        subst h
        simp [formRec, formAtomImpl]
      | _ => simp [formAtom] at h
    | sym t =>
      cases b with
      | str s =>
        simp only [formAtom] at h
        simp only [formRec, formAtomImpl]
        split at h
        · simp_all
        · split at h
          · simp_all
          · simp at h
      | _ => simp [formAtom] at h
    | _ => simp [formAtom] at h

/-! ## witnesses (all `by decide`): the manual's examples, and what the code does where it
    deviates from the manual or where the reference is silent -/

/-- the reference defines exactly `v` -/
def optIs (o : Option Val) (v : Val) : Bool :=
  match o with
  | some w => w == v
  | none => false

private def i (n : Int) : Val := .int n
private def l (xs : List Val) : Val := .list xs

/-- Amend: the manual's five examples, reference and model -/
theorem amend_examples_witness :
    optIs (refAmend (.str [45, 45, 45, 45, 45]) (l [.chr 120, i 1, i 3])) (.str [45, 120, 45, 120, 45]) = true ∧
    (implAmend (.str [45, 45, 45, 45, 45]) (l [.chr 120, i 1, i 3])).is (.str [45, 120, 45, 120, 45]) = true ∧
    optIs (refAmend (l [i 1, i 2, i 3]) (l [i 0, i 1])) (l [i 1, i 0, i 3]) = true ∧
    (implAmend (l [i 1, i 2, i 3]) (l [i 0, i 1])).is (l [i 1, i 0, i 3]) = true ∧
    optIs (refAmend (.str [45, 45, 45, 45, 45, 45, 45]) (l [.str [120, 120], i 1, i 4]))
      (.str [45, 120, 120, 45, 120, 120, 45]) = true ∧
    (implAmend (.str [45, 45, 45, 45, 45, 45, 45]) (l [.str [120, 120], i 1, i 4])).is
      (.str [45, 120, 120, 45, 120, 120, 45]) = true ∧
    optIs (refAmend (.str [97, 98, 99]) (l [.str [100, 101, 102], i 3])) (.str [97, 98, 99, 100, 101, 102]) = true ∧
    (implAmend (.str [97, 98, 99]) (l [.str [100, 101, 102], i 3])).is (.str [97, 98, 99, 100, 101, 102]) = true ∧
    optIs (refAmend (.str [97, 97]) (l [.str [98, 99], i 1])) (.str [97, 98, 99]) = true ∧
    (implAmend (.str [97, 97]) (l [.str [98, 99], i 1])).is (.str [97, 98, 99]) = true := by decide

/-- deviation: `numpy.put` addresses the FLATTENED array — [[1 2] [3 4]]:=5,1 is [[1 5] [3 4]],
    the manual says [[1 2] 5] -/
theorem amend_matrix_witness :
    (implAmend (l [l [i 1, i 2], l [i 3, i 4]]) (l [i 5, i 1])).is (l [l [i 1, i 5], l [i 3, i 4]]) = true ∧
    optIs (refAmend (l [l [i 1, i 2], l [i 3, i 4]]) (l [i 5, i 1])) (l [l [i 1, i 2], i 5]) = true ∧
    amendPutClass (l [l [i 1, i 2], l [i 3, i 4]]) (i 5) = false := by decide

/-- deviation: a character / string / symbol cannot be put into an integer array —
    [1 2 3]:=0cx,1 raises ValueError, the manual says [1 0cx 3] -/
theorem amend_text_witness :
    Ext1.Res.isErr (implAmend (l [i 1, i 2, i 3]) (l [.chr 120, i 1])) = true ∧
    optIs (refAmend (l [i 1, i 2, i 3]) (l [.chr 120, i 1])) (l [i 1, .chr 120, i 3]) = true ∧
    Ext1.Res.isErr (implAmend (l [i 1, i 2, i 3]) (l [.str [97, 98], i 0])) = true ∧
    amendPutClass (l [i 1, i 2, i 3]) (.chr 120) = false := by decide

/-- deviation: a substring that overflows the end from a position before the last character is
    INSERTED — "abcd":="xyz",2 is "abxyzd", the manual says "abxyz"; a one-character string at
    position #a is dropped — "abc":="d",3 is "abc", the manual says "abcd" -/
theorem amend_grow_witness :
    (implAmend (.str [97, 98, 99, 100]) (l [.str [120, 121, 122], i 2])).is (.str [97, 98, 120, 121, 122, 100]) = true ∧
    optIs (refAmend (.str [97, 98, 99, 100]) (l [.str [120, 121, 122], i 2])) (.str [97, 98, 120, 121, 122]) = true ∧
    (implAmend (.str [97, 98, 99]) (l [.str [100], i 3])).is (.str [97, 98, 99]) = true ∧
    optIs (refAmend (.str [97, 98, 99]) (l [.str [100], i 3])) (.str [97, 98, 99, 100]) = true := by decide

/-- outside the reference: indices beyond the end / negative indices, an empty `b` -/
theorem amend_outside_witness :
    (refAmend (l [i 1, i 2, i 3]) (l [i 0, i 3])).isNone = true ∧
    Ext1.Res.isErr (implAmend (l [i 1, i 2, i 3]) (l [i 0, i 3])) = true ∧
    (refAmend (l [i 1, i 2, i 3]) (l [i 0, i (-1)])).isNone = true ∧
    (implAmend (l [i 1, i 2, i 3]) (l [i 0, i (-1)])).is (l [i 1, i 2, i 0]) = true ∧
    (refAmend (.str [97, 98, 99]) (l [.str [100, 101], i 4])).isNone = true ∧
    (implAmend (.str [97, 98, 99]) (l [.str [100, 101], i 4])).is (.str [97, 98, 99]) = true ∧
    (refAmend (.str [97, 98, 99]) (l [.str [100, 101], i 1, i 2])).isNone = true ∧
    (implAmend (l [i 1, i 2, i 3]) (l [])).is (l [i 1, i 2, i 3]) = true := by decide

/-- Amend-in-Depth / Index-in-Depth: the manual's examples -/
theorem depth_examples_witness :
    optIs (refAmendDepth (l [l [i 1, i 2], l [i 3, i 4]]) (l [i 42, i 0, i 1])) (l [l [i 1, i 42], l [i 3, i 4]]) = true ∧
    (implAmendDepth (l [l [i 1, i 2], l [i 3, i 4]]) (l [i 42, i 0, i 1])).is (l [l [i 1, i 42], l [i 3, i 4]]) = true ∧
    optIs (refAmendDepth (l [l [l [i 0]]]) (l [i 1, i 0, i 0, i 0])) (l [l [l [i 1]]]) = true ∧
    (implAmendDepth (l [l [l [i 0]]]) (l [i 1, i 0, i 0, i 0])).is (l [l [l [i 1]]]) = true ∧
    optIs (refIndexDepth (l [l [i 1, i 2], l [i 3, i 4]]) (l [i 0, i 1])) (i 2) = true ∧
    (implIndexDepth (l [l [i 1, i 2], l [i 3, i 4]]) (l [i 0, i 1])).is (i 2) = true ∧
    optIs (refIndexDepth (l [l [l [i 1]]]) (l [i 0, i 0, i 0])) (i 1) = true ∧
    (implIndexDepth (l [l [l [i 1]]]) (l [i 0, i 0, i 0])).is (i 1) = true ∧
    (implAmendDepth (l [l [i 1, i 2], l [i 3, i 4]]) (l [.str [97], i 0, i 1])).is
      (l [l [i 1, .str [97]], l [i 3, i 4]]) = true := by decide

/-- deviation: with ONE index the index array `b[1:]` of a non-integer value is an object array —
    [1 2 3]:-0cx,1 raises IndexError, the manual says [1 0cx 3]; a list value is refused by a numeric
    array — [[1 2] [3 4]]:-[[9] 0 1] raises ValueError, the manual's "b1 can have any type" gives
    [[1 [9]] [3 4]]; outside the reference: fewer
    indices than dimensions select a sub-array / are not modelled, ragged lists have no rank -/
theorem depth_deviation_witness :
    Ext1.Res.isErr (implAmendDepth (l [i 1, i 2, i 3]) (l [.chr 120, i 1])) = true ∧
    optIs (refAmendDepth (l [i 1, i 2, i 3]) (l [.chr 120, i 1])) (l [i 1, .chr 120, i 3]) = true ∧
    aidClass (l [i 1, i 2, i 3]) (.chr 120) 1 = false ∧
    Ext1.Res.isErr (implAmendDepth (l [l [i 1, i 2], l [i 3, i 4]]) (l [l [i 9], i 0, i 1])) = true ∧
    optIs (refAmendDepth (l [l [i 1, i 2], l [i 3, i 4]]) (l [l [i 9], i 0, i 1])) (l [l [i 1, l [i 9]], l [i 3, i 4]]) = true ∧
    (refIndexDepth (l [l [i 1, i 2], l [i 3, i 4]]) (l [i 1])).isNone = true ∧
    (implIndexDepth (l [l [i 1, i 2], l [i 3, i 4]]) (l [i 1])).is (l [i 3, i 4]) = true ∧
    (refIndexDepth (l [l [i 1], l [i 2, i 3]]) (l [i 1, i 0])).isNone = true ∧
    Ext1.Res.isErr (implIndexDepth (l [l [i 1], l [i 2, i 3]]) (l [i 1, i 0])) = true ∧
    (refAmendDepth (l [l [i 1], l [i 2, i 3]]) (l [i 42, i 1, i 0])).isNone = true := by decide

/-- Divide / Reciprocal / Power: division of atoms by zero is :undefined; integer powers
    (`refA2` / `implA2` are well-founded recursions: the witnesses are on the scalar functions) -/
theorem arith_witness :
    optIs (refDivide (i 1) (i 0)) .undef = true ∧ (implDivide (i 1) (i 0)).is .undef = true ∧
    optIs (refRecip (i 0)) .undef = true ∧ (implRecip (i 0)).is .undef = true ∧
    (scalarDiv (i 10) (i 8)).isSome = true ∧ (scalarDiv (i 8) (i 0)).isNone = true ∧
    optIs (scalarPow (i 2) (i 8)) (i 256) = true ∧ optIs (scalarPow (i 2) (i 0)) (i 1) = true ∧
    optIs (scalarPow (i (-3)) (i 3)) (i (-27)) = true ∧ optIs (scalarPow (i 0) (i 0)) (i 1) = true ∧
    (scalarPow (i 2) (i (-5))).isNone = true ∧ (scalarPow (i 3) (i 40)).isNone = true ∧
    optIs (scalarPow (i 2) (i 53)) (i 9007199254740992) = true := by decide

/-- non-vacuity through a nesting: [1 [2 3]]^2 -/
theorem power_nested_witness :
    refDyad "^" (l [i 1, l [i 2, i 3]]) (i 2) = some (l [i 1, l [i 4, i 9]]) ∧
    ufuncSkip (l [i 1, l [i 2, i 3]]) (i 2) = false := by
  refine ⟨?_, by decide⟩
  simp [refDyad, refPower, numLeaves, numLeavesL, refA2, refMapL, scalarPow, l, i, powBound]

/-- Char: code point 64 is "@" (the manual's example says 0cA: erratum); nested lists;
    `[]` anywhere makes `rec_fn` call `chr(array([]))`: TypeError (the reference is silent on []) -/
theorem char_witness :
    optIs (refChar (i 64)) (.chr 64) = true ∧ (implChar (i 64)).is (.chr 64) = true ∧
    optIs (refChar (l [i 97, l [i 98, i 99]])) (l [.chr 97, l [.chr 98, .chr 99]]) = true ∧
    (implChar (l [i 97, l [i 98, i 99]])).is (l [.chr 97, l [.chr 98, .chr 99]]) = true ∧
    (refChar (i (-1))).isNone = true ∧ Ext1.Res.isErr (implChar (i (-1))) = true ∧
    Ext1.Res.isErr (implChar (l [])) = true ∧ Ext1.Res.isErr (implChar (l [i 97, l []])) = true ∧
    (refChar (l [])).isNone = true := by decide

/-- Format: the manual's examples; deviation: a numeric array recurses forever —
    $[1 2 3] raises RecursionError, the manual ("$" is an atomic operator) says ["1" "2" "3"] -/
theorem format_witness :
    optIs (refFormat (i 123)) (.str [49, 50, 51]) = true ∧ (implFormat (i 123)).is (.str [49, 50, 51]) = true ∧
    (implFormat (i (-123))).is (.str [45, 49, 50, 51]) = true ∧
    (implFormat (.str [116, 101, 115, 116])).is (.str [116, 101, 115, 116]) = true ∧
    (implFormat (.chr 120)).is (.str [120]) = true ∧
    optIs (refFormat (.sym [102, 111, 111])) (.str [58, 102, 111, 111]) = true ∧
    (implFormat (.sym [102, 111, 111])).is (.str [58, 102, 111, 111]) = true ∧
    (implFormat (l [i 1, .str [97]])).is (l [.str [49], .str [97]]) = true ∧
    Ext1.Res.isErr (implFormat (l [i 1, i 2, i 3])) = true ∧
    optIs (refFormat (l [i 1, i 2, i 3])) (l [.str [49], .str [50], .str [51]]) = true ∧
    hasNumArr (l [i 1, i 2, i 3]) = true ∧
    Ext1.Res.isErr (implFormat (l [.str [97], l [i 1, i 2]])) = true := by decide

/-- Form: the manual's examples; deviations: `int("abc")` raises ValueError where the manual says
    :undefined; a numeric array template against one string returns the string —
    [1 2]:$"12" is "12", the manual (":$ is an atomic operator") says [12 12] -/
theorem form_witness :
    optIs (formAtom (i 1) (.str [45, 49, 50, 51])) (i (-123)) = true ∧
    (implForm (i 1) (.str [45, 49, 50, 51])).is (i (-123)) = true ∧
    (implForm (.chr 48) (.str [120])).is (.chr 120) = true ∧
    (implForm (.str []) (.str [115, 116])).is (.str [115, 116]) = true ∧
    optIs (formAtom (.sym [120]) (.str [58, 115, 121])) (.sym [115, 121]) = true ∧
    (implForm (.sym [120]) (.str [58, 115, 121])).is (.sym [115, 121]) = true ∧
    (implForm (.sym [120]) (.str [115, 121])).is (.sym [115, 121]) = true ∧
    optIs (formAtom (i 1) (.str [49, 46, 53])) .undef = true ∧ (implForm (i 1) (.str [49, 46, 53])).is .undef = true ∧
    (implForm (.chr 48) (.str [120, 121])).is .undef = true ∧
    optIs (formAtom (i 1) (.str [97, 98, 99])) .undef = true ∧
    Ext1.Res.isErr (implForm (i 1) (.str [97, 98, 99])) = true ∧
    formRaises (i 1) (.str [97, 98, 99]) = true ∧
    (implForm (l [i 1, i 2]) (.str [49, 50])).is (.str [49, 50]) = true ∧
    (implForm (l [i 1, .chr 120]) (l [.str [49, 50], .str [121]])).is (l [i 12, .chr 121]) = true := by decide

/-- the reference on the two list cases above: [1 2]:$"12" and [1 0cx]:$["12" "y"] -/
theorem form_list_witness :
    refDyad ":$" (l [i 1, i 2]) (.str [49, 50]) = some (l [i 12, i 12]) ∧
    refDyad ":$" (l [i 1, .chr 120]) (l [.str [49, 50], .str [121]]) = some (l [i 12, .chr 121]) := by
  constructor
  · have p : parseInt [49, 50] = some 12 := by decide
    simp [refDyad, refForm, hasEmptyList, hasEmptyListL, refA2, refMapL, formAtom, l, i, p]
  · have p : parseInt [49, 50] = some 12 := by decide
    simp [refDyad, refForm, hasEmptyList, hasEmptyListL, refA2, refZip, formAtom, l, i, p]

/-- Undefined -/
theorem undefined_witness :
    (implUndefined .undef).is (i 1) = true ∧ (implUndefined (i 1)).is (i 0) = true ∧
    (implUndefined (l [])).is (i 0) = true := by decide

end Klong.C01.Ext3
