/-
  C01 extension 3 — property theorems: implementation model (Klong.Model.C01Ext3, mirroring the
  Python of dyads.py / monads.py as repaired by 175176c, 22bcc8e, 2fe5617, 12321e2, 187c70d) =
  reference (Ext3.refDyad / Ext3.refMonad, the manual text transcribed) wherever the reference is
  defined, for every list length, nesting depth and index.

  Hypotheses that appear in the statements (all decidable):
  * `Ext1.notStored x = false` — the literal `x` is what the interpreter holds;
  * `Ext1.mixedNum w = false` — the reference result is not a regular nest of numbers mixing
    integers and reals (numpy re-packs it as one float64 array: finding mixed-numeric-level);
  * `repackOk w = true` / `pathOk w is = true` / `clashFree w = true` — `kg_asarray` of the rebuilt
    member list does not broadcast member arrays whose shapes agree on leading dimensions only
    (`Ext1.objArrayClash`; witness `depth_repack_witness`);
  * `amendValueOk a v = true` / `hasReal a = false` — the integer value is not stored into a float64
    array (it would come back real: `[0.5]:=0,0` is `[0.0]`; witness `amend_kind_witness`);
  * `ufuncSkip a b = false` — the paired traversal of an atomic dyad meets no numpy broadcast
    (findings atomic:rank-mismatch / numpy-shape-mismatch / object-array-rank2).
  Form is proved on atoms (`form_atom_correct`); its element-wise extension through lists
  (`formRec`, mirroring vec_fn2 / _e_dyad_form) is modelled and tied by the differential run only.
-/
import Klong.Model.C01Ext3
import Klong.Props.C01
import Klong.Props.C01Ext1
namespace Klong.C01.Ext3
open Klong Klong.C01

/-! ## Python index assignment on in-range natural indices -/

theorem pySet_nat {α} (xs : List α) (i : Nat) (v : α) (h : i < xs.length) :
    pySet xs (i : Int) v = some (xs.set i v) := by
  unfold pySet
  have h1 : ¬ ((i : Int) < 0) := by omega
  simp [h1, h]

theorem setAll_length {α} (v : α) : ∀ (is : List Nat) (xs : List α), (setAll xs v is).length = xs.length := by
  intro is
  induction is with
  | nil => intro xs; rfl
  | cons i is ih => intro xs; simp [setAll, ih]

theorem pySetAll_nat {α} (v : α) : ∀ (is : List Nat) (xs : List α),
    is.all (fun i => decide (i < xs.length)) = true →
    pySetAll xs v (is.map fun (p : Nat) => (p : Int)) = some (setAll xs v is) := by
  intro is
  induction is with
  | nil => intro xs _; rfl
  | cons i is ih =>
    intro xs h
    simp only [List.all_cons, Bool.and_eq_true, decide_eq_true_eq] at h
    simp only [List.map_cons, pySetAll, pySet_nat xs i v h.1, setAll]
    apply ih
    simpa using h.2

theorem natList_length : ∀ (vs : List Val) (is : List Nat), natList vs = some is → is.length = vs.length
  | [], is, h => by simp [natList] at h; subst h; rfl
  | x :: r, is, h => by
    cases x with
    | int n =>
      simp only [natList] at h
      split at h
      · simp at h
      · cases hr : natList r with
        | none => simp [hr] at h
        | some qs => simp [hr] at h; subst h; simp [natList_length r qs hr]
    | _ => simp [natList] at h

theorem nonempty_of_all_lt {α} {xs : List α} {is : List Nat} (hne : is.length ≠ 0)
    (hall : is.all (fun i => decide (i < xs.length)) = true) : xs.isEmpty = false := by
  cases xs with
  | nil =>
    cases is with
    | nil => simp at hne
    | cons i0 _ => simp at hall
  | cons _ _ => rfl

theorem refAmend_cons {a : Val} {v : Val} {ixs : List Val} {w : Val}
    (h : refAmend a (.list (v :: ixs)) = some w) : ∃ is, natList ixs = some is := by
  cases hp : natList ixs with
  | some is => exact ⟨is, rfl⟩
  | none =>
    cases a with
    | list xs => simp [refAmend, hp] at h
    | str cs => cases v <;> simp [refAmend, hp] at h
    | _ => simp [refAmend] at h

/-! ## Amend on lists -/

def isIntV : Val → Bool
  | .int _ => true
  | _ => false

/-- the value is of a modelled kind and, where `numpy.put` takes it, it is not an integer going
    into a float64 array (which stores it as a real) -/
def amendValueOk (a v : Val) : Bool :=
  !isOpaqueV v && !(putFits a v && (numShape a).isSome && realKind a && isIntV v)

/-- `kg_asarray` of the rebuilt member list keeps the members: it is a regular numeric nest or no
    two member arrays agree on leading dimensions only -/
def repackOk : Val → Bool
  | .list r => (numShape (.list r)).isSome || !Ext1.objArrayClash r
  | _ => true

theorem repack_ok (r : List Val) (hm : Ext1.mixedNum (.list r) = false) (hr : repackOk (.list r) = true) :
    repack r = .ok (.list r) := by
  simp only [repackOk, Bool.or_eq_true, Bool.not_eq_true'] at hr
  unfold repack
  rw [Ext1.npCoerce_id hm]
  rcases hr with hr | hr
  · cases hn : numShape (Val.list r) with
    | none => simp [hn] at hr
    | some s => simp
  · simp [hr]

theorem toReal_nonInt (v : Val) (hl : isListV v = false) (hi : isIntV v = false) : Ext1.toReal v = v := by
  cases v <;> simp_all [Ext1.toReal, isListV, isIntV]

/-- **amend_list_correct**: for a list `a` and `b = [v i1 … iN]` with every index inside `a`,
    the model of `eval_dyad_amend` (numpy.put fast path or the member-list path) returns the
    reference's list: the members at i1 … iN replaced by `v`, whatever the rank of `a` and the
    kind of `v` -/
theorem amend_list_correct (xs : List Val) (b w : Val)
    (h : refDyad ":=" (.list xs) b = some w)
    (ha : Ext1.notStored (.list xs) = false) (hb : Ext1.notStored b = false)
    (hc : ∀ v ixs, b = .list (v :: ixs) → amendValueOk (.list xs) v = true)
    (hm : Ext1.mixedNum w = false) (hr : repackOk w = true) :
    implDyad ":=" (.list xs) b = .ok w := by
  simp only [refDyad] at h
  simp only [implDyad]
  cases b with
  | list bs =>
    cases bs with
    | nil => simp [refAmend] at h
    | cons v ixs =>
      have hcl := hc v ixs rfl
      obtain ⟨is, hp⟩ := refAmend_cons h
      simp only [refAmend, hp] at h
      split at h
      · rename_i hall
        simp only [Option.some.injEq] at h
        subst h
        simp only [implAmend, ha, hb, Bool.or_self, Bool.false_eq_true, if_false]
        cases ixs with
        | nil =>
          simp only [natList, Option.some.injEq] at hp
          subst hp
          simp [setAll]
        | cons j r =>
          simp only [Ext1.intList_of_natList hp]
          have hset := pySetAll_nat v is xs hall
          have hne : xs.isEmpty = false :=
            nonempty_of_all_lt (by rw [natList_length _ _ hp]; simp) hall
          simp only [amendValueOk, Bool.and_eq_true, Bool.not_eq_true'] at hcl
          simp only [implAmendList, hcl.1, Bool.false_eq_true, if_false]
          cases hf : putFits (.list xs) v with
          | true =>
            -- numpy.put: the value is stored as it is
            have hv : (if ((numShape (Val.list xs)).isSome && realKind (Val.list xs)) = true
                then Ext1.toReal v else v) = v := by
              split
              · rename_i hk
                have hi : isIntV v = false := by
                  have := hcl.2
                  simp only [hf, Bool.true_and, hk] at this
                  simpa using this
                have hl : isListV v = false := by
                  cases v <;> simp_all [putFits, isListV]
                exact toReal_nonInt v hl hi
              · rfl
            simp only [if_true, hne, Bool.false_eq_true, if_false, hv, hset, Option.map_some, lift]
          | false =>
            simp only [Bool.false_eq_true, if_false, hset]
            exact repack_ok _ hm hr
      · simp at h
  | _ => simp [refAmend] at h

/-! ## Amend on strings -/

theorem splice_length_ge (r q : List Nat) (i : Nat) (h : i ≤ r.length) : r.length ≤ (splice r q i).length := by
  simp [splice]; omega

/-- the loop `r = r[:i] + q + r[i+len(q):]` on natural indices that never exceed the current length -/
theorem amendStrLoop_nat (q : List Nat) : ∀ (is : List Nat) (r : List Nat),
    (∀ i ∈ is, i ≤ r.length) →
    amendStrLoop q r (is.map fun (p : Nat) => (p : Int)) = some (spliceAll r q is) := by
  intro is
  induction is with
  | nil => intro r _; rfl
  | cons i is ih =>
    intro r h
    have hi : i ≤ r.length := h i (by simp)
    have h1 : ¬ ((i : Int) < 0) := by omega
    have h2 : ¬ ((i : Int) > (r.length : Int)) := by omega
    simp only [List.map_cons, amendStrLoop, h1, if_false, false_or, h2, Int.toNat_natCast, spliceAll]
    apply ih
    intro j hj
    have := h j (by simp [hj])
    have := splice_length_ge r q i hi
    omega

theorem splice_single (cs : List Nat) (c i : Nat) (h : i < cs.length) : splice cs [c] i = cs.set i c := by
  simp [splice, List.set_eq_take_append_cons_drop, h]

theorem setAll_eq_spliceAll (c : Nat) : ∀ (is : List Nat) (cs : List Nat),
    is.all (fun i => decide (i < cs.length)) = true → setAll cs c is = spliceAll cs [c] is := by
  intro is
  induction is with
  | nil => intro cs _; rfl
  | cons i is ih =>
    intro cs h
    simp only [List.all_cons, Bool.and_eq_true, decide_eq_true_eq] at h
    simp only [setAll, spliceAll, splice_single cs c i h.1]
    apply ih
    simpa using h.2


/-- **amend_str_correct**: a string amended with a character (positions inside the string) or with
    a string (pairwise disjoint substrings starting at positions ≤ #a, growing past the end):
    the Python slicing loop returns the reference's string — no operand class excluded -/
theorem amend_str_correct (cs : List Nat) (b w : Val)
    (h : refDyad ":=" (.str cs) b = some w) : implDyad ":=" (.str cs) b = .ok w := by
  simp only [refDyad] at h
  cases b with
  | list bs =>
    cases bs with
    | nil => simp [refAmend] at h
    | cons v ixs =>
      obtain ⟨is, hp⟩ := refAmend_cons h
      cases v with
      | chr c =>
        simp only [refAmend, hp] at h
        split at h
        · rename_i hall
          simp only [Option.some.injEq] at h
          subst h
          cases ixs with
          | nil =>
            simp only [natList, Option.some.injEq] at hp
            subst hp
            simp [implDyad, implAmend, setAll]
          | cons j r =>
            have hle : ∀ i ∈ is, i ≤ cs.length := by
              intro i hi
              have := (List.all_eq_true.mp hall) i hi
              simp only [decide_eq_true_eq] at this
              omega
            simp [implDyad, implAmend, Ext1.intList_of_natList hp, amendText, amendStrLoop_nat [c] is cs hle,
              setAll_eq_spliceAll c is cs hall, lift]
        · simp at h
      | str s =>
        simp only [refAmend, hp] at h
        split at h
        · rename_i hall
          simp only [Option.some.injEq] at h
          subst h
          cases ixs with
          | nil =>
            simp only [natList, Option.some.injEq] at hp
            subst hp
            simp [implDyad, implAmend, spliceAll]
          | cons j r =>
            simp only [Bool.and_eq_true] at hall
            have hle : ∀ i ∈ is, i ≤ cs.length := by
              intro i hi
              have := (List.all_eq_true.mp hall.1) i hi
              simpa using this
            simp [implDyad, implAmend, Ext1.intList_of_natList hp, amendText, amendStrLoop_nat s is cs hle, lift]
        · simp at h
      | _ => simp [refAmend] at h
  | _ => simp [refAmend] at h

/-! ## regular arrays -/

theorem regShapes_all (p : Option (List Nat) → Bool) : ∀ (xs : List Val),
    (regShape.regShapes xs).all p = true → ∀ x ∈ xs, p (regShape x) = true := by
  intro xs
  induction xs with
  | nil => intro _ x hx; simp at hx
  | cons y ys ih =>
    intro h x hx
    simp only [regShape.regShapes, List.all_cons, Bool.and_eq_true] at h
    rcases List.mem_cons.mp hx with rfl | hx
    · exact h.1
    · exact ih h.2 x hx

/-- the members of a regular array of shape n :: s are regular arrays of shape s -/
theorem regShape_elems (xs : List Val) (s : List Nat) (h : regShape (.list xs) = some s) :
    ∃ t, s = xs.length :: t ∧ ∀ x ∈ xs, regShape x = some t := by
  cases xs with
  | nil => simp [regShape] at h
  | cons y ys =>
    simp only [regShape] at h
    cases hy : regShape y with
    | none => simp [hy] at h
    | some t =>
      simp only [hy] at h
      split at h
      · rename_i hall
        simp only [Option.some.injEq] at h
        refine ⟨t, by simp [← h], ?_⟩
        intro x hx
        rcases List.mem_cons.mp hx with rfl | hx
        · exact hy
        · have := regShapes_all _ ys hall x hx
          simpa using this
      · simp at h

theorem regShape_nil_notList (x : Val) (h : regShape x = some []) : isListV x = false := by
  cases x with
  | list xs =>
    obtain ⟨t, ht, _⟩ := regShape_elems xs [] h
    simp at ht
  | _ => rfl

theorem regShape_atom (a : Val) (s : List Nat) (hl : isListV a = false) (h : regShape a = some s) : s = [] := by
  cases a <;> simp_all [regShape, isListV]


/-! ## Amend-in-Depth -/

theorem numShape_elems (xs : List Val) (s : List Nat) (h : numShape (.list xs) = some s) (hne : xs ≠ []) :
    ∃ t, s = xs.length :: t ∧ ∀ x ∈ xs, numShape x = some t := by
  cases xs with
  | nil => exact (hne rfl).elim
  | cons y ys =>
    simp only [numShape] at h
    cases hy : numShape y with
    | none => simp [hy] at h
    | some t =>
      simp only [hy] at h
      split at h
      · rename_i hall
        simp only [Option.some.injEq] at h
        refine ⟨t, by simp [← h], ?_⟩
        intro x hx
        rcases List.mem_cons.mp hx with rfl | hx
        · exact hy
        · have := Ext1.numShapes_all _ ys hall x hx
          simpa using this
      · simp at h

/-- on a regular array of numbers numpy's shape is the reference's shape -/
theorem shape_agree : ∀ (a : Val) (s s' : List Nat), numShape a = some s → regShape a = some s' → s = s'
  | .list [], _, _, _, h2 => by simp [regShape] at h2
  | .list (x :: xs), s, s', h1, h2 => by
    obtain ⟨t, ht, hel⟩ := numShape_elems (x :: xs) s h1 (by simp)
    obtain ⟨t', ht', hel'⟩ := regShape_elems (x :: xs) s' h2
    have := shape_agree x t t' (hel x (by simp)) (hel' x (by simp))
    subst this
    rw [ht, ht']
  | .int _, s, s', h1, h2 => by
    simp only [numShape, Option.some.injEq] at h1
    simp only [regShape, Option.some.injEq] at h2
    rw [← h1, ← h2]
  | .real _, s, s', h1, h2 => by
    simp only [numShape, Option.some.injEq] at h1
    simp only [regShape, Option.some.injEq] at h2
    rw [← h1, ← h2]
  | .chr _, _, _, h1, _ => by simp [numShape] at h1
  | .sym _, _, _, h1, _ => by simp [numShape] at h1
  | .str _, _, _, h1, _ => by simp [numShape] at h1
  | .dict _, _, _, h1, _ => by simp [numShape] at h1
  | .undef, _, _, h1, _ => by simp [numShape] at h1

/-- numpy's multi-index assignment reaches the element the reference addresses -/
theorem multiSet_nat (v : Val) : ∀ (is : List Nat) (a w : Val), deepSet a is v = some w →
    multiSet a (is.map fun (p : Nat) => (p : Int)) v = some w := by
  intro is
  induction is with
  | nil => intro a w h; simp [deepSet] at h
  | cons i r ih =>
    intro a w hd
    cases a with
    | list xs =>
      cases r with
      | nil =>
        simp only [deepSet] at hd
        split at hd
        · rename_i hi
          simp only [Option.some.injEq] at hd
          subst hd
          simp [multiSet, pySet_nat xs i v hi]
        · simp at hd
      | cons j r' =>
        simp only [deepSet] at hd
        cases hx : xs[i]? with
        | none => simp [hx] at hd
        | some x =>
          simp only [hx, Option.map_eq_some_iff] at hd
          obtain ⟨y, hy, hw⟩ := hd
          subst hw
          have hi : i < xs.length := by
            rcases List.getElem?_eq_some_iff.mp hx with ⟨hi, _⟩
            exact hi
          have := ih x y hy
          simp only [List.map_cons] at this
          simp [multiSet, Ext1.pyIndex_nat, hx, this, pySet_nat xs i y hi]
    | _ => simp [deepSet] at hd

theorem regShape_nonempty {xs : List Val} {s : List Nat} (h : regShape (.list xs) = some s) : xs.isEmpty = false := by
  cases xs with
  | nil => simp [regShape] at h
  | cons _ _ => rfl

/-- **amend_in_depth_correct**: an integer stored into a regular N-dimensional array of integers
    (any N) at N in-range indices: the direct path `p[tuple(q)] = v` replaces exactly the addressed
    element -/
theorem amend_in_depth_correct (xs : List Val) (n : Int) (ixs : List Val) (w : Val)
    (h : refDyad ":-" (.list xs) (.list (.int n :: ixs)) = some w)
    (ha : Ext1.notStored (.list xs) = false) (hb : Ext1.notStored (.list (.int n :: ixs)) = false)
    (hn : (numShape (.list xs)).isSome = true) (hr : Ext1.hasReal (.list xs) = false) :
    implDyad ":-" (.list xs) (.list (.int n :: ixs)) = .ok w := by
  simp only [refDyad, refAmendDepth] at h
  cases hs : regShape (.list xs) with
  | none => simp [hs] at h
  | some s =>
    cases hp : natList ixs with
    | none => simp [hs, hp] at h
    | some is =>
      simp only [hs, hp] at h
      split at h
      · rename_i hlen
        simp only [beq_iff_eq] at hlen
        obtain ⟨t, ht, _⟩ := regShape_elems xs s hs
        cases hns : numShape (.list xs) with
        | none => simp [hns] at hn
        | some s' =>
          have hag := shape_agree _ _ _ hns hs
          subst hag
          have hne := regShape_nonempty hs
          have hl := natList_length _ _ hp
          cases ixs with
          | nil =>
            simp only [natList, Option.some.injEq] at hp
            subst hp; subst ht
            simp at hlen
          | cons j r =>
            cases is with
            | nil => simp at hl
            | cons i rest =>
              have hms := multiSet_nat (.int n) (i :: rest) (.list xs) w h
              simp only [List.map_cons] at hms
              have hrk : realKind (.list xs) = false := by simp [realKind, hne, hr]
              have hdir : aidDirect (.list xs) (rest.length + 1) (.int n) = true := by
                simp only [aidDirect, hns, hrk, Bool.false_eq_true, if_false, Bool.and_true, beq_iff_eq]
                simpa using hlen.symm
              simp only [implDyad, implAmendDepth, ha, hb, Bool.or_self, Bool.false_eq_true, if_false,
                Ext1.intList_of_natList hp, isOpaqueV, List.map_cons]
              unfold aidRec
              simp [hdir, hrk, hms, lift]
      · simp at h

/-- one level of the member-list path keeps the members -/
def levelOk (r : List Val) : Bool := repackOk (.list r) && !Ext1.mixedNum (.list r)

/-- every list rebuilt along the index path is kept by `kg_asarray` -/
def pathOk : Val → List Nat → Bool
  | .list r, [_] => levelOk r
  | .list r, i :: j :: rest =>
    levelOk r && (match r[i]? with
      | some y => pathOk y (j :: rest)
      | none => false)
  | _, _ => false

theorem repack_level (r : List Val) (h : levelOk r = true) : repack r = .ok (.list r) := by
  simp only [levelOk, Bool.and_eq_true, Bool.not_eq_true'] at h
  exact repack_ok r h.2 h.1

/-- the member-list path (one member replaced per level, `kg_asarray` per level) -/
theorem aidRec_slow (v : Val) (hd : ∀ p n, aidDirect p n v = false) : ∀ (is : List Nat) (a w : Val),
    deepSet a is v = some w → pathOk w is = true →
    aidRec a (is.map fun (p : Nat) => (p : Int)) v = .ok w := by
  intro is
  induction is with
  | nil => intro a w h; simp [deepSet] at h
  | cons i r ih =>
    intro a w hset hp
    cases a with
    | list xs =>
      cases r with
      | nil =>
        simp only [deepSet] at hset
        split at hset
        · rename_i hi
          simp only [Option.some.injEq] at hset
          subst hset
          simp only [pathOk] at hp
          simp [aidRec, hd, pySet_nat xs i v hi, repack_level _ hp]
        · simp at hset
      | cons j r' =>
        simp only [deepSet] at hset
        cases hx : xs[i]? with
        | none => simp [hx] at hset
        | some x =>
          simp only [hx, Option.map_eq_some_iff] at hset
          obtain ⟨y, hy, hw⟩ := hset
          subst hw
          have hi : i < xs.length := by
            rcases List.getElem?_eq_some_iff.mp hx with ⟨hi, _⟩
            exact hi
          simp only [pathOk, Bool.and_eq_true] at hp
          have hget : (xs.set i y)[i]? = some y := by simp [hi]
          simp only [hget] at hp
          have := ih x y hy hp.2
          simp only [List.map_cons] at this
          simp [aidRec, hd, Ext1.pyIndex_nat, hx, this, pySet_nat xs i y hi, repack_level _ hp.1]
    | _ => simp [deepSet] at hset

theorem aidDirect_text (v : Val) (hv : (isListV v || isText v) = true) : ∀ p n, aidDirect p n v = false := by
  intro p n
  cases v <;> simp [isListV, isText] at hv <;> simp only [aidDirect]
  all_goals
    split
    · split <;> simp [Val.isNum]
    · rfl

def pathOkV (w : Val) (ixs : List Val) : Bool :=
  match natList ixs with
  | some is => pathOk w is
  | none => false

theorem notOpaque_of_text {v : Val} (hv : (isListV v || isText v) = true) : isOpaqueV v = false := by
  cases v <;> simp_all [isListV, isText, isOpaqueV]

/-- **amend_in_depth_any_correct**: a character, string, symbol or list stored into a regular
    N-dimensional array at N in-range indices: one member is replaced per level and the lists are
    rebuilt (`pathOkV`: `kg_asarray` keeps every rebuilt list) -/
theorem amend_in_depth_any_correct (xs : List Val) (v : Val) (ixs : List Val) (w : Val)
    (h : refDyad ":-" (.list xs) (.list (v :: ixs)) = some w)
    (ha : Ext1.notStored (.list xs) = false) (hb : Ext1.notStored (.list (v :: ixs)) = false)
    (hv : (isListV v || isText v) = true) (hp : pathOkV w ixs = true) :
    implDyad ":-" (.list xs) (.list (v :: ixs)) = .ok w := by
  simp only [refDyad, refAmendDepth] at h
  cases hs : regShape (.list xs) with
  | none => simp [hs] at h
  | some s =>
    cases hpn : natList ixs with
    | none => simp [hs, hpn] at h
    | some is =>
      simp only [hs, hpn] at h
      simp only [pathOkV, hpn] at hp
      split at h
      · rename_i hlen
        simp only [beq_iff_eq] at hlen
        obtain ⟨t, ht, _⟩ := regShape_elems xs s hs
        have hl := natList_length _ _ hpn
        cases ixs with
        | nil =>
          simp only [natList, Option.some.injEq] at hpn
          subst hpn; subst ht
          simp at hlen
        | cons j r =>
          have := aidRec_slow v (aidDirect_text v hv) is (.list xs) w h hp
          simp [implDyad, implAmendDepth, ha, hb, Ext1.intList_of_natList hpn, notOpaque_of_text hv, this]
      · simp at h

/-- **amend_in_depth_vec_correct**: one index into a stored vector that is no numeric array
    (members of any kind), any value -/
theorem amend_in_depth_vec_correct (xs : List Val) (v ix w : Val)
    (h : refDyad ":-" (.list xs) (.list [v, ix]) = some w)
    (ha : Ext1.notStored (.list xs) = false) (hb : Ext1.notStored (.list [v, ix]) = false)
    (hn : numShape (.list xs) = none) (ho : isOpaqueV v = false)
    (hm : Ext1.mixedNum w = false) (hr : repackOk w = true) :
    implDyad ":-" (.list xs) (.list [v, ix]) = .ok w := by
  simp only [refDyad, refAmendDepth] at h
  cases hs : regShape (.list xs) with
  | none => simp [hs] at h
  | some s =>
    cases hpn : natList [ix] with
    | none => simp [hs, hpn] at h
    | some is =>
      simp only [hs, hpn] at h
      split at h
      · have hl := natList_length _ _ hpn
        cases is with
        | nil => simp at hl
        | cons i rest =>
          cases rest with
          | cons _ _ => simp at hl
          | nil =>
            simp only [deepSet] at h
            split at h
            · rename_i hi
              simp only [Option.some.injEq] at h
              subst h
              have hdir : aidDirect (.list xs) 1 v = false := by
                cases v <;> simp [aidDirect, hn]
              simp [implDyad, implAmendDepth, ha, hb, Ext1.intList_of_natList hpn, ho, aidRec, hdir,
                pySet_nat xs i v hi, repack_ok _ hm hr]
            · simp at h
      · simp at h

/-! ## Index-in-Depth -/

theorem walkGet_nat : ∀ (is : List Nat) (a : Val),
    walkGet a (is.map fun (p : Nat) => (p : Int)) = deepGet a is := by
  intro is
  induction is with
  | nil => intro a; simp [walkGet, deepGet]
  | cons i r ih =>
    intro a
    cases a with
    | list xs =>
      simp only [List.map_cons, walkGet, deepGet, Ext1.pyIndex_nat]
      cases xs[i]? with
      | none => rfl
      | some x => exact ih x
    | _ => simp [walkGet, deepGet]

/-- **index_in_depth_correct**: for a regular N-dimensional array of numbers and N in-range
    indices (or any stored vector and one index), numpy's multi-index returns the reference's
    element -/
theorem index_in_depth_correct (xs ixs : List Val) (w : Val)
    (h : refDyad ":@" (.list xs) (.list ixs) = some w)
    (ha : Ext1.notStored (.list xs) = false)
    (hc : ((numShape (.list xs)).isSome || ixs.length == 1) = true) :
    implDyad ":@" (.list xs) (.list ixs) = .ok w := by
  simp only [refDyad, refIndexDepth] at h
  cases hs : regShape (.list xs) with
  | none => simp [hs] at h
  | some s =>
    cases hp : natList ixs with
    | none => simp [hs, hp] at h
    | some is =>
      simp only [hs, hp] at h
      split at h
      · rename_i hlen
        simp only [beq_iff_eq] at hlen
        obtain ⟨t, ht, _⟩ := regShape_elems xs s hs
        have hl := natList_length _ _ hp
        cases ixs with
        | nil =>
          simp only [natList, Option.some.injEq] at hp
          subst hp; subst ht
          simp at hlen
        | cons x r =>
          simp only [implDyad, implIndexDepth, Ext1.intList_of_natList hp, implIndexDepthList, ha,
            Bool.false_eq_true, if_false]
          cases hnum : (numShape (.list xs)).isSome with
          | true => simp [walkGet_nat, h, lift]
          | false =>
            simp only [hnum, Bool.false_or, beq_iff_eq] at hc
            cases is with
            | nil => simp at hl
            | cons i r' =>
              cases r' with
              | cons _ _ => simp only [List.length_cons] at hl hc; omega
              | nil =>
                simp only [deepGet] at h
                cases hx : xs[i]? with
                | none => simp [hx] at h
                | some y =>
                  simp only [hx, Option.some.injEq] at h
                  subst h
                  simp [Ext1.pyIndex_nat, hx, lift]
      · simp at h

/-! ## Divide, Power (atomic dyads: the generic extension theorem of Klong.Props.C01) -/

theorem refA2_atoms (f : Val → Val → Option Val) (a b : Val) (ha : isListV a = false)
    (hb : isListV b = false) : refA2 f a b = f a b := by
  cases a <;> cases b <;> simp_all [refA2, isListV]

theorem ufuncSkip_rank {a b : Val} (h : ufuncSkip a b = false) : anyRankMismatch a b = false := by
  simp only [ufuncSkip, Bool.or_eq_false_iff] at h
  exact h.1.1.1

theorem isNum_notList {a : Val} (h : a.isNum = true) : isListV a = false := by
  cases a <;> simp_all [Val.isNum, isListV]

/-- **divide_correct**: Divide through any nesting depth (float64 quotient per element pair,
    atom-to-list extension); the quotient of two atoms by zero is :undefined -/
theorem divide_correct (a b v : Val) (h : refDyad "%" a b = some v) (hs : ufuncSkip a b = false) :
    implDyad "%" a b = .ok v := by
  simp only [refDyad, refDivide] at h
  simp only [implDyad, implDivide]
  split at h
  · simp at h
  split at h
  · rename_i hz
    simp only [Bool.and_eq_true] at hz
    simp only [Option.some.injEq] at h
    subst h
    simp [isNum_notList hz.1.1, isNum_notList hz.1.2, hz.1.2, hz.2]
  · rename_i hz
    -- the atom test of lines 228–231 cannot fire: the reference would be undefined
    have hno : (!isListV a && !isListV b && b.isNum && isZeroNum b) = false := by
      cases hc : (!isListV a && !isListV b && b.isNum && isZeroNum b) with
      | false => rfl
      | true =>
        simp only [Bool.and_eq_true, Bool.not_eq_true'] at hc
        obtain ⟨⟨⟨hla, hlb⟩, hbn⟩, hbz⟩ := hc
        rw [refA2_atoms _ a b hla hlb] at h
        have han : a.isNum = true := by
          cases a <;> simp_all [scalarDiv, toF, Val.isNum]
        simp [han, hbn, hbz] at hz
    simp only [hno, hs, Bool.false_eq_true, if_false, (atomic_dyad_correct scalarDiv).1 a b, h]

/-- **power_correct**: integer base, non-negative integer exponent, |a^b| ≤ 2^53, through any
    nesting depth -/
theorem power_correct (a b v : Val) (h : refDyad "^" a b = some v) (hs : ufuncSkip a b = false) :
    implDyad "^" a b = .ok v := by
  simp only [refDyad, refPower] at h
  split at h
  · simp at h
  simp only [implDyad, implPower, hs, Bool.false_eq_true, if_false, (atomic_dyad_correct scalarPow).1 a b, h]

theorem scalarPow_value (a b : Int) (v : Val) (h : scalarPow (.int a) (.int b) = some v) :
    0 ≤ b ∧ v = .int (a ^ b.toNat) := by
  simp only [scalarPow] at h
  split at h
  · simp at h
  · split at h
    · simp only [Option.some.injEq] at h
      exact ⟨by omega, h.symm⟩
    · simp at h

/-! ## Reciprocal -/

mutual
theorem refA2_left_atom (f : Val → Val → Option Val) (c : Int) :
    ∀ a : Val, refA2 f (.int c) a = refA1 (f (.int c)) a
  | .list xs => by simp [refA2, refA1, refMapR_left_atom f c xs]
  | .int _ => by simp [refA2, refA1]
  | .real _ => by simp [refA2, refA1]
  | .chr _ => by simp [refA2, refA1]
  | .sym _ => by simp [refA2, refA1]
  | .str _ => by simp [refA2, refA1]
  | .dict _ => by simp [refA2, refA1]
  | .undef => by simp [refA2, refA1]
theorem refMapR_left_atom (f : Val → Val → Option Val) (c : Int) :
    ∀ xs : List Val, refMapR f (.int c) xs = refMap1 (f (.int c)) xs
  | [] => by simp [refMapR, refMap1]
  | x :: xs => by simp [refMapR, refMap1, refA2_left_atom f c x, refMapR_left_atom f c xs]
end

/-- **reciprocal_correct**: `%a` is `1%a`, through any nesting depth; `%0` is :undefined -/
theorem reciprocal_correct (a v : Val) (h : refMonad "%" a = some v) (hs : Ext1.hasObjRank2 a = false) :
    implMonad "%" a = .ok v := by
  simp only [refMonad, refRecip, refDivide] at h
  simp only [implMonad, implRecip]
  have h1 : (Val.int 1).isNum = true := rfl
  simp only [h1, Bool.true_and] at h
  split at h
  · simp at h
  split at h
  · rename_i hz
    simp only [Bool.and_eq_true] at hz
    simp only [Option.some.injEq] at h
    subst h
    simp [isNum_notList hz.1, hz.1, hz.2]
  · rename_i hz
    have hno : (!isListV a && a.isNum && isZeroNum a) = false := by
      cases hc : (!isListV a && a.isNum && isZeroNum a) with
      | false => rfl
      | true =>
        simp only [Bool.and_eq_true] at hc
        simp [hc.1.2, hc.2] at hz
    rw [refA2_left_atom] at h
    have hre : recipAtom = scalarDiv (.int 1) := by funext x; rfl
    simp only [hno, hs, Bool.false_eq_true, if_false, hre, h]

/-! ## Char -/

mutual
theorem implCharRec_eq : ∀ a : Val, hasEmptyList a = false → implCharRec a = refA1 chrAtom a
  | .list [], h => by simp [hasEmptyList] at h
  | .list (x :: xs), h => by
    simp only [hasEmptyList] at h
    simp only [implCharRec, refA1, implCharL_eq (x :: xs) (by simpa [hasEmptyListL] using h)]
  | .int _, _ => by simp [implCharRec, refA1]
  | .real _, _ => by simp [implCharRec, refA1]
  | .chr _, _ => by simp [implCharRec, refA1]
  | .sym _, _ => by simp [implCharRec, refA1]
  | .str _, _ => by simp [implCharRec, refA1]
  | .dict _, _ => by simp [implCharRec, refA1]
  | .undef, _ => by simp [implCharRec, refA1]
theorem implCharL_eq : ∀ xs : List Val, hasEmptyListL xs = false → implCharL xs = refMap1 chrAtom xs
  | [], _ => by simp [implCharL, refMap1]
  | x :: xs, h => by
    simp only [hasEmptyListL, Bool.or_eq_false_iff] at h
    simp only [implCharL, refMap1, implCharRec_eq x h.1, implCharL_eq xs h.2]
    cases refA1 chrAtom x <;> cases refMap1 chrAtom xs <;> rfl
end

/-- **char_correct**: Char through any nesting depth (no `[]` inside: there `rec_fn` calls
    `chr(array([]))`, witness `char_empty_witness`) -/
theorem char_correct (a v : Val) (h : refMonad ":#" a = some v) (hs : Ext1.hasObjRank2 a = false) :
    implMonad ":#" a = .ok v := by
  simp only [refMonad, refChar] at h
  split at h
  · simp at h
  · rename_i he
    simp only [Bool.not_eq_true] at he
    simp [implMonad, implChar, hs, implCharRec_eq a he, h, lift]

/-! ## Undefined -/

/-- **undefined_correct** -/
theorem undefined_correct (a v : Val) (h : refMonad ":_" a = some v) : implMonad ":_" a = .ok v := by
  cases a <;> simp_all [refMonad, implMonad, refUndefined, implUndefined]


/-! ## Format -/

/- no list anywhere in the value is re-packed by `kg_asarray` with broadcasting -/
mutual
def clashFree : Val → Bool
  | .list xs => !Ext1.objArrayClash xs && clashFreeL xs
  | _ => true
def clashFreeL : List Val → Bool
  | [] => true
  | x :: xs => clashFree x && clashFreeL xs
end

/-- a regular numeric nest with a zero dimension holds `[]` -/
theorem numShape_zero_hasEmpty : ∀ (a : Val) (s : List Nat), numShape a = some s → 0 ∈ s → hasEmptyList a = true
  | .list [], _, _, _ => by simp [hasEmptyList]
  | .list (x :: xs), s, h, h0 => by
    obtain ⟨t, ht, hel⟩ := numShape_elems (x :: xs) s h (by simp)
    subst ht
    simp only [List.length_cons, List.mem_cons] at h0
    rcases h0 with h0 | h0
    · omega
    · simp [hasEmptyList, numShape_zero_hasEmpty x t (hel x (by simp)) h0]
  | .int _, s, h, h0 => by simp [numShape] at h; subst h; simp at h0
  | .real _, s, h, h0 => by simp [numShape] at h; subst h; simp at h0
  | .chr _, _, h, _ => by simp [numShape] at h
  | .sym _, _, h, _ => by simp [numShape] at h
  | .str _, _, h, _ => by simp [numShape] at h
  | .dict _, _, h, _ => by simp [numShape] at h
  | .undef, _, h, _ => by simp [numShape] at h

theorem zeroSized_false {a : Val} (h : hasEmptyList a = false) : zeroSized a = false := by
  unfold zeroSized
  cases hs : numShape a with
  | none => rfl
  | some s =>
    cases hc : s.contains 0 with
    | false => simpa using hc
    | true =>
      have := numShape_zero_hasEmpty a s hs (by simpa using hc)
      simp [this] at h

mutual
theorem implFormatRec_eq : ∀ (a v : Val), hasEmptyList a = false → clashFree v = true →
    refA1 fmtAtom a = some v → implFormatRec a = .ok v
  | .list [], v, he, _, _ => by simp [hasEmptyList] at he
  | .list (x :: xs), v, he, hc, h => by
    simp only [refA1, Option.map_eq_some_iff] at h
    obtain ⟨vs, hvs, rfl⟩ := h
    simp only [clashFree, Bool.and_eq_true, Bool.not_eq_true'] at hc
    have hel : hasEmptyListL (x :: xs) = false := by simpa [hasEmptyList, hasEmptyListL] using he
    simp [implFormatRec, zeroSized_false he, implFormatL_eq (x :: xs) vs hel hc.2 hvs, repackText, hc.1]
  | .int _, v, _, _, h => by simp_all [implFormatRec, refA1]
  | .real _, v, _, _, h => by simp [refA1, fmtAtom] at h
  | .chr _, v, _, _, h => by simp_all [implFormatRec, refA1]
  | .sym _, v, _, _, h => by simp_all [implFormatRec, refA1]
  | .str _, v, _, _, h => by simp_all [implFormatRec, refA1]
  | .dict _, v, _, _, h => by simp [refA1, fmtAtom] at h
  | .undef, v, _, _, h => by simp [refA1, fmtAtom] at h
theorem implFormatL_eq : ∀ (xs vs : List Val), hasEmptyListL xs = false → clashFreeL vs = true →
    refMap1 fmtAtom xs = some vs → implFormatL xs = .ok (.list vs)
  | [], vs, _, _, h => by simp [refMap1] at h; subst h; simp [implFormatL]
  | x :: xs, vs, he, hc, h => by
    simp only [hasEmptyListL, Bool.or_eq_false_iff] at he
    simp only [refMap1] at h
    cases hx : refA1 fmtAtom x with
    | none => simp [hx] at h
    | some r =>
      cases hxs : refMap1 fmtAtom xs with
      | none => simp [hx, hxs] at h
      | some rs =>
        simp [hx, hxs] at h
        subst h
        simp only [clashFreeL, Bool.and_eq_true] at hc
        simp [implFormatL, implFormatRec_eq x r he.1 hc.1 hx, implFormatL_eq xs rs he.2 hc.2 hxs]
end

/-- **format_correct**: Format of integers, characters, strings and symbols through any nesting
    depth and any mixture of numeric and object arrays (`rec_fn` formats every member) -/
theorem format_correct (a v : Val) (h : refMonad "$" a = some v) (hs : Ext1.notStored a = false)
    (hc : clashFree v = true) : implMonad "$" a = .ok v := by
  simp only [refMonad, refFormat] at h
  split at h
  · simp at h
  · rename_i he
    simp only [Bool.not_eq_true] at he
    simp [implMonad, implFormat, hs, implFormatRec_eq a v he hc h]

/-! ## Form (atoms) -/

theorem parseNat_some {s : List Nat} {n : Nat} (h : parseNat s = some n) :
    s ≠ [] ∧ s.all isDigit = true := by
  simp only [parseNat] at h
  split at h
  · rename_i hc
    simp only [Bool.and_eq_true, Bool.not_eq_true', List.isEmpty_eq_false_iff] at hc
    exact hc
  · simp at h

theorem digits_no_dot {s : List Nat} (h : s.all isDigit = true) : ¬ 46 ∈ s := by
  intro hm
  have := (List.all_eq_true.mp h) 46 hm
  simp [isDigit] at this

theorem parseInt_some {s : List Nat} {n : Int} (h : parseInt s = some n) :
    s.isEmpty = false ∧ ¬ 46 ∈ s := by
  unfold parseInt at h
  split at h
  · rename_i r
    cases hm : parseNat r with
    | none => simp [hm] at h
    | some m =>
      obtain ⟨_, hd⟩ := parseNat_some hm
      have := digits_no_dot hd
      simp [this]
  · cases hm : parseNat s with
    | none => simp [hm] at h
    | some m =>
      obtain ⟨hne, hd⟩ := parseNat_some hm
      exact ⟨by simpa using hne, digits_no_dot hd⟩

theorem mem_of_dropWhile_cons {p : Nat → Bool} {body fp : List Nat} {c : Nat}
    (h : body.dropWhile p = c :: fp) : c ∈ body :=
  (List.dropWhile_sublist p).subset (by rw [h]; simp)

/-- a real literal holds a "." -/
theorem isRealLit_dot {s : List Nat} (h : isRealLit s = true) : 46 ∈ s := by
  simp only [isRealLit] at h
  split at h
  · rename_i fp hdw
    have hm := mem_of_dropWhile_cons hdw
    split at hm
    · simp [hm]
    · exact hm
  · simp at h

theorem isRealLit_nonempty {s : List Nat} (h : isRealLit s = true) : s.isEmpty = false := by
  cases s with
  | nil => simp [isRealLit] at h
  | cons _ _ => rfl


theorem dropWhile_id {p : Nat → Bool} : ∀ (s : List Nat), (∀ c ∈ s, p c = false) → s.dropWhile p = s
  | [], _ => rfl
  | c :: t, h => by simp [List.dropWhile, h c (by simp)]

theorem stripWs_id (s : List Nat) (h : ∀ c ∈ s, isWs c = false) : stripWs s = s := by
  unfold stripWs
  rw [dropWhile_id s h, dropWhile_id s.reverse (by intro c hc; exact h c (List.mem_reverse.mp hc))]
  simp

theorem mem_stripWs {s : List Nat} {c : Nat} (h : c ∈ stripWs s) : c ∈ s := by
  unfold stripWs at h
  have h1 := List.mem_reverse.mp h
  have h2 := (List.dropWhile_sublist isWs).subset h1
  have h3 := List.mem_reverse.mp h2
  exact (List.dropWhile_sublist isWs).subset h3

theorem digit_not_ws {c : Nat} (h : isDigit c = true) : isWs c = false := by
  simp only [isDigit, Bool.and_eq_true, decide_eq_true_eq] at h
  simp only [isWs, Bool.or_eq_false_iff, Bool.and_eq_false_iff, decide_eq_false_iff_not]
  omega

theorem digit_ascii {c : Nat} (h : isDigit c = true) : c < 128 := by
  simp only [isDigit, Bool.and_eq_true, decide_eq_true_eq] at h
  omega

theorem pyDigits_digits : ∀ (s : List Nat), s ≠ [] → s.all isDigit = true → pyDigits s = some s
  | [], h, _ => (h rfl).elim
  | [c], _, h => by simp_all [pyDigits]
  | c :: d :: r, _, h => by
    simp only [List.all_cons, Bool.and_eq_true] at h
    have hd : d ≠ 95 := by
      intro e; subst e; simp [isDigit] at h
    have ih := pyDigits_digits (d :: r) (by simp) (by simp [h.2.1, h.2.2])
    rw [pyDigits]
    · simp [h.1, ih]
    · intro e
      exact hd e

theorem pyDigits_head {c : Nat} {t : List Nat} (h : isDigit c = false) : pyDigits (c :: t) = none := by
  cases t with
  | nil => simp [pyDigits, h]
  | cons d r =>
    by_cases e : d = 95
    · subst e; simp [pyDigits, h]
    · rw [pyDigits]
      · simp [h]
      · intro e'
        exact e e'

theorem pyDigits_noDigit (r : List Nat) (h : ∀ c ∈ r, isDigit c = false) : pyDigits r = none := by
  cases r with
  | nil => rfl
  | cons c t => exact pyDigits_head (h c (by simp))

/-- Python's `int()` accepts what the reference calls an integer, with the same value -/
theorem pyInt_parseInt {s : List Nat} {n : Int} (h : parseInt s = some n) :
    pyInt s = some n ∧ s.all (fun c => decide (c < 128)) = true := by
  unfold parseInt at h
  split at h
  · rename_i r
    cases hm : parseNat r with
    | none => simp [hm] at h
    | some m =>
      obtain ⟨hne, hd⟩ := parseNat_some hm
      have hv : m = digitsVal r 0 := by
        simp only [parseNat] at hm
        split at hm
        · simpa using hm.symm
        · simp at hm
      simp only [hm] at h
      have hws : ∀ c ∈ (45 :: r), isWs c = false := by
        intro c hc
        rcases List.mem_cons.mp hc with rfl | hc
        · decide
        · exact digit_not_ws ((List.all_eq_true.mp hd) c hc)
      constructor
      · unfold pyInt
        rw [stripWs_id _ hws]
        simp [pyDigits_digits r hne hd, ← h, hv]
      · simp only [List.all_cons, Bool.and_eq_true, decide_eq_true_eq, List.all_eq_true]
        exact ⟨by omega, fun c hc => digit_ascii ((List.all_eq_true.mp hd) c hc)⟩
  · rename_i hnot
    cases hm : parseNat s with
    | none => simp [hm] at h
    | some m =>
      obtain ⟨hne, hd⟩ := parseNat_some hm
      have hv : m = digitsVal s 0 := by
        simp only [parseNat] at hm
        split at hm
        · simpa using hm.symm
        · simp at hm
      simp only [hm] at h
      have hws : ∀ c ∈ s, isWs c = false := fun c hc => digit_not_ws ((List.all_eq_true.mp hd) c hc)
      constructor
      · unfold pyInt
        rw [stripWs_id _ hws]
        cases s with
        | nil => exact (hne rfl).elim
        | cons c t =>
          have hc : isDigit c = true := (List.all_eq_true.mp hd) c (by simp)
          have h45 : c ≠ 45 := by intro e; subst e; simp [isDigit] at hc
          have h43 : c ≠ 43 := by intro e; subst e; simp [isDigit] at hc
          split
          · rename_i r' e; simp only [List.cons.injEq] at e; exact (h45 e.1).elim
          · rename_i r' e; simp only [List.cons.injEq] at e; exact (h43 e.1).elim
          · simp [pyDigits_digits (c :: t) hne hd, ← h, hv]
      · simp only [List.all_eq_true, decide_eq_true_eq]
        exact fun c hc => digit_ascii ((List.all_eq_true.mp hd) c hc)

/-- Python's `int()` refuses a text without digits -/
theorem pyInt_noDigit {s : List Nat} (h : noDigitAscii s = true) : pyInt s = none := by
  have hnd : ∀ c ∈ stripWs s, isDigit c = false := by
    intro c hc
    have := (List.all_eq_true.mp h) c (mem_stripWs hc)
    simp only [Bool.and_eq_true, Bool.not_eq_true'] at this
    exact this.2
  unfold pyInt
  split
  · rename_i r e
    rw [pyDigits_noDigit r (fun c hc => hnd c (by rw [e]; simp [hc]))]; rfl
  · rename_i r e
    rw [pyDigits_noDigit r (fun c hc => hnd c (by rw [e]; simp [hc]))]; rfl
  · rw [pyDigits_noDigit _ hnd]; rfl

/-- **form_atom_correct**: Form of a string against an integer, character, string or symbol
    template (atoms): the converted value, or :undefined where the text is no notation of the kind -/
theorem form_atom_correct (a b v : Val) (ha : isListV a = false) (hb : isListV b = false)
    (h : refDyad ":$" a b = some v) : implDyad ":$" a b = .ok v := by
  simp only [refDyad, refForm] at h
  split at h
  · simp at h
  · rw [refA2_atoms _ a b ha hb] at h
    have hsa : Ext1.notStored a = false := by
      cases a <;> simp_all [isListV, Ext1.notStored, Ext1.mixedStored, Ext1.hasObjRank2]
    have hsb : Ext1.notStored b = false := by
      cases b <;> simp_all [isListV, Ext1.notStored, Ext1.mixedStored, Ext1.hasObjRank2]
    have hda : depthV a = 0 := by cases a <;> simp_all [isListV, depthV]
    have hdb : depthV b = 0 := by cases b <;> simp_all [isListV, depthV]
    simp only [implDyad, implForm, hsa, hsb, Bool.or_self, Bool.false_eq_true, if_false, hda, hdb]
    cases a with
    | int n =>
      cases b with
      | str s =>
        simp only [formAtom] at h
        simp only [formRec, formAtomImpl]
        cases hp : parseInt s with
        | some k =>
          simp only [hp, Option.some.injEq] at h
          subst h
          obtain ⟨h1, h2⟩ := parseInt_some hp
          obtain ⟨h3, h4⟩ := pyInt_parseInt hp
          simp [h1, h2, h3, h4]
        | none =>
          simp only [hp] at h
          split at h
          · rename_i hc
            simp only [Option.some.injEq] at h
            subst h
            cases hemp : s.isEmpty with
            | true => simp
            | false =>
              by_cases hdot : 46 ∈ s
              · simp [hdot]
              · have hnr : isRealLit s = false := by
                  cases hr : isRealLit s with
                  | false => rfl
                  | true => exact (hdot (isRealLit_dot hr)).elim
                simp only [hnr, Bool.false_or] at hc
                have hasc : s.all (fun c => decide (c < 128)) = true := by
                  simp only [List.all_eq_true, decide_eq_true_eq]
                  intro c hcm
                  have := (List.all_eq_true.mp hc) c hcm
                  simp only [Bool.and_eq_true, decide_eq_true_eq] at this
                  exact this.1
                simp [hdot, hasc, pyInt_noDigit hc]
          · simp at h
      | _ => simp [formAtom] at h
    | chr c =>
      cases b with
      | str s =>
        simp only [formAtom] at h
        simp only [formRec, formAtomImpl]
        cases s with
        | nil => simp_all
        | cons c1 r =>
          cases r with
          | nil => simp_all
          | cons _ _ => simp_all
      | _ => simp [formAtom] at h
    | str t =>
      cases b with
      | str s =>
        simp only [formAtom, Option.some.injEq] at h
        subst h
        simp [formRec, formAtomImpl]
      | _ => simp [formAtom] at h
    | sym t =>
      cases b with
      | str s =>
        simp only [formAtom] at h
        simp only [formRec, formAtomImpl]
        split at h
        · simp_all
        · split at h
          · simp_all
          · simp at h
      | _ => simp [formAtom] at h
    | _ => simp [formAtom] at h


/-! ## witnesses (all `by decide`): the manual's examples, and what the code does where it
    deviates from the manual or where the reference is silent -/

/-- the reference defines exactly `v` -/
def optIs (o : Option Val) (v : Val) : Bool :=
  match o with
  | some w => w == v
  | none => false

private def i (n : Int) : Val := .int n
private def l (xs : List Val) : Val := .list xs

/-- Amend: the manual's five examples, reference and model -/
theorem amend_examples_witness :
    optIs (refAmend (.str [45, 45, 45, 45, 45]) (l [.chr 120, i 1, i 3])) (.str [45, 120, 45, 120, 45]) = true ∧
    (implAmend (.str [45, 45, 45, 45, 45]) (l [.chr 120, i 1, i 3])).is (.str [45, 120, 45, 120, 45]) = true ∧
    optIs (refAmend (l [i 1, i 2, i 3]) (l [i 0, i 1])) (l [i 1, i 0, i 3]) = true ∧
    (implAmend (l [i 1, i 2, i 3]) (l [i 0, i 1])).is (l [i 1, i 0, i 3]) = true ∧
    optIs (refAmend (.str [45, 45, 45, 45, 45, 45, 45]) (l [.str [120, 120], i 1, i 4]))
      (.str [45, 120, 120, 45, 120, 120, 45]) = true ∧
    (implAmend (.str [45, 45, 45, 45, 45, 45, 45]) (l [.str [120, 120], i 1, i 4])).is
      (.str [45, 120, 120, 45, 120, 120, 45]) = true ∧
    optIs (refAmend (.str [97, 98, 99]) (l [.str [100, 101, 102], i 3])) (.str [97, 98, 99, 100, 101, 102]) = true ∧
    (implAmend (.str [97, 98, 99]) (l [.str [100, 101, 102], i 3])).is (.str [97, 98, 99, 100, 101, 102]) = true ∧
    optIs (refAmend (.str [97, 97]) (l [.str [98, 99], i 1])) (.str [97, 98, 99]) = true ∧
    (implAmend (.str [97, 97]) (l [.str [98, 99], i 1])).is (.str [97, 98, 99]) = true := by decide

private def half : Val := .real 0x3FE0000000000000      -- 0.5

/-- repaired (12321e2): positions name members of the list, whatever its rank — [[1 2] [3 4]]:=5,1
    is [[1 2] 5]; a value of another kind replaces a member of an integer list — [1 2 3]:=0cx,1 is
    [1 0cx 3] -/
theorem amend_members_witness :
    (implAmend (l [l [i 1, i 2], l [i 3, i 4]]) (l [i 5, i 1])).is (l [l [i 1, i 2], i 5]) = true ∧
    optIs (refAmend (l [l [i 1, i 2], l [i 3, i 4]]) (l [i 5, i 1])) (l [l [i 1, i 2], i 5]) = true ∧
    (implAmend (l [i 1, i 2, i 3]) (l [.chr 120, i 1])).is (l [i 1, .chr 120, i 3]) = true ∧
    optIs (refAmend (l [i 1, i 2, i 3]) (l [.chr 120, i 1])) (l [i 1, .chr 120, i 3]) = true ∧
    (implAmend (l [i 1, i 2, i 3]) (l [.str [97, 98], i 0])).is (l [.str [97, 98], i 2, i 3]) = true ∧
    (implAmend (l [i 1, i 2, i 3]) (l [l [i 9, i 9], i 0, i 2])).is (l [l [i 9, i 9], i 2, l [i 9, i 9]]) = true := by
  decide

/-- repaired (12321e2): the string grows by the required amount — "abcd":="xyz",2 is "abxyz",
    "abc":="d",3 is "abcd" -/
theorem amend_grow_witness :
    (implAmend (.str [97, 98, 99, 100]) (l [.str [120, 121, 122], i 2])).is (.str [97, 98, 120, 121, 122]) = true ∧
    optIs (refAmend (.str [97, 98, 99, 100]) (l [.str [120, 121, 122], i 2])) (.str [97, 98, 120, 121, 122]) = true ∧
    (implAmend (.str [97, 98, 99]) (l [.str [100], i 3])).is (.str [97, 98, 99, 100]) = true ∧
    optIs (refAmend (.str [97, 98, 99]) (l [.str [100], i 3])) (.str [97, 98, 99, 100]) = true := by decide

/-- remaining deviation (kind only): an integer put into a float64 array comes back real —
    [0.5]:=0,0 is [0.0], the manual's "replaced by b1" gives [0]; likewise [0.5]:-42,0 -/
theorem amend_kind_witness :
    (match implAmend (l [half]) (l [i 0, i 0]) with | .ok (.list [.real _]) => true | _ => false) = true ∧
    optIs (refAmend (l [half]) (l [i 0, i 0])) (l [i 0]) = true ∧
    amendValueOk (l [half]) (i 0) = false ∧
    (match implAmendDepth (l [half]) (l [i 42, i 0]) with | .ok (.list [.real _]) => true | _ => false) = true ∧
    optIs (refAmendDepth (l [half]) (l [i 42, i 0])) (l [i 42]) = true := by decide

/-- outside the reference: indices beyond the end raise, negative indices count from the end,
    overlapping substrings are replaced one after the other, an empty `b` returns `a` -/
theorem amend_outside_witness :
    (refAmend (l [i 1, i 2, i 3]) (l [i 0, i 3])).isNone = true ∧
    Ext1.Res.isErr (implAmend (l [i 1, i 2, i 3]) (l [i 0, i 3])) = true ∧
    (refAmend (l [i 1, i 2, i 3]) (l [i 0, i (-1)])).isNone = true ∧
    (implAmend (l [i 1, i 2, i 3]) (l [i 0, i (-1)])).is (l [i 1, i 2, i 0]) = true ∧
    (refAmend (.str [97, 98, 99]) (l [.str [100, 101], i 4])).isNone = true ∧
    Ext1.Res.isErr (implAmend (.str [97, 98, 99]) (l [.str [100, 101], i 4])) = true ∧
    (implAmend (.str [97, 98, 99]) (l [.str [100, 101], i (-1)])).is (.str [97, 98, 100, 101]) = true ∧
    (refAmend (.str [97, 98, 99]) (l [.str [100, 101], i 1, i 2])).isNone = true ∧
    (implAmend (.str [97, 98, 99]) (l [.str [100, 101], i 1, i 2])).is (.str [97, 100, 100, 101]) = true ∧
    (implAmend (l [i 1, i 2, i 3]) (l [])).is (l [i 1, i 2, i 3]) = true := by decide

/-- Amend-in-Depth / Index-in-Depth: the manual's examples -/
theorem depth_examples_witness :
    optIs (refAmendDepth (l [l [i 1, i 2], l [i 3, i 4]]) (l [i 42, i 0, i 1])) (l [l [i 1, i 42], l [i 3, i 4]]) = true ∧
    (implAmendDepth (l [l [i 1, i 2], l [i 3, i 4]]) (l [i 42, i 0, i 1])).is (l [l [i 1, i 42], l [i 3, i 4]]) = true ∧
    optIs (refAmendDepth (l [l [l [i 0]]]) (l [i 1, i 0, i 0, i 0])) (l [l [l [i 1]]]) = true ∧
    (implAmendDepth (l [l [l [i 0]]]) (l [i 1, i 0, i 0, i 0])).is (l [l [l [i 1]]]) = true ∧
    optIs (refIndexDepth (l [l [i 1, i 2], l [i 3, i 4]]) (l [i 0, i 1])) (i 2) = true ∧
    (implIndexDepth (l [l [i 1, i 2], l [i 3, i 4]]) (l [i 0, i 1])).is (i 2) = true ∧
    optIs (refIndexDepth (l [l [l [i 1]]]) (l [i 0, i 0, i 0])) (i 1) = true ∧
    (implIndexDepth (l [l [l [i 1]]]) (l [i 0, i 0, i 0])).is (i 1) = true ∧
    (implAmendDepth (l [l [i 1, i 2], l [i 3, i 4]]) (l [.str [97], i 0, i 1])).is
      (l [l [i 1, .str [97]], l [i 3, i 4]]) = true := by decide

/-- repaired (187c70d): a value of any kind, with any number of indices — [1 2 3]:-0cx,1 is
    [1 0cx 3], [[1 2] [3 4]]:-[[9] 0 1] is [[1 [9]] [3 4]]; outside the reference: fewer indices
    than dimensions address a sub-array, ragged lists have no rank -/
theorem depth_value_witness :
    (implAmendDepth (l [i 1, i 2, i 3]) (l [.chr 120, i 1])).is (l [i 1, .chr 120, i 3]) = true ∧
    optIs (refAmendDepth (l [i 1, i 2, i 3]) (l [.chr 120, i 1])) (l [i 1, .chr 120, i 3]) = true ∧
    (implAmendDepth (l [l [i 1, i 2], l [i 3, i 4]]) (l [l [i 9], i 0, i 1])).is (l [l [i 1, l [i 9]], l [i 3, i 4]]) = true ∧
    optIs (refAmendDepth (l [l [i 1, i 2], l [i 3, i 4]]) (l [l [i 9], i 0, i 1])) (l [l [i 1, l [i 9]], l [i 3, i 4]]) = true ∧
    pathOk (l [l [i 1, l [i 9]], l [i 3, i 4]]) [0, 1] = true ∧
    (refIndexDepth (l [l [i 1, i 2], l [i 3, i 4]]) (l [i 1])).isNone = true ∧
    (implIndexDepth (l [l [i 1, i 2], l [i 3, i 4]]) (l [i 1])).is (l [i 3, i 4]) = true ∧
    (refIndexDepth (l [l [i 1], l [i 2, i 3]]) (l [i 1, i 0])).isNone = true ∧
    Ext1.Res.isErr (implIndexDepth (l [l [i 1], l [i 2, i 3]]) (l [i 1, i 0])) = true ∧
    (refAmendDepth (l [l [i 1], l [i 2, i 3]]) (l [i 42, i 1, i 0])).isNone = true ∧
    (implAmendDepth (l [l [i 1], l [i 2, i 3]]) (l [i 42, i 1, i 0])).is (l [l [i 1], l [i 42, i 3]]) = true := by decide

/-- remaining deviation (new with 187c70d, same root as join:numpy-repack): `kg_asarray` of the
    rebuilt rows broadcasts a (1,1) member against (1,) members — [[1] [2] [3]]:-[[9] 0 0] is
    [[9] [2] [3]], the manual gives [[[9]] [2] [3]]; the model leaves this class unmodelled
    (`pathOk` false) -/
theorem depth_repack_witness :
    (match implAmendDepth (l [l [i 1], l [i 2], l [i 3]]) (l [l [i 9], i 0, i 0]) with
     | .unmodelled => true | _ => false) = true ∧
    optIs (refAmendDepth (l [l [i 1], l [i 2], l [i 3]]) (l [l [i 9], i 0, i 0]))
      (l [l [l [i 9]], l [i 2], l [i 3]]) = true ∧
    pathOk (l [l [l [i 9]], l [i 2], l [i 3]]) [0, 0] = false := by decide

/-- Divide / Reciprocal / Power: division of atoms by zero is :undefined; integer powers
    (`refA2` / `implA2` are well-founded recursions: the witnesses are on the scalar functions) -/
theorem arith_witness :
    optIs (refDivide (i 1) (i 0)) .undef = true ∧ (implDivide (i 1) (i 0)).is .undef = true ∧
    optIs (refRecip (i 0)) .undef = true ∧ (implRecip (i 0)).is .undef = true ∧
    (scalarDiv (i 10) (i 8)).isSome = true ∧ (scalarDiv (i 8) (i 0)).isNone = true ∧
    optIs (scalarPow (i 2) (i 8)) (i 256) = true ∧ optIs (scalarPow (i 2) (i 0)) (i 1) = true ∧
    optIs (scalarPow (i (-3)) (i 3)) (i (-27)) = true ∧ optIs (scalarPow (i 0) (i 0)) (i 1) = true ∧
    (scalarPow (i 2) (i (-5))).isNone = true ∧ (scalarPow (i 3) (i 40)).isNone = true ∧
    optIs (scalarPow (i 2) (i 53)) (i 9007199254740992) = true := by decide

/-- non-vacuity through a nesting: [1 [2 3]]^2 -/
theorem power_nested_witness :
    refDyad "^" (l [i 1, l [i 2, i 3]]) (i 2) = some (l [i 1, l [i 4, i 9]]) ∧
    ufuncSkip (l [i 1, l [i 2, i 3]]) (i 2) = false := by
  refine ⟨?_, by decide⟩
  simp [refDyad, refPower, numLeaves, numLeavesL, refA2, refMapL, scalarPow, l, i, powBound]

/-- Char: code point 64 is "@" (the manual's example says 0cA: erratum); nested lists;
    `[]` anywhere makes `rec_fn` call `chr(array([]))`: TypeError (the reference is silent on []) -/
theorem char_witness :
    optIs (refChar (i 64)) (.chr 64) = true ∧ (implChar (i 64)).is (.chr 64) = true ∧
    optIs (refChar (l [i 97, l [i 98, i 99]])) (l [.chr 97, l [.chr 98, .chr 99]]) = true ∧
    (implChar (l [i 97, l [i 98, i 99]])).is (l [.chr 97, l [.chr 98, .chr 99]]) = true ∧
    (refChar (i (-1))).isNone = true ∧ Ext1.Res.isErr (implChar (i (-1))) = true ∧
    Ext1.Res.isErr (implChar (l [])) = true ∧ Ext1.Res.isErr (implChar (l [i 97, l []])) = true ∧
    (refChar (l [])).isNone = true := by decide

/-- Format: the manual's examples; repaired (175176c): every member of a numeric array is
    formatted — $[1 2 3] is ["1" "2" "3"]; new defect: a numeric array with rows but no elements
    ([[]], shape (1,0)) still recurses forever (the reference is silent on []) -/
theorem format_witness :
    optIs (refFormat (i 123)) (.str [49, 50, 51]) = true ∧ (implFormat (i 123)).is (.str [49, 50, 51]) = true ∧
    (implFormat (i (-123))).is (.str [45, 49, 50, 51]) = true ∧
    (implFormat (.str [116, 101, 115, 116])).is (.str [116, 101, 115, 116]) = true ∧
    (implFormat (.chr 120)).is (.str [120]) = true ∧
    optIs (refFormat (.sym [102, 111, 111])) (.str [58, 102, 111, 111]) = true ∧
    (implFormat (.sym [102, 111, 111])).is (.str [58, 102, 111, 111]) = true ∧
    (implFormat (l [i 1, .str [97]])).is (l [.str [49], .str [97]]) = true ∧
    (implFormat (l [i 1, i 2, i 3])).is (l [.str [49], .str [50], .str [51]]) = true ∧
    optIs (refFormat (l [i 1, i 2, i 3])) (l [.str [49], .str [50], .str [51]]) = true ∧
    (implFormat (l [.str [97], l [i 1, i 2]])).is (l [.str [97], l [.str [49], .str [50]]]) = true ∧
    (implFormat (l [])).is (l []) = true ∧
    Ext1.Res.isErr (implFormat (l [l []])) = true ∧ (refFormat (l [l []])).isNone = true := by decide

/-- Form: the manual's examples; repaired (22bcc8e, 2fe5617): text that is no number gives
    :undefined — 1:$"abc"; a list of templates extends over one string — [1 2]:$"12" is [12 12];
    outside the reference (Python's int() leniency): " 12", "1_0", "+5" are converted -/
theorem form_witness :
    optIs (formAtom (i 1) (.str [45, 49, 50, 51])) (i (-123)) = true ∧
    (implForm (i 1) (.str [45, 49, 50, 51])).is (i (-123)) = true ∧
    (implForm (.chr 48) (.str [120])).is (.chr 120) = true ∧
    (implForm (.str []) (.str [115, 116])).is (.str [115, 116]) = true ∧
    optIs (formAtom (.sym [120]) (.str [58, 115, 121])) (.sym [115, 121]) = true ∧
    (implForm (.sym [120]) (.str [58, 115, 121])).is (.sym [115, 121]) = true ∧
    (implForm (.sym [120]) (.str [115, 121])).is (.sym [115, 121]) = true ∧
    optIs (formAtom (i 1) (.str [49, 46, 53])) .undef = true ∧ (implForm (i 1) (.str [49, 46, 53])).is .undef = true ∧
    (implForm (.chr 48) (.str [120, 121])).is .undef = true ∧
    optIs (formAtom (i 1) (.str [97, 98, 99])) .undef = true ∧
    (implForm (i 1) (.str [97, 98, 99])).is .undef = true ∧
    (implForm (l [i 1, i 2]) (.str [49, 50])).is (l [i 12, i 12]) = true ∧
    (implForm (l [i 1, .chr 120]) (l [.str [49, 50], .str [121]])).is (l [i 12, .chr 121]) = true ∧
    (formAtom (i 1) (.str [32, 49, 50])).isNone = true ∧ (implForm (i 1) (.str [32, 49, 50])).is (i 12) = true ∧
    (formAtom (i 1) (.str [49, 95, 48])).isNone = true ∧ (implForm (i 1) (.str [49, 95, 48])).is (i 10) = true ∧
    (formAtom (i 1) (.str [43, 53])).isNone = true ∧ (implForm (i 1) (.str [43, 53])).is (i 5) = true ∧
    (implForm (i 1) (.str [49, 95, 95, 48])).is .undef = true ∧
    (implForm (i 1) (.str [49, 101, 53])).is .undef = true := by decide

/-- the reference on the two list cases above: [1 2]:$"12" and [1 0cx]:$["12" "y"] -/
theorem form_list_witness :
    refDyad ":$" (l [i 1, i 2]) (.str [49, 50]) = some (l [i 12, i 12]) ∧
    refDyad ":$" (l [i 1, .chr 120]) (l [.str [49, 50], .str [121]]) = some (l [i 12, .chr 121]) := by
  constructor
  · have p : parseInt [49, 50] = some 12 := by decide
    simp [refDyad, refForm, hasEmptyList, hasEmptyListL, refA2, refMapL, formAtom, l, i, p]
  · have p : parseInt [49, 50] = some 12 := by decide
    simp [refDyad, refForm, hasEmptyList, hasEmptyListL, refA2, refZip, formAtom, l, i, p]

/-- Undefined -/
theorem undefined_witness :
    (implUndefined .undef).is (i 1) = true ∧ (implUndefined (i 1)).is (i 0) = true ∧
    (implUndefined (l [])).is (i 0) = true := by decide


end Klong.C01.Ext3
