/-
  C20 — the JSON text codec: `parse (render v) = some v` (json.loads ∘ json.dumps = id on the
  transported universe), used by the property theorems of Props/C20.lean.
  Helper lemmas only; the property theorems that use them are in Klong/Props/C20.lean.
-/
import Klong.Model.C20
namespace Klong.C20
open Klong.Wire

/-! ## digits -/

theorem digitChar_props : ∀ d : Fin 10,
    (digitChar d.val).toNat = 48 + d.val ∧ isDigit (digitChar d.val) = true := by decide

theorem digitChar_toNat (d : Nat) (h : d < 10) : (digitChar d).toNat = 48 + d :=
  (digitChar_props ⟨d, h⟩).1

theorem isDigit_digitChar (d : Nat) (h : d < 10) : isDigit (digitChar d) = true :=
  (digitChar_props ⟨d, h⟩).2

theorem digitChar_ne_zero : ∀ d : Fin 10, d.val ≠ 0 → digitChar d.val ≠ '0' := by decide

theorem digitsVal_snoc (ds : List Char) (c : Char) :
    digitsVal (ds ++ [c]) = digitsVal ds * 10 + (c.toNat - 48) := by
  simp [digitsVal, List.foldl_append]

theorem natDigitsF_spec (f : Nat) : ∀ n, n < f →
    digitsVal (natDigitsF f n) = n ∧ (natDigitsF f n).all isDigit = true ∧ natDigitsF f n ≠ [] := by
  induction f with
  | zero => intro n h; omega
  | succ f ih =>
    intro n h
    unfold natDigitsF
    by_cases h10 : n < 10
    · simp only [h10, if_true]
      refine ⟨?_, ?_, by simp⟩
      · simp [digitsVal, digitChar_toNat n h10]
      · simp [isDigit_digitChar n h10]
    · simp only [h10, if_false]
      obtain ⟨i1, i2, i3⟩ := ih (n / 10) (by omega)
      refine ⟨?_, ?_, by simp⟩
      · rw [digitsVal_snoc, i1, digitChar_toNat _ (by omega)]; omega
      · simp [List.all_append, i2, isDigit_digitChar (n % 10) (by omega)]

theorem natDigitsF_head (f : Nat) : ∀ n, 1 ≤ n → n < f → (natDigitsF f n).head? ≠ some '0' := by
  induction f with
  | zero => intro n _ h; omega
  | succ f ih =>
    intro n h1 h
    unfold natDigitsF
    by_cases h10 : n < 10
    · simp only [h10, if_true, List.head?_cons]
      intro hc
      exact digitChar_ne_zero ⟨n, h10⟩ (by simp; omega) (by simpa using hc)
    · simp only [h10, if_false]
      have hne := (natDigitsF_spec f (n / 10) (by omega)).2.2
      have := ih (n / 10) (by omega) (by omega)
      cases hx : natDigitsF f (n / 10) with
      | nil => exact absurd hx hne
      | cons a t => rw [hx] at this; simpa using this

theorem leadingZero_false_of_head (ds : List Char) (h : ds.head? ≠ some '0') : leadingZero ds = false := by
  unfold leadingZero
  split
  · simp at h
  · rfl

theorem leadingZero_single (c : Char) : leadingZero [c] = false := by
  unfold leadingZero; split <;> simp_all

theorem natDigits_spec (n : Nat) :
    digitsVal (natDigits n) = n ∧ (natDigits n).all isDigit = true ∧ natDigits n ≠ [] ∧
    leadingZero (natDigits n) = false := by
  obtain ⟨h1, h2, h3⟩ := natDigitsF_spec (n + 1) n (by omega)
  refine ⟨h1, h2, h3, ?_⟩
  by_cases hn : 1 ≤ n
  · exact leadingZero_false_of_head _ (natDigitsF_head (n + 1) n hn (by omega))
  · have : n = 0 := by omega
    subst this
    simp [natDigits, natDigitsF, leadingZero_single]

theorem isDigit_ne_minus (c : Char) (h : isDigit c = true) : c ≠ '-' := by
  intro hc; subst hc; revert h; decide

theorem isNumChar_of_isDigit (c : Char) (h : isDigit c = true) : isNumChar c = true := by
  simp [isNumChar, h]

theorem numOfToken_intDigits (n : Int) : numOfToken (intDigits n) = some (.num n) := by
  obtain ⟨h1, h2, h3, h4⟩ := natDigits_spec n.natAbs
  unfold intDigits
  by_cases hn : n < 0
  · simp only [hn, if_true]
    unfold numOfToken
    have he : (natDigits n.natAbs).isEmpty = false := by
      cases hx : natDigits n.natAbs with
      | nil => exact absurd hx h3
      | cons a t => rfl
    simp only [he, h2, h4, Bool.not_false, Bool.and_self, if_true]
    simp [h1]; omega
  · simp only [hn, if_false]
    cases hx : natDigits n.natAbs with
    | nil => exact absurd hx h3
    | cons a t =>
      rw [hx] at h1 h2 h4
      have ha : a ≠ '-' := isDigit_ne_minus a (by simp [List.all_cons] at h2; exact h2.1)
      unfold numOfToken
      split
      · rename_i ds heq
        cases heq; exact absurd rfl ha
      · simp only [List.isEmpty_cons, Bool.not_false, h2, Bool.and_self, if_true, h4]
        simp [h1]; omega

theorem intDigits_numChars (n : Int) : ∀ c ∈ intDigits n, isNumChar c = true := by
  obtain ⟨_, h2, _, _⟩ := natDigits_spec n.natAbs
  intro c hc
  unfold intDigits at hc
  have hd : ∀ c ∈ natDigits n.natAbs, isNumChar c = true := by
    intro c hc
    exact isNumChar_of_isDigit c (List.all_eq_true.mp h2 c hc)
  split at hc
  · rcases List.mem_cons.mp hc with rfl | hc
    · decide
    · exact hd c hc
  · exact hd c hc

theorem intDigits_ne_nil (n : Int) : intDigits n ≠ [] := by
  obtain ⟨_, _, h3, _⟩ := natDigits_spec n.natAbs
  unfold intDigits; split <;> simp [h3]

/-- what may follow a value: nothing, or a character that cannot continue a number -/
def okRest (rest : List Char) : Prop := ∀ c r, rest = c :: r → isNumChar c = false

theorem takeNum_append (tok rest : List Char) (ht : ∀ c ∈ tok, isNumChar c = true)
    (hr : okRest rest) : takeNum (tok ++ rest) = (tok, rest) := by
  induction tok with
  | nil =>
    cases rest with
    | nil => rfl
    | cons c r => simp [takeNum, hr c r rfl]
  | cons a t ih =>
    have := ih (fun c hc => ht c (by simp [hc]))
    simp [takeNum, ht a (by simp), this]


theorem hexDigitAny_hexChar : ∀ d : Fin 16, hexDigitAny (hexChar d.val) = some d.val := by decide

theorem unhex4_hex4 (n : Nat) (h : n < 65536) :
    ∃ a b c d, hex4 n = [a, b, c, d] ∧ unhex4 a b c d = some n := by
  refine ⟨_, _, _, _, rfl, ?_⟩
  have h1 := hexDigitAny_hexChar ⟨n / 4096 % 16, by omega⟩
  have h2 := hexDigitAny_hexChar ⟨n / 256 % 16, by omega⟩
  have h3 := hexDigitAny_hexChar ⟨n / 16 % 16, by omega⟩
  have h4 := hexDigitAny_hexChar ⟨n % 16, by omega⟩
  simp only at h1 h2 h3 h4
  simp only [unhex4, h1, h2, h3, h4, Option.some.injEq]
  omega

theorem char_range (c : Char) : c.toNat < 55296 ∨ (57343 < c.toNat ∧ c.toNat < 1114112) := by
  have := c.valid
  simpa [UInt32.isValidChar, Nat.isValidChar] using this

/-- one source character: its escape is read back as that character -/
theorem parseStrBody_escChar (c : Char) (f : Nat) (tail : List Char) :
    parseStrBody (f + 1) (escChar c ++ tail) = consStr c (parseStrBody f tail) := by
  unfold escChar
  by_cases h1 : c = '"'
  · subst h1; simp [parseStrBody]
  by_cases h2 : c = '\\'
  · subst h2; simp [parseStrBody]
  by_cases h3 : c = '\n'
  · subst h3; simp [parseStrBody]
  by_cases h4 : c = '\r'
  · subst h4; simp [parseStrBody]
  by_cases h5 : c = '\t'
  · subst h5; simp [parseStrBody]
  by_cases h6 : c = '\x08'
  · subst h6; simp [parseStrBody]
  by_cases h7 : c = '\x0c'
  · subst h7; simp [parseStrBody]
  simp only [h1, h2, h3, h4, h5, h6, h7, if_false]
  by_cases hp : 32 ≤ c.toNat ∧ c.toNat ≤ 126
  · simp only [hp, and_self, if_true, List.singleton_append]
    have : ¬ c.toNat < 32 := by omega
    simp [parseStrBody, h1, h2, this]
  simp only [hp, if_false]
  have hr := char_range c
  by_cases hb : c.toNat < 65536
  · simp only [hb, if_true]
    obtain ⟨a, b, cc, d, he, hu⟩ := unhex4_hex4 c.toNat hb
    rw [he]
    have hs1 : ¬ (55296 ≤ c.toNat ∧ c.toNat < 56320) := by omega
    have hs2 : ¬ (56320 ≤ c.toNat ∧ c.toNat < 57344) := by omega
    simp [parseStrBody, hu, hs1, hs2, Char.ofNat_toNat]
  · simp only [hb, if_false]
    have hhi : 55296 + (c.toNat - 65536) / 1024 < 65536 := by omega
    have hlo : 56320 + (c.toNat - 65536) % 1024 < 65536 := by omega
    obtain ⟨a, b, cc, d, he, hu⟩ := unhex4_hex4 _ hhi
    obtain ⟨a2, b2, c2, d2, he2, hu2⟩ := unhex4_hex4 _ hlo
    rw [he, he2]
    have hs1 : 55296 ≤ 55296 + (c.toNat - 65536) / 1024 ∧ 55296 + (c.toNat - 65536) / 1024 < 56320 := by omega
    have hs2 : 56320 ≤ 56320 + (c.toNat - 65536) % 1024 ∧ 56320 + (c.toNat - 65536) % 1024 < 57344 := by omega
    have hc : 65536 + (c.toNat - 65536) / 1024 * 1024 + (c.toNat - 65536) % 1024 = c.toNat := by omega
    simp [parseStrBody, hu, hu2, hs1, hs2]
    rw [hc, Char.ofNat_toNat]

theorem escChar_length_pos (c : Char) : 1 ≤ (escChar c).length := by
  unfold escChar
  repeat' split
  all_goals simp [hex4]

theorem escChars_length (cs : List Char) : cs.length ≤ (escChars cs).length := by
  induction cs with
  | nil => simp [escChars]
  | cons c t ih => simp [escChars]; have := escChar_length_pos c; omega

/-- a rendered string body followed by the closing quote is read back -/
theorem parseStrBody_escChars (cs : List Char) : ∀ (f : Nat) (rest : List Char), cs.length < f →
    parseStrBody f (escChars cs ++ '"' :: rest) = some (cs, rest) := by
  induction cs with
  | nil =>
    intro f rest h
    cases f with
    | zero => omega
    | succ f => simp [escChars, parseStrBody]
  | cons c t ih =>
    intro f rest h
    cases f with
    | zero => omega
    | succ f =>
      simp only [escChars, List.append_assoc]
      rw [parseStrBody_escChar, ih f rest (by simpa using h)]
      rfl

/-! ## values -/

mutual
/-- real literals are JSON number tokens that are not integers (what `repr(float)` produces) -/
def WF : JVal → Prop
  | .real l => (∀ c ∈ l.toList, isNumChar c = true) ∧ numOfToken l.toList = some (.real l)
  | .arr xs => WFL xs
  | .obj kvs => WFO kvs
  | _ => True
def WFL : List JVal → Prop
  | [] => True
  | v :: t => WF v ∧ WFL t
def WFO : List (String × JVal) → Prop
  | [] => True
  | (_, v) :: t => WF v ∧ WFO t
end

mutual
def sz : JVal → Nat
  | .arr xs => szL xs + 1
  | .obj kvs => szO kvs + 1
  | _ => 1
def szL : List JVal → Nat
  | [] => 0
  | v :: t => sz v + szL t + 1
def szO : List (String × JVal) → Nat
  | [] => 0
  | (_, v) :: t => sz v + szO t + 1
end

theorem numChar_facts (c : Char) (h : isNumChar c = true) :
    isWs c = false ∧ c ≠ '"' ∧ c ≠ '[' ∧ c ≠ '{' ∧ c ≠ 'n' ∧ c ≠ 't' ∧ c ≠ 'f' ∧ c ≠ ']' ∧ c ≠ '}' := by
  refine ⟨?_, ?_, ?_, ?_, ?_, ?_, ?_, ?_, ?_⟩
  · cases hw : isWs c with
    | false => rfl
    | true =>
      simp [isWs] at hw
      rcases hw with ((rfl | rfl) | rfl) | rfl <;> exact absurd h (by decide)
  all_goals (intro hc; subst hc; exact absurd h (by decide))

theorem okRest_of_not_numChar (c : Char) (r : List Char) (h : isNumChar c = false) : okRest (c :: r) := by
  intro c' r' he; cases he; exact h

theorem okRest_nil : okRest [] := by intro c r he; cases he

theorem parseV_numtok (f : Nat) (tok rest : List Char) (v : JVal) (hne : tok ≠ [])
    (ht : ∀ c ∈ tok, isNumChar c = true) (hr : okRest rest) (hv : numOfToken tok = some v) :
    parseV (f + 1) (tok ++ rest) = some (v, rest) := by
  cases tok with
  | nil => exact absurd rfl hne
  | cons a t =>
    have ha := ht a (by simp)
    obtain ⟨hws, h1, h2, h3, h4, h5, h6, _, _⟩ := numChar_facts a ha
    have htk := takeNum_append (a :: t) rest ht hr
    simp only [List.cons_append] at htk ⊢
    simp [parseV, skipWs, hws, h1, h2, h3, h4, h5, h6, ha, htk, hv]

theorem parseStr_rendered (s : String) (rest : List Char) :
    parseStrBody ((escChars s.toList ++ '"' :: rest).length + 1) (escChars s.toList ++ '"' :: rest) =
      some (s.toList, rest) := by
  apply parseStrBody_escChars
  have := escChars_length s.toList
  simp; omega

theorem parseV_space (f : Nat) (cs : List Char) : parseV f (' ' :: cs) = parseV f cs := by
  cases f with
  | zero => simp [parseV]
  | succ f => simp [parseV, skipWs, isWs]

theorem parseElems_space (f : Nat) (cs : List Char) : parseElems f (' ' :: cs) = parseElems f cs := by
  cases f with
  | zero => simp [parseElems]
  | succ f => simp [parseElems, parseV_space]

theorem parseMembers_space (f : Nat) (cs : List Char) : parseMembers f (' ' :: cs) = parseMembers f cs := by
  cases f with
  | zero => simp [parseMembers]
  | succ f => simp [parseMembers, skipWs, isWs]

/-- a rendered value starts with a character that is neither blank nor a closing bracket -/
def HeadOK (cs : List Char) : Prop :=
  ∃ c r, cs = c :: r ∧ isWs c = false ∧ c ≠ ']' ∧ c ≠ '}'

theorem render_head (v : JVal) (hw : WF v) : HeadOK (render v) := by
  cases v with
  | null => exact ⟨'n', _, rfl, by decide, by decide, by decide⟩
  | bool b => cases b <;> exact ⟨_, _, rfl, by decide, by decide, by decide⟩
  | num n =>
    simp only [render]
    cases hx : intDigits n with
    | nil => exact absurd hx (intDigits_ne_nil n)
    | cons a t =>
      have ha := intDigits_numChars n a (by simp [hx])
      obtain ⟨hws, _, _, _, _, _, _, h7, h8⟩ := numChar_facts a ha
      exact ⟨a, t, rfl, hws, h7, h8⟩
  | real l =>
    simp only [WF] at hw
    simp only [render]
    cases hx : l.toList with
    | nil => rw [hx] at hw; simp [numOfToken, validNum] at hw
    | cons a t =>
      have ha := hw.1 a (by simp [hx])
      obtain ⟨hws, _, _, _, _, _, _, h7, h8⟩ := numChar_facts a ha
      exact ⟨a, t, rfl, hws, h7, h8⟩
  | str s => exact ⟨'"', _, rfl, by decide, by decide, by decide⟩
  | arr xs => exact ⟨'[', _, rfl, by decide, by decide, by decide⟩
  | obj kvs => exact ⟨'{', _, rfl, by decide, by decide, by decide⟩

theorem skipWs_head (cs : List Char) (h : HeadOK cs) : skipWs cs = cs := by
  obtain ⟨c, r, rfl, hws, _, _⟩ := h
  simp [skipWs, hws]

theorem headOK_append (a b : List Char) (h : HeadOK a) : HeadOK (a ++ b) := by
  obtain ⟨c, r, rfl, h1, h2, h3⟩ := h
  exact ⟨c, r ++ b, rfl, h1, h2, h3⟩

theorem renderElems_cons (v : JVal) (t : List JVal) :
    ∃ more, renderElems (v :: t) = render v ++ more := by
  cases t with
  | nil => exact ⟨[], by simp [renderElems]⟩
  | cons w t => exact ⟨',' :: ' ' :: renderElems (w :: t), by simp only [renderElems]⟩

theorem renderMembers_cons (k : String) (v : JVal) (t : List (String × JVal)) :
    ∃ more, renderMembers ((k, v) :: t) = '"' :: more := by
  cases t with
  | nil => exact ⟨_, by simp only [renderMembers, renderStr, List.cons_append]; rfl⟩
  | cons p t =>
    obtain ⟨k2, v2⟩ := p
    exact ⟨_, by simp only [renderMembers, renderStr, List.cons_append]; rfl⟩

theorem parseV_quote (f : Nat) (r : List Char) (s r' : List Char)
    (h : parseStrBody (r.length + 1) r = some (s, r')) :
    parseV (f + 1) ('"' :: r) = some (.str (String.ofList s), r') := by
  simp [parseV, skipWs, isWs, h]

theorem parseV_arr_ne (f : Nat) (c : Char) (r0 : List Char) (xs : List JVal) (r' : List Char)
    (hws : isWs c = false) (hc : c ≠ ']') (h : parseElems f (c :: r0) = some (xs, r')) :
    parseV (f + 1) ('[' :: c :: r0) = some (.arr xs, r') := by
  have h0 : isWs '[' = false := by decide
  simp [parseV, skipWs, h0, hws, hc, h]

theorem parseV_obj_ne (f : Nat) (c : Char) (r0 : List Char) (kvs : List (String × JVal))
    (r' : List Char) (hws : isWs c = false) (hc : c ≠ '}')
    (h : parseMembers f (c :: r0) = some (kvs, r')) :
    parseV (f + 1) ('{' :: c :: r0) = some (.obj kvs, r') := by
  have h0 : isWs '{' = false := by decide
  simp [parseV, skipWs, h0, hws, hc, h]

theorem parseMembers_last (f : Nat) (r k r2 r4 : List Char) (v : JVal)
    (hk : parseStrBody (r.length + 1) r = some (k, ':' :: ' ' :: r2))
    (hv : parseV f r2 = some (v, '}' :: r4)) :
    parseMembers (f + 1) ('"' :: r) = some ([(String.ofList k, v)], r4) := by
  simp [parseMembers, skipWs, isWs, hk, parseV_space, hv]

theorem parseMembers_more (f : Nat) (r k r2 r4 r5 : List Char) (v : JVal)
    (kvs : List (String × JVal))
    (hk : parseStrBody (r.length + 1) r = some (k, ':' :: ' ' :: r2))
    (hv : parseV f r2 = some (v, ',' :: ' ' :: r4))
    (hm : parseMembers f r4 = some (kvs, r5)) :
    parseMembers (f + 1) ('"' :: r) = some ((String.ofList k, v) :: kvs, r5) := by
  simp [parseMembers, skipWs, isWs, hk, parseV_space, hv, parseMembers_space, hm]

mutual
theorem parseV_render : ∀ (v : JVal), WF v → ∀ (f : Nat) (rest : List Char), sz v < f → okRest rest →
    parseV f (render v ++ rest) = some (v, rest)
  | .null, _, f, rest, hf, _ => by
    cases f with
    | zero => omega
    | succ f => simp [parseV, render, skipWs, isWs]
  | .bool true, _, f, rest, hf, _ => by
    cases f with
    | zero => omega
    | succ f => simp [parseV, render, skipWs, isWs]
  | .bool false, _, f, rest, hf, _ => by
    cases f with
    | zero => omega
    | succ f => simp [parseV, render, skipWs, isWs]
  | .num n, _, f, rest, hf, hr => by
    cases f with
    | zero => omega
    | succ f =>
      simp only [render]
      exact parseV_numtok f _ rest _ (intDigits_ne_nil n) (intDigits_numChars n) hr (numOfToken_intDigits n)
  | .real l, hw, f, rest, hf, hr => by
    cases f with
    | zero => omega
    | succ f =>
      simp only [WF] at hw
      simp only [render]
      have hne : l.toList ≠ [] := by
        intro h; rw [h] at hw; simp [numOfToken, validNum] at hw
      exact parseV_numtok f _ rest _ hne hw.1 hr hw.2
  | .str s, _, f, rest, hf, _ => by
    cases f with
    | zero => omega
    | succ f =>
      simp only [render, renderStr, List.cons_append, List.append_assoc,
        List.nil_append]
      rw [parseV_quote f _ _ _ (parseStr_rendered s rest), String.ofList_toList]
  | .arr [], _, f, rest, hf, _ => by
    cases f with
    | zero => omega
    | succ f => simp [parseV, render, renderElems, skipWs, isWs]
  | .arr (v :: t), hw, f, rest, hf, hr => by
    cases f with
    | zero => omega
    | succ f =>
      simp only [WF, WFL] at hw
      have hE := parseElems_render (v :: t) (by simp) (by simpa [WFL] using hw) f rest
        (by simp only [sz] at hf; omega)
      obtain ⟨more, hm⟩ := renderElems_cons v t
      have hh : HeadOK (renderElems (v :: t) ++ ']' :: rest) := by
        rw [hm, List.append_assoc]; exact headOK_append _ _ (render_head v hw.1)
      obtain ⟨c, r, hc, hws, h1, _⟩ := hh
      simp only [render, List.cons_append, List.append_assoc, List.nil_append]
      rw [hc] at hE ⊢
      exact parseV_arr_ne f c r _ _ hws h1 hE
  | .obj [], _, f, rest, hf, _ => by
    cases f with
    | zero => omega
    | succ f => simp [parseV, render, renderMembers, skipWs, isWs]
  | .obj ((k, v) :: t), hw, f, rest, hf, hr => by
    cases f with
    | zero => omega
    | succ f =>
      simp only [WF] at hw
      have hE := parseMembers_render ((k, v) :: t) (by simp) hw f rest
        (by simp only [sz] at hf; omega)
      obtain ⟨more, hm⟩ := renderMembers_cons k v t
      simp only [render, List.cons_append, List.append_assoc, List.nil_append]
      have hc : renderMembers ((k, v) :: t) ++ '}' :: rest = '"' :: (more ++ '}' :: rest) := by
        rw [hm]; rfl
      rw [hc] at hE ⊢
      exact parseV_obj_ne f '"' _ _ _ (by decide) (by decide) hE
theorem parseElems_render : ∀ (xs : List JVal), xs ≠ [] → WFL xs → ∀ (f : Nat) (rest : List Char),
    szL xs < f → parseElems f (renderElems xs ++ ']' :: rest) = some (xs, rest)
  | [], h, _, _, _, _ => absurd rfl h
  | [v], _, hw, f, rest, hf => by
    cases f with
    | zero => omega
    | succ f =>
      simp only [WFL] at hw
      have hV := parseV_render v hw.1 f (']' :: rest) (by simp only [szL] at hf; omega)
        (okRest_of_not_numChar _ _ (by decide))
      simp [parseElems, renderElems, hV, skipWs, isWs]
  | v :: w :: t, _, hw, f, rest, hf => by
    cases f with
    | zero => omega
    | succ f =>
      simp only [WFL] at hw
      have hV := parseV_render v hw.1 f (',' :: ' ' :: (renderElems (w :: t) ++ ']' :: rest))
        (by simp only [szL] at hf; omega) (okRest_of_not_numChar _ _ (by decide))
      have hE := parseElems_render (w :: t) (by simp) (by simpa [WFL] using hw.2) f rest
        (by simp only [szL] at hf ⊢; omega)
      simp only [renderElems, List.append_assoc, List.cons_append]
      simp [parseElems, hV, skipWs, isWs, parseElems_space, hE]
theorem parseMembers_render : ∀ (kvs : List (String × JVal)), kvs ≠ [] → WFO kvs →
    ∀ (f : Nat) (rest : List Char), szO kvs < f →
    parseMembers f (renderMembers kvs ++ '}' :: rest) = some (kvs, rest)
  | [], h, _, _, _, _ => absurd rfl h
  | [(k, v)], _, hw, f, rest, hf => by
    cases f with
    | zero => omega
    | succ f =>
      simp only [WFO] at hw
      have hV := parseV_render v hw.1 f ('}' :: rest) (by simp only [szO] at hf; omega)
        (okRest_of_not_numChar _ _ (by decide))
      simp only [renderMembers, renderStr, List.cons_append, List.append_assoc,
        List.nil_append]
      rw [parseMembers_last f _ _ _ _ v (parseStr_rendered k _) hV, String.ofList_toList]
  | (k, v) :: p :: t, _, hw, f, rest, hf => by
    cases f with
    | zero => omega
    | succ f =>
      simp only [WFO] at hw
      have hV := parseV_render v hw.1 f (',' :: ' ' :: (renderMembers (p :: t) ++ '}' :: rest))
        (by simp only [szO] at hf; omega) (okRest_of_not_numChar _ _ (by decide))
      have hE := parseMembers_render (p :: t) (by simp) hw.2 f rest
        (by simp only [szO] at hf ⊢; omega)
      simp only [renderMembers, renderStr, List.cons_append, List.append_assoc,
        List.nil_append]
      rw [parseMembers_more f _ _ _ _ _ v _ (parseStr_rendered k _) hV hE, String.ofList_toList]
end

mutual
theorem sz_le : ∀ (v : JVal), WF v → sz v ≤ (render v).length
  | .null, _ => by simp [sz, render]
  | .bool true, _ => by simp [sz, render]
  | .bool false, _ => by simp [sz, render]
  | .num n, _ => by
    have := List.length_pos_iff.mpr (intDigits_ne_nil n)
    simp only [sz, render]; omega
  | .real l, hw => by
    simp only [WF] at hw
    have hne : l.toList ≠ [] := by
      intro h; rw [h] at hw; simp [numOfToken, validNum] at hw
    have := List.length_pos_iff.mpr hne
    simp only [sz, render]; omega
  | .str s, _ => by simp [sz, render, renderStr]
  | .arr xs, hw => by
    simp only [WF] at hw
    have := szL_le xs hw
    simp only [sz, render, List.length_cons, List.length_append, List.length_nil]; omega
  | .obj kvs, hw => by
    simp only [WF] at hw
    have := szO_le kvs hw
    simp only [sz, render, List.length_cons, List.length_append, List.length_nil]; omega
theorem szL_le : ∀ (xs : List JVal), WFL xs → szL xs ≤ (renderElems xs).length + 1
  | [], _ => by simp [szL]
  | [v], hw => by
    simp only [WFL] at hw
    have := sz_le v hw.1
    simp only [szL, renderElems]; omega
  | v :: w :: t, hw => by
    simp only [WFL] at hw
    have h1 := sz_le v hw.1
    have h2 := szL_le (w :: t) (by simpa [WFL] using hw.2)
    simp only [szL] at h2 ⊢
    simp only [renderElems, List.length_append, List.length_cons]; omega
theorem szO_le : ∀ (kvs : List (String × JVal)), WFO kvs → szO kvs ≤ (renderMembers kvs).length + 1
  | [], _ => by simp [szO]
  | [(k, v)], hw => by
    simp only [WFO] at hw
    have := sz_le v hw.1
    simp only [szO, renderMembers, List.length_append, List.length_cons]; omega
  | (k, v) :: p :: t, hw => by
    simp only [WFO] at hw
    have h1 := sz_le v hw.1
    have h2 := szO_le (p :: t) hw.2
    simp only [szO] at h2 ⊢
    simp only [renderMembers, List.length_append, List.length_cons]; omega
end

/-- `json.loads(json.dumps(v)) = v` for every JSON value whose reals are number literals -/
theorem parse_render_wf (v : JVal) (hw : WF v) : parse (render v) = some v := by
  have h := parseV_render v hw ((render v).length + 1) [] (by have := sz_le v hw; omega) okRest_nil
  rw [List.append_nil] at h
  unfold parse
  rw [h]
  simp [skipWs]


end Klong.C20
