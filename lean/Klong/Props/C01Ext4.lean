/-
  C01 extension 4 — property theorems: implementation model (Klong.Model.C01Ext4, mirroring
  dyads.py / base.py / writer.py as repaired by a53617e, 0164c67, 0e3a9ac, 05f1070) = reference
  (Ext4.refDyad / Ext4.refMonad, the manual text transcribed) wherever the reference is defined,
  for every nesting depth, list length and size.

  Hypotheses that appear in the statements (all decidable):
  * `Ext1.notStored x = false` — the literal `x` is what the interpreter holds;
  * `Ext3.clashFree v = true` — `kg_asarray` of the formatted members does not broadcast member
    arrays whose shapes agree on leading dimensions only (`Ext1.objArrayClash`).
  The decimal texts of real numbers (`pyFloatStr`, `fixedParts`: exact integer arithmetic on the
  decoded double) are shared by reference and model; `floorInt_spec` proves that the bit-level
  floor is the floor, the digit functions are tied to CPython by the differential run.
-/
import Klong.Model.C01Ext4
import Klong.Props.C01
import Klong.Props.C01Ext2
import Klong.Props.C01Ext3
namespace Klong.C01.Ext4
open Klong Klong.C01

/-! ## Format2 on atoms -/

theorem padTo_zero (t : List Nat) : padTo 0 t = t := by
  simp [padTo, ljust, blanks]

/-- a size that is an integer, any object monadic `$` can write (integers, characters, strings,
    symbols, reals in positional notation): padded on the side the examples show -/
theorem format2_int_atom (n : Int) (b v : Val) (h : fmt2Atom (.int n) b = some v) :
    f2Atom (.int n) b = .ok v := by
  simp only [fmt2Atom, Option.map_eq_some_iff] at h
  obtain ⟨t, ht, rfl⟩ := h
  simp only [f2Atom, pyStrB, ht]
  split
  · rename_i h0; subst h0; simp [padTo_zero]
  · rfl

/-- a size of the form n.m and a real object: n integer digits, m fractional digits -/
theorem format2_real_atom (abits bbits : UInt64) (v : Val)
    (h : fmt2Atom (.real abits) (.real bbits) = some v) :
    f2Atom (.real abits) (.real bbits) = .ok v := by
  simp only [fmt2Atom] at h
  cases hnm : formNM abits with
  | none => simp [hnm] at h
  | some nm =>
    obtain ⟨n, m⟩ := nm
    simp only [hnm, Option.map_eq_some_iff] at h
    obtain ⟨t, ht, rfl⟩ := h
    -- unfold what `formNM` and `refFixed` established
    unfold formNM at hnm
    cases hda : decode abits with
    | none => simp [hda] at hnm
    | some da =>
      simp only [hda] at hnm
      split at hnm
      · simp at hnm
      · rename_i hpos
        cases hsp : shortPos da with
        | none => simp [hsp] at hnm
        | some Dk =>
          obtain ⟨D, k⟩ := Dk
          simp only [hsp] at hnm
          split at hnm
          · rename_i hc
            simp only [Option.some.injEq, Prod.mk.injEq] at hnm
            obtain ⟨hn, hm⟩ := hnm
            have hneg : da.neg = false := by
              cases hx : da.neg <;> simp_all
            have htz : truncZero da = false := by
              have := hc.2.1
              simpa using this
            have hm1 : 1 ≤ m := by
              have h1 : 10 ^ (k - 1) ≤ m := by rw [← hm]; exact hc.2.2
              exact Nat.le_trans (Nat.pow_pos (by decide)) h1
            unfold refFixed at ht
            cases hdb : decode bbits with
            | none => simp [hdb] at ht
            | some db =>
              simp only [hdb] at ht
              cases hok : fixedOk db m with
              | false => simp [hok] at ht
              | true =>
                simp only [hok, ↓reduceIte, Option.some.injEq] at ht
                have hm15 : m ≤ 15 := by
                  simp only [fixedOk, Bool.and_eq_true, decide_eq_true_eq] at hok
                  exact hok.1
                have hm60 : ¬ (m > 60) := by omega
                have hm0 : ¬ (m = 0) := by omega
                simp [f2Atom, hda, htz, specOf, hsp, hdb, hn, hm, hneg, hm60, hm0, ← ht]
          · simp at hnm

/-- **format2_atom_correct**: wherever the reference defines Format2 of two atoms (strings are
    atoms here), the scalar formatter returns exactly that text -/
theorem format2_atom_correct (a b v : Val) (h : fmt2Atom a b = some v) : f2Atom a b = .ok v := by
  cases a with
  | int n => exact format2_int_atom n b v h
  | real abits =>
    cases b with
    | real bbits => exact format2_real_atom abits bbits v h
    | _ => simp [fmt2Atom] at h
  | _ => simp [fmt2Atom] at h

/-! ## Format2 through lists: atomic extension -/

theorem refZip_length (f : Val → Val → Option Val) : ∀ (xs ys vs : List Val),
    refZip f xs ys = some vs → xs.length = ys.length
  | [], [], _, _ => rfl
  | [], _ :: _, _, h => by simp [refZip] at h
  | _ :: _, [], _, h => by simp [refZip] at h
  | x :: xs, y :: ys, vs, h => by
    simp only [refZip] at h
    cases hx : refA2 f x y with
    | none => simp [hx] at h
    | some r =>
      cases hxs : refZip f xs ys with
      | none => simp [hx, hxs] at h
      | some rs => simp [refZip_length f xs ys rs hxs]

theorem pack_ok (vs : List Val) (hc : Ext3.clashFree (.list vs) = true) :
    pack (.ok (.list vs)) = .ok (.list vs) := by
  simp only [Ext3.clashFree, Bool.and_eq_true, Bool.not_eq_true'] at hc
  simp [pack, Ext3.repackText, hc.1]

theorem clashFree_list {vs : List Val} (hc : Ext3.clashFree (.list vs) = true) : Ext3.clashFreeL vs = true := by
  simp only [Ext3.clashFree, Bool.and_eq_true] at hc
  exact hc.2

theorem hasEmptyList_list {xs : List Val} (h : Ext3.hasEmptyList (.list xs) = false) :
    Ext3.hasEmptyListL xs = false := by
  cases xs with
  | nil => simp [Ext3.hasEmptyList] at h
  | cons x xs => simpa [Ext3.hasEmptyList, Ext3.hasEmptyListL] using h

/-- the four mutually recursive statements: the implementation's pairing / extension (vec_fn2 for
    object arrays, `_e_dyad_format2` with Python's zip for arrays of numbers) yields the
    reference's atomic extension -/
theorem implF2_eq :
    (∀ a b, ∀ v, refA2 fmt2Atom a b = some v → Ext3.hasEmptyList a = false → Ext3.hasEmptyList b = false →
      Ext3.clashFree v = true → implF2 a b = .ok v) ∧
    (∀ a ys, ∀ vs, refMapR fmt2Atom a ys = some vs → Ext3.hasEmptyList a = false → Ext3.hasEmptyListL ys = false →
      Ext3.clashFreeL vs = true → implF2MapR a ys = .ok (.list vs)) ∧
    (∀ xs b, ∀ vs, refMapL fmt2Atom xs b = some vs → Ext3.hasEmptyListL xs = false → Ext3.hasEmptyList b = false →
      Ext3.clashFreeL vs = true → implF2MapL xs b = .ok (.list vs)) ∧
    (∀ xs ys, ∀ vs, refZip fmt2Atom xs ys = some vs → Ext3.hasEmptyListL xs = false → Ext3.hasEmptyListL ys = false →
      Ext3.clashFreeL vs = true → implF2Zip xs ys = .ok (.list vs)) := by
  apply refA2.mutual_induct
    (motive1 := fun a b => ∀ v, refA2 fmt2Atom a b = some v → Ext3.hasEmptyList a = false →
      Ext3.hasEmptyList b = false → Ext3.clashFree v = true → implF2 a b = .ok v)
    (motive2 := fun a ys => ∀ vs, refMapR fmt2Atom a ys = some vs → Ext3.hasEmptyList a = false →
      Ext3.hasEmptyListL ys = false → Ext3.clashFreeL vs = true → implF2MapR a ys = .ok (.list vs))
    (motive3 := fun xs b => ∀ vs, refMapL fmt2Atom xs b = some vs → Ext3.hasEmptyListL xs = false →
      Ext3.hasEmptyList b = false → Ext3.clashFreeL vs = true → implF2MapL xs b = .ok (.list vs))
    (motive4 := fun xs ys => ∀ vs, refZip fmt2Atom xs ys = some vs → Ext3.hasEmptyListL xs = false →
      Ext3.hasEmptyListL ys = false → Ext3.clashFreeL vs = true → implF2Zip xs ys = .ok (.list vs))
  case case1 =>
    intro xs ys ih v h ha hb hc
    simp only [refA2, Option.map_eq_some_iff] at h
    obtain ⟨vs, hvs, rfl⟩ := h
    have hlen := refZip_length fmt2Atom xs ys vs hvs
    rw [implF2]
    simp [hlen, ih vs hvs (hasEmptyList_list ha) (hasEmptyList_list hb) (clashFree_list hc), pack_ok vs hc]
  case case2 =>
    intro xs b hb ih v h ha hbe hc
    have h' : (refMapL fmt2Atom xs b).map Val.list = some v := by
      cases b <;> first | (exact (hb _ rfl).elim) | simpa [refA2] using h
    simp only [Option.map_eq_some_iff] at h'
    obtain ⟨vs, hvs, rfl⟩ := h'
    have := ih vs hvs (hasEmptyList_list ha) hbe (clashFree_list hc)
    cases b <;> first | (exact (hb _ rfl).elim) | simp [implF2, this, pack_ok vs hc]
  case case3 =>
    intro a ys ha ih v h hae hb hc
    have h' : (refMapR fmt2Atom a ys).map Val.list = some v := by
      cases a <;> first | (exact (ha _ rfl).elim) | simpa [refA2] using h
    simp only [Option.map_eq_some_iff] at h'
    obtain ⟨vs, hvs, rfl⟩ := h'
    have := ih vs hvs hae (hasEmptyList_list hb) (clashFree_list hc)
    cases a <;> first | (exact (ha _ rfl).elim) | simp [implF2, this, pack_ok vs hc]
  case case4 =>
    intro a b _ ha hb v h _ _ _
    have h' : fmt2Atom a b = some v := by
      cases a <;> cases b <;> first | (exact (ha _ rfl).elim) | (exact (hb _ rfl).elim) | simpa [refA2] using h
    have := format2_atom_correct a b v h'
    cases a <;> cases b <;> first | (exact (ha _ rfl).elim) | (exact (hb _ rfl).elim) | simpa [implF2] using this
  case case5 =>
    intro a vs h _ _ _
    simp only [refMapR, Option.some.injEq] at h
    subst h
    simp [implF2MapR]
  case case6 =>
    intro a y ys ih1 ih2 vs h ha hys hc
    simp only [refMapR] at h
    cases hy : refA2 fmt2Atom a y with
    | none => simp [hy] at h
    | some r =>
      cases hr : refMapR fmt2Atom a ys with
      | none => simp [hy, hr] at h
      | some rs =>
        simp [hy, hr] at h
        subst h
        simp only [Ext3.hasEmptyListL, Bool.or_eq_false_iff] at hys
        simp only [Ext3.clashFreeL, Bool.and_eq_true] at hc
        simp [implF2MapR, ih1 r hy ha hys.1 hc.1, ih2 rs hr ha hys.2 hc.2, consRes]
  case case7 =>
    intro b vs h _ _ _
    simp only [refMapL, Option.some.injEq] at h
    subst h
    simp [implF2MapL]
  case case8 =>
    intro x xs b ih1 ih2 vs h hxs hb hc
    simp only [refMapL] at h
    cases hx : refA2 fmt2Atom x b with
    | none => simp [hx] at h
    | some r =>
      cases hr : refMapL fmt2Atom xs b with
      | none => simp [hx, hr] at h
      | some rs =>
        simp [hx, hr] at h
        subst h
        simp only [Ext3.hasEmptyListL, Bool.or_eq_false_iff] at hxs
        simp only [Ext3.clashFreeL, Bool.and_eq_true] at hc
        simp [implF2MapL, ih1 r hx hxs.1 hb hc.1, ih2 rs hr hxs.2 hb hc.2, consRes]
  case case9 =>
    intro vs h _ _ _
    simp only [refZip, Option.some.injEq] at h
    subst h
    simp [implF2Zip]
  case case10 =>
    intro x xs y ys ih1 ih2 vs h hxs hys hc
    simp only [refZip] at h
    cases hx : refA2 fmt2Atom x y with
    | none => simp [hx] at h
    | some r =>
      cases hr : refZip fmt2Atom xs ys with
      | none => simp [hx, hr] at h
      | some rs =>
        simp [hx, hr] at h
        subst h
        simp only [Ext3.hasEmptyListL, Bool.or_eq_false_iff] at hxs hys
        simp only [Ext3.clashFreeL, Bool.and_eq_true] at hc
        simp [implF2Zip, ih1 r hx hxs.1 hys.1 hc.1, ih2 rs hr hxs.2 hys.2 hc.2, consRes]
  case case11 =>
    intro xs ys h1 h2 vs h _ _ _
    cases xs <;> cases ys <;> simp_all [refZip]

/-- **format2_correct**: Format2 `a$b` — integer sizes of either sign (and 0) with integers,
    characters, strings, symbols and reals; sizes n.m with reals — through ANY nesting depth and any
    mixture of numeric and object arrays, a list of sizes against one string included: the
    implementation returns what the reference prescribes -/
theorem format2_correct (a b v : Val) (h : refDyad "$" a b = some v)
    (hsa : Ext1.notStored a = false) (hsb : Ext1.notStored b = false)
    (hc : Ext3.clashFree v = true) : implDyad "$" a b = .ok v := by
  simp only [refDyad, refFormat2] at h
  split at h
  · simp at h
  · rename_i he
    simp only [Bool.or_eq_true, not_or, Bool.not_eq_true] at he
    simp [implDyad, implFormat2, hsa, hsb, implF2_eq.1 a b v h he.1 he.2 hc]

/-- two lists of sizes / objects that do not pair up: the reference defines nothing, and the
    implementation raises for object arrays but silently truncates two arrays of numbers -/
theorem format2_length_witness :
    refZip fmt2Atom [.int 1, .int 2, .int 3] [.int 1, .int 2] = none ∧
    bothNumeric (.list [.int 1, .int 2, .int 3]) (.list [.int 1, .int 2]) = true ∧
    bothNumeric (.list [.int 5]) (.list [.str [97], .str [98]]) = false := by
  refine ⟨by simp [refZip, refA2, fmt2Atom, fmtText], by decide, by decide⟩

/-! ## Floor of real numbers -/

theorem floor_nat (N D : Nat) (hD : 0 < D) : N / D * D ≤ N ∧ N < (N / D + 1) * D := by
  have h1 := Nat.div_add_mod N D
  have h2 := Nat.mod_lt N hD
  have e1 : N / D * D = D * (N / D) := Nat.mul_comm _ _
  have e2 : (N / D + 1) * D = D * (N / D) + D := by rw [Nat.add_mul, Nat.one_mul, Nat.mul_comm]
  rw [e1, e2]
  omega

theorem ceil_nat (N D : Nat) (hD : 0 < D) :
    N ≤ (N + D - 1) / D * D ∧ (N + D - 1) / D * D < N + D := by
  have h1 := Nat.div_add_mod (N + D - 1) D
  have h2 := Nat.mod_lt (N + D - 1) hD
  have e1 : (N + D - 1) / D * D = D * ((N + D - 1) / D) := Nat.mul_comm _ _
  rw [e1]
  omega

/-- **floorInt_spec**: the bit-level floor is the floor.  For x = m·2^e ≥ 0 (numerator
    N = m·2^max(e,0), denominator D = 2^max(−e,0)): ⌊x⌋·D ≤ N < (⌊x⌋+1)·D; for x = −m·2^e:
    ⌊x⌋ = −c with N ≤ c·D < N + D, i.e. −c ≤ x < −c + 1 -/
theorem floorInt_spec (d : Dbl) :
    (d.neg = false → ∃ n : Nat, floorInt d = (n : Int) ∧
      n * 2 ^ (-d.e).toNat ≤ d.m * 2 ^ d.e.toNat ∧ d.m * 2 ^ d.e.toNat < (n + 1) * 2 ^ (-d.e).toNat) ∧
    (d.neg = true → ∃ c : Nat, floorInt d = -(c : Int) ∧
      d.m * 2 ^ d.e.toNat ≤ c * 2 ^ (-d.e).toNat ∧ c * 2 ^ (-d.e).toNat < d.m * 2 ^ d.e.toNat + 2 ^ (-d.e).toNat) := by
  have hden : 0 < 2 ^ (-d.e).toNat := Nat.pow_pos (by decide)
  constructor
  · intro hneg
    exact ⟨_, by simp [floorInt, hneg], floor_nat _ _ hden⟩
  · intro hneg
    exact ⟨_, by simp [floorInt, hneg], ceil_nat _ _ hden⟩

/-- **floor_real_correct**: Floor of a real number — the integer ⌊a⌋ below 2^53, the real itself
    from 2^63 on (the repaired `floor_to_int`; `astype(int)` wrapped `_1e100` to −2^63) -/
theorem floor_real_correct (a v : Val) (h : refMonad "_" a = some v) : implMonad "_" a = .ok v := by
  cases a with
  | real bits =>
    simp only [refMonad, refFloor] at h
    cases hd : decode bits with
    | none => simp [hd] at h
    | some d =>
      simp only [hd] at h
      have hns : Ext1.notStored (.real bits) = false := by
        simp [Ext1.notStored, Ext1.mixedStored, Ext1.hasObjRank2]
      simp only [implMonad, implFloor, hns, implFloorRec, floorNumeric, Ext1.hasReal, Ext1.hasInt, floorsOf, hd]
      split at h
      · rename_i hlt
        simp only [Option.some.injEq] at h
        subst h
        have : (floorInt d).natAbs < two63 := Nat.lt_trans hlt (by decide)
        simp [this, floorLeaves, hd]
      · split at h
        · rename_i hge
          simp only [Option.some.injEq] at h
          subst h
          have : ¬ (floorInt d).natAbs < two63 := by omega
          simp [this]
        · simp at h
  | int _ => simp [refMonad, refFloor] at h
  | chr _ => simp [refMonad, refFloor] at h
  | sym _ => simp [refMonad, refFloor] at h
  | str _ => simp [refMonad, refFloor] at h
  | list _ => simp [refMonad, refFloor] at h
  | dict _ => simp [refMonad, refFloor] at h
  | undef => simp [refMonad, refFloor] at h

/-! ## Grade of lists of lists, strings, characters, reals -/

theorem cmpText_single (a b : Nat) : cmpText [a] [b] = cmpNat a b := by
  simp only [cmpText, cmpNat]
  repeat (first | rfl | split)

/- wherever the reference's comparison is defined the implementation's is, with the same outcome -/
mutual
theorem cmp_agree : ∀ (x y : Val) (o : Ordering), refCmp x y = some o → implCmp x y = some o
  | .list xs, .list ys, o, h => by
    simp only [refCmp] at h
    simp only [implCmp]
    exact cmpL_agree xs ys o h
  | .chr a, .chr b, o, h => by
    simp only [refCmp, Option.some.injEq] at h
    simp [implCmp, textOf, cmpText_single, h]
  | .str a, .str b, o, h => by
    simp only [refCmp, Option.some.injEq] at h
    simp [implCmp, textOf, h]
  | .int a, .int b, o, h => by simpa [refCmp, implCmp, textOf] using h
  | .int a, .real b, o, h => by simpa [refCmp, implCmp, textOf] using h
  | .real a, .int b, o, h => by simpa [refCmp, implCmp, textOf] using h
  | .real a, .real b, o, h => by simpa [refCmp, implCmp, textOf] using h
  | .int _, .chr _, _, h | .int _, .str _, _, h | .int _, .sym _, _, h | .int _, .list _, _, h
  | .int _, .dict _, _, h | .int _, .undef, _, h => by simp [refCmp, cmpNum, toF] at h
  | .real _, .chr _, _, h | .real _, .str _, _, h | .real _, .sym _, _, h | .real _, .list _, _, h
  | .real _, .dict _, _, h | .real _, .undef, _, h => by simp [refCmp, cmpNum, toF] at h
  | .chr _, .int _, _, h | .chr _, .real _, _, h | .chr _, .str _, _, h | .chr _, .sym _, _, h
  | .chr _, .list _, _, h | .chr _, .dict _, _, h | .chr _, .undef, _, h => by simp [refCmp, cmpNum, toF] at h
  | .str _, .int _, _, h | .str _, .real _, _, h | .str _, .chr _, _, h | .str _, .sym _, _, h
  | .str _, .list _, _, h | .str _, .dict _, _, h | .str _, .undef, _, h => by simp [refCmp, cmpNum, toF] at h
  | .sym _, _, _, h => by simp [refCmp, cmpNum, toF] at h
  | .dict _, _, _, h => by simp [refCmp, cmpNum, toF] at h
  | .undef, _, _, h => by simp [refCmp, cmpNum, toF] at h
  | .list _, .int _, _, h | .list _, .real _, _, h | .list _, .chr _, _, h | .list _, .str _, _, h
  | .list _, .sym _, _, h | .list _, .dict _, _, h | .list _, .undef, _, h => by simp [refCmp, cmpNum, toF] at h
theorem cmpL_agree : ∀ (xs ys : List Val) (o : Ordering), refCmpL xs ys = some o → implCmpL xs ys = some o
  | [], [], o, h => by simpa [refCmpL, implCmpL] using h
  | [], _ :: _, _, h => by simp [refCmpL] at h
  | _ :: _, [], _, h => by simp [refCmpL] at h
  | x :: xs, y :: ys, o, h => by
    simp only [refCmpL] at h
    cases hx : refCmp x y with
    | none => simp [hx] at h
    | some r =>
      have hi := cmp_agree x y r hx
      cases r with
      | eq =>
        simp only [hx] at h
        simp only [implCmpL, hi]
        exact cmpL_agree xs ys o h
      | lt => simp only [hx] at h; simp [implCmpL, hi, ← h]
      | gt => simp only [hx] at h; simp [implCmpL, hi, ← h]
end

theorem insertBy_congr {α} (le1 le2 : α → α → Bool) (x : α) :
    ∀ (l : List α), (∀ y ∈ l, le1 x y = le2 x y) → Ext2.insertBy le1 x l = Ext2.insertBy le2 x l
  | [], _ => rfl
  | y :: ys, h => by
    simp only [Ext2.insertBy, h y (by simp)]
    split
    · rfl
    · rw [insertBy_congr le1 le2 x ys (fun z hz => h z (by simp [hz]))]

/-- insertion sort only ever asks `le earlier later`: two orders that agree on those pairs sort alike -/
theorem isort_congr {α} (le1 le2 : α → α → Bool) :
    ∀ (l : List α), l.Pairwise (fun a b => le1 a b = le2 a b) → Ext2.isort le1 l = Ext2.isort le2 l
  | [], _ => rfl
  | x :: xs, h => by
    rw [List.pairwise_cons] at h
    simp only [Ext2.isort, isort_congr le1 le2 xs h.2]
    apply insertBy_congr
    intro y hy
    exact h.1 y ((Ext2.isort_perm le2 xs).subset hy)

theorem allPairs_pairwise (p : Val → Val → Bool) : ∀ (xs : List Val) (k : Nat), allPairs p xs = true →
    (xs.zipIdx k).Pairwise (fun a b => p a.1 b.1 = true)
  | [], _, _ => by simp
  | x :: xs, k, h => by
    simp only [allPairs, Bool.and_eq_true, List.all_eq_true] at h
    rw [List.zipIdx_cons, List.pairwise_cons]
    refine ⟨?_, allPairs_pairwise p xs (k + 1) h.2⟩
    intro q hq
    obtain ⟨y, i⟩ := q
    have := List.mem_zipIdx hq
    have hy : y ∈ xs := by rw [this.2.2]; exact List.getElem_mem _
    exact h.1 y hy

theorem allPairs_imp (p q : Val → Val → Bool) (hpq : ∀ x y, p x y = true → q x y = true) :
    ∀ (xs : List Val), allPairs p xs = true → allPairs q xs = true
  | [], _ => rfl
  | x :: xs, h => by
    simp only [allPairs, Bool.and_eq_true, List.all_eq_true] at h ⊢
    exact ⟨fun y hy => hpq x y (h.1 y hy), allPairs_imp p q hpq xs h.2⟩

theorem strictly_agree (x y : Val) (h : strictly refCmp x y = true) :
    refCmp x y = implCmp x y ∧ strictly implCmp x y = true := by
  unfold strictly at h
  cases hr : refCmp x y with
  | none => simp [hr] at h
  | some o =>
    have := cmp_agree x y o hr
    refine ⟨by rw [this], ?_⟩
    cases o <;> simp_all [strictly]

/-- on lists the reference orders strictly, both models sort alike -/
theorem gradeBy_agree (down : Bool) (xs : List Val) (h : allPairs (strictly refCmp) xs = true) :
    gradeBy implCmp down xs = gradeBy refCmp down xs := by
  have hp := allPairs_pairwise (strictly refCmp) xs 0 h
  have : Ext2.isort (leIdx implCmp) xs.zipIdx = Ext2.isort (leIdx refCmp) xs.zipIdx := by
    apply isort_congr
    apply hp.imp
    intro a b hab
    simp only [leIdx, (strictly_agree a.1 b.1 hab).1]
  simp only [gradeBy, this]

/-- **grade_nested_correct**: Grade-Up / Grade-Down of a list whose members are lists (compared
    pairwise and recursively, to any depth), strings, characters, integers or reals: wherever the
    members are pairwise comparable and different — where the sorting permutation is unique — the
    repaired `kg_argsort` returns the reference's permutation -/
theorem grade_nested_correct (down : Bool) (xs : List Val) (v : Val)
    (h : refGrade down (.list xs) = some v) (hs : Ext1.notStored (.list xs) = false) :
    implGrade down (.list xs) = .ok v := by
  simp only [refGrade] at h
  split at h
  · rename_i hall
    simp only [Option.some.injEq] at h
    subst h
    have h1 : allPairs (fun x y => (implCmp x y).isSome) xs = true := by
      apply allPairs_imp (strictly refCmp) _ _ xs hall
      intro x y hxy
      have := (strictly_agree x y hxy).2
      unfold strictly at this
      cases hc : implCmp x y <;> simp_all
    have h2 : allPairs (strictly implCmp) xs = true :=
      allPairs_imp (strictly refCmp) _ (fun x y hxy => (strictly_agree x y hxy).2) xs hall
    cases xs with
    | nil => simp [implGrade, hs, gradeBy, Ext2.isort, Ext2.ofNats]
    | cons x xs => simp [implGrade, hs, h1, h2, gradeBy_agree down (x :: xs) hall]
  · simp at h

/-- the reference's grade is a permutation of the positions 0..n−1 -/
theorem refGrade_perm (xs : List Val) :
    ((Ext2.isort (leIdx refCmp) xs.zipIdx).map (·.2)).Perm (List.range xs.length) := by
  have h := (Ext2.isort_perm (leIdx refCmp) xs.zipIdx).map (·.2)
  have e : xs.zipIdx.map (·.2) = List.range xs.length := by
    rw [List.range_eq_range']
    exact List.zipIdx_map_snd 0 xs
  rw [e] at h
  exact h

/-! ## witnesses (kernel-evaluated; the real operands are IEEE-754 bit patterns) -/

private def i (n : Int) : Val := .int n
private def l (xs : List Val) : Val := .list xs
private def r5_3 : Val := .real 0x4015333333333333        -- 5.3
private def r123_45 : Val := .real 0x405EDCCCCCCCCCCD     -- 123.45
private def r1_5 : Val := .real 0x3FF8000000000000        -- 1.5
private def rm2_5 : Val := .real 0xC004000000000000       -- -2.5
private def r0_5 : Val := .real 0x3FE0000000000000        -- 0.5
private def r5_0 : Val := .real 0x4014000000000000        -- 5.0
private def rm5_3 : Val := .real 0xC015333333333333       -- -5.3
private def r1e100 : Val := .real 0x54B249AD2594C37D      -- 1e100
private def r123_9 : Val := .real 0x405EF9999999999A      -- 123.9
private def r2p53 : Val := .real 0x4340000000000000       -- 2^53
private def r2p63 : Val := .real 0x43E0000000000000       -- 2^63

/-- the manual's five examples, reference and implementation: 0$123, (-5)$-123, 5$"xyz",
    (-5)$:foo, 5.3$123.45; and 0$:foo keeps the colon (repaired, a53617e), 5$1.5 is "1.5  " -/
theorem format2_examples_witness :
    Ext3.optIs (fmt2Atom (i 0) (i 123)) (.str [49, 50, 51]) = true ∧
    (f2Atom (i 0) (i 123)).is (.str [49, 50, 51]) = true ∧
    Ext3.optIs (fmt2Atom (i (-5)) (i (-123))) (.str [32, 45, 49, 50, 51]) = true ∧
    (f2Atom (i (-5)) (i (-123))).is (.str [32, 45, 49, 50, 51]) = true ∧
    Ext3.optIs (fmt2Atom (i 5) (.str [120, 121, 122])) (.str [120, 121, 122, 32, 32]) = true ∧
    (f2Atom (i 5) (.str [120, 121, 122])).is (.str [120, 121, 122, 32, 32]) = true ∧
    Ext3.optIs (fmt2Atom (i (-5)) (.sym [102, 111, 111])) (.str [32, 58, 102, 111, 111]) = true ∧
    (f2Atom (i (-5)) (.sym [102, 111, 111])).is (.str [32, 58, 102, 111, 111]) = true ∧
    Ext3.optIs (fmt2Atom r5_3 r123_45) (.str [32, 32, 49, 50, 51, 46, 52, 53, 48]) = true ∧
    (f2Atom r5_3 r123_45).is (.str [32, 32, 49, 50, 51, 46, 52, 53, 48]) = true ∧
    Ext3.optIs (fmt2Atom (i 0) (.sym [102, 111, 111])) (.str [58, 102, 111, 111]) = true ∧
    (f2Atom (i 0) (.sym [102, 111, 111])).is (.str [58, 102, 111, 111]) = true ∧
    Ext3.optIs (fmt2Atom (i 5) r1_5) (.str [49, 46, 53, 32, 32]) = true ∧
    (f2Atom (i 5) r1_5).is (.str [49, 46, 53, 32, 32]) = true ∧
    (f2Atom (i 2) (.str [97, 98, 99, 100])).is (.str [97, 98, 99, 100]) = true ∧
    (f2Atom (i (-3)) (.chr 120)).is (.str [32, 32, 120]) = true := by decide +kernel

/-- where the manual is silent and what the code does there: a real size with an object that is no
    real raises (5.3$1); |a| < 1 writes the object unpadded (0.5$1.5); a negative real size pads the
    WHOLE text ((-5.3)$1.5 is "1.500"); m = 0 drops the point (5.0$1.5 is "    2", round-half-even);
    an object that needs an exponent (5$1e100) is not modelled -/
theorem format2_outside_witness :
    (fmt2Atom r5_3 (i 1)).isNone = true ∧ Ext1.Res.isErr (f2Atom r5_3 (i 1)) = true ∧
    (fmt2Atom r0_5 r1_5).isNone = true ∧ (f2Atom r0_5 r1_5).is (.str [49, 46, 53]) = true ∧
    (fmt2Atom rm5_3 r1_5).isNone = true ∧ (f2Atom rm5_3 r1_5).is (.str [49, 46, 53, 48, 48]) = true ∧
    (fmt2Atom r5_0 r1_5).isNone = true ∧ (f2Atom r5_0 r1_5).is (.str [32, 32, 32, 32, 50]) = true ∧
    (fmt2Atom (.str [97]) (i 1)).isNone = true ∧
    (fmt2Atom (i 5) r1e100).isNone = true ∧ (pyFloatStr 0x54B249AD2594C37D).isNone = true ∧
    (fmt2Atom r5_3 r1e100).isNone = true := by decide +kernel

set_option linter.unusedSimpArgs false in
/-- atomic extension (repaired, 0164c67): a size over a list of numbers (5$[1 2] was "[1 2]"), a
    list of sizes over one string ([5 -3]$"a" raised), paired lists with a nested member; object
    arrays of different length raise, two arrays of numbers are cut to the shorter one (the
    reference defines neither) -/
theorem format2_extension_witness :
    (implF2 (i 5) (l [i 1, i 2])).is (l [.str [49, 32, 32, 32, 32], .str [50, 32, 32, 32, 32]]) = true ∧
    Ext3.optIs (refA2 fmt2Atom (i 5) (l [i 1, i 2])) (l [.str [49, 32, 32, 32, 32], .str [50, 32, 32, 32, 32]]) = true ∧
    (implF2 (l [i 5, i (-3)]) (.str [97])).is (l [.str [97, 32, 32, 32, 32], .str [32, 32, 97]]) = true ∧
    Ext3.optIs (refA2 fmt2Atom (l [i 5, i (-3)]) (.str [97])) (l [.str [97, 32, 32, 32, 32], .str [32, 32, 97]]) = true ∧
    (implF2 (l [i 3, i (-3)]) (l [l [i 1, i 2], .str [97]])).is
      (l [l [.str [49, 32, 32], .str [50, 32, 32]], .str [32, 32, 97]]) = true ∧
    Ext3.optIs (refA2 fmt2Atom (l [i 3, i (-3)]) (l [l [i 1, i 2], .str [97]]))
      (l [l [.str [49, 32, 32], .str [50, 32, 32]], .str [32, 32, 97]]) = true ∧
    Ext1.Res.isErr (implF2 (l [i 5]) (l [.str [97], .str [98]])) = true ∧
    (refA2 fmt2Atom (l [i 5]) (l [.str [97], .str [98]])).isNone = true ∧
    (implF2 (l [i 1, i 2, i 3]) (l [i 1, i 2])).is (l [.str [49], .str [50, 32]]) = true ∧
    (refA2 fmt2Atom (l [i 1, i 2, i 3]) (l [i 1, i 2])).isNone = true := by
  simp only [i, l, implF2, implF2MapR, implF2MapL, implF2Zip, refA2, refZip, refMapL, refMapR]
  decide

/-- Floor of reals: the manual's examples _123.9 and _1e100 (repaired, 0e3a9ac: was −2^63), a
    negative real, the 2^53 mark (reference silent, the code converts), 2^63 (stays real), and a
    list holding a real no integer can hold: the whole array stays real -/
theorem floor_witness :
    Ext3.optIs (refFloor r123_9) (i 123) = true ∧ (implFloor r123_9).is (i 123) = true ∧
    Ext3.optIs (refFloor r1e100) r1e100 = true ∧ (implFloor r1e100).is r1e100 = true ∧
    Ext3.optIs (refFloor rm2_5) (i (-3)) = true ∧ (implFloor rm2_5).is (i (-3)) = true ∧
    (refFloor r2p53).isNone = true ∧ (implFloor r2p53).is (i 9007199254740992) = true ∧
    Ext3.optIs (refFloor r2p63) r2p63 = true ∧ (implFloor r2p63).is r2p63 = true ∧
    (implFloor (i 9007199254740993)).is (i 9007199254740993) = true ∧
    (implFloor (l [r1_5, rm2_5])).is (l [i 1, i (-3)]) = true ∧
    (implFloor (l [i 1, l [r1_5, r0_5]])).is (l [i 1, l [i 1, i 0]]) = true := by decide +kernel

/-- Grade (repaired, 05f1070: members were ordered by their largest element): lists compared
    pairwise and recursively, the manual's own pair [1 [2] 3] / [1 [4] 0] and >[[1] [2] [3]];
    strings with the empty string; equal members and proper prefixes: the reference is silent,
    the code orders ties by position and a prefix first -/
theorem grade_witness :
    Ext3.optIs (refGrade false (l [l [i 1, i 2], l [i 3, i 4], l [i 0, i 9]])) (l [i 2, i 0, i 1]) = true ∧
    (implGrade false (l [l [i 1, i 2], l [i 3, i 4], l [i 0, i 9]])).is (l [i 2, i 0, i 1]) = true ∧
    Ext3.optIs (refGrade true (l [l [i 1], l [i 2], l [i 3]])) (l [i 2, i 1, i 0]) = true ∧
    (implGrade true (l [l [i 1], l [i 2], l [i 3]])).is (l [i 2, i 1, i 0]) = true ∧
    Ext3.optIs (refGrade false (l [l [i 1, l [i 4], i 0], l [i 1, l [i 2], i 3]])) (l [i 1, i 0]) = true ∧
    (implGrade false (l [l [i 1, l [i 4]], l [i 1, l [i 2], i 3]])).is (l [i 1, i 0]) = true ∧
    Ext3.optIs (refGrade false (l [.str [98], .str [], .str [97, 98]])) (l [i 1, i 2, i 0]) = true ∧
    (implGrade false (l [.str [98], .str [], .str [97, 98]])).is (l [i 1, i 2, i 0]) = true ∧
    Ext3.optIs (refGrade true (.str [98, 97, 99])) (l [i 2, i 0, i 1]) = true ∧
    (refGrade false (l [l [i 1, i 2], l [i 1, i 2]])).isNone = true ∧
    (implGrade false (l [l [i 1, i 2], l [i 1, i 2]])).is (l [i 0, i 1]) = true ∧
    (implGrade true (l [l [i 1, i 2], l [i 1, i 2]])).is (l [i 1, i 0]) = true ∧
    (refGrade false (l [l [i 1, i 2], l [i 1]])).isNone = true ∧
    (implGrade false (l [l [i 1, i 2], l [i 1]])).is (l [i 1, i 0]) = true ∧
    (refGrade false (l [i 1, .str [97]])).isNone = true := by decide +kernel

/-! ## non-vacuity of the general theorems -/

example : implDyad "$" (i 5) (.str [120, 121, 122]) = .ok (.str [120, 121, 122, 32, 32]) :=
  format2_correct _ _ _ (by simp only [i, refDyad, refFormat2, refA2]; rfl) (by decide) (by decide) (by decide)

set_option linter.unusedSimpArgs false in
example : implDyad "$" (l [i 3, i (-3)]) (l [l [i 1, i 2], .str [97]]) =
    .ok (l [l [.str [49, 32, 32], .str [50, 32, 32]], .str [32, 32, 97]]) :=
  format2_correct _ _ _ (by simp only [i, l, refDyad, refFormat2, refA2, refZip, refMapL, refMapR]; rfl)
    (by decide) (by decide) (by decide)

set_option maxRecDepth 20000 in
set_option exponentiation.threshold 2000 in
example : implMonad "_" r1e100 = .ok r1e100 := floor_real_correct _ _ (by rfl)

set_option maxRecDepth 20000 in
example : implMonad "_" rm2_5 = .ok (i (-3)) := floor_real_correct _ _ (by rfl)

set_option maxRecDepth 20000 in
example : implGrade false (l [l [i 1, i 2], l [i 3, i 4], l [i 0, i 9]]) = .ok (l [i 2, i 0, i 1]) :=
  grade_nested_correct _ _ _ (by rfl) (by decide)

example : floorInt ⟨true, 5, -1⟩ = -3 ∧ floorInt ⟨false, 5, -1⟩ = 2 := by decide

end Klong.C01.Ext4
