/-
  C06 — property theorems.

  * `dual_correct`, `dual_value`      forward-mode (dual number) evaluation computes the value
                                      and the symbolic derivative, over any commutative ring
  * `numgrad_is_central_diff`         what `numeric_grad` returns and what each probe perturbed
  * `numgrad_restores`                the working array is back to `x` at the end
  * `jacobian_is_central_diff`        orientation of `numeric_jacobian`
  * `multi_grad_separates`            `multi_grad_of_fn` (numeric): one parameter at a time
  * `D_is_linear_coefficient`         for polynomial expressions `D` is the coefficient of `t` in
                                      `eval e (p + t·e_v)`: the derivative, algebraically
  * `central_diff_exact_quadratic`    no truncation error up to degree 2 (any field, 2·eps ≠ 0)
  The truncation bound for C³ functions is in `Props/C06Taylor.lean`.

  Single Mathlib import: `Mathlib.Tactic.Ring` (commutative ring / field classes + `ring`).
-/
import Klong.Props.C06Loops
import Mathlib.Tactic.Ring

namespace Klong.C06

/-! ## the derivative oracle: dual numbers = symbolic derivative -/

section Dual
variable {α : Type} [CommRing α] [Div α]

omit [Div α] in
theorem npow_eq_pow (a : α) (n : Nat) : npow a n = a ^ n := by
  induction n with
  | zero => simp [npow]
  | succ n ih => simp [npow, ih, pow_succ]

omit [Div α] in
theorem dual_npow_val (x : Dual α) (n : Nat) : (Dual.npow x n).val = x.val ^ n := by
  induction n with
  | zero => simp [Dual.npow, Dual.ofConst]
  | succ n ih => simp [Dual.npow, Dual.mul, ih, pow_succ]

omit [Div α] in
theorem dual_npow_eps_zero (x : Dual α) : (Dual.npow x 0).eps = 0 := by
  simp [Dual.npow, Dual.ofConst]

omit [Div α] in
/-- the power rule falls out of repeated dual multiplication -/
theorem dual_npow_eps_succ (x : Dual α) (n : Nat) :
    (Dual.npow x (n + 1)).eps = ((n + 1 : Nat) : α) * x.val ^ n * x.eps := by
  induction n with
  | zero => simp [Dual.npow, Dual.mul, Dual.ofConst]
  | succ n ih =>
    have hv := dual_npow_val x (n + 1)
    simp only [Dual.npow, Dual.mul] at ih hv ⊢
    rw [ih, hv]
    push_cast
    ring

/-- what has to hold of an expression … -/
def OkE (F : FnEnv α) (p : List α) (v : Nat) (e : Expr α) : Prop :=
  (evalDual F p v e).val = eval F p e ∧ (evalDual F p v e).eps = eval F p (D v e)

/-- … and of a list of expressions under `+/`, `*/` and `@` -/
def OkL (F : FnEnv α) (p : List α) (v : Nat) (es : List (Expr α)) : Prop :=
  ((dualSum F p v es).val = evalSum F p es ∧ (dualSum F p v es).eps = evalSum F p (DList v es))
  ∧ ((dualProd F p v es).val = evalProd F p es ∧ (dualProd F p v es).eps = eval F p (DProd v es))
  ∧ ∀ i, (dualIdx F p v es i).val = evalIdx F p es i
        ∧ (dualIdx F p v es i).eps = evalIdx F p (DList v es) i

theorem ok_all (F : FnEnv α) (p : List α) (v : Nat) (e : Expr α) : OkE F p v e := by
  refine @Expr.rec α (OkE F p v) (OkL F p v) ?_ ?_ ?_ ?_ ?_ ?_ ?_ ?_ ?_ ?_ ?_ ?_ ?_ ?_ e
  · intro c; simp [OkE, evalDual, eval, D, Dual.ofConst]
  · intro i
    by_cases h : i = v <;> simp [OkE, evalDual, eval, D, h]
  · intro a b ha hb
    simp only [OkE, evalDual, eval, D, Dual.add] at *
    simp [ha, hb]
  · intro a b ha hb
    simp only [OkE, evalDual, eval, D, Dual.sub] at *
    simp [ha, hb]
  · intro a b ha hb
    simp only [OkE, evalDual, eval, D, Dual.mul] at *
    simp [ha, hb]
  · intro a b ha hb
    simp only [OkE, evalDual, eval, D, Dual.div] at *
    simp [ha, hb]
  · intro a ha
    simp only [OkE, evalDual, eval, D, Dual.neg] at *
    simp [ha]
  · intro a n ha
    obtain ⟨hv, he⟩ := ha
    cases n with
    | zero => simp [OkE, evalDual, eval, D, Dual.npow, Dual.ofConst, npow]
    | succ n =>
      refine ⟨?_, ?_⟩
      · simp only [evalDual, eval]; rw [dual_npow_val, npow_eq_pow, hv]
      · simp only [evalDual, eval, D]
        rw [dual_npow_eps_succ, npow_eq_pow, hv, he]
  · intro es h
    exact ⟨by simpa [evalDual, eval] using h.1.1, by simpa [evalDual, eval, D] using h.1.2⟩
  · intro es h
    exact ⟨by simpa [evalDual, eval] using h.2.1.1, by simpa [evalDual, eval, D] using h.2.1.2⟩
  · intro es i h
    exact ⟨by simpa [evalDual, eval] using (h.2.2 i).1, by simpa [evalDual, eval, D] using (h.2.2 i).2⟩
  · intro k ord a ha
    obtain ⟨hv, he⟩ := ha
    simp only [OkE, evalDual, eval, D]
    rw [hv, he]
    exact ⟨rfl, rfl⟩
  · refine ⟨?_, ?_, ?_⟩
    · simp [dualSum, evalSum, DList, Dual.ofConst]
    · simp [dualProd, evalProd, DProd, eval, Dual.ofConst]
    · intro i; simp [dualIdx, evalIdx, DList, Dual.ofConst]
  · intro e es he hes
    obtain ⟨hv, hd⟩ := he
    obtain ⟨⟨hsv, hsd⟩, ⟨hpv, hpd⟩, hidx⟩ := hes
    refine ⟨⟨?_, ?_⟩, ⟨?_, ?_⟩, ?_⟩
    · simp [dualSum, evalSum, Dual.add, hv, hsv]
    · simp [dualSum, evalSum, DList, Dual.add, hd, hsd]
    · simp [dualProd, evalProd, Dual.mul, hv, hpv]
    · simp [dualProd, DProd, eval, Dual.mul, hv, hd, hpv, hpd]
    · intro i
      cases i with
      | zero => simp [dualIdx, evalIdx, DList, hv, hd]
      | succ i => simpa [dualIdx, evalIdx, DList] using hidx i

/-! ## property theorems: the oracle -/

/-- **the dual-number evaluator is a correct derivative oracle**: over any commutative ring
    (with any division operation), for every expression, point, variable and every family
    of named functions with their derivatives, the `ε`-part of the forward-mode evaluation
    is the value of the symbolic derivative `D` (sum, product, quotient, power and chain
    rules). -/
theorem dual_correct (F : FnEnv α) (p : List α) (v : Nat) (e : Expr α) :
    (evalDual F p v e).eps = eval F p (D v e) := (ok_all F p v e).2

/-- … and its real part is the value of the expression -/
theorem dual_value (F : FnEnv α) (p : List α) (v : Nat) (e : Expr α) :
    (evalDual F p v e).val = eval F p e := (ok_all F p v e).1

/-- the gradient oracle the driver prints is the vector of symbolic partial derivatives -/
theorem gradient_is_symbolic (F : FnEnv α) (p : List α) (e : Expr α) :
    gradient F p e = (List.range p.length).map fun v => eval F p (D v e) := by
  simp [gradient, dual_correct]

/-- **general power rule** (variable exponent): with `exp' = exp`, the derivative of
    `u^v = exp (v · ln u)` is `u^v · (v' · ln u + v · ln'(u) · u')`; with `ln'(u) = 1/u` that is
    `v·u^(v-1)·u' + u^v·ln(u)·v'` — the second term is the one a constant-exponent rule lacks. -/
theorem gpow_rule (F : FnEnv α) (p : List α) (v : Nat) (a b : Expr α)
    (hexp : ∀ x, F 5 1 x = F 5 0 x) :
    eval F p (D v (gpow a b)) =
      eval F p (gpow a b) *
        (eval F p (D v b) * F 6 0 (eval F p a) + eval F p b * (F 6 1 (eval F p a) * eval F p (D v a))) := by
  simp [gpow, D, eval, hexp]

/-- … and the dual-number oracle computes exactly that -/
theorem gpow_dual (F : FnEnv α) (p : List α) (v : Nat) (a b : Expr α)
    (hexp : ∀ x, F 5 1 x = F 5 0 x) :
    (evalDual F p v (gpow a b)).eps =
      eval F p (gpow a b) *
        (eval F p (D v b) * F 6 0 (eval F p a) + eval F p b * (F 6 1 (eval F p a) * eval F p (D v a))) := by
  rw [dual_correct, gpow_rule F p v a b hexp]

end Dual

/-! ## `D` is the coefficient of the linear term (polynomial expressions) -/

section Poly
variable {α : Type}

mutual
/-- polynomial expressions: no division, no named functions -/
def isPoly : Expr α → Bool
  | .const _ => true
  | .var _ => true
  | .add a b => isPoly a && isPoly b
  | .sub a b => isPoly a && isPoly b
  | .mul a b => isPoly a && isPoly b
  | .div _ _ => false
  | .neg a => isPoly a
  | .pow a _ => isPoly a
  | .sum es => allPoly es
  | .prod es => allPoly es
  | .idx es _ => allPoly es
  | .fn _ _ _ => false
def allPoly : List (Expr α) → Bool
  | [] => true
  | e :: es => isPoly e && allPoly es
end

variable [CommRing α] [Div α]

/-- `X' = X + t·X₁ + t²·r` for some `r`: `X₁` is the coefficient of `t` -/
def Expands (t X' X X1 : α) : Prop := ∃ r, X' = X + t * X1 + t * t * r

omit [Div α] in
theorem Expands.add {t A' A A1 B' B B1 : α} (ha : Expands t A' A A1) (hb : Expands t B' B B1) :
    Expands t (A' + B') (A + B) (A1 + B1) := by
  obtain ⟨r, rfl⟩ := ha; obtain ⟨s, rfl⟩ := hb; exact ⟨r + s, by ring⟩

omit [Div α] in
theorem Expands.sub {t A' A A1 B' B B1 : α} (ha : Expands t A' A A1) (hb : Expands t B' B B1) :
    Expands t (A' - B') (A - B) (A1 - B1) := by
  obtain ⟨r, rfl⟩ := ha; obtain ⟨s, rfl⟩ := hb; exact ⟨r - s, by ring⟩

omit [Div α] in
theorem Expands.neg {t A' A A1 : α} (ha : Expands t A' A A1) : Expands t (-A') (-A) (-A1) := by
  obtain ⟨r, rfl⟩ := ha; exact ⟨-r, by ring⟩

omit [Div α] in
theorem Expands.mul {t A' A A1 B' B B1 : α} (ha : Expands t A' A A1) (hb : Expands t B' B B1) :
    Expands t (A' * B') (A * B) (A1 * B + A * B1) := by
  obtain ⟨r, rfl⟩ := ha; obtain ⟨s, rfl⟩ := hb
  exact ⟨A * s + A1 * B1 + r * B + t * (A1 * s + r * B1) + t * t * (r * s), by ring⟩

omit [Div α] in
theorem Expands.const (t c : α) : Expands t c c 0 := ⟨0, by ring⟩

omit [Div α] in
theorem Expands.pow {t A' A A1 : α} (ha : Expands t A' A A1) (n : Nat) :
    Expands t (A' ^ (n + 1)) (A ^ (n + 1)) (((n + 1 : Nat) : α) * A ^ n * A1) := by
  induction n with
  | zero => simpa using ha
  | succ n ih =>
    have h := ih.mul ha
    rw [← pow_succ, ← pow_succ] at h
    obtain ⟨r, hr⟩ := h
    exact ⟨r, by rw [hr]; push_cast; ring⟩


/-- the point with component `v` moved by `t` -/
def shift (p : List α) (v : Nat) (t : α) : List α := p.set v (p.getD v ((0 : Nat) : α) + t)

def PolyE (F : FnEnv α) (p : List α) (v : Nat) (t : α) (e : Expr α) : Prop :=
  isPoly e = true → Expands t (eval F (shift p v t) e) (eval F p e) (eval F p (D v e))

def PolyL (F : FnEnv α) (p : List α) (v : Nat) (t : α) (es : List (Expr α)) : Prop :=
  allPoly es = true →
    Expands t (evalSum F (shift p v t) es) (evalSum F p es) (evalSum F p (DList v es))
    ∧ Expands t (evalProd F (shift p v t) es) (evalProd F p es) (eval F p (DProd v es))
    ∧ ∀ i, Expands t (evalIdx F (shift p v t) es i) (evalIdx F p es i) (evalIdx F p (DList v es) i)

omit [Div α] in
theorem shift_getD_self (p : List α) (v : Nat) (t : α) (hv : v < p.length) :
    (shift p v t).getD v ((0 : Nat) : α) = p.getD v ((0 : Nat) : α) + t := by
  simp [shift, List.getD_eq_getElem?_getD, hv]

omit [Div α] in
theorem shift_getD_ne (p : List α) (v i : Nat) (t : α) (h : i ≠ v) :
    (shift p v t).getD i ((0 : Nat) : α) = p.getD i ((0 : Nat) : α) := by
  simp [shift, List.getD_eq_getElem?_getD, List.getElem?_set_ne (Ne.symm h)]

/-- **`D` is the derivative, algebraically**: for every polynomial expression (no division, no
    named function) over any commutative ring, moving component `v` of the point by `t` changes
    the value by `t · eval (D v e)` up to a multiple of `t²`:
        `eval e (p + t·e_v) = eval e p + t · eval (D v e) p + t² · r`.
    So the symbolic derivative — and by `dual_correct` the dual-number oracle — is the
    coefficient of the linear term, which is what "the derivative" means without limits. -/
theorem D_is_linear_coefficient (F : FnEnv α) (p : List α) (v : Nat) (hv : v < p.length) (t : α)
    (e : Expr α) (he : isPoly e = true) :
    ∃ r, eval F (shift p v t) e = eval F p e + t * eval F p (D v e) + t * t * r := by
  suffices h : PolyE F p v t e from h he
  refine @Expr.rec α (PolyE F p v t) (PolyL F p v t) ?_ ?_ ?_ ?_ ?_ ?_ ?_ ?_ ?_ ?_ ?_ ?_ ?_ ?_ e
  · intro c _
    simpa [eval, D] using Expands.const t c
  · intro i _
    by_cases h : i = v
    · subst h
      simp only [eval, D, if_true, shift_getD_self p i t hv]
      exact ⟨0, by push_cast; ring⟩
    · simp only [eval, D, if_neg h, shift_getD_ne p v i t h]
      exact ⟨0, by push_cast; ring⟩
  · intro a b ha hb hp
    simp only [isPoly, Bool.and_eq_true] at hp
    simpa [eval, D] using (ha hp.1).add (hb hp.2)
  · intro a b ha hb hp
    simp only [isPoly, Bool.and_eq_true] at hp
    simpa [eval, D] using (ha hp.1).sub (hb hp.2)
  · intro a b ha hb hp
    simp only [isPoly, Bool.and_eq_true] at hp
    simpa [eval, D] using (ha hp.1).mul (hb hp.2)
  · intro a b _ _ hp
    simp [isPoly] at hp
  · intro a ha hp
    simp only [isPoly] at hp
    simpa [eval, D] using (ha hp).neg
  · intro a n ha hp
    simp only [isPoly] at hp
    cases n with
    | zero => simpa [eval, D, npow] using Expands.const t (1 : α)
    | succ n => simpa [eval, D, npow_eq_pow] using (ha hp).pow n
  · intro es h hp
    simp only [isPoly] at hp
    simpa [eval, D] using (h hp).1
  · intro es h hp
    simp only [isPoly] at hp
    simpa [eval, D] using (h hp).2.1
  · intro es i h hp
    simp only [isPoly] at hp
    simpa [eval, D] using (h hp).2.2 i
  · intro k ord a _ hp
    simp [isPoly] at hp
  · intro _
    refine ⟨?_, ?_, ?_⟩
    · simpa [evalSum, DList] using Expands.const t (0 : α)
    · simpa [evalProd, DProd, eval] using Expands.const t (1 : α)
    · intro i
      simpa [evalIdx, DList] using Expands.const t (0 : α)
  · intro e es he hes hp
    simp only [allPoly, Bool.and_eq_true] at hp
    obtain ⟨hs, hpr, hi⟩ := hes hp.2
    have h1 := he hp.1
    refine ⟨?_, ?_, ?_⟩
    · simpa [evalSum, DList] using h1.add hs
    · simpa [evalProd, DProd, eval] using h1.mul hpr
    · intro i
      cases i with
      | zero => simpa [evalIdx, DList] using h1
      | succ i => simpa [evalIdx, DList] using hi i

end Poly

/-! ## truncation: none up to degree two -/

section Quadratic
variable {α : Type} [Field α]

/-- **central differences are exact for quadratics**: if, along coordinate `idx`, `f` is
    `a·t² + b·t + c`, then the central difference is `2·a·x_idx + b` — the derivative —
    for every step with `2·eps ≠ 0`. -/
theorem central_diff_exact_quadratic (f : List α → α) (eps : α) (x : List α) (idx : Nat)
    (a b c : α) (h2 : (2 : α) ≠ 0) (heps : eps ≠ 0)
    (hq : ∀ t, f (x.set idx t) = a * t * t + b * t + c) :
    centralDiff f eps x idx = 2 * a * x.getD idx 0 + b := by
  simp only [centralDiff, hq]
  have hne : ((2 : Nat) : α) * eps ≠ 0 := by
    simpa using mul_ne_zero h2 heps
  rw [div_eq_iff hne]
  push_cast
  ring

/-- … hence `numeric_grad` returns the exact partial derivative of such an `f` -/
theorem numgrad_exact_quadratic (f : List α → α) (eps : α) (x : List α) (idx : Nat)
    (hidx : idx < x.length) (a b c : α) (h2 : (2 : α) ≠ 0) (heps : eps ≠ 0)
    (hq : ∀ t, f (x.set idx t) = a * t * t + b * t + c) :
    (numGrad f eps x)[idx]? = some (2 * a * x.getD idx 0 + b) := by
  have h := (numgrad_is_central_diff f eps x idx hidx).1
  rw [h, ← central_diff_exact_quadratic f eps x idx a b c h2 heps hq]
  simp [centralDiff]

end Quadratic

/-! ## non-vacuity -/

/-- d/dx₀ (x₀² · x₁) at (3, 5) = 2·3·5 -/
example : (evalDual (fun _ _ x => x) [3, 5] 0
    (.mul (.pow (.var 0) 2) (.var 1) : Expr Int)).eps = 30 := by decide

example : eval (fun _ _ x => x) [3, 5] (D 0 (.mul (.pow (.var 0) 2) (.var 1) : Expr Int)) = 30 := by
  decide

/-- product rule over a three-element `*/` and the sum rule, at (2, 3, 5) -/
example : gradient (fun _ _ x => x) [2, 3, 5]
    (.add (.prod [.var 0, .var 1, .var 2]) (.sum [.var 0, .idx [.var 1, .var 2] 1]) : Expr Int)
    = [16, 10, 7] := by decide

/-- moving x₀ by t in x₀²·x₁ at (3, 5): 45 + 30 t + 5 t² -/
example (t : Int) : ∃ r, eval (fun _ _ x => x) (shift [3, 5] 0 t) (.mul (.pow (.var 0) 2) (.var 1) : Expr Int)
    = 45 + t * 30 + t * t * r :=
  D_is_linear_coefficient (fun _ _ x => x) [3, 5] 0 (by decide) t _ (by decide)

/-- numeric_grad of x₀·x₁ over Int with eps = 1: probes and result (Int division by 2 exact here) -/
example : numGrad (fun y : List Int => y.getD 0 0 * y.getD 1 0) 1 [3, 5] = [5, 3] := by decide

example : (numGradState (fun y : List Int => y.getD 0 0 * y.getD 1 0) 1 [3, 5]).probes
    = [[4, 5], [2, 5], [3, 6], [3, 4]] := by decide

/-- orientation: g(x) = (x₀·x₁, x₁) has Jacobian [[x₁, x₀], [0, 1]] — not its transpose -/
example : numJacobian (fun y : List Int => [y.getD 0 0 * y.getD 1 0, y.getD 1 0]) 1 [3, 5]
    = [[5, 3], [0, 1]] := by decide

/-- two parameters w = (3), b = (5), loss = w·b: gradients 5 and 3, and while `b` is
    perturbed `w` keeps its value -/
example : multiGrad (fun ps : List (List Int) => (ps.getD 0 []).getD 0 0 * (ps.getD 1 []).getD 0 0)
    1 [[3], [5]] = [[5], [3]] := by decide

example : (multiGradState (fun ps : List (List Int) => (ps.getD 0 []).getD 0 0 * (ps.getD 1 []).getD 0 0)
    1 [[3], [5]]).probes = [[[4], [5]], [[2], [5]], [[3], [6]], [[3], [4]]] := by decide

/-- a quadratic along coordinate 0 over ℚ: f(y) = 3·y₀² + y₀·y₁ + 7 at (2, 5): ∂/∂y₀ = 17 -/
example : centralDiff (fun y : List ℚ => 3 * y.getD 0 0 * y.getD 0 0 + y.getD 1 0 * y.getD 0 0 + 7)
    (1 / 1000000) [2, 5] 0 = 2 * 3 * ([2, 5] : List ℚ).getD 0 0 + 5 :=
  central_diff_exact_quadratic _ _ _ 0 3 5 7 (by norm_num) (by norm_num)
    (by intro t; simp)

end Klong.C06
