/-
  C10 — a dictionary behaves as a finite map under any sequence of operations.
  Helper lemmas first, the property theorems below the line "property theorems".
-/
import Klong.Model.C10
namespace Klong.C10

/-! ## helper lemmas: one dictionary -/

def keys (d : Dict) : List NKey := d.map (fun p => p.1.norm)

theorem keyEq_iff (a b : Key) : keyEq a b = true ↔ a.norm = b.norm := by simp [keyEq]

theorem absDict_nil (nk : NKey) : absDict [] nk = none := rfl

theorem absDict_cons (k : Key) (v : Val) (rest : Dict) (nk : NKey) :
    absDict ((k, v) :: rest) nk = if k.norm = nk then some v else absDict rest nk := by
  by_cases h : k.norm = nk <;> simp [absDict, h]

theorem get_eq_abs (d : Dict) (k : Key) : d.get k = absDict d k.norm := by
  simp [Dict.get, getBy, absDict, keyEq]

theorem set_nil (k : Key) (v : Val) : Dict.set [] k v = [(k, v)] := rfl

theorem set_cons (k' : Key) (v' : Val) (rest : Dict) (k : Key) (v : Val) :
    Dict.set ((k', v') :: rest) k v =
      if k'.norm = k.norm then (k', v) :: rest else (k', v') :: Dict.set rest k v := by
  by_cases h : k'.norm = k.norm <;> simp [Dict.set, setBy, keyEq, h]

/-- lookup after `d[k] = v` -/
theorem absDict_set (d : Dict) (k : Key) (v : Val) :
    absDict (d.set k v) = (absDict d).upd k.norm (some v) := by
  funext nk
  induction d with
  | nil => simp [set_nil, absDict_cons, absDict_nil, AMap.upd, eq_comm]
  | cons p rest ih =>
    obtain ⟨k', v'⟩ := p
    rw [set_cons]
    by_cases h : k'.norm = k.norm
    · by_cases h2 : nk = k.norm
      · simp [h, absDict_cons, AMap.upd, h2]
      · have h3 : ¬ k.norm = nk := fun e => h2 e.symm
        simp [h, absDict_cons, AMap.upd, h2, h3]
    · by_cases h2 : k'.norm = nk
      · have h3 : ¬ nk = k.norm := fun e => h (h2.trans e)
        simp [absDict_cons, AMap.upd, h2, h3]
      · simp only [h, if_false, absDict_cons, h2, ih]
        simp [AMap.upd, absDict_cons, h2]

/-- lookup after `del d[k]` -/
theorem absDict_del (d : Dict) (k : Key) :
    absDict (d.del k) = (absDict d).upd k.norm none := by
  funext nk
  induction d with
  | nil => simp [Dict.del, absDict_nil, AMap.upd]
  | cons p rest ih =>
    obtain ⟨k', v'⟩ := p
    by_cases h : k'.norm = k.norm
    · have : Dict.del ((k', v') :: rest) k = Dict.del rest k := by
        simp [Dict.del, keyEq, h]
      rw [this, ih]
      by_cases h2 : nk = k.norm
      · simp [AMap.upd, h2]
      · have h3 : ¬ k'.norm = nk := fun e => h2 (e.symm.trans h)
        simp [AMap.upd, h2, absDict_cons, h3]
    · have : Dict.del ((k', v') :: rest) k = (k', v') :: Dict.del rest k := by
        simp [Dict.del, keyEq, h]
      rw [this, absDict_cons, ih]
      by_cases h2 : k'.norm = nk
      · have h3 : ¬ nk = k.norm := fun e => h (h2.trans e)
        simp [AMap.upd, h2, h3, absDict_cons]
      · simp [AMap.upd, h2, absDict_cons]

theorem absDict_fold (ps : List (Key × Val)) (d0 : Dict) :
    absDict (ps.foldl (fun d p => setBy keyEq d p.1 p.2) d0) =
      ps.foldl (fun m p => m.upd p.1.norm (some p.2)) (absDict d0) := by
  induction ps generalizing d0 with
  | nil => rfl
  | cons p ps ih =>
    simp only [List.foldl_cons]
    rw [ih]
    congr 1
    exact absDict_set d0 p.1 p.2

/-- the parsed literal is the map built from its pairs, later duplicates winning -/
theorem absDict_ofPairs (ps : List (Key × Val)) : absDict (Dict.ofPairs ps) = AMap.ofPairs ps := by
  unfold Dict.ofPairs ofPairsBy AMap.ofPairs
  rw [absDict_fold]
  rfl

theorem abs_isSome_iff (d : Dict) (nk : NKey) : (absDict d nk).isSome ↔ nk ∈ keys d := by
  induction d with
  | nil => simp [absDict_nil, keys]
  | cons p rest ih =>
    obtain ⟨k', v'⟩ := p
    rw [absDict_cons]
    by_cases h : k'.norm = nk
    · simp [h, keys]
    · have h' : ¬ nk = k'.norm := fun e => h e.symm
      simp only [h, if_false, ih]
      simp [keys, h']

theorem keys_set_mem (d : Dict) (k : Key) (v : Val) (nk : NKey) :
    nk ∈ keys (d.set k v) ↔ nk ∈ keys d ∨ nk = k.norm := by
  rw [← abs_isSome_iff, ← abs_isSome_iff, absDict_set]
  by_cases h : nk = k.norm <;> simp [AMap.upd, h]

theorem WFd_nil : WFd [] := by simp [WFd]

theorem WFd_set (d : Dict) (k : Key) (v : Val) (h : WFd d) : WFd (d.set k v) := by
  induction d with
  | nil => simp [WFd, set_nil]
  | cons p rest ih =>
    obtain ⟨k', v'⟩ := p
    rw [set_cons]
    have h0 : ¬ k'.norm ∈ keys rest ∧ WFd rest := by
      simpa [WFd, keys, List.nodup_cons] using h
    by_cases hk : k'.norm = k.norm
    · simpa [hk, WFd, List.nodup_cons] using h
    · simp only [hk, if_false]
      have h1 := ih h0.2
      have h2 : ¬ k'.norm ∈ keys (Dict.set rest k v) := by
        rw [keys_set_mem]
        intro hh
        rcases hh with hh | hh
        · exact h0.1 hh
        · exact hk hh
      have : WFd ((k', v') :: Dict.set rest k v) ↔
          ¬ k'.norm ∈ keys (Dict.set rest k v) ∧ WFd (Dict.set rest k v) := by
        simp [WFd, keys, List.nodup_cons]
      exact this.mpr ⟨h2, h1⟩

theorem WFd_del (d : Dict) (k : Key) (h : WFd d) : WFd (d.del k) := by
  unfold WFd Dict.del at *
  exact List.Nodup.sublist (List.Sublist.map _ List.filter_sublist) h

theorem WFd_fold (ps : List (Key × Val)) (d0 : Dict) (h : WFd d0) :
    WFd (ps.foldl (fun d p => setBy keyEq d p.1 p.2) d0) := by
  induction ps generalizing d0 with
  | nil => exact h
  | cons p ps ih => exact ih _ (WFd_set d0 p.1 p.2 h)

theorem WFd_ofPairs (ps : List (Key × Val)) : WFd (Dict.ofPairs ps) :=
  WFd_fold ps [] WFd_nil

/-- in a dictionary without duplicate keys, the stored pairs are exactly the bindings -/
theorem mem_iff_abs (d : Dict) (h : WFd d) (nk : NKey) (v : Val) :
    (∃ k', (k', v) ∈ d ∧ k'.norm = nk) ↔ absDict d nk = some v := by
  induction d with
  | nil => simp [absDict_nil]
  | cons p rest ih =>
    obtain ⟨k0, v0⟩ := p
    have h0 : ¬ k0.norm ∈ keys rest ∧ WFd rest := by
      simpa [WFd, keys, List.nodup_cons] using h
    rw [absDict_cons]
    by_cases hk : k0.norm = nk
    · simp only [hk, if_true]
      constructor
      · rintro ⟨k', hm, hn⟩
        rcases List.mem_cons.mp hm with e | hm'
        · cases e; rfl
        · exfalso
          apply h0.1
          rw [hk, ← hn]
          exact List.mem_map.mpr ⟨(k', v), hm', rfl⟩
      · intro e
        cases e
        exact ⟨k0, List.mem_cons_self, hk⟩
    · simp only [hk, if_false]
      rw [← ih h0.2]
      constructor
      · rintro ⟨k', hm, hn⟩
        rcases List.mem_cons.mp hm with e | hm'
        · cases e; exact absurd hn hk
        · exact ⟨k', hm', hn⟩
      · rintro ⟨k', hm, hn⟩
        exact ⟨k', List.mem_cons_of_mem _ hm, hn⟩

theorem mem_set (d : Dict) (k : Key) (v : Val) (p : Key × Val) (h : p ∈ d.set k v) :
    p ∈ d ∨ p.2 = v := by
  induction d with
  | nil => simp [set_nil] at h; simp [h]
  | cons q rest ih =>
    obtain ⟨k', v'⟩ := q
    rw [set_cons] at h
    by_cases hk : k'.norm = k.norm
    · simp only [hk, if_true] at h
      rcases List.mem_cons.mp h with e | hm
      · right; rw [e]
      · left; exact List.mem_cons_of_mem _ hm
    · simp only [hk, if_false] at h
      rcases List.mem_cons.mp h with e | hm
      · left; rw [e]; exact List.mem_cons_self
      · rcases ih hm with h1 | h1
        · left; exact List.mem_cons_of_mem _ h1
        · right; exact h1

theorem vals_fold (P : Val → Prop) (ps : List (Key × Val)) (d0 : Dict)
    (h0 : ∀ p ∈ d0, P p.2) (hp : ∀ p ∈ ps, P p.2) :
    ∀ p ∈ ps.foldl (fun d p => setBy keyEq d p.1 p.2) d0, P p.2 := by
  induction ps generalizing d0 with
  | nil => exact h0
  | cons q ps ih =>
    simp only [List.foldl_cons]
    apply ih
    · intro p hm
      rcases mem_set d0 q.1 q.2 p hm with h1 | h1
      · exact h0 p h1
      · rw [h1]; exact hp q List.mem_cons_self
    · intro p hm
      exact hp p (List.mem_cons_of_mem _ hm)

theorem vals_ofPairs_lits (n : Nat) (ps : List (Key × String)) :
    ∀ p ∈ Dict.ofPairs (lits ps), valOK n p.2 := by
  apply vals_fold (valOK n) (lits ps) [] (by simp)
  intro p hm
  simp only [lits, List.mem_map] at hm
  obtain ⟨q, _, rfl⟩ := hm
  trivial

theorem valOK_mono {n m : Nat} {v : Val} (h : valOK n v) (hle : n ≤ m) : valOK m v := by
  cases v with
  | data w => trivial
  | ref r => exact Nat.lt_of_lt_of_le h hle

theorem mem_of_lookup {β : Type} (l : List (String × β)) (x : String) (v : β)
    (h : l.lookup x = some v) : (x, v) ∈ l := by
  induction l with
  | nil => simp [List.lookup] at h
  | cons p rest ih =>
    obtain ⟨a, b⟩ := p
    rw [List.lookup_cons] at h
    by_cases e : x == a
    · simp only [e] at h
      have ea : x = a := by simpa using e
      cases h
      rw [ea]; exact List.mem_cons_self
    · simp only [e] at h
      exact List.mem_cons_of_mem _ (ih h)

theorem lookup_map_snd {β γ : Type} (f : β → γ) (l : List (String × β)) (x : String) :
    (l.map (fun p => (p.1, f p.2))).lookup x = (l.lookup x).map f := by
  induction l with
  | nil => rfl
  | cons p rest ih =>
    obtain ⟨a, b⟩ := p
    simp only [List.map_cons, List.lookup_cons]
    by_cases e : x == a <;> simp [e, ih]

/-! ## helper lemmas: the heap -/

theorem abs_vars (s : State) : (abs s).vars = s.vars := rfl

theorem abs_heap_length (s : State) : (abs s).heap.length = s.heap.length := by simp [abs]

theorem deref_abs (s : State) (x : String) :
    (abs s).deref x =
      match s.deref x with
      | some (r, d) => some (r, absDict d)
      | none => none := by
  unfold AState.deref State.deref
  rw [abs_vars]
  cases s.vars.lookup x with
  | none => rfl
  | some v =>
    cases v with
    | data w => rfl
    | ref r =>
      simp only [abs, List.getElem?_map]
      cases s.heap[r]? <;> rfl

theorem protos_abs (s : State) (f : String) :
    (abs s).protos.lookup f = (s.protos.lookup f).map absDict := by
  simp only [abs]
  exact lookup_map_snd absDict s.protos f

theorem deref_some (s : State) (x : String) (r : Nat) (d : Dict) (h : s.deref x = some (r, d)) :
    s.vars.lookup x = some (.ref r) ∧ s.heap[r]? = some d := by
  unfold State.deref at h
  cases hv : s.vars.lookup x with
  | none => simp [hv] at h
  | some v =>
    cases v with
    | data w => simp [hv] at h
    | ref r' =>
      simp only [hv] at h
      cases hh : s.heap[r']? with
      | none => simp [hh] at h
      | some d' =>
        simp only [hh, Option.some.injEq, Prod.mk.injEq] at h
        obtain ⟨rfl, rfl⟩ := h
        exact ⟨rfl, hh⟩

/-- every step of the machine is the specification's step on the abstraction -/
theorem abs_step (s : State) (op : Op) : abs (step s op).1 = specStep (abs s) op := by
  cases op with
  | lit x ps => simp [step, specStep, abs, absDict_ofPairs]
  | deffn f ps => simp [step, specStep, abs, absDict_ofPairs]
  | call x f =>
    simp only [step, specStep, protos_abs]
    cases s.protos.lookup f with
    | none => rfl
    | some p => simp [abs]
  | join l d k a into =>
    simp only [step, specStep, deref_abs, abs_vars]
    cases s.deref d with
    | none => rfl
    | some rd =>
      obtain ⟨r, dict⟩ := rd
      cases resolve s.vars a with
      | none => rfl
      | some v => simp [abs, List.map_set, absDict_set]
  | remove d k into =>
    simp only [step, specStep, deref_abs, abs_vars]
    cases s.deref d with
    | none => rfl
    | some rd =>
      obtain ⟨r, dict⟩ := rd
      simp [abs, List.map_set, absDict_del]
  | find d k into =>
    simp only [step, specStep, deref_abs, abs_vars]
    cases s.deref d with
    | none => rfl
    | some rd =>
      obtain ⟨r, dict⟩ := rd
      simp only [get_eq_abs]
      cases absDict dict k.norm with
      | none => cases into <;> rfl
      | some v => rfl
  | index d k into =>
    simp only [step, specStep, deref_abs, abs_vars]
    cases s.deref d with
    | none => rfl
    | some rd =>
      obtain ⟨r, dict⟩ := rd
      cases k with
      | int n =>
        simp only [get_eq_abs]
        cases absDict dict (Key.int n).norm <;> rfl
      | _ => rfl
  | indexMany d ks =>
    simp only [step, specStep]
    cases s.deref d with
    | none => rfl
    | some rd =>
      obtain ⟨r, dict⟩ := rd
      simp only
      cases List.mapM dict.get ks <;> rfl
  | size d =>
    simp only [step, specStep]
    cases s.deref d with
    | none => rfl
    | some rd => rfl
  | each d =>
    simp only [step, specStep]
    cases s.deref d with
    | none => rfl
    | some rd => rfl
  | alias x d =>
    simp only [step, specStep, abs_vars]
    cases s.vars.lookup d <;> rfl
  | joinBad d k =>
    simp only [step, specStep]
    cases s.deref d <;> rfl

theorem get_fun (dict : Dict) : dict.get = fun k => absDict dict k.norm := by
  funext k; exact get_eq_abs dict k

/-- every result of the machine is one the specification allows -/
theorem out_ok (s : State) (h : Inv s) (op : Op) : specOut (abs s) op (step s op).2 := by
  cases op with
  | lit x ps => simp [step, specOut, abs_heap_length]
  | deffn f ps => simp [step, specOut]
  | call x f =>
    simp only [step, specOut, protos_abs]
    cases s.protos.lookup f with
    | none => rfl
    | some p => simp [abs_heap_length]
  | join l d k a into =>
    simp only [step, specOut, deref_abs, abs_vars]
    cases s.deref d with
    | none => rfl
    | some rd =>
      obtain ⟨r, dict⟩ := rd
      cases resolve s.vars a with
      | none => rfl
      | some v => rfl
  | remove d k into =>
    simp only [step, specOut, deref_abs]
    cases s.deref d with
    | none => rfl
    | some rd => rfl
  | find d k into =>
    simp only [step, specOut, deref_abs]
    cases s.deref d with
    | none => rfl
    | some rd =>
      obtain ⟨r, dict⟩ := rd
      simp only [get_eq_abs]
      cases absDict dict k.norm with
      | none => cases into <;> rfl
      | some v => rfl
  | index d k into =>
    simp only [step, specOut, deref_abs]
    cases s.deref d with
    | none => rfl
    | some rd =>
      obtain ⟨r, dict⟩ := rd
      cases k with
      | int n =>
        simp only [get_eq_abs]
        cases absDict dict (Key.int n).norm <;> rfl
      | _ => rfl
  | indexMany d ks =>
    simp only [step, specOut, deref_abs]
    cases s.deref d with
    | none => rfl
    | some rd =>
      obtain ⟨r, dict⟩ := rd
      simp only [get_fun]
      cases List.mapM (fun k => absDict dict k.norm) ks <;> rfl
  | size d =>
    simp only [step, specOut, deref_abs]
    cases hd : s.deref d with
    | none => rfl
    | some rd =>
      obtain ⟨r, dict⟩ := rd
      have hm : dict ∈ s.heap := List.mem_of_getElem? (deref_some s d r dict hd).2
      refine ⟨keys dict, h.heapWF dict hm, ?_, ?_⟩
      · intro k; exact (abs_isSome_iff dict k).symm
      · simp [keys]
  | each d =>
    simp only [step, specOut, deref_abs]
    cases hd : s.deref d with
    | none => rfl
    | some rd =>
      obtain ⟨r, dict⟩ := rd
      have hm : dict ∈ s.heap := List.mem_of_getElem? (deref_some s d r dict hd).2
      exact ⟨dict, rfl, h.heapWF dict hm, fun k v => mem_iff_abs dict (h.heapWF dict hm) k v⟩
  | alias x d =>
    simp only [step, specOut, abs_vars]
    cases s.vars.lookup d <;> rfl
  | joinBad d k =>
    simp only [step, specOut, deref_abs]
    cases s.deref d <;> rfl

/-! ## the invariant is preserved -/

theorem inv_init : Inv init :=
  ⟨by simp [init], by simp [init], by simp [init], by simp [init], by simp [init]⟩

theorem bindOpt_ok (n : Nat) (vars : List (String × Val)) (into : Option String) (v : Val)
    (hv : ∀ p ∈ vars, valOK n p.2) (h : valOK n v) : ∀ p ∈ bindOpt vars into v, valOK n p.2 := by
  cases into with
  | none => exact hv
  | some x =>
    intro p hp
    rcases List.mem_cons.mp hp with e | hp'
    · rw [e]; exact h
    · exact hv p hp'

theorem inv_alloc (s : State) (h : Inv s) (x : String) (d : Dict) (hwf : WFd d)
    (hv : ∀ p ∈ d, valOK (s.heap.length + 1) p.2) :
    Inv { s with heap := s.heap ++ [d], vars := (x, .ref s.heap.length) :: s.vars } := by
  refine ⟨?_, h.protoWF, ?_, ?_, h.protoOK⟩
  · intro d' hd'
    rcases List.mem_append.mp hd' with hh | hh
    · exact h.heapWF d' hh
    · simp at hh; rw [hh]; exact hwf
  · intro p hp
    simp only [List.length_append, List.length_singleton]
    rcases List.mem_cons.mp hp with e | hp'
    · rw [e]; exact Nat.lt_succ_self _
    · exact valOK_mono (h.varsOK p hp') (Nat.le_succ _)
  · intro d' hd' p hp
    simp only [List.length_append, List.length_singleton]
    rcases List.mem_append.mp hd' with hh | hh
    · exact valOK_mono (h.heapOK d' hh p hp) (Nat.le_succ _)
    · simp at hh; rw [hh] at hp; exact hv p hp

theorem inv_update (s : State) (h : Inv s) (r : Nat) (d' : Dict) (hwf : WFd d')
    (hv : ∀ p ∈ d', valOK s.heap.length p.2) (vars' : List (String × Val))
    (hvars : ∀ p ∈ vars', valOK s.heap.length p.2) :
    Inv { s with heap := s.heap.set r d', vars := vars' } := by
  refine ⟨?_, h.protoWF, ?_, ?_, h.protoOK⟩
  · intro d hd
    rcases List.mem_or_eq_of_mem_set hd with hh | hh
    · exact h.heapWF d hh
    · rw [hh]; exact hwf
  · intro p hp
    simp only [List.length_set]
    exact hvars p hp
  · intro d hd p hp
    simp only [List.length_set]
    rcases List.mem_or_eq_of_mem_set hd with hh | hh
    · exact h.heapOK d hh p hp
    · rw [hh] at hp; exact hv p hp

theorem inv_vars (s : State) (h : Inv s) (vars' : List (String × Val))
    (hvars : ∀ p ∈ vars', valOK s.heap.length p.2) : Inv { s with vars := vars' } :=
  ⟨h.heapWF, h.protoWF, hvars, h.heapOK, h.protoOK⟩

theorem resolve_ok (s : State) (h : Inv s) (a : Arg) (v : Val) (hv : resolve s.vars a = some v) :
    valOK s.heap.length v := by
  cases a with
  | data w => simp [resolve] at hv; rw [← hv]; trivial
  | var x => exact h.varsOK _ (mem_of_lookup s.vars x v hv)

theorem get_mem (dict : Dict) (k : Key) (v : Val) (h : dict.get k = some v) :
    ∃ k', (k', v) ∈ dict := by
  unfold Dict.get getBy at h
  cases hf : List.find? (fun p => keyEq p.1 k) dict with
  | none => simp [hf] at h
  | some p =>
    simp only [hf, Option.some.injEq] at h
    exact ⟨p.1, by rw [← h]; exact List.mem_of_find?_eq_some hf⟩

theorem inv_step (s : State) (h : Inv s) (op : Op) : Inv (step s op).1 := by
  cases op with
  | lit x ps =>
    exact inv_alloc s h x _ (WFd_ofPairs _) (vals_ofPairs_lits _ ps)
  | deffn f ps =>
    refine ⟨h.heapWF, ?_, h.varsOK, h.heapOK, ?_⟩
    · intro p hp
      rcases List.mem_cons.mp hp with e | hp'
      · rw [e]; exact WFd_ofPairs _
      · exact h.protoWF p hp'
    · intro q hq
      rcases List.mem_cons.mp hq with e | hq'
      · rw [e]; exact vals_ofPairs_lits 0 ps
      · exact h.protoOK q hq'
  | call x f =>
    simp only [step]
    cases hl : s.protos.lookup f with
    | none => exact h
    | some p =>
      have hm := mem_of_lookup s.protos f p hl
      exact inv_alloc s h x p (h.protoWF _ hm)
        (fun q hq => valOK_mono (h.protoOK _ hm q hq) (Nat.zero_le _))
  | join l d k a into =>
    simp only [step]
    cases hd : s.deref d with
    | none => exact h
    | some rd =>
      obtain ⟨r, dict⟩ := rd
      cases hv : resolve s.vars a with
      | none => exact h
      | some v =>
        have hr := (deref_some s d r dict hd).2
        have hm : dict ∈ s.heap := List.mem_of_getElem? hr
        have hlt : r < s.heap.length := by
          have := List.getElem?_eq_some_iff.mp hr
          exact this.1
        apply inv_update s h r _ (WFd_set dict k v (h.heapWF dict hm))
        · intro p hp
          rcases mem_set dict k v p hp with h1 | h1
          · exact h.heapOK dict hm p h1
          · rw [h1]; exact resolve_ok s h a v hv
        · exact bindOpt_ok _ _ into _ h.varsOK hlt
  | remove d k into =>
    simp only [step]
    cases hd : s.deref d with
    | none => exact h
    | some rd =>
      obtain ⟨r, dict⟩ := rd
      have hr := (deref_some s d r dict hd).2
      have hm : dict ∈ s.heap := List.mem_of_getElem? hr
      have hlt : r < s.heap.length := (List.getElem?_eq_some_iff.mp hr).1
      apply inv_update s h r _ (WFd_del dict k (h.heapWF dict hm))
      · intro p hp
        exact h.heapOK dict hm p (List.mem_filter.mp hp).1
      · exact bindOpt_ok _ _ into _ h.varsOK hlt
  | find d k into =>
    simp only [step]
    cases hd : s.deref d with
    | none => exact h
    | some rd =>
      obtain ⟨r, dict⟩ := rd
      have hm : dict ∈ s.heap := List.mem_of_getElem? (deref_some s d r dict hd).2
      dsimp only
      cases hg : dict.get k with
      | none => cases into <;> exact h
      | some v =>
        obtain ⟨k', hk'⟩ := get_mem dict k v hg
        exact inv_vars s h _ (bindOpt_ok _ _ into _ h.varsOK (h.heapOK dict hm _ hk'))
  | index d k into =>
    simp only [step]
    cases hd : s.deref d with
    | none => exact h
    | some rd =>
      obtain ⟨r, dict⟩ := rd
      have hr := (deref_some s d r dict hd).2
      have hm : dict ∈ s.heap := List.mem_of_getElem? hr
      have hlt : r < s.heap.length := (List.getElem?_eq_some_iff.mp hr).1
      cases k with
      | int n =>
        simp only
        cases hg : dict.get (Key.int n) with
        | none => exact h
        | some v =>
          obtain ⟨k', hk'⟩ := get_mem dict _ v hg
          exact inv_vars s h _ (bindOpt_ok _ _ into _ h.varsOK (h.heapOK dict hm _ hk'))
      | _ => exact inv_vars s h _ (bindOpt_ok _ _ into _ h.varsOK hlt)
  | indexMany d ks =>
    simp only [step]
    cases s.deref d with
    | none => exact h
    | some rd =>
      simp only
      cases List.mapM rd.2.get ks <;> exact h
  | size d =>
    simp only [step]
    cases s.deref d <;> exact h
  | each d =>
    simp only [step]
    cases s.deref d <;> exact h
  | alias x d =>
    simp only [step]
    cases hl : s.vars.lookup d with
    | none => exact h
    | some v =>
      refine inv_vars s h _ ?_
      intro p hp
      rcases List.mem_cons.mp hp with e | hp'
      · rw [e]; exact h.varsOK (d, v) (mem_of_lookup s.vars d v hl)
      · exact h.varsOK p hp'
  | joinBad d k =>
    simp only [step]
    cases s.deref d <;> exact h

/-! ## frame lemmas -/

theorem deref_of (s : State) (y : String) (r : Nat) (d : Dict)
    (hy : s.vars.lookup y = some (.ref r)) (hr : s.heap[r]? = some d) : s.deref y = some (r, d) := by
  simp [State.deref, hy, hr]

theorem getElem?_set_self' (heap : List Dict) (r : Nat) (d d' : Dict) (hr : heap[r]? = some d) :
    (heap.set r d')[r]? = some d' :=
  List.getElem?_set_self (List.getElem?_eq_some_iff.mp hr).1

theorem find_out (s : State) (y : String) (k : Key) :
    (step s (.find y k none)).2 =
      match s.deref y with
      | none => .bad
      | some (_, d) =>
        match d.get k with
        | some v => .val v
        | none => .undef := by
  simp only [step]
  cases s.deref y with
  | none => rfl
  | some rd => dsimp only; cases rd.2.get k <;> rfl

/-! ## property theorems -/

theorem inv_run (s : State) (h : Inv s) (ops : List Op) : Inv (run s ops).1 := by
  induction ops generalizing s with
  | nil => exact h
  | cons op ops ih => exact ih (step s op).1 (inv_step s h op)

/-- every state the machine can reach satisfies the invariant (no dictionary holds two equal
    keys, every reference points into the heap) -/
theorem reachable_inv (ops : List Op) : Inv (run init ops).1 := inv_run init inv_init ops

theorem refines_from (s : State) (h : Inv s) (ops : List Op) :
    abs (run s ops).1 = specRun (abs s) ops ∧ specAccepts (abs s) ops (run s ops).2 := by
  induction ops generalizing s with
  | nil => exact ⟨rfl, trivial⟩
  | cons op ops ih =>
    have ih' := ih (step s op).1 (inv_step s h op)
    rw [abs_step] at ih'
    exact ⟨ih'.1, out_ok s h op, ih'.2⟩

/-- **dict_refines_map** — for EVERY operation sequence (literal, function definition, call,
    join from either side, remove, find, index, size, each, alias; any keys, any values,
    any length) the dictionary heap refines the heap of finite maps: the final abstract
    state is the specification's, and every result along the way is one the specification
    allows in the state it was produced in (lookup after add / overwrite / remove, other
    keys unaffected, missing key → :undefined, `#d` = number of distinct keys, each = every
    binding exactly once). -/
theorem dict_refines_map (ops : List Op) :
    abs (run init ops).1 = specRun (abs init) ops ∧
    specAccepts (abs init) ops (run init ops).2 :=
  refines_from init inv_init ops

/-- **alias_sees_updates** — whatever two variables hold the same dictionary (however the
    alias arose), an entry added or overwritten through one is what a lookup through the
    other returns, for every spelling of the key that Python compares equal. -/
theorem alias_sees_updates (s : State) (x y : String) (r : Nat) (dict : Dict)
    (hx : s.deref x = some (r, dict)) (hy : s.vars.lookup y = some (.ref r))
    (k k' : Key) (hk : k'.norm = k.norm) (a : Arg) (v : Val) (hv : resolve s.vars a = some v)
    (left : Bool) :
    (step (step s (.join left x k a none)).1 (.find y k' none)).2 = .val v := by
  have hr := (deref_some s x r dict hx).2
  have h1 : (step s (.join left x k a none)).1 =
      { s with heap := s.heap.set r (dict.set k v) } := by
    simp [step, hx, hv, bindOpt]
  rw [h1]
  have h2 : State.deref { s with heap := s.heap.set r (dict.set k v) } y
      = some (r, dict.set k v) :=
    deref_of _ y r _ hy (getElem?_set_self' s.heap r dict _ hr)
  simp [step, h2, get_eq_abs, absDict_set, AMap.upd, hk]

/-- … and an entry removed through one alias is missing through the other -/
theorem alias_sees_removal (s : State) (x y : String) (r : Nat) (dict : Dict)
    (hx : s.deref x = some (r, dict)) (hy : s.vars.lookup y = some (.ref r))
    (k k' : Key) (hk : k'.norm = k.norm) :
    (step (step s (.remove x k none)).1 (.find y k' none)).2 = .undef := by
  have hr := (deref_some s x r dict hx).2
  have h1 : (step s (.remove x k none)).1 = { s with heap := s.heap.set r (dict.del k) } := by
    simp [step, hx, bindOpt]
  rw [h1]
  have h2 : State.deref { s with heap := s.heap.set r (dict.del k) } y = some (r, dict.del k) :=
    deref_of _ y r _ hy (getElem?_set_self' s.heap r dict _ hr)
  simp [step, h2, get_eq_abs, absDict_del, AMap.upd, hk]

/-- **other keys are unaffected** (and so is every other dictionary): after a join or a
    remove through `x`, a lookup of a different key through ANY variable returns what it
    returned before -/
theorem other_keys_unaffected (s : State) (x y : String) (r : Nat) (dict : Dict)
    (hx : s.deref x = some (r, dict)) (k k' : Key) (hk : k'.norm ≠ k.norm)
    (a : Arg) (v : Val) (hv : resolve s.vars a = some v) (left : Bool) :
    (step (step s (.join left x k a none)).1 (.find y k' none)).2 = (step s (.find y k' none)).2 ∧
    (step (step s (.remove x k none)).1 (.find y k' none)).2 = (step s (.find y k' none)).2 := by
  have hr := (deref_some s x r dict hx).2
  have h1 : (step s (.join left x k a none)).1 =
      { s with heap := s.heap.set r (dict.set k v) } := by
    simp [step, hx, hv, bindOpt]
  have h1' : (step s (.remove x k none)).1 = { s with heap := s.heap.set r (dict.del k) } := by
    simp [step, hx, bindOpt]
  rw [h1, h1', find_out, find_out, find_out]
  simp only [State.deref]
  cases hy : s.vars.lookup y with
  | none => simp
  | some w =>
    cases w with
    | data t => simp
    | ref r' =>
      by_cases e : r = r'
      · subst e
        simp [getElem?_set_self' s.heap r dict _ hr, hr, get_eq_abs, absDict_set, absDict_del,
          AMap.upd, hk]
      · simp [List.getElem?_set_ne e]

/-- the same key in a different dictionary is unaffected too -/
theorem other_dicts_unaffected (s : State) (x y : String) (r r' : Nat) (dict : Dict)
    (hx : s.deref x = some (r, dict)) (hy : s.vars.lookup y = some (.ref r')) (hne : r ≠ r')
    (k k' : Key) (a : Arg) (v : Val) (hv : resolve s.vars a = some v) (left : Bool) :
    (step (step s (.join left x k a none)).1 (.find y k' none)).2 = (step s (.find y k' none)).2 ∧
    (step (step s (.remove x k none)).1 (.find y k' none)).2 = (step s (.find y k' none)).2 := by
  have h1 : (step s (.join left x k a none)).1 =
      { s with heap := s.heap.set r (dict.set k v) } := by
    simp [step, hx, hv, bindOpt]
  have h1' : (step s (.remove x k none)).1 = { s with heap := s.heap.set r (dict.del k) } := by
    simp [step, hx, bindOpt]
  rw [h1, h1', find_out, find_out, find_out]
  simp [State.deref, hy, List.getElem?_set_ne hne]

/-- **a missing key yields :undefined** -/
theorem missing_key_undefined (s : State) (d : String) (r : Nat) (dict : Dict)
    (hd : s.deref d = some (r, dict)) (k : Key) (hk : ∀ p ∈ dict, p.1.norm ≠ k.norm) :
    (step s (.find d k none)).2 = .undef := by
  have : absDict dict k.norm = none := by
    cases h : absDict dict k.norm with
    | none => rfl
    | some v =>
      exfalso
      have hs : (absDict dict k.norm).isSome := by simp [h]
      rw [abs_isSome_iff] at hs
      simp only [keys, List.mem_map] at hs
      obtain ⟨p, hp, he⟩ := hs
      exact hk p hp he
  simp [step, hd, get_eq_abs, this]

/-- two duplicate-free enumerations of the same key set have the same length, so "the
    number of distinct keys" is well defined -/
theorem enum_length_unique (m : AMap) (ks ks' : List NKey) (h : ks.Nodup) (h' : ks'.Nodup)
    (hm : ∀ k, k ∈ ks ↔ (m k).isSome) (hm' : ∀ k, k ∈ ks' ↔ (m k).isSome) :
    ks.length = ks'.length :=
  List.Perm.length_eq ((List.perm_ext_iff_of_nodup h h').mpr fun k => (hm k).trans (hm' k).symm)

/-- **#d is the number of distinct keys**, in every reachable state -/
theorem size_counts_distinct_keys (ops : List Op) (d : String) (r : Nat) (dict : Dict)
    (hd : (run init ops).1.deref d = some (r, dict)) :
    ∀ ks : List NKey, ks.Nodup → (∀ k, k ∈ ks ↔ (absDict dict k).isSome) →
      (step (run init ops).1 (.size d)).2 = .num ks.length := by
  intro ks hn hm
  have hinv := reachable_inv ops
  have hmem : dict ∈ (run init ops).1.heap := List.mem_of_getElem? (deref_some _ d r dict hd).2
  have := enum_length_unique (absDict dict) (keys dict) ks (hinv.heapWF dict hmem) hn
    (fun k => (abs_isSome_iff dict k).symm) hm
  simp [step, hd, ← this, keys]

/-- **f'd visits every key/value pair exactly once**, in every reachable state: the list of
    pairs the function is applied to has no two equal keys and contains exactly the
    bindings of the map -/
theorem each_visits_every_pair_once (ops : List Op) (d : String) (r : Nat) (dict : Dict)
    (hd : (run init ops).1.deref d = some (r, dict)) :
    ∃ ps, (step (run init ops).1 (.each d)).2 = .pairs ps ∧
      (ps.map (fun p => p.1.norm)).Nodup ∧
      ∀ k v, (∃ k', (k', v) ∈ ps ∧ k'.norm = k) ↔ absDict dict k = some v := by
  have hinv := reachable_inv ops
  have hmem : dict ∈ (run init ops).1.heap := List.mem_of_getElem? (deref_some _ d r dict hd).2
  refine ⟨dict, by simp [step, hd], hinv.heapWF dict hmem, ?_⟩
  exact fun k v => mem_iff_abs dict (hinv.heapWF dict hmem) k v

/-- no operation other than a function definition touches a parsed literal -/
theorem protos_stable (s : State) (op : Op) (h : ∀ f ps, op ≠ .deffn f ps) :
    (step s op).1.protos = s.protos := by
  cases op with
  | deffn f ps => exact absurd rfl (h f ps)
  | lit x ps => rfl
  | call x f => simp only [step]; cases s.protos.lookup f <;> rfl
  | join l d k a into =>
    simp only [step]
    cases s.deref d with
    | none => rfl
    | some rd => cases resolve s.vars a <;> rfl
  | remove d k into => simp only [step]; cases s.deref d <;> rfl
  | find d k into =>
    simp only [step]
    cases s.deref d with
    | none => rfl
    | some rd => dsimp only; cases rd.2.get k <;> cases into <;> rfl
  | index d k into =>
    simp only [step]
    cases s.deref d with
    | none => rfl
    | some rd =>
      cases k with
      | int n => dsimp only; cases rd.2.get (Key.int n) <;> rfl
      | _ => rfl
  | indexMany d ks =>
    simp only [step]
    cases s.deref d with
    | none => rfl
    | some rd => dsimp only; cases List.mapM rd.2.get ks <;> rfl
  | size d => simp only [step]; cases s.deref d <;> rfl
  | each d => simp only [step]; cases s.deref d <;> rfl
  | alias x d => simp only [step]; cases s.vars.lookup d <;> rfl
  | joinBad d k => simp only [step]; cases s.deref d <;> rfl

/-- **literal_is_fresh** — every evaluation of a dictionary literal (at top level or inside
    a function called again) yields a NEW dictionary: its reference is one that nothing in
    the earlier state holds (not a variable, not a value of any dictionary), it starts out
    as the parsed literal, and all earlier dictionaries are left as they were. -/
theorem literal_is_fresh (s : State) (h : Inv s) (x f : String) (p : Dict)
    (hp : s.protos.lookup f = some p) :
    let s1 := (step s (.call x f)).1
    let r := s.heap.length
    (step s (.call x f)).2 = .val (.ref r) ∧
    s1.deref x = some (r, p) ∧
    (∀ q ∈ s.vars, q.2 ≠ .ref r) ∧
    (∀ d ∈ s.heap, ∀ q ∈ d, q.2 ≠ .ref r) ∧
    (∀ r', r' < r → s1.heap[r']? = s.heap[r']?) ∧
    s1.protos = s.protos := by
  refine ⟨by simp [step, hp], by simp [step, hp, State.deref], ?_, ?_, ?_, by simp [step, hp]⟩
  · intro q hq e
    have := h.varsOK q hq
    rw [e] at this
    exact Nat.lt_irrefl _ this
  · intro d hd q hq e
    have := h.heapOK d hd q hq
    rw [e] at this
    exact Nat.lt_irrefl _ this
  · intro r' hr'
    simp [step, hp, List.getElem?_append, hr']

/-- the same for the literal written at top level -/
theorem toplevel_literal_is_fresh (s : State) (h : Inv s) (x : String) (ps : List (Key × String)) :
    let s1 := (step s (.lit x ps)).1
    let r := s.heap.length
    s1.deref x = some (r, Dict.ofPairs (lits ps)) ∧
    (∀ q ∈ s.vars, q.2 ≠ .ref r) ∧
    (∀ d ∈ s.heap, ∀ q ∈ d, q.2 ≠ .ref r) ∧
    (∀ r', r' < r → s1.heap[r']? = s.heap[r']?) := by
  refine ⟨by simp [step, State.deref], ?_, ?_, ?_⟩
  · intro q hq e
    have := h.varsOK q hq
    rw [e] at this
    exact Nat.lt_irrefl _ this
  · intro d hd q hq e
    have := h.heapOK d hd q hq
    rw [e] at this
    exact Nat.lt_irrefl _ this
  · intro r' hr'
    simp [step, List.getElem?_append, hr']

/-- the state after `x::f(); y::f()` -/
def after2 (s : State) (p : Dict) (x y : String) : State :=
  { s with heap := s.heap ++ [p] ++ [p],
           vars := (y, .ref (s.heap.length + 1)) :: (x, .ref s.heap.length) :: s.vars }

/-- **two evaluations of one literal have independent histories**: call the function twice,
    update the first result any way you like (add, overwrite, remove) — the second result
    still reads as the literal, and a third evaluation still yields the literal. -/
theorem fresh_literals_independent (s : State) (x y f : String) (hxy : x ≠ y) (p : Dict)
    (hp : s.protos.lookup f = some p) (k k' : Key) (w : String) (left : Bool) :
    let s2 := (step (step s (.call x f)).1 (.call y f)).1
    let s3 := (step s2 (.join left x k (.data w) none)).1
    let s4 := (step s2 (.remove x k none)).1
    (step s3 (.find y k' none)).2 = (step s2 (.find y k' none)).2 ∧
    (step s4 (.find y k' none)).2 = (step s2 (.find y k' none)).2 ∧
    (step s2 (.find y k' none)).2 = (match p.get k' with | some v => .val v | none => .undef) ∧
    (step s3 (.call x f)).1.deref x = some (s.heap.length + 2, p) := by
  have hs1 : (step s (.call x f)).1 =
      { s with heap := s.heap ++ [p], vars := (x, .ref s.heap.length) :: s.vars } := by
    simp [step, hp]
  have hs2 : (step (step s (.call x f)).1 (.call y f)).1 = after2 s p x y := by
    rw [hs1]; simp [step, hp, after2]
  have hxy' : (x == y) = false := by simpa using hxy
  have hx2 : (after2 s p x y).deref x = some (s.heap.length, p) := by
    simp [after2, State.deref, List.lookup_cons, hxy']
  have hne : s.heap.length ≠ s.heap.length + 1 := Nat.ne_of_lt (Nat.lt_succ_self _)
  have hy2 : (after2 s p x y).vars.lookup y = some (.ref (s.heap.length + 1)) := by
    simp [after2]
  have hfr := other_dicts_unaffected _ x y _ _ p hx2 hy2 hne k k' (.data w) (.data w) rfl left
  dsimp only
  rw [hs2]
  refine ⟨hfr.1, hfr.2, ?_, ?_⟩
  · rw [find_out]
    simp [after2, State.deref]
  · have hp2 : (after2 s p x y).protos.lookup f = some p := hp
    have hl2 : (after2 s p x y).heap.length = s.heap.length + 2 := by simp [after2]
    have hj : (step (after2 s p x y) (.join left x k (.data w) none)).1 =
        { after2 s p x y with
          heap := (after2 s p x y).heap.set s.heap.length (p.set k (.data w)) } := by
      simp [step, hx2, resolve, bindOpt]
    rw [hj]
    simp [step, hp2, State.deref, hl2]

/-! ## operations that raise; Each whose function overwrites the entries it visits -/

/-- **an operation that raises leaves every dictionary as it was**: the malformed add
    `d,[k]` (IndexError before the assignment) changes nothing at all -/
theorem failed_join_changes_nothing (s : State) (d : String) (k : Key) :
    (step s (.joinBad d k)).1 = s := by
  simp only [step]
  cases s.deref d <;> rfl

/-- overwriting an entry with itself is the identity on a dictionary without duplicate keys -/
theorem set_self (d : Dict) (h : WFd d) (k : Key) (v : Val) (hm : (k, v) ∈ d) : d.set k v = d := by
  induction d with
  | nil => cases hm
  | cons p rest ih =>
    obtain ⟨k', v'⟩ := p
    have h0 : ¬ k'.norm ∈ keys rest ∧ WFd rest := by
      simpa [WFd, keys, List.nodup_cons] using h
    rw [set_cons]
    rcases List.mem_cons.mp hm with e | hm'
    · cases e; simp
    · have hne : ¬ k'.norm = k.norm := by
        intro e
        apply h0.1
        rw [e]
        exact List.mem_map.mpr ⟨(k, v), hm', rfl⟩
      simp only [hne, if_false]
      rw [ih h0.2 hm']

theorem fold_set_self (d : Dict) (h : WFd d) (ps : List (Key × Val)) (hp : ∀ p ∈ ps, p ∈ d) :
    ps.foldl (fun acc p => acc.set p.1 p.2) d = d := by
  induction ps with
  | nil => rfl
  | cons p ps ih =>
    simp only [List.foldl_cons]
    rw [set_self d h p.1 p.2 (hp p List.mem_cons_self)]
    exact ih (fun q hq => hp q (List.mem_cons_of_mem _ hq))

/-- **Each with a function that overwrites the visited entries in place** (`{d,x;x}'d`: every
    pair is joined back under its own key): the keys never change, so every pair is still
    visited exactly once and the dictionary ends as it began — the program is `Op.each`. -/
theorem each_selfupdate_is_identity (d : Dict) (h : WFd d) :
    d.foldl (fun acc p => acc.set p.1 p.2) d = d :=
  fold_set_self d h d (fun _ hp => hp)

/-! ## the pinned tree's key comparison is not a key identity (recorded finding) -/

/-- Before the `fix:` commit a stored character compares equal to a probing symbol with the
    same text, but a stored symbol does not compare equal to a probing character: the
    number of entries depends on the order of two joins, and a symbol finds a character's
    entry.  (Replayed on the real code by the check as the known-finding witness.) -/
theorem pinned_char_symbol_order_dependent :
    (ofPairsBy keyEqPinned [(.chr "61", .data "i1"), (.sym "61", .data "i2")]).length = 1 ∧
    (ofPairsBy keyEqPinned [(.sym "61", .data "i2"), (.chr "61", .data "i1")]).length = 2 ∧
    getBy keyEqPinned [(.chr "61", .data "i1")] (.sym "61") = some (.data "i1") ∧
    getBy keyEqPinned [(.sym "61", .data "i1")] (.chr "61") = none := by decide

/-- hence no notion of "the same key" whatsoever explains the pinned comparison … -/
theorem pinned_keyeq_is_no_key_identity :
    ¬ ∃ (α : Type) (ident : Key → α), ∀ a b, keyEqPinned a b = true ↔ ident a = ident b := by
  rintro ⟨α, ident, h⟩
  have h1 := (h (.chr "61") (.sym "61")).mp (by decide)
  have h2 := (h (.sym "61") (.chr "61")).mpr h1.symm
  revert h2
  decide

/-- … while the repaired comparison is exactly equality of key identities -/
theorem keyEq_is_key_identity (a b : Key) : keyEq a b = true ↔ a.norm = b.norm := keyEq_iff a b

/-! ## non-vacuity -/

/-- a history with every kind of key, an alias, an overwrite through the alias, a removal,
    a function evaluated twice and an update of one of the results -/
def demoOps : List Op :=
  [ .lit "a" [(.int 1, "i2"), (.chr "61", "i3"), (.sym "61", "i4"), (.real 5 1, "s6162")]
  , .alias "b" "a"
  , .join true "b" (.str "61") (.data "i9") none        -- overwrites the character key 0ca
  , .find "a" (.chr "61") none
  , .join false "a" (.real 1 0) (.var "a") (some "c")   -- key 1.0 = key 1; value: the dictionary itself
  , .size "c"
  , .remove "a" (.sym "61") none
  , .find "b" (.sym "61") none
  , .deffn "f" [(.int 1, "i1")]
  , .call "x" "f"
  , .call "y" "f"
  , .join true "x" (.int 1) (.data "i7") none
  , .find "y" (.int 1) none
  , .each "a" ]

example : (run init demoOps).2 =
    [ .val (.ref 0), .val (.ref 0), .val (.ref 0), .val (.data "i9"), .val (.ref 0), .num 4,
      .val (.ref 0), .undef, .fn, .val (.ref 1), .val (.ref 2), .val (.ref 1), .val (.data "i1"),
      .pairs [(.int 1, .ref 0), (.chr "61", .data "i9"), (.real 5 1, .data "s6162")] ] := by
  decide

example : specAccepts (abs init) demoOps (run init demoOps).2 := (dict_refines_map demoOps).2

def demoDict0 : Dict :=
  Dict.ofPairs (lits [(.int 1, "i2"), (.chr "61", "i3"), (.sym "61", "i4"), (.real 5 1, "s6162")])

/-- the hypotheses of `alias_sees_updates` hold in a reachable state -/
example :
    let s := (run init (demoOps.take 2)).1
    s.deref "a" = some (0, demoDict0) ∧ s.vars.lookup "b" = some (.ref 0) := by decide

example :
    (step (step (run init (demoOps.take 2)).1 (.join true "a" (.str "61") (.data "i9") none)).1
      (.find "b" (.chr "61") none)).2 = .val (.data "i9") :=
  alias_sees_updates (run init (demoOps.take 2)).1 "a" "b" 0 demoDict0 (by decide) (by decide)
    (.str "61") (.chr "61") rfl (.data "i9") (.data "i9") rfl true

/-- the hypotheses of `literal_is_fresh` / `fresh_literals_independent` hold in a reachable state -/
example : (run init (demoOps.take 9)).1.protos.lookup "f" = some [(.int 1, .data "i1")] := by decide

example : Inv (run init (demoOps.take 9)).1 := reachable_inv _

/-- `size_counts_distinct_keys` / `each_visits_every_pair_once`: a reachable dictionary with
    three entries -/
example : ∃ r dict, (run init demoOps).1.deref "a" = some (r, dict) ∧ dict.length = 3 :=
  ⟨0, [(.int 1, .ref 0), (.chr "61", .data "i9"), (.real 5 1, .data "s6162")], by decide, by decide⟩

end Klong.C10
