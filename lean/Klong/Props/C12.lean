/-
  C12 — parsing always terminates and is repeatable: the property theorems.
  Helper lemmas live in C12Lexer (scanning loops), C12Sat (the `SatW` predicate), C12KgRead
  (`kg_read`/`read_list`), C12Parser/2/3 (one invariant per parser function, induction on fuel).
-/
import Klong.Props.C12Parser3
import Klong.Props.C12Module
namespace Klong.C12

/-! ## the lexer advances -/

/-- Every lexer function returns `i' ≥ i`, and `i' > i` whenever it returns a token; `kg_read`
    (which recurses into lists) does so for every amount of fuel `≥ 8*(|t|+1-i)+1`, never spins,
    never runs out of fuel, returns `None` only at the end of the text, in at most
    `8*(|t|+1-i)+2` steps. -/
theorem lexer_progress (cfg : Cfg) (t : Text) (i : Nat) :
    (∀ ign, i ≤ skipSpace cfg t i ign) ∧
    i ≤ readShiftedComment t i ∧
    (∀ ign, i ≤ skip cfg t i ign ∧ skip cfg t i ign ≤ i + (t.length - i)) ∧
    (∀ i' v, readNum cfg t i = (i', some v) → i < i') ∧
    i ≤ (readString t i).1 ∧
    (∀ m c, t[i]? = some c → isSymbolic cfg c = true → i < (readSym cfg t i m).1) ∧
    (i < t.length → i < (readOp t i).1) ∧
    ((peekAdverb t i).2 ≠ none → i < (peekAdverb t i).1) ∧
    (∀ fuel rn ign m, i ≤ t.length + 1 → 8 * (t.length + 1 - i) + 1 ≤ fuel →
      match kgRead cfg t fuel i rn ign m with
      | .ok i' v _ st => i ≤ i' ∧ i' ≤ t.length + 1 ∧ (v.isNone = false → i < i') ∧
                          (v.isNone = true → t.length ≤ i') ∧ st ≤ 8 * (t.length + 1 - i) + 2
      | .err _ _ st => st ≤ 8 * (t.length + 1 - i) + 2
      | .spin _ => False
      | .outOfFuel => False) := by
  refine ⟨fun ign => (skipSpace_bounds cfg t i ign).1, (readShiftedComment_bounds t i).1,
    fun ign => skip_bounds cfg t i ign, fun i' v h => readNum_some_progress cfg t i i' v h,
    (readString_bounds t i).1, fun m c h hs => readSym_progress cfg t i m c h hs,
    fun h => (readOp_bounds t i h).1, fun h => ((peekAdverb_bounds t i).2 h).1, ?_⟩
  intro fuel rn ign m hi hf
  have h := (lexer_spec cfg t fuel).1 i rn ign m hi hf
  cases hr : kgRead cfg t fuel i rn ign m with
  | ok i' v m' st =>
    rw [hr] at h
    obtain ⟨q, h1, h2⟩ := h
    cases hv : v.isNone <;> simp [KG, hv] at h2 ⊢ <;> omega
  | err e m' st =>
    rw [hr] at h
    obtain ⟨q, h1, h2⟩ := h
    simp only [KGE] at h2
    simp; omega
  | spin st => rw [hr] at h; exact h
  | outOfFuel => rw [hr] at h; exact h

example : (kgRead asciiCfg "  [1 [2 3]] x".toList 200 0 false false {}).endIndex = some 11 := by decide +kernel

/-! ## the repaired `read_sys_comment` loop ends -/

/-- With the guard (`while a and …`) the `startswith` loop of `read_sys_comment` stops within
    `|t|+1` iterations for every marker, the empty one included: `.comment(...)` never spins. -/
theorem comment_loop_terminates (cfg : Cfg) (hg : cfg.guardEmptyMarker = true) (t : Text) (a : List Char)
    (i j0 : Nat) (h : findSub a (t.drop i) 0 = some j0) :
    ∃ j, commentLoop cfg t a i (t.length + 1) j0 = some j ∧ j0 ≤ j ∧ (j = j0 ∨ i + j + a.length ≤ t.length) := by
  have hfb := findSub_bounds a (t.drop i) 0 j0 h
  simp only [List.length_drop] at hfb
  have hsome := commentLoop_some cfg hg t a i (t.length + 1) j0 (by omega) (by omega)
  cases hc : commentLoop cfg t a i (t.length + 1) j0 with
  | none => rw [hc] at hsome; simp at hsome
  | some j => exact ⟨j, rfl, commentLoop_bounds cfg hg t a i (t.length + 1) j0 j hc⟩

example : commentLoop asciiCfg ".comment(\"\")".toList [] 12 13 0 = some 0 := by decide

/-- the pinned tree (no guard): the loop of `.comment("")` is still running when the bound is hit -/
theorem pinned_comment_loop_spins : commentLoop pinnedCfg ".comment(\"\")".toList [] 12 13 0 = none := by decide

/-! ## parsing terminates, in quadratically many steps -/

/-- For EVERY string, every character classification and monad table, every initial module and
    every amount of fuel `≥ 8*(|t|+2)`, the parser of the repaired tree returns a program or an
    error: no loop runs again from the same index (`.spin`), the recursion is never cut off
    (`.outOfFuel`). -/
theorem parse_terminates (cfg : Cfg) (hg : cfg.guardEmptyMarker = true) (t : Text) (m : PState) (fuel : Nat)
    (hf : 8 * (t.length + 2) ≤ fuel) :
    (parseWith cfg fuel m t).isSpin = false ∧ (parseWith cfg fuel m t).isOutOfFuel = false ∧
    ((parseWith cfg fuel m t).isOk = true ∨ (parseWith cfg fuel m t).isErr = true) := by
  have h := (spec_all cfg hg t fuel).prog 0 false m (by omega) (by simp only [need]; omega)
  unfold parseWith
  cases hr : prog cfg t fuel 0 false m with
  | ok i v m' st => simp [Res.isSpin, Res.isOutOfFuel, Res.isOk]
  | err e m' st => simp [Res.isSpin, Res.isOutOfFuel, Res.isErr]
  | spin st => rw [hr] at h; exact absurd h (by simp [SatW])
  | outOfFuel => rw [hr] at h; exact absurd h (by simp [SatW])

/-- the entry point with its default fuel -/
theorem parse_never_spins (cfg : Cfg) (hg : cfg.guardEmptyMarker = true) (t : Text) :
    (parse cfg t).isSpin = false ∧ (parse cfg t).isOutOfFuel = false :=
  let h := parse_terminates cfg hg t {} (fuelFor t) (Nat.le_refl _)
  ⟨h.1, h.2.1⟩

example : (parse asciiCfg "1+2".toList).isOk = true := by decide +kernel
example : (parse asciiCfg "{x+".toList).isErr = true := by decide +kernel

/-- The number of steps is at most `140*(|t|+2)^2` — for a successful parse and for an error alike
    (the end index satisfies `i' ≤ |t|+1`). -/
theorem parse_steps_poly (cfg : Cfg) (hg : cfg.guardEmptyMarker = true) (t : Text) (m : PState) (fuel : Nat)
    (hf : 8 * (t.length + 2) ≤ fuel) :
    (parseWith cfg fuel m t).steps ≤ 140 * (t.length + 2) * (t.length + 2) ∧
    (∀ i v m' st, parseWith cfg fuel m t = .ok i v m' st → i ≤ t.length + 1) := by
  have h := (spec_all cfg hg t fuel).prog 0 false m (by omega) (by simp only [need]; omega)
  unfold parseWith
  cases hr : prog cfg t fuel 0 false m with
  | ok i v m' st =>
    rw [hr] at h
    obtain ⟨q, h1, h2⟩ := h
    simp only [PL, Bd] at h2
    have hq : q ≤ 140 * (t.length + 2) := by omega
    refine ⟨?_, ?_⟩
    · exact Nat.le_trans h1 (Nat.mul_le_mul_right _ hq)
    · intro i0 v0 m0 st0 heq
      cases heq
      omega
  | err e m' st =>
    rw [hr] at h
    obtain ⟨q, h1, h2⟩ := h
    simp only [EB] at h2
    have hq : q ≤ 140 * (t.length + 2) := by omega
    refine ⟨Nat.le_trans h1 (Nat.mul_le_mul_right _ hq), ?_⟩
    intro i0 v0 m0 st0 heq
    cases heq
  | spin st => rw [hr] at h; exact absurd h (by simp [SatW])
  | outOfFuel => rw [hr] at h; exact absurd h (by simp [SatW])

example : (parse asciiCfg "1+2".toList).steps = 19 := by decide +kernel

/-! ## the pinned tree: `.comment("")` never returns -/

/-- On the pinned tree (`read_sys_comment` without the guard) the parser spins on `.comment("")`:
    the negation of `parse_terminates` on a concrete witness. -/
theorem pinned_comment_spins : (parse pinnedCfg ".comment(\"\")".toList).isSpin = true := by decide +kernel

/-- the same text on the repaired tree -/
example : (parse asciiCfg ".comment(\"\")".toList).isOk = true := by decide +kernel

/-! ## repeatability -/

/-- Parsing is a function of (configuration, fuel, module state, text) and of nothing else: the
    model has no other state to read or write, so two parses of the same text in the same module
    are equal, whatever was parsed in between.  (The content of this statement for the real
    parser is in the tie: repeat / history / variable-snapshot oracles of vlib/c12.py.) -/
theorem parse_deterministic (cfg : Cfg) (fuel : Nat) (m : PState) (t u : Text) :
    let r1 := parseWith cfg fuel m t
    let _between := parseWith cfg fuel m u
    let r2 := parseWith cfg fuel m t
    r1 = r2 := rfl

/-- The only state parsing changes is the current module, and only through `parse_module`: the
    state after a parse — successful or not, for every text, fuel and initial state — is the state
    before after zero or more `parseModule` steps (`Reach`); `PState` has no other component. -/
theorem parse_module_effect (cfg : Cfg) (fuel : Nat) (m : PState) (t : Text) :
    ∀ m', (parseWith cfg fuel m t).state = some m' → Reach m m' := by
  intro m' h
  have hr := (mspec_all cfg t fuel).prog 0 false m
  unfold parseWith at h
  cases hp : prog cfg t fuel 0 false m with
  | ok i v m1 st => rw [hp] at h hr; simp only [Res.state, Option.some.injEq] at h; subst h; exact hr
  | err e m1 st => rw [hp] at h hr; simp only [Res.state, Option.some.injEq] at h; subst h; exact hr
  | spin st => rw [hp] at h; simp [Res.state] at h
  | outOfFuel => rw [hp] at h; simp [Res.state] at h

/-- the lexer changes nothing at all -/
theorem lex_module_effect (cfg : Cfg) (fuel : Nat) (m : PState) (t : Text) (i : Nat) (rn ign : Bool) :
    ∀ m', (kgRead cfg t fuel i rn ign m).state = some m' → Reach m m' := by
  intro m' h
  have hr := kgRead_rs cfg t fuel i rn ign m
  cases hp : kgRead cfg t fuel i rn ign m with
  | ok i v m1 st => rw [hp] at h hr; simp only [Res.state, Option.some.injEq] at h; subst h; exact hr
  | err e m1 st => rw [hp] at h hr; simp only [Res.state, Option.some.injEq] at h; subst h; exact hr
  | spin st => rw [hp] at h; simp [Res.state] at h
  | outOfFuel => rw [hp] at h; simp [Res.state] at h

example : (parse asciiCfg ".module(:m)".toList).state = some { mod := some ['m'] } := by decide +kernel
example : (parse asciiCfg "a".toList).state = some {} := by decide +kernel

end Klong.C12
