import Klong.Model.C12
namespace Klong.C12
end Klong.C12
