/-
  C15 — property theorems for the timer machine of `Klong.Model.C15`.
  Helper lemmas and the inductive invariant first, property theorems below the line.
-/
import Klong.Model.C15
namespace Klong.C15

/-! ## observations on logs -/

def isCreated (k : Nat) : Ev → Bool
  | .created j _ _ => j == k
  | _ => false

def created (k : Nat) (log : List Ev) : Bool := log.any (isCreated k)

@[simp] theorem stopped_nil (k : Nat) : stopped k [] = false := rfl
@[simp] theorem stopped_cons (k : Nat) (e : Ev) (l : List Ev) :
    stopped k (e :: l) = (isStop k e || stopped k l) := by simp [stopped]
@[simp] theorem created_nil (k : Nat) : created k [] = false := rfl
@[simp] theorem created_cons (k : Nat) (e : Ev) (l : List Ev) :
    created k (e :: l) = (isCreated k e || created k l) := by simp [created]

theorem stopped_append (k : Nat) (a b : List Ev) :
    stopped k (a ++ b) = (stopped k a || stopped k b) := by simp [stopped]

/-- what the log must satisfy at the moment event `e` is appended to history `rest` -/
def EvOK (rest : List Ev) : Ev → Prop
  | .tick k st I t n _ v =>
      stopped k rest = false ∧ 1 ≤ n ∧ st + n * (I : Int) ≤ t ∧
      (match lastTick k rest with
       | none => n = 1
       | some (T, n0, d0) =>
          n0 < n ∧ (0 < I → st + (n - 1) * (I : Int) ≤ T + d0 ∧ T + d0 < st + n * (I : Int)) ∧
          (I = 0 → n = n0 + 1)) ∧
      (match lastAny rest with
       | none => True
       | some (T, d0) => T + d0 ≤ t) ∧
      v = lastVer k rest
  | .timerc k r =>
      (r = 1 ∧ created k rest = true ∧ stopped k rest = false) ∨
      (r = 0 ∧ ¬ (created k rest = true ∧ stopped k rest = false))
  | _ => True

def LogOK : List Ev → Prop
  | [] => True
  | e :: rest => EvOK rest e ∧ LogOK rest

theorem LogOK_split {a b : List Ev} {x : Ev} (h : LogOK (a ++ x :: b)) : EvOK b x ∧ LogOK b := by
  induction a with
  | nil => exact h
  | cons e a ih => exact ih h.2


/-! ## the inductive invariant -/

/-- timing facts of a pending handle of a timer (interval `I`, start `st`) whose latest tick is `lt` -/
def HOK (I : Nat) (st : Int) (lt : Option (Int × Int × Nat)) (h : LH) : Prop :=
  (0 < I → h.soon = false ∧ st + h.n * (I : Int) ≤ h.when) ∧
  1 ≤ h.n ∧
  (match lt with
   | none => h.n = 1
   | some (T, n0, d0) =>
      n0 < h.n ∧
      (0 < I → st + (h.n - 1) * (I : Int) ≤ T + d0 ∧ T + d0 < st + h.n * (I : Int)) ∧
      (I = 0 → h.n = n0 + 1))

structure Inv (s : St) : Prop where
  hdel : ∀ h ∈ s.handles, (s.tm h.timer).delegate = some h.id
  hlt : ∀ h ∈ s.handles, h.timer < s.ntimers
  dstop : ∀ k, k < s.ntimers → ((s.tm k).delegate = none ↔ stopped k s.log = true)
  fresh : ∀ k, s.ntimers ≤ k →
    (s.tm k).delegate = none ∧ stopped k s.log = false ∧ lastTick k s.log = none
  crt : ∀ k, created k s.log = true ↔ k < s.ntimers
  htime : ∀ h ∈ s.handles,
    HOK (s.tm h.timer).interval (s.tm h.timer).start (lastTick h.timer s.log) h
  startle : ∀ k, k < s.ntimers → (s.tm k).start ≤ s.now
  nowge : ∀ T d, lastAny s.log = some (T, d) → T + d ≤ s.now
  ver : ∀ k, (s.tm k).ver = lastVer k s.log
  logok : LogOK s.log

@[simp] theorem updTm_apply (tm : Nat → Timer) (k j : Nat) (t : Timer) :
    updTm tm k t j = if j = k then t else tm j := rfl

theorem inv_init : Inv init := by
  refine ⟨?_, ?_, ?_, ?_, ?_, ?_, ?_, ?_, ?_, ?_⟩ <;> simp [init, lastTick, lastAny, lastVer, LogOK]

theorem inv_advance {s : St} (d : Nat) (h : Inv s) : Inv { s with now := s.now + d } := by
  refine ⟨h.hdel, h.hlt, h.dstop, h.fresh, h.crt, h.htime, ?_, ?_, h.ver, h.logok⟩
  · intro k hk; have := h.startle k hk; simp only; omega
  · intro T d' hl; have := h.nowge T d' hl; simp only; omega

/-- a timer with a delegate has been created -/
theorem Inv.lt_of_delegate {s : St} (h : Inv s) {k d : Nat} (hd : (s.tm k).delegate = some d) :
    k < s.ntimers := by
  by_cases hk : k < s.ntimers
  · exact hk
  · have := (h.fresh k (by omega)).1; simp [this] at hd

theorem inv_timerc {s : St} (k : Nat) (h : Inv s) : Inv (timerc s k) := by
  unfold timerc cancel
  split
  · rename_i hd
    refine ⟨h.hdel, h.hlt, ?_, ?_, ?_, ?_, h.startle, ?_, ?_, ?_⟩
    · intro j hj; simpa [isStop] using h.dstop j hj
    · intro j hj; simpa [isStop, lastTick] using h.fresh j hj
    · intro j; simpa [isCreated] using h.crt j
    · intro x hx; simpa [lastTick] using h.htime x hx
    · intro T d; simpa [lastAny] using h.nowge T d
    · intro j; simpa [lastVer] using h.ver j
    · refine ⟨?_, h.logok⟩
      right
      refine ⟨rfl, ?_⟩
      rintro ⟨hc, hs⟩
      have hk := (h.crt k).mp hc
      have := (h.dstop k hk).mp hd
      simp [this] at hs
  · rename_i d hd
    have hk := h.lt_of_delegate hd
    refine ⟨?_, ?_, ?_, ?_, ?_, ?_, ?_, ?_, ?_, ?_⟩
    · intro x hx
      simp only [List.mem_filter] at hx
      have h1 := h.hdel x hx.1
      by_cases hxk : x.timer = k
      · rw [hxk, hd] at h1; simp at h1; simp [h1] at hx
      · simpa [hxk] using h1
    · intro x hx; simp only [List.mem_filter] at hx; exact h.hlt x hx.1
    · intro j hj
      by_cases hjk : j = k
      · subst hjk; simp [isStop]
      · have : (k == j) = false := by simp; omega
        simpa [hjk, isStop, this] using h.dstop j hj
    · intro j hj
      have hjk : j ≠ k := by simp only at hj; omega
      have : (k == j) = false := by simp; omega
      simpa [hjk, isStop, this, lastTick] using h.fresh j hj
    · intro j; simpa [isCreated] using h.crt j
    · intro x hx
      simp only [List.mem_filter] at hx
      have := h.htime x hx.1
      by_cases hxk : x.timer = k <;> simpa [hxk, lastTick] using this
    · intro j hj
      have := h.startle j hj
      by_cases hjk : j = k <;> simpa [hjk] using this
    · intro T d'; simpa [lastAny] using h.nowge T d'
    · intro j
      have := h.ver j
      by_cases hjk : j = k <;> simpa [hjk, lastVer] using this
    · refine ⟨?_, h.logok⟩
      left
      refine ⟨rfl, (h.crt k).mpr hk, ?_⟩
      have := h.dstop k hk
      cases hs : stopped k s.log
      · rfl
      · rw [this.mpr hs] at hd; cases hd


theorem inv_redefine {s : St} (k v a : Nat) (h : Inv s) : Inv (redefine s k v a) := by
  unfold redefine
  refine ⟨?_, h.hlt, ?_, ?_, ?_, ?_, ?_, ?_, ?_, ?_⟩
  · intro x hx
    have := h.hdel x hx
    by_cases hxk : x.timer = k <;> simpa [hxk] using this
  · intro j hj
    have := h.dstop j hj
    by_cases hjk : j = k <;> simpa [hjk, isStop] using this
  · intro j hj
    have := h.fresh j hj
    by_cases hjk : j = k <;> simpa [hjk, isStop, lastTick] using this
  · intro j; simpa [isCreated] using h.crt j
  · intro x hx
    have := h.htime x hx
    by_cases hxk : x.timer = k <;> simpa [hxk, lastTick] using this
  · intro j hj
    have := h.startle j hj
    by_cases hjk : j = k <;> simpa [hjk] using this
  · intro T d; simpa [lastAny] using h.nowge T d
  · intro j
    have := h.ver j
    by_cases hjk : j = k
    · subst hjk; simp [lastVer]
    · have hkj : ¬ k = j := fun e => hjk e.symm
      simpa [hjk, hkj, lastVer] using this
  · exact ⟨trivial, h.logok⟩

@[simp] theorem nextHandle_timer (t : Timer) (id k : Nat) (f : Int) (dr : Nat) (p : Int) :
    (nextHandle t id k f dr p).timer = k := by
  unfold nextHandle; split <;> rfl

@[simp] theorem nextHandle_id (t : Timer) (id k : Nat) (f : Int) (dr : Nat) (p : Int) :
    (nextHandle t id k f dr p).id = id := by
  unfold nextHandle; split <;> rfl

theorem nextHandle_first (t : Timer) (id k : Nat) :
    HOK t.interval t.start none (nextHandle t id k t.start 0 0) := by
  unfold nextHandle HOK
  split
  · rename_i h0; simp [h0]
  · rename_i h0
    have hI : 0 < t.interval := by omega
    simp

/-- the handle scheduled after a tick `(T, n0, d0)` that ran at or after its boundary -/
theorem nextHandle_after (t : Timer) (id k : Nat) (T n0 : Int) (d0 dr : Nat)
    (hn0 : 1 ≤ n0) (hb : t.start + n0 * (t.interval : Int) ≤ T) :
    HOK t.interval t.start (some (T, n0, d0)) (nextHandle t id k (T + d0) dr n0) := by
  unfold nextHandle HOK
  split
  · rename_i h0; simp [h0]; omega
  · rename_i h0
    have hI : (0 : Int) < (t.interval : Int) := by omega
    have hI' : 0 < t.interval := by omega
    have hle : n0 * (t.interval : Int) ≤ T + d0 - t.start := by omega
    have h1 := Int.le_ediv_of_mul_le hI hle
    have h2 := Int.ediv_mul_le (T + d0 - t.start) (Int.ne_of_gt hI)
    have h3 := Int.lt_ediv_add_one_mul_self (T + d0 - t.start) hI
    have h4 := Int.emod_add_mul_ediv (T + d0 - t.start) (t.interval : Int)
    have h5 : ((T + d0 - t.start) / (t.interval : Int) + 1) * (t.interval : Int)
        = (T + d0 - t.start) / (t.interval : Int) * (t.interval : Int) + (t.interval : Int) := by
      rw [Int.add_mul]; simp
    have h6 : (t.interval : Int) * ((T + d0 - t.start) / (t.interval : Int))
        = (T + d0 - t.start) / (t.interval : Int) * (t.interval : Int) := Int.mul_comm _ _
    simp only [hI', forall_const, true_and, h0, false_implies, and_true]
    simp only [Int.add_sub_cancel]
    rw [h5] at h3 ⊢
    rw [h6] at h4
    refine ⟨?_, ?_, ?_, ?_, ?_⟩ <;> omega


theorem inv_create {s : St} (I : Nat) (h : Inv s) : Inv (create s I) := by
  have hf := h.fresh s.ntimers (Nat.le_refl _)
  unfold create schedule
  refine ⟨?_, ?_, ?_, ?_, ?_, ?_, ?_, ?_, ?_, ?_⟩
  · intro x hx
    simp only [List.mem_append, List.mem_singleton] at hx
    rcases hx with hx | hx
    · have hne : x.timer ≠ s.ntimers := Nat.ne_of_lt (h.hlt x hx)
      simpa [hne] using h.hdel x hx
    · subst hx; simp
  · intro x hx
    simp only [List.mem_append, List.mem_singleton] at hx
    rcases hx with hx | hx
    · have := h.hlt x hx; simp only; omega
    · subst hx; simp
  · intro j hj
    by_cases hjk : j = s.ntimers
    · subst hjk; simp [isStop, hf.2.1]
    · have : j < s.ntimers := by simp only at hj; omega
      simpa [hjk, isStop] using h.dstop j this
  · intro j hj
    have hjk : j ≠ s.ntimers := by simp only at hj; omega
    have : s.ntimers ≤ j := by simp only at hj; omega
    simpa [hjk, isStop, lastTick] using h.fresh j this
  · intro j
    have := h.crt j
    by_cases hjk : s.ntimers = j
    · subst hjk; simp [isCreated]
    · have : (s.ntimers == j) = false := by simpa using hjk
      simp only [created_cons, isCreated, this, Bool.false_or]
      rw [h.crt j]; omega
  · intro x hx
    simp only [List.mem_append, List.mem_singleton] at hx
    rcases hx with hx | hx
    · have hne : x.timer ≠ s.ntimers := Nat.ne_of_lt (h.hlt x hx)
      simpa [hne, lastTick] using h.htime x hx
    · subst hx
      have := nextHandle_first { interval := I, start := s.now, delegate := none, ver := 0 } s.nextId s.ntimers
      simpa [lastTick, hf.2.2] using this
  · intro j hj
    by_cases hjk : j = s.ntimers
    · subst hjk; simp
    · have : j < s.ntimers := by simp only at hj; omega
      simpa [hjk] using h.startle j this
  · intro T d; simpa [lastAny] using h.nowge T d
  · intro j
    by_cases hjk : j = s.ntimers
    · subst hjk; simp [lastVer]
    · have hkj : ¬ s.ntimers = j := fun e => hjk e.symm
      simpa [hjk, hkj, lastVer] using h.ver j
  · exact ⟨trivial, h.logok⟩


/-! ### inside a dispatch: timer `k`'s handle has been popped and its tick logged -/

structure Mid (s : St) (k : Nat) (T n : Int) (dur : Nat) : Prop where
  inv : Inv s
  noh : ∀ x ∈ s.handles, x.timer ≠ k
  lt : lastTick k s.log = some (T, n, dur)
  now : s.now = T + dur
  n1 : 1 ≤ n
  bnd : (s.tm k).start + n * ((s.tm k).interval : Int) ≤ T
  kc : k < s.ntimers

theorem mid_pop {c : Cfg} (hc : c.res ≤ c.minAdv) {s : St} (hi : Inv s) {h : LH} (hm : h ∈ s.handles)
    (adv dur : Nat)
    (hleg : ((h.soon || decide (h.when < s.now + c.res)) && decide (c.minAdv ≤ adv)) = true) :
    Mid { s with handles := s.handles.filter (fun x => x.id != h.id)
               , now := s.now + adv + dur
               , log := .tick h.timer (s.tm h.timer).start (s.tm h.timer).interval (s.now + adv) h.n dur
                          (s.tm h.timer).ver :: s.log }
        h.timer (s.now + adv) h.n dur := by
  have hk := hi.hlt h hm
  have hd := hi.hdel h hm
  have ht := hi.htime h hm
  have hst := hi.startle h.timer hk
  have hnoh : ∀ x ∈ s.handles.filter (fun x => x.id != h.id), x.timer ≠ h.timer := by
    intro x hx hxt
    simp only [List.mem_filter] at hx
    have := hi.hdel x hx.1
    rw [hxt, hd] at this
    simp at this
    simp [this] at hx
  have hbnd : (s.tm h.timer).start + h.n * ((s.tm h.timer).interval : Int) ≤ s.now + adv := by
    simp only [Bool.and_eq_true, Bool.or_eq_true, decide_eq_true_eq] at hleg
    by_cases hI : 0 < (s.tm h.timer).interval
    · have := ht.1 hI
      rcases hleg.1 with h1 | h1
      · simp [this.1] at h1
      · omega
    · have : (s.tm h.timer).interval = 0 := by omega
      simp [this]; omega
  refine ⟨⟨?_, ?_, ?_, ?_, ?_, ?_, ?_, ?_, ?_, ?_⟩, hnoh, ?_, rfl, ht.2.1, hbnd, hk⟩
  · intro x hx; simp only [List.mem_filter] at hx; exact hi.hdel x hx.1
  · intro x hx; simp only [List.mem_filter] at hx; exact hi.hlt x hx.1
  · intro j hj; simpa [isStop] using hi.dstop j hj
  · intro j hj
    have hjk : ¬ h.timer = j := by simp only at hj; omega
    simpa [isStop, lastTick, hjk] using hi.fresh j hj
  · intro j; simpa [isCreated] using hi.crt j
  · intro x hx
    have hne := hnoh x hx
    simp only [List.mem_filter] at hx
    have hne' : ¬ h.timer = x.timer := fun e => hne e.symm
    simpa [lastTick, hne'] using hi.htime x hx.1
  · intro j hj; have := hi.startle j hj; simp only; omega
  · intro T d hl
    simp only [lastAny, Option.some.injEq, Prod.mk.injEq] at hl
    simp only; omega
  · intro j; simpa [lastVer] using hi.ver j
  · refine ⟨⟨?_, ht.2.1, hbnd, ?_, ?_, hi.ver _⟩, hi.logok⟩
    · cases hs : stopped h.timer s.log
      · rfl
      · rw [(hi.dstop _ hk).mpr hs] at hd; cases hd
    · have := ht.2.2
      revert this
      cases lastTick h.timer s.log with
      | none => exact id
      | some p => exact id
    · cases hl : lastAny s.log with
      | none => trivial
      | some p =>
        have := hi.nowge p.1 p.2 (by simp [hl])
        simp only; omega
  · simp [lastTick]


theorem timerc_handles_sub (s : St) (j : Nat) : ∀ x ∈ (timerc s j).handles, x ∈ s.handles := by
  unfold timerc cancel
  split
  · intro x hx; exact hx
  · intro x hx; simp only [List.mem_filter] at hx; exact hx.1

theorem timerc_facts (s : St) (j k : Nat) :
    (timerc s j).now = s.now ∧ (timerc s j).ntimers = s.ntimers ∧
    lastTick k (timerc s j).log = lastTick k s.log ∧
    ((timerc s j).tm k).start = (s.tm k).start ∧ ((timerc s j).tm k).interval = (s.tm k).interval := by
  unfold timerc cancel
  split
  · simp [lastTick]
  · by_cases hjk : k = j <;> simp [lastTick, hjk]

theorem mid_timerc {s : St} {k : Nat} {T n : Int} {dur : Nat} (j : Nat) (m : Mid s k T n dur) :
    Mid (timerc s j) k T n dur := by
  have f := timerc_facts s j k
  refine ⟨inv_timerc j m.inv, ?_, ?_, ?_, m.n1, ?_, ?_⟩
  · intro x hx; exact m.noh x (timerc_handles_sub s j x hx)
  · rw [f.2.2.1]; exact m.lt
  · rw [f.1]; exact m.now
  · rw [f.2.2.2.1, f.2.2.2.2]; exact m.bnd
  · rw [f.2.1]; exact m.kc

theorem mid_redefine {s : St} {k : Nat} {T n : Int} {dur : Nat} (j v a : Nat) (m : Mid s k T n dur) :
    Mid (redefine s j v a) k T n dur := by
  refine ⟨inv_redefine j v a m.inv, m.noh, ?_, m.now, m.n1, ?_, m.kc⟩
  · simpa [redefine, lastTick] using m.lt
  · have := m.bnd
    by_cases hjk : k = j <;> simpa [redefine, hjk] using this

theorem mid_doAct {s : St} {k : Nat} {T n : Int} {dur : Nat} (a : Act) (m : Mid s k T n dur) :
    Mid (doAct s k a) k T n dur := by
  cases a with
  | none => exact m
  | cancelSelf => exact mid_timerc k m
  | cancelOther j => exact mid_timerc j m
  | redefine v a => exact mid_redefine k v a m
  | raise => exact m

theorem mid_ret_true {s : St} {k : Nat} {T n : Int} {dur : Nat} (m : Mid s k T n dur) :
    Mid { s with log := .ret k true :: s.log } k T n dur := by
  have h := m.inv
  refine ⟨⟨h.hdel, h.hlt, ?_, ?_, ?_, ?_, h.startle, ?_, ?_, ⟨trivial, h.logok⟩⟩,
          m.noh, ?_, m.now, m.n1, m.bnd, m.kc⟩
  · intro j hj; simpa [isStop] using h.dstop j hj
  · intro j hj; simpa [isStop, lastTick] using h.fresh j hj
  · intro j; simpa [isCreated] using h.crt j
  · intro x hx; simpa [lastTick] using h.htime x hx
  · intro T d; simpa [lastAny] using h.nowge T d
  · intro j; simpa [lastVer] using h.ver j
  · simpa [lastTick] using m.lt

/-- the timer stops: a stop event of `k` is logged and the handle is cleared -/
theorem inv_stop_cancel' {s : St} {k : Nat} (h : Inv s) (hnoh : ∀ x ∈ s.handles, x.timer ≠ k)
    (hkc : k < s.ntimers) (e : Ev) (he : e = .ret k false ∨ e = .raised k) :
    Inv (cancel { s with log := e :: s.log } k).1 := by
  have hstop : isStop k e = true := by rcases he with rfl | rfl <;> simp [isStop]
  have hother : ∀ j, j ≠ k → isStop j e = false := by
    intro j hj
    have : (k == j) = false := by simpa using fun e => hj e.symm
    rcases he with rfl | rfl <;> simp [isStop, this]
  have hcr : ∀ j, isCreated j e = false := by intro j; rcases he with rfl | rfl <;> rfl
  have hlt : ∀ j, lastTick j (e :: s.log) = lastTick j s.log := by
    intro j; rcases he with rfl | rfl <;> rfl
  have hla : lastAny (e :: s.log) = lastAny s.log := by rcases he with rfl | rfl <;> rfl
  have hlv : ∀ j, lastVer j (e :: s.log) = lastVer j s.log := by
    intro j; rcases he with rfl | rfl <;> rfl
  have hev : EvOK s.log e := by rcases he with rfl | rfl <;> trivial
  unfold cancel
  split
  · rename_i hd
    simp only at hd
    refine ⟨h.hdel, h.hlt, ?_, ?_, ?_, ?_, h.startle, ?_, ?_, ⟨hev, h.logok⟩⟩
    · intro j hj
      by_cases hjk : j = k
      · subst hjk; simp [hstop, hd]
      · simpa [hother j hjk] using h.dstop j hj
    · intro j hj
      have hjk : j ≠ k := by have := hkc; simp only at hj; omega
      simpa [hother j hjk, hlt] using h.fresh j hj
    · intro j; simpa [hcr] using h.crt j
    · intro x hx; simpa [hlt] using h.htime x hx
    · intro T d; simpa [hla] using h.nowge T d
    · intro j; simpa [hlv] using h.ver j
  · rename_i d hd
    simp only at hd
    refine ⟨?_, ?_, ?_, ?_, ?_, ?_, ?_, ?_, ?_, ⟨hev, h.logok⟩⟩
    · intro x hx
      simp only [List.mem_filter] at hx
      have hne := hnoh x hx.1
      simpa [hne] using h.hdel x hx.1
    · intro x hx; simp only [List.mem_filter] at hx; exact h.hlt x hx.1
    · intro j hj
      by_cases hjk : j = k
      · subst hjk; simp [hstop]
      · simpa [hjk, hother j hjk] using h.dstop j hj
    · intro j hj
      have hjk : j ≠ k := by have := hkc; simp only at hj; omega
      simpa [hjk, hother j hjk, hlt] using h.fresh j hj
    · intro j; simpa [hcr] using h.crt j
    · intro x hx
      simp only [List.mem_filter] at hx
      have hne := hnoh x hx.1
      simpa [hne, hlt] using h.htime x hx.1
    · intro j hj
      have := h.startle j hj
      by_cases hjk : j = k <;> simpa [hjk] using this
    · intro T d; simpa [hla] using h.nowge T d
    · intro j
      have := h.ver j
      by_cases hjk : j = k <;> simpa [hjk, hlv] using this

theorem inv_stop_cancel {s : St} {k : Nat} {T n : Int} {dur : Nat} (m : Mid s k T n dur) (e : Ev)
    (he : e = .ret k false ∨ e = .raised k) :
    Inv (cancel { s with log := e :: s.log } k).1 :=
  inv_stop_cancel' m.inv m.noh m.kc e he

/-- the loop pops a handle (nothing else happens yet) -/
theorem inv_pop {s : St} (hi : Inv s) {h : LH} (hm : h ∈ s.handles) (adv : Nat) :
    Inv { s with handles := s.handles.filter (fun x => x.id != h.id), now := s.now + adv } ∧
    ∀ x ∈ s.handles.filter (fun x => x.id != h.id), x.timer ≠ h.timer := by
  have hd := hi.hdel h hm
  have hnoh : ∀ x ∈ s.handles.filter (fun x => x.id != h.id), x.timer ≠ h.timer := by
    intro x hx hxt
    simp only [List.mem_filter] at hx
    have := hi.hdel x hx.1
    rw [hxt, hd] at this
    simp at this
    simp [this] at hx
  refine ⟨⟨?_, ?_, hi.dstop, hi.fresh, hi.crt, ?_, ?_, ?_, hi.ver, hi.logok⟩, hnoh⟩
  · intro x hx; simp only [List.mem_filter] at hx; exact hi.hdel x hx.1
  · intro x hx; simp only [List.mem_filter] at hx; exact hi.hlt x hx.1
  · intro x hx; simp only [List.mem_filter] at hx; exact hi.htime x hx.1
  · intro j hj; have := hi.startle j hj; simp only; omega
  · intro T d hl; have := hi.nowge T d hl; simp only; omega

theorem inv_schedule {s : St} {k : Nat} {T n : Int} {dur : Nat} (drift : Nat) (m : Mid s k T n dur)
    (hd : (s.tm k).delegate ≠ none) : Inv (schedule s k drift n) := by
  have h := m.inv
  have hns : stopped k s.log = false := by
    cases hs : stopped k s.log
    · rfl
    · exact absurd ((h.dstop k m.kc).mpr hs) hd
  unfold schedule
  refine ⟨?_, ?_, ?_, ?_, h.crt, ?_, ?_, ?_, ?_, h.logok⟩
  · intro x hx
    simp only [List.mem_append, List.mem_singleton] at hx
    rcases hx with hx | hx
    · have hne := m.noh x hx
      simpa [hne] using h.hdel x hx
    · subst hx; simp
  · intro x hx
    simp only [List.mem_append, List.mem_singleton] at hx
    rcases hx with hx | hx
    · exact h.hlt x hx
    · subst hx; simpa using m.kc
  · intro j hj
    by_cases hjk : j = k
    · subst hjk; simp [hns]
    · simpa [hjk] using h.dstop j hj
  · intro j hj
    have hjk : j ≠ k := by have := m.kc; simp only at hj; omega
    simpa [hjk] using h.fresh j hj
  · intro x hx
    simp only [List.mem_append, List.mem_singleton] at hx
    rcases hx with hx | hx
    · have hne := m.noh x hx
      simpa [hne] using h.htime x hx
    · subst hx
      have := nextHandle_after (s.tm k) s.nextId k T n dur drift m.n1 m.bnd
      simpa [m.lt, m.now] using this
  · intro j hj
    have := h.startle j hj
    by_cases hjk : j = k
    · subst hjk; simp only [updTm_apply, if_true]; omega
    · simp only [updTm_apply, hjk, if_false]; omega
  · intro T' d hl; have := h.nowge T' d hl; simp only; omega
  · intro j
    have := h.ver j
    by_cases hjk : j = k <;> simpa [hjk] using this


theorem find_id {hs : List LH} {hid : Nat} {h : LH}
    (hf : hs.find? (fun h => h.id == hid) = some h) : h ∈ hs ∧ h.id = hid :=
  ⟨List.mem_of_find?_eq_some hf, by simpa using List.find?_some hf⟩

theorem inv_dispatch {c : Cfg} (hc : c.good) {s s' : St} (hi : Inv s)
    {hid adv dur : Nat} {ret : Bool} {act : Act} {drift : Nat}
    (hs : dispatch c s hid adv dur ret act drift = some s') : Inv s' := by
  obtain ⟨hf1, hf2, hres⟩ := hc
  unfold dispatch at hs
  split at hs
  · cases hs
  · rename_i h hfind
    obtain ⟨hm, hidh⟩ := find_id hfind
    split at hs
    · -- the binding takes parameters: the body does not run, the timer stops
      split at hs
      · simp only [Option.some.injEq] at hs
        subst hs
        obtain ⟨hp, hnoh⟩ := inv_pop hi hm adv
        rw [hidh] at hp hnoh
        exact inv_stop_cancel' hp hnoh (hi.hlt h hm) (.raised h.timer) (Or.inr rfl)
      · cases hs
    split at hs
    · rename_i hleg
      have m := mid_pop hres hi hm adv dur hleg
      rw [hidh] at m
      dsimp only at hs
      split at hs
      · -- the callback raises
        simp only [Option.some.injEq] at hs
        subst hs
        exact inv_stop_cancel m (.raised h.timer) (Or.inr rfl)
      · have m2 := mid_doAct act m
        split at hs
        · rename_i hnone
          simp only [hf1, Bool.true_and, Option.isNone_iff_eq_none] at hnone
          simp only [Option.some.injEq] at hs
          subst hs
          cases ret with
          | true => exact (mid_ret_true m2).inv
          | false =>
            have := inv_stop_cancel m2 (.ret h.timer false) (Or.inl rfl)
            unfold cancel at this
            simpa [hnone] using this
        · rename_i hsome
          simp only [hf1, Bool.true_and, Option.isNone_iff_eq_none] at hsome
          split at hs
          · rename_i hret
            simp only [Option.some.injEq] at hs
            subst hs
            subst hret
            exact inv_schedule drift (mid_ret_true m2) hsome
          · rename_i hret
            simp only [Option.some.injEq] at hs
            subst hs
            have : ret = false := by simpa using hret
            subst this
            exact inv_stop_cancel m2 (.ret h.timer false) (Or.inl rfl)
    · cases hs

theorem inv_step {c : Cfg} (hc : c.good) {s : St} (hi : Inv s) (i : Inp) : Inv (step c s i).1 := by
  cases i with
  | create I => exact inv_create I hi
  | advance d => exact inv_advance d hi
  | timerc k => exact inv_timerc k hi
  | redefine k v a =>
    simp only [step]
    split
    · exact inv_redefine k v a hi
    · exact hi
  | dispatch hid adv dur ret act drift =>
    simp only [step]
    split
    · rename_i s' hs; exact inv_dispatch hc hi hs
    · exact hi

theorem inv_run {c : Cfg} (hc : c.good) (is : List Inp) {s : St} (hi : Inv s) : Inv (run c s is) := by
  induction is generalizing s with
  | nil => exact hi
  | cons i is ih => exact ih (inv_step hc hi i)

/-- every state reachable from the empty loop satisfies the invariant -/
theorem inv_reachable {c : Cfg} (hc : c.good) (is : List Inp) : Inv (run c init is) :=
  inv_run hc is inv_init


/-! ### second invariant: a delegate always points to a pending handle (liveness side) -/

/-- `ex = some k`: inside a dispatch of timer `k`, whose handle is popped but still its delegate -/
structure Inv2 (s : St) (ex : Option Nat) : Prop where
  idlt : ∀ h ∈ s.handles, h.id < s.nextId
  dlt : ∀ k d, (s.tm k).delegate = some d → d < s.nextId
  uniq : ∀ j k d, (s.tm j).delegate = some d → (s.tm k).delegate = some d → j = k
  dpend : ∀ k d, ex ≠ some k → (s.tm k).delegate = some d →
    ∃ h ∈ s.handles, h.id = d ∧ h.timer = k

theorem inv2_init : Inv2 init none := by
  refine ⟨?_, ?_, ?_, ?_⟩ <;> simp [init]

theorem inv2_congr {s s' : St} {ex : Option Nat} (h1 : s'.handles = s.handles)
    (h2 : s'.nextId = s.nextId) (h3 : s'.tm = s.tm) (h : Inv2 s ex) : Inv2 s' ex := by
  refine ⟨?_, ?_, ?_, ?_⟩
  · rw [h1, h2]; exact h.idlt
  · rw [h2, h3]; exact h.dlt
  · rw [h3]; exact h.uniq
  · rw [h1, h3]; exact h.dpend

theorem inv2_cancel {s : St} {ex ex' : Option Nat} (j : Nat) (h : Inv2 s ex)
    (hex : ∀ i, ex' ≠ some i → i ≠ j → ex ≠ some i) : Inv2 (cancel s j).1 ex' := by
  unfold cancel
  split
  · rename_i hd
    refine ⟨h.idlt, h.dlt, h.uniq, ?_⟩
    intro i d hi hdi
    by_cases hij : i = j
    · subst hij; rw [hd] at hdi; cases hdi
    · exact h.dpend i d (hex i hi hij) hdi
  · rename_i d hd
    refine ⟨?_, ?_, ?_, ?_⟩
    · intro x hx; simp only [List.mem_filter] at hx; exact h.idlt x hx.1
    · intro i d' hdi
      by_cases hij : i = j
      · subst hij; simp at hdi
      · simp only [updTm_apply, hij, if_false] at hdi; exact h.dlt i d' hdi
    · intro i i' d' h1 h2
      by_cases hij : i = j
      · subst hij; simp at h1
      · by_cases hij' : i' = j
        · subst hij'; simp at h2
        · simp only [updTm_apply, hij, hij', if_false] at h1 h2; exact h.uniq i i' d' h1 h2
    · intro i d' hi hdi
      by_cases hij : i = j
      · subst hij; simp at hdi
      · simp only [updTm_apply, hij, if_false] at hdi
        obtain ⟨x, hx, hxid, hxt⟩ := h.dpend i d' (hex i hi hij) hdi
        refine ⟨x, ?_, hxid, hxt⟩
        simp only [List.mem_filter, bne_iff_ne, ne_eq]
        refine ⟨hx, ?_⟩
        intro hxd
        have := h.uniq i j d' hdi (by rw [hd, ← hxid, hxd])
        exact hij this

theorem inv2_timerc {s : St} {ex : Option Nat} (j : Nat) (h : Inv2 s ex) : Inv2 (timerc s j) ex := by
  have := inv2_cancel (ex' := ex) j h (fun i hi _ => hi)
  unfold timerc
  exact inv2_congr (s := (cancel s j).1) rfl rfl rfl this

theorem inv2_redefine {s : St} {ex : Option Nat} (j v a : Nat) (h : Inv2 s ex) :
    Inv2 (redefine s j v a) ex := by
  unfold redefine
  refine ⟨h.idlt, ?_, ?_, ?_⟩
  · intro i d hdi
    have : (s.tm i).delegate = some d := by by_cases hij : i = j <;> simpa [hij] using hdi
    exact h.dlt i d this
  · intro i i' d h1 h2
    have a1 : (s.tm i).delegate = some d := by by_cases hij : i = j <;> simpa [hij] using h1
    have a2 : (s.tm i').delegate = some d := by by_cases hij : i' = j <;> simpa [hij] using h2
    exact h.uniq i i' d a1 a2
  · intro i d hi hdi
    have : (s.tm i).delegate = some d := by by_cases hij : i = j <;> simpa [hij] using hdi
    exact h.dpend i d hi this

theorem inv2_doAct {s : St} {ex : Option Nat} (k : Nat) (a : Act) (h : Inv2 s ex) :
    Inv2 (doAct s k a) ex := by
  cases a with
  | none => exact h
  | cancelSelf => exact inv2_timerc k h
  | cancelOther j => exact inv2_timerc j h
  | redefine v a => exact inv2_redefine k v a h
  | raise => exact h

/-- (re)scheduling timer `k`, which has no pending handle, restores the full invariant -/
theorem inv2_schedule {s : St} {ex : Option Nat} (k : Nat) (drift : Nat) (n : Int) (h : Inv2 s ex)
    (hex : ∀ i, i ≠ k → ex ≠ some i) : Inv2 (schedule s k drift n) none := by
  unfold schedule
  refine ⟨?_, ?_, ?_, ?_⟩
  · intro x hx
    simp only [List.mem_append, List.mem_singleton] at hx
    rcases hx with hx | hx
    · have := h.idlt x hx; simp only; omega
    · subst hx; simp
  · intro i d hdi
    by_cases hik : i = k
    · subst hik; simp at hdi; simp only; omega
    · simp only [updTm_apply, hik, if_false] at hdi; have := h.dlt i d hdi; simp only; omega
  · intro i i' d h1 h2
    by_cases hik : i = k
    · subst hik
      by_cases hik' : i' = i
      · exact hik'.symm
      · simp only [updTm_apply, if_true, Option.some.injEq] at h1
        simp only [updTm_apply, hik', if_false] at h2
        have := h.dlt i' d h2; omega
    · by_cases hik' : i' = k
      · subst hik'
        simp only [updTm_apply, if_true, Option.some.injEq] at h2
        simp only [updTm_apply, hik, if_false] at h1
        have := h.dlt i d h1; omega
      · simp only [updTm_apply, hik, hik', if_false] at h1 h2; exact h.uniq i i' d h1 h2
  · intro i d _ hdi
    by_cases hik : i = k
    · subst hik
      simp only [updTm_apply, if_true, Option.some.injEq] at hdi
      exact ⟨nextHandle (s.tm i) s.nextId i s.now drift n, by simp, by simpa using hdi, by simp⟩
    · simp only [updTm_apply, hik, if_false] at hdi
      obtain ⟨x, hx, hxid, hxt⟩ := h.dpend i d (hex i hik) hdi
      exact ⟨x, by simp [hx], hxid, hxt⟩

theorem inv2_create {s : St} (I : Nat) (h : Inv2 s none) : Inv2 (create s I) none := by
  unfold create
  apply inv2_schedule (ex := none)
  · refine ⟨h.idlt, ?_, ?_, ?_⟩
    · intro i d hdi
      by_cases hik : i = s.ntimers
      · subst hik; simp at hdi
      · simp only [updTm_apply, hik, if_false] at hdi; exact h.dlt i d hdi
    · intro i i' d h1 h2
      by_cases hik : i = s.ntimers
      · subst hik; simp at h1
      · by_cases hik' : i' = s.ntimers
        · subst hik'; simp at h2
        · simp only [updTm_apply, hik, hik', if_false] at h1 h2; exact h.uniq i i' d h1 h2
    · intro i d hi hdi
      by_cases hik : i = s.ntimers
      · subst hik; simp at hdi
      · simp only [updTm_apply, hik, if_false] at hdi; exact h.dpend i d hi hdi
  · intro i _; simp

theorem inv2_log {s : St} {ex : Option Nat} (l : List Ev) (h : Inv2 s ex) :
    Inv2 { s with log := l } ex := inv2_congr (s := s) rfl rfl rfl h

theorem inv2_pop {s : St} (hi : Inv s) (h2 : Inv2 s none) {h : LH} (hm : h ∈ s.handles)
    (now' : Int) (log' : List Ev) :
    Inv2 { s with handles := s.handles.filter (fun x => x.id != h.id), now := now', log := log' }
      (some h.timer) := by
  refine ⟨?_, h2.dlt, h2.uniq, ?_⟩
  · intro x hx; simp only [List.mem_filter] at hx; exact h2.idlt x hx.1
  · intro i d hik hdi
    obtain ⟨x, hx, hxid, hxt⟩ := h2.dpend i d (by simp) hdi
    refine ⟨x, ?_, hxid, hxt⟩
    simp only [List.mem_filter, bne_iff_ne, ne_eq]
    refine ⟨hx, ?_⟩
    intro hxd
    have := h2.uniq i h.timer d hdi (by rw [hi.hdel h hm, ← hxd, hxid])
    exact hik (by rw [this])

theorem inv2_dispatch {c : Cfg} (hc : c.good) {s s' : St} (hi : Inv s) (h2 : Inv2 s none)
    {hid adv dur : Nat} {ret : Bool} {act : Act} {drift : Nat}
    (hs : dispatch c s hid adv dur ret act drift = some s') : Inv2 s' none := by
  obtain ⟨hf1, hf2, hres⟩ := hc
  unfold dispatch at hs
  split at hs
  · cases hs
  · rename_i h hfind
    obtain ⟨hm, hidh⟩ := find_id hfind
    have m0 := fun now' log' => inv2_pop hi h2 hm now' log'
    rw [hidh] at m0
    have hself : ∀ (i : Nat), none ≠ some i → i ≠ h.timer → some h.timer ≠ some i := by
      intro i _ hne e; exact hne (Option.some.inj e).symm
    split at hs
    · split at hs
      · simp only [Option.some.injEq] at hs
        subst hs
        exact inv2_cancel (ex := some h.timer) h.timer (m0 _ _) hself
      · cases hs
    split at hs
    · dsimp only at hs
      split at hs
      · simp only [Option.some.injEq] at hs
        subst hs
        exact inv2_cancel (ex := some h.timer) h.timer (m0 _ _) hself
      · have m2 := inv2_doAct h.timer act (m0 (s.now + adv + dur)
          (.tick h.timer (s.tm h.timer).start (s.tm h.timer).interval (s.now + adv) h.n dur
            (s.tm h.timer).ver :: s.log))
        split at hs
        · rename_i hnone
          simp only [hf1, Bool.true_and, Option.isNone_iff_eq_none] at hnone
          simp only [Option.some.injEq] at hs
          subst hs
          refine ⟨m2.idlt, m2.dlt, m2.uniq, ?_⟩
          intro i d _ hdi
          by_cases hik : i = h.timer
          · rw [hik] at hdi; simp only at hdi hnone; rw [hnone] at hdi; cases hdi
          · exact m2.dpend i d (fun e => hik (Option.some.inj e).symm) hdi
        · split at hs
          · simp only [Option.some.injEq] at hs
            subst hs
            exact inv2_schedule h.timer drift h.n (inv2_log _ m2)
              (fun i hne e => hne (Option.some.inj e).symm)
          · simp only [Option.some.injEq] at hs
            subst hs
            exact inv2_cancel (ex := some h.timer) h.timer (inv2_log _ m2) hself
    · cases hs

theorem inv2_step {c : Cfg} (hc : c.good) {s : St} (hi : Inv s) (h2 : Inv2 s none) (i : Inp) :
    Inv2 (step c s i).1 none := by
  cases i with
  | create I => exact inv2_create I h2
  | advance d => exact inv2_congr (s := s) rfl rfl rfl h2
  | timerc k => exact inv2_timerc k h2
  | redefine k v a =>
    simp only [step]
    split
    · exact inv2_redefine k v a h2
    · exact h2
  | dispatch hid adv dur ret act drift =>
    simp only [step]
    split
    · rename_i s' hs; exact inv2_dispatch hc hi h2 hs
    · exact h2

theorem inv2_run {c : Cfg} (hc : c.good) (is : List Inp) {s : St} (hi : Inv s) (h2 : Inv2 s none) :
    Inv2 (run c s is) none := by
  induction is generalizing s with
  | nil => exact h2
  | cons i is ih => exact ih (inv_step hc hi i) (inv2_step hc hi h2 i)

/-! ### chains of ticks inside a well-formed log -/

theorem lastTick_max {k : Nat} {b : List Ev} (hb : LogOK b) {st' : Int} {I' : Nat} {t' n' : Int} {d' v' : Nat}
    (hy : Ev.tick k st' I' t' n' d' v' ∈ b) :
    ∃ T n0 d0, lastTick k b = some (T, n0, d0) ∧ n' ≤ n0 := by
  induction b with
  | nil => cases hy
  | cons e rest ih =>
    rcases List.mem_cons.mp hy with he | hr
    · subst he
      exact ⟨t', n', d', by simp [lastTick], Int.le_refl _⟩
    · obtain ⟨T, n0, d0, hl, hle⟩ := ih hb.2 hr
      cases e with
      | tick j st I t n d v =>
        by_cases hjk : j = k
        · subst hjk
          have h1 := hb.1
          simp only [EvOK, hl] at h1
          exact ⟨t, n, d, by simp [lastTick], by omega⟩
        · exact ⟨T, n0, d0, by simp [lastTick, hjk, hl], hle⟩
      | created _ _ _ => exact ⟨T, n0, d0, by simp [lastTick, hl], hle⟩
      | ret _ _ => exact ⟨T, n0, d0, by simp [lastTick, hl], hle⟩
      | raised _ => exact ⟨T, n0, d0, by simp [lastTick, hl], hle⟩
      | timerc _ _ => exact ⟨T, n0, d0, by simp [lastTick, hl], hle⟩
      | redefined _ _ => exact ⟨T, n0, d0, by simp [lastTick, hl], hle⟩

theorem lastAny_max {b : List Ev} (hb : LogOK b) {j : Nat} {st' : Int} {I' : Nat} {t' n' : Int} {d' v' : Nat}
    (hy : Ev.tick j st' I' t' n' d' v' ∈ b) :
    ∃ T d0, lastAny b = some (T, d0) ∧ t' + d' ≤ T + d0 := by
  induction b with
  | nil => cases hy
  | cons e rest ih =>
    rcases List.mem_cons.mp hy with he | hr
    · subst he
      exact ⟨t', d', by simp [lastAny], Int.le_refl _⟩
    · obtain ⟨T, d0, hl, hle⟩ := ih hb.2 hr
      cases e with
      | tick j2 st I t n d v =>
        have h1 := hb.1
        simp only [EvOK, hl] at h1
        exact ⟨t, d, by simp [lastAny], by omega⟩
      | created _ _ _ => exact ⟨T, d0, by simp [lastAny, hl], hle⟩
      | ret _ _ => exact ⟨T, d0, by simp [lastAny, hl], hle⟩
      | raised _ => exact ⟨T, d0, by simp [lastAny, hl], hle⟩
      | timerc _ _ => exact ⟨T, d0, by simp [lastAny, hl], hle⟩
      | redefined _ _ => exact ⟨T, d0, by simp [lastAny, hl], hle⟩

/-- any event `x` of a reachable log is well-formed w.r.t. the history `b` before it -/
theorem reachable_evok {c : Cfg} (hc : c.good) (is : List Inp) {a b : List Ev} {x : Ev}
    (hl : (run c init is).log = a ++ x :: b) : EvOK b x ∧ LogOK b := by
  have := (inv_reachable hc is).logok
  rw [hl] at this
  exact LogOK_split this

/-! ## ------------------------------------------------------------------------------
    ## property theorems
    For every configuration of the repaired code with `res ≤ minAdv` (`c.good`), every input
    sequence `is` (timer creations, time passing, loop dispatches with arbitrary legal
    latency / callback duration / return value / action / drift, external `.timerc` and
    redefinitions), and every event of the resulting log, `b` being the history before it. -/

/-- never before an interval boundary: a tick charged to boundary `n ≥ 1` happens at
    `t ≥ start + n·interval` -/
theorem tick_on_boundary {c : Cfg} (hc : c.good) (is : List Inp) {a b : List Ev}
    {k I d v : Nat} {st t n : Int}
    (hl : (run c init is).log = a ++ Ev.tick k st I t n d v :: b) :
    1 ≤ n ∧ st + n * (I : Int) ≤ t := by
  have h := (reachable_evok hc is hl).1
  exact ⟨h.2.1, h.2.2.1⟩

/-- never twice for the same boundary: every earlier tick of the same timer was charged to a
    strictly smaller boundary -/
theorem one_tick_per_boundary {c : Cfg} (hc : c.good) (is : List Inp) {a b : List Ev}
    {k I d v : Nat} {st t n : Int}
    (hl : (run c init is).log = a ++ Ev.tick k st I t n d v :: b)
    {st' : Int} {I' : Nat} {t' n' : Int} {d' v' : Nat} (hy : Ev.tick k st' I' t' n' d' v' ∈ b) :
    n' < n := by
  obtain ⟨h, hb⟩ := reachable_evok hc is hl
  obtain ⟨T, n0, d0, hlt, hle⟩ := lastTick_max hb hy
  have h1 := h.2.2.2.1
  simp only [hlt] at h1
  omega

/-- boundaries missed while a slow callback ran are skipped: the boundary charged is the first
    one strictly after the previous run finished (interval 0: the next loop pass) -/
theorem skips_missed {c : Cfg} (hc : c.good) (is : List Inp) {a b : List Ev}
    {k I d v : Nat} {st t n : Int}
    (hl : (run c init is).log = a ++ Ev.tick k st I t n d v :: b)
    {T n0 : Int} {d0 : Nat} (hprev : lastTick k b = some (T, n0, d0)) :
    (0 < I → st + (n - 1) * (I : Int) ≤ T + d0 ∧ T + d0 < st + n * (I : Int)) ∧
    (I = 0 → n = n0 + 1) := by
  have h := (reachable_evok hc is hl).1
  have h1 := h.2.2.2.1
  simp only [hprev] at h1
  exact h1.2

/-- a callback never starts before every earlier invocation (of any timer of the loop) has
    finished -/
theorem no_overlap {c : Cfg} (hc : c.good) (is : List Inp) {a b : List Ev}
    {k I d v : Nat} {st t n : Int}
    (hl : (run c init is).log = a ++ Ev.tick k st I t n d v :: b)
    {j : Nat} {st' : Int} {I' : Nat} {t' n' : Int} {d' v' : Nat} (hy : Ev.tick j st' I' t' n' d' v' ∈ b) :
    t' + d' ≤ t := by
  obtain ⟨h, hb⟩ := reachable_evok hc is hl
  obtain ⟨T, d0, hla, hle⟩ := lastAny_max hb hy
  have h1 := h.2.2.2.2.1
  simp only [hla] at h1
  omega

/-- no invocation after the callback returned false, raised, or a `.timerc` on the timer
    returned 1 — wherever that `.timerc` was issued (externally, inside the timer's own callback,
    inside another timer's callback: all log the same event) -/
theorem stops_for_good {c : Cfg} (hc : c.good) (is : List Inp) {a b : List Ev} {e : Ev} {k : Nat}
    (hl : (run c init is).log = a ++ e :: b) (he : isStop k e = true) :
    ∀ x ∈ a, isTick k x = false := by
  intro x hx
  obtain ⟨a1, a2, rfl⟩ := List.append_of_mem hx
  have hl' : (run c init is).log = a1 ++ x :: (a2 ++ e :: b) := by simp [hl]
  have h := (reachable_evok hc is hl').1
  cases x with
  | tick j st I t n d v =>
    by_cases hjk : j = k
    · subst hjk
      have := h.1
      simp [stopped_append, he] at this
    · simp [isTick, hjk]
  | created _ _ _ => rfl
  | ret _ _ => rfl
  | raised _ => rfl
  | timerc _ _ => rfl
  | redefined _ _ => rfl

/-- `.timerc` returns 1 exactly when it stopped a live timer (created and not yet stopped),
    and 0 otherwise -/
theorem timerc_result {c : Cfg} (hc : c.good) (is : List Inp) {a b : List Ev} {k r : Nat}
    (hl : (run c init is).log = a ++ Ev.timerc k r :: b) :
    (r = 1 ∧ created k b = true ∧ stopped k b = false) ∨
    (r = 0 ∧ ¬ (created k b = true ∧ stopped k b = false)) :=
  (reachable_evok hc is hl).1

/-- the callback symbol is re-resolved at every tick: the version that runs is the latest
    definition -/
theorem callback_reresolved {c : Cfg} (hc : c.good) (is : List Inp) {a b : List Ev}
    {k I d v : Nat} {st t n : Int}
    (hl : (run c init is).log = a ++ Ev.tick k st I t n d v :: b) :
    v = lastVer k b :=
  (reachable_evok hc is hl).1.2.2.2.2.2


/-- a live timer (created, not stopped) always has exactly its delegate pending in the loop, charged
    to the first boundary after its previous run finished: the loop's dispatch rule will run it —
    "once per elapsed interval for as long as the callback returns true" -/
theorem live_timer_scheduled {c : Cfg} (hc : c.good) (is : List Inp) {k : Nat}
    (hcr : created k (run c init is).log = true) (hns : stopped k (run c init is).log = false) :
    ∃ h ∈ (run c init is).handles, h.timer = k ∧ ((run c init is).tm k).delegate = some h.id ∧
      HOK ((run c init is).tm k).interval ((run c init is).tm k).start
        (lastTick k (run c init is).log) h := by
  have hi := inv_reachable hc is
  have h2 := inv2_run hc is inv_init inv2_init
  have hk := (hi.crt k).mp hcr
  cases hd : ((run c init is).tm k).delegate with
  | none => have := (hi.dstop k hk).mp hd; rw [this] at hns; cases hns
  | some d =>
    obtain ⟨h, hm, hid, ht⟩ := h2.dpend k d (by simp) hd
    refine ⟨h, hm, ht, by rw [hid], ?_⟩
    have := hi.htime h hm
    rw [ht] at this
    exact this

/-! ### a handle the loop runs either runs the callback body or leaves the timer dead -/

theorem cancel_log (s : St) (k : Nat) : (cancel s k).1.log = s.log := by
  unfold cancel; split <;> rfl

theorem cancel_ntimers (s : St) (k : Nat) : (cancel s k).1.ntimers = s.ntimers := by
  unfold cancel; split <;> rfl

theorem doAct_ext (s : St) (k : Nat) (a : Act) : ∃ new, (doAct s k a).log = new ++ s.log := by
  cases a with
  | none => exact ⟨[], rfl⟩
  | cancelSelf => exact ⟨[.timerc k (cancel s k).2], by simp [doAct, timerc, cancel_log]⟩
  | cancelOther j => exact ⟨[.timerc j (cancel s j).2], by simp [doAct, timerc, cancel_log]⟩
  | redefine v a => exact ⟨[.redefined k v], by simp [doAct, redefine]⟩
  | raise => exact ⟨[], rfl⟩

/-- never "armed but body not run": when the loop runs a due handle of timer `k` (any legal
    dispatch from a reachable state), either the callback body runs (a tick of `k` is logged) or a
    stop event of `k` is logged and the timer is dead: no delegate, no pending handle.  The second
    case covers a callback binding that takes parameters (`KGFnWrapper._apply` raises before the
    body), a raise, and a false return. -/
theorem due_handle_runs_body_or_stops {c : Cfg} (hc : c.good) (is : List Inp) {s' : St}
    {hid adv dur : Nat} {ret : Bool} {act : Act} {drift : Nat}
    (hs : dispatch c (run c init is) hid adv dur ret act drift = some s') :
    ∃ h ∈ (run c init is).handles, h.id = hid ∧ ∃ new, s'.log = new ++ (run c init is).log ∧
      ((∃ x ∈ new, isTick h.timer x = true) ∨
       ((∃ x ∈ new, isStop h.timer x = true) ∧ (s'.tm h.timer).delegate = none ∧
        ∀ x ∈ s'.handles, x.timer ≠ h.timer)) := by
  have hi := inv_reachable hc is
  have hi' := inv_dispatch hc hi hs
  generalize run c init is = s at hs hi
  have dead : ∀ (k : Nat), k < s'.ntimers → stopped k s'.log = true →
      (s'.tm k).delegate = none ∧ ∀ x ∈ s'.handles, x.timer ≠ k := by
    intro k hk hst
    have hd := (hi'.dstop k hk).mpr hst
    refine ⟨hd, ?_⟩
    intro x hx hxt
    have := hi'.hdel x hx
    rw [hxt, hd] at this
    cases this
  have hnt : ∀ (h : LH), h ∈ s.handles → s.ntimers ≤ s'.ntimers → h.timer < s'.ntimers := by
    intro h hm hle; have := hi.hlt h hm; omega
  obtain ⟨hf1, hf2, hres⟩ := hc
  unfold dispatch at hs
  split at hs
  · cases hs
  · rename_i h hfind
    obtain ⟨hm, hidh⟩ := find_id hfind
    refine ⟨h, hm, hidh, ?_⟩
    split at hs
    · split at hs
      · simp only [Option.some.injEq] at hs
        have hlog : s'.log = [.raised h.timer] ++ s.log := by
          rw [← hs]; simp [cancel_log]
        have hnt' : s.ntimers ≤ s'.ntimers := by
          rw [← hs, cancel_ntimers]; exact Nat.le_refl _
        refine ⟨_, hlog, Or.inr ⟨⟨.raised h.timer, by simp, by simp [isStop]⟩, ?_⟩⟩
        exact dead h.timer (hnt h hm hnt') (by rw [hlog]; simp [isStop])
      · cases hs
    split at hs
    · dsimp only at hs
      split at hs
      · simp only [Option.some.injEq] at hs
        refine ⟨[.raised h.timer, (.tick h.timer (s.tm h.timer).start (s.tm h.timer).interval (s.now + adv) h.n dur (s.tm h.timer).ver)], ?_,
          Or.inl ⟨(.tick h.timer (s.tm h.timer).start (s.tm h.timer).interval (s.now + adv) h.n dur (s.tm h.timer).ver), by simp, by simp [isTick]⟩⟩
        rw [← hs]; simp [cancel_log]
      · obtain ⟨new, hnew⟩ := doAct_ext
          ({ s with handles := s.handles.filter (fun x => x.id != hid), now := s.now + adv + dur, log := .tick h.timer (s.tm h.timer).start (s.tm h.timer).interval (s.now + adv) h.n dur (s.tm h.timer).ver :: s.log } : St)
          h.timer act
        refine ⟨.ret h.timer ret :: new ++ [(.tick h.timer (s.tm h.timer).start (s.tm h.timer).interval (s.now + adv) h.n dur (s.tm h.timer).ver)], ?_,
          Or.inl ⟨(.tick h.timer (s.tm h.timer).start (s.tm h.timer).interval (s.now + adv) h.n dur (s.tm h.timer).ver), by simp, by simp [isTick]⟩⟩
        split at hs
        · simp only [Option.some.injEq] at hs
          rw [← hs]; simp [hnew]
        · split at hs
          · simp only [Option.some.injEq] at hs
            rw [← hs]; simp [schedule, hnew]
          · simp only [Option.some.injEq] at hs
            rw [← hs]; simp [cancel_log, hnew]
    · cases hs

/-! ### non-vacuity: a concrete run (repaired code, resolution 2, minAdvance 2) -/

def goodCfg : Cfg := ⟨2, 2, true, true⟩
theorem goodCfg_good : goodCfg.good := ⟨rfl, rfl, by decide⟩

/-- interval 2 s; first dispatch one tick early, callback runs 3000 ticks (skips boundary 2) and
    redefines itself; second run cancels its own timer from inside the callback; `.timerc` again -/
def demo : List Inp :=
  [.create 2048, .advance 2047, .dispatch 0 2 3000 true (.redefine 7 0) 1, .advance 1100,
   .dispatch 1 2 5 true .cancelSelf 0, .timerc 0]

def demoTail : List Ev :=
  [.ret 0 true, .redefined 0 7, .tick 0 0 2048 2049 1 3000 0, .created 0 0 2048]

theorem demo_log : (run goodCfg init demo).log =
    [.timerc 0 0, .ret 0 true, .timerc 0 1] ++ Ev.tick 0 0 2048 6152 3 5 7 :: demoTail := by decide

example : (1 : Int) ≤ 3 ∧ (0 : Int) + 3 * ((2048 : Nat) : Int) ≤ 6152 :=
  tick_on_boundary goodCfg_good demo demo_log
example : (1 : Int) < 3 :=
  one_tick_per_boundary goodCfg_good demo demo_log (n' := 1) (by decide : Ev.tick 0 0 2048 2049 1 3000 0 ∈ demoTail)
example : (0 : Int) + (3 - 1) * ((2048 : Nat) : Int) ≤ 2049 + ((3000 : Nat) : Int) ∧
    (2049 : Int) + ((3000 : Nat) : Int) < 0 + 3 * ((2048 : Nat) : Int) :=
  (skips_missed goodCfg_good demo demo_log (T := 2049) (n0 := 1) (d0 := 3000) (by decide)).1 (by decide)
example : (2049 : Int) + ((3000 : Nat) : Int) ≤ 6152 :=
  no_overlap goodCfg_good demo demo_log (by decide : Ev.tick 0 0 2048 2049 1 3000 0 ∈ demoTail)
example : ∀ x ∈ [Ev.timerc 0 0, Ev.ret 0 true], isTick 0 x = false :=
  stops_for_good goodCfg_good demo (a := [.timerc 0 0, .ret 0 true]) (e := .timerc 0 1)
    (b := Ev.tick 0 0 2048 6152 3 5 7 :: demoTail) (by decide) (by decide)
example :=   -- `.timerc` from inside the callback: r = 1, created, not stopped before
  timerc_result goodCfg_good demo (a := [.timerc 0 0, .ret 0 true]) (k := 0) (r := 1)
    (b := Ev.tick 0 0 2048 6152 3 5 7 :: demoTail) (by decide)
example :=   -- the later external `.timerc`: r = 0
  timerc_result goodCfg_good demo (a := []) (k := 0) (r := 0)
    (b := Ev.ret 0 true :: Ev.timerc 0 1 :: Ev.tick 0 0 2048 6152 3 5 7 :: demoTail) (by decide)
example : 7 = lastVer 0 demoTail :=
  callback_reresolved goodCfg_good demo demo_log
example :=
  live_timer_scheduled goodCfg_good (demo.take 3) (k := 0) (by decide) (by decide)
example : (run goodCfg init (demo.take 3)).handles = [⟨1, 0, false, 6145, 3⟩] := by decide

/-- the callback is redefined to take a parameter while the timer runs: at the next boundary the body
    does not run (no tick), the timer stops, and `.timerc` then reports 0 -/
def demoArity : List Inp :=
  [.create 2048, .advance 2048, .dispatch 0 2 0 true .none 0, .redefine 0 9 1, .advance 2046,
   .dispatch 1 0 0 true .none 0, .timerc 0]
example : (run goodCfg init demoArity).log =
    [.timerc 0 0, .raised 0, .redefined 0 9, .ret 0 true, .tick 0 0 2048 2050 1 0 0, .created 0 0 2048] ∧
    (run goodCfg init demoArity).handles = [] := by decide
example := due_handle_runs_body_or_stops goodCfg_good (demoArity.take 5) (hid := 1) (adv := 0) (dur := 0)
    (ret := true) (act := .none) (drift := 0) (s' := run goodCfg init (demoArity.take 6)) rfl

/-! ### the pinned tree violates the property (both defects of DESIGN §8), decided on witnesses -/

/-- pinned tree (fix1 = false): `.timerc` from inside the timer's own callback returns 1 and the
    timer fires again — the negation of `stops_for_good` -/
theorem pinned_cancel_inside_callback_keeps_firing :
    ∃ (is : List Inp) (a b : List Ev) (k : Nat) (x : Ev),
      (run ⟨2, 2, false, true⟩ init is).log = a ++ Ev.timerc k 1 :: b ∧ x ∈ a ∧ isTick k x = true :=
  ⟨[.create 2048, .advance 2048, .dispatch 0 2 0 true .cancelSelf 0, .advance 2048,
    .dispatch 1 2 0 true .none 0],
   [.ret 0 true, .tick 0 0 2048 4100 2 0 0, .ret 0 true],
   [.tick 0 0 2048 2050 1 0 0, .created 0 0 2048], 0, .tick 0 0 2048 4100 2 0 0,
   by decide, by decide, by decide⟩

/-- pinned tree (fix2 = false): after the callback raised, `.timerc` reports 1 for the dead timer —
    the negation of `timerc_result` -/
theorem pinned_timerc_after_raise_reports_one :
    ∃ (is : List Inp) (a b : List Ev) (k : Nat),
      (run ⟨2, 2, true, false⟩ init is).log = a ++ Ev.timerc k 1 :: b ∧ stopped k b = true :=
  ⟨[.create 2048, .advance 2048, .dispatch 0 2 0 true .raise 0, .timerc 0],
   [], [.raised 0, .tick 0 0 2048 2050 1 0 0, .created 0 0 2048], 0, by decide, by decide⟩

/-- why `res ≤ minAdv` is assumed: with the clock frozen during an early dispatch (minAdv = 0)
    even the repaired code fires before the boundary and charges the same boundary twice -/
theorem frozen_clock_double_tick :
    ∃ (is : List Inp) (b : List Ev),
      (run ⟨2, 0, true, true⟩ init is).log =
        Ev.ret 0 true :: Ev.tick 0 0 2048 2047 1 0 0 :: Ev.ret 0 true :: Ev.tick 0 0 2048 2047 1 0 0 :: b :=
  ⟨[.create 2048, .advance 2047, .dispatch 0 0 0 true .none 0, .dispatch 1 0 0 true .none 0],
   [.created 0 0 2048], by decide⟩

end Klong.C15
