/-
  C02 (extension) — property theorems for Each-Index, Each-2, Each on strings / dictionaries,
  the convergence family (explicit fuel) and chains of adverbs: the implementation model equals
  the manual's expansion as a monadic program, for every verb in every lawful monad.
-/
import Klong.Model.C02Ext
import Klong.Props.C02
namespace Klong.C02
open Klong Klong.C01

section generic
variable {m : Type → Type} [Monad m] [LawfulMonad m]

/-! ## helper lemmas -/

theorem pyIter_strToChrArr (a : Val) : pyIter strToChrArr a = elems a := by
  cases a <;> rfl

theorem isEmptySeq_iff (a : Val) : isEmptySeq a = true ↔ elems a = some [] := by
  cases a with
  | list xs => cases xs <;> simp [isEmptySeq, elems]
  | str cs => cases cs <;> simp [isEmptySeq, elems]
  | _ => simp [isEmptySeq, elems]

theorem zipIdx_mapM_eq (f : V1 m) (xs : List Val) (i : Nat) :
    (xs.zipIdx i).mapM (fun p => f (.list [.int (p.2 : Nat), p.1])) = refMapIdx f i xs := by
  induction xs generalizing i with
  | nil => simp [refMapIdx]
  | cons x xs ih => simp only [List.zipIdx_cons, List.mapM_cons, refMapIdx, ih]

/-! ## Each-Index -/

/-- **each_index_eq**: `f@'a` is f([0;a1]),…,f([N-1;aN]) — list, string, atom and empty
    clauses — when the members of a string are presented as characters (`str_to_chr_arr`) -/
theorem each_index_eq (f : V1 m) (a : Val) : implEachIndex strToChrArr f a = refEachIndex f a := by
  unfold implEachIndex refEachIndex
  rw [pyIter_strToChrArr]
  cases h : elems a with
  | none =>
    have : isEmptySeq a = false := by
      cases hh : isEmptySeq a with
      | false => rfl
      | true => rw [(isEmptySeq_iff a).1 hh] at h; cases h
    simp [this]
  | some xs =>
    cases xs with
    | nil => simp [(isEmptySeq_iff a).2 h]
    | cons x xs =>
      have : isEmptySeq a = false := by
        cases hh : isEmptySeq a with
        | false => rfl
        | true => rw [(isEmptySeq_iff a).1 hh] at h; cases h
      simp only [this, Bool.false_eq_true, if_false]
      rw [zipIdx_mapM_eq]

omit [LawfulMonad m] in
/-- whatever way strings iterate, Each-Index of a non-string is the expansion -/
theorem each_index_eq_of_not_str (chars : List Nat → List Val) (f : V1 m) (a : Val)
    (h : ∀ cs, a ≠ .str cs) : implEachIndex chars f a = implEachIndex strToChrArr f a := by
  cases a with
  | str cs => exact absurd rfl (h cs)
  | _ => rfl

/-! ## Each-2 -/

/-- **each2_eq**: `a f'b` — the empty, atom-atom and pairwise clauses — for every presentation
    `seq` of the result list -/
theorem each2_eq (seq : List Val → Val) (undef : m Val) (f : V2 m) (a b : Val) :
    implEach2 strToChrArr seq undef f a b = refEach2 seq undef f a b := by
  unfold implEach2 refEach2
  rw [pyIter_strToChrArr, pyIter_strToChrArr]
  cases ha : elems a with
  | none =>
    have ea : isEmptySeq a = false := by
      cases hh : isEmptySeq a with
      | false => rfl
      | true => rw [(isEmptySeq_iff a).1 hh] at ha; cases ha
    cases hb : elems b with
    | none =>
      have eb : isEmptySeq b = false := by
        cases hh : isEmptySeq b with
        | false => rfl
        | true => rw [(isEmptySeq_iff b).1 hh] at hb; cases hb
      simp [ea, eb]
    | some ys =>
      cases ys with
      | nil => simp [(isEmptySeq_iff b).2 hb]
      | cons y ys =>
        have eb : isEmptySeq b = false := by
          cases hh : isEmptySeq b with
          | false => rfl
          | true => rw [(isEmptySeq_iff b).1 hh] at hb; cases hb
        simp [ea, eb]
  | some xs =>
    cases xs with
    | nil => simp [(isEmptySeq_iff a).2 ha]
    | cons x xs =>
      have ea : isEmptySeq a = false := by
        cases hh : isEmptySeq a with
        | false => rfl
        | true => rw [(isEmptySeq_iff a).1 hh] at ha; cases ha
      cases hb : elems b with
      | none =>
        have eb : isEmptySeq b = false := by
          cases hh : isEmptySeq b with
          | false => rfl
          | true => rw [(isEmptySeq_iff b).1 hh] at hb; cases hb
        simp [ea, eb]
      | some ys =>
        cases ys with
        | nil => simp [(isEmptySeq_iff b).2 hb]
        | cons y ys =>
          have eb : isEmptySeq b = false := by
            cases hh : isEmptySeq b with
            | false => rfl
            | true => rw [(isEmptySeq_iff b).1 hh] at hb; cases hb
          simp [ea, eb, pyZipComp_eq]

theorem allU1_eq_allChrs (r : List Val)
    (h : ∀ v ∈ r, u1Chars v = none ∨ ∃ c, v = .chr c) : allU1 r = allChrs r := by
  induction r with
  | nil => rfl
  | cons v r ih =>
    have ih' := ih (fun w hw => h w (List.mem_cons_of_mem _ hw))
    rcases h v (List.mem_cons_self) with hv | ⟨c, rfl⟩
    · have : allChrs (v :: r) = none := by
        cases v <;> simp_all [allChrs, u1Chars]
      simp [allU1, hv, this]
    · simp only [allU1, u1Chars, allChrs, ih']
      cases allChrs r <;> simp

/-- **each2_join_sound** (the code before /repo 5fd71c0): numpy's `'<U1'` join presents the result
    list as the manual does (a list of characters is a string) unless the verb returned strings or
    symbols of length ≤ 1.  The repaired code uses `mkSeq` itself, for which `each2_eq` is the
    whole statement. -/
theorem each2_join_sound (r : List Val)
    (h : ∀ v ∈ r, u1Chars v = none ∨ ∃ c, v = .chr c) : u1Join r = mkSeq r := by
  unfold u1Join mkSeq
  rw [allU1_eq_allChrs r h]

/-! ## Each on strings and dictionaries -/

/-- **each_dict_eq** (and strings, lists, atoms): `f'a` for every kind of operand; for a
    dictionary, f is applied to each stored `[key value]` tuple in storage order -/
theorem each_x_eq (f : V1 m) (a : Val) : implEachX strToChrArr f a = refEachX f a := by
  unfold implEachX refEachX
  cases a with
  | str cs => cases cs <;> simp [pyComp_eq_refMap, strToChrArr]
  | list xs => cases xs <;> simp [refEach, ← pyComp_eq_refMap, pyComp]
  | dict kvs => simp [pyComp_eq_refMap]
  | _ => simp [refEach]

theorem each_dict_eq (f : V1 m) (kvs : List (Val × Val)) :
    implEachX strToChrArr f (.dict kvs)
      = (do let r ← refMap f (kvs.map fun p => .list [p.1, p.2]); pure (.list r)) := by
  rw [each_x_eq]; rfl

/-! ## the convergence family -/

theorem refFix_eq_loop (eq : Val → Val → Bool) (f : V1 m) (n : Nat) (x : Val) :
    refFix eq f n x = (do
      let y ← f x
      let r ← pyWhile (fun (s : Val × Val) => pure (!eq s.1 s.2))
                (fun s => do let xx' ← f s.2; pure (s.2, xx')) n (x, y)
      pure (r.map (·.1))) := by
  induction n generalizing x with
  | zero =>
    unfold refFix
    congr 1; funext y
    unfold pyWhile
    cases eq x y <;> simp
  | succ n ih =>
    unfold refFix
    congr 1; funext y
    unfold pyWhile
    cases h : eq x y
    · simp [ih]
    · simp

/-- **converge_eq**: for every fuel, `eval_adverb_converge` makes the calls the definition
    prescribes, in the same order, and returns the same value (or both run out of fuel) -/
theorem converge_eq (eq : Val → Val → Bool) (f : V1 m) (n : Nat) (a : Val) :
    implConverge eq f n a = refConverge eq f n a := by
  unfold implConverge refConverge
  congr 1; funext x
  rw [refFix_eq_loop]

theorem map_list_split {σ : Type} (X : m (Option σ)) (g : σ → List Val) :
    (do let r ← X; pure (r.map fun s => Val.list (g s)))
      = (do let q ← (do let r ← X; pure (r.map g)); pure (q.map Val.list)) := by
  simp [Option.map_map, Function.comp_def]

theorem dropLast_two (pre : List Val) (x xx : Val) : (pre ++ [x, xx]).dropLast = pre ++ [x] := by
  rw [show pre ++ [x, xx] = (pre ++ [x]) ++ [xx] by simp, List.dropLast_concat]

theorem scanConv_loop_eq (eq : Val → Val → Bool) (f : V1 m) (n : Nat) (x xx : Val) (pre : List Val) :
    (do let r ← pyWhile (fun (s : Val × Val × List Val) => pure (!eq s.1 s.2.1))
                  (fun s => do let xx' ← f s.2.1; pure (s.2.1, xx', s.2.2 ++ [xx'])) n
                  (x, xx, pre ++ [x, xx])
        pure (r.map fun s => s.2.2.dropLast))
      = (if eq x xx then pure (some (pre ++ [x]))
         else match n with
           | 0 => pure none
           | n + 1 => do let rs ← refScanFix eq f n xx; pure (rs.map (fun l => pre ++ x :: l))) := by
  induction n generalizing x xx pre with
  | zero =>
    unfold pyWhile
    cases h : eq x xx
    · simp
    · simp
  | succ n ih =>
    unfold pyWhile
    cases h : eq x xx
    · simp only [Bool.not_false, pure_bind, if_true, bind_assoc, Bool.false_eq_true, if_false]
      unfold refScanFix
      simp only [bind_assoc]
      congr 1; funext y
      have := ih xx y (pre ++ [x])
      simp only [List.append_assoc, List.cons_append, List.nil_append] at this ⊢
      rw [this]
      cases h2 : eq xx y
      · cases n with
        | zero => simp
        | succ k =>
          simp only [Bool.false_eq_true, if_false, bind_pure_comp, Functor.map_map]
          congr 1; funext rs
          cases rs <;> simp
      · simp
    · simp

/-- **scan_converging_eq**: `f\~a` collects a, f(a), … up to the fixpoint, for every fuel -/
theorem scan_converging_eq (eq : Val → Val → Bool) (f : V1 m) (n : Nat) (a : Val) :
    implScanConverging eq f n a = refScanConverging eq f n a := by
  unfold implScanConverging refScanConverging
  unfold refScanFix
  simp only [bind_assoc]
  congr 1; funext xx
  have := scanConv_loop_eq eq f n a xx []
  simp only [List.nil_append] at this
  refine (map_list_split _ (fun (s : Val × Val × List Val) => s.2.2.dropLast)).trans ?_
  rw [this]
  cases h : eq a xx
  · cases n with
    | zero => simp
    | succ k => simp
  · simp

/-- **while_eq**: `p f:~b` — the predicate is evaluated before every step, for every fuel -/
theorem while_eq (truthy : Val → Bool) (p f : V1 m) (n : Nat) (b : Val) :
    implWhile truthy p f n b = refWhile truthy p f n b := by
  unfold implWhile
  induction n generalizing b with
  | zero =>
    unfold pyWhile refWhile
    simp
  | succ n ih =>
    unfold pyWhile refWhile
    simp only [bind_assoc, pure_bind]
    congr 1; funext t
    cases truthy t
    · simp
    · simp only [if_true]
      congr 1; funext b'
      exact ih b'

theorem scanWhile_loop_eq (truthy : Val → Bool) (p f : V1 m) (n : Nat) (b : Val) (pre : List Val) :
    (do let r ← pyWhile (fun (s : Val × List Val) => do let t ← p s.1; pure (truthy t))
                  (fun s => do let b' ← f s.1; pure (b', s.2 ++ [b'])) n (b, pre ++ [b])
        pure (r.map fun s => s.2.dropLast))
      = (do let rs ← refScanWhileL truthy p f n b; pure (rs.map (fun l => pre ++ l))) := by
  induction n generalizing b pre with
  | zero =>
    unfold pyWhile refScanWhileL
    simp only [bind_assoc, pure_bind]
    congr 1; funext t
    cases truthy t <;> simp
  | succ n ih =>
    unfold pyWhile refScanWhileL
    simp only [bind_assoc, pure_bind]
    congr 1; funext t
    cases truthy t
    · simp
    · simp only [if_true, bind_assoc, pure_bind]
      congr 1; funext b'
      have := ih b' (pre ++ [b])
      rw [this]
      congr 1; funext rs
      cases rs <;> simp

/-- **scan_while_eq**: `p f\~b` collects the values that satisfy p, for every fuel -/
theorem scan_while_eq (truthy : Val → Bool) (p f : V1 m) (n : Nat) (b : Val) :
    implScanWhile truthy p f n b = refScanWhile truthy p f n b := by
  unfold implScanWhile refScanWhile
  have := scanWhile_loop_eq truthy p f n b []
  simp only [List.nil_append] at this
  refine (map_list_split _ (fun (s : Val × List Val) => s.2.dropLast)).trans ?_
  rw [this]
  simp only [bind_assoc, pure_bind]
  congr 1; funext rs
  cases rs <;> simp

/-! ## chains -/

omit [Monad m] [LawfulMonad m] in
theorem implChainGo_eq (op : Option String) (i : Nat) (hi : 2 ≤ i) (f : Fn m) (advs : List (Adv m)) :
    implChainGo op i f advs = refChain f none advs := by
  induction advs generalizing i f with
  | nil => rfl
  | cons o rest ih =>
    have h1 : ¬ i = 1 := by omega
    simp only [implChainGo, refChain, h1, if_false]
    exact ih (i + 1) (by omega) _

omit [Monad m] [LawfulMonad m] in
/-- **chain_eq**: for every length k, the closures `chain_adverbs` builds for `v a₁ a₂ … aₖ` are
    a₁ applied to v (with v's operator), then a₂ applied to the resulting monad (no operator), … -/
theorem chain_eq (v : Fn m) (op : Option String) (advs : List (Adv m)) :
    implChain v op advs = refChain v op advs := by
  cases advs with
  | nil => rfl
  | cons a rest =>
    simp only [implChain, implChainGo, refChain, if_true]
    exact implChainGo_eq op 2 (by omega) _ rest

omit [Monad m] [LawfulMonad m] in
/-- left to right: the last adverb of the chain is applied to the verb derived by the others -/
theorem refChain_snoc (v : Fn m) (op : Option String) (advs : List (Adv m)) (a : Adv m) :
    refChain v op (advs ++ [a])
      = .mon (a (refChain v op advs) (if advs.isEmpty then op else none)) := by
  induction advs generalizing v op with
  | nil => rfl
  | cons b rest ih =>
    simp only [List.cons_append, refChain, List.isEmpty_cons]
    rw [ih]
    cases rest <;> rfl

omit [Monad m] [LawfulMonad m] in
/-- **chain_eq_snoc**: the implementation's chain of k+1 adverbs is the (k+1)-th adverb applied
    to the implementation's chain of the first k -/
theorem chain_eq_snoc (v : Fn m) (op : Option String) (advs : List (Adv m)) (a : Adv m) :
    implChain v op (advs ++ [a])
      = .mon (a (implChain v op advs) (if advs.isEmpty then op else none)) := by
  rw [chain_eq, chain_eq, refChain_snoc]

end generic

/-! ## the fixpoint reached by Converge (pure verbs) -/

/-- f applied k times -/
def iter (f : Val → Val) : Nat → Val → Val
  | 0, a => a
  | k + 1, a => iter f k (f a)

theorem iter_succ' (f : Val → Val) (k : Nat) (a : Val) : iter f (k + 1) a = f (iter f k a) := by
  induction k generalizing a with
  | zero => rfl
  | succ k ih => rw [iter, ih (f a)]; rfl

theorem refFix_fixpoint (eq : Val → Val → Bool) (f : Val → Val) (n : Nat) (x v : Val)
    (h : Id.run (refFix eq (fun y => (pure (f y) : Id Val)) n x) = some v) :
    ∃ k, k ≤ n ∧ v = iter f k x ∧ eq v (f v) = true ∧
      ∀ j, j < k → eq (iter f j x) (iter f (j + 1) x) = false := by
  induction n generalizing x with
  | zero =>
    unfold refFix at h
    cases he : eq x (f x)
    · simp [he] at h
    · simp [he] at h
      exact ⟨0, by omega, by simp [iter, h], by simp [← h, he], by intro j hj; omega⟩
  | succ n ih =>
    unfold refFix at h
    cases he : eq x (f x)
    · simp [he] at h
      obtain ⟨k, hk, hv, hfix, hmin⟩ := ih (f x) h
      refine ⟨k + 1, by omega, by simpa [iter] using hv, hfix, ?_⟩
      intro j hj
      cases j with
      | zero => simpa [iter] using he
      | succ j => simpa [iter] using hmin j (by omega)
    · simp [he] at h
      exact ⟨0, by omega, by simp [iter, h], by simp [← h, he], by intro j hj; omega⟩

/-- **converge_fixpoint**: for a pure verb f, if `f:~a` returns v within the fuel then v is the
    first iterate f^(k+1)(a) (k ≤ fuel) that f maps to a matching value: `eq v (f v)` holds
    for the last two iterates, and for no earlier pair -/
theorem converge_fixpoint (eq : Val → Val → Bool) (f : Val → Val) (n : Nat) (a v : Val)
    (h : Id.run (implConverge eq (fun y => (pure (f y) : Id Val)) n a) = some v) :
    ∃ k, k ≤ n ∧ v = iter f (k + 1) a ∧ eq v (f v) = true ∧
      ∀ j, j < k → eq (iter f (j + 1) a) (iter f (j + 2) a) = false := by
  rw [converge_eq] at h
  unfold refConverge at h
  simp only [pure_bind] at h
  obtain ⟨k, hk, hv, hfix, hmin⟩ := refFix_fixpoint eq f n (f a) v h
  exact ⟨k, hk, by simpa [iter] using hv, hfix, fun j hj => by simpa [iter] using hmin j hj⟩

/-! ## each tuple of a dictionary exactly once -/

theorem refMap_log (name : String) (xs : List Val) :
    ∀ (l0 : List (List Val)) (r : List Val) (log : List (List Val)),
      (refMap (logged1X name) xs).run l0 = some (r, log) →
      log = l0 ++ xs.map (fun x => [x]) := by
  induction xs with
  | nil =>
    intro l0 r log h
    simp [refMap, StateT.run, pure, StateT.pure] at h
    simp [← h.2]
  | cons y ys ih =>
    intro l0 r log h
    simp only [refMap, logged1X, StateT.run_bind] at h
    cases hd : monadVerbX name y with
    | none =>
      simp [hd, StateT.run, failure, StateT.failure, Alternative.failure, modify, modifyGet,
        MonadStateOf.modifyGet, StateT.modifyGet, bind, pure] at h
    | some v =>
      simp [hd, StateT.run, StateT.pure, pure, modify, modifyGet,
        MonadStateOf.modifyGet, StateT.modifyGet, bind] at h
      cases hrest : (refMap (logged1X name) ys) (l0 ++ [[y]]) with
      | none => simp [hrest] at h
      | some pr =>
        obtain ⟨rs, lg⟩ := pr
        simp [hrest] at h
        have := ih (l0 ++ [[y]]) rs lg hrest
        simp [← h.2, this]

/-- **each_dict_calls_each_pair_once**: in the logging monad, the call log of `f'd` is exactly
    the list of the dictionary's `[key value]` tuples, each once, in storage order -/
theorem each_dict_calls_each_pair_once (name : String) (kvs : List (Val × Val))
    (v : Val) (log : List (List Val))
    (h : (implEachX strToChrArr (logged1X name) (.dict kvs)).run [] = some (v, log)) :
    log = kvs.map (fun p => [Val.list [p.1, p.2]]) := by
  rw [each_dict_eq] at h
  simp only [StateT.run_bind] at h
  cases hr : (refMap (logged1X name) (kvs.map fun p => Val.list [p.1, p.2])).run [] with
  | none => rw [hr] at h; simp [bind, Option.bind] at h
  | some pr =>
    obtain ⟨rs, lg⟩ := pr
    have := refMap_log name _ [] rs lg hr
    rw [hr] at h
    simp [bind, Option.bind, StateT.run, pure, StateT.pure] at h
    simp [← h.2, this, List.map_map, Function.comp_def]

/-! ## witnesses

`decide` cannot unfold the well-founded atomic dyads of C01, so the witnesses use small
structurally defined verbs with the *generic* adverb machines of the model. -/

/-- integer Minus as a logging verb -/
def subI : V2 LogM := fun a b => do
  modify (· ++ [[a, b]])
  match a, b with
  | .int x, .int y => pure (.int (x - y))
  | _, _ => failure

/-- `np.subtract.reduce` on an integer vector -/
def subReduce : List Val → LogM Val
  | .int x :: r => r.foldlM (fun acc y => match acc, y with
      | .int p, .int q => pure (.int (p - q))
      | _, _ => failure) (.int x)
  | _ => failure

/-- `eval_adverb_over` with the `-` shortcut keyed by the operator it is handed -/
def advOverW : Adv LogM := fun f op x =>
  implOver f.call2 (if op = some "-" then some subReduce else none) x

def advOverRefW : Adv LogM := fun f _ x => refOver f.call2 x

def advEachPairW : Adv LogM := fun f _ x => implEachPair f.call2 x

def v1234 : Val := .list [.int 1, .int 2, .int 3, .int 4]

/-- **chain_pinned_op_leak_observable**: `-:'/[1 2 3 4]`.  The chain as `chain_adverbs` builds it
    now (operator only to the first adverb) and the left-to-right reference give 1; handing the
    operator `-` to the later adverb `/` (the pinned behaviour) takes the subtract shortcut on
    the raw operand and gives -8 -/
theorem chain_pinned_op_leak_observable :
    ((((implChain (.dy subI) (some "-") [advEachPairW, advOverW]).call1 failure v1234).run []).map
        (·.1.toWire),
     (((refChain (.dy subI) (some "-") [advEachPairW, advOverRefW]).call1 failure v1234).run []).map
        (·.1.toWire),
     (((pinnedChainGo (some "-") (.dy subI) [advEachPairW, advOverW]).call1 failure v1234).run []).map
        (·.1.toWire))
      = (some "(i 1)", some "(i 1)", some "(i -8)") := by
  decide

/-- Python's own string iteration (`eval_adverb_each_index` before /repo f73dcd7) is observable:
    `{x@1}@'"a"` gave `["a"]`, the expansion gives the character list `"a"` -/
theorem each_index_pystr_observable :
    (((implEachIndex pyStrIter (logged1X "{x@1}") (.str [97])).run []).map (·.1.toWire),
     ((refEachIndex (logged1X "{x@1}") (.str [97])).run []).map (·.1.toWire))
      = (some "(L (s 97))", some "(s 97)") := by
  decide

/-- the `'<U1'` join of Each-2 (before /repo 5fd71c0) is observable when the verb returns
    one-character strings: `[1 2]{"a"}'[3 4]` gave "aa", the expansion the list ["a" "a"] -/
theorem each2_u1_join_observable :
    ((u1Join [.str [97], .str [97]]).toWire, (mkSeq [.str [97], .str [97]]).toWire)
      = ("(s 97 97)", "(L (s 97) (s 97))") := by
  decide

/-! ## non-vacuity -/

example : ((implEachIndex strToChrArr (logged1X "{x}") (.list [.int 10, .int 20])).run []).map
      (fun p => (p.1.toWire, showLog p.2))
    = some ("(L (L (i 0) (i 10)) (L (i 1) (i 20)))", "(L (i 0) (i 10))|(L (i 1) (i 20))") := by
  decide

example : ((implEach2 strToChrArr mkSeq failure subI (.list [.int 5, .int 7, .int 9])
      (.list [.int 1, .int 2])).run []).map (fun p => (p.1.toWire, showLog p.2))
    = some ("(L (i 4) (i 5))", "(i 5),(i 1)|(i 7),(i 2)") := by
  decide

example : ((implEachX strToChrArr (logged1X "{x}") (.dict [(.int 1, .int 2), (.int 3, .int 4)])).run []).map
      (fun p => (p.1.toWire, showLog p.2))
    = some ("(L (L (i 1) (i 2)) (L (i 3) (i 4)))", "(L (i 1) (i 2))|(L (i 3) (i 4))") := by
  decide

/-- integer halving as a logging verb -/
def halfI : V1 LogM := fun a => do
  modify (· ++ [[a]])
  match a with
  | .int x => pure (.int (x / 2))
  | _ => failure

def dblI : V1 LogM := fun a => do
  modify (· ++ [[a]])
  match a with
  | .int x => pure (.int (x * 2))
  | _ => failure

def lt10 : V1 LogM := fun a => do
  modify (· ++ [[a]])
  match a with
  | .int x => pure (.int (if x < 10 then 1 else 0))
  | _ => failure

def eqV (p q : Val) : Bool := p == q

/-- `{x:%2}:~8` — calls on 8, 4, 2, 1, 0; result 0 -/
example : ((implConverge eqV halfI 10 (.int 8)).run []).map
      (fun p => (p.1.map Val.toWire, showLog p.2))
    = some (some "(i 0)", "(i 8)|(i 4)|(i 2)|(i 1)|(i 0)") := by
  decide

/-- out of fuel: no fixpoint of doubling from 1 -/
example : ((implConverge eqV dblI 3 (.int 1)).run []).map (fun p => p.1.map Val.toWire)
    = some none := by
  decide

example : ((implScanConverging eqV halfI 10 (.int 8)).run []).map (fun p => p.1.map Val.toWire)
    = some (some "(L (i 8) (i 4) (i 2) (i 1) (i 0))") := by
  decide

/-- `{x<10}{x*2}:~1` — the predicate is called before every step -/
example : ((implWhile pyTruth lt10 dblI 10 (.int 1)).run []).map
      (fun p => (p.1.map Val.toWire, showLog p.2))
    = some (some "(i 16)", "(i 1)|(i 1)|(i 2)|(i 2)|(i 4)|(i 4)|(i 8)|(i 8)|(i 16)") := by
  decide

example : ((implScanWhile pyTruth lt10 dblI 10 (.int 1)).run []).map (fun p => p.1.map Val.toWire)
    = some (some "(L (i 1) (i 2) (i 4) (i 8))") := by
  decide

/-- `converge_fixpoint` on a concrete pure verb: halving reaches 0 = f(0) -/
example : (Id.run (implConverge (m := Id) eqV
      (fun y => pure (match y with | .int n => .int (n / 2) | v => v)) 10 (.int 8))).map Val.toWire
        = some "(i 0)" := by
  decide

/-- `,/'` : Join-Over applied to each member -/
example : (((implChain (.dy (logged2 ",")) (some ",") [advOverW, fun f _ x => implEachX strToChrArr (f.call1 failure) x]).call1
      failure (.list [.list [.int 1, .int 2, .int 3], .list [.int 4, .int 5]])).run []).map (·.1.toWire)
    = some "(L (L (i 1) (i 2) (i 3)) (L (i 4) (i 5)))" := by
  decide

end Klong.C02
