/-
  C07 — gradient and Jacobian computation is observationally pure.
  Helper lemmas first, property theorems below the line.
-/
import Klong.Model.C07
namespace Klong.C07

/-! ## store lemmas -/

theorem lookup_set (st : Store) (n m : Name) (b : Bind) :
    lookup (set st n b) m = if m = n then some b else lookup st m := by
  induction st with
  | nil => simp only [set, lookup]; grind
  | cons p t ih =>
    obtain ⟨k, c⟩ := p
    simp only [set]
    split <;> simp only [lookup] <;> grind

/-- store frame: every name keeps its binding, except that an unbound name may have become
    bound to itself (the interpreter's treatment of undefined names) -/
def SF (a b : Store) : Prop :=
  ∀ n, lookup b n = lookup a n ∨ (lookup a n = none ∧ lookup b n = some (.sym n))

theorem SF.refl (a : Store) : SF a a := fun _ => Or.inl rfl

theorem SF.trans {a b c : Store} (h1 : SF a b) (h2 : SF b c) : SF a c := by
  intro n
  have := h1 n
  have := h2 n
  grind

theorem SF_bindSelf (st : Store) (n : Name) : SF st (bindSelf st n) := by
  intro m
  unfold bindSelf
  split
  · rw [lookup_set]; grind
  · exact Or.inl rfl

theorem SF_set_same {st : Store} {p : Name} {b : Bind} (h : lookup st p = some b) :
    SF st (set st p b) := by
  intro m
  rw [lookup_set]; grind

theorem lookup_setMany_not_mem (l : List (Name × Bind)) (st : Store) (m : Name)
    (h : ∀ q ∈ l, q.1 ≠ m) : lookup (setMany st l) m = lookup st m := by
  induction l generalizing st with
  | nil => rfl
  | cons q t ih =>
    obtain ⟨k, c⟩ := q
    simp only [setMany]
    rw [ih _ (fun q hq => h q (List.mem_cons_of_mem _ hq)), lookup_set]
    have := h (k, c) (List.mem_cons_self ..)
    grind

theorem lookup_restoreFrom (orig : Store) (ps : List Name) (st : Store) (m : Name)
    (h : ∀ n ∈ ps, (lookup orig n).isSome) :
    lookup (restoreFrom orig ps st) m = if m ∈ ps then lookup orig m else lookup st m := by
  induction ps generalizing st with
  | nil => simp [restoreFrom]
  | cons n t ih =>
    have hn := h n (List.mem_cons_self ..)
    have ht : ∀ k ∈ t, (lookup orig k).isSome := fun k hk => h k (List.mem_cons_of_mem _ hk)
    simp only [restoreFrom]
    split
    · rename_i b hb
      rw [ih _ ht, lookup_set]
      by_cases hm : m ∈ t
      · simp [hm]
      · by_cases hmn : m = n
        · subst hmn; simp [hm, hb]
        · simp [hm, hmn]
    · rename_i hb
      rw [hb] at hn; cases hn

/-! ## the frame relation -/

/-- `Fr P L s s'`: the store is framed, and — when the writes are known to be fresh (`P`) —
    every cell below `L` is untouched and the heap has only grown -/
def Fr (P : Prop) (L : Nat) (s s' : St) : Prop :=
  SF s.store s'.store ∧
  (P → L ≤ s.heap.length → L ≤ s'.heap.length ∧ ∀ r, r < L → s'.heap[r]? = s.heap[r]?)

theorem Fr.refl (P : Prop) (L : Nat) (s : St) : Fr P L s s :=
  ⟨SF.refl _, fun _ h => ⟨h, fun _ _ => rfl⟩⟩

theorem Fr.trans {P : Prop} {L : Nat} {a b c : St} (h1 : Fr P L a b) (h2 : Fr P L b c) :
    Fr P L a c := by
  refine ⟨h1.1.trans h2.1, fun hp hl => ?_⟩
  obtain ⟨hb, hb'⟩ := h1.2 hp hl
  obtain ⟨hc, hc'⟩ := h2.2 hp hb
  exact ⟨hc, fun r hr => by rw [hc' r hr, hb' r hr]⟩

theorem Fr.of_eq {P : Prop} {L : Nat} {s s' : St} (hs : s'.store = s.store) (hh : s'.heap = s.heap) :
    Fr P L s s' := by
  refine ⟨by rw [hs]; exact SF.refl _, fun _ hl => ?_⟩
  rw [hh]; exact ⟨hl, fun _ _ => rfl⟩

theorem fr_store {P : Prop} {L : Nat} {s s' : St} (hh : s'.heap = s.heap) (hs : SF s.store s'.store) :
    Fr P L s s' := by
  refine ⟨hs, fun _ hl => ?_⟩
  rw [hh]; exact ⟨hl, fun _ _ => rfl⟩

theorem fr_alloc (P : Prop) (L : Nat) (s : St) (c : Cell) : Fr P L s (alloc s c).1 := by
  refine ⟨SF.refl _, fun _ hl => ?_⟩
  simp only [alloc, List.length_append, List.length_cons, List.length_nil]
  refine ⟨by omega, fun r hr => ?_⟩
  rw [List.getElem?_append_left (by omega)]

theorem alloc_ref (s : St) (c : Cell) : (alloc s c).2 = s.heap.length := rfl

theorem fr_writeAt (L : Nat) (s : St) (x : Ref) (i : Nat) (v : Int) :
    Fr (L ≤ x) L s (writeAt s x i v) := by
  unfold writeAt
  split
  · refine ⟨SF.refl _, fun hx hl => ?_⟩
    simp only [List.length_set]
    refine ⟨hl, fun r hr => ?_⟩
    rw [List.getElem?_set_ne (by omega)]
  · exact Fr.refl _ _ _

theorem writeAt_store (s : St) (x : Ref) (i : Nat) (v : Int) : (writeAt s x i v).store = s.store := by
  unfold writeAt; split <;> rfl

theorem writeAt_length (s : St) (x : Ref) (i : Nat) (v : Int) :
    (writeAt s x i v).heap.length = s.heap.length := by
  unfold writeAt; split <;> simp

theorem fr_copyOf (P : Prop) (L : Nat) (s : St) (x : Ref) : Fr P L s (copyOf s x).1 := by
  unfold copyOf; split <;> exact fr_alloc ..

theorem copyOf_ref (s : St) (x : Ref) : (copyOf s x).2 = s.heap.length := by
  unfold copyOf; split <;> rfl

theorem fr_copyPerturbed (P : Prop) (L : Nat) (s : St) (x : Ref) (j : Nat) (d : Int) :
    Fr P L s (copyPerturbed s x j d).1 := by
  have h1 : Fr P L s (copyOf s x).1 := fr_copyOf ..
  have h2 := fr_writeAt L (copyOf s x).1 (copyOf s x).2 j d
  refine ⟨?_, fun hp hl => ?_⟩
  · simp only [copyPerturbed, writeAt_store]; exact h1.1
  · obtain ⟨ha, ha'⟩ := h1.2 hp hl
    have hx : L ≤ (copyOf s x).2 := by rw [copyOf_ref]; exact hl
    obtain ⟨hb, hb'⟩ := h2.2 hx ha
    exact ⟨hb, fun r hr => by simp only [copyPerturbed]; rw [hb' r hr, ha' r hr]⟩

/-! ## evaluations of the function -/

theorem callF_heap (sc : Script) (cfg : Cfg) (arg : Option Ref) (s : St) :
    (callF sc cfg arg s).1.heap = s.heap := by
  unfold callF
  split
  · rfl
  · dsimp only; split <;> try rfl
    split <;> rfl

theorem callF_store (sc : Script) (cfg : Cfg) (arg : Option Ref) (s : St) :
    SF s.store (callF sc cfg arg s).1.store := by
  unfold callF
  split
  · exact SF.refl _
  · dsimp only; split <;> try exact SF.refl _
    split
    · exact SF_bindSelf _ _
    · exact SF.refl _

theorem fr_callF (P : Prop) (L : Nat) (sc : Script) (cfg : Cfg) (arg : Option Ref) (s : St) :
    Fr P L s (callF sc cfg arg s).1 :=
  fr_store (callF_heap sc cfg arg s) (callF_store sc cfg arg s)

/-- the rebinding wrappers restore exactly what the store holds when they are entered -/
def WrapOK (w : Wrap) (st : Store) : Prop :=
  match w with
  | .rebind p orig _ => lookup st p = some orig
  | _ => True

theorem WrapOK.of_SF {w : Wrap} {a b : Store} (h : WrapOK w a) (hs : SF a b) : WrapOK w b := by
  cases w with
  | rebind p orig pa =>
    simp only [WrapOK] at h ⊢
    have := hs p
    grind
  | direct => trivial
  | multi ps vals i => trivial

theorem invokeMulti_heap (sc : Script) (cfg : Cfg) (ps : List Name) (ts : List Bind) (s : St) :
    (invokeMulti sc cfg ps ts s).1.heap = s.heap := by
  unfold invokeMulti
  split
  · simp only [callF_heap]
  · rfl

theorem invokeMulti_store (sc : Script) (cfg : Cfg) (ps : List Name) (ts : List Bind) (s : St) :
    SF s.store (invokeMulti sc cfg ps ts s).1.store := by
  unfold invokeMulti
  split
  · rename_i hall
    have hb : ∀ n ∈ ps, (lookup s.store n).isSome := by
      intro n hn
      exact (List.all_eq_true.mp hall) n hn
    intro m
    dsimp only
    rw [lookup_restoreFrom _ _ _ _ hb]
    by_cases hm : m ∈ ps
    · simp [hm]
    · simp only [hm, if_false]
      have hc := callF_store sc cfg none { s with store := setMany s.store (ps.zip ts) } m
      have hz : lookup (setMany s.store (ps.zip ts)) m = lookup s.store m := by
        apply lookup_setMany_not_mem
        intro q hq heq
        have := (List.of_mem_zip (a := q.1) (b := q.2) hq).1
        exact hm (heq ▸ this)
      simp only [hz] at hc
      exact hc
  · exact SF.refl _

theorem invoke_heap (sc : Script) (cfg : Cfg) (w : Wrap) (v : Ref) (s : St) :
    (invoke sc cfg w v s).1.heap = s.heap := by
  cases w with
  | direct => simp only [invoke, callF_heap]
  | rebind p orig pa => simp only [invoke, callF_heap]
  | multi ps vals i => simp only [invoke, invokeMulti_heap]

theorem invoke_store (sc : Script) (cfg : Cfg) (w : Wrap) (v : Ref) (s : St) (hw : WrapOK w s.store) :
    SF s.store (invoke sc cfg w v s).1.store := by
  cases w with
  | direct => exact callF_store sc cfg (some v) s
  | multi ps vals i => exact invokeMulti_store sc cfg ps (vals.set i (.ref v)) s
  | rebind p orig pa =>
    simp only [WrapOK] at hw
    intro m
    simp only [invoke]
    rw [lookup_set]
    by_cases hm : m = p
    · subst hm; simp [hw]
    · simp only [hm, if_false]
      have hc := callF_store sc cfg (if pa then some v else none)
        { s with store := set s.store p (.ref v) } m
      simp only [lookup_set, hm, if_false] at hc
      exact hc

theorem fr_invoke (P : Prop) (L : Nat) (sc : Script) (cfg : Cfg) (w : Wrap) (v : Ref) (s : St)
    (hw : WrapOK w s.store) : Fr P L s (invoke sc cfg w v s).1 :=
  fr_store (invoke_heap sc cfg w v s) (invoke_store sc cfg w v s hw)

/-! ## numeric_grad -/

theorem fr_probe (L : Nat) (sc : Script) (cfg : Cfg) (w : Wrap) (x : Ref) (i : Nat) (d : Int) (s : St)
    (hw : WrapOK w s.store) : Fr (L ≤ x) L s (probe sc cfg w x i d s).1 := by
  unfold probe
  have h1 := fr_writeAt L s x i d
  have h2 : Fr (L ≤ x) L (writeAt s x i d) (copyOf (writeAt s x i d) x).1 := fr_copyOf ..
  have hw2 : WrapOK w (copyOf (writeAt s x i d) x).1.store := hw.of_SF (h1.trans h2).1
  exact (h1.trans h2).trans (fr_invoke _ _ _ _ _ _ _ hw2)

theorem fr_gradLoop (L : Nat) (sc : Script) (cfg : Cfg) (w : Wrap) (x : Ref) :
    ∀ (is : List Nat) (s : St), WrapOK w s.store → Fr (L ≤ x) L s (gradLoop sc cfg w x is s).1
  | [], s, _ => Fr.refl _ _ _
  | i :: is, s, hw => by
    have h1 := fr_probe L sc cfg w x i (origAt s x i + eps) s hw
    have hw1 := hw.of_SF h1.1
    have h2 := fr_probe L sc cfg w x i (origAt s x i - eps)
      (probe sc cfg w x i (origAt s x i + eps) s).1 hw1
    have hw2 := hw1.of_SF h2.1
    simp only [gradLoop]
    split
    · split
      · have h3 := fr_writeAt L (probe sc cfg w x i (origAt s x i - eps)
          (probe sc cfg w x i (origAt s x i + eps) s).1).1 x i (origAt s x i)
        have hw3 := hw2.of_SF h3.1
        exact ((h1.trans h2).trans h3).trans (fr_gradLoop L sc cfg w x is _ hw3)
      · exact h1.trans h2
    · exact h1

theorem asF64_spec (P : Prop) (L : Nat) (v : Variant) (s s1 : St) (b : Bind) (x : Ref)
    (h : asF64 v s b = some (s1, x)) :
    Fr P L s s1 ∧ (v = .repaired → L ≤ s.heap.length → L ≤ x) := by
  cases b with
  | sym n => simp [asF64] at h
  | ref r =>
    simp only [asF64] at h
    split at h
    · cases h
    · rename_i c hc
      split at h
      · rename_i hpin
        cases h
        exact ⟨Fr.refl _ _ _, fun hrep => by rw [hrep] at hpin; exact absurd hpin.1 (by decide)⟩
      · cases h
        exact ⟨fr_alloc .., fun _ hl => hl⟩

theorem fr_numericGrad (L : Nat) (v : Variant) (sc : Script) (cfg : Cfg) (w : Wrap) (b : Bind) (s : St)
    (hw : WrapOK w s.store) : Fr (v = .repaired) L s (numericGrad v sc cfg w b s).1 := by
  unfold numericGrad
  split
  · exact Fr.refl _ _ _
  · rename_i s1 x ha
    obtain ⟨h0, hx⟩ := asF64_spec (v = .repaired) L v s s1 b x ha
    have hw1 := hw.of_SF h0.1
    have hg := fr_gradLoop L sc cfg w x (List.range (sizeAt s1 x)) s1 hw1
    refine ⟨h0.1.trans hg.1, fun hp hl => ?_⟩
    obtain ⟨h1, h1'⟩ := h0.2 hp hl
    obtain ⟨h2, h2'⟩ := hg.2 (hx hp hl) h1
    exact ⟨h2, fun r hr => by rw [h2' r hr, h1' r hr]⟩

/-! ## numeric_jacobian -/

theorem fr_jacLoop (P : Prop) (L : Nat) (sc : Script) (cfg : Cfg) (w : Wrap) (x : Ref) (m : Nat) :
    ∀ (js : List Nat) (s : St), WrapOK w s.store → Fr P L s (jacLoop sc cfg w x m js s).1
  | [], s, _ => Fr.refl _ _ _
  | j :: js, s, hw => by
    have ha : Fr P L s (copyPerturbed s x j (origAt s x j + eps)).1 := fr_copyPerturbed ..
    have hb : Fr P L (copyPerturbed s x j (origAt s x j + eps)).1
        (copyPerturbed (copyPerturbed s x j (origAt s x j + eps)).1 x j (origAt s x j - eps)).1 :=
      fr_copyPerturbed ..
    have hab := ha.trans hb
    have hw1 := hw.of_SF hab.1
    have h1 := fr_invoke P L sc cfg w (copyPerturbed s x j (origAt s x j + eps)).2 _ hw1
    have hw2 := hw1.of_SF h1.1
    have h2 := fr_invoke P L sc cfg w
      (copyPerturbed (copyPerturbed s x j (origAt s x j + eps)).1 x j (origAt s x j - eps)).2 _ hw2
    have hw3 := hw2.of_SF h2.1
    simp only [jacLoop]
    split
    · exact hab.trans h1
    · exact hab.trans h1
    · split
      · exact (hab.trans h1).trans h2
      · exact (hab.trans h1).trans h2
      · split
        · exact ((hab.trans h1).trans h2).trans (fr_jacLoop P L sc cfg w x m js _ hw3)
        · exact (hab.trans h1).trans h2

theorem fr_flattenF64 (P : Prop) (L : Nat) (s s1 : St) (b : Bind) (x : Ref)
    (h : flattenF64 s b = some (s1, x)) : Fr P L s s1 := by
  cases b with
  | sym n => simp [flattenF64] at h
  | ref r =>
    simp only [flattenF64] at h
    split at h
    · cases h
    · cases h; exact fr_alloc ..

theorem fr_gradTensor (P : Prop) (L : Nat) (s s1 : St) (b : Bind) (x : Ref)
    (h : gradTensor s b = some (s1, x)) : Fr P L s s1 := by
  cases b with
  | sym n => simp [gradTensor] at h
  | ref r =>
    simp only [gradTensor] at h
    split at h
    · cases h
    · cases h; exact fr_alloc ..

theorem fr_jacNumeric (P : Prop) (L : Nat) (sc : Script) (cfg : Cfg) (w : Wrap) (b : Bind) (s : St)
    (hw : WrapOK w s.store) : Fr P L s (jacNumeric sc cfg w b s).1 := by
  unfold jacNumeric
  split
  · exact Fr.refl _ _ _
  · rename_i s1 x hf
    have h0 := fr_flattenF64 P L s s1 b x hf
    have hc : Fr P L s1 (copyOf s1 x).1 := fr_copyOf ..
    have hw1 := hw.of_SF (h0.trans hc).1
    have hi := fr_invoke P L sc cfg w (copyOf s1 x).2 _ hw1
    have hw2 := hw1.of_SF hi.1
    dsimp only
    split
    · exact (h0.trans hc).trans hi
    · exact (h0.trans hc).trans hi
    · exact ((h0.trans hc).trans hi).trans (fr_jacLoop P L sc cfg w x _ _ _ hw2)

theorem fr_jacTorch (P : Prop) (L : Nat) (sc : Script) (cfg : Cfg) (w : Wrap) (b : Bind) (s : St)
    (hw : WrapOK w s.store) : Fr P L s (jacTorch sc cfg w b s).1 := by
  unfold jacTorch
  split
  · exact fr_jacNumeric P L sc cfg w b s hw
  · rename_i s1 t hg
    have h0 := fr_gradTensor P L s s1 b t hg
    have hw1 := hw.of_SF h0.1
    have hi := fr_invoke P L sc cfg w t s1 hw1
    have hw2 := hw1.of_SF hi.1
    dsimp only
    split
    · exact h0.trans hi
    · exact h0.trans hi
    · exact (h0.trans hi).trans (fr_jacNumeric P L sc cfg w b _ hw2)

theorem fr_jacOf (P : Prop) (L : Nat) (be : Backend) (sc : Script) (cfg : Cfg) (w : Wrap) (b : Bind) (s : St)
    (hw : WrapOK w s.store) : Fr P L s (jacOf be sc cfg w b s).1 := by
  cases be
  · exact fr_jacNumeric P L sc cfg w b s hw
  · exact fr_jacTorch P L sc cfg w b s hw

/-! ## the forms -/

theorem fr_evalName (P : Prop) (L : Nat) (s : St) (n : Name) : Fr P L s (evalName s n).1 := by
  unfold evalName
  split
  · exact Fr.refl _ _ _
  · rename_i hn
    refine fr_store rfl ?_
    intro m
    dsimp only
    rw [lookup_set]
    grind

theorem fr_evalFn (P : Prop) (L : Nat) (cfg : Cfg) (s : St) : Fr P L s (evalFn cfg s) := by
  unfold evalFn
  split
  · exact fr_evalName ..
  · exact Fr.refl _ _ _

theorem fr_mgradLoop (L : Nat) (v : Variant) (sc : Script) (cfg : Cfg) (ps : List Name) (vals : List Bind) :
    ∀ (is : List Nat) (s : St), Fr (v = .repaired) L s (mgradLoop v sc cfg ps vals is s).1
  | [], s => Fr.refl _ _ _
  | i :: is, s => by
    simp only [mgradLoop]
    split
    · exact Fr.refl _ _ _
    · rename_i b hb
      have h1 := fr_numericGrad L v sc cfg (.multi ps vals i) b s trivial
      split
      · exact h1.trans (fr_mgradLoop L v sc cfg ps vals is _)
      · exact h1

theorem fr_gradTensors (P : Prop) (L : Nat) :
    ∀ (bs : List Bind) (s s1 : St) (ts : List Bind), gradTensors bs s = some (s1, ts) → Fr P L s s1
  | [], s, s1, ts, h => by
    simp only [gradTensors] at h; cases h; exact Fr.refl _ _ _
  | b :: bs, s, s1, ts, h => by
    simp only [gradTensors] at h
    split at h
    · cases h
    · rename_i s2 t hg
      split at h
      · cases h
      · rename_i s3 ts' hgs
        cases h
        exact (fr_gradTensor P L s s2 b t hg).trans (fr_gradTensors P L bs s2 _ ts' hgs)

theorem fr_mjacLoop (P : Prop) (L : Nat) (be : Backend) (sc : Script) (cfg : Cfg) :
    ∀ (l : List (Name × Bind)) (s : St), Fr P L s (mjacLoop be sc cfg l s).1
  | [], s => Fr.refl _ _ _
  | (p, val) :: rest, s => by
    simp only [mjacLoop]
    split
    · exact Fr.refl _ _ _
    · rename_i original ho
      have hw : WrapOK (.rebind p original false) s.store := ho
      have h1 := fr_jacOf P L be sc cfg (.rebind p original false) val s hw
      have hw1 : lookup (jacOf be sc cfg (.rebind p original false) val s).1.store p = some original :=
        hw.of_SF h1.1
      split
      · have h2 : Fr P L (jacOf be sc cfg (.rebind p original false) val s).1
            { (jacOf be sc cfg (.rebind p original false) val s).1 with
              store := set (jacOf be sc cfg (.rebind p original false) val s).1.store p original } :=
          fr_store rfl (SF_set_same hw1)
        exact (h1.trans h2).trans (fr_mjacLoop P L be sc cfg rest _)
      · exact h1

theorem fr_runForm (v : Variant) (be : Backend) (form : Form) (sc : Script) (cfg : Cfg) (s : St) :
    Fr (v = .repaired) s.heap.length s (runForm v be form sc cfg s).1 := by
  have hf := fr_evalFn (v = .repaired) s.heap.length cfg s
  unfold runForm
  cases form with
  | gradPoint p =>
    have he := fr_evalName (v = .repaired) s.heap.length (evalFn cfg s) p
    cases be with
    | numpy =>
      dsimp only
      exact (hf.trans he).trans (fr_numericGrad _ v sc cfg .direct _ _ trivial)
    | torch =>
      dsimp only
      split
      · exact hf.trans he
      · rename_i s1 t hg
        exact ((hf.trans he).trans (fr_gradTensor _ _ _ _ _ _ hg)).trans (fr_callF ..)
  | nablaSym p =>
    dsimp only
    split
    · exact hf
    · rename_i orig ho
      exact hf.trans (fr_numericGrad _ v sc cfg (.rebind p orig true) orig _ ho)
  | jacPoint p =>
    have he := fr_evalName (v = .repaired) s.heap.length (evalFn cfg s) p
    dsimp only
    exact (hf.trans he).trans (fr_jacOf _ _ be sc cfg .direct _ _ trivial)
  | multiGrad ps =>
    dsimp only
    split
    · exact hf
    · rename_i vals hv
      cases be with
      | numpy => dsimp only; exact hf.trans (fr_mgradLoop _ v sc cfg ps vals _ _)
      | torch =>
        dsimp only
        split
        · exact hf
        · rename_i s1 ts hg
          exact (hf.trans (fr_gradTensors _ _ _ _ _ _ hg)).trans
            (fr_store (invokeMulti_heap sc cfg ps ts s1) (invokeMulti_store sc cfg ps ts s1))
  | multiJac ps =>
    dsimp only
    split
    · exact hf
    · exact hf.trans (fr_mjacLoop _ _ be sc cfg _ _)

theorem Fr.weaken {P : Prop} {L : Nat} {a b : St} (h : Fr P a.heap.length a b) : Fr P L a b := by
  refine ⟨h.1, fun hp hl => ?_⟩
  obtain ⟨h1, h2⟩ := h.2 hp (Nat.le_refl _)
  exact ⟨Nat.le_trans hl h1, fun r hr => h2 r (Nat.lt_of_lt_of_le hr hl)⟩

theorem fr_runOps (v : Variant) (L : Nat) :
    ∀ (ops : List GradOp) (s : St), Fr (v = .repaired) L s (runOps v ops s)
  | [], s => Fr.refl _ _ _
  | op :: ops, s => by
    simp only [runOps]
    exact (fr_runForm v op.be op.form op.sc op.cfg s).weaken.trans (fr_runOps v L ops _)

/-! ## the pinned loop restores what it perturbed when nothing fails -/

/-- heap frame without a freshness premise -/
def HS (L : Nat) (s s' : St) : Prop :=
  L ≤ s.heap.length → L ≤ s'.heap.length ∧ ∀ r, r < L → s'.heap[r]? = s.heap[r]?

theorem HS.refl (L : Nat) (s : St) : HS L s s := fun h => ⟨h, fun _ _ => rfl⟩

theorem HS.trans {L : Nat} {a b c : St} (h1 : HS L a b) (h2 : HS L b c) : HS L a c := by
  intro hl
  obtain ⟨hb, hb'⟩ := h1 hl
  obtain ⟨hc, hc'⟩ := h2 hb
  exact ⟨hc, fun r hr => by rw [hc' r hr, hb' r hr]⟩

theorem HS.of_Fr {L : Nat} {s s' : St} (h : Fr True L s s') : HS L s s' := h.2 trivial

theorem set_set_getD (l : List Int) (i : Nat) (a b : Int) :
    ((l.set i a).set i b).set i (l.getD i 0) = l := by
  rw [List.set_set, List.set_set]
  by_cases h : i < l.length
  · simp [List.getD, h]
  · rw [List.set_eq_of_length_le (by omega)]

theorem writeAt_get (s : St) (x : Ref) (i : Nat) (v : Int) (r : Nat) :
    (writeAt s x i v).heap[r]? =
      if r = x then (s.heap[x]?).map (fun c => { c with data := c.data.set i v }) else s.heap[r]? := by
  unfold writeAt
  split
  · rename_i c hc
    have hx : x < s.heap.length := by
      rcases Nat.lt_or_ge x s.heap.length with h | h
      · exact h
      · rw [List.getElem?_eq_none h] at hc; cases hc
    simp only [List.getElem?_set]
    by_cases hr : r = x
    · subst hr; rw [if_pos rfl, if_pos hx, if_pos rfl, hc]; rfl
    · have : ¬ x = r := fun h => hr h.symm
      rw [if_neg this, if_neg hr]
  · rename_i hc
    by_cases hr : r = x
    · subst hr; simp [hc]
    · simp [hr]

theorem probe_get (sc : Script) (cfg : Cfg) (w : Wrap) (x : Ref) (i : Nat) (d : Int) (s : St) (r : Nat)
    (hr : r < s.heap.length) :
    (probe sc cfg w x i d s).1.heap[r]? = (writeAt s x i d).heap[r]? := by
  unfold probe
  simp only [invoke_heap]
  have hl := writeAt_length s x i d
  unfold copyOf
  split <;> (simp only [alloc]; rw [List.getElem?_append_left (by omega)])

theorem probe_len (sc : Script) (cfg : Cfg) (w : Wrap) (x : Ref) (i : Nat) (d : Int) (s : St) :
    s.heap.length ≤ (probe sc cfg w x i d s).1.heap.length := by
  unfold probe
  simp only [invoke_heap]
  have hl := writeAt_length s x i d
  unfold copyOf
  split <;> (simp only [alloc, List.length_append, List.length_cons, List.length_nil]; omega)

theorem gradLoop_succ (L : Nat) (sc : Script) (cfg : Cfg) (w : Wrap) (x : Ref) :
    ∀ (is : List Nat) (s : St), (gradLoop sc cfg w x is s).2 = true → HS L s (gradLoop sc cfg w x is s).1
  | [], s, _ => HS.refl _ _
  | i :: is, s, hok => by
    simp only [gradLoop] at hok ⊢
    split at hok
    · split at hok
      · rename_i h1 h2
        simp only [h1, h2, if_true]
        refine HS.trans ?_ (gradLoop_succ L sc cfg w x is _ hok)
        intro hl
        have l1 := probe_len sc cfg w x i (origAt s x i + eps) s
        have l2 := probe_len sc cfg w x i (origAt s x i - eps) (probe sc cfg w x i (origAt s x i + eps) s).1
        refine ⟨by rw [writeAt_length]; omega, fun r hr => ?_⟩
        rw [writeAt_get]
        have g2 : ∀ r, r < s.heap.length →
            (probe sc cfg w x i (origAt s x i - eps) (probe sc cfg w x i (origAt s x i + eps) s).1).1.heap[r]? =
            if r = x then (s.heap[x]?).map (fun c =>
              { c with data := (c.data.set i (origAt s x i + eps)).set i (origAt s x i - eps) })
            else s.heap[r]? := by
          intro r hr
          rw [probe_get _ _ _ _ _ _ _ _ (by omega), writeAt_get]
          by_cases hx : r = x
          · subst hx
            simp only [if_true]
            rw [probe_get _ _ _ _ _ _ _ _ hr, writeAt_get]
            simp only [if_true, Option.map_map]
            rfl
          · simp only [hx, if_false]
            rw [probe_get _ _ _ _ _ _ _ _ hr, writeAt_get]
            simp only [hx, if_false]
        by_cases hx : r = x
        · subst hx
          simp only [if_true]
          rw [g2 r (by omega)]
          simp only [if_true, Option.map_map]
          cases hc : s.heap[r]? with
          | none => rfl
          | some c =>
            simp only [Option.map_some, Function.comp, origAt, hc]
            rw [set_set_getD]
        · simp only [hx, if_false]
          rw [g2 r (by omega)]
          simp only [hx, if_false]
      · cases hok
    · cases hok

theorem numericGrad_succ (L : Nat) (v : Variant) (sc : Script) (cfg : Cfg) (w : Wrap) (b : Bind) (s : St)
    (hok : (numericGrad v sc cfg w b s).2 = true) : HS L s (numericGrad v sc cfg w b s).1 := by
  cases h : asF64 v s b with
  | none => simp only [numericGrad, h]; exact HS.refl _ _
  | some p =>
    obtain ⟨s1, x⟩ := p
    simp only [numericGrad, h] at hok ⊢
    exact (HS.of_Fr (asF64_spec True L v s s1 b x h).1).trans (gradLoop_succ L sc cfg w x _ s1 hok)

theorem mgradLoop_succ (L : Nat) (v : Variant) (sc : Script) (cfg : Cfg) (ps : List Name) (vals : List Bind) :
    ∀ (is : List Nat) (s : St), (mgradLoop v sc cfg ps vals is s).2 = true →
      HS L s (mgradLoop v sc cfg ps vals is s).1
  | [], s, _ => HS.refl _ _
  | i :: is, s, hok => by
    simp only [mgradLoop] at hok ⊢
    cases hb : vals[i]? with
    | none => simp only [hb] at hok; cases hok
    | some b =>
      simp only [hb] at hok ⊢
      split at hok
      · rename_i h1
        simp only [h1, if_true]
        exact (numericGrad_succ L v sc cfg _ b s h1).trans (mgradLoop_succ L v sc cfg ps vals is _ hok)
      · cases hok

theorem runForm_succ (v : Variant) (be : Backend) (form : Form) (sc : Script) (cfg : Cfg) (s : St)
    (hok : (runForm v be form sc cfg s).2 = true) :
    HS s.heap.length s (runForm v be form sc cfg s).1 := by
  have hf : HS s.heap.length s (evalFn cfg s) := HS.of_Fr (fr_evalFn True _ cfg s)
  unfold runForm at hok ⊢
  cases form with
  | gradPoint p =>
    have he : HS s.heap.length (evalFn cfg s) (evalName (evalFn cfg s) p).1 :=
      HS.of_Fr (fr_evalName True _ _ p)
    cases be with
    | numpy =>
      dsimp only at hok ⊢
      exact (hf.trans he).trans (numericGrad_succ _ v sc cfg .direct _ _ hok)
    | torch =>
      dsimp only at hok ⊢
      split
      · exact hf.trans he
      · rename_i s1 t hg
        exact ((hf.trans he).trans (HS.of_Fr (fr_gradTensor True _ _ _ _ _ hg))).trans
          (HS.of_Fr (fr_callF True _ sc cfg (some t) s1))
  | nablaSym p =>
    dsimp only at hok ⊢
    split
    · exact hf
    · rename_i orig ho
      simp only [ho] at hok
      exact hf.trans (numericGrad_succ _ v sc cfg (.rebind p orig true) orig _ hok)
  | jacPoint p =>
    have he : HS s.heap.length (evalFn cfg s) (evalName (evalFn cfg s) p).1 :=
      HS.of_Fr (fr_evalName True _ _ p)
    dsimp only
    exact (hf.trans he).trans (HS.of_Fr (fr_jacOf True _ be sc cfg .direct _ _ trivial))
  | multiGrad ps =>
    dsimp only at hok ⊢
    split
    · exact hf
    · rename_i vals hv
      simp only [hv] at hok
      cases be with
      | numpy =>
        dsimp only at hok ⊢
        exact hf.trans (mgradLoop_succ _ v sc cfg ps vals _ _ hok)
      | torch =>
        dsimp only
        split
        · exact hf
        · rename_i s1 ts hg
          exact (hf.trans (HS.of_Fr (fr_gradTensors True _ _ _ _ _ hg))).trans
            (HS.of_Fr (fr_store (invokeMulti_heap sc cfg ps ts s1) (invokeMulti_store sc cfg ps ts s1)))
  | multiJac ps =>
    dsimp only
    split
    · exact hf
    · exact hf.trans (HS.of_Fr (fr_mjacLoop True _ be sc cfg _ _))

/-! ------------------------------------------------------------------------------------------
    ## property theorems
    ------------------------------------------------------------------------------------------ -/

/-- every store reference points into the heap -/
def WF (s : St) : Prop := ∀ n r, lookup s.store n = some (.ref r) → r < s.heap.length

/-- **restore on all paths** (both the pinned and the repaired loop, both backends, every form,
    every script — i.e. failure at every k — and whether the run returns or raises): every
    name bound before the gradient expression is bound to the very same object afterwards;
    a name that was unbound is still unbound or bound to itself. -/
theorem restore_on_all_paths (v : Variant) (be : Backend) (form : Form) (sc : Script) (cfg : Cfg) (s : St) :
    (∀ n b, lookup s.store n = some b → lookup (runForm v be form sc cfg s).1.store n = some b) ∧
    (∀ n, lookup s.store n = none →
      lookup (runForm v be form sc cfg s).1.store n = none ∨
      lookup (runForm v be form sc cfg s).1.store n = some (.sym n)) := by
  have h := (fr_runForm v be form sc cfg s).1
  constructor
  · intro n b hb
    have := h n
    grind
  · intro n hn
    have := h n
    grind

/-- **grad_pure** (repaired loop): for every form, backend, script and initial state, on return
    and on every failure path: the store is as in `restore_on_all_paths`, and every heap cell
    that existed before has the same kind, shape and contents. -/
theorem grad_pure (be : Backend) (form : Form) (sc : Script) (cfg : Cfg) (s : St) :
    (∀ n b, lookup s.store n = some b →
      lookup (runForm .repaired be form sc cfg s).1.store n = some b) ∧
    (∀ (r : Nat) (c : Cell), s.heap[r]? = some c → (runForm .repaired be form sc cfg s).1.heap[r]? = some c) ∧
    (∀ n, lookup s.store n = none →
      lookup (runForm .repaired be form sc cfg s).1.store n = none ∨
      lookup (runForm .repaired be form sc cfg s).1.store n = some (.sym n)) := by
  have hr := restore_on_all_paths .repaired be form sc cfg s
  refine ⟨hr.1, ?_, hr.2⟩
  intro r c hc
  have h := (fr_runForm .repaired be form sc cfg s).2 rfl (Nat.le_refl _)
  have hr : r < s.heap.length := by
    rcases Nat.lt_or_ge r s.heap.length with h | h
    · exact h
    · rw [List.getElem?_eq_none h] at hc; cases hc
  rw [h.2 r hr]; exact hc

/-- the same for any number of gradient expressions in a row, each with its own form, backend
    and script, each returning or raising -/
theorem grad_pure_sequence (ops : List GradOp) (s : St) :
    (∀ n b, lookup s.store n = some b → lookup (runOps .repaired ops s).store n = some b) ∧
    (∀ (r : Nat) (c : Cell), s.heap[r]? = some c → (runOps .repaired ops s).heap[r]? = some c) ∧
    (∀ n, lookup s.store n = none →
      lookup (runOps .repaired ops s).store n = none ∨
      lookup (runOps .repaired ops s).store n = some (.sym n)) := by
  have h := fr_runOps .repaired s.heap.length ops s
  refine ⟨?_, ?_, ?_⟩
  · intro n b hb
    have := h.1 n
    grind
  · intro r c hc
    have hr : r < s.heap.length := by
      rcases Nat.lt_or_ge r s.heap.length with h | h
      · exact h
      · rw [List.getElem?_eq_none h] at hc; cases hc
    rw [(h.2 rfl (Nat.le_refl _)).2 r hr]; exact hc
  · intro n hn
    have := h.1 n
    grind

/-- value *and kind* of every variable are what they were -/
theorem grad_pure_values (be : Backend) (form : Form) (sc : Script) (cfg : Cfg) (s : St) (hwf : WF s)
    (n : Name) (hn : (lookup s.store n).isSome) :
    viewN (runForm .repaired be form sc cfg s).1 n = viewN s n := by
  obtain ⟨h1, h2, _⟩ := grad_pure be form sc cfg s
  cases hb : lookup s.store n with
  | none => rw [hb] at hn; cases hn
  | some b =>
    simp only [viewN, h1 n b hb, hb, Option.map_some]
    cases b with
    | sym m => rfl
    | ref r =>
      have hr := hwf n r hb
      have hfr := (fr_runForm .repaired be form sc cfg s).2 rfl (Nat.le_refl _)
      simp only [viewB, hfr.2 r hr]

/-- a following evaluation of the function — applied to any pre-existing object, reading any
    pre-existing globals — sees exactly what it would have seen before the gradient expression -/
theorem next_evaluation_sees_same (be : Backend) (form : Form) (sc : Script) (cfg cfg' : Cfg) (s : St)
    (hwf : WF s) (hw : ∀ n ∈ cfg'.watch, (lookup s.store n).isSome)
    (arg : Option Ref) (ha : ∀ r, arg = some r → r < s.heap.length) :
    observe cfg' arg (runForm .repaired be form sc cfg s).1 = observe cfg' arg s := by
  have hfr := (fr_runForm .repaired be form sc cfg s).2 rfl (Nat.le_refl _)
  unfold observe
  congr 1
  · cases arg with
    | none => rfl
    | some r => simp only [Option.map_some, viewB, hfr.2 r (ha r rfl)]
  · apply List.map_congr_left
    intro n hn
    rw [grad_pure_values be form sc cfg s hwf n (hw n hn)]

/-! ### the pinned loop is not pure: `np.asarray` aliases a float64 parameter -/

/-- `p::[1.0 2.0 3.0]`, loss raising at its 2nd evaluation -/
def witnessState : St := { store := [("p", .ref 0)], heap := [⟨.f64, [3], [1000000, 2000000, 3000000]⟩] }
def witnessScript : Script := fun k _ => if k = 1 then .raise else .scalar

/-- On the pinned tree `f:>p` (and `p∇f`, `g:>[p]`) leaves `p` as `[0.999999 2 3]` when the loss
    raises at its second call. -/
theorem pinned_not_pure :
    (runForm .pinned .numpy (.gradPoint "p") witnessScript ⟨["p"], none⟩ witnessState).1.heap[0]?
      = some ⟨.f64, [3], [999999, 2000000, 3000000]⟩ ∧
    (runForm .pinned .numpy (.nablaSym "p") witnessScript ⟨["p"], none⟩ witnessState).1.heap[0]?
      = some ⟨.f64, [3], [999999, 2000000, 3000000]⟩ ∧
    (runForm .pinned .numpy (.multiGrad ["p"]) witnessScript ⟨["p"], none⟩ witnessState).1.heap[0]?
      = some ⟨.f64, [3], [999999, 2000000, 3000000]⟩ ∧
    (runForm .repaired .numpy (.gradPoint "p") witnessScript ⟨["p"], none⟩ witnessState).1.heap[0]?
      = witnessState.heap[0]? := by
  decide

/-- **partial** (what the pinned tree does satisfy): for BOTH variants of the loop, when the
    gradient expression returns normally every pre-existing heap cell is unchanged (the in-place
    perturbation of an aliased float64 point is undone after the two probes); together with
    `restore_on_all_paths` the state is then exactly the initial one.  The failure paths are where
    the pinned loop breaks (`pinned_not_pure`). -/
theorem pinned_pure_on_success_partial (v : Variant) (be : Backend) (form : Form) (sc : Script) (cfg : Cfg)
    (s : St) (hok : (runForm v be form sc cfg s).2 = true) :
    ∀ (r : Nat) (c : Cell), s.heap[r]? = some c → (runForm v be form sc cfg s).1.heap[r]? = some c := by
  intro r c hc
  have hr : r < s.heap.length := by
    rcases Nat.lt_or_ge r s.heap.length with h | h
    · exact h
    · rw [List.getElem?_eq_none h] at hc; cases hc
  rw [(runForm_succ v be form sc cfg s hok (Nat.le_refl _)).2 r hr]; exact hc

/-- non-vacuity: the pinned loop, aliased float64 point, loss never failing: six evaluations,
    returns, and the point is intact -/
example :
    (runForm .pinned .numpy (.gradPoint "p") (fun _ _ => .scalar) ⟨["p"], none⟩ witnessState).2 = true ∧
    (runForm .pinned .numpy (.gradPoint "p") (fun _ _ => .scalar) ⟨["p"], none⟩ witnessState).1.calls = 6 ∧
    (runForm .pinned .numpy (.gradPoint "p") (fun _ _ => .scalar) ⟨["p"], none⟩ witnessState).1.heap[0]?
      = witnessState.heap[0]? := by
  decide

/-! ### non-vacuity -/

example : WF witnessState := by
  intro n r h
  simp only [witnessState, lookup] at h
  split at h
  · cases h; decide
  · cases h

/-- the repaired run on the witness really probes (two evaluations, then the failure) and the
    rebinding form really rebinds `p` during a probe -/
example : (runForm .repaired .numpy (.nablaSym "p") witnessScript ⟨["p"], none⟩ witnessState).1.calls = 2 ∧
    (runForm .repaired .numpy (.nablaSym "p") witnessScript ⟨["p"], none⟩ witnessState).2 = false ∧
    ((runForm .repaired .numpy (.nablaSym "p") witnessScript ⟨["p"], none⟩ witnessState).1.log.map
      (·.globals)) =
      [[("p", some (.cell ⟨.f64, [3], [1000001, 2000000, 3000000]⟩))],
       [("p", some (.cell ⟨.f64, [3], [999999, 2000000, 3000000]⟩))]] := by
  decide

/-- torch: the parameters are bound to gradient-tracking tensors during the evaluation and are
    plain again afterwards -/
example :
    let s : St := { store := [("w", .ref 0), ("b", .ref 1)],
                    heap := [⟨.t32, [2], [1000000, 2000000]⟩, ⟨.pyfloat, [], [500000]⟩] }
    let r := runForm .repaired .torch (.multiGrad ["w", "b"]) (fun _ _ => .vector) ⟨["w", "b"], none⟩ s
    r.2 = false ∧
    r.1.log.map (·.globals) =
      [[("w", some (.cell ⟨.t32g, [2], [1000000, 2000000]⟩)), ("b", some (.cell ⟨.t32g, [], [500000]⟩))]] ∧
    viewN r.1 "w" = some (.cell ⟨.t32, [2], [1000000, 2000000]⟩) ∧
    viewN r.1 "b" = some (.cell ⟨.pyfloat, [], [500000]⟩) := by
  decide

/-- an interrupt (a BaseException that is not an Exception) ends the torch Jacobian probe: the
    `except Exception` fallback is not taken (one evaluation; an ordinary raise gives two), `w` is a
    gradient-tracking tensor during the evaluation and what it was afterwards -/
example :
    let s : St := { store := [("w", .ref 0)], heap := [⟨.t32, [2], [1000000, 2000000]⟩] }
    let r := runForm .repaired .torch (.multiJac ["w"]) (fun _ _ => .interrupt) ⟨["w"], none⟩ s
    let r' := runForm .repaired .torch (.multiJac ["w"]) (fun _ _ => .raise) ⟨["w"], none⟩ s
    r.2 = false ∧ r.1.calls = 1 ∧ r'.1.calls = 2 ∧
    r.1.log.map (·.globals) = [[("w", some (.cell ⟨.t32g, [2], [1000000, 2000000]⟩))]] ∧
    viewN r.1 "w" = some (.cell ⟨.t32, [2], [1000000, 2000000]⟩) := by
  decide

end Klong.C07
