/-
  C11 — property theorems: what `kg_write` writes, `kg_read` reads back.
  Helper lemmas first, property theorems below the line.
-/
import Klong.Model.C11
namespace Klong.C11

/-! ## characters and digits -/

theorem digit_facts : ∀ d : Fin 10,
    isDigit (digitChar d.val) = true ∧ digitVal (digitChar d.val) = d.val := by decide

theorem isDigit_digitChar {d : Nat} (h : d < 10) : isDigit (digitChar d) = true :=
  (digit_facts ⟨d, h⟩).1

theorem digitVal_digitChar {d : Nat} (h : d < 10) : digitVal (digitChar d) = d :=
  (digit_facts ⟨d, h⟩).2

theorem isDigit_range {c : Char} (h : isDigit c = true) : 48 ≤ c.toNat ∧ c.toNat ≤ 57 := by
  simpa [isDigit] using h

/-- a digit is none of the characters the lexer treats specially -/
theorem digit_ne {c : Char} (h : isDigit c = true) (d : Char) (hd : isDigit d = false) : c ≠ d := by
  rintro rfl; rw [h] at hd; cases hd

theorem digit_not_space {c : Char} (h : isDigit c = true) : isSpace c = false := by
  have r := isDigit_range h
  have : c ≠ ' ' := digit_ne h ' ' (by decide)
  simp only [isSpace, Bool.or_eq_false_iff, Bool.and_eq_false_iff, beq_eq_false_iff_ne, ne_eq,
    decide_eq_false_iff_not]
  refine ⟨⟨this, ?_⟩, ?_⟩ <;> omega

theorem digit_symbolic {c : Char} (h : isDigit c = true) : isSymbolic c = true := by
  simp [isSymbolic, h]

/-- characters that may follow a written value: the separating blank, a closing bracket or
    brace (or the end of the text) -/
def isTerm (c : Char) : Bool := c == ' ' || c == ']' || c == '}'

def Follow (rest : List Char) : Prop := ∀ c r, rest = c :: r → isTerm c = true

theorem follow_nil : Follow [] := by intro c r h; cases h
theorem follow_cons {c : Char} {r : List Char} (h : isTerm c = true) : Follow (c :: r) := by
  intro c' r' e; cases e; exact h

theorem term_cases {c : Char} (h : isTerm c = true) : c = ' ' ∨ c = ']' ∨ c = '}' := by
  simp only [isTerm, Bool.or_eq_true, beq_iff_eq] at h
  rcases h with (h | h) | h
  · exact Or.inl h
  · exact Or.inr (Or.inl h)
  · exact Or.inr (Or.inr h)

theorem term_not {c : Char} (h : isTerm c = true) :
    isDigit c = false ∧ c ≠ '.' ∧ c ≠ 'e' ∧ c ≠ '"' ∧ c ≠ 'c' ∧ isSymbolic c = false := by
  rcases term_cases h with rfl | rfl | rfl <;> decide

/-! ## decimal integers -/

theorem showNatF_digits (f : Nat) : ∀ n, n < f →
    (showNatF f n).all isDigit = true ∧ showNatF f n ≠ [] := by
  induction f with
  | zero => intro n h; omega
  | succ f ih =>
    intro n h
    rw [showNatF]
    split
    · rename_i h10
      refine ⟨?_, List.cons_ne_nil _ _⟩
      rw [List.all_cons, List.all_nil, isDigit_digitChar h10]; rfl
    · have ih' := ih (n / 10) (by omega)
      have hd : isDigit (digitChar (n % 10)) = true := isDigit_digitChar (by omega)
      refine ⟨?_, ?_⟩
      · rw [List.all_append, ih'.1, List.all_cons, List.all_nil, hd]; rfl
      · intro e
        have := congrArg List.length e
        rw [List.length_append] at this
        simp only [List.length_cons, List.length_nil] at this
        omega

theorem readNatAcc_append (a : Nat) (xs : List Char) (d : Char) :
    readNatAcc a (xs ++ [d]) = readNatAcc a xs * 10 + digitVal d := by
  induction xs generalizing a with
  | nil => rfl
  | cons c r ih =>
    show readNatAcc (a * 10 + digitVal c) (r ++ [d]) = readNatAcc (a * 10 + digitVal c) r * 10 + digitVal d
    exact ih _

theorem readNat_showNatF (f : Nat) : ∀ n, n < f → readNat (showNatF f n) = n := by
  induction f with
  | zero => intro n h; omega
  | succ f ih =>
    intro n h
    rw [showNatF]
    split
    · rename_i h10
      show 0 * 10 + digitVal (digitChar n) = n
      rw [digitVal_digitChar h10]; omega
    · have ih' := ih (n / 10) (by omega)
      unfold readNat at ih' ⊢
      rw [readNatAcc_append, ih', digitVal_digitChar (by omega)]
      omega

theorem showNat_digits (n : Nat) : (showNat n).all isDigit = true ∧ showNat n ≠ [] :=
  showNatF_digits (n + 1) n (by omega)

theorem readInt_digits {ds : List Char} (h : ds.all isDigit = true) (hne : ds ≠ []) :
    readInt ds = some (readNat ds : Int) := by
  obtain ⟨c, r, rfl⟩ := List.exists_cons_of_ne_nil hne
  have hc : isDigit c = true := by
    rw [List.all_cons, Bool.and_eq_true] at h; exact h.1
  have hm : c ≠ '-' := digit_ne hc '-' (by decide)
  simp only [readInt, hm, if_false, h, Bool.not_true, Bool.false_eq_true]

theorem readInt_neg {ds : List Char} (h : ds.all isDigit = true) (hne : ds ≠ []) :
    readInt ('-' :: ds) = some (-(readNat ds : Int)) := by
  have he : ds.isEmpty = false := by
    cases ds with
    | nil => exact absurd rfl hne
    | cons _ _ => rfl
  simp only [readInt, if_true, he, h, Bool.not_true, Bool.or_self, Bool.false_eq_true, if_false]

/-- **readInt (showInt n) = n**: decimal printing and parsing of integers are inverse -/
theorem readInt_showInt (n : Int) : readInt (showInt n) = some n := by
  have hd := showNat_digits n.natAbs
  have hr : readNat (showNat n.natAbs) = n.natAbs := readNat_showNatF _ _ (by omega)
  unfold showInt
  split
  · rw [readInt_neg hd.1 hd.2, hr]; congr 1; omega
  · rw [readInt_digits hd.1 hd.2, hr]; congr 1; omega

/-! ## the number scanner -/

theorem scan_term (fl : Bool) {rest : List Char} (h : Follow rest) :
    scanNum 0 fl rest = ([], rest, fl) := by
  cases rest with
  | nil => rfl
  | cons c r =>
    have t := term_not (h c r rfl)
    rw [scanNum]
    simp only [Nat.lt_irrefl, gt_iff_lt, if_false, t.2.1, t.2.2.1, t.1, Bool.false_eq_true]

theorem scan_step_digit (fl : Bool) {c : Char} (r : List Char) (h : isDigit c = true) :
    scanNum 0 fl (c :: r) = (c :: (scanNum 0 fl r).1, (scanNum 0 fl r).2.1, (scanNum 0 fl r).2.2) := by
  have h1 : c ≠ '.' := digit_ne h '.' (by decide)
  have h2 : c ≠ 'e' := digit_ne h 'e' (by decide)
  rw [scanNum]
  simp only [Nat.lt_irrefl, gt_iff_lt, if_false, h1, h2, h, if_true]

theorem scan_step_blind (k : Nat) (fl : Bool) (c : Char) (r : List Char) :
    scanNum (k + 1) fl (c :: r) = (c :: (scanNum k fl r).1, (scanNum k fl r).2.1, (scanNum k fl r).2.2) := by
  rw [scanNum]
  simp only [gt_iff_lt, Nat.zero_lt_succ, if_true, Nat.add_sub_cancel]

theorem scan_step_dot (fl : Bool) (r : List Char) :
    scanNum 0 fl ('.' :: r) = ('.' :: (scanNum 0 true r).1, (scanNum 0 true r).2.1, (scanNum 0 true r).2.2) := by
  rw [scanNum]
  simp only [Nat.lt_irrefl, gt_iff_lt, if_false, if_true]

theorem scan_step_e (fl : Bool) (r : List Char) (h : signNext r = true) :
    scanNum 0 fl ('e' :: r) = ('e' :: (scanNum 2 true r).1, (scanNum 2 true r).2.1, (scanNum 2 true r).2.2) := by
  have h1 : ('e' : Char) ≠ '.' := by decide
  rw [scanNum]
  simp only [Nat.lt_irrefl, gt_iff_lt, if_false, h1, h, if_true]

theorem scan_digits (fl : Bool) (ds rest : List Char) (h : ds.all isDigit = true) :
    scanNum 0 fl (ds ++ rest) =
      (ds ++ (scanNum 0 fl rest).1, (scanNum 0 fl rest).2.1, (scanNum 0 fl rest).2.2) := by
  induction ds with
  | nil => rfl
  | cons c r ih =>
    rw [List.all_cons, Bool.and_eq_true] at h
    rw [List.cons_append, scan_step_digit fl _ h.1, ih h.2]
    rfl

/-- blind characters still to be taken in each state of the token grammar -/
def kOf : TokSt → Nat
  | .s4 => 2
  | .s4b => 1
  | _ => 0

/-- the scanner consumes exactly a well-formed real token and reports a real -/
theorem scan_tok (tok : List Char) :
    ∀ (st : TokSt) (fl : Bool) (rest : List Char), accTok st tok = true →
      ((st ≠ .s0 ∧ st ≠ .s1) → fl = true) → Follow rest →
      scanNum (kOf st) fl (tok ++ rest) = (tok, rest, true) := by
  induction tok with
  | nil =>
    intro st fl rest h hfl hf
    cases st <;> simp only [accTok, Bool.false_eq_true] at h
    · have : fl = true := hfl ⟨by decide, by decide⟩
      subst this; exact scan_term true hf
    · have : fl = true := hfl ⟨by decide, by decide⟩
      subst this; exact scan_term true hf
  | cons c r ih =>
    intro st fl rest h hfl hf
    rw [List.cons_append]
    cases st with
    | s0 =>
      simp only [accTok, Bool.and_eq_true] at h
      show scanNum 0 fl (c :: (r ++ rest)) = _
      rw [scan_step_digit fl _ h.1]
      have := ih .s1 fl rest h.2 (by intro hh; exact absurd rfl hh.2) hf
      simp only [kOf] at this
      rw [this]
    | s1 =>
      simp only [accTok] at h
      show scanNum 0 fl (c :: (r ++ rest)) = _
      by_cases hd : isDigit c = true
      · rw [if_pos hd] at h
        rw [scan_step_digit fl _ hd]
        have := ih .s1 fl rest h (by intro hh; exact absurd rfl hh.2) hf
        simp only [kOf] at this
        rw [this]
      · rw [if_neg hd] at h
        by_cases hdot : c = '.'
        · subst hdot
          rw [if_pos rfl] at h
          rw [scan_step_dot]
          have := ih .s2 true rest h (fun _ => rfl) hf
          simp only [kOf] at this
          rw [this]
        · rw [if_neg hdot] at h
          by_cases he : c = 'e'
          · subst he
            rw [if_pos rfl] at h
            have hs : signNext (r ++ rest) = true := by
              cases r with
              | nil => simp only [accTok, Bool.false_eq_true] at h
              | cons s r' =>
                simp only [accTok, Bool.and_eq_true] at h
                simpa [signNext, Bool.or_comm] using h.1
            rw [scan_step_e fl _ hs]
            have := ih .s4 true rest h (fun _ => rfl) hf
            simp only [kOf] at this
            rw [this]
          · rw [if_neg he] at h; cases h
    | s2 =>
      simp only [accTok, Bool.and_eq_true] at h
      have hfl' : fl = true := hfl ⟨by decide, by decide⟩
      show scanNum 0 fl (c :: (r ++ rest)) = _
      rw [scan_step_digit fl _ h.1]
      have := ih .s3 fl rest h.2 (fun _ => hfl') hf
      simp only [kOf] at this
      rw [this]
    | s3 =>
      simp only [accTok] at h
      have hfl' : fl = true := hfl ⟨by decide, by decide⟩
      show scanNum 0 fl (c :: (r ++ rest)) = _
      by_cases hd : isDigit c = true
      · rw [if_pos hd] at h
        rw [scan_step_digit fl _ hd]
        have := ih .s3 fl rest h (fun _ => hfl') hf
        simp only [kOf] at this
        rw [this]
      · rw [if_neg hd] at h
        by_cases he : c = 'e'
        · subst he
          rw [if_pos rfl] at h
          have hs : signNext (r ++ rest) = true := by
            cases r with
            | nil => simp only [accTok, Bool.false_eq_true] at h
            | cons s r' =>
              simp only [accTok, Bool.and_eq_true] at h
              simpa [signNext, Bool.or_comm] using h.1
          rw [scan_step_e fl _ hs]
          have := ih .s4 true rest h (fun _ => rfl) hf
          simp only [kOf] at this
          rw [this]
        · rw [if_neg he] at h; cases h
    | s4 =>
      simp only [accTok, Bool.and_eq_true] at h
      have hfl' : fl = true := hfl ⟨by decide, by decide⟩
      show scanNum 2 fl (c :: (r ++ rest)) = _
      rw [scan_step_blind 1 fl c]
      have := ih .s4b fl rest h.2 (fun _ => hfl') hf
      simp only [kOf] at this
      rw [this]
    | s4b =>
      simp only [accTok, Bool.and_eq_true] at h
      have hfl' : fl = true := hfl ⟨by decide, by decide⟩
      show scanNum 1 fl (c :: (r ++ rest)) = _
      rw [scan_step_blind 0 fl c]
      have := ih .s5 fl rest h.2 (fun _ => hfl') hf
      simp only [kOf] at this
      rw [this]
    | s5 =>
      simp only [accTok, Bool.and_eq_true] at h
      have hfl' : fl = true := hfl ⟨by decide, by decide⟩
      show scanNum 0 fl (c :: (r ++ rest)) = _
      rw [scan_step_digit fl _ h.1]
      have := ih .s5 fl rest h.2 (fun _ => hfl') hf
      simp only [kOf] at this
      rw [this]

/-- first characters of a well-formed real token -/
theorem accTok_s0_head {tok : List Char} (h : accTok .s0 tok = true) :
    ∃ c r, tok = c :: r ∧ isDigit c = true ∧ ∃ d r', r = d :: r' ∧ d ≠ 'c' := by
  cases tok with
  | nil => simp only [accTok, Bool.false_eq_true] at h
  | cons c r =>
    simp only [accTok, Bool.and_eq_true] at h
    refine ⟨c, r, rfl, h.1, ?_⟩
    cases r with
    | nil => have := h.2; simp only [accTok, Bool.false_eq_true] at this
    | cons d r' =>
      refine ⟨d, r', rfl, ?_⟩
      rintro rfl
      have := h.2
      simp only [accTok] at this
      rw [if_neg (by decide), if_neg (by decide), if_neg (by decide)] at this
      cases this

/-! ## read_num -/

theorem readNum_nat {ds rest : List Char} (h : ds.all isDigit = true) (hne : ds ≠ [])
    (hf : Follow rest) : readNum (ds ++ rest) = some (.int (readNat ds), rest) := by
  obtain ⟨c, r, rfl⟩ := List.exists_cons_of_ne_nil hne
  have hc : isDigit c = true := by
    rw [List.all_cons, Bool.and_eq_true] at h; exact h.1
  have hm : c ≠ '-' := digit_ne hc '-' (by decide)
  have hsign : ¬ ((c :: r ++ rest).head? = some '-') := fun e => hm (Option.some.inj e)
  unfold readNum
  rw [if_neg hsign, scan_digits false _ _ h, scan_term false hf]
  simp only [finishNum, List.append_nil, Bool.false_eq_true, if_false, readInt_digits h hne]

theorem readNum_neg {ds rest : List Char} (h : ds.all isDigit = true) (hne : ds ≠ [])
    (hf : Follow rest) : readNum ('-' :: (ds ++ rest)) = some (.int (-(readNat ds : Int)), rest) := by
  have hsign : ('-' :: (ds ++ rest)).head? = some '-' := rfl
  unfold readNum
  rw [if_pos hsign]
  show finishNum true (scanNum 0 false (ds ++ rest)) = _
  rw [scan_digits false _ _ h, scan_term false hf]
  simp only [finishNum, List.append_nil, Bool.false_eq_true, if_false, if_true, readInt_neg h hne]

theorem readNum_int (n : Int) {rest : List Char} (hf : Follow rest) :
    readNum (showInt n ++ rest) = some (.int n, rest) := by
  have hd := showNat_digits n.natAbs
  have hr : readNat (showNat n.natAbs) = n.natAbs := readNat_showNatF _ _ (by omega)
  unfold showInt
  split
  · rw [List.cons_append, readNum_neg hd.1 hd.2 hf, hr]
    have : (-(n.natAbs : Int)) = n := by omega
    rw [this]
  · rw [readNum_nat hd.1 hd.2 hf, hr]
    have : ((n.natAbs : Nat) : Int) = n := by omega
    rw [this]

/-- **real_token_roundtrip**: `read_num` reads back exactly the token `repr` printed — sign,
    fraction and exponent forms such as `1e-07`, `1e+22` included -/
theorem real_token_roundtrip {tok rest : List Char} (h : wfRealTok tok = true) (hf : Follow rest) :
    readNum (tok ++ rest) = some (.real tok, rest) := by
  cases tok with
  | nil => simp only [wfRealTok, Bool.false_eq_true] at h
  | cons c r =>
    simp only [wfRealTok] at h
    by_cases hm : c = '-'
    · subst hm
      rw [if_pos rfl] at h
      have hsign : ('-' :: r ++ rest).head? = some '-' := rfl
      have hs := scan_tok r .s0 false rest h (by intro hh; exact absurd rfl hh.1) hf
      simp only [kOf] at hs
      have hw : wfRealTok ('-' :: r) = true := by simp only [wfRealTok, if_true]; exact h
      unfold readNum
      rw [if_pos hsign]
      show finishNum true (scanNum 0 false (r ++ rest)) = _
      rw [hs]
      simp only [finishNum, if_true, hw]
    · rw [if_neg hm] at h
      have hsign : ¬ ((c :: r ++ rest).head? = some '-') := fun e => hm (Option.some.inj e)
      have hs := scan_tok (c :: r) .s0 false rest h (by intro hh; exact absurd rfl hh.1) hf
      simp only [kOf] at hs
      have hw : wfRealTok (c :: r) = true := by simp only [wfRealTok, if_neg hm]; exact h
      unfold readNum
      rw [if_neg hsign, hs]
      simp only [finishNum, Bool.false_eq_true, if_false, if_true, hw]

example : wfRealTok "1e-07".toList = true ∧ wfRealTok "1e+22".toList = true ∧
    wfRealTok "-2.5".toList = true ∧ wfRealTok "1.2345678901234568e+17".toList = true ∧
    wfRealTok "5e-324".toList = true ∧ wfRealTok "inf".toList = false ∧ wfRealTok "nan".toList = false ∧
    wfRealTok "17".toList = false := by decide

/-! ## strings -/

/-- **string_quote_roundtrip**: for every string over the full alphabet — quotes, blanks,
    newlines, brackets, colons included — `read_string` applied to the escaped text (after the
    opening quote) returns the string and stops right behind the closing quote -/
theorem string_quote_roundtrip (cs rest : List Char) (h : ∀ r, rest ≠ '"' :: r) :
    readString false (escape cs ++ '"' :: rest) = (rest, cs) := by
  induction cs with
  | nil =>
    show readString false ('"' :: rest) = _
    rw [readString]
    simp only [Bool.false_eq_true, if_false, if_true]
    cases rest with
    | nil => rfl
    | cons c r =>
      have hc : c ≠ '"' := fun e => h r (by rw [e])
      rw [readString]
      simp only [if_true, hc, if_false]
  | cons c r ih =>
    by_cases hc : c = '"'
    · subst hc
      show readString false ('"' :: '"' :: (escape r ++ '"' :: rest)) = _
      rw [readString]
      simp only [Bool.false_eq_true, if_false, if_true]
      rw [readString]
      simp only [if_true, ih]
    · have : escape (c :: r) = c :: escape r := by simp only [escape, if_neg hc]
      rw [this, List.cons_append, readString]
      simp only [Bool.false_eq_true, if_false, hc, ih]

/-! ## symbols -/

theorem span_symbolic (s rest : List Char) (hs : s.all isSymbolic = true) (hf : Follow rest) :
    (s ++ rest).takeWhile isSymbolic = s ∧ (s ++ rest).dropWhile isSymbolic = rest := by
  induction s with
  | nil =>
    cases rest with
    | nil => exact ⟨rfl, rfl⟩
    | cons c r =>
      have t := (term_not (hf c r rfl)).2.2.2.2.2
      constructor <;> simp [List.takeWhile_cons, List.dropWhile_cons, t]
  | cons c r ih =>
    rw [List.all_cons, Bool.and_eq_true] at hs
    have := ih hs.2
    constructor <;> simp [List.takeWhile_cons, List.dropWhile_cons, hs.1, this.1, this.2]

/-! ## skip -/

theorem skipSpace_id (nl : Bool) {c : Char} (r : List Char) (h : isSpace c = false) :
    skipSpace nl (c :: r) = c :: r := by
  rw [skipSpace]; simp only [h, Bool.false_and, Bool.false_eq_true, if_false]

/-- a suffix on which `skip` does nothing: it starts with a non-blank that does not open a
    shifted comment -/
def GoodStart (s : List Char) : Prop :=
  ∃ c r, s = c :: r ∧ isSpace c = false ∧ (c = ':' → ∃ d r', r = d :: r' ∧ d ≠ '"')

theorem skipF_id (f : Nat) (nl : Bool) {s : List Char} (h : GoodStart s) : skipF f nl s = s := by
  obtain ⟨c, r, rfl, hsp, hcol⟩ := h
  have hnc : startsComment (c :: r) = false := by
    cases r with
    | nil => rfl
    | cons d r' =>
      simp only [startsComment, Bool.and_eq_false_iff, beq_eq_false_iff_ne, ne_eq]
      by_cases hc : c = ':'
      · obtain ⟨d', r'', e, hd⟩ := hcol hc
        cases e; exact Or.inr hd
      · exact Or.inl hc
  cases f with
  | zero => rw [skipF, skipSpace_id nl r hsp]
  | succ f => rw [skipF, skipSpace_id nl r hsp, hnc]; rfl

theorem skipSpace_blank (s : List Char) : skipSpace true (' ' :: s) = skipSpace true s := by
  rw [skipSpace]
  have : isSpace ' ' = true := by decide
  simp only [this, Bool.true_or, Bool.and_self, if_true]

theorem skipF_blank (f : Nat) (s : List Char) : skipF f true (' ' :: s) = skipF f true s := by
  cases f with
  | zero => rw [skipF, skipF, skipSpace_blank]
  | succ f => rw [skipF, skipF, skipSpace_blank]

/-! ## dispatch (`kg_read`'s if-chain) -/

theorem classify_digit (neg : Bool) {c : Char} (r : List Char) (hc : isDigit c = true)
    (hr : r.head? ≠ some 'c') : classify neg (c :: r) = .num := by
  have n1 : c ≠ '\n' := digit_ne hc _ (by decide)
  have n2 : c ≠ ';' := digit_ne hc _ (by decide)
  have n3 : c ≠ '(' := digit_ne hc _ (by decide)
  have n4 : c ≠ ')' := digit_ne hc _ (by decide)
  have n5 : c ≠ '{' := digit_ne hc _ (by decide)
  have n6 : c ≠ '}' := digit_ne hc _ (by decide)
  have n7 : c ≠ ']' := digit_ne hc _ (by decide)
  simp only [classify, n1, n2, n3, n4, n5, n6, n7, false_or, if_false, hr, and_false, hc, true_or, if_true]

theorem classify_minus (r : List Char) {d : Char} (hd : isDigit d = true) :
    classify true ('-' :: d :: r) = .num := by
  have e1 : isDigit '-' = false := by decide
  simp [classify, e1, hd]

theorem classify_chr (neg : Bool) (c : Char) (r : List Char) :
    classify neg ('0' :: 'c' :: c :: r) = .chr := by
  simp [classify]

theorem classify_str (neg : Bool) (r : List Char) : classify neg ('"' :: r) = .str := by
  have e1 : isDigit '"' = false := by decide
  simp [classify, e1]

theorem classify_colon_sym (neg : Bool) {a : Char} (r : List Char) (h : isAlpha a = true ∨ a = '.') :
    classify neg (':' :: a :: r) = .colonSym := by
  have e1 : isDigit ':' = false := by decide
  simp [classify, e1, h]

theorem classify_colon_dict (neg : Bool) (r : List Char) :
    classify neg (':' :: '{' :: r) = .colonDict := by
  have e1 : isDigit ':' = false := by decide
  have e2 : isAlpha '{' = false := by decide
  have e3 : isDigit '{' = false := by decide
  simp [classify, e1, e2, e3]

theorem classify_list (neg : Bool) (r : List Char) : classify neg ('[' :: r) = .lst := by
  have e1 : isDigit '[' = false := by decide
  simp [classify, e1]

/-! ## atoms through `kg_read` -/

theorem head_follow_ne_c {rest : List Char} (hf : Follow rest) : rest.head? ≠ some 'c' := by
  cases rest with
  | nil => simp
  | cons c r =>
    have := (term_not (hf c r rfl)).2.2.2.2.1
    simpa using this

theorem digits_goodStart {ds : List Char} (rest : List Char) (h : ds.all isDigit = true) (hne : ds ≠ []) :
    GoodStart (ds ++ rest) := by
  obtain ⟨c, r, rfl⟩ := List.exists_cons_of_ne_nil hne
  rw [List.all_cons, Bool.and_eq_true] at h
  exact ⟨c, r ++ rest, rfl, digit_not_space h.1, fun e => absurd e (digit_ne h.1 ':' (by decide))⟩

theorem digits_second {ds rest : List Char} (h : ds.all isDigit = true) (hf : Follow rest) :
    (ds ++ rest).head? ≠ some 'c' := by
  cases ds with
  | nil => exact head_follow_ne_c hf
  | cons d r =>
    rw [List.all_cons, Bool.and_eq_true] at h
    have := digit_ne h.1 'c' (by decide)
    simpa using this

theorem read_int (f : Nat) (nl : Bool) (n : Int) {rest : List Char} (hf : Follow rest) :
    kgReadF (f + 1) true nl (showInt n ++ rest) = some (some (.int n), rest) := by
  have hd := showNat_digits n.natAbs
  have hnum := readNum_int n hf
  have hsk : skipF f nl (showInt n ++ rest) = showInt n ++ rest := by
    apply skipF_id
    unfold showInt
    split
    · exact ⟨'-', showNat n.natAbs ++ rest, rfl, by decide, fun e => absurd e (by decide)⟩
    · exact digits_goodStart rest hd.1 hd.2
  have hcl : classify true (showInt n ++ rest) = .num := by
    unfold showInt
    obtain ⟨c, r, hcr⟩ := List.exists_cons_of_ne_nil hd.2
    have hall := hd.1
    rw [hcr, List.all_cons, Bool.and_eq_true] at hall
    split
    · rw [hcr]; exact classify_minus _ hall.1
    · rw [hcr]; exact classify_digit true _ hall.1 (digits_second hall.2 hf)
  rw [kgReadF]
  simp only [hsk, hcl, hnum, Option.map_some]

theorem read_real (f : Nat) (nl : Bool) {tok rest : List Char} (h : wfRealTok tok = true)
    (hf : Follow rest) : kgReadF (f + 1) true nl (tok ++ rest) = some (some (.real tok), rest) := by
  have hnum := real_token_roundtrip h hf
  have key : GoodStart (tok ++ rest) ∧ classify true (tok ++ rest) = .num := by
    cases tok with
    | nil => simp only [wfRealTok, Bool.false_eq_true] at h
    | cons c r =>
      simp only [wfRealTok] at h
      by_cases hm : c = '-'
      · subst hm
        rw [if_pos rfl] at h
        obtain ⟨d, r', e, hd, _⟩ := accTok_s0_head h
        subst e
        exact ⟨⟨'-', _, rfl, by decide, fun e => absurd e (by decide)⟩, classify_minus _ hd⟩
      · rw [if_neg hm] at h
        obtain ⟨d, r', e, hd, d2, r2, e2, hd2⟩ := accTok_s0_head h
        obtain ⟨rfl, rfl⟩ := List.cons.inj e
        subst e2
        refine ⟨⟨c, _, rfl, digit_not_space hd, fun e => absurd e (digit_ne hd ':' (by decide))⟩, ?_⟩
        exact classify_digit true _ hd (by simpa using hd2)
  rw [kgReadF]
  simp only [skipF_id f nl key.1, key.2, hnum, Option.map_some]

theorem read_chr (f : Nat) (neg nl : Bool) (c : Char) (rest : List Char) :
    kgReadF (f + 1) neg nl ('0' :: 'c' :: c :: rest) = some (some (.chr c), rest) := by
  have hg : GoodStart ('0' :: 'c' :: c :: rest) :=
    ⟨'0', _, rfl, by decide, fun e => absurd e (by decide)⟩
  rw [kgReadF]
  simp only [skipF_id f nl hg, classify_chr]

theorem read_str (f : Nat) (neg nl : Bool) (cs : List Char) {rest : List Char} (hf : Follow rest) :
    kgReadF (f + 1) neg nl (writeStr cs ++ rest) = some (some (.str cs), rest) := by
  have hg : GoodStart (writeStr cs ++ rest) :=
    ⟨'"', _, rfl, by decide, fun e => absurd e (by decide)⟩
  have hq : ∀ r, rest ≠ '"' :: r := by
    intro r e
    have := (term_not (hf '"' r e)).2.2.2.1
    exact this rfl
  have hs := string_quote_roundtrip cs rest hq
  rw [kgReadF]
  simp only [skipF_id f nl hg]
  have hw : writeStr cs ++ rest = '"' :: (escape cs ++ '"' :: rest) := by
    simp [writeStr]
  simp only [hw, classify_str, List.drop_succ_cons, List.drop_zero, hs]

theorem wfSym_head {s : List Char} (h : wfSym s = true) :
    ∃ a r, s = a :: r ∧ (isAlpha a = true ∨ a = '.') ∧ s.all isSymbolic = true := by
  cases s with
  | nil => simp only [wfSym, Bool.false_eq_true] at h
  | cons a r =>
    simp only [wfSym, Bool.and_eq_true, Bool.or_eq_true, beq_iff_eq] at h
    exact ⟨a, r, rfl, h.1, h.2⟩

theorem read_sym (f : Nat) (neg nl : Bool) {s rest : List Char} (h : wfSym s = true)
    (hf : Follow rest) : kgReadF (f + 1) neg nl (':' :: (s ++ rest)) = some (some (.sym s), rest) := by
  obtain ⟨a, r, e, ha, hall⟩ := wfSym_head h
  have hne : a ≠ '"' := by
    rcases ha with ha | ha
    · rintro rfl; revert ha; decide
    · rw [ha]; decide
  have hg : GoodStart (':' :: (s ++ rest)) := by
    subst e
    exact ⟨':', _, rfl, by decide, fun _ => ⟨a, r ++ rest, rfl, hne⟩⟩
  have hcl : classify neg (':' :: (s ++ rest)) = .colonSym := by
    subst e; exact classify_colon_sym neg _ ha
  have hsp := span_symbolic s rest hall hf
  rw [kgReadF]
  simp only [skipF_id f nl hg, hcl, List.drop_succ_cons, List.drop_zero, readSym, hsp.1, hsp.2]

/-! ## dictionaries -/

theorem dictSet_new (k v : Val) (acc : List Val)
    (h : ∀ a ∈ acc, keyEq (keyOf a) k = false) : dictSet k v acc = acc ++ [.list [k, v]] := by
  induction acc with
  | nil => rfl
  | cons e es ih =>
    have he := h e (List.mem_cons_self ..)
    have ih' := ih (fun a ha => h a (List.mem_cons_of_mem _ ha))
    cases e with
    | list xs =>
      cases xs with
      | nil => simp only [dictSet, ih', List.cons_append]
      | cons k' rest =>
        simp only [keyOf] at he
        simp only [dictSet, he, Bool.false_eq_true, if_false, ih', List.cons_append]
    | int _ => simp only [dictSet, ih', List.cons_append]
    | real _ => simp only [dictSet, ih', List.cons_append]
    | chr _ => simp only [dictSet, ih', List.cons_append]
    | sym _ => simp only [dictSet, ih', List.cons_append]
    | str _ => simp only [dictSet, ih', List.cons_append]
    | dict _ => simp only [dictSet, ih', List.cons_append]

theorem mkDictAcc_id (es : List Val) : ∀ (acc : List Val), entriesOK es = true → keysDistinct es = true →
    (∀ a ∈ acc, ∀ e ∈ es, keyEq (keyOf a) (keyOf e) = false) →
    mkDictAcc acc es = some (acc ++ es) := by
  induction es with
  | nil => intro acc _ _ _; simp [mkDictAcc]
  | cons e es ih =>
    intro acc hok hdist hacc
    simp only [entriesOK, Bool.and_eq_true] at hok
    simp only [keysDistinct, Bool.and_eq_true, List.all_eq_true, Bool.not_eq_true'] at hdist
    cases e with
    | list xs =>
      match xs, hok with
      | [k, v], hok =>
        have hk : isKey k = true := hok.1
        have hnew : ∀ a ∈ acc, keyEq (keyOf a) k = false := by
          intro a ha
          exact hacc a ha _ (List.mem_cons_self ..)
        simp only [mkDictAcc, hk, if_true, dictSet_new k v acc hnew]
        rw [ih (acc ++ [Val.list [k, v]]) hok.2 hdist.2]
        · simp
        · intro a ha e' he'
          rcases List.mem_append.mp ha with ha | ha
          · exact hacc a ha e' (List.mem_cons_of_mem _ he')
          · simp only [List.mem_singleton] at ha
            subst ha
            exact hdist.1 e' he'
      | [], hok => simp at hok
      | [_], hok => simp at hok
      | _ :: _ :: _ :: _, hok => simp at hok
    | int _ => simp at hok
    | real _ => simp at hok
    | chr _ => simp at hok
    | sym _ => simp at hok
    | str _ => simp at hok
    | dict _ => simp at hok

theorem mkDict_id {es : List Val} (hok : entriesOK es = true) (hd : keysDistinct es = true) :
    mkDict es = some es := by
  have := mkDictAcc_id es [] hok hd (by intro a ha; cases ha)
  simpa [mkDict] using this

/-! ## lists: the loop of `read_list` -/

theorem readListF_end (f : Nat) {delim : Char} (rest : List Char) (hd : delim = ']' ∨ delim = '}') :
    readListF (f + 1) delim (delim :: rest) = some ([], rest) := by
  have hg : GoodStart (delim :: rest) := by
    refine ⟨delim, rest, rfl, ?_, ?_⟩
    · rcases hd with rfl | rfl <;> decide
    · intro e; exfalso
      rcases hd with rfl | rfl
      · exact absurd e (by decide)
      · exact absurd e (by decide)
  rw [readListF, skipF_id f true hg]
  simp only [if_true]

theorem readListF_blank (f : Nat) (delim : Char) (s : List Char) :
    readListF f delim (' ' :: s) = readListF f delim s := by
  cases f with
  | zero => rfl
  | succ f => rw [readListF, readListF, skipF_blank]

/-- what every written value starts with -/
def StartOK (s : List Char) : Prop :=
  ∃ c r, s = c :: r ∧ isSpace c = false ∧ c ≠ ']' ∧ c ≠ '}' ∧ (c = ':' → ∃ d r', r = d :: r' ∧ d ≠ '"')

theorem startOK_append {s : List Char} (t : List Char) (h : StartOK s) :
    GoodStart (s ++ t) ∧ ∃ c r, s ++ t = c :: r ∧ c ≠ ']' ∧ c ≠ '}' := by
  obtain ⟨c, r, rfl, h1, h2, h3, h4⟩ := h
  refine ⟨⟨c, r ++ t, rfl, h1, ?_⟩, c, r ++ t, rfl, h2, h3⟩
  intro e
  obtain ⟨d, r', e', hd⟩ := h4 e
  exact ⟨d, r' ++ t, by rw [e']; rfl, hd⟩

theorem write_start (v : Val) (h : wfTok v = true) : StartOK (kgWrite v) := by
  cases v with
  | int n =>
    have hd := showNat_digits n.natAbs
    simp only [kgWrite, showInt]
    split
    · exact ⟨'-', _, rfl, by decide, by decide, by decide, fun e => absurd e (by decide)⟩
    · obtain ⟨c, r, hcr⟩ := List.exists_cons_of_ne_nil hd.2
      have hall := hd.1
      rw [hcr, List.all_cons, Bool.and_eq_true] at hall
      rw [hcr]
      exact ⟨c, r, rfl, digit_not_space hall.1, digit_ne hall.1 ']' (by decide), digit_ne hall.1 '}' (by decide),
        fun e => absurd e (digit_ne hall.1 ':' (by decide))⟩
  | real t =>
    simp only [wfTok] at h
    simp only [kgWrite]
    cases t with
    | nil => simp only [wfRealTok, Bool.false_eq_true] at h
    | cons c r =>
      simp only [wfRealTok] at h
      by_cases hm : c = '-'
      · subst hm
        exact ⟨'-', _, rfl, by decide, by decide, by decide, fun e => absurd e (by decide)⟩
      · rw [if_neg hm] at h
        obtain ⟨d, r', e, hd, _⟩ := accTok_s0_head h
        obtain ⟨rfl, rfl⟩ := List.cons.inj e
        exact ⟨c, _, rfl, digit_not_space hd, digit_ne hd ']' (by decide), digit_ne hd '}' (by decide),
          fun e => absurd e (digit_ne hd ':' (by decide))⟩
  | chr c => exact ⟨'0', _, rfl, by decide, by decide, by decide, fun e => absurd e (by decide)⟩
  | sym s =>
    simp only [wfTok] at h
    obtain ⟨a, r, e, ha, _⟩ := wfSym_head h
    have hne : a ≠ '"' := by
      rcases ha with ha | ha
      · rintro rfl; revert ha; decide
      · rw [ha]; decide
    subst e
    exact ⟨':', _, rfl, by decide, by decide, by decide, fun _ => ⟨a, r, rfl, hne⟩⟩
  | str cs => exact ⟨'"', _, rfl, by decide, by decide, by decide, fun e => absurd e (by decide)⟩
  | list xs => exact ⟨'[', _, rfl, by decide, by decide, by decide, fun e => absurd e (by decide)⟩
  | dict es => exact ⟨':', _, rfl, by decide, by decide, by decide, fun _ => ⟨'{', _, rfl, by decide⟩⟩

theorem length_writeList_cons2 (x y : Val) (r : List Val) :
    (kgWriteList (x :: y :: r)).length = (kgWrite x).length + 1 + (kgWriteList (y :: r)).length := by
  simp only [kgWriteList, List.length_append, List.length_cons]; omega

/-- one iteration of the `read_list` loop, given that `kg_read` returns the element -/
theorem readListF_step (f : Nat) {delim : Char} (x : Val) (tail : List Char)
    (hd : delim = ']' ∨ delim = '}') (hs : StartOK (kgWrite x))
    (hx : kgReadF f true true (kgWrite x ++ tail) = some (some x, tail)) :
    readListF (f + 1) delim (kgWrite x ++ tail) =
      match readListF f delim tail with
      | some (qs, rest') => some (x :: qs, rest')
      | none => none := by
  obtain ⟨hg, c, r, hcr, hc1, hc2⟩ := startOK_append tail hs
  have hne : c ≠ delim := by rcases hd with rfl | rfl <;> assumption
  rw [readListF, skipF_id f true hg]
  rw [hcr] at hx ⊢
  simp only [hne, if_false, hx]
  rfl

/-! ## the round trip, for every value and whatever follows it -/

mutual
theorem read_val : ∀ (v : Val), wfTok v = true → ∀ (f : Nat) (nl : Bool) (rest : List Char),
    Follow rest → (kgWrite v).length < f →
    kgReadF f true nl (kgWrite v ++ rest) = some (some v, rest)
  | .int n, _, f, nl, rest, hf, hl => by
    obtain ⟨f', rfl⟩ : ∃ f', f = f' + 1 := ⟨f - 1, by omega⟩
    exact read_int f' nl n hf
  | .real t, h, f, nl, rest, hf, hl => by
    obtain ⟨f', rfl⟩ : ∃ f', f = f' + 1 := ⟨f - 1, by omega⟩
    simp only [wfTok] at h
    exact read_real f' nl h hf
  | .chr c, _, f, nl, rest, hf, hl => by
    obtain ⟨f', rfl⟩ : ∃ f', f = f' + 1 := ⟨f - 1, by omega⟩
    exact read_chr f' true nl c rest
  | .sym s, h, f, nl, rest, hf, hl => by
    obtain ⟨f', rfl⟩ : ∃ f', f = f' + 1 := ⟨f - 1, by omega⟩
    simp only [wfTok] at h
    simp only [kgWrite, List.cons_append]
    exact read_sym f' true nl h hf
  | .str cs, _, f, nl, rest, hf, hl => by
    obtain ⟨f', rfl⟩ : ∃ f', f = f' + 1 := ⟨f - 1, by omega⟩
    exact read_str f' true nl cs hf
  | .list xs, h, f, nl, rest, hf, hl => by
    obtain ⟨f', rfl⟩ : ∃ f', f = f' + 1 := ⟨f - 1, by omega⟩
    simp only [wfTok] at h
    simp only [kgWrite, List.length_cons, List.length_append, List.length_nil] at hl
    have ih := read_list xs h f' ']' rest (Or.inl rfl) (by omega)
    have hg : GoodStart ('[' :: (kgWriteList xs ++ [']']) ++ rest) :=
      ⟨'[', _, rfl, by decide, fun e => absurd e (by decide)⟩
    have hw : '[' :: (kgWriteList xs ++ [']']) ++ rest = '[' :: (kgWriteList xs ++ ']' :: rest) := by
      simp
    rw [kgWrite, kgReadF, skipF_id f' nl hg, hw]
    simp only [classify_list, List.drop_succ_cons, List.drop_zero, ih]
  | .dict es, h, f, nl, rest, hf, hl => by
    obtain ⟨f', rfl⟩ : ∃ f', f = f' + 1 := ⟨f - 1, by omega⟩
    simp only [wfTok, Bool.and_eq_true] at h
    simp only [kgWrite, List.length_cons, List.length_append, List.length_nil] at hl
    have ih := read_list es h.1.1 f' '}' rest (Or.inr rfl) (by omega)
    have hg : GoodStart (':' :: '{' :: (kgWriteList es ++ ['}']) ++ rest) :=
      ⟨':', _, rfl, by decide, fun _ => ⟨'{', _, rfl, by decide⟩⟩
    have hw : ':' :: '{' :: (kgWriteList es ++ ['}']) ++ rest = ':' :: '{' :: (kgWriteList es ++ '}' :: rest) := by
      simp
    rw [kgWrite, kgReadF, skipF_id f' nl hg, hw]
    simp only [classify_colon_dict, List.drop_succ_cons, List.drop_zero, ih, mkDict_id h.1.2 h.2,
      Option.map_some]
theorem read_list : ∀ (xs : List Val), wfTokList xs = true → ∀ (f : Nat) (delim : Char) (rest : List Char),
    (delim = ']' ∨ delim = '}') → (kgWriteList xs).length + 1 < f →
    readListF f delim (kgWriteList xs ++ delim :: rest) = some (xs, rest)
  | [], _, f, delim, rest, hd, hl => by
    obtain ⟨f', rfl⟩ : ∃ f', f = f' + 1 := ⟨f - 1, by omega⟩
    exact readListF_end f' rest hd
  | [x], h, f, delim, rest, hd, hl => by
    obtain ⟨f', rfl⟩ : ∃ f', f = f' + 1 := ⟨f - 1, by omega⟩
    simp only [wfTokList, Bool.and_eq_true] at h
    simp only [kgWriteList] at hl ⊢
    have hfol : Follow (delim :: rest) := follow_cons (by rcases hd with rfl | rfl <;> decide)
    have hx := read_val x h.1 f' true (delim :: rest) hfol (by omega)
    obtain ⟨f'', rfl⟩ : ∃ f'', f' = f'' + 1 := ⟨f' - 1, by omega⟩
    rw [readListF_step (f'' + 1) x _ hd (write_start x h.1) hx, readListF_end f'' rest hd]
  | x :: y :: r, h, f, delim, rest, hd, hl => by
    obtain ⟨f', rfl⟩ : ∃ f', f = f' + 1 := ⟨f - 1, by omega⟩
    have h' := h
    simp only [wfTokList, Bool.and_eq_true] at h
    rw [length_writeList_cons2] at hl
    have hfol : Follow (' ' :: (kgWriteList (y :: r) ++ delim :: rest)) := follow_cons (by decide)
    have hx := read_val x h.1 f' true _ hfol (by omega)
    have ih := read_list (y :: r) (by simp only [wfTokList, Bool.and_eq_true]; exact h.2) f' delim rest hd (by omega)
    have hw : kgWriteList (x :: y :: r) ++ delim :: rest =
        kgWrite x ++ ' ' :: (kgWriteList (y :: r) ++ delim :: rest) := by
      simp [kgWriteList]
    rw [hw, readListF_step f' x _ hd (write_start x h.1) hx, readListF_blank, ih]
end

/-! ## Match is reflexive -/

mutual
theorem vmatch_refl : ∀ (v : Val), vmatch v v = true
  | .int n => by simp [vmatch]
  | .real t => by simp [vmatch]
  | .chr c => by simp [vmatch]
  | .sym s => by simp [vmatch]
  | .str s => by simp [vmatch]
  | .list xs => by simp only [vmatch]; exact vmatchL_refl xs
  | .dict es => by simp only [vmatch]; exact vmatchL_refl es
theorem vmatchL_refl : ∀ (xs : List Val), vmatchL xs xs = true
  | [] => by simp [vmatchL]
  | x :: r => by simp only [vmatchL, Bool.and_eq_true]; exact ⟨vmatch_refl x, vmatchL_refl r⟩
end

/-! ------------------------------------------------------------------------------------
  ## Property theorems (C11)
------------------------------------------------------------------------------------- -/

theorem wfData_tok {v : Val} (h : WFData v) : wfTok v = true := by
  unfold WFData wfData at h
  rw [Bool.and_eq_true] at h
  exact h.1

/-- **read_write_general**: for every well-formed data value `v` — at any nesting depth — and
    every continuation `rest` that starts with a separator (or is empty), whether newlines count
    as blanks or not and with any sufficient fuel: `kg_read` on `kg_write(v) ++ rest` returns
    exactly `v` and stops exactly at `rest`. -/
theorem read_write_general (v : Val) (h : WFData v) (f : Nat) (nl : Bool) (rest : List Char)
    (hf : Follow rest) (hl : (kgWrite v).length < f) :
    kgReadF f true nl (kgWrite v ++ rest) = some (some v, rest) :=
  read_val v (wfData_tok h) f nl rest hf hl

/-- **read_write_roundtrip** (`.rs` / `.r` of what `.w` wrote): the text of a well-formed data
    value reads back to a value `v'` and the end of the text; `v'` is the original (hence matches
    it) and writes identically again.  Integers (negative ones included), real tokens (exponent
    forms included), characters (quote, blank, newline included), strings over all characters,
    symbols, lists nested to any depth and dictionaries. -/
theorem read_write_roundtrip (v : Val) (h : WFData v) :
    ∃ v', rs (kgWrite v) = some (v', (kgWrite v).length) ∧ v' = v ∧ vmatch v v' = true ∧
      kgWrite v' = kgWrite v := by
  refine ⟨v, ?_, rfl, vmatch_refl v, rfl⟩
  have := read_write_general v h ((kgWrite v).length + 2) false [] follow_nil (by omega)
  rw [List.append_nil] at this
  simp only [rs, this, List.length_nil, Nat.sub_zero]

/-- **read_write_in_list**: the same inside a list or dictionary (where a negative number is
    preceded by a blank or a bracket): `read_list` returns exactly the written elements. -/
theorem read_write_in_list (xs : List Val) (h : WFData (.list xs)) (rest : List Char) :
    readListF ((kgWriteList xs).length + 2) ']' (kgWriteList xs ++ ']' :: rest) = some (xs, rest) := by
  have ht := wfData_tok h
  simp only [wfTok] at ht
  exact read_list xs ht _ ']' rest (Or.inl rfl) (by omega)

def isAtom : Val → Bool
  | .list _ => false
  | .dict _ => false
  | _ => true

theorem not_mem_dot_of_digits {ds : List Char} (h : ds.all isDigit = true) : ds.contains '.' = false := by
  induction ds with
  | nil => rfl
  | cons c r ih =>
    rw [List.all_cons, Bool.and_eq_true] at h
    have : c ≠ '.' := digit_ne h.1 '.' (by decide)
    simp only [List.contains_cons, ih h.2, Bool.or_false, beq_eq_false_iff_ne, ne_eq]
    exact fun e => this e.symm

/-- **form_inverts_format**: `x:$$x` is `x` for integers, reals, characters, strings and symbols -/
theorem form_inverts_format (v : Val) (ha : isAtom v = true) (h : WFData v) :
    (fmt v).bind (form v) = some v := by
  have ht := wfData_tok h
  cases v with
  | int n =>
    have hd := showNat_digits n.natAbs
    have hne : (showInt n).isEmpty = false := by
      unfold showInt; split
      · rfl
      · cases hs : showNat n.natAbs with
        | nil => exact absurd hs hd.2
        | cons _ _ => rfl
    have hdot : (showInt n).contains '.' = false := by
      unfold showInt; split
      · simp only [List.contains_cons, not_mem_dot_of_digits hd.1, Bool.or_false]; decide
      · exact not_mem_dot_of_digits hd.1
    simp only [fmt, Option.bind_some, form, hne, hdot, Bool.false_and, Bool.or_self, Bool.false_eq_true,
      if_false, readInt_showInt, Option.map_some]
  | real t =>
    simp only [wfTok] at ht
    simp only [fmt, Option.bind_some, form, ht, if_true]
  | chr c => rfl
  | sym s =>
    simp only [fmt, Option.bind_some, form]
    simp
  | str cs => rfl
  | list xs => cases ha
  | dict es => cases ha

/-- the data domain is inhabited by a value with every kind in it, nested three deep -/
def sampleVal : Val :=
  .list [.int (-17), .real "1e-07".toList, .real "1e+22".toList, .chr '"', .chr ' ', .chr '\n',
    .str "say \"hi\"\n[:0c]".toList, .sym "foo".toList,
    .list [.list [.list [.int (-1), .str "[".toList]], .list []],
    .dict [.list [.int (-1), .str "x".toList], .list [.chr 'a', .list [.real "-2.5".toList]],
           .list [.sym "k".toList, .dict []]]]

theorem wfData_nonempty : WFData sampleVal := by decide

example : (rs (kgWrite sampleVal)).map (fun p => (kgWrite p.1, p.2)) =
    some (kgWrite sampleVal, (kgWrite sampleVal).length) := by decide

example : String.ofList (kgWrite (.list [.int (-3), .list [.real "1e+22".toList, .chr ' '], .str "a\"b".toList])) =
    "[-3 [1e+22 0c ] \"a\"\"b\"]" := by decide

/-- inf / nan are outside the domain: written `inf`, read back as the symbol `inf` -/
example : WFData (.real "inf".toList) = False ∧
    (rs "inf".toList).map (fun p => kgWrite p.1) = some ":inf".toList := by
  refine ⟨?_, by decide⟩
  simp only [WFData, eq_iff_iff, iff_false]
  decide

/-- symbol names with letters outside ASCII are in the domain and round-trip -/
def uniVal : Val :=
  .list [.sym "größe".toList, .sym "λ".toList, .chr 'λ', .str "имя 名前 x²".toList,
    .dict [.list [.sym "имя".toList, .sym "名前".toList]]]

example : WFData uniVal := by decide

example : (rs (kgWrite uniVal)).map (fun p => (kgWrite p.1, p.2)) =
    some (kgWrite uniVal, (kgWrite uniVal).length) := by decide

example : (fmt (.int (-12))).bind (form (.int (-12))) = some (.int (-12)) :=
  form_inverts_format _ rfl (by decide)

end Klong.C11
