/-
  C01 — property theorems: implementation model = reference, per verb.
-/
import Klong.Model.C01
import Klong.Generated.C01Dispatch
namespace Klong.C01
open Klong

/-! ## atomic dyads: numpy's classification is unobservable -/

theorem asNums_eq {xs is : List Val} (h : asNums xs = some is) :
    is = xs ∧ ∀ x ∈ xs, x.isNum = true := by
  induction xs generalizing is with
  | nil => simp [asNums] at h; subst h; simp
  | cons x xs ih =>
    simp only [asNums] at h
    split at h
    · rename_i hx
      cases hr : asNums xs with
      | none => simp [hr] at h
      | some r =>
        simp [hr] at h
        obtain ⟨h1, h2⟩ := ih hr
        subst h; subst h1
        exact ⟨rfl, by intro y hy; rcases List.mem_cons.mp hy with rfl | hy; exact hx; exact h2 y hy⟩
    · simp at h

theorem refA2_num (f : Val → Val → Option Val) {x y : Val} (hx : x.isNum = true) (hy : y.isNum = true) :
    refA2 f x y = f x y := by
  cases x <;> cases y <;> simp_all [Val.isNum, refA2]

theorem zipNums_eq_refZip (f : Val → Val → Option Val) (xs ys : List Val)
    (hx : ∀ x ∈ xs, x.isNum = true) (hy : ∀ y ∈ ys, y.isNum = true) :
    zipNums f xs ys = refZip f xs ys := by
  induction xs generalizing ys with
  | nil => cases ys <;> simp [zipNums, refZip]
  | cons x xs ih =>
    cases ys with
    | nil => simp [zipNums, refZip]
    | cons y ys =>
      have hx' := hx x (by simp)
      have hy' := hy y (by simp)
      simp only [zipNums, refZip, refA2_num f hx' hy']
      rw [ih ys (fun a ha => hx a (by simp [ha])) (fun a ha => hy a (by simp [ha]))]

/-- **atomic_dyad_correct**: for every scalar function `f` and operands of ANY nesting depth
    and any mixture of homogeneous and object sub-arrays, the numpy-classified evaluation
    (flat vector fast path / element-wise recursion) equals the reference's atomic extension. -/
theorem atomic_dyad_correct (f : Val → Val → Option Val) :
    (∀ a b, implA2 f a b = refA2 f a b) ∧ (∀ a ys, implMapR f a ys = refMapR f a ys) ∧
    (∀ xs b, implMapL f xs b = refMapL f xs b) ∧ (∀ xs ys, implZip f xs ys = refZip f xs ys) := by
  apply implA2.mutual_induct
    (motive1 := fun a b => implA2 f a b = refA2 f a b)
    (motive2 := fun a ys => implMapR f a ys = refMapR f a ys)
    (motive3 := fun xs b => implMapL f xs b = refMapL f xs b)
    (motive4 := fun xs ys => implZip f xs ys = refZip f xs ys)
  case case1 =>
    intro xs ys is js hj hi
    obtain ⟨e1, n1⟩ := asNums_eq hi
    obtain ⟨e2, n2⟩ := asNums_eq hj
    subst e1; subst e2
    simp [implA2, refA2, hi, hj, zipNums_eq_refZip f is js n1 n2]
  case case2 =>
    intro xs ys hno ih
    have : implA2 f (.list xs) (.list ys) = (implZip f xs ys).map .list := by
      rw [implA2]
      split
      · rename_i is js h1 h2; exact (hno is js h1 h2).elim
      · rfl
    rw [this, ih, refA2]
  case case3 =>
    intro xs b hb ih
    cases b <;> first | (exact (hb _ rfl).elim) | simp [implA2, refA2, ih]
  case case4 =>
    intro a ys ha ih
    cases a <;> first | (exact (ha _ rfl).elim) | simp [implA2, refA2, ih]
  case case5 =>
    intro a b _ ha hb
    cases a <;> cases b <;> first | (exact (ha _ rfl).elim) | (exact (hb _ rfl).elim) | simp [implA2, refA2]
  case case6 => intro x; simp [implMapR, refMapR]
  case case7 => intro a y ys h1 h2; simp [implMapR, refMapR, h1, h2]
  case case8 => intro x; simp [implMapL, refMapL]
  case case9 => intro x xs b h1 h2; simp [implMapL, refMapL, h1, h2]
  case case10 => simp [implZip, refZip]
  case case11 => intro x xs y ys h1 h2; simp [implZip, refZip, h1, h2]
  case case12 =>
    intro xs ys h1 h2
    cases xs <;> cases ys <;> simp_all [implZip, refZip]

/-- the rank-mismatch class is the only place where the model deviates from the reference -/
theorem dyad_in_model_correct (f : Val → Val → Option Val) (a b : Val)
    (h : anyRankMismatch a b = false) :
    dyadRes f a b = match refA2 f a b with | some v => .ok v | none => .err := by
  simp only [dyadRes, h, (atomic_dyad_correct f).1 a b]; rfl

/-- witness that the excluded class is real: numpy broadcasts [[1 2] [3 4]] + [10 20] along the
    trailing axis, the reference extends the atom 10 over the first row -/
example : anyRankMismatch (.list [.list [.int 1, .int 2], .list [.int 3, .int 4]])
    (.list [.int 10, .int 20]) = true := by decide

example : anyRankMismatch (.list [.int 1, .list [.int 2, .int 3]]) (.list [.int 10, .int 20]) = false := by
  decide

/-- **atomic_monad_correct**: Negate through any nesting depth -/
theorem atomic_monad_correct (a : Val) :
    implMonad "-" a = match refMonad "-" a with | some v => .ok v | none => .err := by
  simp only [implMonad, refMonad]; rfl

/-! ## dispatch: every verb of the reference names the function whose model is proved -/

def expectedDyads : List (String × String) :=
  [("+", "eval_dyad_add"), ("-", "eval_dyad_subtract"), ("*", "eval_dyad_multiply"),
   ("&", "eval_dyad_minimum"), ("|", "eval_dyad_maximum"), ("<", "eval_dyad_less"),
   (">", "eval_dyad_more"), ("=", "eval_dyad_equal"), ("!", "eval_dyad_remainder"),
   (":%", "eval_dyad_integer_divide"), ("#", "eval_dyad_take"), ("_", "eval_dyad_drop"),
   (":+", "eval_dyad_rotate"), (":#", "eval_dyad_split"), (":_", "eval_dyad_cut"),
   ("~", "eval_dyad_match"), ("%", "eval_dyad_divide"), ("^", "eval_dyad_power"),
   (",", "eval_dyad_join"), ("@", "eval_dyad_at_index"), ("?", "eval_dyad_find"),
   (":=", "eval_dyad_amend"), (":-", "eval_dyad_amend_in_depth"), (":^", "eval_dyad_reshape"),
   (":@", "eval_dyad_index_in_depth"), ("$", "eval_dyad_format2"), (":$", "eval_dyad_form")]

def expectedMonads : List (String × String) :=
  [("-", "eval_monad_negate"), ("|", "eval_monad_reverse"), ("*", "eval_monad_first"),
   ("#", "eval_monad_size"), ("!", "eval_monad_enumerate"), ("&", "eval_monad_expand_where"),
   ("?", "eval_monad_range"), ("=", "eval_monad_groupby"), ("@", "eval_monad_atom"),
   (",", "eval_monad_list"), ("<", "eval_monad_grade_up"), (">", "eval_monad_grade_down"),
   ("^", "eval_monad_shape"), ("+", "eval_monad_transpose"), ("_", "eval_monad_floor"),
   ("%", "eval_monad_reciprocal"), ("~", "eval_monad_not"), ("$", "eval_monad_format"),
   (":#", "eval_monad_char"), (":_", "eval_monad_undefined")]

/-- over the tables regenerated from /repo on every run -/
theorem dispatch_covers_reference :
    (expectedDyads.all fun p => Generated.dyadTable.lookup p.1 == some p.2) = true ∧
    (expectedMonads.all fun p => Generated.monadTable.lookup p.1 == some p.2) = true := by
  decide

end Klong.C01
