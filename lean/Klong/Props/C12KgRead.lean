/-
  C12 — helper lemmas, part 3: `kg_read` / `read_list` (the mutually recursive part of the
  lexer) never spin, never run out of fuel `8*(|t|+1-i)+rank`, return `None` only at the end of
  the text and a token only after progress, in a number of steps linear in the distance.
-/
import Klong.Props.C12Sat
namespace Klong.C12

/-- close a goal `P i v q` whose predicate unfolds to linear arithmetic -/
macro "arith" : tactic =>
  `(tactic| (simp only [KG, KGE, RL, RLE, RLL, RLLE, need, Node.isNone, Bool.false_eq_true, Bool.true_eq_false,
      false_implies, implies_true, forall_const, true_implies, and_true, true_and, reduceCtorEq] at *; (try omega)))

theorem lexer_spec (cfg : Cfg) (t : Text) : ∀ fuel : Nat,
    (∀ i rn ign m, i ≤ t.length + 1 → need t.length i 1 ≤ fuel →
        SatW 1 (KG t.length i) (KGE t.length i) (kgRead cfg t fuel i rn ign m)) ∧
    (∀ d i m, i ≤ t.length + 1 → need t.length i 3 ≤ fuel →
        SatW 1 (RL t.length i) (RLE t.length i) (readList cfg t fuel d i m)) ∧
    (∀ d i acc m, i ≤ t.length + 1 → need t.length i 2 ≤ fuel →
        SatW 1 (RLL t.length i) (RLLE t.length i) (readListLoop cfg t fuel d i acc m)) := by
  intro fuel
  induction fuel with
  | zero =>
    refine ⟨?_, ?_, ?_⟩ <;> (intros; simp only [need] at *; omega)
  | succ fuel ih =>
    obtain ⟨ihK, ihL, ihLL⟩ := ih
    refine ⟨?_, ?_, ?_⟩
    · -- kgRead
      intro i0 rn ign m hi hf
      rw [kgRead]
      have hs := skip_bounds cfg t i0 ign
      generalize skip cfg t i0 ign = i at hs ⊢
      dsimp only
      split
      · rename_i hnone
        have := getElem?_none_le hnone
        refine satW_ok (i - i0 + 1) (by omega) ?_
        arith
      · rename_i a0 hsome
        have hlt := getElem?_lt hsome
        by_cases hnl : a0 = '\n'
        · subst hnl
          rw [if_pos (by decide)]
          refine satW_ok (i - i0 + 1) (by omega) ?_
          arith
        · have ha : (if (a0 == '\n') = true then ';' else a0) = a0 := by simp [hnl]
          rw [ha]
          split
          · refine satW_ok (i - i0 + 1) (by omega) ?_
            arith
          split
          · rename_i h0c
            have := cmatch2_lt h0c
            split
            · refine satW_err (i - i0 + 1) (by omega) ?_
              arith
            · rename_i c hc
              have := getElem?_lt hc
              refine satW_ok (i - i0 + 1) (by omega) ?_
              arith
          split
          · have hb := readNum_bounds cfg t i hlt
            split
            · rename_i i' v heq
              have hp := readNum_some_progress cfg t i i' v heq
              have hv := readNum_some_isNone cfg t i i' v heq
              have he : (readNum cfg t i).1 = i' := by rw [heq]
              refine satW_ok (i - i0 + 1 + (i' - i)) (by omega) ?_
              simp only [KG, hv]
              arith
            · rename_i i' heq
              have he : (readNum cfg t i).1 = i' := by rw [heq]
              refine satW_err (i - i0 + 1 + (i' - i)) (by omega) ?_
              arith
          split
          · have hb := readString_bounds t (i + 1)
            refine satW_ok _ (Nat.le_of_eq (Nat.mul_one _).symm) ?_
            arith
          split
          · rename_i hcol
            split
            · refine satW_ok (i - i0 + 1) (by omega) ?_
              arith
            · rename_i aa haa
              have hlt1 := getElem?_lt haa
              split
              · have hb := readSym_bounds cfg t (i + 1) m
                have hv := readSym_snd cfg t (i + 1) m
                refine satW_ok _ (Nat.le_of_eq (Nat.mul_one _).symm) ?_
                simp only [KG, hv]
                arith
              split
              · refine satW_addSteps (i - i0 + 1) (by omega) ?_
                refine satW_mono (ihK (i + 1) false ign m (by omega) (by arith)) ?_ ?_
                · intro i' v q h
                  cases hv : v.isNone <;> simp only [KG, hv] at h ⊢ <;> arith
                · intro q h
                  arith
              split
              · refine satW_bind (ihL '}' (i + 2) m (by omega) (by arith)) ?_ ?_
                · intro q h
                  arith
                · intro i' d m' q1 h
                  split
                  · refine satW_err (i - i0 + 1) (by omega) ?_
                    arith
                  · refine satW_ok (i - i0 + 1) (by omega) ?_
                    arith
              split
              · refine satW_ok (i - i0 + 1) (by omega) ?_
                arith
              split
              · refine satW_ok (i - i0 + 1) (by omega) ?_
                arith
              · refine satW_ok (i - i0 + 1) (by omega) ?_
                arith
          split
          · refine satW_bind (ihL ']' (i + 1) m (by omega) (by arith)) ?_ ?_
            · intro q h
              arith
            · intro i' d m' q1 h
              refine satW_ok (i - i0 + 1) (by omega) ?_
              arith
          split
          · rename_i hsym
            have hb := readSym_bounds cfg t i m
            have hp := readSym_progress cfg t i m a0 hsome hsym
            have hv := readSym_snd cfg t i m
            refine satW_ok _ (Nat.le_of_eq (Nat.mul_one _).symm) ?_
            simp only [KG, hv]
            arith
          · have hb := readOp_bounds t i hlt
            have hv := readOp_snd t i
            refine satW_ok (i - i0 + 1) (by omega) ?_
            simp only [KG, hv]
            arith
    · -- readList
      intro d i0 m hi hf
      rw [readList]
      have hs := skip_bounds cfg t i0 true
      generalize skip cfg t i0 true = i at hs ⊢
      refine satW_addSteps (i - i0 + 1) (by omega) ?_
      refine satW_mono (ihLL d i [] m (by omega) (by arith)) ?_ ?_
      · intro i' v q h
        arith
      · intro q h
        arith
    · -- readListLoop
      intro d i acc m hi hf
      rw [readListLoop]
      split
      · rename_i hc
        simp only [Bool.and_eq_true, Bool.not_eq_true', decide_eq_true_eq] at hc
        obtain ⟨hnd, hlt⟩ := hc
        refine satW_bind (ihK i true true m (by omega) (by arith)) ?_ ?_
        · intro q h
          arith
        · intro i1 q m1 q1 h
          cases hv : q.isNone
          · simp only [KG, hv] at h
            dsimp only
            simp only [Bool.false_eq_true, if_false]
            have hs := skip_bounds cfg t i1 true
            generalize skip cfg t i1 true = i3 at hs ⊢
            rw [if_pos (by arith)]
            refine satW_addSteps (i3 - i1 + 1) (by omega) ?_
            refine satW_mono (ihLL d i3 (q :: acc) m1 (by arith) (by arith)) ?_ ?_
            · intro i' v q' h'
              arith
            · intro q' h'
              arith
          · simp only [KG, hv] at h
            simp only [if_true]
            refine satW_ok 1 (by omega) ?_
            have : (if cmatch t i1 d = true then i1 + 1 else i1) ≤ t.length + 1 := by
              split
              · rename_i hcm; have := cmatch_lt hcm; omega
              · omega
            have : i1 ≤ (if cmatch t i1 d = true then i1 + 1 else i1) := by split <;> omega
            arith
      · refine satW_ok 1 (by omega) ?_
        have : (if cmatch t i d = true then i + 1 else i) ≤ t.length + 1 := by
          split
          · rename_i hcm; have := cmatch_lt hcm; omega
          · omega
        have : i ≤ (if cmatch t i d = true then i + 1 else i) := by split <;> omega
        arith

end Klong.C12
