/-
  C09 — property theorems for the interop layer (model: Klong/Model/C09.lean).
  Helper lemmas first, property theorems below the line.
-/
import Klong.Model.C09
namespace Klong.C09

variable {α : Type}

/-! ## helper lemmas: signatures -/

/-- parameter names are distinct and taken from x, y, z -/
def coreOK (core : Sig) : Bool := decide core.Nodup && core.all (fun p => reserved.contains p)

/-- "parameters are among x, y, z, optionally preceded by klong" -/
def validSig : Sig → Bool
  | .klong :: core => coreOK core
  | core => coreOK core

/-- every ordered choice of distinct names from x, y, z: the 16 signatures without `klong` -/
def allCores : List Sig :=
  [[], [.x], [.y], [.z], [.x, .y], [.x, .z], [.y, .x], [.y, .z], [.z, .x], [.z, .y],
   [.x, .y, .z], [.x, .z, .y], [.y, .x, .z], [.y, .z, .x], [.z, .x, .y], [.z, .y, .x]]

/-- the 32 signatures of the property's quantifier -/
def allSigs : List Sig := allCores ++ allCores.map (Param.klong :: ·)

theorem coreOK_prefix4 (a b c d : Param) (rest : Sig) (h : coreOK (a :: b :: c :: d :: rest) = true) :
    coreOK [a, b, c, d] = true := by
  simp only [coreOK, Bool.and_eq_true, decide_eq_true_eq, List.all_eq_true, List.nodup_cons,
    List.mem_cons] at h ⊢
  obtain ⟨⟨h1, h2, h3, h4, _⟩, hall⟩ := h
  refine ⟨⟨?_, ?_, ?_, ?_, List.nodup_nil⟩, ?_⟩
  · intro hh; apply h1; simp only [List.not_mem_nil, or_false] at hh; rcases hh with hh | hh | hh <;> simp [hh]
  · intro hh; apply h2; simp only [List.not_mem_nil, or_false] at hh; rcases hh with hh | hh <;> simp [hh]
  · intro hh; apply h3; simp only [List.not_mem_nil, or_false] at hh; simp [hh]
  · simp
  · intro p hp
    apply hall
    simp only [List.not_mem_nil, or_false] at hp
    rcases hp with hp | hp | hp | hp <;> simp [hp]

theorem coreOK_mem (core : Sig) (h : coreOK core = true) : core ∈ allCores := by
  match core with
  | [] => decide
  | [a] => revert h; cases a <;> decide
  | [a, b] => revert h; cases a <;> cases b <;> decide
  | [a, b, c] => revert h; cases a <;> cases b <;> cases c <;> decide
  | a :: b :: c :: d :: rest =>
    have h4 := coreOK_prefix4 a b c d rest h
    exfalso
    revert h4
    cases a <;> cases b <;> cases c <;> cases d <;> decide

theorem validSig_cases (sig : Sig) (h : validSig sig = true) :
    ∃ core, core ∈ allCores ∧ (sig = core ∨ sig = .klong :: core) := by
  match sig with
  | [] => exact ⟨[], by decide, .inl rfl⟩
  | .klong :: core => exact ⟨core, coreOK_mem core h, .inr rfl⟩
  | .x :: r => exact ⟨.x :: r, coreOK_mem _ h, .inl rfl⟩
  | .y :: r => exact ⟨.y :: r, coreOK_mem _ h, .inl rfl⟩
  | .z :: r => exact ⟨.z :: r, coreOK_mem _ h, .inl rfl⟩
  | .other :: r => exact ⟨.other :: r, coreOK_mem _ h, .inl rfl⟩

theorem validSig_mem (sig : Sig) (h : validSig sig = true) : sig ∈ allSigs := by
  obtain ⟨core, hc, hs | hs⟩ := validSig_cases sig h
  · subst hs; exact List.mem_append_left _ hc
  · subst hs; exact List.mem_append_right _ (List.mem_map.mpr ⟨core, hc, rfl⟩)

/-- number of parameters that are not `klong` -/
def nParams (sig : Sig) : Nat := (sig.filter (fun p => p != .klong)).length

/-- facts about the 32 signatures, by evaluation -/
theorem allSigs_facts : ∀ sig ∈ allSigs,
    lambdaArgs sig = reserved.take (nParams sig) ∧ nParams sig ≤ 3 := by decide

theorem lambdaArgs_valid (sig : Sig) (h : validSig sig = true) :
    lambdaArgs sig = reserved.take (nParams sig) ∧ nParams sig ≤ 3 :=
  allSigs_facts sig (validSig_mem sig h)

/-- the repaired arity is the number of (non-`klong`) parameters, whatever their names and order -/
theorem arity_valid (sig : Sig) (h : validSig sig = true) : arity sig = nParams sig := by
  have ⟨h1, h2⟩ := lambdaArgs_valid sig h
  unfold arity
  rw [h1]
  simp [reserved]
  omega

/-! ## helper lemmas: binding and fetching -/

theorem fetchAll_bind (c : Ctx α) (args : List α) (h3 : args.length ≤ 3) :
    fetchAll (bindArgs args :: c) (reserved.take args.length) = some args := by
  match args with
  | [] => rfl
  | [a] => simp [reserved, fetchAll, fetch, bindArgs, lookupCtx, Param.name, List.lookup]
  | [a, b] => simp [reserved, fetchAll, fetch, bindArgs, lookupCtx, Param.name, List.lookup]
  | [a, b, c'] => simp [reserved, fetchAll, fetch, bindArgs, lookupCtx, Param.name, List.lookup]
  | _ :: _ :: _ :: _ :: _ => simp at h3

/-- the core of `_eval_fn` + `KGLambda.__call__` when the declared arguments are the first
    `args.length` of x, y, z: the call frame alone decides what the callable receives -/
theorem applyPyWith_prefix (argsOf : Sig → List Param) (w : World α) (c : Ctx α) (id : Nat) (sig : Sig)
    (args : List α) (log : Log α) (hp : argsOf sig = reserved.take args.length) (h3 : args.length ≤ 3) :
    applyPyWith argsOf w c id sig args log
      = (.val (w.ret id log.length args), log ++ [⟨id, providesKlong sig, args⟩]) := by
  unfold applyPyWith
  have hl : (argsOf sig).length = args.length := by
    rw [hp]; simp [reserved]; omega
  rw [if_neg (by omega), hp, fetchAll_bind c args h3]

/-! ## helper lemmas: projections -/

/-- slots of a projection: position i is fixed to `full[i]` where `mask[i]`, open otherwise -/
def maskSlots : List α → List Bool → List (Option α)
  | v :: vs, m :: ms => (if m then some v else none) :: maskSlots vs ms
  | _, _ => []

/-- the arguments later supplied for the open slots, in order -/
def maskArgs : List α → List Bool → List α
  | v :: vs, m :: ms => if m then maskArgs vs ms else v :: maskArgs vs ms
  | _, _ => []

theorem fill_mask (full : List α) (mask : List Bool) (h : mask.length = full.length) :
    allSome (fill (maskSlots full mask) (maskArgs full mask)) = some full := by
  induction full generalizing mask with
  | nil => cases mask <;> simp_all [maskSlots, maskArgs, fill, allSome]
  | cons v vs ih =>
    cases mask with
    | nil => simp at h
    | cons m ms =>
      have h' : ms.length = vs.length := by simpa using h
      cases m <;> simp [maskSlots, maskArgs, fill, allSome, ih ms h']

/-! ## helper lemmas: the context as a finite map -/

theorem lookup_filter_ne (f : Frame α) (n k : Name) (h : k ≠ n) :
    List.lookup k (f.filter (fun p => p.1 != n)) = List.lookup k f := by
  induction f with
  | nil => rfl
  | cons p f ih =>
    obtain ⟨a, b⟩ := p
    by_cases hp : a = n
    · subst hp
      have : (k == a) = false := beq_false_of_ne h
      simp [List.lookup, ih, this]
    · by_cases hk : k = a
      · simp [hp, List.lookup, hk]
      · simp [hp, List.lookup, ih, beq_false_of_ne hk]

theorem lookup_filter_same (f : Frame α) (n : Name) :
    List.lookup n (f.filter (fun p => p.1 != n)) = none := by
  induction f with
  | nil => rfl
  | cons p f ih =>
    obtain ⟨a, b⟩ := p
    by_cases hp : a = n
    · simp [hp, ih]
    · have : (n == a) = false := beq_false_of_ne (Ne.symm hp)
      simp [hp, List.lookup, this, ih]

theorem frame_set_same (f : Frame α) (n : Name) (e : Entry α) : (f.set n e).lookup n = some e := by
  simp [Frame.set]

theorem frame_set_other (f : Frame α) (n k : Name) (e : Entry α) (h : k ≠ n) :
    (f.set n e).lookup k = f.lookup k := by
  simp [Frame.set, List.lookup, beq_false_of_ne h, lookup_filter_ne f n k h]

theorem lookup_setExisting_same (c c' : Ctx α) (n : Name) (e : Entry α)
    (h : setExisting c n e = some c') : lookupCtx c' n = some e := by
  induction c generalizing c' with
  | nil => simp [setExisting] at h
  | cons f fs ih =>
    unfold setExisting at h
    by_cases hf : f.has n = true
    · rw [if_pos hf] at h
      injection h with h; subst h
      simp [lookupCtx, frame_set_same]
    · rw [if_neg hf] at h
      cases hs : setExisting fs n e with
      | none => simp [hs] at h
      | some c'' =>
        simp only [hs, Option.map_some, Option.some.injEq] at h
        subst h
        have hnone : f.lookup n = none := by
          simp only [Frame.has, Bool.not_eq_true, Option.isSome_eq_false_iff, Option.isNone_iff_eq_none] at hf
          exact hf
        simp [lookupCtx, hnone, ih c'' hs]

theorem lookup_setExisting_other (c c' : Ctx α) (n k : Name) (e : Entry α) (hk : k ≠ n)
    (h : setExisting c n e = some c') : lookupCtx c' k = lookupCtx c k := by
  induction c generalizing c' with
  | nil => simp [setExisting] at h
  | cons f fs ih =>
    unfold setExisting at h
    by_cases hf : f.has n = true
    · rw [if_pos hf] at h
      injection h with h; subst h
      simp [lookupCtx, frame_set_other f n k e hk]
    · rw [if_neg hf] at h
      cases hs : setExisting fs n e with
      | none => simp [hs] at h
      | some c'' =>
        simp only [hs, Option.map_some, Option.some.injEq] at h
        subst h
        simp [lookupCtx, ih c'' hs]

theorem lookup_setEntry_same (c : Ctx α) (n : Name) (e : Entry α) :
    lookupCtx (setEntry c n e) n = some e := by
  unfold setEntry
  split
  · rename_i c' h
    split at h
    · simp at h
    · exact lookup_setExisting_same c c' n e h
  · cases c with
    | nil => simp [lookupCtx, List.lookup]
    | cons f fs => simp [lookupCtx, frame_set_same]

theorem lookup_setEntry_other (c : Ctx α) (n k : Name) (e : Entry α) (hk : k ≠ n) :
    lookupCtx (setEntry c n e) k = lookupCtx c k := by
  unfold setEntry
  split
  · rename_i c' h
    split at h
    · simp at h
    · exact lookup_setExisting_other c c' n k e hk h
  · cases c with
    | nil => simp [lookupCtx, List.lookup, beq_false_of_ne hk]
    | cons f fs => simp [lookupCtx, frame_set_other f n k e hk]

theorem lookup_delItem_other (c c' : Ctx α) (n k : Name) (hk : k ≠ n)
    (h : delItem c n = some c') : lookupCtx c' k = lookupCtx c k := by
  induction c generalizing c' with
  | nil => simp [delItem] at h
  | cons f fs ih =>
    unfold delItem at h
    by_cases hf : f.has n = true
    · rw [if_pos hf] at h
      injection h with h; subst h
      simp [lookupCtx, lookup_filter_ne f n k hk]
    · rw [if_neg hf] at h
      cases hs : delItem fs n with
      | none => simp [hs] at h
      | some c'' =>
        simp only [hs, Option.map_some, Option.some.injEq] at h
        subst h
        simp [lookupCtx, ih c'' hs]

theorem lookup_step_other (c : Ctx α) (op : Op α) (k : Name) (hk : k ≠ op.name) :
    lookupCtx (step c op) k = lookupCtx c k := by
  cases op with
  | set n v => exact lookup_setEntry_other c n k _ hk
  | defk n ar b => exact lookup_setEntry_other c n k _ hk
  | defp n base slots => exact lookup_setEntry_other c n k _ hk
  | del n =>
    simp only [step]
    cases hd : delItem c n with
    | none => simp
    | some c' => simpa using lookup_delItem_other c c' n k hk hd

theorem lookup_runOps_other (c : Ctx α) (ops : List (Op α)) (k : Name)
    (h : ∀ op ∈ ops, op.name ≠ k) : lookupCtx (runOps c ops) k = lookupCtx c k := by
  induction ops generalizing c with
  | nil => rfl
  | cons op ops ih =>
    simp only [runOps, List.foldl_cons]
    have h1 : k ≠ op.name := fun hh => h op (by simp) hh.symm
    have := ih (step c op) (fun o ho => h o (by simp [ho]))
    simp only [runOps] at this
    rw [this, lookup_step_other c op k h1]

theorem getItem_sym (c : Ctx α) (n : Name) (wr : Wrapper α) (h : getItem c n = .wrapper wr) :
    wr.sym = some n := by
  unfold getItem at h
  split at h <;> first | (injection h with h; subst h; rfl) | simp at h

theorem getItem_fn (c : Ctx α) (n : Name) (wr : Wrapper α) (h : getItem c n = .wrapper wr) :
    lookupCtx c n = some wr.fn := by
  unfold getItem at h
  split at h
  · simp at h
  · simp at h
  · rename_i e _ he; injection h with h; subst h; exact he

/-! ------------------------------------------------------------------------------------
    ## property theorems
    ------------------------------------------------------------------------------------ -/

/-- **Full statement, repaired code.**  For EVERY signature whose parameters are distinct
    names among x, y, z in any order, optionally preceded by `klong` (all 32 of them), every
    context stack (whatever x, y, z mean in enclosing frames and globally) and every argument
    tuple of the signature's length: the callable is invoked exactly once (the log grows by
    exactly one entry), with exactly the evaluated arguments in positional order, is handed the
    interpreter iff it asked for it, and its return value is the value of the application. -/
theorem callable_gets_args_in_order (w : World α) (c : Ctx α) (id : Nat) (sig : Sig)
    (args : List α) (log : Log α) (hs : validSig sig = true) (hl : args.length = nParams sig) :
    applyPy w c id sig args log
      = (.val (w.ret id log.length args), log ++ [⟨id, providesKlong sig, args⟩]) := by
  have ⟨h1, h2⟩ := lambdaArgs_valid sig hs
  exact applyPyWith_prefix lambdaArgs w c id sig args log (by rw [h1, hl]) (by omega)

example : applyPy (α := Nat) ⟨fun _ _ as => as.sum⟩ [bindArgs [7, 8, 9], [("y", .data 100)]] 4
    [.klong, .z, .x] [10, 20] [] = (.val 30, [⟨4, true, [10, 20]⟩]) := by decide

/-- the same statement for the pinned tree (arguments derived by NAME) holds only when the
    names present are a prefix of x, y, z: signatures x / x y / x y z in any order -/
theorem callable_gets_args_in_order_partial (w : World α) (c : Ctx α) (id : Nat) (sig : Sig)
    (args : List α) (log : Log α) (hp : lambdaArgsByName sig = reserved.take args.length)
    (h3 : args.length ≤ 3) :
    applyPyByName w c id sig args log
      = (.val (w.ret id log.length args), log ++ [⟨id, providesKlong sig, args⟩]) :=
  applyPyWith_prefix lambdaArgsByName w c id sig args log hp h3

example : applyPyByName (α := Nat) ⟨fun _ _ as => as.sum⟩ [[]] 4 [.y, .x] [10, 20] []
    = (.val 30, [⟨4, false, [10, 20]⟩]) := by decide

/-- pinned tree, counter-witness 1: `klong['h'] = lambda y: …; h(5)` raises KeyError, nothing is called -/
theorem byName_fails_on_lambda_y :
    applyPyByName (α := Nat) ⟨fun _ _ _ => 0⟩ [[]] 1 [.y] [5] [] = (.err .keyError, []) := by decide

/-- pinned tree, counter-witness 2: inside a Klong dyad `{h(x)}(1;2)` the callable `lambda y`
    receives the ENCLOSING function's y (2) instead of its own argument (1) -/
theorem byName_leaks_enclosing_frame :
    applyPyByName (α := Nat) ⟨fun _ _ as => as.sum⟩ [bindArgs [1, 2], []] 1 [.y] [1] []
      = (.val 2, [⟨1, false, [2]⟩]) := by decide

/-- pinned tree, counter-witness 3: `lambda x, z` called with two arguments -/
theorem byName_fails_on_lambda_x_z :
    applyPyByName (α := Nat) ⟨fun _ _ _ => 0⟩ [[]] 1 [.x, .z] [5, 6] [] = (.err .keyError, []) := by decide

/-- the repaired code on the three witnesses -/
example : applyPy (α := Nat) ⟨fun _ _ as => as.sum⟩ [bindArgs [1, 2], []] 1 [.y] [1] []
    = (.val 1, [⟨1, false, [1]⟩]) := by decide

/-- call form `f@[a b c]` -/
theorem at_gets_args_in_order (w : World α) (c : Ctx α) (id : Nat) (sig : Sig)
    (elems : List α) (log : Log α) (hs : validSig sig = true) (hl : elems.length = nParams sig) :
    atPy w c id sig elems log
      = (.val (w.ret id log.length elems), log ++ [⟨id, providesKlong sig, elems⟩]) :=
  callable_gets_args_in_order w c id sig elems log hs hl

/-- call form projection: `g::f(…)` with some slots fixed, then `g(…)` with the rest: the
    callable is invoked once with the complete argument tuple in positional order -/
theorem projection_gets_args_in_order (w : World α) (c : Ctx α) (id : Nat) (sig : Sig)
    (full : List α) (mask : List Bool) (log : Log α) (hs : validSig sig = true)
    (hl : full.length = nParams sig) (hm : mask.length = full.length) :
    projPy w c id sig (maskSlots full mask) (maskArgs full mask) log
      = (.val (w.ret id log.length full), log ++ [⟨id, providesKlong sig, full⟩]) := by
  unfold projPy projPyWith
  rw [fill_mask full mask hm]
  exact callable_gets_args_in_order w c id sig full log hs hl

example : projPy (α := Nat) ⟨fun _ _ as => as.sum⟩ [[]] 2 [.z, .y, .x]
    (maskSlots [10, 20, 30] [true, false, true]) (maskArgs [10, 20, 30] [true, false, true]) []
    = (.val 60, [⟨2, false, [10, 20, 30]⟩]) := by decide

theorem eachSpec_log (w : World α) (id : Nat) (k : Bool) (es : List α) (log : Log α) :
    (eachSpec w id k es log).2 = log ++ es.map (fun e => ⟨id, k, [e]⟩) := by
  induction es generalizing log with
  | nil => simp [eachSpec]
  | cons e es ih => simp [eachSpec, ih]

/-- call form `f'a`: one invocation per member, in order, each with exactly that member; the
    result lists the return values in order -/
theorem each_calls_once_per_member (w : World α) (c : Ctx α) (id : Nat) (sig : Sig)
    (es : List α) (log : Log α) (hs : validSig sig = true) (h1 : nParams sig = 1) :
    eachPy w c id sig es log
      = (.list (eachSpec w id (providesKlong sig) es log).1,
         log ++ es.map (fun e => ⟨id, providesKlong sig, [e]⟩)) := by
  induction es generalizing log with
  | nil => simp [eachPy, eachPyWith, eachSpec]
  | cons e es ih =>
    have hc := callable_gets_args_in_order w c id sig [e] log hs (by simp [h1])
    simp only [eachPy, applyPy] at ih hc ⊢
    simp only [eachPyWith, hc, ih, eachSpec, List.map_cons, List.append_assoc, List.cons_append,
      List.nil_append]

example : eachPy (α := Nat) ⟨fun _ i as => 100 * i + as.sum⟩ [[]] 3 [.z] [5, 6, 7] []
    = (.list [5, 106, 207], [⟨3, false, [5]⟩, ⟨3, false, [6]⟩, ⟨3, false, [7]⟩]) := by decide

theorem overSpec_length (w : World α) (id : Nat) (k : Bool) (acc : α) (es : List α) (log : Log α) :
    (overSpec w id k acc es log).2.length = log.length + es.length := by
  induction es generalizing acc log with
  | nil => simp [overSpec]
  | cons e es ih => simp [overSpec, ih]; omega

/-- the calls a fold adds: one per further member, each with two arguments, the second being
    that member, in order -/
theorem overSpec_log (w : World α) (id : Nat) (k : Bool) (acc : α) (es : List α) (log : Log α) :
    ∃ ext, (overSpec w id k acc es log).2 = log ++ ext ∧ ext.length = es.length ∧
      ext.map (fun c => c.args.tail) = es.map (fun e => [e]) ∧
      ∀ c ∈ ext, c.id = id ∧ c.klong = k ∧ c.args.length = 2 := by
  induction es generalizing acc log with
  | nil => exact ⟨[], by simp [overSpec]⟩
  | cons e es ih =>
    obtain ⟨ext, h1, h2, h3, h4⟩ := ih (w.ret id log.length [acc, e]) (log ++ [⟨id, k, [acc, e]⟩])
    refine ⟨⟨id, k, [acc, e]⟩ :: ext, ?_, ?_, ?_, ?_⟩
    · simp [overSpec, h1]
    · simp [h2]
    · simp [h3]
    · intro c hc
      rcases List.mem_cons.mp hc with hc | hc
      · subst hc; simp
      · exact h4 c hc

/-- call form `f/a`: a left fold in which every step is exactly one invocation with the
    accumulated value and the next member, in that order; [] and one-member lists call nothing -/
theorem over_folds_single_calls (w : World α) (c : Ctx α) (id : Nat) (sig : Sig)
    (a : α) (es : List α) (log : Log α) (hs : validSig sig = true) (h2 : nParams sig = 2) :
    overPy w c id sig (a :: es) log
      = (.val (overSpec w id (providesKlong sig) a es log).1,
         (overSpec w id (providesKlong sig) a es log).2) := by
  simp only [overPy, overPyWith]
  induction es generalizing a log with
  | nil => simp [overFromWith, overSpec]
  | cons e es ih =>
    have hc := callable_gets_args_in_order w c id sig [a, e] log hs (by simp [h2])
    simp only [applyPy] at hc
    simp only [overFromWith, hc, overSpec, ih]

example : overPy (α := Nat) ⟨fun _ _ as => as.sum⟩ [[]] 3 [.y, .z] [1, 2, 3, 4] []
    = (.val 10, [⟨3, false, [1, 2]⟩, ⟨3, false, [3, 3]⟩, ⟨3, false, [6, 4]⟩]) := by decide

/-! ### the other adverbs: one application per member / pair / step, in order, repeats included -/

theorem seqSpec_log (w : World α) (id : Nat) (k : Bool) (ts : List (List α)) (log : Log α) :
    (seqSpec w id k ts log).2 = log ++ ts.map (fun t => ⟨id, k, t⟩) := by
  induction ts generalizing log with
  | nil => simp [seqSpec]
  | cons t ts ih => simp [seqSpec, ih]

theorem seqSpec_length (w : World α) (id : Nat) (k : Bool) (ts : List (List α)) (log : Log α) :
    (seqSpec w id k ts log).1.length = ts.length := by
  induction ts generalizing log with
  | nil => simp [seqSpec]
  | cons t ts ih => simp [seqSpec, ih]

/-- a sequence of applications (what Each, Each-2, Each-Left, Each-Right and Each-Pair do with
    a callable): for EVERY list of argument tuples — equal tuples included, as the members of
    "hello" or [7 7 7] produce — exactly one invocation per tuple, in order, with exactly that
    tuple; the i-th result is the i-th invocation's own return value -/
theorem seq_calls_once_per_tuple (w : World α) (c : Ctx α) (id : Nat) (sig : Sig)
    (ts : List (List α)) (log : Log α) (hs : validSig sig = true)
    (hl : ∀ t ∈ ts, t.length = nParams sig) :
    seqPy w c id sig ts log
      = (.list (seqSpec w id (providesKlong sig) ts log).1,
         log ++ ts.map (fun t => ⟨id, providesKlong sig, t⟩)) := by
  induction ts generalizing log with
  | nil => simp [seqPy, seqPyWith, seqSpec]
  | cons t ts ih =>
    have hc := callable_gets_args_in_order w c id sig t log hs (hl t (by simp))
    have ih' := ih (log ++ [⟨id, providesKlong sig, t⟩]) (fun u hu => hl u (by simp [hu]))
    simp only [seqPy, applyPy] at ih' hc ⊢
    simp only [seqPyWith, hc, ih', seqSpec, List.map_cons, List.append_assoc, List.cons_append,
      List.nil_append]

/-- repeats are not shared: f'"ll" makes two invocations and the second result is the second
    invocation's return value -/
example : seqPy (α := Nat) ⟨fun _ i _ => 100 + i⟩ [[]] 3 [.klong, .y] [[7], [7], [7]] []
    = (.list [100, 101, 102], [⟨3, true, [7]⟩, ⟨3, true, [7]⟩, ⟨3, true, [7]⟩]) := by decide

theorem pairsOf_length2 (es : List α) : ∀ t ∈ pairsOf es, t.length = 2 := by
  induction es with
  | nil => simp [pairsOf]
  | cons a rest ih =>
    cases rest with
    | nil => simp [pairsOf]
    | cons b rest' =>
      intro t ht
      simp only [pairsOf, List.mem_cons] at ht
      rcases ht with ht | ht
      · subst ht; rfl
      · exact ih t ht

/-- Each-Pair `f:'a` (two or more members): one invocation per adjacent pair, in order -/
theorem each_pair_calls_once_per_pair (w : World α) (c : Ctx α) (id : Nat) (sig : Sig)
    (a b : α) (rest : List α) (log : Log α) (hs : validSig sig = true) (h2 : nParams sig = 2) :
    eachPairPyWith lambdaArgs w c id sig (a :: b :: rest) log
      = (.list (seqSpec w id (providesKlong sig) (pairsOf (a :: b :: rest)) log).1,
         log ++ (pairsOf (a :: b :: rest)).map (fun t => ⟨id, providesKlong sig, t⟩)) := by
  simp only [eachPairPyWith]
  exact seq_calls_once_per_tuple w c id sig _ log hs (fun t ht => by rw [h2]; exact pairsOf_length2 _ t ht)

/-- Each-Left `a f:\b`: f(a;b1), …, f(a;bN) — one invocation per member of b, in order -/
theorem each_left_calls_once_per_member (w : World α) (c : Ctx α) (id : Nat) (sig : Sig)
    (a : α) (bs : List α) (log : Log α) (hs : validSig sig = true) (h2 : nParams sig = 2) :
    eachLeftPyWith lambdaArgs w c id sig a bs log
      = (.list (seqSpec w id (providesKlong sig) (bs.map fun b => [a, b]) log).1,
         log ++ bs.map (fun b => ⟨id, providesKlong sig, [a, b]⟩)) := by
  have := seq_calls_once_per_tuple w c id sig (bs.map fun b => [a, b]) log hs
    (fun t ht => by
      obtain ⟨b, _, rfl⟩ := List.mem_map.mp ht
      simp [h2])
  simpa [eachLeftPyWith, seqPy, List.map_map, Function.comp_def] using this

/-- Each-Right `a f:/b`: f(b1;a), …, f(bN;a) -/
theorem each_right_calls_once_per_member (w : World α) (c : Ctx α) (id : Nat) (sig : Sig)
    (a : α) (bs : List α) (log : Log α) (hs : validSig sig = true) (h2 : nParams sig = 2) :
    eachRightPyWith lambdaArgs w c id sig a bs log
      = (.list (seqSpec w id (providesKlong sig) (bs.map fun b => [b, a]) log).1,
         log ++ bs.map (fun b => ⟨id, providesKlong sig, [b, a]⟩)) := by
  have := seq_calls_once_per_tuple w c id sig (bs.map fun b => [b, a]) log hs
    (fun t ht => by
      obtain ⟨b, _, rfl⟩ := List.mem_map.mp ht
      simp [h2])
  simpa [eachRightPyWith, seqPy, List.map_map, Function.comp_def] using this

/-- Each-2 `a f'b`: f(a1;b1), …, one invocation per position -/
theorem each2_calls_once_per_position (w : World α) (c : Ctx α) (id : Nat) (sig : Sig)
    (as bs : List α) (log : Log α) (hs : validSig sig = true) (h2 : nParams sig = 2) :
    each2PyWith lambdaArgs w c id sig as bs log
      = (.list (seqSpec w id (providesKlong sig) (List.zipWith (fun a b => [a, b]) as bs) log).1,
         log ++ (List.zipWith (fun a b => [a, b]) as bs).map (fun t => ⟨id, providesKlong sig, t⟩)) := by
  refine seq_calls_once_per_tuple w c id sig _ log hs (fun t ht => ?_)
  obtain ⟨i, hi, rfl⟩ := List.mem_iff_getElem.mp ht
  simp [h2]

theorem scanSpec_log (w : World α) (id : Nat) (k : Bool) (acc : α) (es : List α) (log : Log α) :
    (scanSpec w id k acc es log).2 = (overSpec w id k acc es log).2 ∧
    (scanSpec w id k acc es log).1.length = es.length ∧
    ((scanSpec w id k acc es log).1.getLast?).getD acc = (overSpec w id k acc es log).1 := by
  induction es generalizing acc log with
  | nil => simp [scanSpec, overSpec]
  | cons e es ih =>
    obtain ⟨h1, h2, h3⟩ := ih (w.ret id log.length [acc, e]) (log ++ [⟨id, k, [acc, e]⟩])
    refine ⟨by simp [scanSpec, overSpec, h1], by simp [scanSpec, h2], ?_⟩
    simp only [scanSpec, overSpec]
    rw [← h3]
    cases hq : (scanSpec w id k (w.ret id log.length [acc, e]) es (log ++ [⟨id, k, [acc, e]⟩])).1 with
    | nil => simp
    | cons q qs =>
      cases hl : (q :: qs).getLast? with
      | none => simp at hl
      | some v => simp [hl]

/-- Scan `f\a`: the same invocations as Over (one per further member, accumulated value first),
    every intermediate value kept; the last one is the value of `f/a` -/
theorem scan_folds_single_calls (w : World α) (c : Ctx α) (id : Nat) (sig : Sig)
    (a : α) (es : List α) (log : Log α) (hs : validSig sig = true) (h2 : nParams sig = 2) :
    scanPy w c id sig (a :: es) log
      = (.list (a :: (scanSpec w id (providesKlong sig) a es log).1),
         (overSpec w id (providesKlong sig) a es log).2) := by
  have key : ∀ (acc : α) (es : List α) (log : Log α),
      scanFromWith lambdaArgs w c id sig acc es log
        = (.list (scanSpec w id (providesKlong sig) acc es log).1,
           (scanSpec w id (providesKlong sig) acc es log).2) := by
    intro acc es
    induction es generalizing acc with
    | nil => intro log; simp [scanFromWith, scanSpec]
    | cons e es ih =>
      intro log
      have hc := callable_gets_args_in_order w c id sig [acc, e] log hs (by simp [h2])
      simp only [applyPy] at hc
      simp only [scanFromWith, hc, ih, scanSpec]
  simp only [scanPy, scanPyWith, key, (scanSpec_log w id (providesKlong sig) a es log).1]

example : scanPy (α := Nat) ⟨fun _ _ as => as.sum⟩ [[]] 3 [.y, .z] [1, 1, 1] []
    = (.list [1, 2, 3], [⟨3, false, [1, 1]⟩, ⟨3, false, [2, 1]⟩]) := by decide

/-- Over-Neutral `a f/b` is the fold started from `a` -/
theorem over_neutral_folds_single_calls (w : World α) (c : Ctx α) (id : Nat) (sig : Sig)
    (a : α) (bs : List α) (log : Log α) (hs : validSig sig = true) (h2 : nParams sig = 2) :
    overNeutralPyWith lambdaArgs w c id sig a bs log
      = (.val (overSpec w id (providesKlong sig) a bs log).1,
         (overSpec w id (providesKlong sig) a bs log).2) := by
  have := over_folds_single_calls w c id sig a bs log hs h2
  simpa [overNeutralPyWith, overPy, overPyWith] using this

/-! ### the store -/

/-- `klong[n] = v` for a data value: `klong[n]` reads the same value back, programs see it as
    `n`, and this stays so through every later history of assignments, definitions and deletions
    that does not touch `n` (whatever else it does) -/
theorem store_roundtrip (c : Ctx α) (n : Name) (v : α) (ops : List (Op α))
    (h : ∀ op ∈ ops, op.name ≠ n) :
    getItem (runOps (setItem c n (.data v)) ops) n = .data v ∧
    lookupCtx (runOps (setItem c n (.data v)) ops) n = some (.data v) := by
  have hl : lookupCtx (runOps (setItem c n (.data v)) ops) n = some (.data v) := by
    rw [lookup_runOps_other _ ops n h]
    exact lookup_setEntry_same c n _
  exact ⟨by simp [getItem, hl], hl⟩

example : getItem (runOps (setItem [[("a", Entry.data 1)], [("b", .kfn 1 0)]] "b" (.data (7 : Nat)))
    [.set "a" (.callable 3 [.x]), .del "a", .defk "f" 2 5]) "b" = .data 7 := by decide

/-- assignments to a name do not disturb any other name -/
theorem store_set_other (c : Ctx α) (n k : Name) (v : PyVal α) (hk : k ≠ n) :
    lookupCtx (setItem c n v) k = lookupCtx c k :=
  lookup_setEntry_other c n k _ hk

/-- the latest assignment wins, whatever was bound before (data, a Python callable, a Klong
    function) — in particular a callable assigned over an existing name is wrapped like any other -/
theorem store_last_write_wins (c : Ctx α) (n : Name) (v : PyVal α) :
    lookupCtx (setItem c n v) n = some (wrap v) :=
  lookup_setEntry_same c n _

example : lookupCtx (setItem [[("f", Entry.data (1 : Nat))]] "f" (.callable 3 [.y])) "f"
    = some (.pyfn 3 [.y]) := by decide

/-- after `del klong[n]` in the global frame the name is gone -/
theorem store_del_global (f : Frame α) (n : Name) (c' : Ctx α) (h : delItem [f] n = some c') :
    lookupCtx c' n = none := by
  unfold delItem at h
  split at h
  · injection h with h; subst h
    simp [lookupCtx, lookup_filter_same]
  · simp [delItem] at h

example : (delItem [[("a", Entry.data (1 : Nat)), ("b", .data 2)]] "a").map (fun c => lookupCtx c "a")
    = some none := by decide

/-- a stored callable reads back as a callable that behaves identically: `klong[n] = f`, later
    `g = klong[n]`; calling `g(*args)` — as long as `n` has not become a Klong function —
    invokes `f` exactly once with exactly `args` and returns its return value -/
theorem stored_callable_roundtrip (w : World α) (c : Ctx α) (n : Name) (id : Nat) (sig : Sig)
    (ops : List (Op α)) (h : ∀ op ∈ ops, op.name ≠ n)
    (args : List α) (log : Log α) (hs : validSig sig = true) (hl : args.length = nParams sig) :
    ∃ wr, getItem (setItem c n (.callable id sig)) n = .wrapper wr ∧
      wrapperCall w (runOps (setItem c n (.callable id sig)) ops) wr args log
        = (.val (w.ret id log.length args), log ++ [⟨id, providesKlong sig, args⟩]) := by
  have hl0 : lookupCtx (setItem c n (.callable id sig)) n = some (.pyfn id sig) :=
    lookup_setEntry_same c n _
  have hl1 : lookupCtx (runOps (setItem c n (.callable id sig)) ops) n = some (.pyfn id sig) := by
    rw [lookup_runOps_other _ ops n h]; exact hl0
  refine ⟨⟨some n, .pyfn id sig⟩, by simp [getItem, hl0], ?_⟩
  have ha := arity_valid sig hs
  simp only [wrapperCall, wrapperTarget, hl1, entryArity, ha, hl, ne_eq, not_true_eq_false,
    if_false, applyEntry, applyBase]
  exact callable_gets_args_in_order w _ id sig args log hs hl

/-! ### the Python-side wrapper of a Klong function -/

/-- `klong[n](*args)` returns what the Klong call `n(a;b;c)` returns — in every state, for a
    wrapper obtained at any earlier time (whatever it captured then), whenever `n` is currently a
    Klong function (a lambda or a projection) taking `args.length` arguments -/
theorem wrapper_eq_klong_call (w : World α) (c : Ctx α) (wr : Wrapper α) (n : Name) (e : Entry α)
    (args : List α) (log : Log α) (hs : wr.sym = some n) (he : lookupCtx c n = some e)
    (hk : (∃ ar b, e = .kfn ar b) ∨ (∃ base slots, e = .proj base slots))
    (ha : args.length = entryArity e) :
    wrapperCall w c wr args log = klongCall w c n args log := by
  rcases hk with ⟨ar, b, rfl⟩ | ⟨base, slots, rfl⟩
  · simp [wrapperCall, wrapperTarget, hs, he, klongCall, ha]
  · simp [wrapperCall, wrapperTarget, hs, he, klongCall, ha]

/-- the wrapper follows later redefinitions: obtained in state `c0` (bound to anything then),
    after ANY history that leaves `n` bound to a Klong function of arity `ar` and body `b`, a
    call with `ar` arguments runs body `b` on exactly those arguments -/
theorem wrapper_follows_redefinition (w : World α) (c0 : Ctx α) (n : Name) (wr : Wrapper α)
    (ops : List (Op α)) (ar b : Nat) (args : List α) (log : Log α)
    (hg : getItem c0 n = .wrapper wr)
    (hnow : lookupCtx (runOps c0 ops) n = some (.kfn ar b)) (ha : args.length = ar) :
    wrapperCall w (runOps c0 ops) wr args log = (.kres b args, log) := by
  have hs := getItem_sym c0 n wr hg
  subst ha
  simp [wrapperCall, wrapperTarget, hs, hnow, entryArity, applyEntry, applyBase]

example : wrapperCall (α := Nat) ⟨fun _ _ _ => 0⟩
    (runOps [[("f", .kfn 1 10)]] [.defk "f" 2 11, .del "f", .defk "f" 2 12])
    ⟨some "f", .kfn 1 10⟩ [5, 6] [] = (.kres 12 [5, 6], []) := by decide

/-- a wrong number of arguments is rejected against the CURRENT definition, and nothing runs -/
theorem wrapper_rejects_wrong_arity (w : World α) (c : Ctx α) (wr : Wrapper α) (n : Name)
    (ar b : Nat) (args : List α) (log : Log α) (hs : wr.sym = some n)
    (hnow : lookupCtx c n = some (.kfn ar b)) (ha : args.length ≠ ar) :
    wrapperCall w c wr args log = (.err .arityError, log) := by
  simp [wrapperCall, wrapperTarget, hs, hnow, entryArity, ha]

example : wrapperCall (α := Nat) ⟨fun _ _ _ => 0⟩ (runOps [[("f", .kfn 1 10)]] [.defk "f" 2 11])
    ⟨some "f", .kfn 1 10⟩ [5] [] = (.err .arityError, []) := by decide

/-- in general: the arity enforced is that of the function the wrapper resolves to -/
theorem wrapper_rejects_wrong_arity_general (w : World α) (c : Ctx α) (wr : Wrapper α)
    (args : List α) (log : Log α) (ha : args.length ≠ entryArity (wrapperTarget c wr)) :
    wrapperCall w c wr args log = (.err .arityError, log) := by
  simp [wrapperCall, ha]

/-- the wrapper survives deletion: once `n` is unbound it runs the function it captured when it
    was obtained, with the captured arity -/
theorem wrapper_survives_deletion (w : World α) (c0 : Ctx α) (n : Name) (wr : Wrapper α)
    (ops : List (Op α)) (args : List α) (log : Log α)
    (hg : getItem c0 n = .wrapper wr) (hdel : lookupCtx (runOps c0 ops) n = none) :
    lookupCtx c0 n = some wr.fn ∧
    wrapperCall w (runOps c0 ops) wr args log =
      if args.length ≠ entryArity wr.fn then (.err .arityError, log)
      else applyEntry w (runOps c0 ops) wr.fn args log := by
  have hs := getItem_sym c0 n wr hg
  exact ⟨getItem_fn c0 n wr hg, by simp [wrapperCall, wrapperTarget, hs, hdel]⟩

example : wrapperCall (α := Nat) ⟨fun _ _ _ => 0⟩ (runOps [[("f", .kfn 2 10)]] [.del "f"])
    ⟨some "f", .kfn 2 10⟩ [5, 6] [] = (.kres 10 [5, 6], []) := by decide

/-- a projection bound to a name is called through the wrapper with its open slots only -/
example : wrapperCall (α := Nat) ⟨fun _ _ _ => 0⟩ [[("g", .proj "f" [some 1, none, some 3]), ("f", .kfn 3 10)]]
    ⟨some "g", .proj "f" [some 1, none, some 3]⟩ [2] [] = (.kres 10 [1, 2, 3], []) := by decide

end Klong.C09
