/-
  C18 — property theorems for the concurrent FileCache machine `Klong.C18` (Model/C18.lean).

  Layout: association-list / field lemmas; `Trans`, the step function inverted into a
  transition relation; `StructInv` + `lock_inv` (every schedule); `Good` (the invariant of
  hazard-free schedules) with one preservation lemma per kind of step; the property theorems
  `writers_serialised`, `lin_partial`; the full-strength statement `lin_full` with the
  counterexample schedules (`decide`) and `not_lin_full`; non-vacuity examples.
-/
import Klong.Model.C18
namespace Klong.C18
open Klong.Wire
set_option linter.unusedSimpArgs false

/-! ## association-list lemmas -/

theorem dget_dset_same (d : Disk) (n : Name) (b : Bytes) : dget (dset d n b) n = some b := by
  simp [dget, dset, List.lookup]

theorem lookup_filter_ne (d : Disk) (n k : Name) (h : k ≠ n) :
    List.lookup k (d.filter (fun p => p.1 != n)) = List.lookup k d := by
  induction d with
  | nil => rfl
  | cons p d ih =>
    obtain ⟨a, b⟩ := p
    by_cases hp : a = n
    · subst hp
      simp [List.lookup, ih, beq_false_of_ne h]
    · by_cases hk : k = a
      · simp [List.filter_cons, hp, List.lookup, hk]
      · simp [List.filter_cons, hp, List.lookup, ih, beq_false_of_ne hk]

theorem dget_dset_other (d : Disk) (n k : Name) (b : Bytes) (h : k ≠ n) :
    dget (dset d n b) k = dget d k := by
  simp [dget, dset, List.lookup, beq_false_of_ne h, lookup_filter_ne d n k h]

theorem dget_dset (d : Disk) (n k : Name) (b : Bytes) :
    dget (dset d n b) k = if k = n then some b else dget d k := by
  by_cases h : k = n
  · subst h; simp [dget_dset_same]
  · simp [h, dget_dset_other _ _ _ _ h]

theorem findE_name {es : List Entry} {n : Name} {e : Entry} (h : findE es n = some e) : e.name = n := by
  have := List.find?_some h
  simpa using this

theorem findE_mem {es : List Entry} {n : Name} {e : Entry} (h : findE es n = some e) : e ∈ es :=
  List.mem_of_find?_eq_some h

theorem findE_delE (es : List Entry) (x n : Name) :
    findE (delE es x) n = if n = x then none else findE es n := by
  simp only [findE, delE, List.find?_filter]
  by_cases hn : n = x
  · subst hn
    simp
  · simp only [hn, if_false]
    congr 1
    funext a
    by_cases han : a.name = n
    · have : ¬ a.name = x := by rw [han]; exact hn
      simp [han, this, hn]
    · simp [han]

theorem findE_setE (es : List Entry) (e : Entry) (n : Name) :
    findE (setE es e) n = if n = e.name then some e else findE es n := by
  by_cases h : n = e.name
  · subst h; simp [setE, findE, List.find?_cons]
  · have h' : ¬ e.name = n := fun hh => h hh.symm
    have := findE_delE es e.name n
    simp only [findE] at this
    simp [setE, findE, List.find?_cons, h, h', this]

theorem findE_none_not_mem {es : List Entry} {n : Name} (h : findE es n = none) :
    n ∉ es.map (·.name) := by
  simp [findE] at h ⊢
  intro e he hn; exact h e he hn

theorem names_delE_sub (es : List Entry) (x : Name) :
    ((delE es x).map (·.name)).Sublist (es.map (·.name)) :=
  List.Sublist.map _ List.filter_sublist

theorem nodup_delE {es : List Entry} (x : Name) (h : (es.map (·.name)).Nodup) :
    ((delE es x).map (·.name)).Nodup :=
  List.Sublist.nodup (names_delE_sub es x) h

theorem nodup_setE {es : List Entry} (e : Entry) (h : (es.map (·.name)).Nodup) :
    ((setE es e).map (·.name)).Nodup := by
  simp only [setE, List.map_cons, List.nodup_cons]
  refine ⟨?_, nodup_delE _ h⟩
  simp [delE]

theorem nodup_filter_ne {l : List Name} (x : Name) (h : l.Nodup) : (l.filter (· != x)).Nodup :=
  List.Sublist.nodup List.filter_sublist h

theorem nodup_touch {l : List Name} (x : Name) (h : l.Nodup) : (l.filter (· != x) ++ [x]).Nodup := by
  rw [List.nodup_append]
  refine ⟨nodup_filter_ne x h, by simp, ?_⟩
  intro a ha b hb
  simp at ha hb
  subst hb; exact ha.2

/-! ## field lemmas for the protected-state helpers -/

theorem delE_of_none {es : List Entry} {n : Name} (h : findE es n = none) : delE es n = es := by
  simp only [delE, List.filter_eq_self]
  intro e he
  simp [findE] at h
  have := h e he
  simp [this]

@[simp] theorem unloadE_tasks (s : St) (n : Name) : (unloadE s n).tasks = s.tasks := by
  unfold unloadE; split <;> rfl
@[simp] theorem unloadE_disk (s : St) (n : Name) : (unloadE s n).disk = s.disk := by
  unfold unloadE; split <;> rfl
@[simp] theorem unloadE_reg (s : St) (n : Name) : (unloadE s n).reg = s.reg := by
  unfold unloadE; split <;> rfl
@[simp] theorem unloadE_max (s : St) (n : Name) : (unloadE s n).max = s.max := by
  unfold unloadE; split <;> rfl
@[simp] theorem unloadE_clients (s : St) (n : Name) : (unloadE s n).clients = s.clients := by
  unfold unloadE; split <;> rfl
@[simp] theorem unloadE_acc (s : St) (n : Name) : (unloadE s n).acc = s.acc := by
  unfold unloadE; split <;> rfl
@[simp] theorem unloadE_entries (s : St) (n : Name) : (unloadE s n).entries = delE s.entries n := by
  unfold unloadE; split
  · rfl
  · rename_i h; exact (delE_of_none h).symm

def sizeOf? (es : List Entry) (n : Name) : Int :=
  match findE es n with
  | some e => e.size
  | none => 0

theorem unloadE_mem (s : St) (n : Name) : (unloadE s n).mem = s.mem - sizeOf? s.entries n := by
  unfold unloadE sizeOf?; split <;> simp_all

@[simp] theorem evict_tasks (s : St) (ev : List Name) : (evict s ev).tasks = s.tasks := by
  induction ev generalizing s with
  | nil => rfl
  | cons x xs ih => simp [evict, ih]
@[simp] theorem evict_disk (s : St) (ev : List Name) : (evict s ev).disk = s.disk := by
  induction ev generalizing s with
  | nil => rfl
  | cons x xs ih => simp [evict, ih]
@[simp] theorem evict_reg (s : St) (ev : List Name) : (evict s ev).reg = s.reg := by
  induction ev generalizing s with
  | nil => rfl
  | cons x xs ih => simp [evict, ih]
@[simp] theorem evict_max (s : St) (ev : List Name) : (evict s ev).max = s.max := by
  induction ev generalizing s with
  | nil => rfl
  | cons x xs ih => simp [evict, ih]
@[simp] theorem evict_clients (s : St) (ev : List Name) : (evict s ev).clients = s.clients := by
  induction ev generalizing s with
  | nil => rfl
  | cons x xs ih => simp [evict, ih]

theorem findE_evict (s : St) (ev : List Name) (n : Name) :
    findE (evict s ev).entries n = if n ∈ ev then none else findE s.entries n := by
  induction ev generalizing s with
  | nil => simp [evict]
  | cons x xs ih =>
    simp only [evict, ih, unloadE_entries, findE_delE, List.mem_cons]
    by_cases h1 : n ∈ xs <;> by_cases h2 : n = x <;> simp [h1, h2]

theorem mem_evict_acc (s : St) (ev : List Name) (x : Name) :
    x ∈ (evict s ev).acc ↔ x ∈ s.acc ∧ x ∉ ev := by
  induction ev generalizing s with
  | nil => simp [evict]
  | cons y ys ih =>
    simp only [evict, ih, unloadE_acc, List.mem_filter, List.mem_cons]
    constructor
    · rintro ⟨⟨h1, h2⟩, h3⟩
      refine ⟨h1, ?_⟩
      rintro (h | h)
      · subst h; simp at h2
      · exact h3 h
    · rintro ⟨h1, h2⟩
      refine ⟨⟨h1, ?_⟩, fun h => h2 (Or.inr h)⟩
      simp; intro h; exact h2 (Or.inl h)

theorem evict_acc_sublist (s : St) (ev : List Name) : (evict s ev).acc.Sublist s.acc := by
  induction ev generalizing s with
  | nil => simp [evict]
  | cons y ys ih =>
    simp only [evict]
    refine List.Sublist.trans (ih _) ?_
    simp

theorem evict_names_sublist (s : St) (ev : List Name) :
    ((evict s ev).entries.map (·.name)).Sublist (s.entries.map (·.name)) := by
  induction ev generalizing s with
  | nil => simp [evict]
  | cons y ys ih =>
    simp only [evict]
    refine List.Sublist.trans (ih _) ?_
    simp only [unloadE_entries]
    exact names_delE_sub _ _

theorem getElem?_lt {α} {l : List α} {i : Nat} {a : α} (h : l[i]? = some a) : i < l.length := by
  rcases List.getElem?_eq_some_iff.mp h with ⟨h, _⟩; exact h

/-! ## the step function as a transition relation (inversion of `step`)

`sf = true` adds the hypothesis of the partial theorems (`safe`) to the two lock blocks it
constrains. -/

inductive Trans (sf : Bool) (s : St) : St → Prop
  | existsNF {i c n rest} : s.clients[i]? = some c → c.ops = .get n :: rest → c.pc = .start →
      dget s.disk n = none → Trans sf s (finishOp s i c ⟨.notFound, none⟩)
  | existsOk {i c n rest b} : s.clients[i]? = some c → c.ops = .get n :: rest → c.pc = .start →
      dget s.disk n = some b → Trans sf s (setPc s i c .gsize)
  | gsizeNF {i c n rest} : s.clients[i]? = some c → c.ops = .get n :: rest → c.pc = .gsize →
      dget s.disk n = none → Trans sf s (finishOp s i c ⟨.notFound, none⟩)
  | gsizeMem {i c n rest b} : s.clients[i]? = some c → c.ops = .get n :: rest → c.pc = .gsize →
      dget s.disk n = some b → b.length > s.max → Trans sf s (finishOp s i c ⟨.memErr, none⟩)
  | gsizeOk {i c n rest b} : s.clients[i]? = some c → c.ops = .get n :: rest → c.pc = .gsize →
      dget s.disk n = some b → ¬ b.length > s.max → Trans sf s (setPc s i c (.glock b.length))
  | glockMiss {i c n rest claim} : s.clients[i]? = some c → c.ops = .get n :: rest →
      c.pc = .glock claim → findE s.entries n = none →
      Trans sf s (setPc { s with entries := setE s.entries ⟨n, false, claim, s.tasks.length, false⟩
                               , tasks := s.tasks ++ [⟨n, none, .read⟩] } i c
                    (.wait s.tasks.length none (dget s.reg n)))
  | glockHit {i c n rest claim e} : s.clients[i]? = some c → c.ops = .get n :: rest →
      c.pc = .glock claim → findE s.entries n = some e →
      Trans sf s (setPc { s with acc := if (taskRes s e.fut).isSome then s.acc.filter (· != n) ++ [n] else s.acc }
                    i c (.wait e.fut none (dget s.reg n)))
  | getWait {i c n rest f a exp r} : s.clients[i]? = some c → c.ops = .get n :: rest →
      c.pc = .wait f a exp → taskRes s f = some r → Trans sf s (finishOp s i c ⟨resOfT r, exp⟩)
  | updMem {i c n d fs rest} : s.clients[i]? = some c → c.ops = .update n d fs :: rest → c.pc = .start →
      d.length > s.max → Trans sf s (finishOp s i c ⟨.memErr, none⟩)
  | updBusy {i c n d fs rest e} : s.clients[i]? = some c → c.ops = .update n d fs :: rest → c.pc = .start →
      ¬ d.length > s.max → findE s.entries n = some e → e.writing = true →
      Trans sf s (setPc s i c (.wait e.fut (some false) none))
  | updApply {i c n d fs rest} : s.clients[i]? = some c → c.ops = .update n d fs :: rest → c.pc = .start →
      ¬ d.length > s.max → (∀ e, findE s.entries n = some e → e.writing = false) →
      (sf = true → inflight s n true = false) →
      Trans sf s (setPc { unloadE s n with
                            entries := setE (unloadE s n).entries ⟨n, true, d.length, s.tasks.length, false⟩
                          , tasks := s.tasks ++ [⟨n, some (d, fs), .trunc⟩]
                          , reg := dset s.reg n d } i c (.wait s.tasks.length (some true) none))
  | updWaitOk {i c n d fs rest f a x v} : s.clients[i]? = some c → c.ops = .update n d fs :: rest →
      c.pc = .wait f a x → taskRes s f = some (.ok v) →
      Trans sf s (finishOp s i c ⟨.applied (a.getD false), none⟩)
  | updWaitErr {i c n d fs rest f a x e} : s.clients[i]? = some c → c.ops = .update n d fs :: rest →
      c.pc = .wait f a x → taskRes s f = some (.err e) →
      Trans sf s (finishOp s i c ⟨resOfT (.err e), none⟩)
  | unload {i c n rest} : s.clients[i]? = some c → c.ops = .unload n :: rest → c.pc = .start →
      (sf = true → inflight s n false = false) →
      Trans sf s (finishOp { unloadE s n with acc := s.acc.filter (· != n) } i c ⟨.done, none⟩)
  | tRead {f t b} : s.tasks[f]? = some t → t.pc = .read → dget s.disk t.name = some b →
      Trans sf s (setT s f t (.fin b))
  | tReadNF {f t} : s.tasks[f]? = some t → t.pc = .read → dget s.disk t.name = none →
      Trans sf s (setT s f t (.complete (.err .notFound)))
  | tTrunc {f t} : s.tasks[f]? = some t → t.pc = .trunc →
      Trans sf s (setT { s with disk := dset s.disk t.name [] } f t .write)
  | tWrite {f t d fs} : s.tasks[f]? = some t → t.pc = .write → t.wr = some (d, fs) →
      Trans sf s (setT { s with disk := dset s.disk t.name (overwrite ((dget s.disk t.name).getD []) d) } f t (if fs then .fsync else .fin d))
  | tFsync {f t d fs} : s.tasks[f]? = some t → t.pc = .fsync → t.wr = some (d, fs) →
      Trans sf s (setT s f t (.fin d))
  | tFinBig {f t v} : s.tasks[f]? = some t → t.pc = .fin v → v.length > s.max →
      Trans sf s (setT s f t (.complete (.err .assertion)))
  | tFinGone {f t v ev} : s.tasks[f]? = some t → t.pc = .fin v → ¬ v.length > s.max →
      legalEv s ev v.length = true → findE (evict s ev).entries t.name = none →
      Trans sf s (setT (evict s ev) f t (.complete (.err .assertion)))
  | tFinCache {f t v ev e} : s.tasks[f]? = some t → t.pc = .fin v → ¬ v.length > s.max →
      legalEv s ev v.length = true → findE (evict s ev).entries t.name = some e →
      (evict s ev).mem + v.length ≤ s.max →
      Trans sf s (setT { evict s ev with acc := (evict s ev).acc.filter (· != t.name) ++ [t.name]
                                       , mem := (evict s ev).mem + v.length
                                       , entries := setE (evict s ev).entries ⟨t.name, false, v.length, e.fut, true⟩ }
                    f t (.complete (.ok v)))
  | tFinNoCache {f t v ev e} : s.tasks[f]? = some t → t.pc = .fin v → ¬ v.length > s.max →
      legalEv s ev v.length = true → findE (evict s ev).entries t.name = some e →
      ¬ (evict s ev).mem + v.length ≤ s.max →
      Trans sf s (setT { evict s ev with entries := delE (evict s ev).entries t.name } f t (.complete (.ok v)))
  | tComplete {f t r} : s.tasks[f]? = some t → t.pc = .complete r →
      Trans sf s (setT s f t (.finished r))

theorem cstep_trans {s s' : St} {i : Nat} {c : Client} (sf : Bool)
    (hc : s.clients[i]? = some c)
    (hs : sf = true → safe s ⟨.client i, (lblC c).getD .lock, []⟩ = true)
    (h : cstep s i c = some s') : Trans sf s s' := by
  unfold cstep at h
  split at h
  · cases h
  · rename_i n rest hops
    split at h
    · rename_i hpc
      split at h
      · rename_i hd; cases h; exact .existsNF hc hops hpc hd
      · rename_i b hd; cases h; exact .existsOk hc hops hpc hd
    · rename_i hpc
      split at h
      · rename_i hd; cases h; exact .gsizeNF hc hops hpc hd
      · rename_i b hd
        split at h
        · rename_i hb; cases h; exact .gsizeMem hc hops hpc hd hb
        · rename_i hb; cases h; exact .gsizeOk hc hops hpc hd hb
    · rename_i claim hpc
      split at h
      · rename_i hf; cases h; exact .glockMiss hc hops hpc hf
      · rename_i e hf; cases h; exact .glockHit hc hops hpc hf
    · rename_i f a exp hpc
      split at h
      · rename_i r hr; cases h; exact .getWait hc hops hpc hr
      · cases h
  · rename_i n d fs rest hops
    split at h
    · rename_i hpc
      split at h
      · rename_i hd; cases h; exact .updMem hc hops hpc hd
      · rename_i hd
        dsimp only at h
        split at h
        · rename_i f hbusy
          cases h
          split at hbusy
          · rename_i e hf
            split at hbusy
            · rename_i hw; cases hbusy; exact .updBusy hc hops hpc hd hf hw
            · cases hbusy
          · cases hbusy
        · rename_i hbusy
          cases h
          have hnw : ∀ e, findE s.entries n = some e → e.writing = false := by
            intro e he
            rw [he] at hbusy
            by_cases hw : e.writing = true
            · simp [hw] at hbusy
            · simpa using hw
          have hsafe : sf = true → inflight s n true = false := by
            intro hsf
            have := hs hsf
            simp [safe, hc, hops, hpc] at this
            simpa using this
          have := Trans.updApply (sf := sf) hc hops hpc hd hnw hsafe
          simpa using this
    · rename_i f a x hpc
      split at h
      · rename_i v hr; cases h; exact .updWaitOk hc hops hpc hr
      · rename_i e hr; cases h; exact .updWaitErr hc hops hpc hr
      · cases h
    · cases h
  · rename_i n rest hops
    split at h
    · rename_i hpc
      cases h
      have hsafe : sf = true → inflight s n false = false := by
        intro hsf
        have := hs hsf
        simp [safe, hc, hops, hpc] at this
        simpa using this
      have := Trans.unload (sf := sf) hc hops hpc hsafe
      simpa using this
    · cases h

theorem tstep_trans {s s' : St} {f : Nat} {t : Task} {ev : List Name} (sf : Bool)
    (ht : s.tasks[f]? = some t) (h : tstep s f t ev = some s') : Trans sf s s' := by
  unfold tstep at h
  split at h
  · rename_i hpc
    split at h
    · rename_i b hd; cases h; exact .tRead ht hpc hd
    · rename_i hd; cases h; exact .tReadNF ht hpc hd
  · rename_i hpc; cases h; exact .tTrunc ht hpc
  · rename_i hpc
    split at h
    · rename_i d fs hw; cases h; exact .tWrite ht hpc hw
    · cases h
  · rename_i hpc
    split at h
    · rename_i d fs hw; cases h; exact .tFsync ht hpc hw
    · cases h
  · rename_i v hpc
    unfold finBlock at h
    split at h
    · rename_i hbig
      split at h
      · cases h; exact .tFinBig ht hpc hbig
      · cases h
    · rename_i hbig
      split at h
      · cases h
      · rename_i hleg
        have hleg' : legalEv s ev v.length = true := by simpa using hleg
        dsimp only at h
        split at h
        · rename_i hf; cases h; exact .tFinGone ht hpc hbig hleg' hf
        · rename_i e hf
          split at h
          · rename_i hfit; cases h
            exact .tFinCache ht hpc hbig hleg' hf (by simpa using hfit)
          · rename_i hfit; cases h
            exact .tFinNoCache ht hpc hbig hleg' hf (by simpa using hfit)
  · rename_i r hpc; cases h; exact .tComplete ht hpc
  · cases h

theorem step_trans {s s' : St} {st : Step} (sf : Bool) (hs : sf = true → safe s st = true)
    (h : step s st = some s') : Trans sf s s' := by
  unfold step at h
  split at h
  · rename_i i hw
    split at h
    · rename_i c hc
      split at h
      · rename_i hl
        simp only [Bool.and_eq_true, decide_eq_true_eq, List.isEmpty_iff] at hl
        refine cstep_trans sf hc ?_ h
        intro hsf
        have := hs hsf
        simp only [safe, hw] at this ⊢
        exact this
      · cases h
    · cases h
  · rename_i f hw
    split at h
    · rename_i t ht
      split at h
      · exact tstep_trans sf ht h
      · cases h
    · cases h

theorem run_induct (P : St → Prop) (hstep : ∀ s s', P s → Trans false s s' → P s')
    (sched : List Step) : ∀ s s', P s → run s sched = some s' → P s' := by
  induction sched with
  | nil => intro s s' hp h; simp [run] at h; subst h; exact hp
  | cons st rest ih =>
    intro s s' hp h
    simp only [run] at h
    split at h
    · rename_i s1 h1
      exact ih s1 s' (hstep s s1 hp (step_trans false (by simp) h1)) h
    · cases h

theorem runSafe_induct (P : St → Prop) (hstep : ∀ s s', P s → Trans true s s' → P s')
    (sched : List Step) : ∀ s s', P s → runSafe s sched = some s' → P s' := by
  induction sched with
  | nil => intro s s' hp h; simp [runSafe] at h; subst h; exact hp
  | cons st rest ih =>
    intro s s' hp h
    simp only [runSafe] at h
    split at h
    · rename_i hsafe
      split at h
      · rename_i s1 h1
        exact ih s1 s' (hstep s s1 hp (step_trans true (fun _ => hsafe) h1)) h
      · cases h
    · cases h

/-! ## structural invariant of the protected state (all schedules) -/

structure StructInv (s : St) : Prop where
  nodupE : (s.entries.map (·.name)).Nodup
  nodupA : s.acc.Nodup
  entOk : ∀ n e, findE s.entries n = some e →
      ∃ t, s.tasks[e.fut]? = some t ∧ t.name = n ∧ (e.writing = true → t.wr.isSome = true ∧ t.pre = true)
  wrOk : ∀ (f : Nat) (t : Task) (d : Bytes) (fs : Bool), s.tasks[f]? = some t → t.wr = some (d, fs) →
      d.length ≤ s.max ∧ t.pc ≠ .read ∧ ∀ v, t.pc = .fin v → v = d
  waitOk : ∀ (i : Nat) (c : Client) (f : Nat) (a : Option Bool) (e : Option Bytes), s.clients[i]? = some c → c.pc = .wait f a e → f < s.tasks.length

theorem waitOk_set {cl : List Client} {i : Nat} {c' : Client} {L L' : Nat}
    (h : ∀ (j : Nat) (c : Client) (f : Nat) (a : Option Bool) (e : Option Bytes), cl[j]? = some c → c.pc = .wait f a e → f < L) (hL : L ≤ L')
    (hc' : ∀ f a e, c'.pc = .wait f a e → f < L') :
    ∀ (j : Nat) (c : Client) (f : Nat) (a : Option Bool) (e : Option Bytes), (cl.set i c')[j]? = some c → c.pc = .wait f a e → f < L' := by
  intro j c f a e hj hpc
  rw [List.getElem?_set] at hj
  split at hj
  · split at hj
    · cases hj; exact hc' f a e hpc
    · cases hj
  · exact Nat.lt_of_lt_of_le (h j c f a e hj hpc) hL

/-- a step that only touches the stepping client -/
theorem struct_client_only {s : St} {cl : List Client} (h : StructInv s)
    (hw : ∀ (i : Nat) (c : Client) (f : Nat) (a : Option Bool) (e : Option Bytes), cl[i]? = some c → c.pc = .wait f a e → f < s.tasks.length) :
    StructInv { s with clients := cl } :=
  ⟨h.nodupE, h.nodupA, h.entOk, h.wrOk, hw⟩

theorem entOk_setT {s : St} {f : Nat} {t : Task} {pc : TPc} (h : StructInv s)
    (ht : s.tasks[f]? = some t)
    (hpre : ∀ n e, findE s.entries n = some e → e.fut = f → e.writing = true → (Task.pre { t with pc := pc }) = true) :
    ∀ n e, findE s.entries n = some e →
      ∃ t', (s.tasks.set f { t with pc := pc })[e.fut]? = some t' ∧ t'.name = n ∧
        (e.writing = true → t'.wr.isSome = true ∧ t'.pre = true) := by
  intro n e he
  obtain ⟨t0, h0, hn, hw⟩ := h.entOk n e he
  rw [List.getElem?_set]
  by_cases hf : f = e.fut
  · subst hf
    rw [ht] at h0; cases h0
    simp only [if_true, getElem?_lt ht]
    exact ⟨_, rfl, hn, fun hwr => ⟨(hw hwr).1, hpre n e he rfl hwr⟩⟩
  · simp only [hf, if_false]
    exact ⟨t0, h0, hn, hw⟩

theorem wrOk_setT {s : St} {f : Nat} {t : Task} {pc : TPc} (h : StructInv s)
    (ht : s.tasks[f]? = some t)
    (hpc : ∀ d fs, t.wr = some (d, fs) → pc ≠ .read ∧ ∀ v, pc = .fin v → v = d) :
    ∀ (f' : Nat) (t' : Task) (d : Bytes) (fs : Bool), (s.tasks.set f { t with pc := pc })[f']? = some t' → t'.wr = some (d, fs) →
      d.length ≤ s.max ∧ t'.pc ≠ .read ∧ ∀ v, t'.pc = .fin v → v = d := by
  intro f' t' d fs h' hwr
  rw [List.getElem?_set] at h'
  split at h'
  · split at h'
    · cases h'
      exact ⟨(h.wrOk f t d fs ht hwr).1, hpc d fs hwr⟩
    · cases h'
  · exact h.wrOk f' t' d fs h' hwr

theorem waitOk_len {s : St} (h : StructInv s) {L : Nat} (hL : s.tasks.length = L) :
    ∀ (i : Nat) (c : Client) (f : Nat) (a : Option Bool) (e : Option Bytes), s.clients[i]? = some c → c.pc = .wait f a e → f < L := by
  intro i c f a e hc hpc; rw [← hL]; exact h.waitOk i c f a e hc hpc

/-- a worker step that only moves the task's pc (and possibly the disk) -/
theorem struct_setT {s : St} {f : Nat} {t : Task} {pc : TPc} {dk : Disk} (h : StructInv s)
    (ht : s.tasks[f]? = some t)
    (hpre : ∀ n e, findE s.entries n = some e → e.fut = f → e.writing = true → (Task.pre { t with pc := pc }) = true)
    (hpc : ∀ d fs, t.wr = some (d, fs) → pc ≠ .read ∧ ∀ v, pc = .fin v → v = d) :
    StructInv (setT { s with disk := dk } f t pc) :=
  have h' : StructInv { s with disk := dk } := ⟨h.nodupE, h.nodupA, h.entOk, h.wrOk, h.waitOk⟩
  ⟨h.nodupE, h.nodupA, entOk_setT h' ht hpre, wrOk_setT h' ht hpc,
   waitOk_len h' (by simp [setT])⟩

theorem struct_evict {s : St} (h : StructInv s) (ev : List Name) : StructInv (evict s ev) := by
  refine ⟨List.Sublist.nodup (evict_names_sublist s ev) h.nodupE,
          List.Sublist.nodup (evict_acc_sublist s ev) h.nodupA, ?_, ?_, ?_⟩
  · intro n e he
    rw [findE_evict] at he
    split at he
    · cases he
    · simpa using h.entOk n e he
  · intro f t d fs ht hw
    simp only [evict_tasks, evict_max] at ht ⊢
    exact h.wrOk f t d fs ht hw
  · intro i c f a e hc hpc
    simp only [evict_clients, evict_tasks] at hc ⊢
    exact h.waitOk i c f a e hc hpc

theorem getElem?_append_new {α} (l : List α) (a : α) : (l ++ [a])[l.length]? = some a := by
  simp

theorem getElem?_append_old {α} {l : List α} {i : Nat} {x : α} (a : α) (h : l[i]? = some x) :
    (l ++ [a])[i]? = some x := by
  rw [List.getElem?_append, if_pos (getElem?_lt h)]; exact h

theorem getElem?_append_cases {α} {l : List α} {i : Nat} {x a : α} (h : (l ++ [a])[i]? = some x) :
    l[i]? = some x ∨ (i = l.length ∧ x = a) := by
  rw [List.getElem?_append] at h
  split at h
  · exact Or.inl h
  · rename_i hlt
    right
    have : i - l.length = 0 := by
      cases hi : i - l.length with
      | zero => rfl
      | succ k => rw [hi] at h; simp at h
    rw [this] at h
    simp at h
    exact ⟨by omega, h.symm⟩

theorem struct_step {sf : Bool} {s s' : St} (h : StructInv s) (htr : Trans sf s s') : StructInv s' := by
  have wstart : ∀ (ops : List Op) (rs : List Done) (f : Nat) (a : Option Bool) (e : Option Bytes),
      (Client.mk ops .start rs).pc = .wait f a e → f < s.tasks.length := by
    intro _ _ f a e hh; cases hh
  cases htr with
  | existsNF hc _ _ _ =>
    exact struct_client_only h (waitOk_set h.waitOk (Nat.le_refl _) (wstart _ _))
  | gsizeNF hc _ _ _ =>
    exact struct_client_only h (waitOk_set h.waitOk (Nat.le_refl _) (wstart _ _))
  | gsizeMem hc _ _ _ _ =>
    exact struct_client_only h (waitOk_set h.waitOk (Nat.le_refl _) (wstart _ _))
  | getWait hc _ _ _ =>
    exact struct_client_only h (waitOk_set h.waitOk (Nat.le_refl _) (wstart _ _))
  | updMem hc _ _ _ =>
    exact struct_client_only h (waitOk_set h.waitOk (Nat.le_refl _) (wstart _ _))
  | updWaitOk hc _ _ _ =>
    exact struct_client_only h (waitOk_set h.waitOk (Nat.le_refl _) (wstart _ _))
  | updWaitErr hc _ _ _ =>
    exact struct_client_only h (waitOk_set h.waitOk (Nat.le_refl _) (wstart _ _))
  | existsOk hc _ _ _ =>
    exact struct_client_only h (waitOk_set h.waitOk (Nat.le_refl _) (by intro f a e hh; cases hh))
  | gsizeOk hc _ _ _ _ =>
    exact struct_client_only h (waitOk_set h.waitOk (Nat.le_refl _) (by intro f a e hh; cases hh))
  | updBusy hc _ _ _ hf _ =>
    obtain ⟨t, ht, _, _⟩ := h.entOk _ _ hf
    exact struct_client_only h (waitOk_set h.waitOk (Nat.le_refl _)
      (by intro f a e hh; cases hh; exact getElem?_lt ht))
  | @glockHit i c n rest claim e hc _ _ hf =>
    obtain ⟨t, ht, _, _⟩ := h.entOk _ _ hf
    refine ⟨h.nodupE, ?_, h.entOk, h.wrOk, ?_⟩
    · simp only [setPc]
      split
      · exact nodup_touch n h.nodupA
      · exact h.nodupA
    · exact waitOk_set h.waitOk (Nat.le_refl _) (by intro f a e hh; cases hh; exact getElem?_lt ht)
  | @glockMiss i c n rest claim hc _ _ hf =>
    refine ⟨nodup_setE _ h.nodupE, h.nodupA, ?_, ?_, ?_⟩
    · intro n' e' he'
      simp only [setPc] at he' ⊢
      rw [findE_setE] at he'
      split at he'
      · rename_i hn; cases he'
        exact ⟨_, getElem?_append_new _ _, hn.symm, by simp⟩
      · obtain ⟨t, ht, hn, hw⟩ := h.entOk n' e' he'
        exact ⟨t, getElem?_append_old _ ht, hn, hw⟩
    · intro f t d fs ht hw
      simp only [setPc] at ht ⊢
      rcases getElem?_append_cases ht with ht | ⟨_, rfl⟩
      · exact h.wrOk f t d fs ht hw
      · cases hw
    · simp only [setPc, List.length_append, List.length_cons, List.length_nil]
      exact waitOk_set h.waitOk (Nat.le_succ _) (by intro f a e hh; cases hh; omega)
  | @updApply i c n d fs rest hc _ _ hd hnw _ =>
    refine ⟨?_, by simpa [setPc] using h.nodupA, ?_, ?_, ?_⟩
    · simp only [setPc, unloadE_entries]
      exact nodup_setE _ (nodup_delE _ h.nodupE)
    · intro n' e' he'
      simp only [setPc, unloadE_entries] at he' ⊢
      rw [findE_setE] at he'
      split at he'
      · rename_i hn; cases he'
        exact ⟨_, getElem?_append_new _ _, hn.symm, by simp [Task.pre]⟩
      · rename_i hn
        rw [findE_delE, if_neg hn] at he'
        obtain ⟨t, ht, hn', hw⟩ := h.entOk n' e' he'
        exact ⟨t, getElem?_append_old _ ht, hn', hw⟩
    · intro f t d' fs' ht hw
      simp only [setPc, unloadE_max] at ht ⊢
      rcases getElem?_append_cases ht with ht | ⟨_, rfl⟩
      · exact h.wrOk f t d' fs' ht hw
      · simp only [Option.some.injEq, Prod.mk.injEq] at hw
        obtain ⟨rfl, rfl⟩ := hw
        exact ⟨by omega, by simp, by intro v hv; cases hv⟩
    · simp only [setPc, List.length_append, List.length_cons, List.length_nil, unloadE_clients]
      exact waitOk_set h.waitOk (Nat.le_succ _) (by intro f a e hh; cases hh; omega)
  | @unload i c n rest hc _ _ _ =>
    refine ⟨?_, ?_, ?_, ?_, ?_⟩
    · simp only [finishOp, unloadE_entries]; exact nodup_delE _ h.nodupE
    · simp only [finishOp]; exact nodup_filter_ne _ h.nodupA
    · intro n' e' he'
      simp only [finishOp, unloadE_entries, unloadE_tasks] at he' ⊢
      rw [findE_delE] at he'
      split at he'
      · cases he'
      · exact h.entOk n' e' he'
    · intro f t d fs ht hw
      simp only [finishOp, unloadE_tasks, unloadE_max] at ht ⊢
      exact h.wrOk f t d fs ht hw
    · simp only [finishOp, unloadE_tasks, unloadE_clients]
      exact waitOk_set h.waitOk (Nat.le_refl _) (wstart _ _)
  | @tRead f t b ht hpc _ =>
    refine struct_setT (dk := s.disk) h ht (by intros; rfl) ?_
    intro d fs hw
    exact absurd hpc (h.wrOk f t d fs ht hw).2.1
  | @tReadNF f t ht hpc _ =>
    refine struct_setT (dk := s.disk) h ht ?_ (by intro d fs _; exact ⟨by simp, by intro v hv; cases hv⟩)
    intro n e he hfut hwr
    obtain ⟨t0, h0, _, hw⟩ := h.entOk n e he
    rw [hfut, ht] at h0; cases h0
    have := (hw hwr).1
    cases hwr' : t.wr with
    | none => simp [hwr'] at this
    | some p => exact absurd hpc (h.wrOk f t p.1 p.2 ht hwr').2.1
  | @tTrunc f t ht hpc =>
    exact struct_setT h ht (by intros; rfl) (by intro d fs _; exact ⟨by simp, by intro v hv; cases hv⟩)
  | @tWrite f t d fs ht hpc hw =>
    refine struct_setT h ht (by intros; cases fs <;> rfl) ?_
    intro d' fs' hw'
    rw [hw] at hw'; cases hw'
    cases fs
    · exact ⟨by simp, by intro v hv; cases hv; rfl⟩
    · exact ⟨by simp, by intro v hv; cases hv⟩
  | @tFsync f t d fs ht hpc hw =>
    refine struct_setT (dk := s.disk) h ht (by intros; rfl) ?_
    intro d' fs' hw'
    rw [hw] at hw'; cases hw'
    exact ⟨by simp, by intro v hv; cases hv; rfl⟩
  | @tFinBig f t v ht hpc hbig =>
    refine struct_setT (dk := s.disk) h ht ?_ (by intro d fs _; exact ⟨by simp, by intro v hv; cases hv⟩)
    intro n e he hfut hwr
    obtain ⟨t0, h0, _, hw⟩ := h.entOk n e he
    rw [hfut, ht] at h0; cases h0
    have := (hw hwr).1
    cases hwr' : t.wr with
    | none => simp [hwr'] at this
    | some p =>
      have h3 := h.wrOk f t p.1 p.2 ht hwr'
      have := h3.2.2 v hpc
      subst this
      omega
  | @tComplete f t r ht hpc =>
    refine struct_setT (dk := s.disk) h ht ?_ (by intro d fs _; exact ⟨by simp, by intro v hv; cases hv⟩)
    intro n e he hfut hwr
    obtain ⟨t0, h0, _, hw⟩ := h.entOk n e he
    rw [hfut, ht] at h0; cases h0
    have := (hw hwr).2
    simp [Task.pre, hpc] at this
  | @tFinGone f t v ev ht hpc hbig hleg hnone =>
    have h1 := struct_evict h ev
    have ht1 : (evict s ev).tasks[f]? = some t := by simpa using ht
    refine struct_setT (dk := (evict s ev).disk) h1 ht1 ?_
      (by intro d fs _; exact ⟨by simp, by intro v hv; cases hv⟩)
    intro n e he hfut _
    obtain ⟨t0, h0, hn, _⟩ := h1.entOk n e he
    rw [hfut, ht1] at h0; cases h0
    rw [hn, he] at hnone; cases hnone
  | @tFinCache f t v ev e ht hpc hbig hleg hsome hfit =>
    have h1 := struct_evict h ev
    have ht1 : (evict s ev).tasks[f]? = some t := by simpa using ht
    obtain ⟨te, hte, _, _⟩ := h1.entOk _ _ hsome
    have h2 : StructInv { evict s ev with
        acc := (evict s ev).acc.filter (· != t.name) ++ [t.name]
        mem := (evict s ev).mem + v.length
        entries := setE (evict s ev).entries ⟨t.name, false, v.length, e.fut, true⟩ } := by
      refine ⟨nodup_setE _ h1.nodupE, nodup_touch _ h1.nodupA, ?_, h1.wrOk, h1.waitOk⟩
      intro n' e' he'
      simp only at he' ⊢
      rw [findE_setE] at he'
      split at he'
      · rename_i hn; cases he'
        exact ⟨te, hte, by rw [hn]; assumption, by simp⟩
      · exact h1.entOk n' e' he'
    refine struct_setT (dk := (evict s ev).disk) h2 ht1 ?_
      (by intro d fs _; exact ⟨by simp, by intro v hv; cases hv⟩)
    intro n e' he' hfut hwr
    simp only at he'
    rw [findE_setE] at he'
    split at he'
    · cases he'; cases hwr
    · rename_i hn
      obtain ⟨t0, h0, hn', _⟩ := h1.entOk n e' he'
      rw [hfut, ht1] at h0; cases h0
      exact absurd hn'.symm hn
  | @tFinNoCache f t v ev e ht hpc hbig hleg hsome hfit =>
    have h1 := struct_evict h ev
    have ht1 : (evict s ev).tasks[f]? = some t := by simpa using ht
    have h2 : StructInv { evict s ev with entries := delE (evict s ev).entries t.name } := by
      refine ⟨nodup_delE _ h1.nodupE, h1.nodupA, ?_, h1.wrOk, h1.waitOk⟩
      intro n' e' he'
      simp only at he' ⊢
      rw [findE_delE] at he'
      split at he'
      · cases he'
      · exact h1.entOk n' e' he'
    refine struct_setT (dk := (evict s ev).disk) h2 ht1 ?_
      (by intro d fs _; exact ⟨by simp, by intro v hv; cases hv⟩)
    intro n e' he' hfut hwr
    simp only at he'
    rw [findE_delE] at he'
    split at he'
    · cases he'
    · rename_i hn
      obtain ⟨t0, h0, hn', _⟩ := h1.entOk n e' he'
      rw [hfut, ht1] at h0; cases h0
      exact absurd hn'.symm hn

/-! ## lock_inv -/

theorem struct_init (max : Nat) (disk : Disk) (progs : List (List Op)) :
    StructInv (init max disk progs) := by
  refine ⟨by simp [init], by simp [init], ?_, ?_, ?_⟩
  · intro n e he; simp [init, findE] at he
  · intro f t d fs ht; simp [init] at ht
  · intro i c f a e hc hpc
    simp only [init, List.getElem?_map] at hc
    cases hp : progs[i]? with
    | none => simp [hp] at hc
    | some ops => simp [hp] at hc; subst hc; cases hpc

/-- **lock_inv**: for every number of clients, every program, every schedule (every
    interleaving of lock blocks, file-system calls, completions and waits) and every eviction
    choice, the state protected by the lock satisfies the structural invariant after every step:
    entry names and access-list names are duplicate-free, every entry's future is a task of the
    same file, an entry is marked `writing` only while its future is a write task whose
    completion block has not run, every write task carries at most `max` bytes, and every
    client waits on an existing future. -/
theorem lock_inv (max : Nat) (disk : Disk) (progs : List (List Op)) (sched : List Step) (s' : St)
    (h : run (init max disk progs) sched = some s') : StructInv s' :=
  run_induct StructInv (fun _ _ hp htr => struct_step hp htr) sched _ _ (struct_init max disk progs) h

/-! ## the invariant of hazard-free schedules -/

/-- the value the future of task `t` will hold (its result if decided, the data for a write,
    the current file contents for a load that has not read yet) -/
def evVal (dk : Disk) (t : Task) : Option Bytes :=
  match t.pc with
  | .finished (.ok v) => some v
  | .complete (.ok v) => some v
  | .fin v => some v
  | .finished (.err _) => none
  | .complete (.err _) => none
  | .read => dget dk t.name
  | _ => t.wr.map (·.1)

/-- the file exists and fits the limit -/
def fits (mx : Nat) (dk : Disk) (n : Name) : Prop := ∃ b, dget dk n = some b ∧ b.length ≤ mx

/-- byte total the entry table accounts for -/
def counted (es : List Entry) : Int := (es.map fun e => if e.counted then (e.size : Int) else 0).sum

structure EntOk (dk reg : Disk) (acc : List Name) (n : Name) (e : Entry) (t : Task) : Prop where
  val : evVal dk t = dget reg n
  pre : t.pre = true → e.counted = false ∧ (e.writing = true ↔ t.wr.isSome = true) ∧ (t.wr = none → n ∉ acc)
  post : t.pre = false → e.counted = true ∧ e.writing = false ∧ n ∈ acc ∧
          ∃ v, evVal dk t = some v ∧ e.size = v.length

structure ClOk (mx : Nat) (dk : Disk) (tasks : List Task) (c : Client) : Prop where
  fitL : ∀ n rest claim, c.ops = .get n :: rest → c.pc = .glock claim → fits mx dk n
  waitG : ∀ n rest f a exp, c.ops = .get n :: rest → c.pc = .wait f a exp →
      ∃ t, tasks[f]? = some t ∧ evVal dk t = exp
  res : ∀ r, r ∈ c.results → (∀ e, r.res ≠ .raised e) ∧ (∀ b, r.res = .data b → r.exp = some b)

structure Good (s : St) : Prop where
  st : StructInv s
  acct : s.mem = counted s.entries
  own : ∀ (f : Nat) (t : Task), s.tasks[f]? = some t → t.pre = true →
      ∃ e, findE s.entries t.name = some e ∧ e.fut = f
  ent : ∀ n e, findE s.entries n = some e → ∃ t, s.tasks[e.fut]? = some t ∧ EntOk s.disk s.reg s.acc n e t
  accE : ∀ x, x ∈ s.acc → (findE s.entries x).isSome = true
  noErr : ∀ (f : Nat) (t : Task), s.tasks[f]? = some t →
      ∀ e, t.pc ≠ .complete (.err e) ∧ t.pc ≠ .finished (.err e)
  kind : ∀ (f : Nat) (t : Task), s.tasks[f]? = some t →
      (t.pc = .trunc ∨ t.pc = .write ∨ t.pc = .fsync) → t.wr.isSome = true
  diskReg : ∀ n, (∀ (f : Nat) (t : Task), s.tasks[f]? = some t → t.name = n → t.wr.isSome = true → t.pre = false) →
      dget s.disk n = dget s.reg n
  written : ∀ (f : Nat) (t : Task) (d : Bytes) (fs : Bool), s.tasks[f]? = some t → t.wr = some (d, fs) →
      (t.pc = .fsync ∨ ∃ v, t.pc = .fin v) → dget s.disk t.name = some d
  trunced : ∀ (f : Nat) (t : Task), s.tasks[f]? = some t → t.pc = .write → dget s.disk t.name = some []
  fitT : ∀ (f : Nat) (t : Task), s.tasks[f]? = some t →
      (t.pc = .read → fits s.max s.disk t.name) ∧ (∀ v, t.pc = .fin v → v.length ≤ s.max)
  cl : ∀ (i : Nat) (c : Client), s.clients[i]? = some c → ClOk s.max s.disk s.tasks c

/-- two in-flight tasks of one file are the same task -/
theorem Good.uniq {s : St} (h : Good s) {f1 f2 : Nat} {t1 t2 : Task}
    (h1 : s.tasks[f1]? = some t1) (h2 : s.tasks[f2]? = some t2)
    (p1 : t1.pre = true) (p2 : t2.pre = true) (hn : t1.name = t2.name) : f1 = f2 := by
  obtain ⟨e1, he1, hf1⟩ := h.own f1 t1 h1 p1
  obtain ⟨e2, he2, hf2⟩ := h.own f2 t2 h2 p2
  rw [hn, he2] at he1; cases he1
  rw [← hf1, ← hf2]

theorem evVal_disk (dk dk' : Disk) (t : Task)
    (h : t.pc = .read → dget dk' t.name = dget dk t.name) : evVal dk' t = evVal dk t := by
  unfold evVal
  split <;> first | rfl | (rename_i hpc; exact h hpc)

theorem good_init (max : Nat) (disk : Disk) (progs : List (List Op)) :
    Good (init max disk progs) := by
  refine ⟨struct_init max disk progs, by simp [init, counted], ?_, ?_, by simp [init], ?_, ?_, ?_, ?_, ?_, ?_, ?_⟩
  · intro f t ht; simp [init] at ht
  · intro n e he; simp [init, findE] at he
  · intro f t ht; simp [init] at ht
  · intro f t ht; simp [init] at ht
  · intro n _; rfl
  · intro f t d fs ht; simp [init] at ht
  · intro f t ht; simp [init] at ht
  · intro f t ht; simp [init] at ht
  · intro i c hc
    simp only [init, List.getElem?_map] at hc
    cases hp : progs[i]? with
    | none => simp [hp] at hc
    | some ops =>
      simp [hp] at hc; subst hc
      refine ⟨?_, ?_, ?_⟩
      · intro n rest claim _ hpc; cases hpc
      · intro n rest f a exp _ hpc; cases hpc
      · intro r hr; cases hr

/-! ## accounting lemmas -/

theorem counted_cons (e : Entry) (es : List Entry) :
    counted (e :: es) = (if e.counted then (e.size : Int) else 0) + counted es := by
  simp [counted]

def cnt (es : List Entry) (n : Name) : Int :=
  match findE es n with
  | some e => if e.counted then (e.size : Int) else 0
  | none => 0

theorem counted_delE (es : List Entry) (n : Name) (hnd : (es.map (·.name)).Nodup) :
    counted (delE es n) = counted es - cnt es n := by
  induction es with
  | nil => simp [counted, delE, cnt, findE]
  | cons a as ih =>
    simp only [List.map_cons, List.nodup_cons] at hnd
    have ih' := ih hnd.2
    by_cases han : a.name = n
    · have hnone : findE as n = none := by
        simp only [findE, List.find?_eq_none]
        intro x hx hxn
        simp at hxn
        exact hnd.1 (by rw [han, ← hxn]; exact List.mem_map_of_mem hx)
      have hdel : delE (a :: as) n = as := by
        simp only [delE, List.filter_cons, han]
        simp
        have := delE_of_none hnone
        simpa [delE] using this
      rw [hdel, counted_cons]
      simp [cnt, findE, List.find?_cons, han]
      omega
    · have hdel : delE (a :: as) n = a :: delE as n := by
        simp [delE, List.filter_cons, han]
      rw [hdel, counted_cons, counted_cons, ih']
      have : cnt (a :: as) n = cnt as n := by
        simp [cnt, findE, List.find?_cons, han]
      rw [this]; omega

theorem counted_setE (es : List Entry) (e : Entry) (hnd : (es.map (·.name)).Nodup) :
    counted (setE es e) = counted es - cnt es e.name + (if e.counted then (e.size : Int) else 0) := by
  simp only [setE, counted_cons, counted_delE es e.name hnd]; omega

theorem cnt_le_sizeOf? (es : List Entry) (n : Name) (h : ∀ e, findE es n = some e → e.counted = true) :
    cnt es n = sizeOf? es n := by
  unfold cnt sizeOf?
  split
  · rename_i e he; simp [h e he]
  · rfl

/-- evicting only counted entries keeps `mem = counted entries` -/
theorem evict_acct (ev : List Name) : ∀ (s : St), (s.entries.map (·.name)).Nodup → s.mem = counted s.entries →
    (∀ x, x ∈ ev → ∀ e, findE s.entries x = some e → e.counted = true) →
    (evict s ev).mem = counted (evict s ev).entries := by
  induction ev with
  | nil => intro s _ h _; simpa [evict] using h
  | cons x xs ih =>
    intro s hnd hm hc
    simp only [evict]
    apply ih
    · simp only [unloadE_entries]; exact nodup_delE _ hnd
    · simp only [unloadE_entries, unloadE_mem, counted_delE _ _ hnd, hm]
      rw [cnt_le_sizeOf? _ _ (hc x (by simp))]
    · intro y hy e he
      simp only [unloadE_entries] at he
      rw [findE_delE] at he
      split at he
      · cases he
      · exact hc y (by simp [hy]) e he

theorem counted_zero (es : List Entry) (h : ∀ e, e ∈ es → e.counted = false) : counted es = 0 := by
  induction es with
  | nil => rfl
  | cons a as ih =>
    rw [counted_cons, ih (fun e he => h e (by simp [he])), h a (by simp)]; simp

theorem counted_nonneg (es : List Entry) : 0 ≤ counted es := by
  induction es with
  | nil => simp [counted]
  | cons a as ih => rw [counted_cons]; split <;> omega

theorem findE_of_mem {es : List Entry} {e : Entry} (hnd : (es.map (·.name)).Nodup) (he : e ∈ es) :
    findE es e.name = some e := by
  induction es with
  | nil => cases he
  | cons a as ih =>
    simp only [List.map_cons, List.nodup_cons] at hnd
    rcases List.mem_cons.mp he with rfl | he'
    · simp [findE, List.find?_cons]
    · have hne : ¬ a.name = e.name := by
        intro hh; exact hnd.1 (by rw [hh]; exact List.mem_map_of_mem he')
      have := ih hnd.2 he'
      simp only [findE] at this
      simp [findE, List.find?_cons, hne, this]

/-! ## preservation of `Good`: frame lemmas and client-only steps -/

def FutStable (dk dk' : Disk) (ts ts' : List Task) : Prop :=
  ∀ (f : Nat) (t : Task), ts[f]? = some t → ∃ t', ts'[f]? = some t' ∧ evVal dk' t' = evVal dk t

theorem ClOk_frame {mx : Nat} {dk dk' : Disk} {ts ts' : List Task} {c : Client}
    (hf : ∀ n, fits mx dk n → fits mx dk' n) (hs : FutStable dk dk' ts ts')
    (h : ClOk mx dk ts c) : ClOk mx dk' ts' c := by
  refine ⟨fun n rest claim ho hp => hf n (h.fitL n rest claim ho hp), ?_, h.res⟩
  intro n rest f a exp ho hp
  obtain ⟨t, ht, hv⟩ := h.waitG n rest f a exp ho hp
  obtain ⟨t', ht', hv'⟩ := hs f t ht
  exact ⟨t', ht', by rw [hv', hv]⟩

theorem FutStable_append (dk : Disk) (ts : List Task) (t : Task) : FutStable dk dk ts (ts ++ [t]) := by
  intro f t0 h0
  exact ⟨t0, getElem?_append_old _ h0, rfl⟩

theorem ClOk_finish {mx : Nat} {dk : Disk} {ts : List Task} {c : Client} {r : Done}
    (h : ClOk mx dk ts c)
    (hr : (∀ e, r.res ≠ .raised e) ∧ (∀ b, r.res = .data b → r.exp = some b)) :
    ClOk mx dk ts ⟨c.ops.tail, .start, c.results ++ [r]⟩ := by
  refine ⟨?_, ?_, ?_⟩
  · intro n rest claim _ hp; cases hp
  · intro n rest f a exp _ hp; cases hp
  · intro r' hr'
    simp only [List.mem_append, List.mem_singleton] at hr'
    rcases hr' with hr' | rfl
    · exact h.res r' hr'
    · exact hr

theorem good_clients {s : St} {i : Nat} {c' : Client} (h : Good s)
    (hst : StructInv { s with clients := s.clients.set i c' })
    (hc' : ClOk s.max s.disk s.tasks c') : Good { s with clients := s.clients.set i c' } := by
  refine ⟨hst, h.acct, h.own, h.ent, h.accE, h.noErr, h.kind, h.diskReg, h.written, h.trunced, h.fitT, ?_⟩
  intro j c hj
  simp only at hj
  rw [List.getElem?_set] at hj
  split at hj
  · split at hj
    · cases hj; exact hc'
    · cases hj
  · exact h.cl j c hj

theorem taskRes_some {s : St} {f : Nat} {r : TRes} (h : taskRes s f = some r) :
    ∃ t, s.tasks[f]? = some t ∧ t.pc = .finished r := by
  unfold taskRes at h
  split at h
  · rename_i t ht
    split at h
    · rename_i r' hpc; cases h; exact ⟨t, ht, hpc⟩
    · cases h
  · cases h


/-- how a worker step may change the disk: not at all at `n`, or (for the file of an in-flight
    write task) to contents that fit the limit -/
def DiskStep (s : St) (t : Task) (dk : Disk) : Prop :=
  ∀ n, dget dk n = dget s.disk n ∨
    (n = t.name ∧ t.pre = true ∧ t.wr.isSome = true ∧ t.pc ≠ .read ∧ ∃ d, dget dk n = some d ∧ d.length ≤ s.max)

theorem DiskStep_refl (s : St) (t : Task) : DiskStep s t s.disk := fun _ => Or.inl rfl

theorem DiskStep_dset {s : St} {t : Task} (d : Bytes) (hp : t.pre = true) (hw : t.wr.isSome = true)
    (hr : t.pc ≠ .read) (hd : d.length ≤ s.max) : DiskStep s t (dset s.disk t.name d) := by
  intro n
  by_cases hn : n = t.name
  · right; subst hn; exact ⟨rfl, hp, hw, hr, d, dget_dset_same _ _ _, hd⟩
  · left; exact dget_dset_other _ _ _ _ hn

theorem fits_mono {s : St} {t : Task} {dk : Disk} (hd : DiskStep s t dk) (n : Name)
    (h : fits s.max s.disk n) : fits s.max dk n := by
  rcases hd n with heq | ⟨_, _, _, _, d, hdd, hlen⟩
  · obtain ⟨b, hb, hl⟩ := h; exact ⟨b, by rw [heq]; exact hb, hl⟩
  · exact ⟨d, hdd, hlen⟩

/-- the future value of any *other* task is unaffected by a worker's disk step -/
theorem evVal_other {s : St} (h : Good s) {f f' : Nat} {t t' : Task} {dk : Disk}
    (ht : s.tasks[f]? = some t) (ht' : s.tasks[f']? = some t') (hne : f' ≠ f)
    (hd : DiskStep s t dk) : evVal dk t' = evVal s.disk t' := by
  apply evVal_disk
  intro hread
  rcases hd t'.name with heq | ⟨hn, hp, _, _⟩
  · exact heq
  · have hp' : t'.pre = true := by simp [Task.pre, hread]
    exact absurd (h.uniq ht' ht hp' hp hn) hne

theorem good_setT {s : St} {f : Nat} {t : Task} {pc : TPc} {dk : Disk} (h : Good s)
    (hst : StructInv (setT { s with disk := dk } f t pc))
    (ht : s.tasks[f]? = some t)
    (hpre : Task.pre { t with pc := pc } = t.pre)
    (hval : evVal dk { t with pc := pc } = evVal s.disk t)
    (hdk : DiskStep s t dk)
    (hne : ∀ e, pc ≠ .complete (.err e) ∧ pc ≠ .finished (.err e))
    (hkind : (pc = .trunc ∨ pc = .write ∨ pc = .fsync) → t.wr.isSome = true)
    (hwr : ∀ d fs, t.wr = some (d, fs) → (pc = .fsync ∨ ∃ v, pc = .fin v) → dget dk t.name = some d)
    (htr : pc = .write → dget dk t.name = some [])
    (hfit : (pc = .read → fits s.max dk t.name) ∧ (∀ v, pc = .fin v → v.length ≤ s.max)) :
    Good (setT { s with disk := dk } f t pc) := by
  have hlt := getElem?_lt ht
  have hset : (s.tasks.set f { t with pc := pc })[f]? = some { t with pc := pc } :=
    List.getElem?_set_self hlt
  have hoth : ∀ f', f' ≠ f → (s.tasks.set f { t with pc := pc })[f']? = s.tasks[f']? :=
    fun f' hh => List.getElem?_set_ne (fun e => hh e.symm)
  -- every task of the new table is either the stepped one or an old one
  have hget : ∀ (f' : Nat) (t' : Task), (s.tasks.set f { t with pc := pc })[f']? = some t' →
      (f' = f ∧ t' = { t with pc := pc }) ∨ (f' ≠ f ∧ s.tasks[f']? = some t') := by
    intro f' t' h'
    by_cases hff : f' = f
    · subst hff; rw [hset] at h'; cases h'; exact Or.inl ⟨rfl, rfl⟩
    · rw [hoth f' hff] at h'; exact Or.inr ⟨hff, h'⟩
  have hstable : FutStable s.disk dk s.tasks (s.tasks.set f { t with pc := pc }) := by
    intro f' t' h'
    by_cases hff : f' = f
    · subst hff; rw [ht] at h'; cases h'
      exact ⟨_, hset, hval⟩
    · exact ⟨t', by rw [hoth f' hff]; exact h', evVal_other h ht h' hff hdk⟩
  refine ⟨hst, h.acct, ?_, ?_, h.accE, ?_, ?_, ?_, ?_, ?_, ?_, ?_⟩
  · -- own
    intro f' t' h' hp'
    rcases hget f' t' h' with ⟨rfl, rfl⟩ | ⟨_, hold⟩
    · rw [hpre] at hp'; exact h.own _ t ht hp'
    · exact h.own f' t' hold hp'
  · -- ent
    intro n e he
    obtain ⟨t0, h0, hok⟩ := h.ent n e he
    show ∃ t', (s.tasks.set f { t with pc := pc })[e.fut]? = some t' ∧ EntOk dk s.reg s.acc n e t'
    by_cases hef : e.fut = f
    · rw [hef] at h0; rw [ht] at h0; cases h0
      refine ⟨_, by rw [hef]; exact hset, ?_⟩
      refine ⟨by rw [hval]; exact hok.val, ?_, ?_⟩
      · intro hp; rw [hpre] at hp; exact hok.pre hp
      · intro hp; rw [hpre] at hp
        obtain ⟨a, b, c, v, hv, hsz⟩ := hok.post hp
        exact ⟨a, b, c, v, by rw [hval]; exact hv, hsz⟩
    · have hv := evVal_other h ht h0 hef hdk
      refine ⟨t0, by rw [hoth _ hef]; exact h0, ?_⟩
      refine ⟨by rw [hv]; exact hok.val, hok.pre, ?_⟩
      intro hp
      obtain ⟨a, b, c, v, hv', hsz⟩ := hok.post hp
      exact ⟨a, b, c, v, by rw [hv]; exact hv', hsz⟩
  · -- noErr
    intro f' t' h' e
    rcases hget f' t' h' with ⟨rfl, rfl⟩ | ⟨_, hold⟩
    · exact hne e
    · exact h.noErr f' t' hold e
  · -- kind
    intro f' t' h' hk
    rcases hget f' t' h' with ⟨rfl, rfl⟩ | ⟨_, hold⟩
    · exact hkind hk
    · exact h.kind f' t' hold hk
  · -- diskReg
    intro n hH
    show dget dk n = dget s.reg n
    have hold : ∀ (f' : Nat) (t' : Task), s.tasks[f']? = some t' → t'.name = n → t'.wr.isSome = true → t'.pre = false := by
      intro f' t' h' hn hw
      by_cases hff : f' = f
      · subst hff; rw [ht] at h'; cases h'
        have := hH f' _ hset hn hw
        rw [hpre] at this; exact this
      · exact hH f' t' (by show (s.tasks.set f { t with pc := pc })[f']? = some t'; rw [hoth f' hff]; exact h') hn hw
    have := h.diskReg n hold
    rcases hdk n with heq | ⟨hn, hp, hw, _⟩
    · rw [heq]; exact this
    · exfalso
      have := hH f _ hset hn.symm hw
      rw [hpre, hp] at this; cases this
  · -- written
    intro f' t' d fs h' hw hpc
    show dget dk t'.name = some d
    rcases hget f' t' h' with ⟨rfl, rfl⟩ | ⟨hff, hold⟩
    · exact hwr d fs hw hpc
    · have := h.written f' t' d fs hold hw hpc
      rcases hdk t'.name with heq | ⟨hn, hp, _, _⟩
      · rw [heq]; exact this
      · exfalso
        have hp' : t'.pre = true := by
          rcases hpc with hpc | ⟨v, hpc⟩ <;> simp [Task.pre, hpc]
        exact hff (h.uniq hold ht hp' hp hn)
  · -- trunced
    intro f' t' h' hpc
    show dget dk t'.name = some []
    rcases hget f' t' h' with ⟨rfl, rfl⟩ | ⟨hff, hold⟩
    · exact htr hpc
    · have := h.trunced f' t' hold hpc
      rcases hdk t'.name with heq | ⟨hn, hp, _, _⟩
      · rw [heq]; exact this
      · exfalso
        exact hff (h.uniq hold ht (by simp [Task.pre, hpc]) hp hn)
  · -- fitT
    intro f' t' h'
    show (t'.pc = .read → fits s.max dk t'.name) ∧ (∀ v, t'.pc = .fin v → v.length ≤ s.max)
    rcases hget f' t' h' with ⟨rfl, rfl⟩ | ⟨hff, hold⟩
    · exact hfit
    · exact ⟨fun hr => fits_mono hdk _ ((h.fitT f' t' hold).1 hr), (h.fitT f' t' hold).2⟩
  · -- cl
    intro i c hc
    show ClOk s.max dk (s.tasks.set f { t with pc := pc }) c
    exact ClOk_frame (fits_mono hdk) hstable (h.cl i c hc)

theorem cl_set {mx : Nat} {dk : Disk} {ts : List Task} {cls : List Client} {i : Nat} {c' : Client}
    (hold : ∀ (j : Nat) (c : Client), cls[j]? = some c → ClOk mx dk ts c) (hc' : ClOk mx dk ts c') :
    ∀ (j : Nat) (c : Client), (cls.set i c')[j]? = some c → ClOk mx dk ts c := by
  intro j c hj
  rw [List.getElem?_set] at hj
  split at hj
  · split at hj
    · cases hj; exact hc'
    · cases hj
  · exact hold j c hj

theorem mem_touch (l : List Name) (n x : Name) :
    x ∈ l.filter (· != n) ++ [n] ↔ (x ∈ l ∧ x ≠ n) ∨ x = n := by
  simp

theorem good_glockHit {s : St} {i : Nat} {c : Client} {n : Name} {rest : List Op} {claim : Nat} {e : Entry}
    (h : Good s)
    (hst : StructInv (setPc { s with acc := if (taskRes s e.fut).isSome then s.acc.filter (· != n) ++ [n] else s.acc }
                    i c (.wait e.fut none (dget s.reg n))))
    (hc : s.clients[i]? = some c) (hops : c.ops = .get n :: rest) (_hpc : c.pc = .glock claim)
    (hf : findE s.entries n = some e) :
    Good (setPc { s with acc := if (taskRes s e.fut).isSome then s.acc.filter (· != n) ++ [n] else s.acc }
                    i c (.wait e.fut none (dget s.reg n))) := by
  obtain ⟨te, hte, hoke⟩ := h.ent n e hf
  refine ⟨hst, h.acct, h.own, ?_, ?_, h.noErr, h.kind, h.diskReg, h.written, h.trunced, h.fitT, ?_⟩
  · intro n' e' he'
    have he2 : findE s.entries n' = some e' := he'
    clear he'
    obtain ⟨t, ht, hok⟩ := h.ent n' e' he2
    refine ⟨t, ht, hok.val, ?_, ?_⟩
    · intro hp
      obtain ⟨a, b, hacc⟩ := hok.pre hp
      refine ⟨a, b, ?_⟩
      intro hw
      show n' ∉ (if (taskRes s e.fut).isSome then s.acc.filter (· != n) ++ [n] else s.acc)
      split
      · rename_i hres
        rw [mem_touch]
        rintro (⟨hm, _⟩ | rfl)
        · exact hacc hw hm
        · rw [hf] at he2; cases he2
          rw [hte] at ht; cases ht
          cases hr : taskRes s e.fut with
          | none => simp [hr] at hres
          | some r =>
            obtain ⟨t2, ht2, hfin⟩ := taskRes_some hr
            rw [hte] at ht2; cases ht2
            simp [Task.pre, hfin] at hp
      · exact hacc hw
    · intro hp
      obtain ⟨a, b, hacc, rest'⟩ := hok.post hp
      refine ⟨a, b, ?_, rest'⟩
      show n' ∈ (if (taskRes s e.fut).isSome then s.acc.filter (· != n) ++ [n] else s.acc)
      split
      · rw [mem_touch]
        by_cases hn : n' = n
        · exact Or.inr hn
        · exact Or.inl ⟨hacc, hn⟩
      · exact hacc
  · intro x hx
    have hx' : x ∈ (if (taskRes s e.fut).isSome then s.acc.filter (· != n) ++ [n] else s.acc) := hx
    split at hx'
    · rw [mem_touch] at hx'
      rcases hx' with ⟨hm, _⟩ | rfl
      · exact h.accE x hm
      · show (findE s.entries x).isSome = true
        rw [hf]; rfl
    · exact h.accE x hx'
  · refine cl_set h.cl ⟨?_, ?_, (h.cl _ _ hc).res⟩
    · intro n' rest' claim' _ hp; cases hp
    · intro n' rest' f a exp ho hp
      simp only at ho hp
      rw [hops] at ho; cases ho; cases hp
      exact ⟨te, hte, hoke.val⟩

theorem good_glockMiss {s : St} {i : Nat} {c : Client} {n : Name} {rest : List Op} {claim : Nat}
    (h : Good s)
    (hst : StructInv (setPc { s with entries := setE s.entries ⟨n, false, claim, s.tasks.length, false⟩, tasks := s.tasks ++ [⟨n, none, .read⟩] } i c
                    (.wait s.tasks.length none (dget s.reg n))))
    (hc : s.clients[i]? = some c) (hops : c.ops = .get n :: rest) (hpc : c.pc = .glock claim)
    (hf : findE s.entries n = none) :
    Good (setPc { s with entries := setE s.entries ⟨n, false, claim, s.tasks.length, false⟩, tasks := s.tasks ++ [⟨n, none, .read⟩] } i c
                    (.wait s.tasks.length none (dget s.reg n))) := by
  -- no task of n is in flight (it would own an entry), so the disk agrees with the register
  have hnopre : ∀ (f : Nat) (t : Task), s.tasks[f]? = some t → t.name = n → t.pre = false := by
    intro f t ht hn
    cases hp : t.pre with
    | false => rfl
    | true =>
      obtain ⟨e, he, _⟩ := h.own f t ht hp
      rw [hn, hf] at he; cases he
  have hdr : dget s.disk n = dget s.reg n := h.diskReg n (fun f t ht hn _ => hnopre f t ht hn)
  have hnacc : n ∉ s.acc := by
    intro hm; have := h.accE n hm; rw [hf] at this; cases this
  have hfit := (h.cl _ _ hc).fitL n rest claim hops hpc
  have hcases := @getElem?_append_cases Task s.tasks
  refine ⟨hst, ?_, ?_, ?_, ?_, ?_, ?_, ?_, ?_, ?_, ?_, ?_⟩
  · show s.mem = counted (setE s.entries ⟨n, false, claim, s.tasks.length, false⟩)
    rw [counted_setE _ _ h.st.nodupE, h.acct]
    simp [cnt, hf]
  · intro f t ht hp
    show ∃ e, findE (setE s.entries ⟨n, false, claim, s.tasks.length, false⟩) t.name = some e ∧ e.fut = f
    rw [findE_setE]
    rcases hcases ht with hold | ⟨rfl, rfl⟩
    · have hne : t.name ≠ n := by
        intro hn; have := hnopre f t hold hn; rw [hp] at this; cases this
      simp only [hne, if_false]
      exact h.own f t hold hp
    · simp
  · intro n' e' he'
    have he'' : findE (setE s.entries ⟨n, false, claim, s.tasks.length, false⟩) n' = some e' := he'
    rw [findE_setE] at he''
    show ∃ t, (s.tasks ++ [⟨n, none, .read⟩])[e'.fut]? = some t ∧ EntOk s.disk s.reg s.acc n' e' t
    split at he''
    · rename_i hn; cases he''; subst hn
      refine ⟨_, getElem?_append_new _ _, ?_, ?_, ?_⟩
      · simp [evVal]; exact hdr
      · intro _; exact ⟨rfl, by simp, fun _ => hnacc⟩
      · intro hp; simp [Task.pre] at hp
    · obtain ⟨t, ht, hok⟩ := h.ent n' e' he''
      exact ⟨t, getElem?_append_old _ ht, hok⟩
  · intro x hx
    show (findE (setE s.entries ⟨n, false, claim, s.tasks.length, false⟩) x).isSome = true
    rw [findE_setE]
    split
    · rfl
    · exact h.accE x hx
  · intro f t ht e
    rcases hcases ht with hold | ⟨_, rfl⟩
    · exact h.noErr f t hold e
    · simp
  · intro f t ht hk
    rcases hcases ht with hold | ⟨_, rfl⟩
    · exact h.kind f t hold hk
    · simp at hk
  · intro n' hH
    exact h.diskReg n' (fun f t ht hn hw => hH f t (getElem?_append_old _ ht) hn hw)
  · intro f t d fs ht hw hpc'
    rcases hcases ht with hold | ⟨_, rfl⟩
    · exact h.written f t d fs hold hw hpc'
    · cases hw
  · intro f t ht hpc'
    rcases hcases ht with hold | ⟨_, rfl⟩
    · exact h.trunced f t hold hpc'
    · cases hpc'
  · intro f t ht
    rcases hcases ht with hold | ⟨_, rfl⟩
    · exact h.fitT f t hold
    · exact ⟨fun _ => hfit, by simp⟩
  · have hfr : ∀ c0, ClOk s.max s.disk s.tasks c0 → ClOk s.max s.disk (s.tasks ++ [⟨n, none, .read⟩]) c0 :=
      fun c0 h0 => ClOk_frame (fun _ hh => hh) (FutStable_append _ _ _) h0
    refine cl_set (fun j c0 hj => hfr c0 (h.cl j c0 hj)) ⟨?_, ?_, (h.cl _ _ hc).res⟩
    · intro n' rest' claim' _ hp; cases hp
    · intro n' rest' f a exp ho hp
      simp only at ho hp
      rw [hops] at ho; cases ho; cases hp
      exact ⟨_, getElem?_append_new _ _, by simp [evVal]; exact hdr⟩

theorem unloadE_eq (s : St) (n : Name) :
    unloadE s n = { s with mem := s.mem - sizeOf? s.entries n, entries := delE s.entries n } := by
  cases hf : findE s.entries n with
  | some e => simp [unloadE, sizeOf?, hf]
  | none =>
    cases s
    simp only [unloadE, sizeOf?] at hf ⊢
    simp [hf, delE_of_none hf]

theorem inflight_false {s : St} {n : Name} {lo : Bool} (h : inflight s n lo = false)
    {f : Nat} {t : Task} (ht : s.tasks[f]? = some t) (hn : t.name = n) (hp : t.pre = true) :
    lo = true ∧ t.wr.isSome = true := by
  unfold inflight at h
  rw [List.any_eq_false] at h
  have := h t (List.mem_of_getElem? ht)
  cases lo <;> simp [hn, hp] at this ⊢
  cases hw : t.wr with
  | none => simp [hw] at this
  | some p => rfl

theorem good_unload {s : St} {i : Nat} {c : Client} {n : Name}
    (h : Good s)
    (hst : StructInv (finishOp { unloadE s n with acc := s.acc.filter (· != n) } i c ⟨.done, none⟩))
    (hc : s.clients[i]? = some c)
    (hsafe : inflight s n false = false) :
    Good (finishOp { unloadE s n with acc := s.acc.filter (· != n) } i c ⟨.done, none⟩) := by
  have hnopre : ∀ (f : Nat) (t : Task), s.tasks[f]? = some t → t.name = n → t.pre = false := by
    intro f t ht hn
    cases hp : t.pre with
    | false => rfl
    | true => have := (inflight_false hsafe ht hn hp).1; cases this
  have hcnt : cnt s.entries n = sizeOf? s.entries n := by
    apply cnt_le_sizeOf?
    intro e he
    obtain ⟨t, ht, hok⟩ := h.ent n e he
    obtain ⟨_, _, htn, _⟩ := h.st.entOk n e he
    have : t.pre = false := by
      rename_i t0 ht0 _
      rw [ht] at ht0; cases ht0
      exact hnopre _ t ht htn
    exact (hok.post this).1
  rw [unloadE_eq] at hst ⊢
  refine ⟨hst, ?_, ?_, ?_, ?_, h.noErr, h.kind, h.diskReg, h.written, h.trunced, h.fitT, ?_⟩
  · show s.mem - sizeOf? s.entries n = counted (delE s.entries n)
    rw [counted_delE _ _ h.st.nodupE, h.acct, hcnt]
  · intro f t ht hp
    show ∃ e, findE (delE s.entries n) t.name = some e ∧ e.fut = f
    have hne : t.name ≠ n := by
      intro hn; have := hnopre f t ht hn; rw [hp] at this; cases this
    rw [findE_delE, if_neg hne]
    exact h.own f t ht hp
  · intro n' e' he'
    have he2 : findE (delE s.entries n) n' = some e' := he'
    clear he'
    rw [findE_delE] at he2
    split at he2
    · cases he2
    · rename_i hne
      obtain ⟨t, ht, hok⟩ := h.ent n' e' he2
      refine ⟨t, ht, hok.val, ?_, ?_⟩
      · intro hp
        obtain ⟨a, b, hacc⟩ := hok.pre hp
        refine ⟨a, b, fun hw => ?_⟩
        show n' ∉ s.acc.filter (· != n)
        intro hm; exact hacc hw (List.mem_filter.mp hm).1
      · intro hp
        obtain ⟨a, b, hacc, r⟩ := hok.post hp
        refine ⟨a, b, ?_, r⟩
        show n' ∈ s.acc.filter (· != n)
        rw [List.mem_filter]; exact ⟨hacc, by simpa using hne⟩
  · intro x hx
    have hx' : x ∈ s.acc.filter (· != n) := hx
    rw [List.mem_filter] at hx'
    show (findE (delE s.entries n) x).isSome = true
    have hne : x ≠ n := by simpa using hx'.2
    rw [findE_delE, if_neg hne]
    exact h.accE x hx'.1
  · exact cl_set h.cl (ClOk_finish (h.cl _ _ hc) ⟨(by simp), (by simp)⟩)

theorem good_updApply {s : St} {i : Nat} {c : Client} {n : Name} {d : Bytes} {fs : Bool} {rest : List Op}
    (h : Good s)
    (hst : StructInv (setPc { unloadE s n with entries := setE (unloadE s n).entries ⟨n, true, d.length, s.tasks.length, false⟩, tasks := s.tasks ++ [⟨n, some (d, fs), .trunc⟩], reg := dset s.reg n d } i c (.wait s.tasks.length (some true) none)))
    (hc : s.clients[i]? = some c) (hops : c.ops = .update n d fs :: rest)
    (hnw : ∀ e, findE s.entries n = some e → e.writing = false)
    (hsafe : inflight s n true = false) :
    Good (setPc { unloadE s n with entries := setE (unloadE s n).entries ⟨n, true, d.length, s.tasks.length, false⟩, tasks := s.tasks ++ [⟨n, some (d, fs), .trunc⟩], reg := dset s.reg n d } i c (.wait s.tasks.length (some true) none)) := by
  have hnopre : ∀ (f : Nat) (t : Task), s.tasks[f]? = some t → t.name = n → t.pre = false := by
    intro f t ht hn
    cases hp : t.pre with
    | false => rfl
    | true =>
      exfalso
      have hw := (inflight_false hsafe ht hn hp).2
      obtain ⟨e, he, hfut⟩ := h.own f t ht hp
      rw [hn] at he
      obtain ⟨t', ht', hok⟩ := h.ent n e he
      rw [hfut, ht] at ht'; cases ht'
      have := ((hok.pre hp).2.1).mpr hw
      rw [hnw e he] at this; cases this
  have hcnt : cnt s.entries n = sizeOf? s.entries n := by
    apply cnt_le_sizeOf?
    intro e he
    obtain ⟨t, ht, hok⟩ := h.ent n e he
    obtain ⟨t0, ht0, htn, _⟩ := h.st.entOk n e he
    rw [ht] at ht0; cases ht0
    exact (hok.post (hnopre _ t ht htn)).1
  have hcases := @getElem?_append_cases Task s.tasks
  rw [unloadE_eq] at hst ⊢
  refine ⟨hst, ?_, ?_, ?_, ?_, ?_, ?_, ?_, ?_, ?_, ?_, ?_⟩
  · show s.mem - sizeOf? s.entries n = counted (setE (delE s.entries n) ⟨n, true, d.length, s.tasks.length, false⟩)
    rw [counted_setE _ _ (nodup_delE _ h.st.nodupE), counted_delE _ _ h.st.nodupE, h.acct, hcnt]
    simp [cnt, findE_delE]
  · intro f t ht hp
    show ∃ e, findE (setE (delE s.entries n) ⟨n, true, d.length, s.tasks.length, false⟩) t.name = some e ∧ e.fut = f
    rw [findE_setE]
    rcases hcases ht with hold | ⟨rfl, rfl⟩
    · have hne : t.name ≠ n := by
        intro hn; have := hnopre f t hold hn; rw [hp] at this; cases this
      simp only [hne, if_false]
      rw [findE_delE, if_neg hne]
      exact h.own f t hold hp
    · simp
  · intro n' e' he'
    have he2 : findE (setE (delE s.entries n) ⟨n, true, d.length, s.tasks.length, false⟩) n' = some e' := he'
    clear he'
    rw [findE_setE] at he2
    show ∃ t, (s.tasks ++ [⟨n, some (d, fs), .trunc⟩])[e'.fut]? = some t ∧ EntOk s.disk (dset s.reg n d) s.acc n' e' t
    split at he2
    · rename_i hn; cases he2; subst hn
      refine ⟨_, getElem?_append_new _ _, ?_, ?_, ?_⟩
      · simp [evVal, dget_dset_same]
      · intro _; exact ⟨rfl, by simp, fun hw => by cases hw⟩
      · intro hp; simp [Task.pre] at hp
    · rename_i hne
      rw [findE_delE, if_neg hne] at he2
      obtain ⟨t, ht, hok⟩ := h.ent n' e' he2
      refine ⟨t, getElem?_append_old _ ht, ?_, hok.pre, hok.post⟩
      rw [dget_dset_other _ _ _ _ hne]; exact hok.val
  · intro x hx
    show (findE (setE (delE s.entries n) ⟨n, true, d.length, s.tasks.length, false⟩) x).isSome = true
    rw [findE_setE]
    split
    · rfl
    · rename_i hne
      rw [findE_delE, if_neg hne]; exact h.accE x hx
  · intro f t ht e
    rcases hcases ht with hold | ⟨_, rfl⟩
    · exact h.noErr f t hold e
    · simp
  · intro f t ht hk
    rcases hcases ht with hold | ⟨_, rfl⟩
    · exact h.kind f t hold hk
    · rfl
  · intro n' hH
    show dget s.disk n' = dget (dset s.reg n d) n'
    by_cases hn : n' = n
    · subst hn
      have := hH s.tasks.length _ (getElem?_append_new _ _) rfl rfl
      simp [Task.pre] at this
    · rw [dget_dset_other _ _ _ _ hn]
      exact h.diskReg n' (fun f t ht hn' hw => hH f t (getElem?_append_old _ ht) hn' hw)
  · intro f t d' fs' ht hw hpc'
    rcases hcases ht with hold | ⟨_, rfl⟩
    · exact h.written f t d' fs' hold hw hpc'
    · rcases hpc' with hpc' | ⟨v, hpc'⟩ <;> cases hpc'
  · intro f t ht hpc'
    rcases hcases ht with hold | ⟨_, rfl⟩
    · exact h.trunced f t hold hpc'
    · cases hpc'
  · intro f t ht
    rcases hcases ht with hold | ⟨_, rfl⟩
    · exact h.fitT f t hold
    · exact ⟨by simp, by simp⟩
  · have hfr : ∀ c0, ClOk s.max s.disk s.tasks c0 → ClOk s.max s.disk (s.tasks ++ [⟨n, some (d, fs), .trunc⟩]) c0 :=
      fun c0 h0 => ClOk_frame (fun _ hh => hh) (FutStable_append _ _ _) h0
    refine cl_set (fun j c0 hj => hfr c0 (h.cl j c0 hj)) ⟨?_, ?_, (h.cl _ _ hc).res⟩
    · intro n' rest' claim' ho _; simp only at ho; rw [hops] at ho; cases ho
    · intro n' rest' f a exp ho _; simp only at ho; rw [hops] at ho; cases ho

/-! ## the completion block under `Good` -/

theorem evictable_counted {s : St} (h : Good s) {x : Name} (hx : evictable s x = true) :
    ∃ e, findE s.entries x = some e ∧ x ∈ s.acc ∧ e.counted = true ∧
      ∀ t, s.tasks[e.fut]? = some t → t.pre = false := by
  unfold evictable at hx
  simp only [Bool.and_eq_true, List.contains_iff_mem] at hx
  obtain ⟨hacc, hm⟩ := hx
  cases hf : findE s.entries x with
  | none => simp [hf] at hm
  | some e =>
    simp [hf] at hm
    obtain ⟨t, ht, hok⟩ := h.ent x e hf
    have hpre : t.pre = false := by
      cases hp : t.pre with
      | false => rfl
      | true =>
        exfalso
        obtain ⟨_, hiff, hnacc⟩ := hok.pre hp
        have : t.wr = none := by
          cases hw : t.wr with
          | none => rfl
          | some p =>
            have := hiff.mpr (by simp [hw])
            rw [hm] at this; cases this
        exact hnacc this hacc
    refine ⟨e, rfl, hacc, (hok.post hpre).1, ?_⟩
    intro t' ht'
    rw [ht] at ht'; cases ht'; exact hpre

theorem legalEv_parts {s : St} {ev : List Name} {claim : Nat} (h : legalEv s ev claim = true) :
    (∀ x, x ∈ ev → evictable s x = true) ∧
    ((evict s ev).mem + claim ≤ s.max ∨ ∀ x, x ∈ s.acc → evictable s x = true → x ∈ ev) := by
  unfold legalEv at h
  simp only [Bool.and_eq_true, List.all_eq_true, Bool.or_eq_true, decide_eq_true_eq] at h
  obtain ⟨⟨h1, _⟩, h3⟩ := h
  refine ⟨h1, ?_⟩
  rcases h3 with h3 | h3
  · exact Or.inl h3
  · right
    intro x hx he
    have := h3 x hx
    simp [he] at this
    exact this

structure FinFacts (s : St) (f : Nat) (t : Task) (ev : List Name) : Prop where
  e : ∃ e, findE s.entries t.name = some e ∧ e.fut = f ∧ e.counted = false ∧
        findE (evict s ev).entries t.name = some e
  notEv : t.name ∉ ev
  acct : (evict s ev).mem = counted (evict s ev).entries
  preKeep : ∀ (f' : Nat) (t' : Task), s.tasks[f']? = some t' → t'.pre = true → t'.name ∉ ev

theorem fin_facts {s : St} (h : Good s) {f : Nat} {t : Task} {v : Bytes} {ev : List Name}
    (ht : s.tasks[f]? = some t) (hpc : t.pc = .fin v) (hall : ∀ x, x ∈ ev → evictable s x = true) :
    FinFacts s f t ev := by
  have hp : t.pre = true := by simp [Task.pre, hpc]
  have hkeep : ∀ (f' : Nat) (t' : Task), s.tasks[f']? = some t' → t'.pre = true → t'.name ∉ ev := by
    intro f' t' ht' hp' hm
    obtain ⟨e', he', _, _, hnp⟩ := evictable_counted h (hall _ hm)
    obtain ⟨e'', he'', hfut⟩ := h.own f' t' ht' hp'
    rw [he'] at he''; cases he''
    have := hnp t' (by rw [hfut]; exact ht')
    rw [hp'] at this; cases this
  obtain ⟨e, he, hfut⟩ := h.own f t ht hp
  have hnot := hkeep f t ht hp
  obtain ⟨t0, ht0, hok⟩ := h.ent _ e he
  rw [hfut, ht] at ht0; cases ht0
  refine ⟨⟨e, he, hfut, (hok.pre hp).1, ?_⟩, hnot, ?_, hkeep⟩
  · rw [findE_evict, if_neg hnot]; exact he
  · apply evict_acct ev s h.st.nodupE h.acct
    intro x hx e' he'
    obtain ⟨e'', he'', _, hc, _⟩ := evictable_counted h (hall x hx)
    rw [he'] at he''; cases he''; exact hc

theorem fin_fits {s : St} (h : Good s) {f : Nat} {t : Task} {v : Bytes} {ev : List Name}
    (ht : s.tasks[f]? = some t) (hpc : t.pc = .fin v) (hleg : legalEv s ev v.length = true) :
    (evict s ev).mem + v.length ≤ s.max := by
  obtain ⟨hall, hor⟩ := legalEv_parts hleg
  have ff := fin_facts h ht hpc hall
  rcases hor with hfit | hex
  · exact hfit
  · have hz : counted (evict s ev).entries = 0 := by
      apply counted_zero
      intro e' he'
      cases hc : e'.counted with
      | false => rfl
      | true =>
        exfalso
        have hnd := (struct_evict h.st ev).nodupE
        have hf1 := findE_of_mem hnd he'
        rw [findE_evict] at hf1
        split at hf1
        · cases hf1
        · rename_i hnotin
          obtain ⟨t', ht', hok⟩ := h.ent _ e' hf1
          cases hp : t'.pre with
          | true => have := (hok.pre hp).1; rw [hc] at this; cases this
          | false =>
            obtain ⟨_, hw, hacc, _⟩ := hok.post hp
            have hev : evictable s e'.name = true := by
              simp [evictable, hacc, hf1, hw]
            exact hnotin (hex _ hacc hev)
    rw [ff.acct, hz]
    have := (h.fitT f t ht).2 v hpc
    omega

theorem good_tFinCache {s : St} {f : Nat} {t : Task} {v : Bytes} {ev : List Name} {e : Entry}
    (h : Good s)
    (hst : StructInv (setT { evict s ev with acc := (evict s ev).acc.filter (· != t.name) ++ [t.name], mem := (evict s ev).mem + v.length, entries := setE (evict s ev).entries ⟨t.name, false, v.length, e.fut, true⟩ } f t (.complete (.ok v))))
    (ht : s.tasks[f]? = some t) (hpc : t.pc = .fin v) (hleg : legalEv s ev v.length = true)
    (hsome : findE (evict s ev).entries t.name = some e) :
    Good (setT { evict s ev with acc := (evict s ev).acc.filter (· != t.name) ++ [t.name], mem := (evict s ev).mem + v.length, entries := setE (evict s ev).entries ⟨t.name, false, v.length, e.fut, true⟩ } f t (.complete (.ok v))) := by
  obtain ⟨hall, _⟩ := legalEv_parts hleg
  have ff := fin_facts h ht hpc hall
  obtain ⟨e0, he0, hfut, hunc, hfe⟩ := ff.e
  rw [hsome] at hfe; cases hfe
  have hp : t.pre = true := by simp [Task.pre, hpc]
  obtain ⟨t0, ht0, hok0⟩ := h.ent _ e he0
  rw [hfut, ht] at ht0; cases ht0
  have hlt := getElem?_lt ht
  have hset : (s.tasks.set f { t with pc := .complete (.ok v) })[f]? = some { t with pc := .complete (.ok v) } :=
    List.getElem?_set_self hlt
  have hoth : ∀ f', f' ≠ f → (s.tasks.set f { t with pc := .complete (.ok v) })[f']? = s.tasks[f']? :=
    fun f' hh => List.getElem?_set_ne (fun e => hh e.symm)
  have hget : ∀ (f' : Nat) (t' : Task), (s.tasks.set f { t with pc := .complete (.ok v) })[f']? = some t' →
      (f' = f ∧ t' = { t with pc := .complete (.ok v) }) ∨ (f' ≠ f ∧ s.tasks[f']? = some t') := by
    intro f' t' h'
    by_cases hff : f' = f
    · subst hff; rw [hset] at h'; cases h'; exact Or.inl ⟨rfl, rfl⟩
    · rw [hoth f' hff] at h'; exact Or.inr ⟨hff, h'⟩
  have hstable : FutStable s.disk s.disk s.tasks (s.tasks.set f { t with pc := .complete (.ok v) }) := by
    intro f' t' h'
    by_cases hff : f' = f
    · subst hff; rw [ht] at h'; cases h'
      exact ⟨_, hset, by simp [evVal, hpc]⟩
    · exact ⟨t', by rw [hoth f' hff]; exact h', rfl⟩
  have hregv : dget s.reg t.name = some v := by
    rw [← hok0.val]; simp [evVal, hpc]
  have hEq : setT { evict s ev with acc := (evict s ev).acc.filter (· != t.name) ++ [t.name], mem := (evict s ev).mem + v.length, entries := setE (evict s ev).entries ⟨t.name, false, v.length, e.fut, true⟩ } f t (.complete (.ok v))
      = { s with acc := (evict s ev).acc.filter (· != t.name) ++ [t.name], mem := (evict s ev).mem + v.length, entries := setE (evict s ev).entries ⟨t.name, false, v.length, e.fut, true⟩, tasks := s.tasks.set f { t with pc := .complete (.ok v) } } := by
    simp [setT]
  rw [hEq] at hst ⊢
  refine ⟨hst, ?_, ?_, ?_, ?_, ?_, ?_, ?_, ?_, ?_, ?_, ?_⟩
  · -- acct
    show (evict s ev).mem + v.length = counted (setE (evict s ev).entries ⟨t.name, false, v.length, e.fut, true⟩)
    rw [counted_setE _ _ (struct_evict h.st ev).nodupE, ff.acct]
    simp [cnt, hsome, hunc]
  · -- own
    intro f' t' h' hp'
    show ∃ e', findE (setE (evict s ev).entries ⟨t.name, false, v.length, e.fut, true⟩) t'.name = some e' ∧ e'.fut = f'
    rcases hget f' t' h' with ⟨rfl, rfl⟩ | ⟨hff, hold⟩
    · simp [Task.pre] at hp'
    · have hne : t'.name ≠ t.name := fun hn => hff (h.uniq hold ht hp' hp hn)
      rw [findE_setE, if_neg hne, findE_evict, if_neg (ff.preKeep f' t' hold hp')]
      exact h.own f' t' hold hp'
  · -- ent
    intro n' e' he'
    have he2 : findE (setE (evict s ev).entries ⟨t.name, false, v.length, e.fut, true⟩) n' = some e' := he'
    clear he'
    show ∃ t', (s.tasks.set f { t with pc := .complete (.ok v) })[e'.fut]? = some t' ∧
      EntOk s.disk s.reg ((evict s ev).acc.filter (· != t.name) ++ [t.name]) n' e' t'
    rw [findE_setE] at he2
    split at he2
    · rename_i hn; cases he2; subst hn
      refine ⟨_, by rw [hfut]; exact hset, ?_, ?_, ?_⟩
      · simp [evVal]; exact hregv.symm
      · intro hp'; simp [Task.pre] at hp'
      · intro _
        exact ⟨rfl, rfl, by rw [mem_touch]; exact Or.inr rfl, v, by simp [evVal], rfl⟩
    · rename_i hne
      rw [findE_evict] at he2
      split at he2
      · cases he2
      · rename_i hnotin
        obtain ⟨t1, ht1, hok⟩ := h.ent n' e' he2
        obtain ⟨t2, ht2, htn, _⟩ := h.st.entOk n' e' he2
        rw [ht1] at ht2; cases ht2
        have hef : e'.fut ≠ f := by
          intro hh; rw [hh, ht] at ht1; cases ht1; exact hne htn.symm
        refine ⟨t1, by rw [hoth _ hef]; exact ht1, hok.val, ?_, ?_⟩
        · intro hp'
          obtain ⟨a, b, hacc⟩ := hok.pre hp'
          refine ⟨a, b, fun hw => ?_⟩
          rw [mem_touch]
          rintro (⟨hm, _⟩ | hm)
          · exact hacc hw ((mem_evict_acc s ev n').mp hm).1
          · exact hne hm
        · intro hp'
          obtain ⟨a, b, hacc, r⟩ := hok.post hp'
          refine ⟨a, b, ?_, r⟩
          rw [mem_touch]
          exact Or.inl ⟨(mem_evict_acc s ev n').mpr ⟨hacc, hnotin⟩, hne⟩
  · -- accE
    intro x hx
    have hx' : x ∈ (evict s ev).acc.filter (· != t.name) ++ [t.name] := hx
    show (findE (setE (evict s ev).entries ⟨t.name, false, v.length, e.fut, true⟩) x).isSome = true
    rw [mem_touch] at hx'
    rw [findE_setE]
    rcases hx' with ⟨hm, hne⟩ | rfl
    · rw [if_neg hne, findE_evict]
      obtain ⟨hacc, hnotin⟩ := (mem_evict_acc s ev x).mp hm
      rw [if_neg hnotin]; exact h.accE x hacc
    · simp
  · -- noErr
    intro f' t' h' e'
    rcases hget f' t' h' with ⟨rfl, rfl⟩ | ⟨_, hold⟩
    · simp
    · exact h.noErr f' t' hold e'
  · -- kind
    intro f' t' h' hk
    rcases hget f' t' h' with ⟨rfl, rfl⟩ | ⟨_, hold⟩
    · simp at hk
    · exact h.kind f' t' hold hk
  · -- diskReg
    intro n' hH
    show dget s.disk n' = dget s.reg n'
    by_cases hcase : t.name = n' ∧ t.wr.isSome = true
    · obtain ⟨hn, hw⟩ := hcase
      subst hn
      cases hwr : t.wr with
      | none => simp [hwr] at hw
      | some p =>
        obtain ⟨d, fs⟩ := p
        have hd := h.written f t d fs ht hwr (Or.inr ⟨v, hpc⟩)
        have hv := (h.st.wrOk f t d fs ht hwr).2.2 v hpc
        rw [hd, hregv, hv]
    · apply h.diskReg n'
      intro f' t' h' hn hw
      by_cases hff : f' = f
      · subst hff; rw [ht] at h'; cases h'
        exact absurd ⟨hn, hw⟩ hcase
      · exact hH f' t' (by show (s.tasks.set f { t with pc := .complete (.ok v) })[f']? = some t'; rw [hoth f' hff]; exact h') hn hw
  · -- written
    intro f' t' d fs h' hw hpc'
    rcases hget f' t' h' with ⟨rfl, rfl⟩ | ⟨_, hold⟩
    · rcases hpc' with hpc' | ⟨_, hpc'⟩ <;> cases hpc'
    · exact h.written f' t' d fs hold hw hpc'
  · -- trunced
    intro f' t' h' hpc'
    rcases hget f' t' h' with ⟨rfl, rfl⟩ | ⟨_, hold⟩
    · cases hpc'
    · exact h.trunced f' t' hold hpc'
  · -- fitT
    intro f' t' h'
    rcases hget f' t' h' with ⟨rfl, rfl⟩ | ⟨_, hold⟩
    · exact ⟨by simp, by simp⟩
    · exact h.fitT f' t' hold
  · -- cl
    intro i c hc
    show ClOk s.max s.disk (s.tasks.set f { t with pc := .complete (.ok v) }) c
    exact ClOk_frame (fun _ hh => hh) hstable (h.cl i c hc)

theorem good_step {s s' : St} (h : Good s) (htr : Trans true s s') : Good s' := by
  have hst := struct_step h.st htr
  cases htr with
  | existsNF hc _ _ _ =>
    exact good_clients h hst (ClOk_finish (h.cl _ _ hc) ⟨(by simp), (by simp)⟩)
  | gsizeNF hc _ _ _ =>
    exact good_clients h hst (ClOk_finish (h.cl _ _ hc) ⟨(by simp), (by simp)⟩)
  | gsizeMem hc _ _ _ _ =>
    exact good_clients h hst (ClOk_finish (h.cl _ _ hc) ⟨(by simp), (by simp)⟩)
  | updMem hc _ _ _ =>
    exact good_clients h hst (ClOk_finish (h.cl _ _ hc) ⟨(by simp), (by simp)⟩)
  | updWaitOk hc _ _ _ =>
    exact good_clients h hst (ClOk_finish (h.cl _ _ hc) ⟨(by simp), (by simp)⟩)
  | updWaitErr hc _ _ hr =>
    obtain ⟨t, ht, hpc⟩ := taskRes_some hr
    exact absurd hpc (h.noErr _ t ht _).2
  | @getWait i c n rest f a exp r hc hops hpc hr =>
    obtain ⟨t, ht, hfin⟩ := taskRes_some hr
    obtain ⟨t', ht', hv⟩ := (h.cl _ _ hc).waitG n rest f a exp hops hpc
    rw [ht] at ht'; cases ht'
    cases r with
    | err e => exact absurd hfin (h.noErr _ t ht _).2
    | ok b =>
      refine good_clients h hst (ClOk_finish (h.cl _ _ hc) ⟨(by simp [resOfT]), ?_⟩)
      intro b' hb'
      simp only [resOfT] at hb'; cases hb'
      simp only [evVal, hfin] at hv
      exact hv.symm
  | @existsOk i c n rest b hc hops hpc hd =>
    refine good_clients h hst ⟨?_, ?_, (h.cl _ _ hc).res⟩
    · intro n' rest' claim _ hp; cases hp
    · intro n' rest' f a exp _ hp; cases hp
  | @gsizeOk i c n rest b hc hops hpc hd hb =>
    refine good_clients h hst ⟨?_, ?_, (h.cl _ _ hc).res⟩
    · intro n' rest' claim ho hp
      simp only at ho
      rw [hops] at ho; cases ho
      exact ⟨b, hd, by omega⟩
    · intro n' rest' f a exp _ hp; cases hp
  | @updBusy i c n d fs rest e hc hops hpc hd hf hw =>
    refine good_clients h hst ⟨?_, ?_, (h.cl _ _ hc).res⟩
    · intro n' rest' claim ho hp; simp only at ho; rw [hops] at ho; cases ho
    · intro n' rest' f a exp ho hp; simp only at ho; rw [hops] at ho; cases ho
  | @tRead f t b ht hpc hd =>
    obtain ⟨b', hb', hl⟩ := (h.fitT f t ht).1 hpc
    rw [hd] at hb'; cases hb'
    refine good_setT (dk := s.disk) h hst ht (by simp [Task.pre, hpc]) (by simp [evVal, hpc, hd])
      (DiskStep_refl s t) (by simp) (by simp) ?_ (by simp) ⟨by simp, by intro v hv; cases hv; exact hl⟩
    intro d fs hw _
    exact absurd hpc (h.st.wrOk f t d fs ht hw).2.1
  | @tReadNF f t ht hpc hd =>
    obtain ⟨b', hb', _⟩ := (h.fitT f t ht).1 hpc
    rw [hd] at hb'; cases hb'
  | @tTrunc f t ht hpc =>
    have hw := h.kind f t ht (Or.inl hpc)
    refine good_setT h hst ht (by simp [Task.pre, hpc]) (by simp [evVal, hpc])
      (DiskStep_dset [] (by simp [Task.pre, hpc]) hw (by simp [hpc]) (by simp))
      (by simp) (fun _ => hw) (by simp) (fun _ => dget_dset_same _ _ _) ⟨by simp, by simp⟩
  | @tWrite f t d fs ht hpc hw =>
    have hsz := (h.st.wrOk f t d fs ht hw).1
    have hov : overwrite ((dget s.disk t.name).getD []) d = d := by
      simp [h.trunced f t ht hpc, overwrite]
    rw [hov] at hst ⊢
    refine good_setT h hst ht (by cases fs <;> simp [Task.pre, hpc]) (by cases fs <;> simp [evVal, hpc, hw])
      (DiskStep_dset d (by simp [Task.pre, hpc]) (by simp [hw]) (by simp [hpc]) hsz)
      (by cases fs <;> simp) (fun _ => by simp [hw]) ?_ (by cases fs <;> simp) ⟨by cases fs <;> simp, ?_⟩
    · intro d' fs' hw' _
      rw [hw] at hw'; cases hw'
      exact dget_dset_same _ _ _
    · intro v hv
      cases fs
      · simp at hv; subst hv; exact hsz
      · simp at hv
  | @tFsync f t d fs ht hpc hw =>
    have hsz := (h.st.wrOk f t d fs ht hw).1
    refine good_setT (dk := s.disk) h hst ht (by simp [Task.pre, hpc]) (by simp [evVal, hpc, hw])
      (DiskStep_refl s t) (by simp) (by simp) ?_ (by simp) ⟨by simp, by intro v hv; cases hv; exact hsz⟩
    intro d' fs' hw' _
    exact h.written f t d' fs' ht hw' (Or.inl hpc)
  | @tFinBig f t v ht hpc hbig =>
    have := (h.fitT f t ht).2 v hpc
    omega
  | @tComplete f t r ht hpc =>
    have hne := h.noErr f t ht
    refine good_setT (dk := s.disk) h hst ht (by simp [Task.pre, hpc]) ?_
      (DiskStep_refl s t) ?_ (by simp) (by simp) (by simp) ⟨by simp, by simp⟩
    · cases r <;> simp [evVal, hpc]
    · intro e
      constructor
      · simp
      · intro hh; cases hh; exact (hne e).1 hpc
  | glockMiss hc hops hpc hf => exact good_glockMiss h hst hc hops hpc hf
  | glockHit hc hops hpc hf => exact good_glockHit h hst hc hops hpc hf
  | updApply hc hops _ _ hnw hsafe => exact good_updApply h hst hc hops hnw (hsafe rfl)
  | unload hc _ _ hsafe => exact good_unload h hst hc (hsafe rfl)
  | @tFinGone f t v ev ht hpc _ hleg hnone =>
    obtain ⟨hall, _⟩ := legalEv_parts hleg
    obtain ⟨e, _, _, _, hfe⟩ := (fin_facts h ht hpc hall).e
    rw [hnone] at hfe; cases hfe
  | tFinCache ht hpc _ hleg hsome _ => exact good_tFinCache h hst ht hpc hleg hsome
  | @tFinNoCache f t v ev e ht hpc _ hleg _ hnfit =>
    exact absurd (fin_fits h ht hpc hleg) hnfit

/-! ------------------------------------------------------------------------------------
  ## Property theorems (C18)
------------------------------------------------------------------------------------- -/

theorem good_reachable (max : Nat) (disk : Disk) (progs : List (List Op)) (sched : List Step) (s' : St)
    (h : runSafe (init max disk progs) sched = some s') : Good s' :=
  runSafe_induct Good (fun _ _ hp htr => good_step hp htr) sched _ _ (good_init max disk progs) h

/-- **writers_serialised**: along every schedule in which no update/unload of a file takes the
    lock while a load of that file is in flight (and no unload while a write is), at most one
    task per file is in flight at any time — in particular at most one write task between an
    update that saw `writing = False` and its completion — and while a write task is in flight
    the entry of its file is marked `writing` and points to it (so every other update of the
    file takes the `not applied` branch and waits for it). -/
theorem writers_serialised (max : Nat) (disk : Disk) (progs : List (List Op)) (sched : List Step) (s' : St)
    (h : runSafe (init max disk progs) sched = some s') :
    (∀ (f1 f2 : Nat) (t1 t2 : Task), s'.tasks[f1]? = some t1 → s'.tasks[f2]? = some t2 →
        t1.pre = true → t2.pre = true → t1.name = t2.name → f1 = f2) ∧
    (∀ (f : Nat) (t : Task), s'.tasks[f]? = some t → t.pre = true → t.wr.isSome = true →
        ∃ e, findE s'.entries t.name = some e ∧ e.fut = f ∧ e.writing = true) := by
  have hg := good_reachable max disk progs sched s' h
  refine ⟨fun f1 f2 t1 t2 h1 h2 p1 p2 hn => hg.uniq h1 h2 p1 p2 hn, ?_⟩
  intro f t ht hp hw
  obtain ⟨e, he, hfut⟩ := hg.own f t ht hp
  obtain ⟨t', ht', hok⟩ := hg.ent _ e he
  rw [hfut, ht] at ht'; cases ht'
  exact ⟨e, he, hfut, ((hok.pre hp).2.1).mpr hw⟩

/-- sum of the byte counts of all cached entries -/
def total (es : List Entry) : Int := (es.map fun e => (e.size : Int)).sum

/-- what the property demands of every state (`results`) and of quiescent states -/
structure Agreement (s : St) : Prop where
  /-- no call raised, and every get that returned data returned the register value (= data of
      the last update that took the `applied` branch, or the initial contents) at the instant
      it held the lock -/
  results : ∀ (i : Nat) (c : Client) (r : Done), s.clients[i]? = some c → r ∈ c.results →
      (∀ e, r.res ≠ .raised e) ∧ (∀ b, r.res = .data b → r.exp = some b)
  /-- when all calls and tasks have finished: memory accounting = sum of the cached entries -/
  acct : quiescent s = true → s.mem = total s.entries
  /-- … every cached entry is complete, not `writing`, and equals the file on disk -/
  cache : quiescent s = true → ∀ n e, findE s.entries n = some e →
      e.writing = false ∧ ∃ v, taskRes s e.fut = some (.ok v) ∧ dget s.disk n = some v ∧ e.size = v.length
  /-- … and every file on disk holds the last successful update (the register) -/
  disk : quiescent s = true → ∀ n, dget s.disk n = dget s.reg n

theorem quiescent_fin {s : St} (h : quiescent s = true) {f : Nat} {t : Task} (ht : s.tasks[f]? = some t) :
    ∃ r, t.pc = .finished r := by
  unfold quiescent at h
  simp only [Bool.and_eq_true, List.all_eq_true] at h
  have := h.2 t (List.mem_of_getElem? ht)
  split at this
  · rename_i r hr; exact ⟨r, hr⟩
  · cases this

theorem counted_eq_total (es : List Entry) (h : ∀ e, e ∈ es → e.counted = true) : counted es = total es := by
  induction es with
  | nil => rfl
  | cons a as ih =>
    rw [counted_cons, ih (fun e he => h e (by simp [he])), h a (by simp)]
    simp [total]

theorem good_agreement {s : St} (hg : Good s) : Agreement s := by
  refine ⟨fun i c r hc hr => (hg.cl i c hc).res r hr, ?_, ?_, ?_⟩
  · intro hq
    rw [hg.acct]
    apply counted_eq_total
    intro e he
    have hf := findE_of_mem hg.st.nodupE he
    obtain ⟨t, ht, hok⟩ := hg.ent _ e hf
    obtain ⟨r, hr⟩ := quiescent_fin hq ht
    exact (hok.post (by simp [Task.pre, hr])).1
  · intro hq n e he
    obtain ⟨t, ht, hok⟩ := hg.ent n e he
    obtain ⟨r, hr⟩ := quiescent_fin hq ht
    obtain ⟨_, hw, _, v, hv, hsz⟩ := hok.post (by simp [Task.pre, hr])
    have hdr : dget s.disk n = dget s.reg n := by
      apply hg.diskReg
      intro f' t' ht' _ _
      obtain ⟨r', hr'⟩ := quiescent_fin hq ht'
      simp [Task.pre, hr']
    refine ⟨hw, v, ?_, ?_, hsz⟩
    · cases r with
      | ok b =>
        simp [evVal, hr] at hv; subst hv
        simp [taskRes, ht, hr]
      | err x => exact absurd hr (hg.noErr _ t ht x).2
    · rw [hdr, ← hok.val]; exact hv
  · intro hq n
    apply hg.diskReg
    intro f' t' ht' _ _
    obtain ⟨r', hr'⟩ := quiescent_fin hq ht'
    simp [Task.pre, hr']

/-- **lin_partial**: for every number of clients, every program, every eviction choice and every
    schedule in which no update or unload of a file takes the lock while a load of that file is
    in flight and no unload takes the lock while a write of that file is in flight (`runSafe`):
    no call ever raises, every get that returns data returns the register value at its lock
    instant (linearization points: lock blocks), and whenever all calls and tasks have finished
    the file on disk, the cached contents and the last successful update agree and the memory
    accounting equals the sum of the cached entries. -/
theorem lin_partial (max : Nat) (disk : Disk) (progs : List (List Op)) (sched : List Step) (s' : St)
    (h : runSafe (init max disk progs) sched = some s') : Agreement s' :=
  good_agreement (good_reachable max disk progs sched s' h)

/-- the property at full strength: the same for **every** schedule -/
def lin_full : Prop :=
  ∀ (max : Nat) (disk : Disk) (progs : List (List Op)) (sched : List Step) (s' : St),
    run (init max disk progs) sched = some s' → Agreement s'

/-! ### the excluded windows are real: counterexample schedules (kernel-checked by `decide`) -/

def holds (o : Option St) (p : St → Bool) : Bool :=
  match o with
  | some s => p s
  | none => false

theorem holds_elim {o : Option St} {p : St → Bool} (h : holds o p = true) : ∃ s, o = some s ∧ p s = true := by
  cases o with
  | none => cases h
  | some s => exact ⟨s, rfl, h⟩

def OLD : Bytes := [79, 76, 68]
def NEW6 : Bytes := [78, 69, 87, 78, 69, 87]
def XY : Bytes := [88, 89]

/-- number of write tasks of file `n` whose completion block has not run -/
def writersInFlight (s : St) (n : Name) : Nat :=
  (s.tasks.filter fun t => t.name == n && t.pre && t.wr.isSome).length

def cs (i : Nat) (l : Lbl) : Step := ⟨.client i, l, []⟩
def ks (f : Nat) (l : Lbl) : Step := ⟨.task f, l, []⟩

/-- (i) an update arriving while a load of the same file is in flight: `_unload_file` subtracts
    a claim that was never added, and the load's completion block clears the `writing` flag of
    the in-flight write … -/
def schedI_prefix : List Step :=
  [cs 0 .exists_, cs 0 .getsize, cs 0 .lock,      -- get f: miss, load K0 submitted
   cs 1 .lock,                                  -- update f NEWNEW during the load: write K1 submitted
   ks 0 .read, ks 0 .lock,                       -- load completes: entry f := (False, 3, K1)
   cs 2 .lock]                                  -- second update sees writing = False: write K2 submitted
def schedI_rest : List Step :=
  [ks 1 .trunc, ks 1 .write, ks 2 .trunc, ks 2 .write, ks 1 .lock, ks 1 .complete, ks 2 .lock, ks 2 .complete,
   ks 0 .complete, cs 0 .wait, cs 1 .wait, cs 2 .wait]
def progsI : List (List Op) := [[.get "f"], [.update "f" NEW6 false], [.update "f" XY false]]

/-- … so two write tasks of one file are in flight at once, and at quiescence the byte total is
    5 for a single cached entry of 2 bytes -/
theorem cex_update_during_load :
    holds (run (init 64 [("f", OLD)] progsI) schedI_prefix) (fun s => writersInFlight s "f" == 2) = true ∧
    holds (run (init 64 [("f", OLD)] progsI) (schedI_prefix ++ schedI_rest))
      (fun s => quiescent s && s.mem == 5 && total s.entries == 2) = true := by
  decide

/-- (ii) the loader reads between the writer's truncate and its write: the get returns empty
    bytes — neither the initial contents nor the update -/
def schedII : List Step :=
  [cs 0 .exists_, cs 0 .getsize, cs 0 .lock, cs 1 .lock, ks 1 .trunc, ks 0 .read, ks 0 .lock, ks 0 .complete,
   cs 0 .wait, ks 1 .write, ks 1 .lock, ks 1 .complete, cs 1 .wait]

theorem cex_read_between_trunc_and_write :
    holds (run (init 64 [("f", OLD)] [[.get "f"], [.update "f" NEW6 false]]) schedII)
      (fun s => quiescent s &&
        (s.clients.map (·.results)) == [[⟨.data [], some OLD⟩], [⟨.applied true, none⟩]]) = true := by
  decide

/-- (iii) unload during a load: the worker's `assert info is not None` fails, the get raises,
    and the byte total is −3 with an empty cache -/
def schedIII : List Step :=
  [cs 0 .exists_, cs 0 .getsize, cs 0 .lock, cs 1 .lock, ks 0 .read, ks 0 .lock, ks 0 .complete, cs 0 .wait]

theorem cex_unload_during_load :
    holds (run (init 64 [("f", OLD)] [[.get "f"], [.unload "f"]]) schedIII)
      (fun s => quiescent s && s.mem == -3 && s.entries.isEmpty &&
        (s.clients.map (·.results)) == [[⟨.raised .assertion, some OLD⟩], [⟨.done, none⟩]]) = true := by
  decide

/-- (iv) unload during a write: same assertion in the write worker, the update raises, byte
    total −6 -/
def schedIV : List Step :=
  [cs 0 .lock, cs 1 .lock, ks 0 .trunc, ks 0 .write, ks 0 .lock, ks 0 .complete, cs 0 .wait]

theorem cex_unload_during_write :
    holds (run (init 64 [("f", OLD)] [[.update "f" NEW6 false], [.unload "f"]]) schedIV)
      (fun s => quiescent s && s.mem == -6 && s.entries.isEmpty &&
        (s.clients.map (·.results)) == [[⟨.raised .assertion, none⟩], [⟨.done, none⟩]]) = true := by
  decide

/-- the full-strength statement is false of the code as it stands -/
theorem not_lin_full : ¬ lin_full := by
  intro hfull
  obtain ⟨s, hs, hp⟩ := holds_elim cex_unload_during_load
  have ha := hfull _ _ _ _ s hs
  simp only [Bool.and_eq_true, beq_iff_eq] at hp
  obtain ⟨⟨⟨hq, hmem⟩, hemp⟩, _⟩ := hp
  have h1 := ha.acct hq
  have : s.entries = [] := by simpa using hemp
  rw [this, hmem] at h1
  simp [total] at h1

/-! ### non-vacuity: concurrent schedules that satisfy the hypothesis of the partial theorems -/

/-- two clients, update ∥ get of a cached file, interleaved at every step, with a third client
    unloading another file: the schedule is `runSafe`, ends quiescent, and the get returns the
    update's data (it took the lock after the update) -/
example :
    holds (runSafe (init 64 [("f", OLD), ("g", XY)]
             [[.get "f"], [.update "f" NEW6 true], [.get "f"], [.get "g", .unload "g"]])
      [cs 0 .exists_, cs 0 .getsize, cs 0 .lock, ks 0 .read, ks 0 .lock, ks 0 .complete, cs 0 .wait,
       cs 2 .exists_, cs 1 .lock, cs 3 .exists_, ks 1 .trunc, cs 2 .getsize, cs 3 .getsize, cs 2 .lock, cs 3 .lock,
       ks 1 .write, ks 2 .read, ks 1 .fsync, ks 2 .lock, ks 1 .lock, ks 2 .complete, cs 3 .wait, ks 1 .complete,
       cs 3 .lock, cs 2 .wait, cs 1 .wait])
      (fun s => quiescent s && s.mem == 6 &&
        (s.clients.map (·.results)) ==
          [[⟨.data OLD, some OLD⟩], [⟨.applied true, none⟩], [⟨.data NEW6, some NEW6⟩],
           [⟨.data XY, some XY⟩, ⟨.done, none⟩]]) = true := by
  decide

/-- eviction under concurrency with a legal choice: limit 6, `f` (3 bytes) cached, an update of
    `g` to 6 bytes must evict `f` in its completion block -/
example :
    holds (runSafe (init 6 [("f", OLD), ("g", XY)] [[.get "f"], [.update "g" NEW6 false], [.get "f"]])
      [cs 0 .exists_, cs 0 .getsize, cs 0 .lock, ks 0 .read, ks 0 .lock, ks 0 .complete, cs 0 .wait,
       cs 1 .lock, cs 2 .exists_, ks 1 .trunc, cs 2 .getsize, ks 1 .write, cs 2 .lock, ⟨.task 1, .lock, ["f"]⟩,
       cs 2 .wait, ks 1 .complete, cs 1 .wait])
      (fun s => quiescent s && s.mem == 6 && total s.entries == 6 && s.acc == ["g"]) = true := by
  decide

end Klong.C18
