/-
  C01 — structural verbs: implementation model (Python slicing / tile / concatenate / roll
  index arithmetic) = reference, for every list length and every integer count.
-/
import Klong.Model.C01
namespace Klong.C01
open Klong

/-- **drop_correct**: `b[a:] if a >= 0 else b[:a]` is Drop, for every count (negative,
    zero, overshooting) and every list -/
theorem drop_correct {α} (a : Int) (b : List α) : implDrop a b = refDrop a b := by
  unfold implDrop refDrop slice pyClamp
  by_cases h : a ≥ 0
  · simp only [h, if_true]
    have h1 : ¬ a < 0 := by omega
    simp only [h1, if_false]
    by_cases h2 : a.toNat ≤ b.length
    · have e1 : min a.toNat b.length = a.natAbs := by omega
      rw [e1]
      apply List.take_of_length_le
      simp
    · have e1 : min a.toNat b.length = b.length := by omega
      rw [e1]
      have : b.length ≤ a.natAbs := by omega
      simp [List.drop_eq_nil_of_le this]
  · simp only [h, if_false]
    have h1 : a < 0 := by omega
    simp only [h1, if_true]
    simp
    congr 1
    omega

/-- **reverse_correct**: `a[::-1]` is Reverse -/
theorem reverse_correct {α} [Inhabited α] (b : List α) : implReverse b = refReverse b := by
  unfold implReverse refReverse
  apply List.ext_getElem
  · simp
  · intro i h1 h2
    simp at h1
    simp [List.getElem_reverse]
    rw [List.getElem?_eq_getElem (by omega)]
    simp

/-- **rotate_correct**: `np.roll(b, a)` (element i moves to (i+a) mod n) is Rotate: drop
    `a!#b` elements from the end and append them to the front -/
theorem rotate_correct {α} [Inhabited α] (a : Int) (b : List α) : implRotate a b = refRotate a b := by
  unfold implRotate refRotate npRoll
  by_cases hn : b.length = 0
  · have : b = [] := List.eq_nil_of_length_eq_zero hn
    subst this
    simp
  · simp only [hn, if_false]
    have hnpos : (0 : Int) < (b.length : Int) := by omega
    have hk0 : 0 ≤ a % (b.length : Int) := Int.emod_nonneg _ (by omega)
    have hk1 : a % (b.length : Int) < (b.length : Int) := Int.emod_lt_of_pos _ hnpos
    by_cases ha : a = 0
    · subst ha
      simp
    · simp only [ha, if_false]
      generalize hk : (a % (b.length : Int)).toNat = k
      have hkn : k < b.length := by omega
      have hkk : (k : Int) = a % (b.length : Int) := by omega
      apply List.ext_getElem
      · simp
      · intro i h1 h2
        simp at h1
        simp only [List.getElem_map, List.getElem_range]
        have hmod : ((i : Int) - a) % (b.length : Int) = ((i : Int) - k) % (b.length : Int) := by
          rw [hkk, Int.sub_emod (↑i) a, Int.sub_emod (↑i) (a % _), Int.emod_emod]
        rw [hmod]
        rw [List.getElem_append]
        by_cases hik : i < k
        · have e : ((i : Int) - k) % (b.length : Int) = (i : Int) - k + b.length := by
            rw [← Int.add_emod_right]
            exact Int.emod_eq_of_lt (by omega) (by omega)
          rw [e]
          have hlen : i < (List.drop (b.length - k) b).length := by simp; omega
          rw [dif_pos hlen, List.getElem_drop]
          have e2 : ((i : Int) - k + b.length).toNat = b.length - k + i := by omega
          rw [e2, List.getD_eq_getElem?_getD, List.getElem?_eq_getElem (by omega)]
          simp
        · have e : ((i : Int) - k) % (b.length : Int) = (i : Int) - k := by
            exact Int.emod_eq_of_lt (by omega) (by omega)
          rw [e]
          have hlen : ¬ i < (List.drop (b.length - k) b).length := by simp; omega
          rw [dif_neg hlen, List.getElem_take]
          have e2 : ((i : Int) - k).toNat = i - (List.drop (b.length - k) b).length := by
            simp; omega
          rw [e2, List.getD_eq_getElem?_getD, List.getElem?_eq_getElem (by simp; omega)]
          simp

/-! ### Take: windows of the endless repetition of `b` -/

/-- `len` consecutive elements of the endless repetition of `b`, starting at `s` -/
def window {α} [Inhabited α] (b : List α) (s len : Nat) : List α :=
  (List.range len).map (fun i => cyc b (s + i))

section
variable {α : Type _} [Inhabited α]

@[simp] theorem window_length (b : List α) (s len : Nat) : (window b s len).length = len := by
  simp [window]

theorem getElem_window (b : List α) (s len i : Nat) (h : i < (window b s len).length) :
    (window b s len)[i] = cyc b (s + i) := by
  simp [window]

theorem cyc_add_mul (b : List α) (i k : Nat) : cyc b (i + k * b.length) = cyc b i := by
  unfold cyc
  rw [Nat.add_mul_mod_self_right]

theorem window_add_mul (b : List α) (s k len : Nat) :
    window b (s + k * b.length) len = window b s len := by
  unfold window
  apply List.map_congr_left
  intro i _
  have : s + k * b.length + i = (s + i) + k * b.length := by omega
  rw [this, cyc_add_mul]

theorem window_append (b : List α) (s l1 l2 : Nat) :
    window b s l1 ++ window b (s + l1) l2 = window b s (l1 + l2) := by
  unfold window
  rw [List.range_add, List.map_append, List.map_map]
  congr 1
  apply List.map_congr_left
  intro i _
  simp [Nat.add_assoc]

theorem window_take (b : List α) (s len j : Nat) :
    (window b s len).take j = window b s (min j len) := by
  unfold window
  rw [← List.map_take, List.take_range]

theorem window_drop (b : List α) (s len j : Nat) :
    (window b s len).drop j = window b (s + j) (len - j) := by
  apply List.ext_getElem
  · simp
  · intro i h1 h2
    rw [List.getElem_drop, getElem_window, getElem_window, Nat.add_assoc]

theorem self_eq_window (b : List α) : b = window b 0 b.length := by
  apply List.ext_getElem
  · simp
  · intro i h1 h2
    rw [getElem_window]
    unfold cyc
    rw [Nat.zero_add, Nat.mod_eq_of_lt h1, List.getD_eq_getElem?_getD, List.getElem?_eq_getElem h1]
    simp

theorem take_self (b : List α) (j : Nat) : b.take j = window b 0 (min j b.length) := by
  conv => lhs; rw [self_eq_window b]
  rw [window_take]

theorem drop_self (b : List α) (j : Nat) : b.drop j = window b j (b.length - j) := by
  conv => lhs; rw [self_eq_window b]
  rw [window_drop, Nat.zero_add]

theorem tile_eq_window (b : List α) (k : Nat) : tile b k = window b 0 (k * b.length) := by
  induction k with
  | zero => simp [tile, window]
  | succ k ih =>
    unfold tile
    rw [ih]
    conv => lhs; arg 1; rw [self_eq_window b]
    have h := window_add_mul b 0 1 (k * b.length)
    rw [Nat.one_mul] at h
    rw [← h, window_append, Nat.succ_mul, Nat.add_comm]

theorem window_eq_of (b : List α) (s1 s2 j1 j2 len1 len2 : Nat)
    (h : s1 + j1 * b.length = s2 + j2 * b.length) (hl : len1 = len2) :
    window b s1 len1 = window b s2 len2 := by
  subst hl
  rw [← window_add_mul b s1 j1, h, window_add_mul]

end

theorem slice_none_some {α} (xs : List α) (i : Int) (h : 0 ≤ i) :
    slice xs none (some i) = xs.take i.toNat := by
  unfold slice pyClamp
  have : ¬ i < 0 := by omega
  simp only [this, if_false, List.drop_zero, Nat.sub_zero]
  rw [List.take_eq_take_iff]
  omega

theorem slice_some_none_neg {α} (xs : List α) (i : Int) (h : i < 0) :
    slice xs (some i) none = xs.drop (xs.length - i.natAbs) := by
  unfold slice pyClamp
  simp only [h, if_true]
  have : (↑xs.length + i).toNat = xs.length - i.natAbs := by omega
  rw [this]
  apply List.take_of_length_le
  simp

theorem slice_some_none_nonneg {α} (xs : List α) (i : Int) (h : 0 ≤ i) :
    slice xs (some i) none = xs.drop i.toNat := by
  unfold slice pyClamp
  have : ¬ i < 0 := by omega
  simp only [this, if_false]
  rw [List.take_of_length_le (by simp)]
  by_cases h2 : i.toNat ≤ xs.length
  · rw [Nat.min_eq_left h2]
  · have h3 : xs.length ≤ i.toNat := by omega
    rw [Nat.min_eq_right h3, List.drop_eq_nil_of_le h3, List.drop_eq_nil_of_le (Nat.le_refl _)]

/-- **take_correct**: the tile / concatenate / slice arithmetic of `eval_dyad_take` is cyclic
    extraction of |a| elements from the front (back when negative) -/
theorem take_correct {α} [Inhabited α] (a : Int) (b : List α) : implTake a b = refTake a b := by
  unfold implTake refTake
  dsimp only
  by_cases hn : b.length = 0
  · simp only [hn, if_true]
    exact List.eq_nil_of_length_eq_zero hn
  · simp only [hn, if_false]
    generalize hm : a.natAbs = m
    have w0 : List.map (fun i => cyc b i) (List.range m) = window b 0 m := by simp [window]
    have w1 : List.map (fun i => cyc b (b.length - m % b.length + i)) (List.range m)
        = window b (b.length - m % b.length) m := rfl
    rw [w0, w1]
    clear w0 w1
    have hnpos : 0 < b.length := by omega
    by_cases hgt : m > b.length
    · simp only [hgt, if_true, tile_eq_window, window_length]
      have hr : m % b.length < b.length := Nat.mod_lt _ hnpos
      have hdiv : b.length * (m / b.length) + m % b.length = m := Nat.div_add_mod m b.length
      have hk : 0 < m / b.length := Nat.div_pos (by omega) hnpos
      generalize m / b.length = k at *
      generalize m % b.length = r at *
      rw [Nat.mul_comm] at hdiv
      have hKn : b.length ≤ k * b.length := Nat.le_mul_of_pos_left _ hk
      generalize hK : k * b.length = K at *
      have e : (m : Int) - (K : Int) = (r : Int) := by omega
      rw [e]
      by_cases hpos : a > 0
      · have h1 : ¬ a < 0 := by omega
        have h2 : a ≥ 0 := by omega
        simp only [hpos, h1, h2, if_true, if_false]
        rw [slice_none_some _ _ (by omega), slice_none_some _ _ (by omega), window_take]
        have h3 : min (r : Int).toNat K = r := by omega
        rw [h3]
        have h4 := window_add_mul b 0 k r
        rw [hK] at h4
        rw [← h4, window_append, List.take_of_length_le (by simp; omega)]
        congr 1
      · have h1 : a < 0 := by omega
        have h2 : ¬ a ≥ 0 := by omega
        simp only [hpos, h1, h2, if_true, if_false]
        obtain ⟨k', rfl⟩ : ∃ k', k = k' + 1 := ⟨k - 1, by omega⟩
        rw [Nat.succ_mul] at hK
        by_cases hr0 : r = 0
        · subst hr0
          have e0 : -((0 : Nat) : Int) = 0 := by simp
          rw [e0, slice_some_none_nonneg _ _ (Int.le_refl 0)]
          simp only [Int.toNat_zero, List.drop_zero]
          have hc : window b 0 K ++ window b 0 K = window b 0 (K + K) := by
            have h5 := window_append b 0 K K
            rwa [window_eq_of b (0 + K) 0 0 (k' + 1) K K (by rw [Nat.succ_mul]; omega) rfl] at h5
          rw [hc, slice_some_none_neg _ _ h1, hm, window_length, window_drop]
          apply window_eq_of b _ _ 0 k'
          · omega
          · omega
        · have e0 : (-(r : Int)).natAbs = r := by omega
          rw [slice_some_none_neg (window b 0 K) (-(r : Int)) (by omega), e0, window_length,
            window_drop]
          have hc : window b (0 + (K - r)) (K - (K - r)) ++ window b 0 K
              = window b (0 + (K - r)) (K - (K - r) + K) := by
            have h5 := window_append b (0 + (K - r)) (K - (K - r)) K
            rwa [window_eq_of b (0 + (K - r) + (K - (K - r))) 0 0 (k' + 1) K K
              (by rw [Nat.succ_mul]; omega) rfl] at h5
          rw [hc, slice_some_none_neg _ _ h1, hm, window_length, window_drop]
          apply window_eq_of b _ _ 0 k'
          · omega
          · omega
    · simp only [hgt, if_false]
      by_cases hneg : a < 0
      · have h2 : ¬ a ≥ 0 := by omega
        simp only [hneg, h2, if_true, if_false]
        rw [slice_some_none_neg _ _ hneg, hm, drop_self]
        by_cases hlt : m < b.length
        · rw [Nat.mod_eq_of_lt hlt]
          apply window_eq_of b _ _ 0 0 <;> omega
        · have : m = b.length := by omega
          subst this
          rw [Nat.mod_self]
          apply window_eq_of b _ _ 1 0 <;> omega
      · have h2 : a ≥ 0 := by omega
        simp only [hneg, h2, if_true, if_false]
        rw [slice_none_some _ _ h2, take_self]
        apply window_eq_of b _ _ 0 0 <;> omega

/-- closed form of the reference Split: segment `i` is `b[i*a : i*a+a]` -/
theorem refSplitN_formula {α} (a : Nat) (ha : 0 < a) :
    ∀ (fuel : Nat) (b : List α), b.length < fuel →
      refSplitN fuel a b =
        (List.range ((b.length + a - 1) / a)).map (fun i => (b.drop (i * a)).take a) := by
  intro fuel
  induction fuel with
  | zero => intro b h; omega
  | succ fuel ih =>
    intro b h
    unfold refSplitN
    by_cases hb : b = []
    · subst hb
      simp; omega
    · have hlen : 0 < b.length := List.length_pos_iff.mpr hb
      have hemp : b.isEmpty = false := by simp [hb]
      simp only [hemp]
      have hlt : (b.drop a).length < fuel := by simp; omega
      rw [ih _ hlt]
      have hcnt : (b.length + a - 1) / a = ((b.drop a).length + a - 1) / a + 1 := by
        simp only [List.length_drop]
        by_cases hle : a ≤ b.length
        · have : b.length + a - 1 = (b.length - a + a - 1) + a := by omega
          rw [this, Nat.add_div_right _ ha]
        · have h1 : b.length - a = 0 := by omega
          rw [h1]
          have h2 : (0 + a - 1) / a = 0 := Nat.div_eq_of_lt (by omega)
          rw [h2]
          have h3 : b.length + a - 1 = (b.length - 1) + a := by omega
          rw [h3, Nat.add_div_right _ ha, Nat.div_eq_of_lt (by omega)]
      rw [hcnt, List.range_succ_eq_map]
      simp only [List.map_cons, List.map_map, Nat.zero_mul, List.drop_zero, Bool.false_eq_true, if_false]
      congr 1
      apply List.map_congr_left
      intro i _
      simp only [Function.comp, List.drop_drop]
      congr 2
      rw [Nat.succ_mul]; omega

/-- **split_correct**: segments of size `a`, the last may be shorter (repaired code) -/
theorem split_correct {α} (a : Nat) (b : List α) (ha : 0 < a) :
    implSplitN a b = refSplitN (b.length + 1) a b := by
  rw [refSplitN_formula a ha _ b (by omega)]
  unfold implSplitN
  by_cases hn : b.length = 0
  · have : b = [] := List.eq_nil_of_length_eq_zero hn
    subst this
    simp; omega
  · simp only [hn, if_false]
    by_cases hge : a ≥ b.length
    · simp only [hge, if_true]
      have h3 : b.length + a - 1 = (b.length - 1) + a := by omega
      rw [h3, Nat.add_div_right _ ha, Nat.div_eq_of_lt (by omega)]
      simp [List.take_of_length_le hge]
    · simp only [hge, if_false]

/-- the pinned `array_split` version is wrong: 3:#[1 2 3 4] -/
theorem split_pinned_wrong :
    implSplitN_pinned 3 [1, 2, 3, 4] ≠ refSplitN 5 3 [1, 2, 3, 4] := by
  decide

end Klong.C01
