/-
  C01 — structural verbs: implementation model (Python slicing / tile / concatenate / roll
  index arithmetic) = reference, for every list length and every integer count.
-/
import Klong.Model.C01
namespace Klong.C01
open Klong

/-- **drop_correct**: `b[a:] if a >= 0 else b[:a]` is Drop, for every count (negative,
    zero, overshooting) and every list -/
theorem drop_correct {α} (a : Int) (b : List α) : implDrop a b = refDrop a b := by
  sorry

/-- **reverse_correct**: `a[::-1]` is Reverse -/
theorem reverse_correct {α} [Inhabited α] (b : List α) : implReverse b = refReverse b := by
  sorry

/-- **rotate_correct**: `np.roll(b, a)` (element i moves to (i+a) mod n) is Rotate: drop
    `a!#b` elements from the end and append them to the front -/
theorem rotate_correct {α} [Inhabited α] (a : Int) (b : List α) : implRotate a b = refRotate a b := by
  sorry

/-- **take_correct**: the tile / concatenate / slice arithmetic of `eval_dyad_take` is cyclic
    extraction of |a| elements from the front (back when negative) -/
theorem take_correct {α} [Inhabited α] (a : Int) (b : List α) : implTake a b = refTake a b := by
  sorry

/-- **split_correct**: segments of size `a`, the last may be shorter (repaired code) -/
theorem split_correct {α} (a : Nat) (b : List α) (ha : 0 < a) :
    implSplitN a b = refSplitN (b.length + 1) a b := by
  sorry

/-- the pinned `array_split` version is wrong: 3:#[1 2 3 4] -/
theorem split_pinned_wrong :
    implSplitN_pinned 3 [1, 2, 3, 4] ≠ refSplitN 5 3 [1, 2, 3, 4] := by
  decide

end Klong.C01
