/-
  C01 — structural verbs: implementation model (Python slicing / tile / concatenate / roll
  index arithmetic) = reference, for every list length and every integer count.
-/
import Klong.Model.C01
namespace Klong.C01
open Klong

/-- **drop_correct**: `b[a:] if a >= 0 else b[:a]` is Drop, for every count (negative,
    zero, overshooting) and every list -/
theorem drop_correct {α} (a : Int) (b : List α) : implDrop a b = refDrop a b := by
  unfold implDrop refDrop slice pyClamp
  by_cases h : a ≥ 0
  · simp only [h, if_true]
    have h1 : ¬ a < 0 := by omega
    simp only [h1, if_false]
    by_cases h2 : a.toNat ≤ b.length
    · have e1 : min a.toNat b.length = a.natAbs := by omega
      rw [e1]
      apply List.take_of_length_le
      simp
    · have e1 : min a.toNat b.length = b.length := by omega
      rw [e1]
      have : b.length ≤ a.natAbs := by omega
      simp [List.drop_eq_nil_of_le this]
  · simp only [h, if_false]
    have h1 : a < 0 := by omega
    simp only [h1, if_true]
    simp
    congr 1
    omega

/-- **reverse_correct**: `a[::-1]` is Reverse -/
theorem reverse_correct {α} [Inhabited α] (b : List α) : implReverse b = refReverse b := by
  unfold implReverse refReverse
  apply List.ext_getElem
  · simp
  · intro i h1 h2
    simp at h1
    simp [List.getElem_reverse]
    rw [List.getElem?_eq_getElem (by omega)]
    simp

/-- **rotate_correct**: `np.roll(b, a)` (element i moves to (i+a) mod n) is Rotate: drop
    `a!#b` elements from the end and append them to the front -/
theorem rotate_correct {α} [Inhabited α] (a : Int) (b : List α) : implRotate a b = refRotate a b := by
  unfold implRotate refRotate npRoll
  by_cases hn : b.length = 0
  · have : b = [] := List.eq_nil_of_length_eq_zero hn
    subst this
    simp
  · simp only [hn, if_false]
    have hnpos : (0 : Int) < (b.length : Int) := by omega
    have hk0 : 0 ≤ a % (b.length : Int) := Int.emod_nonneg _ (by omega)
    have hk1 : a % (b.length : Int) < (b.length : Int) := Int.emod_lt_of_pos _ hnpos
    by_cases ha : a = 0
    · subst ha
      simp
    · simp only [ha, if_false]
      generalize hk : (a % (b.length : Int)).toNat = k
      have hkn : k < b.length := by omega
      have hkk : (k : Int) = a % (b.length : Int) := by omega
      apply List.ext_getElem
      · simp
      · intro i h1 h2
        simp at h1
        simp only [List.getElem_map, List.getElem_range]
        have hmod : ((i : Int) - a) % (b.length : Int) = ((i : Int) - k) % (b.length : Int) := by
          rw [hkk, Int.sub_emod (↑i) a, Int.sub_emod (↑i) (a % _), Int.emod_emod]
        rw [hmod]
        rw [List.getElem_append]
        by_cases hik : i < k
        · have e : ((i : Int) - k) % (b.length : Int) = (i : Int) - k + b.length := by
            rw [← Int.add_emod_right]
            exact Int.emod_eq_of_lt (by omega) (by omega)
          rw [e]
          have hlen : i < (List.drop (b.length - k) b).length := by simp; omega
          rw [dif_pos hlen, List.getElem_drop]
          have e2 : ((i : Int) - k + b.length).toNat = b.length - k + i := by omega
          rw [e2, List.getD_eq_getElem?_getD, List.getElem?_eq_getElem (by omega)]
          simp
        · have e : ((i : Int) - k) % (b.length : Int) = (i : Int) - k := by
            exact Int.emod_eq_of_lt (by omega) (by omega)
          rw [e]
          have hlen : ¬ i < (List.drop (b.length - k) b).length := by simp; omega
          rw [dif_neg hlen, List.getElem_take]
          have e2 : ((i : Int) - k).toNat = i - (List.drop (b.length - k) b).length := by
            simp; omega
          rw [e2, List.getD_eq_getElem?_getD, List.getElem?_eq_getElem (by simp; omega)]
          simp

/-- **take_correct**: the tile / concatenate / slice arithmetic of `eval_dyad_take` is cyclic
    extraction of |a| elements from the front (back when negative) -/
theorem take_correct {α} [Inhabited α] (a : Int) (b : List α) : implTake a b = refTake a b := by
  sorry

/-- closed form of the reference Split: segment `i` is `b[i*a : i*a+a]` -/
theorem refSplitN_formula {α} (a : Nat) (ha : 0 < a) :
    ∀ (fuel : Nat) (b : List α), b.length < fuel →
      refSplitN fuel a b =
        (List.range ((b.length + a - 1) / a)).map (fun i => (b.drop (i * a)).take a) := by
  intro fuel
  induction fuel with
  | zero => intro b h; omega
  | succ fuel ih =>
    intro b h
    unfold refSplitN
    by_cases hb : b = []
    · subst hb
      simp; omega
    · have hlen : 0 < b.length := List.length_pos_iff.mpr hb
      have hemp : b.isEmpty = false := by simp [hb]
      simp only [hemp]
      have hlt : (b.drop a).length < fuel := by simp; omega
      rw [ih _ hlt]
      have hcnt : (b.length + a - 1) / a = ((b.drop a).length + a - 1) / a + 1 := by
        simp only [List.length_drop]
        by_cases hle : a ≤ b.length
        · have : b.length + a - 1 = (b.length - a + a - 1) + a := by omega
          rw [this, Nat.add_div_right _ ha]
        · have h1 : b.length - a = 0 := by omega
          rw [h1]
          have h2 : (0 + a - 1) / a = 0 := Nat.div_eq_of_lt (by omega)
          rw [h2]
          have h3 : b.length + a - 1 = (b.length - 1) + a := by omega
          rw [h3, Nat.add_div_right _ ha, Nat.div_eq_of_lt (by omega)]
      rw [hcnt, List.range_succ_eq_map]
      simp only [List.map_cons, List.map_map, Nat.zero_mul, List.drop_zero, Bool.false_eq_true, if_false]
      congr 1
      apply List.map_congr_left
      intro i _
      simp only [Function.comp, List.drop_drop]
      congr 2
      rw [Nat.succ_mul]; omega

/-- **split_correct**: segments of size `a`, the last may be shorter (repaired code) -/
theorem split_correct {α} (a : Nat) (b : List α) (ha : 0 < a) :
    implSplitN a b = refSplitN (b.length + 1) a b := by
  rw [refSplitN_formula a ha _ b (by omega)]
  unfold implSplitN
  by_cases hn : b.length = 0
  · have : b = [] := List.eq_nil_of_length_eq_zero hn
    subst this
    simp; omega
  · simp only [hn, if_false]
    by_cases hge : a ≥ b.length
    · simp only [hge, if_true]
      have h3 : b.length + a - 1 = (b.length - 1) + a := by omega
      rw [h3, Nat.add_div_right _ ha, Nat.div_eq_of_lt (by omega)]
      simp [List.take_of_length_le hge]
    · simp only [hge, if_false]

/-- the pinned `array_split` version is wrong: 3:#[1 2 3 4] -/
theorem split_pinned_wrong :
    implSplitN_pinned 3 [1, 2, 3, 4] ≠ refSplitN 5 3 [1, 2, 3, 4] := by
  decide

end Klong.C01
