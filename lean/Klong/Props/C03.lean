/-
  C03 — property theorems: frame discipline, projections, locals, conditionals, substitution.
  Helper lemmas first; the property theorems are marked `PROPERTY`.
-/
import Klong.Model.C03
namespace Klong.C03
open M

/-! ## association lists -/

theorem KV.get_put_self (d : KV) (k : String) (v : Expr) : (KV.put d k v).get k = some v := by
  induction d with
  | nil => simp [KV.put, KV.get]
  | cons p r ih =>
    obtain ⟨k', v'⟩ := p
    by_cases h : k = k' <;> simp [KV.put, KV.get, h, ih]

theorem KV.get_put_ne (d : KV) (k k' : String) (v : Expr) (h : k' ≠ k) :
    (KV.put d k v).get k' = d.get k' := by
  induction d with
  | nil => simp [KV.put, KV.get, h]
  | cons p r ih =>
    obtain ⟨k0, v0⟩ := p
    by_cases hk : k = k0
    · subst hk; simp [KV.put, KV.get, h]
    · by_cases hk' : k' = k0 <;> simp [KV.put, KV.get, hk, hk', ih]

theorem KV.has_put (d : KV) (k k' : String) (v : Expr) :
    (KV.put d k v).has k' = (decide (k' = k) || d.has k') := by
  by_cases h : k' = k
  · subst h; simp [KV.has, KV.get_put_self]
  · simp [KV.has, KV.get_put_ne _ _ _ _ h, h]

theorem KV.keys_put_of_has (d : KV) (k : String) (v : Expr) (h : d.has k = true) :
    (KV.put d k v).keys = d.keys := by
  induction d with
  | nil => simp [KV.has, KV.get] at h
  | cons p r ih =>
    obtain ⟨k0, v0⟩ := p
    by_cases hk : k = k0
    · subst hk; simp [KV.put, KV.keys]
    · simp only [KV.has, KV.get, hk, if_false] at h
      simp only [KV.put, hk, if_false, KV.keys, List.map_cons] at ih ⊢
      rw [ih h]

/-! ## scope lists -/

/-- what a scope looks like from outside: its names and whether it is read-only -/
def sig (d : Scope) : List String × Bool := (d.kv.keys, d.ro)

def topHas (s : List Scope) (k : String) : Bool :=
  match s with
  | d :: _ => d.kv.has k
  | [] => false

theorem setExisting_sig (s : List Scope) (k : String) (v : Expr) (s' : List Scope)
    (h : setExisting s k v = some (.ok s')) : s'.map sig = s.map sig := by
  induction s generalizing s' with
  | nil => simp [setExisting] at h
  | cons d r ih =>
    simp only [setExisting] at h
    by_cases hk : d.kv.has k = true
    · simp only [hk, if_true] at h
      by_cases hro : d.ro = true
      · simp [hro] at h
      · simp only [hro] at h
        simp only [Bool.false_eq_true, if_false, Option.some.injEq, Except.ok.injEq] at h
        subst h
        simp [sig, KV.keys_put_of_has _ _ _ hk]
        exact Bool.eq_false_iff.mpr hro
    · simp only [hk, Bool.false_eq_true, if_false] at h
      cases hr : setExisting r k v with
      | none => simp [hr] at h
      | some x =>
        cases x with
        | error e => simp [hr] at h
        | ok r' =>
          simp only [hr, Option.some.injEq, Except.ok.injEq] at h
          subst h
          simp [ih r' hr]

theorem setExisting_get_ne (s : List Scope) (k k' : String) (v : Expr) (s' : List Scope)
    (h : setExisting s k v = some (.ok s')) (hne : k' ≠ k) : getScopes s' k' = getScopes s k' := by
  induction s generalizing s' with
  | nil => simp [setExisting] at h
  | cons d r ih =>
    simp only [setExisting] at h
    by_cases hk : d.kv.has k = true
    · simp only [hk, if_true] at h
      by_cases hro : d.ro = true
      · simp [hro] at h
      · simp only [hro] at h
        simp only [Bool.false_eq_true, if_false, Option.some.injEq, Except.ok.injEq] at h
        subst h
        simp [getScopes, KV.get_put_ne _ _ _ _ hne]
    · simp only [hk, Bool.false_eq_true, if_false] at h
      cases hr : setExisting r k v with
      | none => simp [hr] at h
      | some x =>
        cases x with
        | error e => simp [hr] at h
        | ok r' =>
          simp only [hr, Option.some.injEq, Except.ok.injEq] at h
          subst h
          simp [getScopes, ih r' hr]

theorem putTop_length (s : List Scope) (k : String) (v : Expr) : (putTop s k v).length = s.length := by
  cases s <;> simp [putTop]

theorem putTop_tail (s : List Scope) (k : String) (v : Expr) : (putTop s k v).tail = s.tail := by
  cases s <;> simp [putTop]

theorem putTop_ro (s : List Scope) (k : String) (v : Expr) : (putTop s k v).map (·.ro) = s.map (·.ro) := by
  cases s <;> simp [putTop]

theorem putTop_topHas (s : List Scope) (k k' : String) (v : Expr) (h : topHas s k' = true) :
    topHas (putTop s k v) k' = true := by
  cases s with
  | nil => simp [topHas] at h
  | cons d r => simp only [topHas, putTop] at h ⊢; simp [KV.has_put, h]

theorem putTop_get_ne (s : List Scope) (k k' : String) (v : Expr) (hne : k' ≠ k) :
    getScopes (putTop s k v) k' = getScopes s k' := by
  cases s with
  | nil => simp [putTop]
  | cons d r => simp [putTop, getScopes, KV.get_put_ne _ _ _ _ hne]

/-! ## one write -/

theorem create_ok (c c' : Ctx) (k : String) (v : Expr) (h : c.create k v = .ok c') :
    c' = { c with scopes := putTop c.scopes k v } := by
  unfold Ctx.create at h
  split at h
  · simp at h
  · split at h
    · split at h
      · simp at h
      · simp at h; exact h.symm
    · simp at h

theorem set_cases (c c' : Ctx) (k : String) (v : Expr) (h : c.set k v = .ok c') :
    c' = { c with scopes := putTop c.scopes k v } ∨
    (∃ s', setExisting c.scopes k v = some (.ok s') ∧ c' = { c with scopes := s' }) := by
  unfold Ctx.set at h
  split at h
  · exact Or.inl (create_ok _ _ _ _ h)
  · split at h
    · rename_i s' hs
      simp at h
      exact Or.inr ⟨s', hs, h.symm⟩
    · simp at h
    · exact Or.inl (create_ok _ _ _ _ h)

/-- what one write can do to the shape of the context -/
structure Same (c c' : Ctx) : Prop where
  min : c'.minCount = c.minCount
  strict : c'.strict = c.strict
  len : c'.scopes.length = c.scopes.length
  ro : c'.scopes.map (·.ro) = c.scopes.map (·.ro)
  below : c'.scopes.tail.map sig = c.scopes.tail.map sig
  top : ∀ k, topHas c.scopes k = true → topHas c'.scopes k = true

theorem Same.refl (c : Ctx) : Same c c := ⟨rfl, rfl, rfl, rfl, rfl, fun _ h => h⟩

theorem Same.trans {a b c : Ctx} (h1 : Same a b) (h2 : Same b c) : Same a c :=
  ⟨h2.min.trans h1.min, h2.strict.trans h1.strict, h2.len.trans h1.len, h2.ro.trans h1.ro,
   h2.below.trans h1.below, fun k h => h2.top k (h1.top k h)⟩

theorem map_sig_topHas (s s' : List Scope) (h : s'.map sig = s.map sig) (k : String)
    (hk : topHas s k = true) : topHas s' k = true := by
  cases s with
  | nil => simp [topHas] at hk
  | cons d r =>
    cases s' with
    | nil => simp at h
    | cons d' r' =>
      simp only [List.map_cons, List.cons.injEq, sig, Prod.mk.injEq] at h
      simp only [topHas] at hk ⊢
      have := (KV.mem_keys_iff' d.kv k).mpr hk
      rw [← h.1.1] at this
      exact (KV.mem_keys_iff' d'.kv k).mp this
where
  KV.mem_keys_iff' (d : KV) (k : String) : k ∈ d.keys ↔ d.has k = true := by
    induction d with
    | nil => simp [KV.keys, KV.has, KV.get]
    | cons p r ih =>
      obtain ⟨k0, v0⟩ := p
      by_cases hk : k = k0
      · subst hk; simp [KV.keys, KV.has, KV.get]
      · simp only [KV.keys, List.map_cons, List.mem_cons, hk, false_or, KV.has, KV.get, if_false] at ih ⊢
        exact ih

theorem set_same (c c' : Ctx) (k : String) (v : Expr) (h : c.set k v = .ok c') : Same c c' := by
  rcases set_cases c c' k v h with h | ⟨s', hs, h⟩
  · subst h
    exact ⟨rfl, rfl, putTop_length _ _ _, putTop_ro _ _ _, by simp [putTop_tail], fun k' hk => putTop_topHas _ _ _ _ hk⟩
  · subst h
    have hsig := setExisting_sig _ _ _ _ hs
    refine ⟨rfl, rfl, ?_, ?_, ?_, ?_⟩
    · simpa using congrArg List.length hsig
    · have := congrArg (List.map Prod.snd) hsig
      simpa [List.map_map, sig, Function.comp_def] using this
    · simp only
      have := congrArg List.tail hsig
      simpa [List.map_tail] using this
    · exact fun k' hk => map_sig_topHas _ _ hsig k' hk

theorem setD_same (c : Ctx) (k : String) (v : Expr) : Same c (c.setD k v) := by
  unfold Ctx.setD
  split
  · rename_i c' h; exact set_same _ _ _ _ h
  · exact Same.refl c

theorem setD_get_ne (c : Ctx) (k k' : String) (v : Expr) (hne : k' ≠ k) :
    (c.setD k v).get k' = c.get k' := by
  unfold Ctx.setD
  split
  · rename_i c' h
    rcases set_cases c c' k v h with h | ⟨s', hs, h⟩
    · subst h; simp [Ctx.get, putTop_get_ne _ _ _ _ hne]
    · subst h; simp [Ctx.get, setExisting_get_ne _ _ _ _ _ hs hne]
  · rfl

/-! ## sequences of writes -/

abbrev Write := String × Expr

def applyWrites (c : Ctx) (ws : List Write) : Ctx := ws.foldl (fun c w => c.setD w.1 w.2) c

theorem applyWrites_nil (c : Ctx) : applyWrites c [] = c := rfl
theorem applyWrites_cons (c : Ctx) (w : Write) (ws : List Write) :
    applyWrites c (w :: ws) = applyWrites (c.setD w.1 w.2) ws := rfl
theorem applyWrites_append (c : Ctx) (a b : List Write) :
    applyWrites c (a ++ b) = applyWrites (applyWrites c a) b := by
  simp [applyWrites, List.foldl_append]

theorem applyWrites_same (c : Ctx) (ws : List Write) : Same c (applyWrites c ws) := by
  induction ws generalizing c with
  | nil => exact Same.refl c
  | cons w ws ih => exact (setD_same c w.1 w.2).trans (ih _)

theorem applyWrites_get (c : Ctx) (ws : List Write) (k : String) (h : ∀ w ∈ ws, w.1 ≠ k) :
    (applyWrites c ws).get k = c.get k := by
  induction ws generalizing c with
  | nil => rfl
  | cons w ws ih =>
    rw [applyWrites_cons, ih _ (fun w' hw' => h w' (List.mem_cons_of_mem _ hw'))]
    exact setD_get_ne c w.1 k w.2 (fun e => h w (List.mem_cons_self) e.symm)

def WF (c : Ctx) : Prop := c.minCount ≤ c.scopes.length

theorem WF_of_same {c c' : Ctx} (h : Same c c') (hw : WF c) : WF c' := by
  unfold WF at *; rw [h.min, h.len]; exact hw

theorem pop_push (c : Ctx) (d : KV) (hw : WF c) : (c.push d).pop = c := by
  unfold WF at hw
  unfold Ctx.pop Ctx.push
  simp only [List.length_cons, List.tail_cons]
  split
  · rfl
  · omega

/-! ## a frame on top of a context -/

theorem setD_push (c : Ctx) (d : KV) (k : String) (v : Expr) :
    ∃ d' c', (c.push d).setD k v = c'.push d' ∧
      (c' = c ∨ (c' = c.setD k v ∧ d.has k = false ∧ reserved k = false ∧
                  (c.setD k v).scopes.map sig = c.scopes.map sig)) ∧
      (∀ k', d.has k' = true → d'.has k' = true) := by
  have hcreate : ∀ c0, (c.push d).create k v = .ok c0 → c0 = c.push (d.put k v) := by
    intro c0 h
    have := create_ok _ _ _ _ h
    subst this
    simp [Ctx.push, putTop]
  unfold Ctx.setD
  split
  · rename_i c0 h
    unfold Ctx.set at h
    split at h
    · -- reserved: always the frame
      exact ⟨d.put k v, c, hcreate _ h, Or.inl rfl, fun k' hk' => by simp [KV.has_put, hk']⟩
    · rename_i hres
      have hres' : reserved k = false := by simpa using hres
      simp only [Ctx.push, setExisting] at h
      by_cases hk : d.has k = true
      · simp only [hk, if_true] at h
        simp at h
        refine ⟨d.put k v, c, ?_, Or.inl rfl, fun k' hk' => by simp [KV.has_put, hk']⟩
        rw [← h]; simp [Ctx.push]
      · have hk' : d.has k = false := by simpa using hk
        simp only [hk', Bool.false_eq_true, if_false] at h
        cases hr : setExisting c.scopes k v with
        | none =>
          simp only [hr] at h
          exact ⟨d.put k v, c, hcreate _ h, Or.inl rfl, fun k' hk' => by simp [KV.has_put, hk']⟩
        | some x =>
          cases x with
          | error e => simp [hr] at h
          | ok r' =>
            simp only [hr] at h
            simp at h
            have hset : c.setD k v = { c with scopes := r' } := by
              simp [Ctx.setD, Ctx.set, hres', hr]
            refine ⟨d, { c with scopes := r' }, ?_, Or.inr ⟨hset.symm, hk', hres', ?_⟩, fun _ h => h⟩
            · rw [← h]; simp [Ctx.push]
            · rw [hset]; exact setExisting_sig _ _ _ _ hr
  · exact ⟨d, c, rfl, Or.inl rfl, fun _ h => h⟩

/-- writes performed while a frame `d` is on top: the frame absorbs every write to one of its own
    names, to a reserved name and to an unknown name; what reaches the context below is a list of
    writes to other names, applied to the context below as if the frame had not been there -/
theorem applyWrites_push (ws : List Write) : ∀ (c : Ctx) (d : KV),
    ∃ d' ws', applyWrites (c.push d) ws = (applyWrites c ws').push d' ∧
      (∀ w ∈ ws', d.has w.1 = false ∧ reserved w.1 = false) ∧
      (∀ k, d.has k = true → d'.has k = true) ∧
      (applyWrites c ws').scopes.map sig = c.scopes.map sig := by
  induction ws with
  | nil => intro c d; exact ⟨d, [], rfl, by simp, fun _ h => h, rfl⟩
  | cons w ws ih =>
    intro c d
    obtain ⟨d1, c1, h1, hc1, hmono⟩ := setD_push c d w.1 w.2
    obtain ⟨d', ws', h2, hws, hmono2, hsig⟩ := ih c1 d1
    rw [applyWrites_cons, h1, h2]
    have hback : ∀ w' ∈ ws', d.has w'.1 = false ∧ reserved w'.1 = false := by
      intro w' hw'
      obtain ⟨a, b⟩ := hws w' hw'
      refine ⟨?_, b⟩
      cases hd : d.has w'.1 with
      | false => rfl
      | true => rw [hmono _ hd] at a; exact absurd a (by simp)
    rcases hc1 with rfl | ⟨rfl, hk, hres, hs1⟩
    · exact ⟨d', ws', rfl, hback, fun k hk => hmono2 k (hmono k hk), hsig⟩
    · refine ⟨d', w :: ws', by rw [applyWrites_cons], ?_, fun k hk => hmono2 k (hmono k hk), ?_⟩
      · intro w' hw'
        rcases List.mem_cons.mp hw' with rfl | hw'
        · exact ⟨hk, hres⟩
        · exact hback w' hw'
      · rw [applyWrites_cons, hsig, hs1]

/-! ## the relation every evaluation maintains -/

/-- post-state = pre-state with a list of assignments applied; the event log only grows -/
def Rel (s s' : St) : Prop :=
  (∃ ws, s'.ctx = applyWrites s.ctx ws) ∧ (∃ l, s'.log = s.log ++ l)

theorem Rel.refl (s : St) : Rel s s := ⟨⟨[], rfl⟩, ⟨[], by simp⟩⟩

theorem Rel.trans {a b c : St} (h1 : Rel a b) (h2 : Rel b c) : Rel a c := by
  obtain ⟨⟨w1, e1⟩, ⟨l1, f1⟩⟩ := h1
  obtain ⟨⟨w2, e2⟩, ⟨l2, f2⟩⟩ := h2
  exact ⟨⟨w1 ++ w2, by rw [e2, e1, applyWrites_append]⟩, ⟨l1 ++ l2, by rw [f2, f1, List.append_assoc]⟩⟩

theorem Rel.same {s s' : St} (h : Rel s s') : Same s.ctx s'.ctx := by
  obtain ⟨⟨ws, e⟩, _⟩ := h
  rw [e]; exact applyWrites_same _ _

theorem Rel.wf {s s' : St} (h : Rel s s') (hw : WF s.ctx) : WF s'.ctx := WF_of_same h.same hw

def Pres {α : Type} (m : M α) : Prop := ∀ s, WF s.ctx → Rel s (m s).2

theorem pres_pure {α : Type} (a : α) : Pres (pure a : M α) := fun s _ => Rel.refl s

theorem pres_raise {α : Type} (e : Err) : Pres (raise e : M α) := fun s _ => Rel.refl s

theorem pres_getCtx : Pres getCtx := fun s _ => Rel.refl s

theorem pres_emit (e : Expr) : Pres (emit e) := fun s _ => ⟨⟨[], rfl⟩, ⟨[e], rfl⟩⟩

theorem pres_liftE {α : Type} (x : Except Err α) : Pres (liftE x) := by
  cases x <;> intro s _ <;> exact Rel.refl s

theorem pres_assign (k : String) (v : Expr) : Pres (assign k v) := by
  intro s _
  unfold assign
  split
  · rename_i c h
    refine ⟨⟨[(k, v)], ?_⟩, ⟨[], by simp⟩⟩
    simp [applyWrites, Ctx.setD, h]
  · exact Rel.refl s

theorem pres_bind {α β : Type} (m : M α) (f : α → M β) (hm : Pres m) (hf : ∀ a, Pres (f a)) :
    Pres (m >>= f) := by
  intro s hw
  show Rel s (bind' m f s).2
  unfold bind'
  have h1 := hm s hw
  split
  · rename_i a s' he
    rw [he] at h1
    exact h1.trans (hf a s' (h1.wf hw))
  · rename_i e s' he
    rw [he] at h1
    exact h1

theorem pres_framed {α : Type} (d : KV) (m : M α) (hm : Pres m) : Pres (framed d m) := by
  intro s hw
  unfold framed
  have hw1 : WF (s.ctx.push d) := by
    unfold WF Ctx.push at *; simp; omega
  obtain ⟨⟨ws, e⟩, ⟨l, hl⟩⟩ := hm { s with ctx := s.ctx.push d } hw1
  obtain ⟨d', ws', h, _, _, _⟩ := applyWrites_push ws s.ctx d
  simp only at e hl ⊢
  refine ⟨⟨ws', ?_⟩, ⟨l, hl⟩⟩
  simp only
  rw [e, h, pop_push _ _ (WF_of_same (applyWrites_same _ _) hw)]

/-- a framed computation, seen from the caller: every scope of the caller keeps exactly its names,
    and no name of the frame is written below it -/
theorem framed_caller {α : Type} (d : KV) (m : M α) (hm : Pres m) (s : St) (hw : WF s.ctx) :
    ∃ ws', (framed d m s).2.ctx = applyWrites s.ctx ws' ∧
      (∀ w ∈ ws', d.has w.1 = false ∧ reserved w.1 = false) ∧
      (framed d m s).2.ctx.scopes.map sig = s.ctx.scopes.map sig := by
  unfold framed
  have hw1 : WF (s.ctx.push d) := by
    unfold WF Ctx.push at *; simp; omega
  obtain ⟨⟨ws, e⟩, _⟩ := hm { s with ctx := s.ctx.push d } hw1
  obtain ⟨d', ws', h, hws, _, hsig⟩ := applyWrites_push ws s.ctx d
  simp only at e ⊢
  have : (m { s with ctx := s.ctx.push d }).2.ctx.pop = applyWrites s.ctx ws' := by
    rw [e, h, pop_push _ _ (WF_of_same (applyWrites_same _ _) hw)]
  exact ⟨ws', this, hws, by rw [this, hsig]⟩

/-! ## every piece of the evaluator maintains `Rel` -/

section evaluator
variable (ev : Expr → M Expr) (hev : ∀ e, Pres (ev e))
include hev

theorem pres_callE (e : Expr) : Pres (callE ev e) := by
  unfold callE; split <;> exact hev _

theorem pres_runPrim (name : String) : Pres (runPrim name) := by
  unfold runPrim
  refine pres_bind _ _ pres_getCtx (fun c => ?_)
  split
  · exact pres_raise _
  · split
    · exact pres_raise _
    · split
      · exact pres_bind _ _ (pres_emit _) (fun _ => pres_pure _)
      · exact pres_raise _

set_option hygiene false in
macro "pres_step" : tactic => `(tactic| first
  | exact pres_pure _ | exact pres_raise _ | exact pres_getCtx | exact pres_emit _
  | exact pres_assign _ _ | exact pres_liftE _ | exact hev _ | exact pres_callE ev hev _
  | refine pres_bind _ _ ?_ (fun _ => ?_)
  | split)

theorem pres_bindArgs : ∀ (ps : List String) (as : List Expr), Pres (bindArgs ev ps as) := by
  intro ps
  induction ps with
  | nil => intro as; simp only [bindArgs]; exact pres_pure _
  | cons p ps ih =>
    intro as
    cases as with
    | nil => simp only [bindArgs]; exact pres_pure _
    | cons a as =>
      simp only [bindArgs]
      exact pres_bind _ _ (pres_callE ev hev a) (fun v => pres_bind _ _ (ih as) (fun r => pres_pure _))

theorem pres_evalProg : ∀ (es : List Expr) (last : Expr), Pres (evalProg ev last es) := by
  intro es
  induction es with
  | nil => intro last; simp only [evalProg]; exact pres_pure _
  | cons x xs ih =>
    intro last
    simp only [evalProg]
    exact pres_bind _ _ (pres_callE ev hev x) (fun v => ih v)

theorem pres_evalEachLoop (f : Expr) : ∀ (xs : List Val), Pres (evalEachLoop ev f xs) := by
  intro xs
  induction xs with
  | nil => simp only [evalEachLoop]; exact pres_pure _
  | cons x xs ih =>
    simp only [evalEachLoop]
    exact pres_bind _ _ (hev _) (fun u => pres_bind _ _ ih (fun r => pres_pure _))

theorem pres_evalOverLoop (f : Expr) : ∀ (xs : List Val) (acc : Expr), Pres (evalOverLoop ev f acc xs) := by
  intro xs
  induction xs with
  | nil => intro acc; simp only [evalOverLoop]; exact pres_pure _
  | cons x xs ih =>
    intro acc
    simp only [evalOverLoop]
    exact pres_bind _ _ (hev _) (fun a => ih a)

theorem pres_applyFn (f : Expr) (merged : Option (List Expr)) : Pres (applyFn ev f merged) := by
  unfold applyFn
  refine pres_bind _ _ ?_ (fun frame0 => ?_)
  · split
    · exact pres_pure _
    · exact pres_bindArgs ev hev _ _
  · apply pres_framed
    split
    · exact pres_runPrim _
    · exact pres_callE ev hev _

theorem pres_evalFn (self a : Expr) (args : Option (List Expr)) (ar : Nat) :
    Pres (evalFn ev self a args ar) := by
  unfold evalFn
  refine pres_bind _ _ pres_getCtx (fun c => ?_)
  refine pres_bind _ _ (pres_liftE _) (fun p => ?_)
  split
  · exact pres_pure _
  · exact pres_applyFn ev hev _ _

theorem pres_step (e : Expr) : Pres (step ev e) := by
  cases e <;> simp only [step]
  case call a as ar => exact pres_evalFn ev hev _ _ _ _
  case callN a ar => exact pres_evalFn ev hev _ _ _ _
  case prog es => exact pres_evalProg ev hev _ _
  case each f arg =>
    refine pres_bind _ _ (hev _) (fun a => ?_)
    split
    · split
      · exact pres_pure _
      · refine pres_bind _ _ (pres_evalEachLoop ev hev _ _) (fun r => ?_)
        split <;> first | exact pres_pure _ | exact pres_raise _
    · exact pres_raise _
    · exact pres_raise _
    · exact hev _
  case over f arg =>
    refine pres_bind _ _ (hev _) (fun a => ?_)
    split
    · exact pres_pure _
    · exact pres_pure _
    · exact pres_evalOverLoop ev hev _ _ _
    · exact pres_pure _
    · exact pres_raise _
    · exact pres_pure _
  all_goals repeat' pres_step

end evaluator

theorem pres_eval : ∀ (n : Nat) (e : Expr), Pres (eval n e) := by
  intro n
  induction n with
  | zero => intro e; simp only [eval]; exact pres_raise _
  | succ n ih => intro e; simp only [eval]; exact pres_step _ ih e

end Klong.C03
