/-
  C03 — property theorems: frame discipline, projections, locals, conditionals, substitution.
  Helper lemmas first; the property theorems are marked `PROPERTY`.
-/
import Klong.Model.C03
namespace Klong.C03
open M

/-! ## association lists -/

theorem KV.get_put_self (d : KV) (k : String) (v : Expr) : (KV.put d k v).get k = some v := by
  induction d with
  | nil => simp [KV.put, KV.get]
  | cons p r ih =>
    obtain ⟨k', v'⟩ := p
    by_cases h : k = k' <;> simp [KV.put, KV.get, h, ih]

theorem KV.get_put_ne (d : KV) (k k' : String) (v : Expr) (h : k' ≠ k) :
    (KV.put d k v).get k' = d.get k' := by
  induction d with
  | nil => simp [KV.put, KV.get, h]
  | cons p r ih =>
    obtain ⟨k0, v0⟩ := p
    by_cases hk : k = k0
    · subst hk; simp [KV.put, KV.get, h]
    · by_cases hk' : k' = k0 <;> simp [KV.put, KV.get, hk, hk', ih]

theorem KV.has_put (d : KV) (k k' : String) (v : Expr) :
    (KV.put d k v).has k' = (decide (k' = k) || d.has k') := by
  by_cases h : k' = k
  · subst h; simp [KV.has, KV.get_put_self]
  · simp [KV.has, KV.get_put_ne _ _ _ _ h, h]

theorem KV.keys_put_of_has (d : KV) (k : String) (v : Expr) (h : d.has k = true) :
    (KV.put d k v).keys = d.keys := by
  induction d with
  | nil => simp [KV.has, KV.get] at h
  | cons p r ih =>
    obtain ⟨k0, v0⟩ := p
    by_cases hk : k = k0
    · subst hk; simp [KV.put, KV.keys]
    · simp only [KV.has, KV.get, hk, if_false] at h
      simp only [KV.put, hk, if_false, KV.keys, List.map_cons] at ih ⊢
      rw [ih h]

/-! ## scope lists -/

/-- what a scope looks like from outside: its names and whether it is read-only -/
def sig (d : Scope) : List String × Bool := (d.kv.keys, d.ro)

def topHas (s : List Scope) (k : String) : Bool :=
  match s with
  | d :: _ => d.kv.has k
  | [] => false

theorem setExisting_sig (s : List Scope) (k : String) (v : Expr) (s' : List Scope)
    (h : setExisting s k v = some (.ok s')) : s'.map sig = s.map sig := by
  induction s generalizing s' with
  | nil => simp [setExisting] at h
  | cons d r ih =>
    simp only [setExisting] at h
    by_cases hk : d.kv.has k = true
    · simp only [hk, if_true] at h
      by_cases hro : d.ro = true
      · simp [hro] at h
      · simp only [hro] at h
        simp only [Bool.false_eq_true, if_false, Option.some.injEq, Except.ok.injEq] at h
        subst h
        simp [sig, KV.keys_put_of_has _ _ _ hk]
        exact Bool.eq_false_iff.mpr hro
    · simp only [hk, Bool.false_eq_true, if_false] at h
      cases hr : setExisting r k v with
      | none => simp [hr] at h
      | some x =>
        cases x with
        | error e => simp [hr] at h
        | ok r' =>
          simp only [hr, Option.some.injEq, Except.ok.injEq] at h
          subst h
          simp [ih r' hr]

theorem setExisting_get_ne (s : List Scope) (k k' : String) (v : Expr) (s' : List Scope)
    (h : setExisting s k v = some (.ok s')) (hne : k' ≠ k) : getScopes s' k' = getScopes s k' := by
  induction s generalizing s' with
  | nil => simp [setExisting] at h
  | cons d r ih =>
    simp only [setExisting] at h
    by_cases hk : d.kv.has k = true
    · simp only [hk, if_true] at h
      by_cases hro : d.ro = true
      · simp [hro] at h
      · simp only [hro] at h
        simp only [Bool.false_eq_true, if_false, Option.some.injEq, Except.ok.injEq] at h
        subst h
        simp [getScopes, KV.get_put_ne _ _ _ _ hne]
    · simp only [hk, Bool.false_eq_true, if_false] at h
      cases hr : setExisting r k v with
      | none => simp [hr] at h
      | some x =>
        cases x with
        | error e => simp [hr] at h
        | ok r' =>
          simp only [hr, Option.some.injEq, Except.ok.injEq] at h
          subst h
          simp [getScopes, ih r' hr]

theorem putTop_length (s : List Scope) (k : String) (v : Expr) : (putTop s k v).length = s.length := by
  cases s <;> simp [putTop]

theorem putTop_tail (s : List Scope) (k : String) (v : Expr) : (putTop s k v).tail = s.tail := by
  cases s <;> simp [putTop]

theorem putTop_ro (s : List Scope) (k : String) (v : Expr) : (putTop s k v).map (·.ro) = s.map (·.ro) := by
  cases s <;> simp [putTop]

theorem putTop_topHas (s : List Scope) (k k' : String) (v : Expr) (h : topHas s k' = true) :
    topHas (putTop s k v) k' = true := by
  cases s with
  | nil => simp [topHas] at h
  | cons d r => simp only [topHas, putTop] at h ⊢; simp [KV.has_put, h]

theorem putTop_get_ne (s : List Scope) (k k' : String) (v : Expr) (hne : k' ≠ k) :
    getScopes (putTop s k v) k' = getScopes s k' := by
  cases s with
  | nil => simp [putTop]
  | cons d r => simp [putTop, getScopes, KV.get_put_ne _ _ _ _ hne]

/-! ## one write -/

theorem create_ok (c c' : Ctx) (k : String) (v : Expr) (h : c.create k v = .ok c') :
    c' = { c with scopes := putTop c.scopes k v } := by
  unfold Ctx.create at h
  split at h
  · simp at h
  · split at h
    · split at h
      · simp at h
      · simp at h; exact h.symm
    · simp at h

theorem set_cases (c c' : Ctx) (k : String) (v : Expr) (h : c.set k v = .ok c') :
    c' = { c with scopes := putTop c.scopes k v } ∨
    (∃ s', setExisting c.scopes k v = some (.ok s') ∧ c' = { c with scopes := s' }) := by
  unfold Ctx.set at h
  split at h
  · exact Or.inl (create_ok _ _ _ _ h)
  · split at h
    · rename_i s' hs
      simp at h
      exact Or.inr ⟨s', hs, h.symm⟩
    · simp at h
    · exact Or.inl (create_ok _ _ _ _ h)

/-- what one write can do to the shape of the context -/
structure Same (c c' : Ctx) : Prop where
  min : c'.minCount = c.minCount
  strict : c'.strict = c.strict
  len : c'.scopes.length = c.scopes.length
  ro : c'.scopes.map (·.ro) = c.scopes.map (·.ro)
  below : c'.scopes.tail.map sig = c.scopes.tail.map sig
  top : ∀ k, topHas c.scopes k = true → topHas c'.scopes k = true

theorem Same.refl (c : Ctx) : Same c c := ⟨rfl, rfl, rfl, rfl, rfl, fun _ h => h⟩

theorem Same.trans {a b c : Ctx} (h1 : Same a b) (h2 : Same b c) : Same a c :=
  ⟨h2.min.trans h1.min, h2.strict.trans h1.strict, h2.len.trans h1.len, h2.ro.trans h1.ro,
   h2.below.trans h1.below, fun k h => h2.top k (h1.top k h)⟩

theorem map_sig_topHas (s s' : List Scope) (h : s'.map sig = s.map sig) (k : String)
    (hk : topHas s k = true) : topHas s' k = true := by
  cases s with
  | nil => simp [topHas] at hk
  | cons d r =>
    cases s' with
    | nil => simp at h
    | cons d' r' =>
      simp only [List.map_cons, List.cons.injEq, sig, Prod.mk.injEq] at h
      simp only [topHas] at hk ⊢
      have := (KV.mem_keys_iff' d.kv k).mpr hk
      rw [← h.1.1] at this
      exact (KV.mem_keys_iff' d'.kv k).mp this
where
  KV.mem_keys_iff' (d : KV) (k : String) : k ∈ d.keys ↔ d.has k = true := by
    induction d with
    | nil => simp [KV.keys, KV.has, KV.get]
    | cons p r ih =>
      obtain ⟨k0, v0⟩ := p
      by_cases hk : k = k0
      · subst hk; simp [KV.keys, KV.has, KV.get]
      · simp only [KV.keys, List.map_cons, List.mem_cons, hk, false_or, KV.has, KV.get, if_false] at ih ⊢
        exact ih

theorem set_same (c c' : Ctx) (k : String) (v : Expr) (h : c.set k v = .ok c') : Same c c' := by
  rcases set_cases c c' k v h with h | ⟨s', hs, h⟩
  · subst h
    exact ⟨rfl, rfl, putTop_length _ _ _, putTop_ro _ _ _, by simp [putTop_tail], fun k' hk => putTop_topHas _ _ _ _ hk⟩
  · subst h
    have hsig := setExisting_sig _ _ _ _ hs
    refine ⟨rfl, rfl, ?_, ?_, ?_, ?_⟩
    · simpa using congrArg List.length hsig
    · have := congrArg (List.map Prod.snd) hsig
      simpa [List.map_map, sig, Function.comp_def] using this
    · simp only
      have := congrArg List.tail hsig
      simpa [List.map_tail] using this
    · exact fun k' hk => map_sig_topHas _ _ hsig k' hk

theorem setD_same (c : Ctx) (k : String) (v : Expr) : Same c (c.setD k v) := by
  unfold Ctx.setD
  split
  · rename_i c' h; exact set_same _ _ _ _ h
  · exact Same.refl c

theorem setD_get_ne (c : Ctx) (k k' : String) (v : Expr) (hne : k' ≠ k) :
    (c.setD k v).get k' = c.get k' := by
  unfold Ctx.setD
  split
  · rename_i c' h
    rcases set_cases c c' k v h with h | ⟨s', hs, h⟩
    · subst h; simp [Ctx.get, putTop_get_ne _ _ _ _ hne]
    · subst h; simp [Ctx.get, setExisting_get_ne _ _ _ _ _ hs hne]
  · rfl

/-! ## sequences of writes -/

abbrev Write := String × Expr

def applyWrites (c : Ctx) (ws : List Write) : Ctx := ws.foldl (fun c w => c.setD w.1 w.2) c

theorem applyWrites_nil (c : Ctx) : applyWrites c [] = c := rfl
theorem applyWrites_cons (c : Ctx) (w : Write) (ws : List Write) :
    applyWrites c (w :: ws) = applyWrites (c.setD w.1 w.2) ws := rfl
theorem applyWrites_append (c : Ctx) (a b : List Write) :
    applyWrites c (a ++ b) = applyWrites (applyWrites c a) b := by
  simp [applyWrites, List.foldl_append]

theorem applyWrites_same (c : Ctx) (ws : List Write) : Same c (applyWrites c ws) := by
  induction ws generalizing c with
  | nil => exact Same.refl c
  | cons w ws ih => exact (setD_same c w.1 w.2).trans (ih _)

theorem applyWrites_get (c : Ctx) (ws : List Write) (k : String) (h : ∀ w ∈ ws, w.1 ≠ k) :
    (applyWrites c ws).get k = c.get k := by
  induction ws generalizing c with
  | nil => rfl
  | cons w ws ih =>
    rw [applyWrites_cons, ih _ (fun w' hw' => h w' (List.mem_cons_of_mem _ hw'))]
    exact setD_get_ne c w.1 k w.2 (fun e => h w (List.mem_cons_self) e.symm)

def WF (c : Ctx) : Prop := c.minCount ≤ c.scopes.length

theorem WF_of_same {c c' : Ctx} (h : Same c c') (hw : WF c) : WF c' := by
  unfold WF at *; rw [h.min, h.len]; exact hw

theorem pop_push (c : Ctx) (d : KV) (hw : WF c) : (c.push d).pop = c := by
  unfold WF at hw
  unfold Ctx.pop Ctx.push
  simp only [List.length_cons, List.tail_cons]
  split
  · rfl
  · omega

/-! ## a frame on top of a context -/

theorem setD_push (c : Ctx) (d : KV) (k : String) (v : Expr) :
    ∃ d' c', (c.push d).setD k v = c'.push d' ∧
      (c' = c ∨ (c' = c.setD k v ∧ d.has k = false ∧ reserved k = false ∧
                  (c.setD k v).scopes.map sig = c.scopes.map sig)) ∧
      (∀ k', d.has k' = true → d'.has k' = true) := by
  have hcreate : ∀ c0, (c.push d).create k v = .ok c0 → c0 = c.push (d.put k v) := by
    intro c0 h
    have := create_ok _ _ _ _ h
    subst this
    simp [Ctx.push, putTop]
  have hmono : ∀ k', d.has k' = true → (d.put k v).has k' = true := by
    intro k' hk'; simp [KV.has_put, hk']
  cases hset0 : (c.push d).set k v with
  | error e =>
    refine ⟨d, c, ?_, Or.inl rfl, fun _ h => h⟩
    simp [Ctx.setD, hset0]
  | ok c0 =>
    have e0 : (c.push d).setD k v = c0 := by simp [Ctx.setD, hset0]
    rw [e0]
    have h := hset0
    unfold Ctx.set at h
    split at h
    · -- reserved: always the frame
      exact ⟨d.put k v, c, hcreate _ h, Or.inl rfl, hmono⟩
    · rename_i hres
      have hres' : reserved k = false := by simpa using hres
      simp only [Ctx.push, setExisting] at h
      by_cases hk : d.has k = true
      · simp only [hk, if_true] at h
        simp at h
        refine ⟨d.put k v, c, ?_, Or.inl rfl, hmono⟩
        rw [← h]; simp [Ctx.push]
      · have hk' : d.has k = false := by simpa using hk
        simp only [hk', Bool.false_eq_true, if_false] at h
        cases hr : setExisting c.scopes k v with
        | none =>
          simp only [hr] at h
          exact ⟨d.put k v, c, hcreate _ h, Or.inl rfl, hmono⟩
        | some x =>
          cases x with
          | error e => simp [hr] at h
          | ok r' =>
            simp only [hr] at h
            simp at h
            have hset : c.setD k v = { c with scopes := r' } := by
              simp [Ctx.setD, Ctx.set, hres', hr]
            refine ⟨d, { c with scopes := r' }, ?_, Or.inr ⟨hset.symm, hk', hres', ?_⟩, fun _ h => h⟩
            · rw [← h]; simp [Ctx.push]
            · rw [hset]; exact setExisting_sig _ _ _ _ hr

/-- writes performed while a frame `d` is on top: the frame absorbs every write to one of its own
    names, to a reserved name and to an unknown name; what reaches the context below is a list of
    writes to other names, applied to the context below as if the frame had not been there -/
theorem applyWrites_push (ws : List Write) : ∀ (c : Ctx) (d : KV),
    ∃ d' ws', applyWrites (c.push d) ws = (applyWrites c ws').push d' ∧
      (∀ w ∈ ws', d.has w.1 = false ∧ reserved w.1 = false) ∧
      (∀ k, d.has k = true → d'.has k = true) ∧
      (applyWrites c ws').scopes.map sig = c.scopes.map sig := by
  induction ws with
  | nil => intro c d; exact ⟨d, [], rfl, by simp, fun _ h => h, rfl⟩
  | cons w ws ih =>
    intro c d
    obtain ⟨d1, c1, h1, hc1, hmono⟩ := setD_push c d w.1 w.2
    obtain ⟨d', ws', h2, hws, hmono2, hsig⟩ := ih c1 d1
    rw [applyWrites_cons, h1, h2]
    have hback : ∀ w' ∈ ws', d.has w'.1 = false ∧ reserved w'.1 = false := by
      intro w' hw'
      obtain ⟨a, b⟩ := hws w' hw'
      refine ⟨?_, b⟩
      cases hd : d.has w'.1 with
      | false => rfl
      | true => rw [hmono _ hd] at a; exact absurd a (by simp)
    rcases hc1 with rfl | ⟨rfl, hk, hres, hs1⟩
    · exact ⟨d', ws', rfl, hback, fun k hk => hmono2 k (hmono k hk), hsig⟩
    · refine ⟨d', w :: ws', by rw [applyWrites_cons], ?_, fun k hk => hmono2 k (hmono k hk), ?_⟩
      · intro w' hw'
        rcases List.mem_cons.mp hw' with rfl | hw'
        · exact ⟨hk, hres⟩
        · exact hback w' hw'
      · rw [applyWrites_cons, hsig, hs1]

/-! ## the relation every evaluation maintains -/

/-- post-state = pre-state with a list of assignments applied; the event log only grows -/
def Rel (s s' : St) : Prop :=
  (∃ ws, s'.ctx = applyWrites s.ctx ws) ∧ (∃ l, s'.log = s.log ++ l)

theorem Rel.refl (s : St) : Rel s s := ⟨⟨[], rfl⟩, ⟨[], by simp⟩⟩

theorem Rel.trans {a b c : St} (h1 : Rel a b) (h2 : Rel b c) : Rel a c := by
  obtain ⟨⟨w1, e1⟩, ⟨l1, f1⟩⟩ := h1
  obtain ⟨⟨w2, e2⟩, ⟨l2, f2⟩⟩ := h2
  exact ⟨⟨w1 ++ w2, by rw [e2, e1, applyWrites_append]⟩, ⟨l1 ++ l2, by rw [f2, f1, List.append_assoc]⟩⟩

theorem Rel.same {s s' : St} (h : Rel s s') : Same s.ctx s'.ctx := by
  obtain ⟨⟨ws, e⟩, _⟩ := h
  rw [e]; exact applyWrites_same _ _

theorem Rel.wf {s s' : St} (h : Rel s s') (hw : WF s.ctx) : WF s'.ctx := WF_of_same h.same hw

def Pres {α : Type} (m : M α) : Prop := ∀ s, WF s.ctx → Rel s (m s).2

theorem pres_pure {α : Type} (a : α) : Pres (pure a : M α) := fun s _ => Rel.refl s

theorem pres_raise {α : Type} (e : Err) : Pres (raise e : M α) := fun s _ => Rel.refl s

theorem pres_getCtx : Pres getCtx := fun s _ => Rel.refl s

theorem pres_emit (e : Expr) : Pres (emit e) := fun s _ => ⟨⟨[], rfl⟩, ⟨[e], rfl⟩⟩

theorem pres_liftE {α : Type} (x : Except Err α) : Pres (liftE x) := by
  cases x <;> intro s _ <;> exact Rel.refl s

theorem pres_assign (k : String) (v : Expr) : Pres (assign k v) := by
  intro s _
  unfold assign
  split
  · rename_i c h
    refine ⟨⟨[(k, v)], ?_⟩, ⟨[], by simp⟩⟩
    simp [applyWrites, Ctx.setD, h]
  · exact Rel.refl s

theorem pres_bind {α β : Type} (m : M α) (f : α → M β) (hm : Pres m) (hf : ∀ a, Pres (f a)) :
    Pres (m >>= f) := by
  intro s hw
  show Rel s (bind' m f s).2
  unfold bind'
  have h1 := hm s hw
  split
  · rename_i a s' he
    rw [he] at h1
    exact h1.trans (hf a s' (h1.wf hw))
  · rename_i e s' he
    rw [he] at h1
    exact h1

theorem pres_framed {α : Type} (d : KV) (m : M α) (hm : Pres m) : Pres (framed d m) := by
  intro s hw
  unfold framed
  have hw1 : WF (s.ctx.push d) := by
    unfold WF Ctx.push at *; simp; omega
  obtain ⟨⟨ws, e⟩, ⟨l, hl⟩⟩ := hm { s with ctx := s.ctx.push d } hw1
  obtain ⟨d', ws', h, _, _, _⟩ := applyWrites_push ws s.ctx d
  simp only at e hl ⊢
  refine ⟨⟨ws', ?_⟩, ⟨l, hl⟩⟩
  simp only
  rw [e, h, pop_push _ _ (WF_of_same (applyWrites_same _ _) hw)]

/-- a framed computation, seen from the caller: every scope of the caller keeps exactly its names,
    and no name of the frame is written below it -/
theorem framed_caller {α : Type} (d : KV) (m : M α) (hm : Pres m) (s : St) (hw : WF s.ctx) :
    ∃ ws', (framed d m s).2.ctx = applyWrites s.ctx ws' ∧
      (∀ w ∈ ws', d.has w.1 = false ∧ reserved w.1 = false) ∧
      (framed d m s).2.ctx.scopes.map sig = s.ctx.scopes.map sig := by
  unfold framed
  have hw1 : WF (s.ctx.push d) := by
    unfold WF Ctx.push at *; simp; omega
  obtain ⟨⟨ws, e⟩, _⟩ := hm { s with ctx := s.ctx.push d } hw1
  obtain ⟨d', ws', h, hws, _, hsig⟩ := applyWrites_push ws s.ctx d
  simp only at e ⊢
  have : (m { s with ctx := s.ctx.push d }).2.ctx.pop = applyWrites s.ctx ws' := by
    rw [e, h, pop_push _ _ (WF_of_same (applyWrites_same _ _) hw)]
  exact ⟨ws', this, hws, by rw [this, hsig]⟩

/-! ## every piece of the evaluator maintains `Rel` -/

section evaluator
variable (ev : Expr → M Expr) (hev : ∀ e, Pres (ev e))
include hev

theorem pres_callE (e : Expr) : Pres (callE ev e) := by
  unfold callE; split <;> exact hev _

omit hev in
theorem pres_runPrim (name : String) : Pres (runPrim name) := by
  unfold runPrim
  refine pres_bind _ _ pres_getCtx (fun c => ?_)
  split
  · exact pres_raise _
  · split
    · exact pres_raise _
    · split
      · exact pres_bind _ _ (pres_emit _) (fun _ => pres_pure _)
      · exact pres_raise _

set_option hygiene false in
macro "pres_step" : tactic => `(tactic| first
  | exact pres_pure _ | exact pres_raise _ | exact pres_getCtx | exact pres_emit _
  | exact pres_assign _ _ | exact pres_liftE _ | exact hev _ | exact pres_callE ev hev _
  | refine pres_bind _ _ ?_ (fun _ => ?_)
  | split)

theorem pres_bindArgs : ∀ (ps : List String) (as : List Expr), Pres (bindArgs ev ps as) := by
  intro ps
  induction ps with
  | nil => intro as; simp only [bindArgs]; exact pres_pure _
  | cons p ps ih =>
    intro as
    cases as with
    | nil => simp only [bindArgs]; exact pres_pure _
    | cons a as =>
      simp only [bindArgs]
      exact pres_bind _ _ (pres_callE ev hev a) (fun v => pres_bind _ _ (ih as) (fun r => pres_pure _))

theorem pres_evalProg : ∀ (es : List Expr) (last : Expr), Pres (evalProg ev last es) := by
  intro es
  induction es with
  | nil => intro last; simp only [evalProg]; exact pres_pure _
  | cons x xs ih =>
    intro last
    simp only [evalProg]
    exact pres_bind _ _ (pres_callE ev hev x) (fun v => ih v)

theorem pres_evalEachLoop (f : Expr) : ∀ (xs : List Val), Pres (evalEachLoop ev f xs) := by
  intro xs
  induction xs with
  | nil => simp only [evalEachLoop]; exact pres_pure _
  | cons x xs ih =>
    simp only [evalEachLoop]
    exact pres_bind _ _ (hev _) (fun u => pres_bind _ _ ih (fun r => pres_pure _))

theorem pres_evalOverLoop (f : Expr) : ∀ (xs : List Val) (acc : Expr), Pres (evalOverLoop ev f acc xs) := by
  intro xs
  induction xs with
  | nil => intro acc; simp only [evalOverLoop]; exact pres_pure _
  | cons x xs ih =>
    intro acc
    simp only [evalOverLoop]
    exact pres_bind _ _ (hev _) (fun a => ih a)

theorem pres_runBody (body : Expr) : Pres (runBody ev body) := by
  unfold runBody
  split
  · exact pres_runPrim _
  · exact pres_callE ev hev _

theorem pres_applyFn (f : Expr) (merged : Option (List Expr)) : Pres (applyFn ev f merged) := by
  unfold applyFn
  refine pres_bind _ _ ?_ (fun frame0 => ?_)
  · unfold bindFrame
    split
    · exact pres_pure _
    · exact pres_bindArgs ev hev _ _
  · exact pres_framed _ _ (pres_runBody ev hev _)

theorem pres_evalFn (self a : Expr) (args : Option (List Expr)) (ar : Nat) :
    Pres (evalFn ev self a args ar) := by
  unfold evalFn
  refine pres_bind _ _ pres_getCtx (fun c => ?_)
  refine pres_bind _ _ (pres_liftE _) (fun p => ?_)
  split
  · exact pres_pure _
  · exact pres_applyFn ev hev _ _

theorem pres_step (e : Expr) : Pres (step ev e) := by
  cases e <;> simp only [step]
  case call a as ar => exact pres_evalFn ev hev _ _ _ _
  case callN a ar => exact pres_evalFn ev hev _ _ _ _
  case prog es => exact pres_evalProg ev hev _ _
  case each f arg =>
    refine pres_bind _ _ (hev _) (fun a => ?_)
    split
    · split
      · exact pres_pure _
      · refine pres_bind _ _ (pres_evalEachLoop ev hev _ _) (fun r => ?_)
        split <;> first | exact pres_pure _ | exact pres_raise _
    · exact pres_raise _
    · exact pres_raise _
    · exact hev _
  case over f arg =>
    refine pres_bind _ _ (hev _) (fun a => ?_)
    split
    · exact pres_pure _
    · exact pres_pure _
    · exact pres_evalOverLoop ev hev _ _ _
    · exact pres_pure _
    · exact pres_raise _
    · exact pres_pure _
  all_goals repeat' pres_step

end evaluator

theorem pres_eval : ∀ (n : Nat) (e : Expr), Pres (eval n e) := by
  intro n
  induction n with
  | zero => intro e; simp only [eval]; exact pres_raise _
  | succ n ih => intro e; simp only [eval]; exact pres_step _ ih e

/-! ## unfolding lemmas -/

theorem bind_run {α β : Type} (m : M α) (f : α → M β) (s : St) :
    (m >>= f) s = match m s with
      | (.ok a, s') => f a s'
      | (.error e, s') => (.error e, s') := rfl

theorem pure_run {α : Type} (a : α) (s : St) : (pure a : M α) s = (.ok a, s) := rfl

theorem evalFn_run (ev : Expr → M Expr) (self a : Expr) (args : Option (List Expr)) (ar : Nat) (s : St) :
    evalFn ev self a args ar s =
      match prepare s.ctx a args ar with
      | .error e => (.error e, s)
      | .ok none => (.ok self, s)
      | .ok (some (f, merged)) => applyFn ev f merged s := by
  unfold evalFn
  simp only [bind_run, getCtx]
  cases h : prepare s.ctx a args ar with
  | error e => simp [liftE, raise]
  | ok p =>
    cases p with
    | none => simp [liftE, pure_run]
    | some fm => obtain ⟨f, merged⟩ := fm; simp [liftE, pure_run]

theorem eval_call_run (n : Nat) (a : Expr) (as : List Expr) (ar : Nat) (s : St) :
    eval (n + 1) (.call a as ar) s =
      match prepare s.ctx a (some as) ar with
      | .error e => (.error e, s)
      | .ok none => (.ok (.call a as ar), s)
      | .ok (some (f, merged)) => applyFn (eval n) f merged s := by
  show step (eval n) _ s = _
  simp only [step, evalFn_run]

theorem eval_lit (n : Nat) (v : Val) (s : St) : (eval n (.lit v) s).2 = s := by
  cases n with
  | zero => rfl
  | succ n => rfl

theorem eval_lit_ok (n : Nat) (v : Val) (s : St) : eval (n + 1) (.lit v) s = (.ok (.lit v), s) := rfl

theorem bindArgs_lits (n : Nat) : ∀ (ps : List String) (vals : List Val) (s : St),
    (bindArgs (eval n) ps (vals.map .lit) s).2 = s := by
  intro ps
  induction ps with
  | nil => intro vals s; simp [bindArgs, pure_run]
  | cons p ps ih =>
    intro vals s
    cases vals with
    | nil => simp [bindArgs, pure_run]
    | cons v vals =>
      simp only [List.map_cons, bindArgs, bind_run, callE]
      cases n with
      | zero => rfl
      | succ n =>
        rw [eval_lit_ok]
        simp only
        have := ih vals s
        cases h : bindArgs (eval (n + 1)) ps (List.map Expr.lit vals) s with
        | mk r s' =>
          rw [h] at this
          cases r <;> simp_all [pure_run]

theorem bindArgs_keys (ev : Expr → M Expr) : ∀ (ps : List String) (as : List Expr) (s : St) (fr : KV),
    (bindArgs ev ps as s).1 = .ok fr → fr.keys = (ps.zip as).map Prod.fst := by
  intro ps
  induction ps with
  | nil => intro as s fr h; simp [bindArgs, pure_run] at h; subst h; simp [KV.keys]
  | cons p ps ih =>
    intro as s fr h
    cases as with
    | nil => simp [bindArgs, pure_run] at h; subst h; simp [KV.keys]
    | cons a as =>
      simp only [bindArgs, bind_run] at h
      cases h1 : callE ev a s with
      | mk r1 s1 =>
        rw [h1] at h
        cases r1 with
        | error e => simp at h
        | ok v =>
          simp only at h
          cases h2 : bindArgs ev ps as s1 with
          | mk r2 s2 =>
            rw [h2] at h
            cases r2 with
            | error e => simp at h
            | ok fr' =>
              simp [pure_run] at h
              subst h
              have := ih as s1 fr' (by rw [h2])
              simp [KV.keys] at this ⊢
              exact this

theorem KV.mem_keys_iff (d : KV) (k : String) : k ∈ d.keys ↔ d.has k = true := by
  induction d with
  | nil => simp [KV.keys, KV.has, KV.get]
  | cons p r ih =>
    obtain ⟨k0, v0⟩ := p
    by_cases hk : k = k0
    · subst hk; simp [KV.keys, KV.has, KV.get]
    · simp only [KV.keys, List.map_cons, List.mem_cons, hk, false_or, KV.has, KV.get, if_false] at ih ⊢
      exact ih

theorem addLocals_has (ns : List String) : ∀ (d : KV) (k : String),
    (d.has k = true ∨ k ∈ ns) → (addLocals d ns).has k = true := by
  induction ns with
  | nil => intro d k h; simpa [addLocals] using h
  | cons n ns ih =>
    intro d k h
    simp only [addLocals]
    apply ih
    rcases h with h | h
    · left; split
      · exact h
      · simp [KV.has_put, h]
    · rcases List.mem_cons.mp h with rfl | h
      · left; split
        · assumption
        · simp [KV.has_put]
      · right; exact h

/-- the names a function declares local (`[a b]` in front of its body) -/
def declared (f : Expr) : List String :=
  match splitLocals f with
  | some (ns, _) => ns
  | none => []

theorem frameOf_has (f : Expr) (frame0 : KV) (k : String)
    (h : frame0.has k = true ∨ k ∈ declared f ∨ k = ".f") : (frameOf f frame0).1.has k = true := by
  unfold frameOf declared at *
  split
  · rename_i ns rest hs
    simp only [hs] at h
    simp only [KV.has_put]
    rcases h with h | h | h
    · simp [addLocals_has ns frame0 k (Or.inl h)]
    · simp [addLocals_has ns frame0 k (Or.inr h)]
    · simp [h]
  · rename_i hs
    simp only [hs] at h
    simp only [KV.has_put]
    rcases h with h | h | h
    · simp [h]
    · simp at h
    · simp [h]

/-! ## PROPERTY: frame discipline -/

/-- PROPERTY.  For every program, every fuel and every outcome — a value, or an error raised at any
    sub-expression at any call depth: the context has the depth it had before, every scope below
    the top one has exactly the names it had (their values change only by assignment), the top
    scope keeps its names, the post-state is the pre-state with a list of assignments applied, and
    the event log has only grown. -/
theorem frame_discipline (n : Nat) (e : Expr) (s : St) (hw : WF s.ctx) :
    (eval n e s).2.ctx.depth = s.ctx.depth ∧
    (eval n e s).2.ctx.minCount = s.ctx.minCount ∧
    (eval n e s).2.ctx.scopes.tail.map sig = s.ctx.scopes.tail.map sig ∧
    (∀ k, topHas s.ctx.scopes k = true → topHas (eval n e s).2.ctx.scopes k = true) ∧
    (∃ ws, (eval n e s).2.ctx = applyWrites s.ctx ws) ∧
    (∃ l, (eval n e s).2.log = s.log ++ l) := by
  have h := pres_eval n e s hw
  have hs := h.same
  exact ⟨hs.len, hs.min, hs.below, hs.top, h.1, h.2⟩

/-- PROPERTY.  Whatever the outcome of evaluating `e` (in particular when it failed part-way), every
    further program behaves exactly as it does from the pre-state with the assignments of `e`
    applied: nothing else of the failed evaluation is left behind. -/
theorem eval_after_failure (n : Nat) (e : Expr) (s : St) (hw : WF s.ctx) :
    ∃ ws l, ∀ (m : Nat) (p : Expr),
      eval m p (eval n e s).2 = eval m p { ctx := applyWrites s.ctx ws, log := s.log ++ l } := by
  obtain ⟨⟨ws, hc⟩, ⟨l, hl⟩⟩ := pres_eval n e s hw
  refine ⟨ws, l, fun m p => ?_⟩
  have : (eval n e s).2 = { ctx := applyWrites s.ctx ws, log := s.log ++ l } := by
    cases h : (eval n e s).2 with
    | mk c lg => rw [h] at hc hl; simp only at hc hl; rw [hc, hl]
  rw [this]

/-- the second half of a call, with the arguments already values: seen from the caller, every scope —
    the caller's own top scope included — keeps exactly its names, and no name of the frame
    (parameter, declared local, `.f`) is touched below the frame -/
theorem applyFn_caller (n : Nat) (f : Expr) (vals : List Val) (s : St) (hw : WF s.ctx) :
    (applyFn (eval n) f (some (vals.map .lit)) s).2.ctx.scopes.map sig = s.ctx.scopes.map sig ∧
    (applyFn (eval n) f (some (vals.map .lit)) s).2.ctx.depth = s.ctx.depth ∧
    ∀ k, (k ∈ ["x", "y", "z"].take vals.length ∨ k ∈ declared f ∨ k = ".f") →
      (applyFn (eval n) f (some (vals.map .lit)) s).2.ctx.get k = s.ctx.get k := by
  unfold applyFn
  simp only [bind_run, bindFrame]
  have hst := bindArgs_lits n ["x", "y", "z"] vals s
  cases hb : bindArgs (eval n) ["x", "y", "z"] (vals.map .lit) s with
  | mk r s1 =>
    rw [hb] at hst
    simp only at hst
    subst hst
    cases r with
    | error e => simp
    | ok frame0 =>
      simp only
      have hkeys := bindArgs_keys (eval n) _ _ _ frame0 (by rw [hb])
      obtain ⟨ws', hctx, hws, hsig⟩ := framed_caller (frameOf f frame0).1
        (runBody (eval n) (frameOf f frame0).2) (pres_runBody _ (pres_eval n) _) s1 hw
      refine ⟨hsig, ?_, ?_⟩
      · have := congrArg List.length hsig
        simpa [Ctx.depth] using this
      · intro k hk
        rw [hctx]
        apply applyWrites_get
        intro w hw' heq
        have hhas : (frameOf f frame0).1.has k = true := by
          apply frameOf_has
          rcases hk with hk | hk | hk
          · left
            rw [← KV.mem_keys_iff, hkeys]
            have : ∀ (vs : List Val), k ∈ ["x", "y", "z"].take vs.length →
                k ∈ (List.zip ["x", "y", "z"] (vs.map Expr.lit)).map Prod.fst := by
              intro vs h
              rcases vs with _ | ⟨a, _ | ⟨b, _ | ⟨c, rest⟩⟩⟩ <;> simp_all
            exact this vals hk
          · right; left; exact hk
          · right; right; exact hk
        rw [← heq] at hhas
        rw [(hws w hw').1] at hhas
        exact absurd hhas (by simp)

/-- PROPERTY (frame discipline of a call).  A call whose arguments are values — whatever happens
    inside it, at any depth, value or error — leaves every scope of the caller with exactly the names
    it had and the context at its depth. (`hm`: the arguments stored in projections it goes through
    are values too.) -/
theorem call_frame_discipline (n : Nat) (a : Expr) (vals : List Val) (ar : Nat) (s : St) (hw : WF s.ctx)
    (hm : ∀ f merged, prepare s.ctx a (some (vals.map .lit)) ar = .ok (some (f, merged)) →
      ∃ vs : List Val, merged = some (vs.map .lit)) :
    (eval (n + 1) (.call a (vals.map .lit) ar) s).2.ctx.scopes.map sig = s.ctx.scopes.map sig ∧
    (eval (n + 1) (.call a (vals.map .lit) ar) s).2.ctx.depth = s.ctx.depth := by
  rw [eval_call_run]
  cases hp : prepare s.ctx a (some (vals.map .lit)) ar with
  | error e => simp
  | ok p =>
    cases p with
    | none => simp
    | some fm =>
      obtain ⟨f, merged⟩ := fm
      obtain ⟨vs, rfl⟩ := hm f merged hp
      simp only
      exact ⟨(applyFn_caller n f vs s hw).1, (applyFn_caller n f vs s hw).2.1⟩

/-- PROPERTY.  Parameters, declared locals and `.f` exist only during the call: afterwards — also
    when the call failed part-way — each of these names has in the caller's context the value (or
    the absence of a value) it had before. -/
theorem locals_are_local (n : Nat) (a : Expr) (vals : List Val) (ar : Nat) (s : St) (hw : WF s.ctx)
    (f : Expr) (vs : List Val)
    (hp : prepare s.ctx a (some (vals.map .lit)) ar = .ok (some (f, some (vs.map .lit))))
    (k : String) (hk : k ∈ ["x", "y", "z"].take vs.length ∨ k ∈ declared f ∨ k = ".f") :
    (eval (n + 1) (.call a (vals.map .lit) ar) s).2.ctx.get k = s.ctx.get k := by
  rw [eval_call_run, hp]
  exact (applyFn_caller n f vs s hw).2.2 k hk

/-! ## projections -/

/-- an absolute description of one filling step: position ↦ argument (absent = stays open) -/
abbrev Fill := List (Nat × Expr)

def fillGet : Fill → Nat → Expr
  | [], _ => .hole
  | (j, e) :: r, i => if i = j then e else fillGet r i

/-- the argument list one writes for the fill `st` when the current argument vector is `cur`:
    one entry per open position, in order — `g(;2)` -/
def relLayerFrom (i : Nat) : List Expr → Fill → List Expr
  | [], _ => []
  | e :: r, st => if isHole e then fillGet st i :: relLayerFrom (i + 1) r st else relLayerFrom (i + 1) r st

/-- the fill applied by position -/
def applyFillFrom (i : Nat) : List Expr → Fill → List Expr
  | [], _ => []
  | e :: r, st => (if isHole e then fillGet st i else e) :: applyFillFrom (i + 1) r st

theorem isHole_eq {e : Expr} (h : isHole e = true) : e = .hole := by
  cases e <;> simp_all [isHole]

theorem fillLayer_cons_cons (s : Expr) (ss : List Expr) (a : Expr) (as : List Expr) :
    fillLayer (s :: ss) (a :: as) =
      if isHole s then a :: fillLayer ss as else s :: fillLayer ss (a :: as) := by
  cases s <;> simp [fillLayer, isHole]

theorem fillLayer_nil_right (ss : List Expr) : fillLayer ss [] = ss := by
  cases ss <;> simp [fillLayer]

theorem applyFill_of_rel_nil : ∀ (r : List Expr) (j : Nat) (st : Fill),
    relLayerFrom j r st = [] → applyFillFrom j r st = r := by
  intro r
  induction r with
  | nil => intro j st _; rfl
  | cons e r ih =>
    intro j st h
    simp only [relLayerFrom] at h
    by_cases he : isHole e = true
    · simp [he] at h
    · simp only [he] at h
      simp only [applyFillFrom, he]
      simp at h
      simp [ih (j + 1) st h]

/-- what `merge_projections` does with one layer is the positional fill -/
theorem fillLayer_rel : ∀ (cur : List Expr) (i : Nat) (st : Fill),
    fillLayer cur (relLayerFrom i cur st) = applyFillFrom i cur st := by
  intro cur
  induction cur with
  | nil => intro i st; simp [relLayerFrom, applyFillFrom, fillLayer]
  | cons e r ih =>
    intro i st
    by_cases he : isHole e = true
    · simp only [relLayerFrom, he, if_true, applyFillFrom]
      rw [fillLayer_cons_cons]
      simp [he, ih]
    · have he' : isHole e = false := by simpa using he
      simp only [relLayerFrom, he', applyFillFrom, Bool.false_eq_true, if_false]
      cases hl : relLayerFrom (i + 1) r st with
      | nil =>
        simp [fillLayer_nil_right, applyFill_of_rel_nil r (i + 1) st hl]
      | cons a as =>
        rw [fillLayer_cons_cons]
        simp only [he', Bool.false_eq_true, if_false]
        rw [← hl, ih]

theorem applyFill_length : ∀ (cur : List Expr) (i : Nat) (st : Fill),
    (applyFillFrom i cur st).length = cur.length := by
  intro cur
  induction cur with
  | nil => intro i st; rfl
  | cons e r ih => intro i st; simp [applyFillFrom, ih]

theorem applyFill_get : ∀ (cur : List Expr) (i j : Nat) (st : Fill),
    (applyFillFrom i cur st)[j]? = cur[j]?.map (fun e => if isHole e then fillGet st (i + j) else e) := by
  intro cur
  induction cur with
  | nil => intro i j st; simp [applyFillFrom]
  | cons e r ih =>
    intro i j st
    cases j with
    | zero => simp [applyFillFrom]
    | succ j =>
      simp only [applyFillFrom, List.getElem?_cons_succ, ih]
      have : i + 1 + j = i + (j + 1) := by omega
      rw [this]

/-- PROPERTY (merge is positional).  The layer written for a fill — one entry per open hole, in
    order, the argument for that position or again a hole — puts into every position exactly the
    argument the fill names for it and leaves the positions filled earlier alone. -/
theorem merge_is_positional (cur : List Expr) (st : Fill) (j : Nat) :
    (fillLayer cur (relLayerFrom 0 cur st))[j]? =
      cur[j]?.map (fun e => if isHole e then fillGet st j else e) := by
  rw [fillLayer_rel, applyFill_get]; simp

def holes (n : Nat) : List Expr := List.replicate n .hole

theorem rel_holes : ∀ (n i : Nat) (st : Fill), relLayerFrom i (holes n) st = applyFillFrom i (holes n) st := by
  intro n
  induction n with
  | zero => intro i st; rfl
  | succ n ih =>
    intro i st
    simp only [holes, List.replicate_succ, relLayerFrom, applyFillFrom, isHole, if_true]
    rw [← holes, ih]

/-- `_resolve_fn` leaves the expression alone (operator nodes, conditionals, programs, data, and
    symbols bound to data) -/
def Stable (c : Ctx) (b : Expr) : Prop := ∀ L ar, resolve1 c b L ar = .ok (b, L, ar)

theorem stable_op2 (c : Ctx) (o : String) (a b : Expr) : Stable c (.op2 o a b) := by
  intro L ar; simp only [resolve1]; split <;> rfl
theorem stable_op1 (c : Ctx) (o : String) (a : Expr) : Stable c (.op1 o a) := by
  intro L ar; simp only [resolve1]; split <;> rfl
theorem stable_cond (c : Ctx) (t a b : Expr) : Stable c (.cond t a b) := by
  intro L ar; simp only [resolve1]; split <;> rfl
theorem stable_prog (c : Ctx) (es : List Expr) : Stable c (.prog es) := by
  intro L ar; simp only [resolve1]; split <;> rfl
theorem stable_lit (c : Ctx) (v : Val) : Stable c (.lit v) := by
  intro L ar; simp only [resolve1]; split <;> rfl

theorem resolve1_sym_fn (c : Ctx) (s : String) (b : Expr) (far : Nat) (L : Layers) (ar : Nat)
    (hs : reserved s = false) (hg : c.get s = some (.fn b far)) (har : 0 < ar) :
    resolve1 c (.sym s) L ar = .ok (b, L, far) := by
  simp [resolve1, hg, hs, isKGFn, har]

theorem resolve1_sym_proj (c : Ctx) (s : String) (a : Expr) (as : List Expr) (k : Nat) (L : Layers)
    (ar : Nat) (hs : reserved s = false) (hg : c.get s = some (.proj a as k)) (hh : hasHole as = true)
    (har : 0 < ar) : resolve1 c (.sym s) L ar = .ok (a, L ++ [some as], k) := by
  simp [resolve1, hg, hs, isKGFn, har, hh]

theorem resolve1_fn (c : Ctx) (b : Expr) (far : Nat) (L : Layers) (ar : Nat) (har : 0 < ar) :
    resolve1 c (.fn b far) L ar = .ok (b, L, far) := by
  simp [resolve1, har]

/-- the direct call: three passes end at the body, the argument list is the one written -/
theorem prepare_direct (c : Ctx) (f : String) (body : Expr) (far ar : Nat) (as : List Expr)
    (hfr : reserved f = false) (hf : c.get f = some (.fn body far)) (har : 0 < ar)
    (hst : Stable c body) (hfull : hasHole as = false) (hfar : far ≤ as.length) :
    prepare c (.sym f) (some as) ar = .ok (some (body, some as)) := by
  have hlt : ¬ as.length < far := by omega
  simp [prepare, resolve3, resolve1_sym_fn c f body far _ ar hfr hf har, hst _ _, mergeProjections,
    hfull, hlt, bind, Except.bind, Except.map]

/-- one projection, then the call that fills the rest -/
theorem prepare_one_step (c : Ctx) (f g : String) (body : Expr) (far k1 k2 : Nat) (L1 L2 : List Expr)
    (hfr : reserved f = false) (hf : c.get f = some (.fn body far))
    (hgr : reserved g = false) (hg : c.get g = some (.proj (.sym f) L1 k1))
    (h1 : hasHole L1 = true) (hk1 : 0 < k1) (hk2 : 0 < k2) (hst : Stable c body)
    (hfull : hasHole (fillLayer L1 L2) = false) (hfar : far ≤ (fillLayer L1 L2).length) :
    prepare c (.sym g) (some L2) k2 = .ok (some (body, some (fillLayer L1 L2))) := by
  have hlt : ¬ (fillLayer L1 L2).length < far := by omega
  simp [prepare, resolve3, resolve1_sym_proj c g (.sym f) L1 k1 _ k2 hgr hg h1 hk2,
    resolve1_sym_fn c f body far _ k1 hfr hf hk1, hst _ _, mergeProjections, fillLayers, h1,
    hfull, hlt, bind, Except.bind, Except.map]

/-- two projections, then the call that fills the rest: all three resolution passes are used -/
theorem prepare_two_steps (c : Ctx) (f g h : String) (body : Expr) (far k1 k2 k3 : Nat)
    (L1 L2 L3 : List Expr)
    (hfr : reserved f = false) (hf : c.get f = some (.fn body far))
    (hgr : reserved g = false) (hg : c.get g = some (.proj (.sym f) L1 k1))
    (hhr : reserved h = false) (hh : c.get h = some (.proj (.sym g) L2 k2))
    (h1 : hasHole L1 = true) (h2 : hasHole L2 = true) (hk1 : 0 < k1) (hk2 : 0 < k2) (hk3 : 0 < k3)
    (hfull : hasHole (fillLayer (fillLayer L1 L2) L3) = false)
    (hfar : far ≤ (fillLayer (fillLayer L1 L2) L3).length) :
    prepare c (.sym h) (some L3) k3 = .ok (some (body, some (fillLayer (fillLayer L1 L2) L3))) := by
  have hlt : ¬ (fillLayer (fillLayer L1 L2) L3).length < far := by omega
  simp [prepare, resolve3, resolve1_sym_proj c h (.sym g) L2 k2 _ k3 hhr hh h2 hk3,
    resolve1_sym_proj c g (.sym f) L1 k1 _ k2 hgr hg h1 hk2,
    resolve1_sym_fn c f body far _ k1 hfr hf hk1, mergeProjections, fillLayers, h1,
    hfull, hlt, bind, Except.bind, Except.map]

/-- the argument vector after the fills `sts`, by position -/
def fillsFrom (cur : List Expr) : List Fill → List Expr
  | [] => cur
  | st :: r => fillsFrom (applyFillFrom 0 cur st) r

/-- PROPERTY (one step).  `g::f(…holes…); g(rest)` — for every arity, every hole pattern (given as a
    fill `st1` of the positions) and every final fill: evaluating the call through the projection
    is, for every fuel and in every state, the same computation as the direct call `f(a;b;c)` whose
    arguments are placed by position — same value or error, same state, same events. -/
theorem projection_one_step (s : St) (f g : String) (body : Expr) (far n k1 k2 ar m : Nat) (st1 st2 : Fill)
    (hfr : reserved f = false) (hf : s.ctx.get f = some (.fn body far))
    (hgr : reserved g = false)
    (hg : s.ctx.get g = some (.proj (.sym f) (relLayerFrom 0 (holes n) st1) k1))
    (h1 : hasHole (relLayerFrom 0 (holes n) st1) = true)
    (hk1 : 0 < k1) (hk2 : 0 < k2) (har : 0 < ar) (hst : Stable s.ctx body)
    (hfull : hasHole (fillsFrom (holes n) [st1, st2]) = false) (hfar : far ≤ n) :
    eval (m + 1) (.call (.sym g) (relLayerFrom 0 (fillsFrom (holes n) [st1]) st2) k2) s =
    eval (m + 1) (.call (.sym f) (fillsFrom (holes n) [st1, st2]) ar) s := by
  simp only [fillsFrom] at *
  have e1 : fillLayer (relLayerFrom 0 (holes n) st1) (relLayerFrom 0 (applyFillFrom 0 (holes n) st1) st2)
      = applyFillFrom 0 (applyFillFrom 0 (holes n) st1) st2 := by
    rw [rel_holes, fillLayer_rel]
  have hlen : (applyFillFrom 0 (applyFillFrom 0 (holes n) st1) st2).length = n := by
    simp [applyFill_length, holes]
  rw [eval_call_run, eval_call_run,
    prepare_one_step s.ctx f g body far k1 k2 _ _ hfr hf hgr hg h1 hk1 hk2 hst (by rw [e1]; exact hfull)
      (by rw [e1, hlen]; exact hfar),
    prepare_direct s.ctx f body far ar _ hfr hf har hst hfull (by rw [hlen]; exact hfar), e1]

/-- PROPERTY (any order, any number of steps).  `g::f(…); h::g(…); h(rest)` — for every arity, every
    hole pattern of the first projection, every partial filling by the second and every final fill
    that leaves no hole: the call through the two projections is the same computation as the direct
    call with the arguments placed by position. With one argument filled per step this covers every
    order of filling a triad; all three `_resolve_fn` passes are used. -/
theorem projection_any_order (s : St) (f g h : String) (body : Expr) (far n k1 k2 k3 ar m : Nat)
    (st1 st2 st3 : Fill)
    (hfr : reserved f = false) (hf : s.ctx.get f = some (.fn body far))
    (hgr : reserved g = false)
    (hg : s.ctx.get g = some (.proj (.sym f) (relLayerFrom 0 (holes n) st1) k1))
    (hhr : reserved h = false)
    (hh : s.ctx.get h = some (.proj (.sym g) (relLayerFrom 0 (fillsFrom (holes n) [st1]) st2) k2))
    (h1 : hasHole (relLayerFrom 0 (holes n) st1) = true)
    (h2 : hasHole (relLayerFrom 0 (fillsFrom (holes n) [st1]) st2) = true)
    (hk1 : 0 < k1) (hk2 : 0 < k2) (hk3 : 0 < k3) (har : 0 < ar) (hst : Stable s.ctx body)
    (hfull : hasHole (fillsFrom (holes n) [st1, st2, st3]) = false) (hfar : far ≤ n) :
    eval (m + 1) (.call (.sym h) (relLayerFrom 0 (fillsFrom (holes n) [st1, st2]) st3) k3) s =
    eval (m + 1) (.call (.sym f) (fillsFrom (holes n) [st1, st2, st3]) ar) s := by
  simp only [fillsFrom] at *
  have e1 : fillLayer (fillLayer (relLayerFrom 0 (holes n) st1)
        (relLayerFrom 0 (applyFillFrom 0 (holes n) st1) st2))
        (relLayerFrom 0 (applyFillFrom 0 (applyFillFrom 0 (holes n) st1) st2) st3)
      = applyFillFrom 0 (applyFillFrom 0 (applyFillFrom 0 (holes n) st1) st2) st3 := by
    rw [rel_holes, fillLayer_rel, fillLayer_rel]
  have hlen : (applyFillFrom 0 (applyFillFrom 0 (applyFillFrom 0 (holes n) st1) st2) st3).length = n := by
    simp [applyFill_length, holes]
  rw [eval_call_run, eval_call_run,
    prepare_two_steps s.ctx f g h body far k1 k2 k3 _ _ _ hfr hf hgr hg hhr hh h1 h2 hk1 hk2 hk3
      (by rw [e1]; exact hfull) (by rw [e1, hlen]; exact hfar),
    prepare_direct s.ctx f body far ar _ hfr hf har hst hfull (by rw [hlen]; exact hfar), e1]

/-- PROPERTY (witness against the pinned tree).  The merge of the tree before
    `fix: merge_projections …` leaves a hole for `g::f(;;3); h::g(;2); h(1)` — the call then ran with
    x unbound — while the positional merge fills all three positions. -/
theorem pinned_merge_counterexample :
    hasHole (mergeOld [.hole, .hole, .lit (.int 3)] [[.hole, .lit (.int 2)], [.lit (.int 1)]]) = true ∧
    hasHole (fillLayer (fillLayer [.hole, .hole, .lit (.int 3)] [.hole, .lit (.int 2)]) [.lit (.int 1)]) = false := by
  decide

/-! ## conditionals -/

/-- PROPERTY.  Klong truth: exactly 0 (integer or real, either sign), [] and "" are false. -/
theorem truthy_spec (q : Expr) :
    truthy q = false ↔
      q = .lit (.int 0) ∨ q = .lit (.real 0) ∨ q = .lit (.real 0x8000000000000000) ∨
      q = .lit (.list []) ∨ q = .lit (.str []) := by
  cases q with
  | lit v =>
    cases v with
    | int n => simp [truthy, falsy]
    | real b => simp [truthy, falsy]; by_cases hb : b = 0 <;> simp [hb]
    | list xs => cases xs <;> simp [truthy, falsy]
    | str cs => cases cs <;> simp [truthy, falsy]
    | _ => simp [truthy, falsy]
  | _ => simp [truthy]

/-- PROPERTY.  `:[c;a;b]` evaluates `c`, then `a` if the value of `c` is true and `b` otherwise —
    and nothing else. -/
theorem cond_by_truth (ev : Expr → M Expr) (c a b : Expr) (s : St) :
    step ev (.cond c a b) s =
      match callE ev c s with
      | (.error e, s1) => (.error e, s1)
      | (.ok q, s1) => if truthy q then callE ev a s1 else callE ev b s1 := by
  simp only [step, bind_run]
  cases callE ev c s with
  | mk r s1 =>
    cases r with
    | error e => rfl
    | ok q => simp only; split <;> rfl

/-- PROPERTY.  The unselected branch is never evaluated: replace it by any expression at all — one
    that logs, assigns or raises — and result, state and event log of the conditional are the same. -/
theorem cond_unselected_silent (n : Nat) (c a b : Expr) (s : St) (q : Expr) (s1 : St)
    (hc : callE (eval n) c s = (.ok q, s1)) :
    (truthy q = true → ∀ b', eval (n + 1) (.cond c a b) s = eval (n + 1) (.cond c a b') s) ∧
    (truthy q = false → ∀ a', eval (n + 1) (.cond c a b) s = eval (n + 1) (.cond c a' b) s) ∧
    eval (n + 1) (.cond c a b) s = (if truthy q then callE (eval n) a s1 else callE (eval n) b s1) := by
  have h : ∀ a b, eval (n + 1) (.cond c a b) s =
      (if truthy q then callE (eval n) a s1 else callE (eval n) b s1) := by
    intro a b
    show step (eval n) _ s = _
    rw [cond_by_truth, hc]
  refine ⟨fun ht b' => ?_, fun ht a' => ?_, h a b⟩
  · rw [h, h, ht]; simp
  · rw [h, h, ht]; simp

/-! ## a call is the substituted body -/

/-- the closed first-order body grammar: data, the parameters `ps`, global data variables of the
    caller's context `c`, monadic and dyadic operators (not `@`), conditionals -/
inductive Body (c : Ctx) (ps : List String) : Expr → Prop
  | lit (v : Val) : Body c ps (.lit v)
  | param (p : String) : p ∈ ps → Body c ps (.sym p)
  | glob (g : String) (v : Val) : reserved g = false → g ≠ ".f" → c.get g = some (.lit v) →
      Body c ps (.sym g)
  | op1 (o : String) (a : Expr) : Body c ps a → Body c ps (.op1 o a)
  | op2 (o : String) (a b : Expr) : o ≠ "@" → Body c ps a → Body c ps b → Body c ps (.op2 o a b)
  | cond (t a b : Expr) : Body c ps t → Body c ps a → Body c ps b → Body c ps (.cond t a b)

def op1K (o : String) (x : Expr) : Except Err Expr :=
  match x with
  | .lit v => match monad o v with
    | some r => .ok (.lit r)
    | none => .error .type
  | _ => .error .type

def op2K (o : String) (x y : Expr) : Except Err Expr :=
  match x, y with
  | .lit v, .lit w => match dyad o v w with
    | some r => .ok (.lit r)
    | none => .error .type
  | _, _ => .error .type

theorem step_op1 (ev : Expr → M Expr) (o : String) (a : Expr) (s : St) :
    step ev (.op1 o a) s = match ev a s with
      | (.ok x, s') => (op1K o x, s')
      | (.error e, s') => (.error e, s') := by
  simp only [step, bind_run]
  cases ev a s with
  | mk r s' =>
    cases r with
    | error e => rfl
    | ok x =>
      cases x with
      | lit v => simp only [op1K]; cases monad o v <;> rfl
      | _ => rfl

theorem step_op2 (ev : Expr → M Expr) (o : String) (a b : Expr) (s : St) (ho : o ≠ "@") :
    step ev (.op2 o a b) s = match ev b s with
      | (.error e, s1) => (.error e, s1)
      | (.ok y, s1) => match ev a s1 with
        | (.error e, s2) => (.error e, s2)
        | (.ok x, s2) => (op2K o x y, s2) := by
  have ho' : (o == "@") = false := by simpa using ho
  simp only [step, bind_run, ho']
  cases ev b s with
  | mk r s1 =>
    cases r with
    | error e => rfl
    | ok y =>
      simp only
      cases ev a s1 with
      | mk r2 s2 =>
        cases r2 with
        | error e => rfl
        | ok x =>
          simp only [Bool.false_eq_true, if_false]
          cases x with
          | lit v =>
            cases y with
            | lit w => simp only [op2K]; cases dyad o v w <;> rfl
            | _ => rfl
          | _ => rfl

theorem callE_body (ev : Expr → M Expr) (c : Ctx) (ps : List String) (e : Expr) (hb : Body c ps e) :
    callE ev e = ev e := by
  cases hb <;> rfl

section sim
variable (c : Ctx) (ps : List String) (frame σ : KV)
  (H1 : ∀ p ∈ ps, ∃ v, frame.get p = some (.lit v) ∧ σ.get p = some (.lit v))
  (H2 : ∀ g, reserved g = false → g ≠ ".f" → frame.get g = none ∧ σ.get g = none)
include H1 H2

theorem callE_subst_body (ev : Expr → M Expr) (e : Expr) (hb : Body c ps e) :
    callE ev (subst σ e) = ev (subst σ e) := by
  cases hb with
  | lit v => rfl
  | param p hp =>
    obtain ⟨v, _, h2⟩ := H1 p hp
    simp [subst, bound, h2, callE]
  | glob g v hr hf hg =>
    simp [subst, bound, (H2 g hr hf).2, callE]
  | op1 o a ha => simp [subst, callE]
  | op2 o a b ho ha hb' => simp [subst, callE]
  | cond t a b ht ha hb' => simp [subst, callE]

/-- evaluating a body of the grammar under the frame {x,y,z ↦ values, .f} is evaluating the
    substituted body without the frame; neither changes the state -/
theorem sim : ∀ (n : Nat) (e : Expr), Body c ps e → ∀ lg,
    eval n (subst σ e) ⟨c, lg⟩ = ((eval n (subst σ e) ⟨c, lg⟩).1, ⟨c, lg⟩) ∧
    eval n e ⟨c.push frame, lg⟩ = ((eval n (subst σ e) ⟨c, lg⟩).1, ⟨c.push frame, lg⟩) := by
  intro n
  induction n with
  | zero => intro e _ lg; exact ⟨rfl, rfl⟩
  | succ n ih =>
    intro e hb lg
    cases hb with
    | lit v => exact ⟨rfl, rfl⟩
    | param p hp =>
      obtain ⟨v, h1, h2⟩ := H1 p hp
      have hs : subst σ (.sym p) = .lit v := by simp [subst, bound, h2]
      have eF : eval (n + 1) (.sym p) ⟨c.push frame, lg⟩ = (.ok (.lit v), ⟨c.push frame, lg⟩) := by
        show step (eval n) _ _ = _
        simp [step, bind_run, getCtx, Ctx.get, Ctx.push, getScopes, h1, pure_run]
      rw [hs, eF]
      exact ⟨rfl, rfl⟩
    | glob g v hr hf hg =>
      obtain ⟨h1, h2⟩ := H2 g hr hf
      have hs : subst σ (.sym g) = .sym g := by simp [subst, bound, h2]
      have hg' : getScopes c.scopes g = some (.lit v) := hg
      have e0 : eval (n + 1) (.sym g) ⟨c, lg⟩ = (.ok (.lit v), ⟨c, lg⟩) := by
        show step (eval n) _ _ = _
        simp [step, bind_run, getCtx, Ctx.get, hg', pure_run]
      have eF : eval (n + 1) (.sym g) ⟨c.push frame, lg⟩ = (.ok (.lit v), ⟨c.push frame, lg⟩) := by
        show step (eval n) _ _ = _
        simp [step, bind_run, getCtx, Ctx.get, Ctx.push, getScopes, h1, hg', pure_run]
      rw [hs, e0, eF]
      exact ⟨rfl, rfl⟩
    | op1 o a ha =>
      obtain ⟨i1, i2⟩ := ih a ha lg
      have hs : subst σ (.op1 o a) = .op1 o (subst σ a) := by simp [subst]
      rw [hs]
      constructor
      · show step (eval n) _ _ = ((step (eval n) _ _).1, _)
        rw [step_op1, i1]
        cases (eval n (subst σ a) ⟨c, lg⟩).1 <;> rfl
      · show step (eval n) _ _ = ((step (eval n) _ _).1, _)
        rw [step_op1, step_op1, i2, i1]
        cases (eval n (subst σ a) ⟨c, lg⟩).1 <;> rfl
    | op2 o a b ho ha hb' =>
      obtain ⟨a1, a2⟩ := ih a ha lg
      obtain ⟨b1, b2⟩ := ih b hb' lg
      have hs : subst σ (.op2 o a b) = .op2 o (subst σ a) (subst σ b) := by simp [subst]
      rw [hs]
      constructor
      · show step (eval n) _ _ = ((step (eval n) _ _).1, _)
        rw [step_op2 _ _ _ _ _ ho, b1]
        cases (eval n (subst σ b) ⟨c, lg⟩).1 with
        | error e => rfl
        | ok y =>
          simp only
          rw [a1]
          cases (eval n (subst σ a) ⟨c, lg⟩).1 <;> rfl
      · show step (eval n) _ _ = ((step (eval n) _ _).1, _)
        rw [step_op2 _ _ _ _ _ ho, step_op2 _ _ _ _ _ ho, b2, b1]
        cases (eval n (subst σ b) ⟨c, lg⟩).1 with
        | error e => rfl
        | ok y =>
          simp only
          rw [a2, a1]
          cases (eval n (subst σ a) ⟨c, lg⟩).1 <;> rfl
    | cond t a b ht ha hb' =>
      obtain ⟨t1, t2⟩ := ih t ht lg
      obtain ⟨a1, a2⟩ := ih a ha lg
      obtain ⟨b1, b2⟩ := ih b hb' lg
      have hs : subst σ (.cond t a b) = .cond (subst σ t) (subst σ a) (subst σ b) := by simp [subst]
      rw [hs]
      constructor
      · show step (eval n) _ _ = ((step (eval n) _ _).1, _)
        rw [cond_by_truth, callE_subst_body c ps frame σ H1 H2 _ t ht, t1]
        cases (eval n (subst σ t) ⟨c, lg⟩).1 with
        | error e => rfl
        | ok q =>
          simp only
          split
          · rw [callE_subst_body c ps frame σ H1 H2 _ a ha, a1]
          · rw [callE_subst_body c ps frame σ H1 H2 _ b hb', b1]
      · show step (eval n) _ _ = ((step (eval n) _ _).1, _)
        rw [cond_by_truth, cond_by_truth, callE_subst_body c ps frame σ H1 H2 _ t ht,
          callE_body _ c ps t ht, t2, t1]
        cases (eval n (subst σ t) ⟨c, lg⟩).1 with
        | error e => rfl
        | ok q =>
          simp only
          split
          · rw [callE_subst_body c ps frame σ H1 H2 _ a ha, callE_body _ c ps a ha, a2, a1]
          · rw [callE_subst_body c ps frame σ H1 H2 _ b hb', callE_body _ c ps b hb', b2, b1]

end sim

theorem hasHole_lits (vals : List Val) : hasHole (vals.map .lit) = false := by
  induction vals with
  | nil => rfl
  | cons v vs ih =>
    simp only [hasHole, List.map_cons, List.any_cons, isHole, Bool.false_or] at ih ⊢
    exact ih

theorem bindArgs_lits_ok (n : Nat) : ∀ (ps : List String) (vals : List Val) (s : St),
    bindArgs (eval (n + 1)) ps (vals.map .lit) s = (.ok (ps.zip (vals.map .lit)), s) := by
  intro ps
  induction ps with
  | nil => intro vals s; simp [bindArgs, pure_run]
  | cons p ps ih =>
    intro vals s
    cases vals with
    | nil => simp [bindArgs, pure_run]
    | cons v vals =>
      simp only [List.map_cons, bindArgs, bind_run, callE, eval_lit_ok, ih, pure_run, List.zip_cons_cons]

theorem prepare_fn (c : Ctx) (body : Expr) (far ar : Nat) (as : List Expr) (har : 0 < ar)
    (hst : Stable c body) (hfull : hasHole as = false) (hfar : far ≤ as.length) :
    prepare c (.fn body far) (some as) ar = .ok (some (body, some as)) := by
  have hlt : ¬ as.length < far := by omega
  simp [prepare, resolve3, resolve1_fn c body far _ ar har, hst _ _, mergeProjections, hfull, hlt,
    bind, Except.bind]

/-- the substitution of a call with the argument values `vals` -/
def sigma (vals : List Val) : KV := List.zip ["x", "y", "z"] (vals.map .lit)

theorem frame_H1 (vals : List Val) (hlen : vals.length ≤ 3) (body : Expr) :
    ∀ p ∈ ["x", "y", "z"].take vals.length,
      ∃ v, ((sigma vals).put ".f" body).get p = some (.lit v) ∧ (sigma vals).get p = some (.lit v) := by
  intro p hp
  rcases vals with _ | ⟨a, _ | ⟨b, _ | ⟨d, _ | ⟨e, r⟩⟩⟩⟩
  · simp at hp
  · simp at hp; subst hp; exact ⟨a, by simp [sigma, KV.get, KV.put]⟩
  · simp at hp
    rcases hp with rfl | rfl
    · exact ⟨a, by simp [sigma, KV.get, KV.put]⟩
    · exact ⟨b, by simp [sigma, KV.get, KV.put]⟩
  · simp at hp
    rcases hp with rfl | rfl | rfl
    · exact ⟨a, by simp [sigma, KV.get, KV.put]⟩
    · exact ⟨b, by simp [sigma, KV.get, KV.put]⟩
    · exact ⟨d, by simp [sigma, KV.get, KV.put]⟩
  · simp at hlen

theorem frame_H2 (vals : List Val) (body : Expr) :
    ∀ g, reserved g = false → g ≠ ".f" →
      ((sigma vals).put ".f" body).get g = none ∧ (sigma vals).get g = none := by
  intro g hr hf
  simp [reserved] at hr
  obtain ⟨⟨hx, hy⟩, hz⟩ := hr
  have hnone : (sigma vals).get g = none := by
    rcases vals with _ | ⟨a, _ | ⟨b, _ | ⟨d, r⟩⟩⟩ <;> simp [sigma, KV.get, hx, hy, hz]
  exact ⟨by rw [KV.get_put_ne _ _ _ _ hf]; exact hnone, hnone⟩

/-- the second half of a call on a body of the grammar is the substituted body -/
theorem apply_is_substitution (n : Nat) (c : Ctx) (lg : List Expr) (hw : WF c) (body : Expr)
    (vals : List Val) (hlen : vals.length ≤ 3)
    (hb : Body c (["x", "y", "z"].take vals.length) body) (hsl : splitLocals body = none) :
    applyFn (eval (n + 1)) body (some (vals.map .lit)) ⟨c, lg⟩ =
      eval (n + 1) (subst (sigma vals) body) ⟨c, lg⟩ := by
  obtain ⟨s1, s2⟩ := sim c _ ((sigma vals).put ".f" body) (sigma vals) (frame_H1 vals hlen body)
    (frame_H2 vals body) (n + 1) body hb lg
  have hfo : frameOf body (sigma vals) = ((sigma vals).put ".f" body, body) := by
    simp [frameOf, hsl]
  have hrb : runBody (eval (n + 1)) body = eval (n + 1) body := by
    unfold runBody
    cases hb <;> rfl
  unfold applyFn
  simp only [bind_run, bindFrame, bindArgs_lits_ok]
  show framed (frameOf body (sigma vals)).1 (runBody (eval (n + 1)) (frameOf body (sigma vals)).2) _ = _
  rw [hfo, hrb]
  unfold framed
  simp only
  rw [s2]
  simp only
  rw [pop_push _ _ hw]
  exact s1.symm

/-- PROPERTY (a call is the substituted body).  For every body of the closed first-order grammar,
    every argument tuple of values and every state of the caller: calling the function literal is —
    value or error, state, events — evaluating the body with the values written in place of
    x, y and z. -/
theorem call_is_substitution (n : Nat) (c : Ctx) (lg : List Expr) (hw : WF c) (body : Expr)
    (far ar : Nat) (vals : List Val) (hlen : vals.length ≤ 3) (hfar : far ≤ vals.length) (har : 0 < ar)
    (hb : Body c (["x", "y", "z"].take vals.length) body) (hst : Stable c body)
    (hsl : splitLocals body = none) :
    eval (n + 2) (.call (.fn body far) (vals.map .lit) ar) ⟨c, lg⟩ =
      eval (n + 1) (subst (sigma vals) body) ⟨c, lg⟩ := by
  rw [eval_call_run]
  simp only
  rw [prepare_fn c body far ar _ har hst (hasHole_lits vals) (by simpa using hfar)]
  exact apply_is_substitution n c lg hw body vals hlen hb hsl

/-- … and the same through a variable bound to the function -/
theorem call_is_substitution_var (n : Nat) (c : Ctx) (lg : List Expr) (hw : WF c) (f : String) (body : Expr)
    (far ar : Nat) (vals : List Val) (hlen : vals.length ≤ 3) (hfar : far ≤ vals.length) (har : 0 < ar)
    (hfr : reserved f = false) (hf : c.get f = some (.fn body far))
    (hb : Body c (["x", "y", "z"].take vals.length) body) (hst : Stable c body)
    (hsl : splitLocals body = none) :
    eval (n + 2) (.call (.sym f) (vals.map .lit) ar) ⟨c, lg⟩ =
      eval (n + 1) (subst (sigma vals) body) ⟨c, lg⟩ := by
  rw [eval_call_run]
  simp only
  rw [prepare_direct c f body far ar _ hfr hf har hst (hasHole_lits vals) (by simpa using hfar)]
  exact apply_is_substitution n c lg hw body vals hlen hb hsl

/-- … and through `@`, `_partial`: for members that are not symbols (`hns`). A member that is a symbol is
    evaluated once more on its way into the frame (`ofMember`): see `symbol_member_counterexample`. -/
theorem call_is_substitution_at (n : Nat) (c : Ctx) (lg : List Expr) (hw : WF c) (f : String) (body : Expr)
    (far : Nat) (vals : List Val) (hlen : vals.length ≤ 3) (hfar : far ≤ vals.length)
    (hf : c.get f = some (.fn body far))
    (hb : Body c (["x", "y", "z"].take vals.length) body) (hst : Stable c body)
    (hsl : splitLocals body = none)
    (hns : ∀ v ∈ vals, ofMember v = .lit v) :
    eval (n + 3) (.op2 "@" (.sym f) (.lit (.list vals))) ⟨c, lg⟩ =
      eval (n + 1) (subst (sigma vals) body) ⟨c, lg⟩ := by
  have e1 : eval (n + 2) (.sym f) ⟨c, lg⟩ = (.ok (.fn body far), ⟨c, lg⟩) := by
    show step (eval (n + 1)) _ _ = _
    simp [step, bind_run, getCtx, hf, pure_run]
  have hm : vals.map ofMember = vals.map .lit := List.map_congr_left hns
  show step (eval (n + 2)) _ _ = _
  simp only [step, bind_run, eval_lit_ok, e1]
  simp only [beq_self_eq_true, if_true, isKGFn, Bool.true_or, hm]
  exact call_is_substitution n c lg hw body far 1 vals hlen hfar (by omega) hb hst hsl

/-! ## non-vacuity: a concrete interpreter state on which the hypotheses hold -/

def body3 : Expr :=
  .op2 "+" (.op2 "*" (.lit (.int 100)) (.sym "x")) (.op2 "+" (.op2 "*" (.lit (.int 10)) (.sym "y")) (.sym "z"))

/-- `{[a];a::x;boom(a)}` -/
def locBody : Expr := .prog [.lit (.list [.sym [97]]), .asg "a" (.sym "x"), .call (.sym "boom") [.sym "a"] 1]

def exCtx : Ctx :=
  { scopes := [{ kv := [("f", .fn body3 3),
                        ("g", .proj (.sym "f") [.hole, .hole, .lit (.int 3)] 3),
                        ("h", .proj (.sym "g") [.hole, .lit (.int 2)] 2),
                        ("a", .lit (.int 10)),
                        ("boom", .callN (.lam "boom") 1),
                        ("log", .callN (.lam "log") 1),
                        ("loc", .fn locBody 1)] }, {}, { ro := true }],
    minCount := 2 }

def exSt : St := { ctx := exCtx }

def obsInt : Except Err Expr → Int
  | .ok (.lit (.int n)) => n
  | _ => -999

/-- a flat integer list result -/
def obsInts : Except Err Expr → Option (List Int)
  | .ok (.lit (.list xs)) => asInts xs
  | _ => none

def obsErr : Except Err Expr → Option Err
  | .error e => some e
  | .ok _ => none

def obsGetInt (c : Ctx) (k : String) : Int :=
  match c.get k with
  | some (.lit (.int n)) => n
  | _ => -999

theorem exWF : WF exCtx := by simp [WF, exCtx]

-- a call that assigns its declared local and then raises inside a nested call
example : obsErr (eval 50 (.call (.sym "loc") [.lit (.int 5)] 1) exSt).1 = some .boom := by decide
-- frame_discipline / locals_are_local apply to it (WF holds), and indeed:
example : (eval 50 (.call (.sym "loc") [.lit (.int 5)] 1) exSt).2.ctx.depth = 3 :=
  (frame_discipline 50 _ exSt exWF).1
example : obsGetInt (eval 50 (.call (.sym "loc") [.lit (.int 5)] 1) exSt).2.ctx "a" = 10 := by decide
example : declared locBody = ["a"] := by decide

-- projection_any_order: g::f(;;3); h::g(;2); h(1) — the fill order z, y, x
example : eval 30 (.call (.sym "h") [.lit (.int 1)] 1) exSt =
    eval 30 (.call (.sym "f") [.lit (.int 1), .lit (.int 2), .lit (.int 3)] 3) exSt :=
  projection_any_order exSt "f" "g" "h" body3 3 3 3 2 1 3 29
    [(2, .lit (.int 3))] [(1, .lit (.int 2))] [(0, .lit (.int 1))]
    rfl rfl rfl rfl rfl rfl rfl rfl (by decide) (by decide) (by decide) (by decide)
    (stable_op2 _ _ _ _) rfl (by decide)
example : obsInt (eval 30 (.call (.sym "h") [.lit (.int 1)] 1) exSt).1 = 123 := by decide

-- projection_one_step: g::f(;;3); g(1;2)
example : eval 30 (.call (.sym "g") [.lit (.int 1), .lit (.int 2)] 2) exSt =
    eval 30 (.call (.sym "f") [.lit (.int 1), .lit (.int 2), .lit (.int 3)] 3) exSt :=
  projection_one_step exSt "f" "g" body3 3 3 3 2 3 29
    [(2, .lit (.int 3))] [(0, .lit (.int 1)), (1, .lit (.int 2))]
    rfl rfl rfl rfl rfl (by decide) (by decide) (by decide) (stable_op2 _ _ _ _) rfl (by decide)

-- conditionals: the unselected branch may even be the failing primitive
example : obsInt (eval 20 (.cond (.lit (.list [])) (.call (.sym "boom") [.lit (.int 1)] 1) (.lit (.int 7))) exSt).1 = 7 := by
  decide
example : truthy (.lit (.str [])) = false := (truthy_spec _).mpr (by simp)

-- call_is_substitution: body3 is in the grammar, stable, without local declaration
theorem body3_body : Body exCtx ["x", "y", "z"] body3 :=
  .op2 _ _ _ (by decide) (.op2 _ _ _ (by decide) (.lit _) (.param _ (by simp)))
    (.op2 _ _ _ (by decide) (.op2 _ _ _ (by decide) (.lit _) (.param _ (by simp))) (.param _ (by simp)))

example : eval 12 (.call (.sym "f") [.lit (.int 1), .lit (.int 2), .lit (.int 3)] 3) exSt =
    eval 11 (subst (sigma [.int 1, .int 2, .int 3]) body3) exSt :=
  call_is_substitution_var 10 exCtx [] exWF "f" body3 3 3 [.int 1, .int 2, .int 3] (by decide) (by decide)
    (by decide) rfl rfl body3_body (stable_op2 _ _ _ _) rfl

-- locals_are_local / call_frame_discipline on the failing call above
example : (eval 50 (.call (.sym "loc") ([Val.int 5].map .lit) 1) exSt).2.ctx.get "a" = exSt.ctx.get "a" :=
  locals_are_local 49 (.sym "loc") [.int 5] 1 exSt exWF locBody [.int 5] rfl "a" (Or.inr (Or.inl (by decide)))

example : (eval 50 (.call (.sym "loc") ([Val.int 5].map .lit) 1) exSt).2.ctx.scopes.map sig
    = exSt.ctx.scopes.map sig :=
  (call_frame_discipline 49 (.sym "loc") [.int 5] 1 exSt exWF (by
    intro f merged h
    have : prepare exSt.ctx (.sym "loc") (some ([Val.int 5].map .lit)) 1
        = .ok (some (locBody, some ([Val.int 5].map .lit))) := rfl
    rw [this] at h
    cases h
    exact ⟨[.int 5], rfl⟩)).1

/-- PROPERTY (witness, known finding `subst:symbol-member-defined`).  With `a::10` in the caller, the
    identity function applied to the symbol `:a` as a list member — through Each and through `@` —
    returns 10, not `:a`; an undefined symbol comes back as itself. -/
theorem symbol_member_counterexample :
    obsInts (eval 20 (.each (.fn (.sym "x") 1) (.lit (.list [.sym [97]]))) exSt).1 = some [10] ∧
    obsInt (eval 20 (.op2 "@" (.fn (.sym "x") 1) (.lit (.list [.sym [97]]))) exSt).1 = 10 ∧
    obsInts (eval 20 (.each (.fn (.sym "x") 1) (.lit (.list [.sym [113]]))) exSt).1 = none := by
  decide

-- merge_is_positional: the layer `(;2)` on the vector [_, _, 3] puts 2 at position 1 and nothing else
example : fillLayer [.hole, .hole, .lit (.int 3)] (relLayerFrom 0 [.hole, .hole, .lit (.int 3)] [(1, .lit (.int 2))])
    = [.hole, .lit (.int 2), .lit (.int 3)] := rfl

end Klong.C03
