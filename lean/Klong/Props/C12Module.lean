/-
  C12 — helper lemmas, part 7: the only state the parser changes is the module, and only through
  `parse_module`: the state after parsing is reached from the state before by zero or more
  `parseModule` steps (`Reach`), for every function, every input and every amount of fuel.
-/
import Klong.Model.C12
namespace Klong.C12

/-- `m'` is `m` after zero or more `parse_module` calls -/
inductive Reach : PState → PState → Prop
  | refl (m : PState) : Reach m m
  | step {m m1 : PState} (nm : Node) : Reach m m1 → Reach m (parseModule m1 nm)

theorem Reach.trans {a b c : PState} (h1 : Reach a b) (h2 : Reach b c) : Reach a c := by
  induction h2 with
  | refl => exact h1
  | step nm _ ih => exact Reach.step nm ih

/-- the state carried by a result (success or error) is reached from `m` -/
def RS {α : Type} (m : PState) : Res α → Prop
  | .ok _ _ m' _ => Reach m m'
  | .err _ m' _ => Reach m m'
  | .spin _ => True
  | .outOfFuel => True

theorem rs_addSteps {α} {m : PState} {r : Res α} {k : Nat} (h : RS m r) : RS m (r.addSteps k) := by
  cases r <;> exact h

theorem rs_trans {α} {m m1 : PState} {r : Res α} (h1 : Reach m m1) (h2 : RS m1 r) : RS m r := by
  cases r with
  | ok i v m' st => exact Reach.trans h1 h2
  | err e m' st => exact Reach.trans h1 h2
  | spin st => trivial
  | outOfFuel => trivial

theorem rs_bind {α β} {m : PState} {r : Res α} {k : Nat → α → PState → Res β}
    (h : RS m r) (hk : ∀ i v m1, RS m1 (k i v m1)) : RS m (r.bind k) := by
  cases r with
  | ok i v m1 st => exact rs_trans h (rs_addSteps (hk i v m1))
  | err e m' st => exact h
  | spin st => trivial
  | outOfFuel => trivial

theorem rs_cexpect {α} {m : PState} {t : Text} {i : Nat} {c : Char} {k : Nat → Res α}
    (h : RS m (k (i + 1))) : RS m (cexpect t i c m k) := by
  unfold cexpect
  split
  · exact h
  · exact Reach.refl m

theorem rs_onAdverb {α} {m : PState} {t : Text} {i : Nat} {yes : Nat → List Char → Res α} {no : Unit → Res α}
    (hy : ∀ i' adv, RS m (yes i' adv)) (hn : RS m (no ())) : RS m (onAdverb t i yes no) := by
  unfold onAdverb
  split
  · exact hy _ _
  · exact hn

theorem rs_readSysComment {α} {m : PState} {cfg : Cfg} {t : Text} {i : Nat} {a : List Char} {k : Nat → Nat → Res α}
    (hk : ∀ i' st, RS m (k i' st)) : RS m (readSysComment cfg t i a m k) := by
  unfold readSysComment
  split
  · exact Reach.refl m
  · split
    · trivial
    · exact hk _ _

/-- the lexer never touches the state -/
theorem lexer_rs (cfg : Cfg) (t : Text) : ∀ fuel : Nat,
    (∀ i rn ign m, RS m (kgRead cfg t fuel i rn ign m)) ∧
    (∀ d i m, RS m (readList cfg t fuel d i m)) ∧
    (∀ d i acc m, RS m (readListLoop cfg t fuel d i acc m)) := by
  intro fuel
  induction fuel with
  | zero => refine ⟨?_, ?_, ?_⟩ <;> (intros; trivial)
  | succ fuel ih =>
    obtain ⟨ihK, ihL, ihLL⟩ := ih
    refine ⟨?_, ?_, ?_⟩
    · intro i rn ign m
      rw [kgRead]
      dsimp only
      split
      · exact Reach.refl _
      rename_i a0 _
      by_cases hnl : a0 = '\n'
      · subst hnl
        rw [if_pos (by decide)]
        exact Reach.refl _
      have ha : (if (a0 == '\n') = true then ';' else a0) = a0 := by simp [hnl]
      rw [ha]
      repeat' (first
        | apply ihK | apply ihL | apply ihLL
        | exact Reach.refl _ | exact True.intro | apply rs_addSteps | refine rs_bind ?_ ?_ | intro _
        | split | dsimp only)
    · intro d i m
      rw [readList]
      exact rs_addSteps (ihLL _ _ _ _)
    · intro d i acc m
      rw [readListLoop]
      repeat' (first
        | apply ihK | apply ihL | apply ihLL
        | exact Reach.refl _ | exact True.intro | apply rs_addSteps | refine rs_bind ?_ ?_ | intro _
        | split | dsimp only)

theorem kgRead_rs (cfg : Cfg) (t : Text) (fuel i : Nat) (rn ign : Bool) (m : PState) :
    RS m (kgRead cfg t fuel i rn ign m) := (lexer_rs cfg t fuel).1 i rn ign m

theorem kgReadArray_rs (cfg : Cfg) (t : Text) (fuel i : Nat) (ign : Bool) (m : PState) :
    RS m (kgReadArray cfg t fuel i ign m) := by
  have h := kgRead_rs cfg t fuel i false ign m
  unfold kgReadArray
  split
  · rename_i heq; rw [heq] at h; exact h
  · exact h

structure MSpec (cfg : Cfg) (t : Text) (fuel : Nat) : Prop where
  prog : ∀ i ign m, RS m (prog cfg t fuel i ign m)
  progLoop : ∀ i ign acc m, RS m (progLoop cfg t fuel i ign acc m)
  expr : ∀ i ign m, RS m (expr cfg t fuel i ign m)
  exprLoop : ∀ i a ii aa ign m, RS m (exprLoop cfg t fuel i a ii aa ign m)
  readFn : ∀ i m, RS m (readFn cfg t fuel i m)
  applyAdverbs : ∀ i a aa ar dy dv m, RS m (applyAdverbs cfg t fuel i a aa ar dy dv m)
  readFnArgs : ∀ i m, RS m (readFnArgs cfg t fuel i m)
  fnArgsLoop : ∀ i k acc m, RS m (fnArgsLoop cfg t fuel i k acc m)
  readCond : ∀ i m, RS m (readCond cfg t fuel i m)
  readExprArray : ∀ i m, RS m (readExprArray cfg t fuel i m)
  exprArrayLoop : ∀ i acc m, RS m (exprArrayLoop cfg t fuel i acc m)
  factor : ∀ i ign m, RS m (factor cfg t fuel i ign m)

macro "rs_go" ih:ident : tactic =>
  `(tactic| repeat' (first
      | apply ($ih).prog | apply ($ih).progLoop | apply ($ih).expr | apply ($ih).exprLoop | apply ($ih).readFn
      | apply ($ih).applyAdverbs | apply ($ih).readFnArgs | apply ($ih).fnArgsLoop | apply ($ih).readCond
      | apply ($ih).readExprArray | apply ($ih).exprArrayLoop | apply ($ih).factor
      | apply kgRead_rs | apply kgReadArray_rs
      | exact Reach.refl _ | exact True.intro | apply rs_addSteps | apply rs_cexpect | apply rs_onAdverb
      | apply rs_readSysComment | refine rs_bind ?_ ?_ | intro _
      | split | dsimp only
      | exact Reach.step _ (Reach.refl _)
      | refine rs_trans (Reach.step _ (Reach.refl _)) ?_))

theorem mspec_all (cfg : Cfg) (t : Text) : ∀ fuel, MSpec cfg t fuel := by
  intro fuel
  induction fuel with
  | zero => constructor <;> (intros; trivial)
  | succ fuel ih =>
    constructor
    · intro i ign m; rw [prog]; rs_go ih
    · intro i ign acc m; rw [progLoop]; rs_go ih
    · intro i ign m; rw [expr]; rs_go ih
    · intro i a ii aa ign m; rw [exprLoop]; rs_go ih
    · intro i m; rw [readFn]; rs_go ih
    · intro i a aa ar dy dv m; rw [applyAdverbs]; rs_go ih
    · intro i m; rw [readFnArgs]; rs_go ih
    · intro i k acc m; rw [fnArgsLoop]; rs_go ih
    · intro i m; rw [readCond]; rs_go ih
    · intro i m; rw [readExprArray]; rs_go ih
    · intro i acc m; rw [exprArrayLoop]; rs_go ih
    · intro i ign m; rw [factor]; rs_go ih
      all_goals exact rs_trans (Reach.step _ (Reach.refl _)) (ih.applyAdverbs _ _ _ _ _ _ _)

end Klong.C12
