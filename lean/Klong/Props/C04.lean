/-
  C04 — evaluation depends only on program text and variable state; values are immutable.
  Helper lemmas first, the property theorems at the end of the file.
-/
import Klong.Model.C04
namespace Klong.C04
open Interp

/-! ## the heap only grows: addresses keep their meaning -/

theorem derefAt_cons (c : Cell) (h : Heap) (a : Nat) (ha : a < h.length) :
    derefAt (c :: h) a = derefAt h a := by
  have : a ≠ h.length := by omega
  simp [derefAt, this]

theorem derefAt_append (new h : Heap) (a : Nat) (ha : a < h.length) :
    derefAt (new ++ h) a = derefAt h a := by
  induction new with
  | nil => rfl
  | cons c new ih =>
    have : a < (new ++ h).length := by simp; omega
    rw [List.cons_append, derefAt_cons _ _ _ this, ih]

theorem derefAt_new (c : Cell) (h : Heap) :
    derefAt (c :: h) h.length = (match c with | .base v => v | .view o sel => applySel sel (derefAt h o)) := by
  cases c <;> simp [derefAt]

/-- every array literal of the tree is an allocated cell holding an array -/
def VE (h : Heap) : Expr HLit → Prop
  | .lit (.imm _) => True
  | .lit (.ref a) => a < h.length ∧ isArr (derefAt h a) = true
  | .dlit _ => True
  | .var _ => True
  | .fn b => VE h b
  | .assign _ e => VE h e
  | .seq a b => VE h a ∧ VE h b
  | .op1 _ e => VE h e
  | .op2 _ a b => VE h a ∧ VE h b
  | .call _ a => VE h a

theorem VE_ext (new h : Heap) (e : Expr HLit) (hv : VE h e) : VE (new ++ h) e := by
  induction e with
  | lit l =>
    cases l with
    | imm v => trivial
    | ref a =>
      obtain ⟨h1, h2⟩ := hv
      refine ⟨by simp; omega, ?_⟩
      rw [derefAt_append _ _ _ h1]; exact h2
  | dlit => trivial
  | var => trivial
  | fn b ih => exact ih hv
  | assign q e ih => exact ih hv
  | seq a b iha ihb => exact ⟨iha hv.1, ihb hv.2⟩
  | op1 o e ih => exact ih hv
  | op2 o a b iha ihb => exact ⟨iha hv.1, ihb hv.2⟩
  | call f a ih => exact ih hv

theorem derefE_ext (new h : Heap) (e : Expr HLit) (hv : VE h e) : derefE (new ++ h) e = derefE h e := by
  induction e with
  | lit l =>
    cases l with
    | imm v => rfl
    | ref a => simp [derefE, derefAt_append _ _ _ hv.1]
  | dlit => rfl
  | var => rfl
  | fn b ih => simp [derefE, ih hv]
  | assign q e ih => simp [derefE, ih hv]
  | seq a b iha ihb => simp [derefE, iha hv.1, ihb hv.2]
  | op1 o e ih => simp [derefE, ih hv]
  | op2 o a b iha ihb => simp [derefE, iha hv.1, ihb hv.2]
  | call f a ih => simp [derefE, ih hv]

/-- a binding refers only to allocated cells -/
def VHV (h : Heap) : HV → Prop
  | .imm _ => True
  | .arr a => a < h.length
  | .dict _ => True
  | .fn b => VE h b

theorem VHV_ext (new h : Heap) (v : HV) (hv : VHV h v) : VHV (new ++ h) v := by
  cases v with
  | imm => trivial
  | arr a => simp [VHV] at hv ⊢; omega
  | dict => trivial
  | fn b => exact VE_ext new h b hv

theorem absHV_ext (new h : Heap) (v : HV) (hv : VHV h v) : absHV (new ++ h) v = absHV h v := by
  cases v with
  | imm => rfl
  | arr a => simp [absHV, derefAt_append _ _ _ hv]
  | dict => rfl
  | fn b => simp [absHV, derefE_ext new h b hv]

def VB (h : Heap) (bs : List (QName × HV)) : Prop := ∀ p ∈ bs, VHV h p.2
def VF (h : Heap) (fs : List (Frame HV)) : Prop := ∀ f ∈ fs, VB h f.binds

theorem VF_ext (new h : Heap) (fs : List (Frame HV)) (hv : VF h fs) : VF (new ++ h) fs :=
  fun f hf p hp => VHV_ext new h p.2 (hv f hf p hp)

theorem mapFrames_ext (new h : Heap) (fs : List (Frame HV)) (hv : VF h fs) :
    mapFrames (absHV (new ++ h)) fs = mapFrames (absHV h) fs := by
  unfold mapFrames
  apply List.map_congr_left
  intro f hf
  congr 1
  apply List.map_congr_left
  intro p hp
  rw [absHV_ext new h p.2 (hv f hf p hp)]

/-! ## frames: lookup / assign commute with a map over the bindings, and keep validity -/

section frames
variable {β γ : Type} (g : β → γ)

theorem bindGet_map (bs : List (QName × β)) (k : QName) :
    bindGet (bs.map (fun p => (p.1, g p.2))) k = (bindGet bs k).map g := by
  induction bs with
  | nil => rfl
  | cons p bs ih =>
    obtain ⟨q, v⟩ := p
    by_cases h : q = k <;> simp [bindGet, h, ih]

theorem firstQualified_map (bs : List (QName × β)) (k : Nat) :
    firstQualified k (bs.map (fun p => (p.1, g p.2))) = (firstQualified k bs).map g := by
  induction bs with
  | nil => rfl
  | cons p bs ih =>
    obtain ⟨q, v⟩ := p
    by_cases h : q.base = k ∧ q.mod.isSome = true <;> simp [firstQualified, h, ih]

theorem lookup_map (fs : List (Frame β)) (k : QName) :
    lookup (mapFrames g fs) k = (lookup fs k).map g := by
  induction fs generalizing k with
  | nil => rfl
  | cons f fs ih =>
    simp only [mapFrames, List.map_cons, lookup] at ih ⊢
    rw [bindGet_map]
    cases hb : bindGet f.binds k with
    | some v => simp
    | none =>
      simp only [Option.map_none]
      cases hm : f.mod with
      | none => simpa [mapFrames] using ih k
      | some name =>
        cases hk : k.mod with
        | some m =>
          by_cases hq : (⟨m, none⟩ : QName) = name
          · simpa [hq, mapFrames] using ih ⟨k.base, none⟩
          · simpa [hq, mapFrames] using ih k
        | none =>
          simp only [firstQualified_map]
          cases hf : firstQualified k.base f.binds with
          | some v => simp
          | none => simpa [mapFrames] using ih k

theorem bindSet_map (bs : List (QName × β)) (k : QName) (v : β) :
    bindSet (bs.map (fun p => (p.1, g p.2))) k (g v) = (bindSet bs k v).map (fun p => (p.1, g p.2)) := by
  induction bs with
  | nil => rfl
  | cons p bs ih =>
    obtain ⟨q, w⟩ := p
    by_cases h : q = k <;> simp [bindSet, h, ih]

theorem assignExisting_map (fs : List (Frame β)) (k : QName) (v : β) :
    assignExisting (mapFrames g fs) k (g v) = (assignExisting fs k v).map (mapFrames g) := by
  induction fs with
  | nil => rfl
  | cons f fs ih =>
    simp only [mapFrames, List.map_cons, assignExisting] at ih ⊢
    rw [bindGet_map]
    cases hb : bindGet f.binds k with
    | some w => simp [bindSet_map, mapFrames]
    | none =>
      simp only [Option.map_none]
      rw [ih]
      cases assignExisting fs k v <;> simp [mapFrames]

theorem assign_map (fs : List (Frame β)) (k : QName) (v : β) :
    assign (mapFrames g fs) k (g v) = mapFrames g (assign fs k v) := by
  unfold assign
  rw [assignExisting_map]
  cases assignExisting fs k v with
  | some r => simp
  | none =>
    cases fs with
    | nil => simp [mapFrames]
    | cons f rest => simp [mapFrames]

end frames

theorem bindGet_mem {β : Type} (bs : List (QName × β)) (k : QName) (v : β) (h : bindGet bs k = some v) :
    ∃ p ∈ bs, p.2 = v := by
  induction bs with
  | nil => simp [bindGet] at h
  | cons p bs ih =>
    obtain ⟨q, w⟩ := p
    by_cases hq : q = k
    · simp [bindGet, hq] at h; exact ⟨(q, w), by simp, h⟩
    · simp [bindGet, hq] at h
      obtain ⟨p, hp, hv⟩ := ih h
      exact ⟨p, by simp [hp], hv⟩

theorem firstQualified_mem {β : Type} (bs : List (QName × β)) (k : Nat) (v : β)
    (h : firstQualified k bs = some v) : ∃ p ∈ bs, p.2 = v := by
  induction bs with
  | nil => simp [firstQualified] at h
  | cons p bs ih =>
    obtain ⟨q, w⟩ := p
    by_cases hq : q.base = k ∧ q.mod.isSome = true
    · simp [firstQualified, hq] at h; exact ⟨(q, w), by simp, h⟩
    · simp only [firstQualified, hq, if_false] at h
      obtain ⟨p, hp, hv⟩ := ih h
      exact ⟨p, by simp [hp], hv⟩

theorem lookup_mem {β : Type} (fs : List (Frame β)) (k : QName) (v : β) (h : lookup fs k = some v) :
    ∃ f ∈ fs, ∃ p ∈ f.binds, p.2 = v := by
  induction fs generalizing k with
  | nil => simp [lookup] at h
  | cons f fs ih =>
    have lift : (∃ f' ∈ fs, ∃ p ∈ f'.binds, p.2 = v) → ∃ f' ∈ f :: fs, ∃ p ∈ f'.binds, p.2 = v := by
      rintro ⟨f', hf', r⟩; exact ⟨f', by simp [hf'], r⟩
    simp only [lookup] at h
    cases hb : bindGet f.binds k with
    | some w =>
      simp [hb] at h
      obtain ⟨p, hp, hv⟩ := bindGet_mem _ _ _ hb
      exact ⟨f, by simp, p, hp, by rw [hv, h]⟩
    | none =>
      simp only [hb] at h
      cases hm : f.mod with
      | none => simp only [hm] at h; exact lift (ih k h)
      | some name =>
        simp only [hm] at h
        cases hk : k.mod with
        | some m =>
          simp only [hk] at h
          by_cases hq : (⟨m, none⟩ : QName) = name
          · simp only [hq, if_true] at h; exact lift (ih _ h)
          · simp only [hq, if_false] at h; exact lift (ih _ h)
        | none =>
          simp only [hk] at h
          cases hf : firstQualified k.base f.binds with
          | some w =>
            simp [hf] at h
            obtain ⟨p, hp, hv⟩ := firstQualified_mem _ _ _ hf
            exact ⟨f, by simp, p, hp, by rw [hv, h]⟩
          | none => simp only [hf] at h; exact lift (ih k h)

theorem lookup_valid (h : Heap) (fs : List (Frame HV)) (k : QName) (v : HV) (hv : VF h fs)
    (hl : lookup fs k = some v) : VHV h v := by
  obtain ⟨f, hf, p, hp, he⟩ := lookup_mem fs k v hl
  rw [← he]; exact hv f hf p hp

theorem bindSet_valid (h : Heap) (bs : List (QName × HV)) (k : QName) (v : HV) (hb : VB h bs) (hv : VHV h v) :
    VB h (bindSet bs k v) := by
  induction bs with
  | nil => intro p hp; simp [bindSet] at hp; rw [hp]; exact hv
  | cons p bs ih =>
    obtain ⟨q, w⟩ := p
    have hbs : VB h bs := fun p hp => hb p (by simp [hp])
    by_cases hq : q = k
    · intro p hp
      simp [bindSet, hq] at hp
      rcases hp with hp | hp
      · rw [hp]; exact hv
      · exact hbs p hp
    · intro p hp
      simp [bindSet, hq] at hp
      rcases hp with hp | hp
      · rw [hp]; exact hb (q, w) (by simp)
      · exact ih hbs p hp

theorem assignExisting_valid (h : Heap) (fs : List (Frame HV)) (k : QName) (v : HV) (r : List (Frame HV))
    (hf : VF h fs) (hv : VHV h v) (hr : assignExisting fs k v = some r) : VF h r := by
  induction fs generalizing r with
  | nil => simp [assignExisting] at hr
  | cons f fs ih =>
    have hfs : VF h fs := fun f' hf' => hf f' (by simp [hf'])
    simp only [assignExisting] at hr
    cases hb : bindGet f.binds k with
    | some w =>
      simp [hb] at hr
      rw [← hr]
      intro f' hf'
      simp at hf'
      rcases hf' with hf' | hf'
      · rw [hf']; exact bindSet_valid h _ k v (hf f (by simp)) hv
      · exact hfs f' hf'
    | none =>
      simp only [hb] at hr
      cases ha : assignExisting fs k v with
      | none => simp [ha] at hr
      | some r' =>
        simp [ha] at hr
        rw [← hr]
        intro f' hf'
        simp at hf'
        rcases hf' with hf' | hf'
        · rw [hf']; exact hf f (by simp)
        · exact ih r' hfs ha f' hf'

theorem assign_valid (h : Heap) (fs : List (Frame HV)) (k : QName) (v : HV) (hf : VF h fs) (hv : VHV h v) :
    VF h (assign fs k v) := by
  unfold assign
  cases ha : assignExisting fs k v with
  | some r => exact assignExisting_valid h fs k v r hf hv ha
  | none =>
    cases fs with
    | nil =>
      intro f' hf' p hp
      simp at hf'
      rw [hf'] at hp
      simp at hp
      rw [hp]; exact hv
    | cons f rest =>
      intro f' hf' p hp
      simp at hf'
      rcases hf' with hf' | hf'
      · rw [hf'] at hp
        simp at hp
        rcases hp with hp | hp
        · exact hf f (by simp) p hp
        · rw [hp]; exact hv
      · exact hf f' (by simp [hf']) p hp

/-! ## compiled code agrees with the interpreter on admissible operands (hypothesis (ii)) -/

/-- the variables as generated code sees them, in the by-value machine -/
def renv (t : Ref.S) (q : QName) : Option V :=
  match lookup t.frames q with
  | some (.val v) => some v
  | _ => none

theorem pyArith_admissible (o : AOp) (a b : V) (ha : admissible a = true) (hb : admissible b = true) :
    pyArith o a b = arith o a b := by
  cases a <;> cases b <;> simp [admissible] at ha hb <;> cases o <;> rfl

theorem arith_val_admissible (o : AOp) (a b v : V) (h : arith o a b = .val v) : admissible v = true := by
  cases o <;> cases a <;> cases b <;> simp only [arith] at h <;>
    first
    | (cases h; rfl)
    | cases h
    | (split at h <;> first | (cases h; rfl) | cases h | (split at h <;> first | (cases h; rfl) | cases h))

theorem overSem_val_admissible (o : AOp) (a v : V) (h : overSem o a = .val v) : admissible v = true := by
  cases o <;> cases a <;> simp only [overSem] at h <;>
    first
    | (cases h; rfl)
    | cases h
    | (split at h <;> first | (cases h; rfl) | cases h)

theorem scanSem_val_admissible (o : AOp) (a v : V) (h : scanSem o a = .val v) : admissible v = true := by
  cases o <;> cases a <;> simp only [scanSem] at h <;>
    first
    | (cases h; rfl)
    | cases h
    | (split at h <;> first | (cases h; rfl) | cases h)

theorem semToRes_overPlace (o : AOp) (a : V) :
    Ref.semToRes a a (overPlace a (overSem o a)) = Ref.semToRes a a (overSem o a) := by
  cases a with
  | mat rows =>
    match rows with
    | [] => rfl
    | [r] =>
      by_cases hr : rect [r] = true <;>
        cases o <;> simp [overSem, overPlace, hr, Ref.semToRes, applySel, colFold]
    | _ :: _ :: _ => rfl
  | int n => cases o <;> rfl
  | chr c => cases o <;> rfl
  | str cs => cases o <;> rfl
  | sym q => cases o <;> rfl
  | ints xs => cases o <;> simp only [overSem, overPlace] <;> (try rfl) <;> (split <;> rfl)
  | undef => cases o <;> rfl

theorem pyEval_sound (callee : Expr V → Ref.S → Res RV × Ref.S) (t : Ref.S) (e : Expr V) :
    ∀ c v, toIR litInt e = some c →
      (∀ q ∈ c.vars, ∃ w, renv t q = some w ∧ admissible w = true) →
      pyEval (renv t) c = some v →
      Ref.evalWith callee e t = (.ok (.val v), t) ∧ admissible v = true := by
  induction e with
  | lit l =>
    intro c v hc _ hp
    cases l <;> simp [toIR, litInt] at hc
    subst hc
    simp [pyEval] at hp
    subst hp
    exact ⟨by simp [Ref.evalWith], rfl⟩
  | dlit kvs => intro c v hc; simp [toIR] at hc
  | var q =>
    intro c v hc hv hp
    simp [toIR] at hc
    subst hc
    simp [pyEval] at hp
    obtain ⟨w, hw, ha⟩ := hv q (by simp [CExpr.vars])
    rw [hp] at hw
    cases hw
    refine ⟨?_, ha⟩
    unfold renv at hp
    simp only [Ref.evalWith, Ref.evalVar]
    split at hp <;> simp_all
  | fn b _ => intro c v hc; simp [toIR] at hc
  | assign q e _ => intro c v hc; simp [toIR] at hc
  | seq a b _ _ => intro c v hc; simp [toIR] at hc
  | call f a _ => intro c v hc; simp [toIR] at hc
  | op1 o a ih =>
    intro c v hc hv hp
    cases o with
    | rev => simp [toIR] at hc
    | size => simp [toIR] at hc
    | over o =>
      simp only [toIR] at hc
      split at hc
      · cases hx : toIR litInt a with
        | none => simp [hx] at hc
        | some x =>
          simp [hx] at hc
          subst hc
          simp only [pyEval] at hp
          cases hpx : pyEval (renv t) x with
          | none => simp [hpx] at hp
          | some vx =>
            simp only [hpx] at hp
            obtain ⟨hev, hax⟩ := ih x vx hx (fun q hq => hv q (by simpa [CExpr.vars] using hq)) hpx
            simp only [hax, if_true] at hp
            cases hs : overSem o vx with
            | val w =>
              simp [hs] at hp
              subst hp
              have e1 : Ref.evalWith callee (.op1 (.over o) a) t =
                  (Ref.semToRes vx vx (monadSem (.over o) vx), t) := by
                simp [Ref.evalWith, hev, Ref.applyOp1]
              refine ⟨?_, overSem_val_admissible o vx w hs⟩
              rw [e1]
              simp only [monadSem]
              rw [semToRes_overPlace, hs]
              rfl
            | err => simp [hs] at hp
            | unm => simp [hs] at hp
            | view s sel => simp [hs] at hp
      · simp at hc
    | scan o =>
      simp only [toIR] at hc
      split at hc
      · cases hx : toIR litInt a with
        | none => simp [hx] at hc
        | some x =>
          simp [hx] at hc
          subst hc
          simp only [pyEval] at hp
          cases hpx : pyEval (renv t) x with
          | none => simp [hpx] at hp
          | some vx =>
            simp only [hpx] at hp
            obtain ⟨hev, hax⟩ := ih x vx hx (fun q hq => hv q (by simpa [CExpr.vars] using hq)) hpx
            simp only [hax, if_true] at hp
            cases hs : scanSem o vx with
            | val w =>
              simp [hs] at hp
              subst hp
              exact ⟨by simp [Ref.evalWith, hev, Ref.applyOp1, monadSem, hs, Ref.semToRes],
                     scanSem_val_admissible o vx w hs⟩
            | err => simp [hs] at hp
            | unm => simp [hs] at hp
            | view s sel => simp [hs] at hp
      · simp at hc
  | op2 o a b iha ihb =>
    intro c v hc hv hp
    cases o with
    | arith o =>
      simp only [toIR] at hc
      split at hc
      · cases hx : toIR litInt a with
        | none => simp [hx] at hc
        | some x =>
          cases hy : toIR litInt b with
          | none => simp [hx, hy] at hc
          | some y =>
            simp [hx, hy] at hc
            subst hc
            simp only [pyEval] at hp
            cases hpx : pyEval (renv t) x with
            | none => simp [hpx] at hp
            | some vx =>
              cases hpy : pyEval (renv t) y with
              | none => simp [hpx, hpy] at hp
              | some vy =>
                simp only [hpx, hpy] at hp
                obtain ⟨heva, hax⟩ := iha x vx hx (fun q hq => hv q (by simp [CExpr.vars, hq])) hpx
                obtain ⟨hevb, hay⟩ := ihb y vy hy (fun q hq => hv q (by simp [CExpr.vars, hq])) hpy
                rw [pyArith_admissible o vx vy hax hay] at hp
                cases hs : arith o vx vy with
                | val w =>
                  simp [hs] at hp
                  subst hp
                  exact ⟨by simp [Ref.evalWith, heva, hevb, Ref.applyOp2, dyadSem, hs, Ref.semToRes],
                         arith_val_admissible o vx vy w hs⟩
                | err => simp [hs] at hp
                | unm => simp [hs] at hp
                | view s sel => simp [hs] at hp
      · simp at hc
    | take => simp [toIR] at hc
    | drop => simp [toIR] at hc
    | index => simp [toIR] at hc
    | amend => simp [toIR] at hc
    | amendD => simp [toIR] at hc
    | join => simp [toIR] at hc
    | find => simp [toIR] at hc

/-! ## the parser's array literals -/

def HExt (h h' : Heap) : Prop := ∃ new, h' = new ++ h

theorem HExt.refl (h : Heap) : HExt h h := ⟨[], rfl⟩
theorem HExt.trans {a b c : Heap} (h1 : HExt a b) (h2 : HExt b c) : HExt a c := by
  obtain ⟨n1, e1⟩ := h1; obtain ⟨n2, e2⟩ := h2
  exact ⟨n2 ++ n1, by rw [e2, e1, List.append_assoc]⟩
theorem HExt.cons (c : Cell) (h : Heap) : HExt h (c :: h) := ⟨[c], rfl⟩

theorem VE_of_ext {h h' : Heap} (x : HExt h h') (e : Expr HLit) (hv : VE h e) : VE h' e := by
  obtain ⟨n, rfl⟩ := x; exact VE_ext n h e hv
theorem derefE_of_ext {h h' : Heap} (x : HExt h h') (e : Expr HLit) (hv : VE h e) : derefE h' e = derefE h e := by
  obtain ⟨n, rfl⟩ := x; exact derefE_ext n h e hv
theorem VHV_of_ext {h h' : Heap} (x : HExt h h') (v : HV) (hv : VHV h v) : VHV h' v := by
  obtain ⟨n, rfl⟩ := x; exact VHV_ext n h v hv
theorem absHV_of_ext {h h' : Heap} (x : HExt h h') (v : HV) (hv : VHV h v) : absHV h' v = absHV h v := by
  obtain ⟨n, rfl⟩ := x; exact absHV_ext n h v hv
theorem VF_of_ext {h h' : Heap} (x : HExt h h') (fs : List (Frame HV)) (hv : VF h fs) : VF h' fs := by
  obtain ⟨n, rfl⟩ := x; exact VF_ext n h fs hv
theorem mapFrames_of_ext {h h' : Heap} (x : HExt h h') (fs : List (Frame HV)) (hv : VF h fs) :
    mapFrames (absHV h') fs = mapFrames (absHV h) fs := by
  obtain ⟨n, rfl⟩ := x; exact mapFrames_ext n h fs hv

theorem internE_spec (e : Expr V) : ∀ h : Heap,
    HExt h (internE e h).2 ∧ VE (internE e h).2 (internE e h).1 ∧ derefE (internE e h).2 (internE e h).1 = e := by
  induction e with
  | lit v =>
    intro h
    by_cases hv : isArr v = true
    · simp only [internE, hv, if_true]
      refine ⟨HExt.cons _ _, ⟨by simp, ?_⟩, ?_⟩
      · rw [derefAt_new]; exact hv
      · simp [derefE, derefAt_new]
    · simp only [internE, hv]
      exact ⟨HExt.refl _, trivial, rfl⟩
  | dlit kvs => intro h; exact ⟨HExt.refl _, trivial, rfl⟩
  | var q => intro h; exact ⟨HExt.refl _, trivial, rfl⟩
  | fn b ih =>
    intro h
    obtain ⟨x, v, d⟩ := ih h
    simp only [internE]
    exact ⟨x, v, by simp [derefE, d]⟩
  | assign q e ih =>
    intro h
    obtain ⟨x, v, d⟩ := ih h
    simp only [internE]
    exact ⟨x, v, by simp [derefE, d]⟩
  | op1 o e ih =>
    intro h
    obtain ⟨x, v, d⟩ := ih h
    simp only [internE]
    exact ⟨x, v, by simp [derefE, d]⟩
  | call f e ih =>
    intro h
    obtain ⟨x, v, d⟩ := ih h
    simp only [internE]
    exact ⟨x, v, by simp [derefE, d]⟩
  | seq a b iha ihb =>
    intro h
    obtain ⟨x1, v1, d1⟩ := iha h
    obtain ⟨x2, v2, d2⟩ := ihb (internE a h).2
    simp only [internE]
    refine ⟨x1.trans x2, ⟨VE_of_ext x2 _ v1, v2⟩, ?_⟩
    simp [derefE, d2, derefE_of_ext x2 _ v1, d1]
  | op2 o a b iha ihb =>
    intro h
    obtain ⟨x1, v1, d1⟩ := iha h
    obtain ⟨x2, v2, d2⟩ := ihb (internE a h).2
    simp only [internE]
    refine ⟨x1.trans x2, ⟨VE_of_ext x2 _ v1, v2⟩, ?_⟩
    simp [derefE, d2, derefE_of_ext x2 _ v1, d1]

/-! ## no transition overwrites a heap cell -/

theorem evalVar_heap (s : S) (q : QName) : (Interp.evalVar s q).2.heap = s.heap := by
  unfold Interp.evalVar; split <;> (try split) <;> rfl

theorem memoCode_same (cfg : Cfg) (s : S) (e : Expr HLit) :
    (memoCode cfg s e).2.heap = s.heap ∧ (memoCode cfg s e).2.frames = s.frames ∧
    (memoCode cfg s e).2.dheap = s.dheap ∧ (memoCode cfg s e).2.ccache = s.ccache := by
  unfold memoCode; split <;> (try split) <;> simp

theorem allocV_ext (s : S) (v : V) : HExt s.heap (allocV s v).2.heap := by
  unfold allocV; split
  · exact HExt.cons _ _
  · exact HExt.refl _

theorem place_ext (s : S) (a b : HV) (va vb : V) (sem : Sem) : HExt s.heap (place s a b va vb sem).2.heap := by
  cases sem with
  | err => exact HExt.refl _
  | unm => exact HExt.refl _
  | val v => exact allocV_ext s v
  | view side sel =>
    simp only [place]
    split
    · exact HExt.cons _ _
    · exact allocV_ext s _

theorem applyOp1_ext (o : MOp) (s : S) (a : HV) : HExt s.heap (applyOp1 o s a).2.heap := by
  unfold applyOp1
  split
  · exact HExt.refl _
  · exact HExt.refl _
  · split
    · exact place_ext ..
    · exact HExt.refl _

theorem applyOp2_ext (cfg : Cfg) (hc : cfg.amendInPlace = false) (o : DOp) (s : S) (a b : HV) :
    HExt s.heap (applyOp2 cfg o s a b).2.heap := by
  unfold applyOp2
  split
  · split <;> exact HExt.refl _
  · split
    · simp only [hc, Bool.false_and]
      exact place_ext ..
    · exact HExt.refl _

theorem tryCompiled_ext (cfg : Cfg) (s : S) (e : Expr HLit) (v : HV) (s1 : S)
    (h : tryCompiled cfg s e = some (v, s1)) : HExt s.heap s1.heap := by
  unfold tryCompiled at h
  simp only at h
  split at h
  · split at h
    · simp at h
      rename_i x _
      have := allocV_ext (memoCode cfg s e).2 x
      rw [h, (memoCode_same cfg s e).1] at this
      exact this
    · simp at h
  · simp at h

theorem memoOnly_heap (cfg : Cfg) (s : S) (e : Expr HLit) : (memoOnly cfg s e).heap = s.heap :=
  (memoCode_same cfg s e).1

theorem evalWith_ext (cfg : Cfg) (hc : cfg.amendInPlace = false)
    (callee : Expr HLit → S → Res HV × S) (hcallee : ∀ b s, HExt s.heap (callee b s).2.heap) :
    ∀ (e : Expr HLit) (s : S), HExt s.heap (evalWith cfg callee e s).2.heap := by
  intro e
  induction e with
  | lit l => intro s; cases l <;> exact HExt.refl _
  | dlit kvs => intro s; exact HExt.refl _
  | var q => intro s; simp only [evalWith]; rw [evalVar_heap]; exact HExt.refl _
  | fn b _ => intro s; exact HExt.refl _
  | assign q e ih =>
    intro s
    simp only [evalWith]
    have := ih s
    rcases h : evalWith cfg callee e s with ⟨r, s1⟩
    rw [h] at this
    cases r <;> simpa using this
  | seq a b iha ihb =>
    intro s
    simp only [evalWith]
    have h1 := iha s
    rcases h : evalWith cfg callee a s with ⟨r, s1⟩
    rw [h] at h1
    cases r with
    | ok v => exact h1.trans (ihb s1)
    | err => simpa using h1
    | unm => simpa using h1
  | op1 o e ih =>
    intro s
    simp only [evalWith]
    cases ht : tryCompiled cfg s (.op1 o e) with
    | some p => obtain ⟨v, s1⟩ := p; exact tryCompiled_ext cfg s _ v s1 ht
    | none =>
      simp only
      have h1 := ih (memoOnly cfg s (.op1 o e))
      rw [memoOnly_heap] at h1
      rcases h : evalWith cfg callee e (memoOnly cfg s (.op1 o e)) with ⟨r, s1⟩
      rw [h] at h1
      cases r with
      | ok v => exact h1.trans (applyOp1_ext o s1 v)
      | err => simpa using h1
      | unm => simpa using h1
  | op2 o a b iha ihb =>
    intro s
    simp only [evalWith]
    cases ht : tryCompiled cfg s (.op2 o a b) with
    | some p => obtain ⟨v, s1⟩ := p; exact tryCompiled_ext cfg s _ v s1 ht
    | none =>
      simp only
      have h1 := ihb (memoOnly cfg s (.op2 o a b))
      rw [memoOnly_heap] at h1
      rcases h : evalWith cfg callee b (memoOnly cfg s (.op2 o a b)) with ⟨r, s1⟩
      rw [h] at h1
      cases r with
      | ok vb =>
        simp only
        have h2 := iha s1
        rcases h' : evalWith cfg callee a s1 with ⟨r2, s2⟩
        rw [h'] at h2
        cases r2 with
        | ok va => exact (h1.trans h2).trans (applyOp2_ext cfg hc o s2 va vb)
        | err => simpa using h1.trans h2
        | unm => simpa using h1.trans h2
      | err => simpa using h1
      | unm => simpa using h1
  | call f arg ih =>
    intro s
    simp only [evalWith]
    split
    · have h1 := ih s
      rcases h : evalWith cfg callee arg s with ⟨r, s1⟩
      rw [h] at h1
      cases r with
      | ok av =>
        simp only
        have h2 := hcallee ‹_› { s1 with frames := ⟨none, [(xName, av)]⟩ :: s1.frames }
        exact h1.trans h2
      | err => simpa using h1
      | unm => simpa using h1
    · exact HExt.refl _

theorem evalN_ext (cfg : Cfg) (hc : cfg.amendInPlace = false) (n : Nat) :
    ∀ (e : Expr HLit) (s : S), HExt s.heap (evalN cfg n e s).2.heap := by
  induction n with
  | zero => intro e s; exact HExt.refl _
  | succ n ih => intro e s; exact evalWith_ext cfg hc (evalN cfg n) ih e s

/-! ## simulation of the heap machine by the by-value machine -/

def VRes (h : Heap) : Res HV → Prop
  | .ok v => VHV h v
  | _ => True

structure Inv (cfg : Cfg) (s : S) : Prop where
  vf : VF s.heap s.frames
  memo : cfg.caches = true → ∀ e c, (e, c) ∈ s.memo → c = compileWith hlitInt e

/-- the heap machine ended in `out`, the by-value machine (started from the abstraction of
    `s`) ended in `rout`, and they agree -/
structure Sim (cfg : Cfg) (s : S) (out : Res HV × S) (rout : Res RV × Ref.S) : Prop where
  ext : HExt s.heap out.2.heap
  inv : Inv cfg out.2
  abs : absS out.2 = rout.2
  res : absRes out.2.heap out.1 = rout.1
  vres : VRes out.2.heap out.1
  csub : ∀ x ∈ out.2.ccache, x ∈ s.ccache

theorem Sim.rout {cfg : Cfg} {s : S} {out : Res HV × S} {rout : Res RV × Ref.S} (h : Sim cfg s out rout) :
    rout = (absRes out.2.heap out.1, absS out.2) := by
  rw [h.res, h.abs]

theorem Sim.from {cfg : Cfg} {s s1 : S} {out : Res HV × S} {rout : Res RV × Ref.S}
    (x : HExt s.heap s1.heap) (c : ∀ y ∈ s1.ccache, y ∈ s.ccache) (h : Sim cfg s1 out rout) : Sim cfg s out rout :=
  ⟨x.trans h.ext, h.inv, h.abs, h.res, h.vres, fun y hy => c y (h.csub y hy)⟩

@[simp] theorem absRes_unm (h : Heap) : absRes h .unm = .unm := rfl
@[simp] theorem absRes_err (h : Heap) : absRes h .err = .err := rfl
@[simp] theorem absRes_ok (h : Heap) (v : HV) : absRes h (.ok v) = .ok (absHV h v) := rfl

theorem Sim_same (cfg : Cfg) (s : S) (r : Res HV) (hi : Inv cfg s) (hv : VRes s.heap r) :
    Sim cfg s (r, s) (absRes s.heap r, absS s) :=
  ⟨HExt.refl _, hi, rfl, rfl, hv, fun _ h => h⟩

theorem env_abs (s : S) (q : QName) : Interp.env s q = renv (absS s) q := by
  unfold Interp.env renv absS
  simp only [lookup_map]
  cases lookup s.frames q with
  | none => rfl
  | some hv => cases hv <;> simp [toV, absHV]

theorem push_cell (cfg : Cfg) (s : S) (c : Cell) (hi : Inv cfg s) :
    Inv cfg { s with heap := c :: s.heap } ∧ absS { s with heap := c :: s.heap } = absS s := by
  refine ⟨⟨VF_of_ext (HExt.cons c s.heap) _ hi.vf, hi.memo⟩, ?_⟩
  simp only [absS]
  rw [mapFrames_of_ext (HExt.cons c s.heap) _ hi.vf]

theorem allocV_spec (cfg : Cfg) (s : S) (v : V) (hi : Inv cfg s) :
    Sim cfg s (.ok (allocV s v).1, (allocV s v).2) (.ok (.val v), absS s) := by
  unfold allocV
  by_cases ha : isArr v = true
  · simp only [ha, if_true]
    obtain ⟨i, a⟩ := push_cell cfg s (.base v) hi
    refine ⟨HExt.cons _ _, i, a, ?_, ?_, fun _ h => h⟩
    · simp [absRes, absHV, derefAt_new]
    · simp [VRes, VHV]
  · simp only [ha]
    exact ⟨HExt.refl _, hi, rfl, rfl, trivial, fun _ h => h⟩

theorem toV_arr (h : Heap) (p : Nat) : toV h (.arr p) = some (derefAt h p) := rfl

theorem place_spec (cfg : Cfg) (s : S) (a b : HV) (va vb : V) (sem : Sem) (hi : Inv cfg s)
    (ha : toV s.heap a = some va) (hb : toV s.heap b = some vb) :
    Sim cfg s (place s a b va vb sem) (Ref.semToRes va vb sem, absS s) := by
  cases sem with
  | err => exact Sim_same cfg s .err hi trivial
  | unm => exact Sim_same cfg s .unm hi trivial
  | val v => exact allocV_spec cfg s v hi
  | view side sel =>
    have arrCase : ∀ p : Nat,
        Sim cfg s ((Res.ok (HV.arr s.heap.length) : Res HV), { s with heap := Cell.view p sel :: s.heap })
          (.ok (.val (applySel sel (derefAt s.heap p))), absS s) := by
      intro p
      obtain ⟨i, a⟩ := push_cell cfg s (.view p sel) hi
      refine ⟨HExt.cons _ _, i, a, ?_, ?_, fun _ h => h⟩
      · simp [absRes, absHV, derefAt_new]
      · simp [VRes, VHV]
    cases side with
    | l =>
      cases a with
      | arr p =>
        simp only [toV_arr, Option.some.injEq] at ha
        subst ha
        simpa [place, operand, Ref.semToRes] using arrCase p
      | imm v => simpa [place, operand, Ref.semToRes] using allocV_spec cfg s (applySel sel va) hi
      | dict r => simp [toV] at ha
      | fn f => simp [toV] at ha
    | r =>
      cases b with
      | arr p =>
        simp only [toV_arr, Option.some.injEq] at hb
        subst hb
        simpa [place, operand, Ref.semToRes] using arrCase p
      | imm v => simpa [place, operand, Ref.semToRes] using allocV_spec cfg s (applySel sel vb) hi
      | dict r => simp [toV] at hb
      | fn f => simp [toV] at hb

theorem evalVar_sim (cfg : Cfg) (s : S) (q : QName) (hi : Inv cfg s) :
    Sim cfg s (Interp.evalVar s q) (Ref.evalVar (absS s) q) := by
  unfold Interp.evalVar Ref.evalVar
  have hl : lookup (absS s).frames q = (lookup s.frames q).map (absHV s.heap) := by
    simp [absS, lookup_map]
  rw [hl]
  cases h : lookup s.frames q with
  | some v =>
    simp only [Option.map_some]
    exact Sim_same cfg s (.ok v) hi (lookup_valid _ _ _ _ hi.vf h)
  | none =>
    simp only [Option.map_none]
    by_cases hx : q.base = xBase
    · simp only [hx, if_true]
      exact Sim_same cfg s (.ok (.imm (.sym q))) hi trivial
    · simp only [hx, if_false]
      refine ⟨HExt.refl _, ⟨assign_valid _ _ _ _ hi.vf trivial, hi.memo⟩, ?_, rfl, trivial, fun _ h => h⟩
      simp only [absS]
      rw [← assign_map]
      rfl

theorem applyOp1_sim (cfg : Cfg) (o : MOp) (s : S) (a : HV) (hi : Inv cfg s) :
    Sim cfg s (applyOp1 o s a) (Ref.applyOp1 o (absS s) (absHV s.heap a)) := by
  cases a with
  | imm v => simpa [applyOp1, toV, Ref.applyOp1, absHV] using place_spec cfg s (.imm v) (.imm v) v v (monadSem o v) hi rfl rfl
  | arr p =>
    simpa [applyOp1, toV, Ref.applyOp1, absHV] using
      place_spec cfg s (.arr p) (.arr p) _ _ (monadSem o (derefAt s.heap p)) hi rfl rfl
  | dict r =>
    simp only [applyOp1, Ref.applyOp1, absHV]
    cases o <;> exact Sim_same cfg s _ hi trivial
  | fn b => exact Sim_same cfg s .unm hi trivial

theorem applyOp2_sim (cfg : Cfg) (hA : cfg.amendInPlace = false) (o : DOp) (s : S) (a b : HV) (hi : Inv cfg s) :
    Sim cfg s (applyOp2 cfg o s a b) (Ref.applyOp2 o (absS s) (absHV s.heap a) (absHV s.heap b)) := by
  cases a with
  | dict r =>
    cases b with
    | imm vb =>
      simp only [applyOp2, toV, Ref.applyOp2, absHV]
      cases o <;> (try exact Sim_same cfg s .unm hi trivial)
      · -- join
        cases vb <;> (try exact Sim_same cfg s .unm hi trivial)
        rename_i xs
        match xs with
        | [] => exact Sim_same cfg s .unm hi trivial
        | [_] => exact Sim_same cfg s .unm hi trivial
        | [k, v] => exact ⟨HExt.refl _, ⟨hi.vf, hi.memo⟩, rfl, rfl, trivial, fun _ h => h⟩
        | _ :: _ :: _ :: _ => exact Sim_same cfg s .unm hi trivial
      · -- find
        cases vb <;> (try exact Sim_same cfg s .unm hi trivial)
        exact Sim_same cfg s (.ok (.imm _)) hi trivial
    | arr p =>
      simp only [applyOp2, toV, Ref.applyOp2, absHV]
      cases o <;> (try exact Sim_same cfg s .unm hi trivial)
      · cases hd : derefAt s.heap p <;> (try exact Sim_same cfg s .unm hi trivial)
        rename_i xs
        match xs with
        | [] => exact Sim_same cfg s .unm hi trivial
        | [_] => exact Sim_same cfg s .unm hi trivial
        | [k, v] => exact ⟨HExt.refl _, ⟨hi.vf, hi.memo⟩, rfl, rfl, trivial, fun _ h => h⟩
        | _ :: _ :: _ :: _ => exact Sim_same cfg s .unm hi trivial
      · cases hd : derefAt s.heap p <;> (try exact Sim_same cfg s .unm hi trivial)
        exact Sim_same cfg s (.ok (.imm _)) hi trivial
    | dict r2 =>
      simp only [applyOp2, toV, Ref.applyOp2, absHV]
      cases o <;> exact Sim_same cfg s .unm hi trivial
    | fn f =>
      simp only [applyOp2, toV, Ref.applyOp2, absHV]
      cases o <;> exact Sim_same cfg s .unm hi trivial
  | imm va =>
    cases b with
    | imm vb => simpa [applyOp2, toV, Ref.applyOp2, absHV, hA] using place_spec cfg s (.imm va) (.imm vb) va vb (dyadSem o va vb) hi rfl rfl
    | arr q => simpa [applyOp2, toV, Ref.applyOp2, absHV, hA] using place_spec cfg s (.imm va) (.arr q) va _ (dyadSem o va (derefAt s.heap q)) hi rfl rfl
    | dict r => simpa [applyOp2, toV, Ref.applyOp2, absHV] using Sim_same cfg s .unm hi trivial
    | fn f => simpa [applyOp2, toV, Ref.applyOp2, absHV] using Sim_same cfg s .unm hi trivial
  | arr p =>
    cases b with
    | imm vb => simpa [applyOp2, toV, Ref.applyOp2, absHV, hA] using place_spec cfg s (.arr p) (.imm vb) _ vb (dyadSem o (derefAt s.heap p) vb) hi rfl rfl
    | arr q => simpa [applyOp2, toV, Ref.applyOp2, absHV, hA] using place_spec cfg s (.arr p) (.arr q) _ _ (dyadSem o (derefAt s.heap p) (derefAt s.heap q)) hi rfl rfl
    | dict r => simpa [applyOp2, toV, Ref.applyOp2, absHV] using Sim_same cfg s .unm hi trivial
    | fn f => simpa [applyOp2, toV, Ref.applyOp2, absHV] using Sim_same cfg s .unm hi trivial
  | fn f =>
    cases b <;> simpa [applyOp2, toV, Ref.applyOp2, absHV] using Sim_same cfg s .unm hi trivial

/-! ### the compiled path -/

theorem isArr_litInt (v : V) (h : isArr v = true) : litInt v = none := by
  cases v <;> simp [isArr] at h <;> rfl

theorem toIR_deref (h : Heap) (e : Expr HLit) (hv : VE h e) : toIR litInt (derefE h e) = toIR hlitInt e := by
  induction e with
  | lit l =>
    cases l with
    | imm v => rfl
    | ref a => simp [derefE, toIR, hlitInt, isArr_litInt _ hv.2]
  | dlit => rfl
  | var => rfl
  | fn b _ => rfl
  | assign q e _ => rfl
  | seq a b _ _ => rfl
  | call f a _ => rfl
  | op1 o e ih =>
    cases o <;> simp [derefE, toIR, ih hv]
  | op2 o a b iha ihb =>
    cases o <;> simp [derefE, toIR, iha hv.1, ihb hv.2]

theorem lookup_mem' {α β : Type} [BEq α] [LawfulBEq α] (l : List (α × β)) (k : α) (v : β)
    (h : l.lookup k = some v) : (k, v) ∈ l := by
  induction l with
  | nil => simp [List.lookup] at h
  | cons p l ih =>
    obtain ⟨k', v'⟩ := p
    by_cases hk : (k == k') = true
    · have : k = k' := eq_of_beq hk
      subst this
      simp [List.lookup] at h
      simp [h]
    · have hk' : (k == k') = false := by simpa using hk
      simp [List.lookup, hk'] at h
      simp [ih h]

theorem compileNow_some (cfg : Cfg) (s : S) (e : Expr HLit) (c : CExpr) (h : compileNow cfg s e = some c) :
    compileWith hlitInt e = some c ∧ (cfg.guardArgs = true ∨ varsAdmissible (Interp.env s) c = true) := by
  unfold compileNow at h
  cases hc : compileWith hlitInt e with
  | none => simp [hc] at h
  | some c' =>
    simp only [hc] at h
    split at h
    · simp at h; subst h
      rename_i hcond
      simp at hcond
      exact ⟨rfl, hcond⟩
    · simp at h

theorem compileNow_guard (cfg : Cfg) (hg : cfg.guardArgs = true) (s : S) (e : Expr HLit) :
    compileNow cfg s e = compileWith hlitInt e := by
  unfold compileNow
  cases compileWith hlitInt e <;> simp [hg]

theorem memoCode_env (cfg : Cfg) (s : S) (e : Expr HLit) : Interp.env (memoCode cfg s e).2 = Interp.env s := by
  funext q
  unfold Interp.env
  rw [(memoCode_same cfg s e).1, (memoCode_same cfg s e).2.1]

/-- the code that runs is the (structural) compilation of the node, its operands are
    admissible now, and it was run on the current variables -/
theorem code_ok (cfg : Cfg) (hg : cfg.caches = true → cfg.guardArgs = true) (s : S) (e : Expr HLit)
    (hi : Inv cfg s) (c : CExpr) (v : V)
    (hm : (memoCode cfg s e).1 = some c) (hr : runCode cfg (memoCode cfg s e).2 c = some v) :
    compileWith hlitInt e = some c ∧ varsAdmissible (Interp.env s) c = true ∧ pyEval (Interp.env s) c = some v := by
  have hrun : (cfg.guardArgs = true ∨ varsAdmissible (Interp.env s) c = true) →
      varsAdmissible (Interp.env s) c = true ∧ pyEval (Interp.env s) c = some v := by
    intro hor
    unfold runCode at hr
    rw [memoCode_env] at hr
    by_cases hga : cfg.guardArgs = true
    · by_cases hva : varsAdmissible (Interp.env s) c = true
      · simp [hga, hva] at hr; exact ⟨hva, hr⟩
      · simp [hga, hva] at hr
    · have hva : varsAdmissible (Interp.env s) c = true := by
        rcases hor with h | h
        · exact absurd h hga
        · exact h
      simp [hga] at hr
      exact ⟨hva, hr⟩
  by_cases hc : cfg.caches = true
  · have hga := hg hc
    have hcomp : compileWith hlitInt e = some c := by
      unfold memoCode at hm
      simp only [hc, if_true] at hm
      cases hl : s.memo.lookup e with
      | some c' =>
        simp only [hl] at hm
        rw [← hi.memo hc e c' (lookup_mem' _ _ _ hl)]
        exact hm
      | none =>
        simp only [hl] at hm
        rw [← compileNow_guard cfg hga s e]
        exact hm
    exact ⟨hcomp, hrun (Or.inl hga)⟩
  · have hm' : compileNow cfg s e = some c := by
      unfold memoCode at hm
      simpa [hc] using hm
    obtain ⟨h1, h2⟩ := compileNow_some cfg s e c hm'
    exact ⟨h1, hrun h2⟩

theorem memoCode_inv (cfg : Cfg) (hg : cfg.caches = true → cfg.guardArgs = true) (s : S) (e : Expr HLit)
    (hi : Inv cfg s) : Inv cfg (memoCode cfg s e).2 := by
  refine ⟨?_, ?_⟩
  · rw [(memoCode_same cfg s e).1, (memoCode_same cfg s e).2.1]; exact hi.vf
  · intro hc e' c' hmem
    unfold memoCode at hmem
    simp only [hc, if_true] at hmem
    cases hl : s.memo.lookup e with
    | some c0 => simp only [hl] at hmem; exact hi.memo hc e' c' hmem
    | none =>
      simp only [hl, List.mem_cons] at hmem
      rcases hmem with h | h
      · cases h
        exact compileNow_guard cfg (hg hc) s e
      · exact hi.memo hc e' c' h

theorem memoCode_abs (cfg : Cfg) (s : S) (e : Expr HLit) : absS (memoCode cfg s e).2 = absS s := by
  unfold absS
  rw [(memoCode_same cfg s e).1, (memoCode_same cfg s e).2.1, (memoCode_same cfg s e).2.2.1]

/-- running admissible compiled code is one interpreter step of `Ref` on the same node -/
theorem compiled_run_sim (s : S) (e : Expr HLit) (hv : VE s.heap e)
    (calleeR : Expr V → Ref.S → Res RV × Ref.S) (c : CExpr) (v : V)
    (hc : compileWith hlitInt e = some c) (ha : varsAdmissible (Interp.env s) c = true)
    (hp : pyEval (Interp.env s) c = some v) :
    Ref.evalWith calleeR (derefE s.heap e) (absS s) = (.ok (.val v), absS s) := by
  have hir : toIR litInt (derefE s.heap e) = some c := by
    rw [toIR_deref _ _ hv]
    unfold compileWith at hc
    cases ht : toIR hlitInt e with
    | none => simp [ht] at hc
    | some c' =>
      simp only [ht] at hc
      split at hc
      · simp at hc
      · simp at hc; rw [hc]
  have henv : Interp.env s = renv (absS s) := funext (env_abs s)
  rw [henv] at ha hp
  have hvars : ∀ q ∈ c.vars, ∃ w, renv (absS s) q = some w ∧ admissible w = true := by
    intro q hq
    unfold varsAdmissible at ha
    have := (List.all_eq_true.mp ha) q hq
    cases hw : renv (absS s) q with
    | none => simp [hw] at this
    | some w => simp [hw] at this; exact ⟨w, rfl, this⟩
  exact (pyEval_sound calleeR (absS s) (derefE s.heap e) c v hir hvars hp).1

theorem tryCompiled_sim (cfg : Cfg) (hg : cfg.caches = true → cfg.guardArgs = true) (s : S) (e : Expr HLit)
    (hi : Inv cfg s) (hv : VE s.heap e) (calleeR : Expr V → Ref.S → Res RV × Ref.S) (v : HV) (s1 : S)
    (h : tryCompiled cfg s e = some (v, s1)) :
    Sim cfg s (.ok v, s1) (Ref.evalWith calleeR (derefE s.heap e) (absS s)) := by
  unfold tryCompiled at h
  simp only at h
  cases hm : (memoCode cfg s e).1 with
  | none => simp [hm] at h
  | some c =>
    simp only [hm] at h
    cases hr : runCode cfg (memoCode cfg s e).2 c with
    | none => simp [hr] at h
    | some w =>
      simp only [hr, Option.some.injEq] at h
      obtain ⟨hc, ha, hp⟩ := code_ok cfg hg s e hi c w hm hr
      rw [compiled_run_sim s e hv calleeR c w hc ha hp]
      have hs := allocV_spec cfg (memoCode cfg s e).2 w (memoCode_inv cfg hg s e hi)
      rw [h, memoCode_abs] at hs
      have hx : HExt s.heap (memoCode cfg s e).2.heap := by rw [(memoCode_same cfg s e).1]; exact HExt.refl _
      exact Sim.from hx (by rw [(memoCode_same cfg s e).2.2.2]; exact fun _ h => h) hs

theorem memoOnly_spec (cfg : Cfg) (hg : cfg.caches = true → cfg.guardArgs = true) (s : S) (e : Expr HLit)
    (hi : Inv cfg s) :
    Inv cfg (memoOnly cfg s e) ∧ absS (memoOnly cfg s e) = absS s ∧ (memoOnly cfg s e).heap = s.heap ∧
    (memoOnly cfg s e).ccache = s.ccache :=
  ⟨memoCode_inv cfg hg s e hi, memoCode_abs cfg s e, (memoCode_same cfg s e).1, (memoCode_same cfg s e).2.2.2⟩

/-! ### one level of the interpreter -/

theorem pair_eta {α β : Type} (p : α × β) (a : α) (b : β) (h1 : p.1 = a) (h2 : p.2 = b) : p = (a, b) := by
  cases p; simp_all

theorem Sim.rout' {cfg : Cfg} {s : S} {r : Res HV} {s1 : S} {rout : Res RV × Ref.S}
    (h : Sim cfg s (r, s1) rout) : rout = (absRes s1.heap r, absS s1) := h.rout

theorem VF_tail (h : Heap) (fs : List (Frame HV)) (hv : VF h fs) : VF h fs.tail :=
  fun f hf => hv f (List.mem_of_mem_tail hf)

theorem mapFrames_tail {β γ : Type} (g : β → γ) (fs : List (Frame β)) :
    mapFrames g fs.tail = (mapFrames g fs).tail := by
  cases fs <;> rfl

theorem evalWith_sim (cfg : Cfg) (hA : cfg.amendInPlace = false) (hg : cfg.caches = true → cfg.guardArgs = true)
    (callee : Expr HLit → S → Res HV × S) (calleeR : Expr V → Ref.S → Res RV × Ref.S)
    (hcal : ∀ b s, Inv cfg s → VE s.heap b → Sim cfg s (callee b s) (calleeR (derefE s.heap b) (absS s))) :
    ∀ (e : Expr HLit) (s : S), Inv cfg s → VE s.heap e →
      Sim cfg s (evalWith cfg callee e s) (Ref.evalWith calleeR (derefE s.heap e) (absS s)) := by
  intro e
  induction e with
  | lit l =>
    intro s hi hv
    cases l with
    | imm v => exact Sim_same cfg s (.ok (.imm v)) hi trivial
    | ref a => exact Sim_same cfg s (.ok (.arr a)) hi hv.1
  | dlit kvs =>
    intro s hi _
    exact ⟨HExt.refl _, ⟨hi.vf, hi.memo⟩, rfl, rfl, trivial, fun _ h => h⟩
  | var q =>
    intro s hi _
    exact evalVar_sim cfg s q hi
  | fn b _ =>
    intro s hi hv
    exact Sim_same cfg s (.ok (.fn b)) hi hv
  | assign q e ih =>
    intro s hi hv
    have h1 := ih s hi hv
    simp only [evalWith, derefE, Ref.evalWith]
    rcases he : evalWith cfg callee e s with ⟨r, s1⟩
    rw [he] at h1
    rw [h1.rout']
    cases r with
    | ok v =>
      simp only [absRes_ok]
      refine ⟨h1.ext, ⟨assign_valid _ _ _ _ h1.inv.vf h1.vres, h1.inv.memo⟩, ?_, rfl, h1.vres, ?_⟩
      · simp only [absS]
        rw [← assign_map]
      · intro x hx
        simp only at hx
        split at hx
        · simp at hx
        · exact h1.csub x hx
    | err => exact ⟨h1.ext, h1.inv, rfl, rfl, trivial, h1.csub⟩
    | unm => exact ⟨h1.ext, h1.inv, rfl, rfl, trivial, h1.csub⟩
  | seq a b iha ihb =>
    intro s hi hv
    have h1 := iha s hi hv.1
    simp only [evalWith, derefE, Ref.evalWith]
    rcases he : evalWith cfg callee a s with ⟨r, s1⟩
    rw [he] at h1
    rw [h1.rout']
    cases r with
    | ok v =>
      simp only [absRes_ok]
      have h2 := ihb s1 h1.inv (VE_of_ext h1.ext _ hv.2)
      rw [derefE_of_ext h1.ext _ hv.2] at h2
      exact Sim.from h1.ext h1.csub h2
    | err => exact ⟨h1.ext, h1.inv, rfl, rfl, trivial, h1.csub⟩
    | unm => exact ⟨h1.ext, h1.inv, rfl, rfl, trivial, h1.csub⟩
  | op1 o e ih =>
    intro s hi hv
    simp only [evalWith]
    cases ht : tryCompiled cfg s (.op1 o e) with
    | some p =>
      obtain ⟨v, s1⟩ := p
      exact tryCompiled_sim cfg hg s _ hi hv calleeR v s1 ht
    | none =>
      simp only [derefE, Ref.evalWith]
      obtain ⟨i0, a0, h0, c0⟩ := memoOnly_spec cfg hg s (.op1 o e) hi
      have hv0 : VE (memoOnly cfg s (.op1 o e)).heap e := by rw [h0]; exact hv
      have h1 := ih _ i0 hv0
      rw [a0, h0] at h1
      rcases he : evalWith cfg callee e (memoOnly cfg s (.op1 o e)) with ⟨r, s1⟩
      rw [he] at h1
      rw [h1.rout']
      have hx : HExt s.heap s1.heap := by have := h1.ext; rwa [h0] at this
      have hcs : ∀ y ∈ s1.ccache, y ∈ s.ccache := by have := h1.csub; rwa [c0] at this
      cases r with
      | ok v =>
        simp only [absRes_ok]
        exact Sim.from hx hcs (applyOp1_sim cfg o s1 v h1.inv)
      | err => exact ⟨hx, h1.inv, rfl, rfl, trivial, hcs⟩
      | unm => exact ⟨hx, h1.inv, rfl, rfl, trivial, hcs⟩
  | op2 o a b iha ihb =>
    intro s hi hv
    simp only [evalWith]
    cases ht : tryCompiled cfg s (.op2 o a b) with
    | some p =>
      obtain ⟨v, s1⟩ := p
      exact tryCompiled_sim cfg hg s _ hi hv calleeR v s1 ht
    | none =>
      simp only [derefE, Ref.evalWith]
      obtain ⟨i0, a0, h0, c0⟩ := memoOnly_spec cfg hg s (.op2 o a b) hi
      have hvb0 : VE (memoOnly cfg s (.op2 o a b)).heap b := by rw [h0]; exact hv.2
      have h1 := ihb _ i0 hvb0
      rw [a0, h0] at h1
      rcases he : evalWith cfg callee b (memoOnly cfg s (.op2 o a b)) with ⟨rb, s1⟩
      rw [he] at h1
      rw [h1.rout']
      have hx : HExt s.heap s1.heap := by have := h1.ext; rwa [h0] at this
      have hcs : ∀ y ∈ s1.ccache, y ∈ s.ccache := by have := h1.csub; rwa [c0] at this
      cases rb with
      | ok vb =>
        simp only [absRes_ok]
        have h2 := iha s1 h1.inv (VE_of_ext hx _ hv.1)
        rw [derefE_of_ext hx _ hv.1] at h2
        rcases he2 : evalWith cfg callee a s1 with ⟨ra, s2⟩
        rw [he2] at h2
        rw [h2.rout']
        have hx2 : HExt s.heap s2.heap := hx.trans h2.ext
        have hcs2 : ∀ y ∈ s2.ccache, y ∈ s.ccache := fun y hy => hcs y (h2.csub y hy)
        cases ra with
        | ok va =>
          simp only [absRes_ok]
          have h3 := applyOp2_sim cfg hA o s2 va vb h2.inv
          rw [absHV_of_ext h2.ext vb h1.vres] at h3
          exact Sim.from hx2 hcs2 h3
        | err => exact ⟨hx2, h2.inv, rfl, rfl, trivial, hcs2⟩
        | unm => exact ⟨hx2, h2.inv, rfl, rfl, trivial, hcs2⟩
      | err => exact ⟨hx, h1.inv, rfl, rfl, trivial, hcs⟩
      | unm => exact ⟨hx, h1.inv, rfl, rfl, trivial, hcs⟩
  | call f arg ih =>
    intro s hi hv
    simp only [evalWith, derefE, Ref.evalWith]
    have hl : lookup (absS s).frames f = (lookup s.frames f).map (absHV s.heap) := by
      simp [absS, lookup_map]
    rw [hl]
    cases hf : lookup s.frames f with
    | none => exact Sim_same cfg s .unm hi trivial
    | some fv =>
      cases fv with
      | imm v => exact Sim_same cfg s .unm hi trivial
      | arr p => exact Sim_same cfg s .unm hi trivial
      | dict r => exact Sim_same cfg s .unm hi trivial
      | fn body =>
        simp only [Option.map_some, absHV]
        have hbody : VE s.heap body := lookup_valid _ _ _ _ hi.vf hf
        have h1 := ih s hi hv
        rcases he : evalWith cfg callee arg s with ⟨r, s1⟩
        rw [he] at h1
        rw [h1.rout']
        cases r with
        | ok av =>
          simp only [absRes_ok]
          have hi1 : Inv cfg { s1 with frames := ⟨none, [(xName, av)]⟩ :: s1.frames } := by
            refine ⟨?_, h1.inv.memo⟩
            intro fr hfr
            simp at hfr
            rcases hfr with hfr | hfr
            · subst hfr
              intro p hp
              simp at hp
              subst hp
              exact h1.vres
            · exact h1.inv.vf fr hfr
          have hb1 : VE s1.heap body := VE_of_ext h1.ext _ hbody
          have h2 := hcal body _ hi1 hb1
          simp only at h2
          rw [derefE_of_ext h1.ext _ hbody] at h2
          have habs : absS { s1 with frames := ⟨none, [(xName, av)]⟩ :: s1.frames } =
              { absS s1 with frames := ⟨none, [(xName, absHV s1.heap av)]⟩ :: (absS s1).frames } := by
            simp [absS, mapFrames]
          rw [habs] at h2
          rcases hc2 : callee body { s1 with frames := ⟨none, [(xName, av)]⟩ :: s1.frames } with ⟨r2, s2⟩
          rw [hc2] at h2
          rw [h2.rout']
          simp only
          refine ⟨h1.ext.trans h2.ext, ⟨VF_tail _ _ h2.inv.vf, h2.inv.memo⟩, ?_, rfl, h2.vres,
                  fun y hy => h1.csub y (h2.csub y hy)⟩
          simp only [absS]
          rw [mapFrames_tail]
        | err => exact ⟨h1.ext, h1.inv, rfl, rfl, trivial, h1.csub⟩
        | unm => exact ⟨h1.ext, h1.inv, rfl, rfl, trivial, h1.csub⟩

theorem evalN_sim (cfg : Cfg) (hA : cfg.amendInPlace = false) (hg : cfg.caches = true → cfg.guardArgs = true) (n : Nat) :
    ∀ (e : Expr HLit) (s : S), Inv cfg s → VE s.heap e →
      Sim cfg s (evalN cfg n e s) (Ref.evalN n (derefE s.heap e) (absS s)) := by
  induction n with
  | zero => intro e s hi _; exact Sim_same cfg s .unm hi trivial
  | succ n ih => intro e s hi hv; exact evalWith_sim cfg hA hg (evalN cfg n) (Ref.evalN n) ih e s hi hv

/-! ## the statement level: parse cache, compiled cache, module switches -/

def VS (h : Heap) : Stmt HLit → Prop
  | .expr e => VE h e
  | .module _ => True

def compileStmt : Text → Option CExpr
  | .expr e => compileWith litInt e
  | .module _ => none

/-- every compiled-cache entry is the structural compilation of the text it is filed under -/
def CC (cfg : Cfg) (parse : Parse) (cc : List ((Text × Option Nat) × Option CExpr)) : Prop :=
  cfg.caches = true → ∀ k c, (k, c) ∈ cc → c = compileStmt (parse k.1 k.2).1

/-- every parse-cache entry is what `parse` returns for its key: the tree and the module -/
def PC (cfg : Cfg) (parse : Parse) (h : Heap)
    (pc : List ((Text × Option Nat) × (Stmt HLit × Option Nat))) : Prop :=
  cfg.caches = true → ∀ k tree m', (k, (tree, m')) ∈ pc →
    VS h tree ∧ derefS h tree = (parse k.1 k.2).1 ∧ m' = (parse k.1 k.2).2

structure SInv (cfg : Cfg) (parse : Parse) (st : State) : Prop where
  inv : Inv cfg st.s
  pc : PC cfg parse st.s.heap st.pcache
  cc : CC cfg parse st.s.ccache

theorem VS_of_ext {h h' : Heap} (x : HExt h h') (t : Stmt HLit) (hv : VS h t) : VS h' t := by
  cases t with
  | expr e => exact VE_of_ext x e hv
  | module a => trivial

theorem derefS_of_ext {h h' : Heap} (x : HExt h h') (t : Stmt HLit) (hv : VS h t) : derefS h' t = derefS h t := by
  cases t with
  | expr e => simp [derefS, derefE_of_ext x e hv]
  | module a => rfl

theorem PC_ext {cfg : Cfg} {parse : Parse} {h h' : Heap} {pc} (x : HExt h h') (hp : PC cfg parse h pc) :
    PC cfg parse h' pc := by
  intro hc k tree m' hm
  obtain ⟨v, d, m⟩ := hp hc k tree m' hm
  exact ⟨VS_of_ext x _ v, by rw [derefS_of_ext x _ v, d], m⟩

theorem internS_spec (t : Text) (h : Heap) :
    HExt h (internS t h).2 ∧ VS (internS t h).2 (internS t h).1 ∧ derefS (internS t h).2 (internS t h).1 = t := by
  cases t with
  | expr e =>
    obtain ⟨x, v, d⟩ := internE_spec e h
    exact ⟨x, v, by simp [internS, derefS, d]⟩
  | module a => exact ⟨HExt.refl _, trivial, rfl⟩

theorem compileWith_deref (h : Heap) (e : Expr HLit) (hv : VE h e) :
    compileWith litInt (derefE h e) = compileWith hlitInt e := by
  unfold compileWith
  rw [toIR_deref h e hv]

theorem heap_only_inv (cfg : Cfg) (s : S) (h' : Heap) (x : HExt s.heap h') (hi : Inv cfg s) :
    Inv cfg { s with heap := h' } ∧ absS { s with heap := h' } = absS s := by
  refine ⟨⟨VF_of_ext x _ hi.vf, hi.memo⟩, ?_⟩
  simp only [absS]
  rw [mapFrames_of_ext x _ hi.vf]

/-- what `fetch` delivers -/
structure Fetched (cfg : Cfg) (parse : Parse) (st : State) (t : Text) (r : Stmt HLit × State) : Prop where
  ext : HExt st.s.heap r.2.s.heap
  sinv : SInv cfg parse r.2
  vs : VS r.2.s.heap r.1
  tree : derefS r.2.s.heap r.1 = (parse t st.module).1
  mod : r.2.module = (parse t st.module).2
  abs : absS r.2.s = absS st.s
  key : cfg.caches = true → key cfg st t = (t, st.module)

theorem fetchMiss_spec (cfg : Cfg) (parse : Parse) (hk : cfg.caches = true → cfg.keyModule = true)
    (st : State) (t : Text) (h : SInv cfg parse st) :
    Fetched cfg parse st t (fetchMiss cfg parse st t) := by
  obtain ⟨x, v, d⟩ := internS_spec (parse t st.module).1 st.s.heap
  obtain ⟨i, a⟩ := heap_only_inv cfg st.s _ x h.inv
  have hkey : cfg.caches = true → key cfg st t = (t, st.module) := by
    intro hc; simp [key, hk hc]
  refine ⟨x, ⟨i, ?_, h.cc⟩, v, d, rfl, a, hkey⟩
  intro hc k tree m' hm
  simp only [fetchMiss, hc, if_true, List.mem_cons] at hm
  rcases hm with hm | hm
  · cases hm
    rw [hkey hc]
    exact ⟨v, d, rfl⟩
  · exact PC_ext x h.pc hc k tree m' hm

theorem fetch_spec (cfg : Cfg) (parse : Parse)
    (hG : cfg.caches = true → cfg.keyModule = true ∧ cfg.replayModule = true ∧ cfg.guardArgs = true)
    (st : State) (t : Text) (h : SInv cfg parse st) :
    Fetched cfg parse st t (fetch cfg parse st t) := by
  have hk : cfg.caches = true → cfg.keyModule = true := fun hc => (hG hc).1
  unfold fetch
  by_cases hc : cfg.caches = true
  · simp only [hc, if_true]
    have hkey : key cfg st t = (t, st.module) := by simp [key, hk hc]
    cases hl : st.pcache.lookup (key cfg st t) with
    | none => exact fetchMiss_spec cfg parse hk st t h
    | some p =>
      obtain ⟨itree, m'⟩ := p
      obtain ⟨v, d, m⟩ := h.pc hc _ itree m' (lookup_mem' _ _ _ hl)
      rw [hkey] at d m
      simp only [(hG hc).2.1, if_true]
      exact ⟨HExt.refl _, ⟨h.inv, h.pc, h.cc⟩, v, d, m, rfl, fun _ => hkey⟩
  · simp only [hc]
    exact fetchMiss_spec cfg parse hk st t h

theorem runModule_sim (cfg : Cfg) (s : S) (arg : Option QName) (hi : Inv cfg s) :
    Sim cfg s (Interp.runModule s arg) (Ref.runModule (absS s) arg) := by
  cases arg with
  | none =>
    simp only [Interp.runModule, Ref.runModule]
    refine ⟨HExt.refl _, ⟨?_, hi.memo⟩, ?_, rfl, trivial, fun _ h => h⟩
    · intro fr hfr
      simp at hfr
      rcases hfr with hfr | hfr
      · subst hfr; intro p hp; simp at hp; subst hp; trivial
      · exact hi.vf fr hfr
    · simp [absS, mapFrames, absHV]
  | some q =>
    simp only [Interp.runModule, Ref.runModule]
    have h1 := evalVar_sim cfg s q hi
    rcases he : Interp.evalVar s q with ⟨r, s1⟩
    rw [he] at h1
    rw [h1.rout']
    cases r with
    | err => exact ⟨h1.ext, h1.inv, rfl, rfl, trivial, h1.csub⟩
    | unm => exact ⟨h1.ext, h1.inv, rfl, rfl, trivial, h1.csub⟩
    | ok hv =>
      simp only [absRes_ok]
      have push : ∀ n, toV s1.heap hv = some (.sym n) →
          Sim cfg s ((Res.ok (HV.imm V.undef) : Res HV),
              { s1 with frames := ⟨some n, []⟩ :: ⟨none, [(xName, hv)]⟩ :: s1.frames })
            (.ok (.val .undef),
              { absS s1 with frames := ⟨some n, []⟩ :: ⟨none, [(xName, .val (.sym n))]⟩ :: (absS s1).frames }) := by
        intro n hn
        have habs : absHV s1.heap hv = .val (.sym n) := by
          cases hv <;> simp [toV] at hn <;> simp [absHV, hn]
        refine ⟨h1.ext, ⟨?_, h1.inv.memo⟩, ?_, rfl, trivial, h1.csub⟩
        · intro fr hfr
          simp at hfr
          rcases hfr with hfr | hfr | hfr
          · subst hfr; intro p hp; simp at hp
          · subst hfr; intro p hp; simp at hp; subst hp; exact h1.vres
          · exact h1.inv.vf fr hfr
        · simp [absS, mapFrames, habs]
      cases hv with
      | imm v =>
        cases v <;> first
          | exact ⟨h1.ext, h1.inv, rfl, rfl, trivial, h1.csub⟩
          | (simpa [toV, absHV] using push _ rfl)
      | arr p =>
        cases hd : derefAt s1.heap p <;> simp only [toV, absHV, hd] <;> first
          | exact ⟨h1.ext, h1.inv, rfl, rfl, trivial, h1.csub⟩
          | (simpa [toV, absHV, hd] using push _ (by simp [toV, hd]))
      | dict r => exact ⟨h1.ext, h1.inv, rfl, rfl, trivial, h1.csub⟩
      | fn b => exact ⟨h1.ext, h1.inv, rfl, rfl, trivial, h1.csub⟩

/-! ### `__call__`: compiled cache, then the interpreter -/

theorem topCode_same (cfg : Cfg) (k : Text × Option Nat) (s : S) (e : Expr HLit) :
    (topCode cfg k s e).2.heap = s.heap ∧ (topCode cfg k s e).2.frames = s.frames ∧
    (topCode cfg k s e).2.dheap = s.dheap ∧ (topCode cfg k s e).2.memo = s.memo := by
  unfold topCode; split <;> (try split) <;> simp

theorem topCode_env (cfg : Cfg) (k : Text × Option Nat) (s : S) (e : Expr HLit) :
    Interp.env (topCode cfg k s e).2 = Interp.env s := by
  funext q
  unfold Interp.env
  rw [(topCode_same cfg k s e).1, (topCode_same cfg k s e).2.1]

theorem topCode_inv (cfg : Cfg) (k : Text × Option Nat) (s : S) (e : Expr HLit) (hi : Inv cfg s) :
    Inv cfg (topCode cfg k s e).2 ∧ absS (topCode cfg k s e).2 = absS s := by
  obtain ⟨h1, h2, h3, h4⟩ := topCode_same cfg k s e
  refine ⟨⟨by rw [h1, h2]; exact hi.vf, by rw [h4]; exact hi.memo⟩, ?_⟩
  unfold absS
  rw [h1, h2, h3]

theorem topCode_cc (cfg : Cfg) (hg : cfg.caches = true → cfg.guardArgs = true) (parse : Parse)
    (k : Text × Option Nat) (s : S) (e : Expr HLit) (hv : VE s.heap e)
    (hcc : CC cfg parse s.ccache) (hk : cfg.caches = true → (parse k.1 k.2).1 = .expr (derefE s.heap e)) :
    CC cfg parse (topCode cfg k s e).2.ccache := by
  intro hc k' c' hmem
  unfold topCode at hmem
  simp only [hc, if_true] at hmem
  cases hl : s.ccache.lookup k with
  | some c0 => simp only [hl] at hmem; exact hcc hc k' c' hmem
  | none =>
    simp only [hl, List.mem_cons] at hmem
    rcases hmem with h | h
    · cases h
      rw [hk hc, compileNow_guard cfg (hg hc) s e]
      simp [compileStmt, compileWith_deref _ _ hv]
    · exact hcc hc k' c' h

theorem topCode_ok (cfg : Cfg) (hg : cfg.caches = true → cfg.guardArgs = true) (parse : Parse)
    (k : Text × Option Nat) (s : S) (e : Expr HLit) (hv : VE s.heap e)
    (hcc : CC cfg parse s.ccache) (hk : cfg.caches = true → (parse k.1 k.2).1 = .expr (derefE s.heap e)) (c : CExpr) (v : V)
    (hm : (topCode cfg k s e).1 = some c) (hr : runCode cfg (topCode cfg k s e).2 c = some v) :
    compileWith hlitInt e = some c ∧ varsAdmissible (Interp.env s) c = true ∧ pyEval (Interp.env s) c = some v := by
  have hrun : (cfg.guardArgs = true ∨ varsAdmissible (Interp.env s) c = true) →
      varsAdmissible (Interp.env s) c = true ∧ pyEval (Interp.env s) c = some v := by
    intro hor
    unfold runCode at hr
    rw [topCode_env] at hr
    by_cases hga : cfg.guardArgs = true
    · by_cases hva : varsAdmissible (Interp.env s) c = true
      · simp [hga, hva] at hr; exact ⟨hva, hr⟩
      · simp [hga, hva] at hr
    · have hva : varsAdmissible (Interp.env s) c = true := by
        rcases hor with h | h
        · exact absurd h hga
        · exact h
      simp [hga] at hr
      exact ⟨hva, hr⟩
  by_cases hc : cfg.caches = true
  · have hga := hg hc
    have hcomp : compileWith hlitInt e = some c := by
      unfold topCode at hm
      simp only [hc, if_true] at hm
      cases hl : s.ccache.lookup k with
      | some c' =>
        simp only [hl] at hm
        have := hcc hc k c' (lookup_mem' _ _ _ hl)
        rw [hk hc] at this
        simp only [compileStmt, compileWith_deref _ _ hv] at this
        rw [← this]; exact hm
      | none =>
        simp only [hl] at hm
        rw [← compileNow_guard cfg hga s e]
        exact hm
    exact ⟨hcomp, hrun (Or.inl hga)⟩
  · have hm' : compileNow cfg s e = some c := by
      unfold topCode at hm
      simpa [hc] using hm
    obtain ⟨h1, h2⟩ := compileNow_some cfg s e c hm'
    exact ⟨h1, hrun h2⟩

theorem toV_absHV {h : Heap} {hv : HV} {v : V} (ht : toV h hv = some v) : absHV h hv = .val v := by
  cases hv <;> simp [toV] at ht <;> simp [absHV, ht]

theorem exprStep_spec (cfg : Cfg) (hA : cfg.amendInPlace = false) (hg : cfg.caches = true → cfg.guardArgs = true)
    (parse : Parse) (k : Text × Option Nat) (s : S) (e : Expr HLit) (hi : Inv cfg s) (hv : VE s.heap e)
    (hcc : CC cfg parse s.ccache) (hk : cfg.caches = true → (parse k.1 k.2).1 = .expr (derefE s.heap e)) :
    HExt s.heap (exprStep cfg k s e).2.heap ∧ Inv cfg (exprStep cfg k s e).2 ∧
    (absRes (exprStep cfg k s e).2.heap (exprStep cfg k s e).1, absS (exprStep cfg k s e).2) =
      Ref.evalN Ref.depth (derefE s.heap e) (absS s) ∧
    CC cfg parse (exprStep cfg k s e).2.ccache := by
  obtain ⟨t1, t2, t3, t4⟩ := topCode_same cfg k s e
  obtain ⟨ti, ta⟩ := topCode_inv cfg k s e hi
  have tcc := topCode_cc cfg hg parse k s e hv hcc hk
  have hx : HExt s.heap (topCode cfg k s e).2.heap := by rw [t1]; exact HExt.refl _
  have interp : (topCompiled cfg k s e) = (none, (topCode cfg k s e).2) →
      HExt s.heap (exprStep cfg k s e).2.heap ∧ Inv cfg (exprStep cfg k s e).2 ∧
      (absRes (exprStep cfg k s e).2.heap (exprStep cfg k s e).1, absS (exprStep cfg k s e).2) =
        Ref.evalN Ref.depth (derefE s.heap e) (absS s) ∧
      CC cfg parse (exprStep cfg k s e).2.ccache := by
    intro htc
    have hs := evalN_sim cfg hA hg Interp.depth e (topCode cfg k s e).2 ti (by rw [t1]; exact hv)
    rw [t1, ta] at hs
    simp only [exprStep, htc]
    refine ⟨hx.trans hs.ext, hs.inv, hs.rout.symm, ?_⟩
    intro hc k' c' hm; exact tcc hc k' c' (hs.csub _ hm)
  unfold topCompiled at interp
  simp only at interp
  cases hm : (topCode cfg k s e).1 with
  | none => exact interp (by simp [hm])
  | some c =>
    cases hr : runCode cfg (topCode cfg k s e).2 c with
    | none => exact interp (by simp [hm, hr])
    | some w =>
      obtain ⟨hc, ha, hp⟩ := topCode_ok cfg hg parse k s e hv hcc hk c w hm hr
      have hR : Ref.evalN Ref.depth (derefE s.heap e) (absS s) = (.ok (.val w), absS s) :=
        compiled_run_sim s e hv (Ref.evalN 3) c w hc ha hp
      rw [hR]
      have hal := allocV_spec cfg (topCode cfg k s e).2 w ti
      have allocCase : (topCompiled cfg k s e) = (some (allocV (topCode cfg k s e).2 w), (topCode cfg k s e).2) →
          HExt s.heap (exprStep cfg k s e).2.heap ∧ Inv cfg (exprStep cfg k s e).2 ∧
          (absRes (exprStep cfg k s e).2.heap (exprStep cfg k s e).1, absS (exprStep cfg k s e).2) =
            (Res.ok (RV.val w), absS s) ∧
          CC cfg parse (exprStep cfg k s e).2.ccache := by
        intro htc
        simp only [exprStep, htc]
        refine ⟨hx.trans hal.ext, hal.inv, ?_, ?_⟩
        · rw [hal.res, hal.abs, ta]
        · intro hcc' k' c' hm'; exact tcc hcc' k' c' (hal.csub _ hm')
      cases c with
      | var q =>
        cases hlq : lookup (topCode cfg k s e).2.frames q with
        | none =>
          apply allocCase
          simp [topCompiled, hm, hr, CExpr.vars, hlq]
        | some hv' =>
          have htc : topCompiled cfg k s e = (some (hv', (topCode cfg k s e).2), (topCode cfg k s e).2) := by
            simp [topCompiled, hm, hr, CExpr.vars, hlq]
          simp only [exprStep, htc]
          have hpv : Interp.env s q = some w := by simpa [pyEval] using hp
          have htv : toV s.heap hv' = some w := by
            unfold Interp.env at hpv
            rw [t2] at hlq
            simpa [hlq] using hpv
          refine ⟨hx, ti, ?_, tcc⟩
          rw [ta]
          simp only [absRes_ok, t1, toV_absHV htv]
      | lit n => apply allocCase; simp [topCompiled, hm, hr]
      | bin o a b => apply allocCase; simp [topCompiled, hm, hr]
      | red o a => apply allocCase; simp [topCompiled, hm, hr]
      | scn o a => apply allocCase; simp [topCompiled, hm, hr]

/-! ### one statement -/

theorem SInv_after {cfg : Cfg} {parse : Parse} (st1 : State) (s' : S) (h : SInv cfg parse st1)
    (x : HExt st1.s.heap s'.heap) (i : Inv cfg s') (c : CC cfg parse s'.ccache) :
    SInv cfg parse { st1 with s := s' } :=
  ⟨i, PC_ext x h.pc, c⟩

theorem step_sim (cfg : Cfg) (hGood : cfg.Good) (parse : Parse) (st : State) (t : Text) (h : SInv cfg parse st) :
    SInv cfg parse (Interp.step cfg parse st t).1 ∧
    (absRes (Interp.step cfg parse st t).1.s.heap (Interp.step cfg parse st t).2, abs (Interp.step cfg parse st t).1) =
      ((Ref.step parse (abs st) t).2, (Ref.step parse (abs st) t).1) := by
  obtain ⟨hA, hG⟩ := hGood
  have hG' : cfg.caches = true → cfg.keyModule = true ∧ cfg.replayModule = true ∧ cfg.guardArgs = true := by
    intro hc
    rcases hG with hG | hG
    · rw [hc] at hG; cases hG
    · exact hG
  have hg : cfg.caches = true → cfg.guardArgs = true := fun hc => (hG' hc).2.2
  have F := fetch_spec cfg parse hG' st t h
  simp only [Interp.step, Ref.step, abs]
  rw [← F.tree]
  cases hf : (fetch cfg parse st t).1 with
  | module arg =>
    simp only [derefS]
    have hs := runModule_sim cfg (fetch cfg parse st t).2.s arg F.sinv.inv
    rw [F.abs] at hs
    refine ⟨SInv_after _ _ F.sinv hs.ext hs.inv ?_, ?_⟩
    · intro hc k' c' hm; exact F.sinv.cc hc k' c' (hs.csub _ hm)
    · rw [hs.rout]
      simp [F.mod]
  | expr e =>
    simp only [derefS]
    have hvs : VE (fetch cfg parse st t).2.s.heap e := by
      have := F.vs; rw [hf] at this; exact this
    have hk : cfg.caches = true →
        (parse (key cfg st t).1 (key cfg st t).2).1 = .expr (derefE (fetch cfg parse st t).2.s.heap e) := by
      intro hc
      rw [F.key hc]
      have := F.tree; rw [hf] at this; simp only [derefS] at this
      exact this.symm
    obtain ⟨x, i, r, c⟩ := exprStep_spec cfg hA hg parse (key cfg st t) (fetch cfg parse st t).2.s e
      F.sinv.inv hvs F.sinv.cc hk
    rw [F.abs] at r
    refine ⟨SInv_after _ _ F.sinv x i c, ?_⟩
    have r1 := congrArg Prod.fst r
    have r2 := congrArg Prod.snd r
    simp only at r1 r2
    simp [r1, r2, F.mod]

/-! ### histories -/

theorem SInv_init (cfg : Cfg) (parse : Parse) : SInv cfg parse Interp.init := by
  refine ⟨⟨?_, ?_⟩, ?_, ?_⟩
  · intro f hf p hp
    simp [Interp.init] at hf
    subst hf
    simp at hp
  · intro _ e c h; simp [Interp.init] at h
  · intro _ k tree m h; simp [Interp.init] at h
  · intro _ k c h; simp [Interp.init] at h

theorem abs_init : abs Interp.init = Ref.init := rfl

theorem trace_sim (cfg : Cfg) (hGood : cfg.Good) (parse : Parse) :
    ∀ (ts : List Text) (st : State), SInv cfg parse st →
      Interp.trace cfg parse st ts = Ref.trace parse (abs st) ts := by
  intro ts
  induction ts with
  | nil => intro st _; rfl
  | cons t ts ih =>
    intro st h
    obtain ⟨i, e⟩ := step_sim cfg hGood parse st t h
    have e1 := congrArg Prod.fst e
    have e2 := congrArg Prod.snd e
    simp only at e1 e2
    simp only [Interp.trace, Interp.stepObs, Ref.trace]
    rw [ih _ i, e1, e2]

theorem run_SInv (cfg : Cfg) (hGood : cfg.Good) (parse : Parse) :
    ∀ (ts : List Text) (st : State), SInv cfg parse st → SInv cfg parse (Interp.run cfg parse st ts).1 := by
  intro ts
  induction ts with
  | nil => intro st h; exact h
  | cons t ts ih =>
    intro st h
    simp only [Interp.run]
    exact ih _ (step_sim cfg hGood parse st t h).1

/-! ### a fresh interpreter loaded with a copy of the variable state -/

theorem loadHV_spec (v : RV) (h : Heap) :
    HExt h (loadHV v h).2 ∧ VHV (loadHV v h).2 (loadHV v h).1 ∧ absHV (loadHV v h).2 (loadHV v h).1 = v := by
  cases v with
  | val w =>
    by_cases ha : isArr w = true
    · simp only [loadHV, ha, if_true]
      exact ⟨HExt.cons _ _, by simp [VHV], by simp [absHV, derefAt_new]⟩
    · simp only [loadHV, ha]
      exact ⟨HExt.refl _, trivial, rfl⟩
  | dict r => exact ⟨HExt.refl _, trivial, rfl⟩
  | fn b =>
    obtain ⟨x, v, d⟩ := internE_spec b h
    simp only [loadHV]
    exact ⟨x, v, by simp [absHV, d]⟩

theorem loadBinds_spec (bs : List (QName × RV)) : ∀ h : Heap,
    HExt h (loadBinds bs h).2 ∧ VB (loadBinds bs h).2 (loadBinds bs h).1 ∧
    (loadBinds bs h).1.map (fun p => (p.1, absHV (loadBinds bs h).2 p.2)) = bs := by
  induction bs with
  | nil => intro h; exact ⟨HExt.refl _, fun p hp => by simp [loadBinds] at hp, rfl⟩
  | cons p bs ih =>
    intro h
    obtain ⟨q, v⟩ := p
    obtain ⟨x1, v1, a1⟩ := loadHV_spec v h
    obtain ⟨x2, v2, a2⟩ := ih (loadHV v h).2
    simp only [loadBinds]
    refine ⟨x1.trans x2, ?_, ?_⟩
    · intro p hp
      simp at hp
      rcases hp with hp | hp
      · subst hp; exact VHV_of_ext x2 _ v1
      · exact v2 p hp
    · simp only [List.map_cons, a2, absHV_of_ext x2 _ v1, a1]

theorem loadFrames_spec (fs : List (Frame RV)) : ∀ h : Heap,
    HExt h (loadFrames fs h).2 ∧ VF (loadFrames fs h).2 (loadFrames fs h).1 ∧
    mapFrames (absHV (loadFrames fs h).2) (loadFrames fs h).1 = fs := by
  induction fs with
  | nil => intro h; exact ⟨HExt.refl _, fun f hf => by simp [loadFrames] at hf, rfl⟩
  | cons f fs ih =>
    intro h
    obtain ⟨x1, v1, a1⟩ := loadBinds_spec f.binds h
    obtain ⟨x2, v2, a2⟩ := ih (loadBinds f.binds h).2
    simp only [loadFrames]
    refine ⟨x1.trans x2, ?_, ?_⟩
    · intro f' hf'
      simp at hf'
      rcases hf' with hf' | hf'
      · subst hf'; exact fun p hp => VHV_of_ext x2 _ (v1 p hp)
      · exact v2 f' hf'
    · simp only [mapFrames, List.map_cons] at a2 ⊢
      rw [a2]
      congr 1
      have : (loadBinds f.binds h).1.map (fun p => (p.1, absHV (loadFrames fs (loadBinds f.binds h).2).2 p.2)) =
          (loadBinds f.binds h).1.map (fun p => (p.1, absHV (loadBinds f.binds h).2 p.2)) := by
        apply List.map_congr_left
        intro p hp
        rw [absHV_of_ext x2 _ (v1 p hp)]
      rw [this, a1]

theorem load_spec (cfg : Cfg) (parse : Parse) (r : Ref.State) :
    SInv cfg parse (Interp.load r) ∧ abs (Interp.load r) = r := by
  obtain ⟨_, v, a⟩ := loadFrames_spec r.s.frames []
  refine ⟨⟨⟨v, ?_⟩, ?_, ?_⟩, ?_⟩
  · intro _ e c h; simp [Interp.load] at h
  · intro _ k tree m h; simp [Interp.load] at h
  · intro _ k c h; simp [Interp.load] at h
  · simp only [abs, absS, Interp.load, a]

/-! ### the heap is append-only at the statement level -/


theorem topCompiled_cases (cfg : Cfg) (k : Text × Option Nat) (s : S) (e : Expr HLit) :
    topCompiled cfg k s e = (none, (topCode cfg k s e).2) ∨
    (∃ hv, topCompiled cfg k s e = (some (hv, (topCode cfg k s e).2), (topCode cfg k s e).2)) ∨
    (∃ w, topCompiled cfg k s e = (some (allocV (topCode cfg k s e).2 w), (topCode cfg k s e).2)) := by
  cases hm : (topCode cfg k s e).1 with
  | none => left; simp [topCompiled, hm]
  | some c =>
    cases hr : runCode cfg (topCode cfg k s e).2 c with
    | none => left; simp [topCompiled, hm, hr]
    | some w =>
      right
      cases c with
      | var q =>
        cases hlq : lookup (topCode cfg k s e).2.frames q with
        | none => right; exact ⟨w, by simp [topCompiled, hm, hr, CExpr.vars, hlq]⟩
        | some hv => left; exact ⟨hv, by simp [topCompiled, hm, hr, CExpr.vars, hlq]⟩
      | lit n => right; exact ⟨w, by simp [topCompiled, hm, hr]⟩
      | bin o a b => right; exact ⟨w, by simp [topCompiled, hm, hr]⟩
      | red o a => right; exact ⟨w, by simp [topCompiled, hm, hr]⟩
      | scn o a => right; exact ⟨w, by simp [topCompiled, hm, hr]⟩

theorem exprStep_ext (cfg : Cfg) (hA : cfg.amendInPlace = false) (k : Text × Option Nat) (s : S) (e : Expr HLit) :
    HExt s.heap (exprStep cfg k s e).2.heap := by
  have t1 := (topCode_same cfg k s e).1
  have hx : HExt s.heap (topCode cfg k s e).2.heap := by rw [t1]; exact HExt.refl _
  rcases topCompiled_cases cfg k s e with h | ⟨hv, h⟩ | ⟨w, h⟩
  · simp only [exprStep, h]
    exact hx.trans (evalN_ext cfg hA _ e _)
  · simp only [exprStep, h]; exact hx
  · simp only [exprStep, h]
    exact hx.trans (allocV_ext _ _)

theorem fetch_ext (cfg : Cfg) (parse : Parse) (st : State) (t : Text) :
    HExt st.s.heap (fetch cfg parse st t).2.s.heap := by
  have miss : HExt st.s.heap (fetchMiss cfg parse st t).2.s.heap := (internS_spec _ _).1
  unfold fetch
  split
  · split
    · exact HExt.refl _
    · exact miss
  · exact miss

theorem runModule_ext (s : S) (arg : Option QName) : HExt s.heap (Interp.runModule s arg).2.heap := by
  cases arg with
  | none => exact HExt.refl _
  | some q =>
    simp only [Interp.runModule]
    have := evalVar_heap s q
    rcases he : Interp.evalVar s q with ⟨r, s1⟩
    rw [he] at this
    simp only at this
    cases r with
    | ok hv =>
      simp only
      split <;> (rw [← this]; exact HExt.refl _)
    | err => rw [← this]; exact HExt.refl _
    | unm => rw [← this]; exact HExt.refl _

theorem step_ext (cfg : Cfg) (hA : cfg.amendInPlace = false) (parse : Parse) (st : State) (t : Text) :
    HExt st.s.heap (Interp.step cfg parse st t).1.s.heap := by
  have hf := fetch_ext cfg parse st t
  simp only [Interp.step]
  split
  · exact hf.trans (exprStep_ext cfg hA _ _ _)
  · exact hf.trans (runModule_ext _ _)

/-! ## the property theorems -/

/-- `compiled ≡ interpreted on the admissible domain` (hypothesis (ii) of `caches_unobservable`,
    C05's property) holds of this model: whenever generated code runs on admissible operands
    and returns, one interpreter step of `Ref` on the same node returns the same value and
    changes nothing. -/
theorem compiled_agrees_on_admissible (callee : Expr V → Ref.S → Res RV × Ref.S) (t : Ref.S) (e : Expr V)
    (c : CExpr) (v : V) (hc : compileWith litInt e = some c)
    (ha : varsAdmissible (renv t) c = true) (hp : pyEval (renv t) c = some v) :
    Ref.evalWith callee e t = (.ok (.val v), t) := by
  have hir : toIR litInt e = some c := by
    unfold compileWith at hc
    cases ht : toIR litInt e with
    | none => simp [ht] at hc
    | some c' =>
      simp only [ht] at hc
      split at hc
      · simp at hc
      · simp at hc; rw [hc]
  have hvars : ∀ q ∈ c.vars, ∃ w, renv t q = some w ∧ admissible w = true := by
    intro q hq
    unfold varsAdmissible at ha
    have := (List.all_eq_true.mp ha) q hq
    cases hw : renv t q with
    | none => simp [hw] at this
    | some w => simp [hw] at this; exact ⟨w, rfl, this⟩
  exact (pyEval_sound callee t e c v hir hvars hp).1

/-- **value semantics**: for every `Good` configuration, every parse function and every
    history, the heap machine (arrays as heap cells, views, caches) and the by-value,
    cache-free machine produce the same outcomes and the same variable states. -/
theorem value_semantics (cfg : Cfg) (hGood : cfg.Good) (parse : Parse) (ts : List Text) :
    Interp.trace cfg parse Interp.init ts = Ref.trace parse Ref.init ts := by
  rw [trace_sim cfg hGood parse ts Interp.init (SInv_init cfg parse), abs_init]

/-- **caches are unobservable**: for every history of statements the cached machine (parse
    cache under (text, module) replaying the module switch, compiled cache, per-node memo,
    operand check at every compiled call) and the cache-free machine produce the same outcomes
    and variable states — for ANY `parse`, i.e. given only that parsing is a function of
    (text, module) whose one effect is the module it returns. -/
theorem caches_unobservable (parse : Parse) (ts : List Text) :
    Interp.trace Cfg.repaired parse Interp.init ts = Interp.trace Cfg.noCache parse Interp.init ts := by
  rw [value_semantics Cfg.repaired (by decide) parse ts, value_semantics Cfg.noCache (by decide) parse ts]

/-- **no verb writes its argument**: in every configuration without the in-place mutant
    (the pinned one included), from every state, a statement only allocates: the old heap is a
    suffix of the new one, so every cell reachable from a variable or from a cached tree keeps
    its contents. -/
theorem no_verb_writes_its_argument (cfg : Cfg) (hA : cfg.amendInPlace = false) (parse : Parse)
    (st : State) (t : Text) :
    (∃ new, (Interp.step cfg parse st t).1.s.heap = new ++ st.s.heap) ∧
    ∀ a, a < st.s.heap.length → derefAt (Interp.step cfg parse st t).1.s.heap a = derefAt st.s.heap a := by
  obtain ⟨new, hn⟩ := step_ext cfg hA parse st t
  exact ⟨⟨new, hn⟩, fun a ha => by rw [hn, derefAt_append _ _ _ ha]⟩

/-- **the statement-level form of the property**: after any history, a statement run in the
    interpreter that has the history behind it and the same statement run in a fresh
    interpreter loaded with a copy of the variable state give the same outcome and the same
    variable state. -/
theorem rerun_in_fresh_interpreter (cfg : Cfg) (hGood : cfg.Good) (parse : Parse) (hist : List Text) (t : Text) :
    (Interp.stepObs cfg parse (Interp.run cfg parse Interp.init hist).1 t).2 =
    (Interp.stepObs cfg parse (Interp.load (abs (Interp.run cfg parse Interp.init hist).1)) t).2 := by
  have h1 := run_SInv cfg hGood parse hist Interp.init (SInv_init cfg parse)
  obtain ⟨h2, a2⟩ := load_spec cfg parse (abs (Interp.run cfg parse Interp.init hist).1)
  have e1 := (step_sim cfg hGood parse _ t h1).2
  have e2 := (step_sim cfg hGood parse _ t h2).2
  rw [a2] at e2
  simp only [Interp.stepObs]
  rw [e1, e2]


/-! ### non-vacuity -/

example : Cfg.repaired.Good := by decide
example : Cfg.noCache.Good := by decide
example : ¬ Cfg.pinned.Good := by decide

namespace Witness
def a_ : QName := ⟨0, none⟩
def b_ : QName := ⟨1, none⟩
def c_ : QName := ⟨2, none⟩
def f_ : QName := ⟨4, none⟩
def m1 : QName := ⟨8, none⟩

/-- `a::[1 2 3 4]`  `b::1_a`  `c::b:=9,0`  `f::{x,[7 7]}`  `c::f(a)`  `a`  `b::a+a`  `a+a`  -/
def histViews : List Text :=
  [.expr (.assign a_ (.lit (.ints [1, 2, 3, 4]))),
   .expr (.assign b_ (.op2 .drop (.lit (.int 1)) (.var a_))),
   .expr (.assign c_ (.op2 .amend (.var b_) (.op2 .join (.lit (.int 9)) (.lit (.int 0))))),
   .expr (.assign f_ (.fn (.op2 .join (.var xName) (.lit (.ints [7, 7]))))),
   .expr (.assign c_ (.call f_ (.var a_))),
   .expr (.var a_),
   .expr (.assign b_ (.op2 (.arith .plus) (.var a_) (.var a_))),
   .expr (.op2 (.arith .plus) (.var a_) (.var a_))]

/-- a non-trivial history on which the theorems say something: views, an amended view, a
    function with an array literal, compiled arithmetic — the final value of `b` is `[2 4 6 8]`
    and `a` is still `[1 2 3 4]` -/
example : (Ref.trace parseQ Ref.init histViews).map (·.1) =
    [.ok (.val (.ints [1, 2, 3, 4])), .ok (.val (.ints [2, 3, 4])), .ok (.val (.ints [9, 3, 4])), .ok (.fn (.op2 .join (.var xName) (.lit (.ints [7, 7])))),
     .ok (.val (.ints [1, 2, 3, 4, 7, 7])), .ok (.val (.ints [1, 2, 3, 4])), .ok (.val (.ints [2, 4, 6, 8])),
     .ok (.val (.ints [2, 4, 6, 8]))] := by decide +kernel

example : Interp.trace Cfg.repaired parseQ Interp.init histViews = Ref.trace parseQ Ref.init histViews := by
  decide +kernel

/-- the second statement of `histViews` really creates a view cell, the third fresh ones (`9,0` and the amended copy) -/
example : (Interp.run Cfg.repaired parseQ Interp.init (histViews.take 3)).1.s.heap =
    [.base (.ints [9, 3, 4]), .base (.ints [9, 0]), .view 0 (.slice 1 4), .base (.ints [1, 2, 3, 4])] := by decide +kernel

/-- `.module(:m1)`  `.module(0)`  `.module(:m1)`  `b::2` -/
def histModule : List Text :=
  [.module (some m1), .module none, .module (some m1), .expr (.assign b_ (.lit (.int 2)))]

def timesA2 : Expr V := .op2 (.arith .times) (.var a_) (.lit (.int 2))

/-- `a::3`  `b::a*2`  `a::"ab"`  `b::a*2` -/
def histStale : List Text :=
  [.expr (.assign a_ (.lit (.int 3))), .expr (.assign b_ timesA2),
   .expr (.assign a_ (.lit (.str [97, 98]))), .expr (.assign b_ timesA2)]

/-- `a::[1 2 3]`  `b::a`  `c::b:=9,0`  `a`  `a::[1 2 3]` -/
def histAmend : List Text :=
  [.expr (.assign a_ (.lit (.ints [1, 2, 3]))), .expr (.assign b_ (.var a_)),
   .expr (.assign c_ (.op2 .amend (.var b_) (.op2 .join (.lit (.int 9)) (.lit (.int 0))))),
   .expr (.var a_), .expr (.assign a_ (.lit (.ints [1, 2, 3])))]

/-- `a::5`  `.module(:m1)`  `a::5`  `.module(0)` -/
def histKey : List Text :=
  [.expr (.assign a_ (.lit (.int 5))), .module (some m1), .expr (.assign a_ (.lit (.int 5))), .module none]

def Cfg.amendMutant : Cfg := { Cfg.repaired with amendInPlace := true }
def Cfg.keyMutant : Cfg := { Cfg.repaired with keyModule := false }
def Cfg.noClearPinned : Cfg := { Cfg.pinned with clearOnAssign := false }
def Cfg.noClearRepaired : Cfg := { Cfg.repaired with clearOnAssign := false }
end Witness

open Witness

/-- **finding (pinned tree)**: a cached parse skips the `parse_module` side effect. In one
    interpreter `.module(:m1)` `.module(0)` `.module(:m1)` leaves the parse-time module unset
    at the third statement, and the definition that follows lands in the wrong place: the
    history is NOT indistinguishable from the cache-free machine. -/
theorem pinned_parse_cache_skips_module :
    Interp.trace Cfg.pinned parseQ Interp.init histModule ≠ Ref.trace parseQ Ref.init histModule := by
  decide +kernel

/-- the observable consequence: with the pinned cache `b::2` creates the global `b`, in a
    fresh (or repaired) interpreter it creates "b`m1" -/
example : ((Interp.trace Cfg.pinned parseQ Interp.init histModule).getLast?.map
      (fun o => ((snapshot o.2.s.frames).map (·.1), o.2.module))) =
    some ([⟨1, none⟩, ⟨7, none⟩, ⟨8, none⟩], none) := by decide +kernel
example : ((Interp.trace Cfg.repaired parseQ Interp.init histModule).getLast?.map
      (fun o => ((snapshot o.2.s.frames).map (·.1), o.2.module))) =
    some ([⟨1, some 8⟩, ⟨7, none⟩, ⟨8, none⟩], some 8) := by decide +kernel

/-- **finding (pinned tree)**: compiled code memoised on a shared node is trusted for ever.
    After `a` is rebound to a string the stale code runs Python's `str*int`: `b` becomes
    "abab" where a fresh interpreter raises. -/
theorem pinned_stale_compiled_code :
    Interp.trace Cfg.pinned parseQ Interp.init histStale ≠ Ref.trace parseQ Ref.init histStale := by
  decide +kernel

example : ((Interp.trace Cfg.pinned parseQ Interp.init histStale).map (·.1)).getLast? =
    some (.ok (.val (.str [97, 98, 97, 98]))) := by decide +kernel
example : ((Ref.trace parseQ Ref.init histStale).map (·.1)).getLast? = some .err := by decide +kernel
example : Interp.trace Cfg.repaired parseQ Interp.init histStale = Ref.trace parseQ Ref.init histStale := by
  decide +kernel

/-- **mutant**: Amend writing into its argument (no clone) is observable — through the alias
    `b::a` and through the array literal stored in the cached tree of `a::[1 2 3]`. -/
theorem mutant_amend_in_place_observable :
    Interp.trace Cfg.amendMutant parseQ Interp.init histAmend ≠ Ref.trace parseQ Ref.init histAmend := by
  decide +kernel

example : ((Interp.trace Cfg.amendMutant parseQ Interp.init histAmend).map (·.1)).getLast? =
    some (.ok (.val (.ints [9, 2, 3]))) := by decide +kernel

/-- **mutant**: the parse cache keyed by the text alone re-uses a tree parsed in another
    module (`a::5` inside `m1` assigns the global `a`). -/
theorem mutant_cache_keyed_by_text_observable :
    Interp.trace Cfg.keyMutant parseQ Interp.init histKey ≠ Ref.trace parseQ Ref.init histKey := by
  decide +kernel

/-- with the operand check at every call, whether `__setitem__` clears the compiled cache is
    unobservable (`Good` does not mention `clearOnAssign`) … -/
example : Cfg.noClearRepaired.Good := by decide
/-- … but on the pinned tree it is what keeps `a*2` at top level honest -/
example : Interp.trace Cfg.noClearPinned parseQ Interp.init
      [.expr (.assign a_ (.lit (.int 3))), .expr timesA2, .expr (.assign a_ (.lit (.str [97, 98]))), .expr timesA2] ≠
    Ref.trace parseQ Ref.init
      [.expr (.assign a_ (.lit (.int 3))), .expr timesA2, .expr (.assign a_ (.lit (.str [97, 98]))), .expr timesA2] := by
  decide +kernel

/-- non-vacuity of `no_verb_writes_its_argument` and `rerun_in_fresh_interpreter` -/
example : (Interp.step Cfg.pinned parseQ (Interp.run Cfg.pinned parseQ Interp.init (histViews.take 2)).1
      (.expr (.assign c_ (.op2 .amend (.var b_) (.op2 .join (.lit (.int 9)) (.lit (.int 0))))))).1.s.heap =
    [.base (.ints [9, 3, 4]), .base (.ints [9, 0])] ++ (Interp.run Cfg.pinned parseQ Interp.init (histViews.take 2)).1.s.heap := by
  decide +kernel

example : (Interp.stepObs Cfg.repaired parseQ (Interp.run Cfg.repaired parseQ Interp.init (histViews.take 5)).1
      (.expr (.call f_ (.var b_)))).2.1 = .ok (.val (.ints [2, 3, 4, 7, 7])) := by decide +kernel

end Klong.C04
