/-
  C17 — the repaired write path, outright.

  `Klong.Props.C17` proves crash safety for every *well-formed* trace; well-formedness of a
  concrete recorded trace is a per-run kernel obligation.  This file removes the hypothesis for
  the model of the repaired `_write_file` (skeleton `skFixed`, extracted from the AST on every
  run and compared with `skFixed` by the kernel): for EVERY sequence of sets — any length, any
  values, any io buffer size, keys that are not path prefixes of each other — the generated trace
  is well-formed under the strict variant, hence crash safe.
-/
import Klong.Props.C17
namespace Klong.C17
open Klong.Wire

/-- `l` is a chain of directories each the parent of the next, starting below `base` -/
def ChainFrom (base : Path) : List Path → Prop
  | [] => True
  | a :: as => parent a = base ∧ a.length = base.length + 1 ∧ ChainFrom a as

theorem chain_map_cons (x : Nat) : ∀ (l : List Path) (b : Path), ChainFrom b l →
    ChainFrom (x :: b) (l.map (x :: ·)) := by
  intro l
  induction l with
  | nil => intro b _; trivial
  | cons a as ih =>
    intro b h
    obtain ⟨h1, h2, h3⟩ := h
    have hne : a ≠ [] := by intro e; simp [e] at h2
    refine ⟨?_, by simp [h2], ih a h3⟩
    simp only [parent] at h1 ⊢
    rw [List.dropLast_cons_of_ne_nil hne, h1]

theorem chain_ancestors : ∀ (k : Path), k ≠ [] → ChainFrom [] (ancestors k ++ [k])
  | [], h => absurd rfl h
  | [x], _ => by simp [ancestors, ChainFrom, parent]
  | x :: y :: rest, _ => by
    have ih := chain_ancestors (y :: rest) (by simp)
    have := chain_map_cons x _ _ ih
    simp only [ancestors, List.cons_append, ChainFrom]
    refine ⟨by simp [parent], by simp, ?_⟩
    simpa using this

theorem chain_len : ∀ (l : List Path) (base : Path), ChainFrom base l → ∀ b ∈ l, base.length < b.length := by
  intro l
  induction l with
  | nil => intro _ _ b hb; cases hb
  | cons a as ih =>
    intro base h b hb
    obtain ⟨_, h2, h3⟩ := h
    cases hb with
    | head => omega
    | tail _ hb' => have := ih a h3 b hb'; omega

theorem run_append (v : Variant) (s : St) (a b : List Op) : run v s (a ++ b) = run v (run v s a) b := by
  simp [run, List.foldl_append]

/-- file-system operations do not touch the ghost fields -/
theorem fs_of_begin (v : Variant) (s : St) (k : Path) (val : Bytes) : (step v s (.begin k val)).fs = s.fs := rfl

def mkdirOps (fs : Fs) (k : Path) : List Op := ((ancestors k).filter fun a => !fs.isDir a).map Op.mkdir
def writeOps (k : Path) (val : Bytes) : List Op := if val.isEmpty then [] else [.write k val]

theorem isDir_mkdirs (v : Variant) : ∀ (l : List Path) (s : St),
    (run v s (l.map Op.mkdir)).fs = { s.fs with vdirs := l.reverse ++ s.fs.vdirs } := by
  intro l
  induction l with
  | nil => intro s; simp [run]
  | cons a as ih =>
    intro s
    simp only [List.map_cons, run, List.foldl_cons] at ih ⊢
    rw [ih]
    simp [step, Fs.step, scratchStep]

/-- closed form of the repaired `_write_file` skeleton -/
theorem setOps_fixed (rl : Option Nat) (b : Nat) (s : St) (k : Path) (val : Bytes) :
    setOps .strict (skFixedOf rl) true b s k val =
      [.begin k val] ++ mkdirOps s.fs k ++ [.creatTrunc k] ++ writeOps k val ++
      [.fsyncFile k, .close k] ++ (newParents rl s.fs k).map Op.fsyncDir ++ [.ret] := by
  simp only [setOps, skFixedOf, List.foldl_cons, List.foldl_nil, skStep, SkSt.emit, Bool.not_true, Bool.false_or,
    if_true, List.nil_append, mkdirOps, writeOps]
  by_cases hfit : val.length ≤ b
  · by_cases he : val = []
    · subst he
      simp [SkSt.flush, SkSt.emit, run, step]
    · simp [hfit, SkSt.flush, SkSt.emit, he, run, step]
  · have he : val ≠ [] := by intro e; simp [e] at hfit
    simp [hfit, SkSt.flush, SkSt.emit, he, run, step]

def okRun (v : Variant) (s : St) : List Op → Bool
  | [] => true
  | op :: tr => ok s op && okRun v (step v s op) tr

theorem runWF_eq (v : Variant) : ∀ (tr : List Op) (s : St),
    runWF v s tr = if okRun v s tr then some (run v s tr) else none := by
  intro tr
  induction tr with
  | nil => intro s; simp [runWF, okRun, run]
  | cons op tr ih =>
    intro s
    simp only [runWF, okRun, run, List.foldl_cons]
    by_cases h : ok s op = true
    · simp [h, ih, run]
    · simp [h]

theorem okRun_append (v : Variant) : ∀ (a b : List Op) (s : St),
    okRun v s (a ++ b) = (okRun v s a && okRun v (run v s a) b) := by
  intro a
  induction a with
  | nil => intro b s; simp [okRun, run]
  | cons op a ih => intro b s; simp [okRun, run, ih, Bool.and_assoc]

theorem run_fsyncDirs (v : Variant) : ∀ (L : List Path) (s : St),
    run v s (L.map Op.fsyncDir) =
      { s with fs := { s.fs with
          ddirs := (L.reverse.flatMap fun d => s.fs.vdirs.filter (fun p => parent p == d)) ++ s.fs.ddirs
          alt := s.fs.alt.filter (fun p => L.all fun d => parent p.1 != d) } } := by
  intro L
  induction L with
  | nil =>
    intro s
    have : s.fs.alt.filter (fun _ => true) = s.fs.alt := List.filter_eq_self.mpr (by simp)
    simp [run, this]
  | cons d L ih =>
    intro s
    simp only [List.map_cons, run, List.foldl_cons] at ih ⊢
    rw [ih]
    simp [step, Fs.step, scratchStep, List.flatMap_append, List.filter_filter, Bool.and_comm]

theorem okRun_fsyncDirs (v : Variant) : ∀ (L : List Path) (s : St), s.cur.isSome = true →
    (∀ d ∈ L, s.fs.isDir d = true) → okRun v s (L.map Op.fsyncDir) = true := by
  intro L
  induction L with
  | nil => intro s _ _; rfl
  | cons d L ih =>
    intro s hc hd
    simp only [List.map_cons, okRun, Bool.and_eq_true]
    refine ⟨by simp [ok, hc, hd d List.mem_cons_self], ih _ (by simpa [step] using hc) ?_⟩
    intro d' hd'
    have := hd d' (List.mem_cons_of_mem _ hd')
    simpa [step, Fs.step, Fs.isDir] using this

theorem run_mkdirs (v : Variant) : ∀ (l : List Path) (s : St),
    run v s (l.map Op.mkdir) = { s with fs := { s.fs with vdirs := l.reverse ++ s.fs.vdirs } } := by
  intro l
  induction l with
  | nil => intro s; simp [run]
  | cons a as ih =>
    intro s
    simp only [List.map_cons, run, List.foldl_cons] at ih ⊢
    rw [ih]
    simp [step, Fs.step, scratchStep]


theorem okRun_mkdirs (v : Variant) (k : Path) (val : Bytes) : ∀ (l : List Path) (base : Path) (s : St)
    (p : Path → Bool), s.cur = some (k, val) → ChainFrom base l → s.fs.isDir base = true →
    (∀ a ∈ l, a ∈ ancestors k) → (∀ a ∈ l, s.fs.isFile a = false) →
    (∀ a ∈ l, p a = !s.fs.isDir a) →
    okRun v s ((l.filter p).map Op.mkdir) = true := by
  intro l
  induction l with
  | nil => intro _ _ _ _ _ _ _ _ _; rfl
  | cons a as ih =>
    intro base s p hc hch hb hanc hfile hp
    obtain ⟨hpar, hlen, hrest⟩ := hch
    have hpa := hp a List.mem_cons_self
    by_cases hd : s.fs.isDir a = true
    · -- exists already: nothing to do for `a`
      have : p a = false := by simp [hpa, hd]
      simp only [List.filter_cons, this]
      exact ih a s p hc hrest hd (fun b hb' => hanc b (List.mem_cons_of_mem _ hb'))
        (fun b hb' => hfile b (List.mem_cons_of_mem _ hb')) (fun b hb' => hp b (List.mem_cons_of_mem _ hb'))
    · have hd' : s.fs.isDir a = false := by simpa using hd
      have : p a = true := by simp [hpa, hd']
      simp only [List.filter_cons, this, if_true, List.map_cons, okRun, Bool.and_eq_true]
      constructor
      · simp [ok, hc, hanc a List.mem_cons_self, hd', hfile a List.mem_cons_self, hpar, hb]
      · refine ih a _ p (by simpa [step] using hc) hrest (by simp [step, Fs.step, Fs.isDir]) 
          (fun b hb' => hanc b (List.mem_cons_of_mem _ hb')) ?_ ?_
        · intro b hb'
          simpa [step, Fs.step, Fs.isFile] using hfile b (List.mem_cons_of_mem _ hb')
        · intro b hb'
          have hne : b ≠ a := by
            intro e; have := chain_len as a hrest b hb'; simp [e] at this
          rw [hp b (List.mem_cons_of_mem _ hb')]
          simp [step, Fs.step, Fs.isDir, hne]


theorem mem_names_of_lookup {α : Type} (l : List (Path × α)) (k : Path) (x : α)
    (h : l.lookup k = some x) : k ∈ names l := by
  induction l with
  | nil => simp at h
  | cons p l ih =>
    obtain ⟨a, b⟩ := p
    rw [lookup_cons_ite] at h
    by_cases e : k = a
    · simp [names, e]
    · simp [e] at h; have := ih h; simp [names] at this ⊢; exact Or.inr this

theorem mem_names_setKV_fwd {α : Type} (l : List (Path × α)) (k f : Path) (x : α)
    (h : f ∈ names (setKV l k x)) : f = k ∨ f ∈ names l := by
  by_cases e : f = k
  · exact Or.inl e
  · exact Or.inr ((mem_names_setKV l k f x e).mp h)

/-- write + fsync + close of the value file, from the state right after `creatTrunc k` -/
theorem value_segment (t : St) (k : Path) (val : Bytes) (hc : t.cur = some (k, val))
    (ho : t.fs.opened = [k]) (hv : t.fs.vfiles.lookup k = some []) :
    ∃ V P, run .strict t (writeOps k val ++ [.fsyncFile k, .close k]) =
        { t with fs := { t.fs with vfiles := V, dcont := setKV t.fs.dcont k val, pend := setKV P k [], opened := [] } } ∧
      V.lookup k = some val ∧ k ∈ names V ∧ (∀ f ∈ names V, f = k ∨ f ∈ names t.fs.vfiles) ∧
      okRun .strict t (writeOps k val ++ [.fsyncFile k, .close k]) = true := by
  by_cases he : val = []
  · subst he
    refine ⟨t.fs.vfiles, t.fs.pend, ?_, hv, mem_names_of_lookup _ _ _ hv, fun f hf => Or.inr hf, ?_⟩
    · simp [writeOps, run, step, Fs.step, Fs.contOf, hv, ho, scratchStep]
    · simp [writeOps, okRun, ok, allowed, curKey, hc, ho, step, Fs.step]
  · refine ⟨setKV t.fs.vfiles k val, setKV t.fs.pend k (t.fs.pendOf k ++ [Eff.write 0 val]), ?_,
      lookup_setKV_same _ _ _, mem_names_setKV_self _ _ _, fun f hf => mem_names_setKV_fwd _ _ _ _ hf, ?_⟩
    · simp [writeOps, he, run, step, Fs.step, Fs.contOf, hv, ho, lookup_setKV_same, scratchStep]
    · simp [writeOps, he, okRun, ok, allowed, curKey, hc, ho, step, Fs.step]


theorem chain_prefix : ∀ (l1 l2 : List Path) (b : Path), ChainFrom b (l1 ++ l2) → ChainFrom b l1 := by
  intro l1
  induction l1 with
  | nil => intro _ _ _; trivial
  | cons a as ih => intro l2 b h; exact ⟨h.1, h.2.1, ih l2 a h.2.2⟩

theorem chain_parent : ∀ (A : List Path) (k base : Path), ChainFrom base (A ++ [k]) →
    ∀ x ∈ A ++ [k], parent x = base ∨ parent x ∈ A := by
  intro A
  induction A with
  | nil => intro k base h x hx; simp at hx; subst hx; exact Or.inl h.1
  | cons a A ih =>
    intro k base h x hx
    obtain ⟨h1, _, h3⟩ := h
    simp only [List.cons_append, List.mem_cons] at hx
    rcases hx with rfl | hx
    · exact Or.inl h1
    · rcases ih k a h3 x hx with e | e
      · exact Or.inr (e ▸ List.mem_cons_self)
      · exact Or.inr (List.mem_cons_of_mem _ e)

theorem creat_facts (t : St) (k : Path) (ho : t.fs.opened = []) (hck : curKey t = some k) :
    (step .strict t (.creatTrunc k)).cur = t.cur ∧ (step .strict t (.creatTrunc k)).done = t.done ∧
    (step .strict t (.creatTrunc k)).fs.vdirs = t.fs.vdirs ∧ (step .strict t (.creatTrunc k)).fs.ddirs = t.fs.ddirs ∧
    (step .strict t (.creatTrunc k)).fs.alt =
      (if t.fs.isFile k then t.fs.alt else setKV t.fs.alt k (fileChoices t.fs k)) ∧
    (step .strict t (.creatTrunc k)).fs.opened = [k] ∧
    (step .strict t (.creatTrunc k)).fs.vfiles = setKV t.fs.vfiles k [] ∧
    (step .strict t (.creatTrunc k)).scratch = t.scratch := by
  simp only [step, Fs.step, scratchStep, hck]
  split <;> simp [ho]

/-- the keys of a sequence of sets are usable together: none is empty, none is a directory on the
    path of another (or of itself) -/
def ValidKeys (K : List Path) : Prop := ∀ k ∈ K, k ≠ [] ∧ ∀ k' ∈ K, k ∉ ancestors k'

instance (K : List Path) : Decidable (ValidKeys K) := by unfold ValidKeys; exact inferInstance

/-- between sets: nothing in progress, nothing open, every directory entry durable, no pending
    file-entry update, no scratch path -/
structure Quiet (K : List Path) (s : St) : Prop where
  cur : s.cur = none
  opened : s.fs.opened = []
  dirsDur : ∀ d ∈ s.fs.vdirs, d ∈ s.fs.ddirs
  altNil : s.fs.alt = []
  dirsAnc : ∀ d ∈ s.fs.vdirs, ∃ k ∈ K, d ∈ ancestors k
  filesKeys : ∀ f ∈ names s.fs.vfiles, f ∈ K
  scratch : s.scratch = []

theorem set_ok (rl : Option Nat) (b : Nat) (K : List Path) (s : St) (k : Path) (val : Bytes)
    (hv : ValidKeys K) (hk : k ∈ K) (hq : Quiet K s) :
    okRun .strict s (setOps .strict (skFixedOf rl) true b s k val) = true ∧
    Quiet K (run .strict s (setOps .strict (skFixedOf rl) true b s k val)) := by
  rw [setOps_fixed]
  have hkne := (hv k hk).1
  have hself : k ∉ ancestors k := (hv k hk).2 k hk
  have hchain := chain_ancestors k hkne
  have hancne : ∀ a ∈ ancestors k, a ≠ [] := by
    intro a ha e
    have := chain_len _ _ hchain a (List.mem_append_left _ ha)
    simp [e] at this
  have hancfile : ∀ a ∈ ancestors k, s.fs.isFile a = false := by
    intro a ha
    cases h : s.fs.isFile a with
    | false => rfl
    | true =>
      have : a ∈ names s.fs.vfiles := by simpa [Fs.isFile] using h
      exact absurd ha ((hv a (hq.filesKeys a this)).2 k hk)
  have hknd : k ∉ s.fs.vdirs := by
    intro h
    obtain ⟨k', hk', ha⟩ := hq.dirsAnc k h
    exact (hv k hk).2 k' hk' ha
  -- state after `begin` and after the mkdirs
  let M := (ancestors k).filter (fun a => !s.fs.isDir a)
  let s1 : St := { s with cur := some (k, val) }
  let s2 : St := { s1 with fs := { s.fs with vdirs := M.reverse ++ s.fs.vdirs } }
  have hrun1 : run .strict s [.begin k val] = s1 := rfl
  have hrun2 : run .strict s1 (mkdirOps s.fs k) = s2 := by
    simp only [mkdirOps]; rw [run_mkdirs]
  have hok1 : okRun .strict s [.begin k val] = true := by
    simp [okRun, ok, hq.cur, hq.opened, hq.scratch, hkne, Fs.isDir, hknd]
    intro a ha
    simpa [Fs.isFile] using hancfile a ha
  have hok2 : okRun .strict s1 (mkdirOps s.fs k) = true :=
    okRun_mkdirs .strict k val (ancestors k) [] s1 (fun a => !s.fs.isDir a) rfl
      (chain_prefix _ _ _ hchain) (by simp [Fs.isDir]) (fun a h => h) hancfile (fun a _ => rfl)
  have hdir2 : ∀ a ∈ ancestors k, s2.fs.isDir a = true := by
    intro a ha
    cases h : s.fs.isDir a with
    | true =>
      have : a ∈ s.fs.vdirs := by simpa [Fs.isDir, hancne a ha] using h
      simp [s2, Fs.isDir, this]
    | false =>
      have : a ∈ M := by simp [M, ha, h]
      simp [s2, Fs.isDir, this]
  have hpar2 : ∀ x ∈ ancestors k ++ [k], s2.fs.isDir (parent x) = true := by
    intro x hx
    rcases chain_parent _ _ _ hchain x hx with e | e
    · simp [e, Fs.isDir]
    · exact hdir2 _ e
  -- creat
  let s3 := step .strict s2 (.creatTrunc k)
  obtain ⟨c3cur, c3done, c3vd, c3dd, c3alt, c3op, c3vf, c3scr⟩ := creat_facts s2 k hq.opened rfl
  have hok3 : okRun .strict s2 [.creatTrunc k] = true := by
    have hp := hpar2 k (by simp)
    have : k ∉ M := fun h => hself (List.mem_filter.mp h).1
    simp [okRun, ok, allowed, curKey, s2, s1, hq.opened, Fs.isDir, hkne, hknd, this] at hp ⊢
    exact hp
  -- value file
  obtain ⟨V, P, hrun5, hV, hkV, hVsub, hok5⟩ :=
    value_segment s3 k val (by rw [c3cur]) c3op (by rw [c3vf]; exact lookup_setKV_same _ _ _)
  let s5 : St := { s3 with fs := { s3.fs with vfiles := V, dcont := setKV s3.fs.dcont k val,
                                                pend := setKV P k [], opened := [] } }
  have hrun3 : run .strict s2 [.creatTrunc k] = s3 := rfl
  have hrun5' : run .strict s3 (writeOps k val ++ [.fsyncFile k, .close k]) = s5 := hrun5
  have h5vd : s5.fs.vdirs = M.reverse ++ s.fs.vdirs := c3vd
  have h5dd : s5.fs.ddirs = s.fs.ddirs := c3dd
  have h5alt : s5.fs.alt = if s.fs.isFile k then [] else [(k, fileChoices s2.fs k)] := by
    have : s5.fs.alt = (if s2.fs.isFile k then s2.fs.alt else setKV s2.fs.alt k (fileChoices s2.fs k)) := c3alt
    rw [this]
    simp [s2, s1, Fs.isFile, hq.altNil, setKV]
  have h5scr : s5.scratch = [] := by
    have : s5.scratch = s2.scratch := c3scr
    rw [this]; exact hq.scratch
  have h5cur : s5.cur = some (k, val) := c3cur
  have h3cur : s3.cur = some (k, val) := c3cur
  have hV3 : ∀ f ∈ names V, f = k ∨ f ∈ names s.fs.vfiles := by
    intro f hf
    rcases hVsub f hf with e | e
    · exact Or.inl e
    · rw [c3vf] at e; exact mem_names_setKV_fwd _ _ _ _ e
  let NP := newParents rl s.fs k
  have hNPmem : ∀ x, (x = k ∧ s.fs.isFile k = false) ∨ (x ∈ ancestors k ∧ s.fs.isDir x = false) → parent x ∈ NP := by
    intro x hx
    simp only [NP, newParents, List.mem_map]
    refine ⟨x, ?_, rfl⟩
    rcases hx with ⟨rfl, h⟩ | ⟨h1, h2⟩
    · simp [h]
    · simp [h1, h2]
  have hNPdir : ∀ d ∈ NP, s5.fs.isDir d = true := by
    intro d hd
    simp only [NP, newParents, List.mem_map] at hd
    obtain ⟨x, hx, rfl⟩ := hd
    have hx' : x ∈ ancestors k ++ [k] := by
      simp only [List.mem_append, List.mem_filter, List.mem_reverse] at hx ⊢
      rcases hx with h | h
      · right; split at h <;> simp_all
      · left; exact h.1
    have := hpar2 x hx'
    simpa [Fs.isDir, h5vd, s2] using this
  have hok6 := okRun_fsyncDirs .strict NP s5 (by simp [h5cur]) hNPdir
  have hrun6 := run_fsyncDirs .strict NP s5
  -- durability of the chain after the directory fsyncs
  have halt6 : s5.fs.alt.filter (fun p => NP.all fun d => parent p.1 != d) = [] := by
    rw [h5alt]
    cases h : s.fs.isFile k with
    | true => simp
    | false =>
      have hall : (NP.all fun d => parent k != d) = false :=
        List.all_eq_false.mpr ⟨parent k, hNPmem k (Or.inl ⟨rfl, h⟩), by simp⟩
      simp [List.filter_cons, hall]
  have hancd : ∀ a ∈ ancestors k,
      a ∈ (NP.reverse.flatMap fun d => s5.fs.vdirs.filter (fun p => parent p == d)) ++ s5.fs.ddirs := by
    intro a ha
    cases h : s.fs.isDir a with
    | true =>
      have : a ∈ s.fs.vdirs := by simpa [Fs.isDir, hancne a ha] using h
      exact List.mem_append_right _ (h5dd ▸ hq.dirsDur a this)
    | false =>
      refine List.mem_append_left _ (List.mem_flatMap.mpr ⟨parent a, ?_, ?_⟩)
      · exact List.mem_reverse.mpr (hNPmem a (Or.inr ⟨ha, h⟩))
      · have : a ∈ M := by simp [M, ha, h]
        simp [h5vd, this]
  have hlist : [Op.begin k val] ++ mkdirOps s.fs k ++ [.creatTrunc k] ++ writeOps k val ++
      [.fsyncFile k, .close k] ++ (newParents rl s.fs k).map Op.fsyncDir ++ [.ret] =
      [Op.begin k val] ++ (mkdirOps s.fs k ++ ([.creatTrunc k] ++ ((writeOps k val ++ [.fsyncFile k, .close k]) ++
        (NP.map Op.fsyncDir ++ [.ret])))) := by simp [NP, List.append_assoc]
  rw [hlist]
  simp only [okRun_append, run_append, hrun1, hrun2, hrun3, hrun5', hrun6, hok1, hok2, hok3, hok5, hok6, Bool.true_and]
  constructor
  · -- the return is well-formed: closed, full value, durable, no scratch left
    have hanc' : ∀ a ∈ ancestors k, a ∈ (NP.reverse.flatMap fun d => s5.fs.vdirs.filter (fun p => parent p == d)) ∨ a ∈ s5.fs.ddirs :=
      fun a ha => List.mem_append.mp (hancd a ha)
    simp only [okRun, ok, h5cur, durableAs, Fs.isFile, Fs.pendOf, Fs.altOf, halt6, h5scr, Bool.and_true]
    simp [s5, hV, hkV, lookup_setKV_same] at hanc' ⊢
    exact hanc'
  · refine ⟨by simp [run, step, h5cur], by simp [run, step, h5cur]; simp [s5], ?_, ?_, ?_, ?_, by simp [run, step, h5cur]⟩
    · intro d hd
      have hd' : d ∈ M.reverse ++ s.fs.vdirs := by simpa [run, step, h5cur, h5vd] using hd
      have : d ∈ (NP.reverse.flatMap fun d => s5.fs.vdirs.filter (fun p => parent p == d)) ++ s5.fs.ddirs := by
        rcases List.mem_append.mp hd' with h | h
        · exact hancd d (List.mem_filter.mp (List.mem_reverse.mp h)).1
        · exact List.mem_append_right _ (h5dd ▸ hq.dirsDur d h)
      simpa [run, step, h5cur] using this
    · simpa [run, step, h5cur] using halt6
    · intro d hd
      have hd' : d ∈ M.reverse ++ s.fs.vdirs := by simpa [run, step, h5cur, h5vd] using hd
      rcases List.mem_append.mp hd' with h | h
      · exact ⟨k, hk, (List.mem_filter.mp (List.mem_reverse.mp h)).1⟩
      · exact hq.dirsAnc d h
    · intro f hf
      have hf' : f ∈ names V := by simpa [run, step, h5cur] using hf
      rcases hV3 f hf' with e | e
      · exact e ▸ hk
      · exact hq.filesKeys f e

theorem quiet_init (K : List Path) : Quiet K init := by
  refine ⟨rfl, rfl, ?_, rfl, ?_, ?_, rfl⟩ <;> intro x hx <;> simp [init, names] at hx

/-- every set of a valid key sequence, written by the repaired `_write_file`, is well-formed and
    leaves the store quiet again -/
theorem traceOf_fixed_ok (rl : Option Nat) (b : Nat) (K : List Path) (hv : ValidKeys K) :
    ∀ (sets : List (Path × Bytes)) (s : St), (∀ kv ∈ sets, kv.1 ∈ K) → Quiet K s →
      okRun .strict s (traceOf .strict (skFixedOf rl) true b s sets) = true := by
  intro sets
  induction sets with
  | nil => intro _ _ _; rfl
  | cons kv rest ih =>
    intro s hk hq
    obtain ⟨k, val⟩ := kv
    have h := set_ok rl b K s k val hv (hk (k, val) List.mem_cons_self) hq
    simp only [traceOf, okRun_append, h.1, Bool.true_and]
    exact ih _ (fun kv' h' => hk kv' (List.mem_cons_of_mem _ h')) h.2

/-- **The repaired write path is well-formed for every sequence of sets** (strict variant): any
    number of sets, any values, any io buffer size, keys not path prefixes of each other. -/
theorem fixed_write_path_wf (rl : Option Nat) (b : Nat) (sets : List (Path × Bytes)) (hv : ValidKeys (sets.map (·.1))) :
    WF .strict (traceOf .strict (skFixedOf rl) true b init sets) = true := by
  have := traceOf_fixed_ok rl b _ hv sets init (fun kv h => List.mem_map.mpr ⟨kv, h, rfl⟩) (quiet_init _)
  simp [WF, runWF_eq, this]

/-! ### the in-place write path has no scratch files -/

/-- the trace creates files only at the key of the set in progress -/
def inPlace : Option Path → List Op → Bool
  | _, [] => true
  | _, .begin k _ :: tr => inPlace (some k) tr
  | _, .ret :: tr => inPlace none tr
  | c, .creatTrunc f :: tr => c == some f && inPlace c tr
  | c, .mkdir _ :: tr => inPlace c tr
  | c, .write _ _ :: tr => inPlace c tr
  | c, .fsyncFile _ :: tr => inPlace c tr
  | c, .fsyncDir _ :: tr => inPlace c tr
  | c, .close _ :: tr => inPlace c tr
  | c, .rename _ _ :: tr => inPlace c tr
  | c, .unlink _ :: tr => inPlace c tr
  | _, .kill :: _ => false

def neutral : Op → Bool
  | .begin _ _ => false
  | .ret => false
  | .creatTrunc _ => false
  | .kill => false
  | _ => true

theorem ghost_scratch_inPlace : ∀ (tr : List Op) (g : Ghost), g.scratch = [] → g.dirty = [] →
    inPlace (g.cur.map (·.1)) tr = true → (ghost g tr).scratch = [] ∧ (ghost g tr).dirty = [] := by
  intro tr
  induction tr with
  | nil => intro g h hd _; exact ⟨h, hd⟩
  | cons op tr ih =>
    intro g h hd hin
    simp only [ghost, List.foldl_cons] at ih ⊢
    cases op with
    | begin k v => exact ih _ (by simpa [ghostStep] using h) (by simpa [ghostStep] using hd) (by simpa [ghostStep, inPlace] using hin)
    | ret =>
      cases hc : g.cur with
      | none => exact ih _ (by simp [ghostStep, hc]) (by simpa [ghostStep, hc] using hd) (by simpa [ghostStep, hc, inPlace] using hin)
      | some kv => exact ih _ (by simp [ghostStep, hc]) (by simp [ghostStep, hc, hd]) (by simpa [ghostStep, hc, inPlace] using hin)
    | kill => simp [inPlace] at hin
    | creatTrunc f =>
      simp only [inPlace, Bool.and_eq_true] at hin
      refine ih _ ?_ (by simpa [ghostStep] using hd) (by simpa [ghostStep] using hin.2)
      simp [ghostStep, scratchStep, h, hin.1]
    | mkdir d => exact ih _ (by simpa [ghostStep, scratchStep] using h) (by simpa [ghostStep] using hd) (by simpa [ghostStep, inPlace] using hin)
    | write f d => exact ih _ (by simpa [ghostStep, scratchStep] using h) (by simpa [ghostStep] using hd) (by simpa [ghostStep, inPlace] using hin)
    | fsyncFile f => exact ih _ (by simpa [ghostStep, scratchStep] using h) (by simpa [ghostStep] using hd) (by simpa [ghostStep, inPlace] using hin)
    | fsyncDir d => exact ih _ (by simpa [ghostStep, scratchStep] using h) (by simpa [ghostStep] using hd) (by simpa [ghostStep, inPlace] using hin)
    | close f => exact ih _ (by simpa [ghostStep, scratchStep] using h) (by simpa [ghostStep] using hd) (by simpa [ghostStep, inPlace] using hin)
    | rename a b => exact ih _ (by simpa [ghostStep, scratchStep] using h) (by simpa [ghostStep] using hd) (by simpa [ghostStep, inPlace] using hin)
    | unlink f => exact ih _ (by simpa [ghostStep, scratchStep] using h) (by simpa [ghostStep] using hd) (by simpa [ghostStep, inPlace] using hin)

theorem inPlace_prefix : ∀ (a b : List Op) (c : Option Path), inPlace c (a ++ b) = true → inPlace c a = true := by
  intro a
  induction a with
  | nil => intro _ _ _; rfl
  | cons op a ih =>
    intro b c h
    cases op <;> simp only [List.cons_append, inPlace, Bool.and_eq_true] at h ⊢
    case creatTrunc f => exact ⟨h.1, ih b c h.2⟩
    case kill => exact absurd h (by simp)
    all_goals exact ih b _ h

theorem inPlace_neutral : ∀ (l r : List Op) (c : Option Path), l.all neutral = true →
    inPlace c (l ++ r) = inPlace c r := by
  intro l
  induction l with
  | nil => intro _ _ _; rfl
  | cons op l ih =>
    intro r c h
    simp only [List.all_cons, Bool.and_eq_true] at h
    cases op <;> simp only [neutral] at h <;> simp only [List.cons_append, inPlace] <;> first
      | exact ih r c h.2
      | exact absurd h.1 (by simp)

theorem inPlace_setOps_fixed (rl : Option Nat) (b : Nat) (s : St) (k : Path) (val : Bytes) (rest : List Op) (c : Option Path) :
    inPlace c (setOps .strict (skFixedOf rl) true b s k val ++ rest) = inPlace none rest := by
  rw [setOps_fixed]
  have hmk : (mkdirOps s.fs k).all neutral = true := by simp [mkdirOps, List.all_map, neutral]
  have hwr : (writeOps k val).all neutral = true := by
    simp only [writeOps]; split <;> simp [neutral]
  have hfd : ((newParents rl s.fs k).map Op.fsyncDir).all neutral = true := by simp [List.all_map, neutral]
  simp only [List.append_assoc, List.cons_append, List.nil_append, inPlace]
  rw [inPlace_neutral _ _ _ hmk]
  simp only [inPlace, beq_self_eq_true, Bool.true_and]
  rw [inPlace_neutral _ _ _ hwr]
  simp only [inPlace]
  rw [inPlace_neutral _ _ _ hfd]
  simp only [inPlace]

theorem inPlace_traceOf_fixed (rl : Option Nat) (b : Nat) : ∀ (sets : List (Path × Bytes)) (s : St) (c : Option Path),
    inPlace c (traceOf .strict (skFixedOf rl) true b s sets) = true := by
  intro sets
  induction sets with
  | nil => intro _ _; rfl
  | cons kv rest ih =>
    intro s c
    obtain ⟨k, val⟩ := kv
    simp only [traceOf]
    rw [inPlace_setOps_fixed]
    exact ih _ none

/-- no prefix of a trace of the repaired (in-place) write path has scratch files or killed sets -/
theorem scratchOf_fixed (rl : Option Nat) (b : Nat) (sets : List (Path × Bytes)) (pre suf : List Op)
    (htr : traceOf .strict (skFixedOf rl) true b init sets = pre ++ suf) : scratchOf pre = [] ∧ dirtyOf pre = [] := by
  have h := inPlace_traceOf_fixed rl b sets init none
  rw [htr] at h
  exact ghost_scratch_inPlace pre {} rfl rfl (inPlace_prefix pre suf none h)

/-- **C17 for the model of the repaired code, outright**: for every sequence of sets through the
    repaired `_write_file` (any length, values, buffer size; keys prefix-free), every crash
    instant and every crash image under the strict model, every key other than the one being
    written reads its last completed value, or missing if it has none. -/
theorem kvs_crash_safe (rl : Option Nat) (b : Nat) (sets : List (Path × Bytes)) (hv : ValidKeys (sets.map (·.1)))
    (pre suf : List Op) (htr : traceOf .strict (skFixedOf rl) true b init sets = pre ++ suf) :
    ∀ c ∈ crashAfter .strict pre, ∀ k, inProgress pre ≠ some k → recover c k = lastCompleted pre k :=
  fun c hc k hk => crash_safety_core .strict _ pre suf htr (fixed_write_path_wf rl b sets hv) c hc k hk
    (by simp [(scratchOf_fixed rl b sets pre suf htr).1]) (by simp [(scratchOf_fixed rl b sets pre suf htr).2])

/-- non-vacuity: the demo sequence (nested key, second key, overwrite) has valid keys, and the
    theorem gives e.g. durability of key 3 in the middle of the overwrite of 1/2 -/
example : ValidKeys (demoSets.map (·.1)) := by decide
example : ∀ c ∈ crashAfter .strict (demoFixed.take 18), recover c [3] = some [20] := by
  intro c hc
  have := kvs_crash_safe none 16 demoSets (by decide) (demoFixed.take 18) (demoFixed.drop 18)
    (by simp [demoFixed, skFixed]) c hc [3] (by decide)
  rw [this]; decide

/-- the repaired-again write path (whole chain synced, store root = base, i.e. 0 components): a store
    on a fresh two-level root, well-formed by the general theorem, with more directory fsyncs -/
example : WF .strict (traceOf .strict (skFixedOf (some 2)) true 16 init [([7, 8, 1], [10]), ([7, 8, 1], [11])]) = true :=
  fixed_write_path_wf (some 2) 16 _ (by decide)
example : (traceOf .strict (skFixedOf (some 2)) true 16 init [([7, 8, 1], [10]), ([7, 8, 1], [11])]).length = 19 := by decide

end Klong.C17
