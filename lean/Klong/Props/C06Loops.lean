/-
  C06 — the loops of klongpy/autograd.py (numeric_grad, numeric_jacobian, multi_grad_of_fn):
  what they return and what every probe perturbs.  Pure list bookkeeping: the theorems hold
  for ANY scalar type with the operations, so this file imports no Mathlib.
-/
import Klong.Model.C06

namespace Klong.C06

/-! ## list bookkeeping (no algebra needed: any scalar type) -/

section Loops
variable {α : Type} [Add α] [Sub α] [Mul α] [Div α] [NatCast α]

-- keep `x.getD i d` as it is written in the model (core simp would turn it into `x[i]?.getD d`)
attribute [-simp] List.getD_eq_getElem?_getD

omit [Add α] [Sub α] [Mul α] [Div α] [NatCast α] in
theorem set_getD_self (x : List α) (i : Nat) (d : α) : x.set i (x.getD i d) = x := by
  induction x generalizing i with
  | nil => simp
  | cons a x ih =>
    cases i with
    | zero => simp [List.getD_cons_zero]
    | succ i => simpa [List.getD_cons_succ] using ih i

/-- the two arguments `func` is called with for index `i` -/
def probePair (eps : α) (x : List α) (i : Nat) : List (List α) :=
  [x.set i (x.getD i ((0 : Nat) : α) + eps), x.set i (x.getD i ((0 : Nat) : α) - eps)]

theorem gradStep_eq (f : List α → α) (eps : α) (x g : List α) (pr : List (List α)) (idx : Nat) :
    gradStep f eps ⟨x, g, pr⟩ idx =
      ⟨x, g.set idx (centralDiff f eps x idx), pr ++ probePair eps x idx⟩ := by
  simp [gradStep, centralDiff, probePair, List.set_set, set_getD_self]

/-- loop invariant of `numeric_grad` after the indices `< k` -/
structure GInv (f : List α → α) (eps : α) (x : List α) (k : Nat) (s : GState α) : Prop where
  hx : s.x = x
  hlen : s.grad.length = x.length
  hgrad : ∀ i, i < k → s.grad[i]? = some (centralDiff f eps x i)
  hprobes : s.probes = (List.range k).flatMap (probePair eps x)

theorem ginv_fold (f : List α → α) (eps : α) (x : List α) (k : Nat) (hk : k ≤ x.length) :
    GInv f eps x k ((List.range k).foldl (gradStep f eps)
      { x := x, grad := List.replicate x.length ((0 : Nat) : α), probes := [] }) := by
  induction k with
  | zero => exact ⟨rfl, by simp, by intro i hi; omega, by simp⟩
  | succ k ih =>
    have h := ih (by omega)
    rw [List.range_succ, List.foldl_append]
    generalize (List.range k).foldl (gradStep f eps) _ = s at h
    obtain ⟨sx, sg, sp⟩ := s
    obtain ⟨hx, hlen, hgrad, hprobes⟩ := h
    simp only at hx hlen hgrad hprobes
    subst hx
    simp only [List.foldl_cons, List.foldl_nil, gradStep_eq]
    refine ⟨rfl, by simpa using hlen, ?_, ?_⟩
    · intro i hi
      by_cases hik : i = k
      · subst hik
        simp only [List.getElem?_set]
        simp [hlen]
        omega
      · rw [List.getElem?_set_ne (by omega)]
        exact hgrad i (by omega)
    · simp [hprobes, List.flatMap_append, List.range_succ]

theorem numGradState_inv (f : List α → α) (eps : α) (x : List α) :
    GInv f eps x x.length (numGradState f eps x) :=
  ginv_fold f eps x x.length (Nat.le_refl _)

theorem pairs_even {β γ : Type} (a b : β → γ) (l : List β) (k : Nat) :
    (l.flatMap fun i => [a i, b i])[2 * k]? = l[k]?.map a := by
  induction l generalizing k with
  | nil => simp
  | cons c l ih =>
    cases k with
    | zero => simp
    | succ k =>
      have : 2 * (k + 1) = 2 * k + 1 + 1 := by omega
      simp [List.flatMap_cons, this, ih]

theorem pairs_odd {β γ : Type} (a b : β → γ) (l : List β) (k : Nat) :
    (l.flatMap fun i => [a i, b i])[2 * k + 1]? = l[k]?.map b := by
  induction l generalizing k with
  | nil => simp
  | cons c l ih =>
    cases k with
    | zero => simp
    | succ k =>
      have : 2 * (k + 1) + 1 = (2 * k + 1) + 1 + 1 := by omega
      simp [List.flatMap_cons, this, ih]

/-! ## property theorems: numeric_grad -/

/-- **numeric_grad returns the central difference, component by component.**
    For every function `f`, step `eps`, point `x` and index `idx` inside `x`:
    1. component `idx` of the result is `(f(x + eps·e_idx) − f(x − eps·e_idx)) / (2·eps)`;
    2. the two calls of `f` made for `idx` are calls number `2·idx` and `2·idx+1`, with
       exactly those two arguments;
    3. in both, every component other than `idx` has the value it has in `x`. -/
theorem numgrad_is_central_diff (f : List α → α) (eps : α) (x : List α) (idx : Nat)
    (h : idx < x.length) :
    (numGrad f eps x)[idx]? = some
      ((f (x.set idx (x.getD idx ((0 : Nat) : α) + eps)) -
        f (x.set idx (x.getD idx ((0 : Nat) : α) - eps))) / (((2 : Nat) : α) * eps))
    ∧ (numGradState f eps x).probes[2 * idx]? =
        some (x.set idx (x.getD idx ((0 : Nat) : α) + eps))
    ∧ (numGradState f eps x).probes[2 * idx + 1]? =
        some (x.set idx (x.getD idx ((0 : Nat) : α) - eps))
    ∧ ∀ (t : α) (j : Nat), j ≠ idx → (x.set idx t)[j]? = x[j]? := by
  have inv := numGradState_inv f eps x
  refine ⟨?_, ?_, ?_, ?_⟩
  · simpa [numGrad, centralDiff] using inv.hgrad idx h
  · rw [inv.hprobes]
    refine (pairs_even (fun i => x.set i (x.getD i ((0 : Nat) : α) + eps))
      (fun i => x.set i (x.getD i ((0 : Nat) : α) - eps)) (List.range x.length) idx).trans ?_
    simp [h]
  · rw [inv.hprobes]
    refine (pairs_odd (fun i => x.set i (x.getD i ((0 : Nat) : α) + eps))
      (fun i => x.set i (x.getD i ((0 : Nat) : α) - eps)) (List.range x.length) idx).trans ?_
    simp [h]
  · intro t j hj
    exact List.getElem?_set_ne (Ne.symm hj)

/-- the result has the shape of the point; `f` is called exactly `2·n` times -/
theorem numgrad_shape (f : List α → α) (eps : α) (x : List α) :
    (numGrad f eps x).length = x.length ∧ (numGradState f eps x).probes.length = 2 * x.length := by
  have inv := numGradState_inv f eps x
  refine ⟨inv.hlen, ?_⟩
  rw [inv.hprobes]
  generalize x.length = n
  induction n with
  | zero => simp
  | succ n ih => simp [List.range_succ, List.flatMap_append, probePair, ih]; omega

/-- the in-place perturbation is undone: the working array ends equal to the point -/
theorem numgrad_restores (f : List α → α) (eps : α) (x : List α) :
    (numGradState f eps x).x = x := (numGradState_inv f eps x).hx

/-! ## numeric_jacobian -/

/-- `J[i, j]` of a matrix stored as a list of rows -/
def entry? (J : List (List α)) (i j : Nat) : Option α := J[i]?.bind (·[j]?)

structure JInv (g : List α → List α) (eps : α) (x : List α) (m k : Nat) (s : JState α) : Prop where
  hrows : s.jac.length = m
  hcols : ∀ i, i < m → ∃ row, s.jac[i]? = some row ∧ row.length = x.length ∧
            ∀ j, j < k → row[j]? = some (centralDiff (fun y => (g y).getD i ((0 : Nat) : α)) eps x j)
  hprobes : s.probes = x :: (List.range k).flatMap (probePair eps x)

omit [Add α] in
theorem colDiff_getElem? (eps : α) (fp fm : List α) (i : Nat) (hp : i < fp.length) (hm : i < fm.length) :
    (colDiff eps fp fm)[i]? =
      some ((fp.getD i ((0 : Nat) : α) - fm.getD i ((0 : Nat) : α)) / (((2 : Nat) : α) * eps)) := by
  simp [colDiff, List.getElem?_zipWith, List.getD_eq_getElem?_getD, List.getElem?_eq_getElem hp,
    List.getElem?_eq_getElem hm]

theorem jinv_fold (g : List α → List α) (eps : α) (x : List α) (m : Nat)
    (hlen : ∀ y, (g y).length = m) (k : Nat) (hk : k ≤ x.length) :
    JInv g eps x m k ((List.range k).foldl (jacStep g eps x)
      { jac := List.replicate m (List.replicate x.length ((0 : Nat) : α)), probes := [x] }) := by
  induction k with
  | zero =>
    refine ⟨by simp, ?_, by simp⟩
    intro i hi
    exact ⟨List.replicate x.length ((0 : Nat) : α), by simp [hi], by simp, by intro j hj; omega⟩
  | succ k ih =>
    have h := ih (by omega)
    rw [List.range_succ, List.foldl_append]
    generalize (List.range k).foldl (jacStep g eps x) _ = s at h
    obtain ⟨sj, sp⟩ := s
    obtain ⟨hrows, hcols, hprobes⟩ := h
    simp only at hrows hcols hprobes
    simp only [List.foldl_cons, List.foldl_nil, jacStep]
    have hcl : (colDiff eps (g (x.set k (x.getD k ((0 : Nat) : α) + eps)))
        (g (x.set k (x.getD k ((0 : Nat) : α) - eps)))).length = m := by
      simp [colDiff, hlen]
    refine ⟨by simp [setCol, hrows, hcl], ?_, ?_⟩
    · intro i hi
      obtain ⟨row, hrow, hrl, hrj⟩ := hcols i hi
      have hc := colDiff_getElem? eps (g (x.set k (x.getD k ((0 : Nat) : α) + eps)))
        (g (x.set k (x.getD k ((0 : Nat) : α) - eps))) i (by rw [hlen]; exact hi) (by rw [hlen]; exact hi)
      refine ⟨row.set k ((((g (x.set k (x.getD k ((0 : Nat) : α) + eps))).getD i ((0 : Nat) : α)) -
          ((g (x.set k (x.getD k ((0 : Nat) : α) - eps))).getD i ((0 : Nat) : α))) /
          (((2 : Nat) : α) * eps)), ?_, by simpa using hrl, ?_⟩
      · simp [setCol, List.getElem?_zipWith, hrow, hc]
      · intro j hj
        by_cases hjk : j = k
        · subst hjk
          simp only [List.getElem?_set]
          simp [hrl, centralDiff]
          omega
        · rw [List.getElem?_set_ne (by omega)]
          exact hrj j (by omega)
    · simp [hprobes, List.flatMap_append, probePair, List.range_succ]

/-- **orientation of numeric_jacobian**: for `g : αⁿ → αᵐ` (every call returning `m` values),
    row `i`, column `j` of the result is the central difference of *output `i`* in
    *input `j`*; the probes are `x` itself, then `x ± eps·e_j` for `j = 0, 1, …` -/
theorem jacobian_is_central_diff (g : List α → List α) (eps : α) (x : List α)
    (hlen : ∀ y, (g y).length = (g x).length) (i j : Nat) (hi : i < (g x).length) (hj : j < x.length) :
    entry? (numJacobian g eps x) i j =
      some (centralDiff (fun y => (g y).getD i ((0 : Nat) : α)) eps x j)
    ∧ (numJacobian g eps x).length = (g x).length
    ∧ (numJacState g eps x).probes = x :: (List.range x.length).flatMap (probePair eps x) := by
  have inv := jinv_fold g eps x (g x).length hlen x.length (Nat.le_refl _)
  obtain ⟨row, hrow, _, hrj⟩ := inv.hcols i hi
  refine ⟨?_, inv.hrows, inv.hprobes⟩
  simp only [entry?, numJacobian, numJacState]
  rw [hrow]
  simpa using hrj j hj

/-! ## multi_grad_of_fn, numeric branch -/

theorem multiGrad_fold (f : List (List α) → α) (eps : α) (params : List (List α)) (k : Nat) :
    (List.range k).foldl
      (fun (s : MState α) i =>
        let g := numGradState (singleParamFn f params i) eps (params.getD i [])
        { grads := s.grads ++ [g.grad], probes := s.probes ++ g.probes.map (fun v => params.set i v) })
      { grads := [], probes := [] } =
    { grads := (List.range k).map fun i => numGrad (singleParamFn f params i) eps (params.getD i [])
      probes := (List.range k).flatMap fun i =>
        (numGradState (singleParamFn f params i) eps (params.getD i [])).probes.map
          (fun v => params.set i v) } := by
  induction k with
  | zero => simp
  | succ k ih =>
    rw [List.range_succ, List.foldl_append, ih]
    simp [List.flatMap_append, numGrad]

/-- **loss:>[w b …] differentiates one parameter at a time.**  For parameter `j` and index
    `idx` inside it, the result is the central difference of the loss in that one component
    with *every other parameter bound to its original value*; all bindings the loss is ever
    evaluated under while parameter `j` is processed agree with the originals outside `j`. -/
theorem multi_grad_separates (f : List (List α) → α) (eps : α) (params : List (List α))
    (j idx : Nat) (hj : j < params.length) (hidx : idx < (params.getD j []).length) :
    entry? (multiGrad f eps params) j idx = some
      ((f (params.set j ((params.getD j []).set idx ((params.getD j []).getD idx ((0 : Nat) : α) + eps))) -
        f (params.set j ((params.getD j []).set idx ((params.getD j []).getD idx ((0 : Nat) : α) - eps)))) /
        (((2 : Nat) : α) * eps))
    ∧ (multiGrad f eps params).length = params.length
    ∧ ∀ q ∈ (numGradState (singleParamFn f params j) eps (params.getD j [])).probes.map
          (fun v => params.set j v), ∀ j', j' ≠ j → q[j']? = params[j']? := by
  refine ⟨?_, ?_, ?_⟩
  · simp only [entry?, multiGrad, multiGradState, multiGrad_fold]
    simp only [List.getElem?_map, List.getElem?_range hj, Option.map_some, Option.bind_some]
    have := (numgrad_is_central_diff (singleParamFn f params j) eps (params.getD j []) idx hidx).1
    simpa [singleParamFn] using this
  · simp [multiGrad, multiGradState, multiGrad_fold]
  · intro q hq j' hj'
    obtain ⟨v, _, rfl⟩ := List.mem_map.mp hq
    exact List.getElem?_set_ne (Ne.symm hj')

end Loops


end Klong.C06
