/-
  C12 — helper lemmas, part 2: the `SatW` predicate (a result is neither `.spin` nor `.outOfFuel`,
  its steps are bounded) and its composition lemmas.
-/
import Klong.Props.C12Lexer
namespace Klong.C12

/-! ## results that are neither `.spin` nor `.outOfFuel`, with a cost bound

  `SatW W P E r`: `r` is `ok i v _ st` with `st ≤ q * W` and `P i v q`, or an error with
  `st ≤ q * W` and `E q`.  `W` is the unit of work (1 for the lexer, `|t| + 2` for the parser:
  one look-ahead token costs at most a constant number of units). -/

def SatW {α : Type} (W : Nat) (P : Nat → α → Nat → Prop) (E : Nat → Prop) : Res α → Prop
  | .ok i v _ st => ∃ q, st ≤ q * W ∧ P i v q
  | .err _ _ st => ∃ q, st ≤ q * W ∧ E q
  | .spin _ => False
  | .outOfFuel => False

theorem satW_ok {α} {W : Nat} {P : Nat → α → Nat → Prop} {E : Nat → Prop} {i : Nat} {v : α} {m : PState} {st : Nat}
    (q : Nat) (h1 : st ≤ q * W) (h2 : P i v q) : SatW W P E (.ok i v m st) := ⟨q, h1, h2⟩

theorem satW_err {α} {W : Nat} {P : Nat → α → Nat → Prop} {E : Nat → Prop} {e : Err} {m : PState} {st : Nat}
    (q : Nat) (h1 : st ≤ q * W) (h2 : E q) : SatW W P E (.err e m st : Res α) := ⟨q, h1, h2⟩

theorem satW_mono {α} {W : Nat} {P P' : Nat → α → Nat → Prop} {E E' : Nat → Prop} {r : Res α}
    (h : SatW W P E r) (hP : ∀ i v q, P i v q → P' i v q) (hE : ∀ q, E q → E' q) : SatW W P' E' r := by
  cases r with
  | ok i v m st => obtain ⟨q, h1, h2⟩ := h; exact ⟨q, h1, hP _ _ _ h2⟩
  | err e m st => obtain ⟨q, h1, h2⟩ := h; exact ⟨q, h1, hE _ h2⟩
  | spin st => exact h
  | outOfFuel => exact h

theorem satW_addSteps {α} {W : Nat} {P : Nat → α → Nat → Prop} {E : Nat → Prop} {r : Res α} {k : Nat}
    (c : Nat) (hk : k ≤ c * W)
    (h : SatW W (fun i v q => P i v (q + c)) (fun q => E (q + c)) r) : SatW W P E (r.addSteps k) := by
  cases r with
  | ok i v m st =>
    obtain ⟨q, h1, h2⟩ := h
    exact ⟨q + c, by rw [Nat.add_mul]; omega, h2⟩
  | err e m st =>
    obtain ⟨q, h1, h2⟩ := h
    exact ⟨q + c, by rw [Nat.add_mul]; omega, h2⟩
  | spin st => exact h
  | outOfFuel => exact h

theorem satW_bind {α β} {W : Nat} {P1 : Nat → α → Nat → Prop} {E1 : Nat → Prop}
    {P : Nat → β → Nat → Prop} {E : Nat → Prop} {r : Res α} {k : Nat → α → PState → Res β}
    (h : SatW W P1 E1 r) (hE : ∀ q, E1 q → E q)
    (hk : ∀ i v m q1, P1 i v q1 → SatW W (fun i' v' q => P i' v' (q + q1)) (fun q => E (q + q1)) (k i v m)) :
    SatW W P E (r.bind k) := by
  cases r with
  | ok i v m st =>
    obtain ⟨q1, h1, h2⟩ := h
    exact satW_addSteps q1 h1 (hk i v m q1 h2)
  | err e m st =>
    obtain ⟨q, h1, h2⟩ := h
    exact ⟨q, h1, hE _ h2⟩
  | spin st => exact h
  | outOfFuel => exact h

theorem satW_cexpect {α} {W : Nat} {P : Nat → α → Nat → Prop} {E : Nat → Prop} {t : Text} {i : Nat} {c : Char}
    {m : PState} {k : Nat → Res α} (hW : 1 ≤ W) (hE : E 1)
    (hk : cmatch t i c = true → SatW W P E (k (i + 1))) : SatW W P E (cexpect t i c m k) := by
  unfold cexpect
  split
  · rename_i h; exact hk h
  · exact satW_err 1 (by omega) hE

/-- fuel needed by a function of rank `r` started at index `i` of a text of length `n` -/
abbrev need (n i r : Nat) : Nat := 8 * (n + 1 - i) + r

/-! ## the lexer: `kg_read` / `read_list` -/

/-- post-condition of `kgRead` started at `i`: inside the text, `None` only at the end of the
    text, a token only after progress; steps linear in the distance -/
def KG (n i : Nat) : Nat → Node → Nat → Prop := fun i' v q =>
  i ≤ i' ∧ i' ≤ n + 1 ∧ (v.isNone = true → n ≤ i' ∧ q ≤ (i' - i) + 1) ∧
  (v.isNone = false → i < i' ∧ q + 4 ≤ 8 * (i' - i))

def KGE (n i : Nat) : Nat → Prop := fun q => q ≤ 8 * (n + 1 - i) + 2

def RL (n i : Nat) : Nat → List Node → Nat → Prop := fun i' _ q => i ≤ i' ∧ i' ≤ n + 1 ∧ q ≤ 8 * (i' - i) + 2
def RLE (n i : Nat) : Nat → Prop := fun q => q ≤ 8 * (n + 1 - i) + 3
def RLL (n i : Nat) : Nat → List Node → Nat → Prop := fun i' _ q => i ≤ i' ∧ i' ≤ n + 1 ∧ q ≤ 8 * (i' - i) + 1
def RLLE (n i : Nat) : Nat → Prop := fun q => q ≤ 8 * (n + 1 - i) + 2

theorem getElem?_none_le {t : Text} {i : Nat} (h : t[i]? = none) : t.length ≤ i := by
  simpa using h

end Klong.C12
