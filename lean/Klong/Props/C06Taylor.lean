/-
  C06 (stretch) — truncation error of the central difference for C³ functions.

  `numeric_grad` returns `(f(x+h) − f(x−h)) / (2h)` along each coordinate
  (`Klong.C06.numgrad_is_central_diff`).  For a three times continuously differentiable
  `f : ℝ → ℝ` whose third derivative is bounded by `M` on `[x−h, x+h]`:

      |(f(x+h) − f(x−h)) / (2h) − f'(x)|  ≤  M · h² / 6

  With h = 1e-6 this is the property's "about 1e-5 relative" whenever M·h²/6 ≤ 1e-5·|f'(x)|,
  i.e. |f'''| ≤ 6e7·|f'| near x; IEEE rounding of the quotient is not part of this statement.

  This is the one file with a heavy Mathlib import (Taylor's theorem, Lagrange remainder).
-/
import Klong.Props.C06Loops
import Mathlib.Analysis.Calculus.Taylor

namespace Klong.C06

open Set

/-- Taylor expansion to second order with Lagrange remainder, from `x` to `x + d`, `d ≠ 0` -/
theorem taylor2 (f : ℝ → ℝ) (hf : ContDiff ℝ 3 f) (x d : ℝ) (hd : d ≠ 0) :
    ∃ ξ ∈ uIoo x (x + d),
      f (x + d) = f x + deriv f x * d + iteratedDeriv 2 f x * d ^ 2 / 2
        + iteratedDeriv 3 f ξ * d ^ 3 / 6 := by
  have hne : x ≠ x + d := by
    intro h; apply hd; linarith
  obtain ⟨ξ, hξ, e⟩ := taylor_mean_remainder_lagrange_iteratedDeriv (f := f) (x₀ := x) (x := x + d)
    (n := 2) hne hf.contDiffOn
  refine ⟨ξ, hξ, ?_⟩
  have hu : UniqueDiffOn ℝ (uIcc x (x + d)) := uniqueDiffOn_uIcc hne
  have hx : x ∈ uIcc x (x + d) := left_mem_uIcc
  have h1 : iteratedDerivWithin 1 f (uIcc x (x + d)) x = deriv f x := by
    rw [iteratedDerivWithin_eq_iteratedDeriv hu (hf.contDiffAt.of_le (by norm_num)) hx, iteratedDeriv_one]
  have h2 : iteratedDerivWithin 2 f (uIcc x (x + d)) x = iteratedDeriv 2 f x :=
    iteratedDerivWithin_eq_iteratedDeriv hu (hf.contDiffAt.of_le (by norm_num)) hx
  simp only [taylorWithinEval_succ, taylor_within_zero_eval, h1, h2, smul_eq_mul] at e
  simp only [Nat.factorial, add_sub_cancel_left] at e
  norm_num at e
  linarith

/-- **truncation error of the central difference** -/
theorem central_diff_error (f : ℝ → ℝ) (hf : ContDiff ℝ 3 f) (x h M : ℝ) (hh : 0 < h)
    (hM : ∀ t ∈ Icc (x - h) (x + h), |iteratedDeriv 3 f t| ≤ M) :
    |(f (x + h) - f (x - h)) / (2 * h) - deriv f x| ≤ M * h ^ 2 / 6 := by
  obtain ⟨ξ₁, hξ₁, e₁⟩ := taylor2 f hf x h (ne_of_gt hh)
  obtain ⟨ξ₂, hξ₂, e₂⟩ := taylor2 f hf x (-h) (by linarith)
  have hm₁ : ξ₁ ∈ Icc (x - h) (x + h) := by
    rw [uIoo_of_lt (by linarith)] at hξ₁
    exact ⟨by linarith [hξ₁.1], le_of_lt hξ₁.2⟩
  have hm₂ : ξ₂ ∈ Icc (x - h) (x + h) := by
    rw [uIoo_of_gt (by linarith)] at hξ₂
    exact ⟨by linarith [hξ₂.1], by linarith [hξ₂.2]⟩
  have b₁ := hM ξ₁ hm₁
  have b₂ := hM ξ₂ hm₂
  have hsub : x + -h = x - h := by ring
  rw [hsub] at e₂
  have key : (f (x + h) - f (x - h)) / (2 * h) - deriv f x =
      (iteratedDeriv 3 f ξ₁ + iteratedDeriv 3 f ξ₂) * h ^ 2 / 12 := by
    rw [e₁, e₂]
    field_simp
    ring
  rw [key, abs_div, abs_mul, abs_of_pos (by positivity : (0 : ℝ) < h ^ 2),
    abs_of_pos (by norm_num : (0 : ℝ) < 12)]
  have hs : |iteratedDeriv 3 f ξ₁ + iteratedDeriv 3 f ξ₂| ≤ M + M :=
    (abs_add_le _ _).trans (add_le_add b₁ b₂)
  have hh2 : (0 : ℝ) ≤ h ^ 2 := by positivity
  calc |iteratedDeriv 3 f ξ₁ + iteratedDeriv 3 f ξ₂| * h ^ 2 / 12
      ≤ (M + M) * h ^ 2 / 12 := by
        apply div_le_div_of_nonneg_right _ (by norm_num)
        exact mul_le_mul_of_nonneg_right hs hh2
    _ = M * h ^ 2 / 6 := by ring

/-- **numeric_grad's truncation error**: if `f` is C³ along coordinate `idx` near the point,
    with third derivative bounded by `M` on `[x_idx − eps, x_idx + eps]`, then component `idx`
    of `numeric_grad f x` (over the reals: rounding aside) is within `M·eps²/6` of the partial
    derivative. -/
theorem numgrad_truncation (f : List ℝ → ℝ) (x : List ℝ) (idx : Nat) (hidx : idx < x.length)
    (eps M : ℝ) (heps : 0 < eps)
    (hf : ContDiff ℝ 3 (fun t => f (x.set idx t)))
    (hM : ∀ t ∈ Icc (x.getD idx 0 - eps) (x.getD idx 0 + eps),
      |iteratedDeriv 3 (fun t => f (x.set idx t)) t| ≤ M) :
    ∃ g, (numGrad f eps x)[idx]? = some g ∧
      |g - deriv (fun t => f (x.set idx t)) (x.getD idx 0)| ≤ M * eps ^ 2 / 6 := by
  refine ⟨_, (numgrad_is_central_diff f eps x idx hidx).1, ?_⟩
  have h := central_diff_error (fun t => f (x.set idx t)) hf (x.getD idx 0) eps M heps hM
  simpa using h

/-- non-vacuity: `f t = t³` is C³ with third derivative `6`, so `M = 6` and the bound reads
    `|cd − f'(x)| ≤ h²` -/
theorem iteratedDeriv_three_cube (t : ℝ) : iteratedDeriv 3 (fun t : ℝ => t ^ 3) t = 6 := by
  have h1 : deriv (fun t : ℝ => t ^ 3) = fun t => 3 * t ^ 2 := by
    funext t; simp
  have h2 : deriv (fun t : ℝ => 3 * t ^ 2) = fun t => 6 * t := by
    funext t; simp; ring
  have h3 : deriv (fun t : ℝ => 6 * t) = fun _ => 6 := by
    funext t; simp
  simp only [iteratedDeriv_succ, iteratedDeriv_zero, h1, h2, h3]

example (x h : ℝ) (hh : 0 < h) :
    |((x + h) ^ 3 - (x - h) ^ 3) / (2 * h) - deriv (fun t : ℝ => t ^ 3) x| ≤ 6 * h ^ 2 / 6 :=
  central_diff_error (fun t : ℝ => t ^ 3) (by fun_prop) x h 6 hh
    (by intro t _; rw [iteratedDeriv_three_cube]; norm_num)

/-- … and for the cube the error is exactly `h²`: the bound is attained -/
example (x h : ℝ) (hh : 0 < h) :
    |((x + h) ^ 3 - (x - h) ^ 3) / (2 * h) - 3 * x ^ 2| = h ^ 2 := by
  have : ((x + h) ^ 3 - (x - h) ^ 3) / (2 * h) - 3 * x ^ 2 = h ^ 2 := by
    field_simp
    ring
  rw [this, abs_of_nonneg (by positivity)]

end Klong.C06
