/-
  C02 — property theorems: every adverb's implementation model equals the manual's expansion,
  as monadic programs, for every verb in every lawful monad and every operand.
-/
import Klong.Model.C02
import Klong.Props.C01
namespace Klong.C02
open Klong Klong.C01

section generic
variable {m : Type → Type} [Monad m] [LawfulMonad m]

/-! ## helper lemmas -/

theorem pyReduce_eq_refFold (f : V2 m) (acc : Val) (xs : List Val) :
    pyReduce f acc xs = refFold f acc xs := by
  induction xs generalizing acc with
  | nil => simp [pyReduce, refFold]
  | cons x xs ih =>
    simp only [pyReduce, List.foldlM_cons, refFold] at ih ⊢
    congr 1; funext r; exact ih r

theorem pyComp_eq_refMap (f : V1 m) (xs : List Val) : pyComp f xs = refMap f xs := by
  induction xs with
  | nil => simp [pyComp, refMap]
  | cons x xs ih =>
    simp only [pyComp, List.mapM_cons, refMap] at ih ⊢
    congr 1; funext r; rw [ih]

theorem pyAccumulate_eq (f : V2 m) (acc : Val) (xs out : List Val) :
    pyAccumulate f acc xs out = (fun rs => out.reverse ++ rs) <$> refScan f acc xs := by
  induction xs generalizing acc out with
  | nil => simp [pyAccumulate, refScan]
  | cons x xs ih =>
    simp only [pyAccumulate, refScan, map_bind, ih]
    congr 1; funext r
    simp [List.reverse_cons, List.append_assoc]

theorem pyZipComp_eq (f : V2 m) (xs ys : List Val) : pyZipComp f xs ys = refZipWith f xs ys := by
  induction xs generalizing ys with
  | nil => cases ys <;> simp [pyZipComp, refZipWith]
  | cons x xs ih =>
    cases ys with
    | nil => simp [pyZipComp, refZipWith]
    | cons y ys => simp only [pyZipComp, refZipWith, ih]

theorem implScanIterAux_eq (f : V1 m) (n : Nat) (b : Val) (out : List Val) :
    implScanIterAux f n b (b :: out) = (fun rs => out.reverse ++ rs) <$> refScanIter f n b := by
  induction n generalizing b out with
  | zero => simp [implScanIterAux, refScanIter]
  | succ n ih =>
    simp only [implScanIterAux, refScanIter, map_bind, ih]
    congr 1; funext r
    simp [List.reverse_cons, List.append_assoc]

/-! ------------------------------------------------------------------------------------
  ## Property theorems (C02)
------------------------------------------------------------------------------------- -/

/-- **over_eq**: `f/a` — atom, single element, empty, string and list cases, no shortcut -/
theorem over_eq (f : V2 m) (a : Val) : implOver f none a = refOver f a := by
  unfold implOver refOver
  cases h : elems a with
  | none => rfl
  | some xs =>
    cases xs with
    | nil => rfl
    | cons x xs =>
      cases xs with
      | nil => simp [refFold]
      | cons y ys => simp [pyReduce_eq_refFold]

/-- **over_neutral_eq**: `a f/b` is the fold of f from a over the members of b -/
theorem over_neutral_eq (f : V2 m) (a b : Val) : implOverNeutral f a b = refOverNeutral f a b := by
  unfold implOverNeutral refOverNeutral
  cases h : elems b with
  | none => rfl
  | some xs =>
    cases xs with
    | nil => simp [refFold]
    | cons x xs => simp [refFold, pyReduce_eq_refFold]

/-- **scan_eq**: `f\a` collects the prefixes of the fold -/
theorem scan_eq (f : V2 m) (a : Val) : implScanOver f none a = refScanOver f a := by
  unfold implScanOver refScanOver
  cases h : elems a with
  | none => rfl
  | some xs =>
    cases xs with
    | nil => rfl
    | cons x xs => simp [pyAccumulate_eq]

/-- **scan_neutral_eq**: `a f\b` is a, f(a;b1), f(f(a;b1);b2), … -/
theorem scan_neutral_eq (f : V2 m) (a b : Val) :
    implScanOverNeutral f a b = refScanOverNeutral f a b := by
  unfold implScanOverNeutral refScanOverNeutral
  cases h : elems b with
  | none => simp [refScan]
  | some xs =>
    cases xs with
    | nil => rfl
    | cons x xs => simp [refScan, pyAccumulate_eq]

/-- **each_eq**: `f'a` is f(a1),…,f(aN); atom and empty-list clauses -/
theorem each_eq (f : V1 m) (a : Val) : implEach f a = refEach f a := by
  unfold implEach refEach
  split <;> simp [pyComp_eq_refMap]

theorem each_left_eq (f : V2 m) (a b : Val) : implEachLeft f a b = refEachLeft f a b := by
  unfold implEachLeft refEachLeft
  cases elems b <;> simp [pyComp_eq_refMap]

theorem each_right_eq (f : V2 m) (a b : Val) : implEachRight f a b = refEachRight f a b := by
  unfold implEachRight refEachRight
  cases elems b <;> simp [pyComp_eq_refMap]

/-- **each_pair_eq**: `f:'a` is f(a1;a2), f(a2;a3), …; atoms and single elements unchanged -/
theorem each_pair_eq (f : V2 m) (a : Val) : implEachPair f a = refEachPair f a := by
  unfold implEachPair refEachPair
  cases h : elems a with
  | none => rfl
  | some xs =>
    cases xs with
    | nil => rfl
    | cons x xs =>
      cases xs with
      | nil => rfl
      | cons y ys => simp [pyZipComp_eq]

/-- **iterate_eq**: `n f:*b` applies f exactly n times -/
theorem iterate_eq (f : V1 m) (n : Nat) (b : Val) : implIterate f n b = refIterate f n b := by
  induction n generalizing b with
  | zero => rfl
  | succ n ih => simp only [implIterate, refIterate, ih]

/-- **scan_iterating_eq**: `n f\*b` is b, f(b), …, fⁿ(b) -/
theorem scan_iterating_eq (f : V1 m) (n : Nat) (b : Val) :
    implScanIter f n b = refScanIter f n b := by
  simp [implScanIter, implScanIterAux_eq]

end generic

/-! ### the operator shortcuts are the generic fold (verbs that are operators are pure) -/

theorem implA2_fun_eq (op : AOp) : implA2 (scalar2 op) = refA2 (scalar2 op) :=
  funext fun a => funext fun b => (atomic_dyad_correct (scalar2 op)).1 a b

theorem foldlM_implA2_eq (op : AOp) (xs : List Val) (acc : Val) :
    xs.foldlM (fun acc y => implA2 (scalar2 op) acc y) acc
      = refFold (m := Option) (refA2 (scalar2 op)) acc xs := by
  rw [implA2_fun_eq]
  exact pyReduce_eq_refFold (m := Option) (refA2 (scalar2 op)) acc xs

theorem ufuncReduce_eq (op : AOp) (x : Val) (xs : List Val) :
    ufuncReduce op (x :: xs) = refFold (m := Option) (refA2 (scalar2 op)) x xs := by
  simp [ufuncReduce, foldlM_implA2_eq]

/-- **over_shortcut_sound**: `np.add.reduce` / `subtract` / `multiply` / `min` / `max` used by
    Over for operator verbs return what the plain fold of the dyad returns -/
theorem over_shortcut_sound (op : AOp) (a : Val) :
    implOver (m := Option) (refA2 (scalar2 op)) (some (ufuncReduce op)) a
      = refOver (m := Option) (refA2 (scalar2 op)) a := by
  unfold implOver refOver
  cases h : elems a with
  | none => rfl
  | some xs =>
    cases xs with
    | nil => rfl
    | cons x xs =>
      cases xs with
      | nil => simp [refFold]
      | cons y ys => simp only [ufuncReduce_eq]

theorem ufuncAccumulate_go_eq (op : AOp) (acc : Val) (xs : List Val) :
    (ufuncAccumulate.go op acc xs).map (fun r => acc :: r)
      = refScan (m := Option) (refA2 (scalar2 op)) acc xs := by
  induction xs generalizing acc with
  | nil => simp [ufuncAccumulate.go, refScan]
  | cons y ys ih =>
    simp only [ufuncAccumulate.go, refScan, implA2_fun_eq]
    cases hr : refA2 (scalar2 op) acc y with
    | none => simp
    | some r =>
      have := ih r
      cases hg : ufuncAccumulate.go op r ys with
      | none => rw [hg] at this; simp [hg, ← this]
      | some rs => rw [hg] at this; simp [hg, ← this]

/-- **scan_shortcut_sound**: `ufunc.accumulate` = the prefixes of the fold -/
theorem scan_shortcut_sound (op : AOp) (a : Val) :
    implScanOver (m := Option) (refA2 (scalar2 op)) (some (ufuncAccumulate op)) a
      = refScanOver (m := Option) (refA2 (scalar2 op)) a := by
  unfold implScanOver refScanOver
  cases h : elems a with
  | none => rfl
  | some xs =>
    cases xs with
    | nil => rfl
    | cons x xs =>
      simp only [ufuncAccumulate]
      rw [← ufuncAccumulate_go_eq]
      cases ufuncAccumulate.go op x xs <;> rfl

/-! ### counting: Over calls its verb exactly n−1 times, in order -/

theorem refFold_log_length (name : String) (xs : List Val) :
    ∀ (acc : Val) (l0 : List (List Val)) (v : Val) (log : List (List Val)),
      (refFold (logged2 name) acc xs).run l0 = some (v, log) →
      log.length = l0.length + xs.length := by
  induction xs with
  | nil =>
    intro acc l0 v log h
    simp [refFold, StateT.run, pure, StateT.pure] at h
    simp [← h.2]
  | cons y ys ih =>
    intro acc l0 v log h
    simp only [refFold, logged2, StateT.run_bind] at h
    cases hd : dyadVerb name acc y with
    | none =>
      simp [hd, StateT.run, failure, StateT.failure, Alternative.failure, modify, modifyGet,
        MonadStateOf.modifyGet, StateT.modifyGet, bind, StateT.bind, pure] at h
    | some r =>
      simp [hd, StateT.run, StateT.pure, pure, modify, modifyGet,
        MonadStateOf.modifyGet, StateT.modifyGet, bind, StateT.bind] at h
      have := ih r (l0 ++ [[acc, y]]) v log h
      simp at this ⊢; omega

/-- in the logging monad the call log of `f/[a1 … aN]` has exactly N−1 entries when no call
    fails -/
theorem over_calls_verb_n_minus_1_times (name : String) (x : Val) (xs : List Val)
    (v : Val) (log : List (List Val))
    (h : (implOver (logged2 name) none (.list (x :: xs))).run [] = some (v, log)) :
    log.length = xs.length := by
  rw [over_eq] at h
  simp only [refOver, elems] at h
  simpa using refFold_log_length name xs x [] v log h

/-- non-vacuity: a concrete run with a non-commutative verb; the log shows the calls in order -/
example : ((implOver (logged2 ",") none (.list [.int 1, .int 2, .int 3])).run []).map
      (fun p => (p.1.toWire, showLog p.2))
    = some ("(L (i 1) (i 2) (i 3))", "(i 1),(i 2)|(L (i 1) (i 2)),(i 3)") := by
  decide

end Klong.C02
