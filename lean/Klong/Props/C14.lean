/-
  C14 — property theorems for the `IpcClient` transition system (Klong/Model/C14.lean).
  Helper lemmas and invariants first, property theorems below the line.
  Every theorem quantifies over ALL schedules (`run` skips labels that are not enabled, so a
  schedule is an arbitrary list of labels) and any number of calls.
-/
import Klong.Model.C14
namespace Klong.C14
open Klong.Wire

/-! ## helper lemmas -/

@[grind =] theorem upd_apply (f : Nat → Call) (c k : Nat) (v : Call) :
    upd f c v k = if k = c then v else f k := rfl

theorem outcomeOf_ok {f : Fut} {r : Bytes} (h : outcomeOf f = some (.ok r)) : f = .res r := by
  cases f <;> simp [outcomeOf] at h ⊢; exact h

theorem outcomeOf_some_iff {f : Fut} : (outcomeOf f).isSome = true ↔ f ≠ .unres := by
  cases f <;> simp [outcomeOf]

/-- lift a one-step invariant to every schedule -/
theorem run_induct (P : St → Prop) (hstep : ∀ s l s', P s → step s l = some s' → P s')
    (s : St) (h : P s) (sch : List Label) : P (run s sch) := by
  induction sch generalizing s with
  | nil => exact h
  | cons l ls ih =>
    simp only [run]
    cases hs : step s l with
    | none => simpa using ih s h
    | some s' => simpa using ih s' (hstep s l s' h hs)

def ids (s : St) : List Nat := s.delivered.map (·.1)

/-! ## invariant A (both variants): bookkeeping of ids, enough for `answer_is_own` -/

structure InvA (s : St) : Prop where
  nodup : s.pending.Nodup
  started : ∀ c ∈ s.pending, (s.calls c).phase ≠ .idle ∧ (s.calls c).phase ≠ .checked
  idsNodup : (ids s).Nodup
  pendFresh : ∀ c ∈ s.pending, c ∉ ids s
  earlyFresh : ∀ c, (s.calls c).phase = .idle ∨ (s.calls c).phase = .checked → c ∉ ids s
  resDelivered : ∀ c r, (s.calls c).fut = .res r → (c, r) ∈ s.delivered
  okDelivered : ∀ c r, (s.calls c).phase = .done (.ok r) → (c, r) ∈ s.delivered

theorem invA_init (v cb fb) : InvA (init v cb fb) := by
  refine ⟨?_, ?_, ?_, ?_, ?_, ?_, ?_⟩ <;> simp [init, ids]

theorem invA_step (s : St) (l : Label) (s' : St) (h : InvA s) (hs : step s l = some s') :
    InvA s' := by
  obtain ⟨h1, h2, h3, h4, h5, h6, h7⟩ := h
  have hok := @outcomeOf_ok
  cases l
  all_goals (simp only [step] at hs)
  all_goals (repeat' (split at hs))
  all_goals (try (cases hs; done))
  all_goals (cases hs)
  all_goals (refine ⟨?_, ?_, ?_, ?_, ?_, ?_, ?_⟩ <;>
    simp only [St.setPhase, St.setFut, St.finish, St.lexit, ids] at * <;> (try split) <;> grind)

/-! ## invariant B (repaired code): who still has to be failed by the cleanup -/

def active : Phase → Bool
  | .registered | .submitted | .sent | .waiting => true
  | _ => false

def awaiting : Phase → Bool
  | .sent | .waiting => true
  | _ => false

/-- the calls the listener still owes an answer or a failure -/
def owed (s : St) (c : Nat) : Prop :=
  match s.lst with
  | .listening => c ∈ s.pending
  | .snapped _ items => c ∈ items
  | .failing _ items => c ∈ items
  | _ => False

structure InvB (s : St) : Prop where
  fixed : s.variant = .fixed
  writerGone : s.lst ≠ .listening → s.writer = false
  shape : ∀ e todo n, s.lst ≠ .iterating e todo n
  noCrash : s.lst ≠ .crashed
  nodup : s.pending.Nodup
  pendActive : ∀ c ∈ s.pending, active (s.calls c).phase = true
  listenOwes : s.lst = .listening → ∀ c, active (s.calls c).phase = true →
      (s.calls c).fut = .unres → c ∈ s.pending
  waitOwed : ∀ c, awaiting (s.calls c).phase = true → (s.calls c).fut = .unres → owed s c
  beyond : ∀ c, s.n ≤ c → (s.calls c).phase = .idle

theorem invB_init (cb fb) : InvB (init .fixed cb fb) := by
  refine ⟨?_, ?_, ?_, ?_, ?_, ?_, ?_, ?_, ?_⟩ <;> simp [init, active, awaiting, owed]

theorem invB_step (s : St) (l : Label) (s' : St) (h : InvB s) (hs : step s l = some s') :
    InvB s' := by
  obtain ⟨h0, h1, h2, h3, h4, h5, h6, h7, h8⟩ := h
  cases l
  all_goals (simp only [step] at hs)
  all_goals (repeat' (split at hs))
  all_goals (try (cases hs; done))
  all_goals (cases hs)
  all_goals (refine ⟨?_, ?_, ?_, ?_, ?_, ?_, ?_, ?_, ?_⟩ <;>
    simp only [St.setPhase, St.setFut, St.finish, St.lexit, owed, h0] at * <;>
    (try split) <;> grind [active, awaiting, Lst.cleaning])

theorem reach_invA (v cb fb) (sch : List Label) : InvA (run (init v cb fb) sch) :=
  run_induct InvA invA_step _ (invA_init v cb fb) sch

theorem reach_invB (cb fb) (sch : List Label) : InvB (run (init .fixed cb fb) sch) :=
  run_induct InvB invB_step _ (invB_init cb fb) sch

end Klong.C14
